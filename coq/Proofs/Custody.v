(* C17 -- lemmas about the custody model (Model/Custody.v) and the spec checker (Model/C17Check.v). *)
From Sekai Require Import Base.Prelude Model.Custody Model.C17Check.
From Coq Require Import ZifyBool.

Ltac dmatch_in H :=
  match type of H with
  | context [match ?x with _ => _ end] => destruct x eqn:?
  end.
Ltac dmatch_goal :=
  match goal with
  | |- context [match ?x with _ => _ end] => destruct x eqn:?
  end.

(* ---------------------------------------------------------------- basic facts *)
Lemma marks_setA : forall s i a, marks (setA s i a) = marks s.
Proof. reflexivity. Qed.

Lemma send_marks : forall s a b x s', send s a b x = Ok s' -> marks s' = marks s.
Proof. unfold send; intros s a b x s' E. destruct (negb (coins_valid x)); [discriminate|]. destruct (can_pay (a_bal (getA s a)) x); inversion E; reflexivity. Qed.

Lemma set_key_marks : forall s x k s', set_key s x k = Ok s' -> marks s' = marks s.
Proof. unfold set_key; intros s x k s' E. destruct (a_set (getA s x)); inversion E; reflexivity. Qed.

Lemma store_pool_marks : forall s t p, marks (store_pool s t p) = marks s.
Proof. reflexivity. Qed.

Lemma map_len_pos : forall V (c : list (Z * V)), c <> [] -> 0 <? map_len c = true.
Proof. intros V [|x c] Hc; [congruence|]. unfold map_len; simpl List.length. lia. Qed.

Lemma map_len_zero : forall V (c : list (Z * V)), (0 <? map_len c) = false -> c = [].
Proof. intros V [|x c] Hc; [reflexivity|]. unfold map_len in Hc; simpl List.length in Hc. lia. Qed.

Lemma getA_setA : forall s i a j, getA (setA s i a) j = if j =? i then a else getA s j.
Proof. intros. unfold getA, setA. simpl. destruct (j =? i); reflexivity. Qed.
Lemma getA_setA_same : forall s i a, getA (setA s i a) i = a.
Proof. intros. rewrite getA_setA, Z.eqb_refl. reflexivity. Qed.

Section Facts.
Variable v : variant.
Variable H : string -> string.
Variable minrew : Z.
Notation step := (step v H minrew).
Notation exec := (exec v H minrew).
Notation run := (run v H minrew).
Notation ante := (ante v H minrew).
Notation handle := (handle v).

Lemma exec_ok : forall s o s', step s o = Ok s' -> exec s o = s'.
Proof. unfold Custody.exec; intros s o s' E; rewrite E; reflexivity. Qed.
Lemma exec_not_ok : forall s o, is_ok (step s o) = false -> exec s o = s.
Proof. unfold Custody.exec; intros s o E; destruct (step s o); simpl in E; congruence. Qed.

Lemma step_inv : forall s o s', step s o = Ok s' -> exists s1, ante s o = Ok s1 /\ handle s1 o = Ok s'.
Proof. unfold Custody.step; intros s o s' E. destruct (ante s o) as [s1| |]; simpl in E; try discriminate. eauto. Qed.

(* the decorator changes nothing, except the limit statuses of the signer of a bank send *)
Lemma ante_inv : forall s o s1, ante s o = Ok s1 ->
  s1 = s \/ exists st', s1 = setA s (signer o) (with_stat (getA s (signer o)) (Some st')).
Proof.
  intros s o s1 E. unfold Custody.ante in E. cbv zeta in E.
  match type of E with bind ?X _ = _ => destruct X; simpl in E; try discriminate end.
  destruct o; try (inversion E; auto; fail).
  destruct (ante_bank v (getA s (signer (OBank sg to amt now))) to amt now) as [[st'|]| |]; simpl in E; try discriminate;
    inversion E; eauto.
Qed.

Lemma ante_nonbank : forall s o s1, ante s o = Ok s1 ->
  (match o with OBank _ _ _ _ => False | _ => True end) -> s1 = s.
Proof.
  intros s o s1 E Hn. unfold Custody.ante in E. cbv zeta in E.
  match type of E with bind ?X _ = _ => destruct X; simpl in E; try discriminate end.
  destruct o; try contradiction; inversion E; reflexivity.
Qed.

Lemma ante_marks : forall s o s1, ante s o = Ok s1 -> marks s1 = marks s.
Proof. intros s o s1 E. destruct (ante_inv s o s1 E) as [->|[st' ->]]; reflexivity. Qed.

(* everything but the limit statuses is as before the decorator *)
Lemma ante_fields : forall s o s1 t, ante s o = Ok s1 ->
  a_set (getA s1 t) = a_set (getA s t) /\ a_cust (getA s1 t) = a_cust (getA s t) /\ a_wl (getA s1 t) = a_wl (getA s t)
  /\ a_lim (getA s1 t) = a_lim (getA s t) /\ a_pool (getA s1 t) = a_pool (getA s t) /\ a_bal (getA s1 t) = a_bal (getA s t).
Proof.
  intros s o s1 t E. destruct (ante_inv s o s1 E) as [->|[st' ->]]; [repeat split; reflexivity|].
  rewrite getA_setA. destruct (t =? signer o) eqn:Et; [|repeat split; reflexivity].
  assert (t = signer o) by lia; subst. repeat split; reflexivity.
Qed.

(* ================================================================ 1. plain bank send is blocked while custodians exist *)
Lemma bank_send_blocked : forall s sg to amt now st c,
  a_set (getA s sg) = Some st -> s_en st = true -> a_cust (getA s sg) = Some c -> c <> [] ->
  exists e, step s (OBank sg to amt now) = Err e.
Proof.
  intros s sg to amt now st c Hs He Hc Hne.
  unfold Custody.step, Custody.ante, ante_bank; simpl signer; cbv zeta. rewrite Hs, He. simpl.
  rewrite Hc. rewrite (map_len_pos _ c Hne). simpl. eauto.
Qed.

(* without a custodian record the decorator dereferences nil: the transaction fails as well *)
Lemma bank_send_fails_without_record : forall s sg to amt now st,
  a_set (getA s sg) = Some st -> s_en st = true -> a_cust (getA s sg) = None ->
  is_ok (step s (OBank sg to amt now)) = false.
Proof.
  intros s sg to amt now st Hs He Hc.
  unfold Custody.step, Custody.ante, ante_bank; simpl signer; cbv zeta. rewrite Hs, He. simpl. rewrite Hc. reflexivity.
Qed.

Lemma bank_send_blocked_history : forall s0 ops sg to amt now st c,
  let s := run s0 ops in
  a_set (getA s sg) = Some st -> s_en st = true -> a_cust (getA s sg) = Some c -> c <> [] ->
  exec s (OBank sg to amt now) = s.
Proof.
  intros s0 ops sg to amt now st c s Hs He Hc Hne.
  destruct (bank_send_blocked s sg to amt now st c Hs He Hc Hne) as [e E].
  apply exec_not_ok. rewrite E. reflexivity.
Qed.

(* ================================================================ 2. the whitelist restricts every plain bank send *)
Lemma whitelist_restricts_bank_send : forall s sg to amt now st w,
  a_set (getA s sg) = Some st -> s_wl st = true -> a_wl (getA s sg) = Some w -> bool_at to w = false ->
  is_ok (step s (OBank sg to amt now)) = false.
Proof.
  intros s sg to amt now st w Hs Hw Hl Hb.
  unfold Custody.step, Custody.ante, ante_bank; simpl signer; cbv zeta. rewrite Hs.
  destruct (s_en st) eqn:He; simpl.
  - destruct (a_cust (getA s sg)) as [c|]; [|reflexivity].
    destruct (0 <? map_len c); simpl; [reflexivity|]. rewrite Hw, Hl, Hb. reflexivity.
  - rewrite Hw, Hl, Hb. reflexivity.
Qed.

Lemma whitelist_restricts_history : forall s0 ops sg to amt now st w,
  let s := run s0 ops in
  a_set (getA s sg) = Some st -> s_wl st = true -> a_wl (getA s sg) = Some w -> bool_at to w = false ->
  exec s (OBank sg to amt now) = s.
Proof. intros; apply exec_not_ok; eapply whitelist_restricts_bank_send; eauto. Qed.

(* what the decorator established when it let a plain bank send pass *)
Lemma ante_bank_ok : forall a to amt now r, ante_bank v a to amt now = Ok r ->
  match a_set a with
  | None => r = None
  | Some st => (s_en st = true -> a_cust a = Some [])
               /\ (s_wl st = true -> forall w, a_wl a = Some w -> bool_at to w = true)
               /\ (if s_lim st then v_limits v = true /\ exists st', r = Some st' /\
                      limits_fold (match a_lim a with Some l => l | None => [] end) now amt
                                  (match a_stat a with Some x => x | None => [] end) = Ok st'
                   else r = None)
  end.
Proof.
  intros a to amt now r E. unfold ante_bank in E.
  destruct (a_set a) as [st|] eqn:Hs; [|inversion E; reflexivity].
  assert (A1 : s_en st = true -> a_cust a = Some []).
  { intros He. rewrite He in E. destruct (a_cust a) as [c|]; simpl in E; [|discriminate].
    destruct (0 <? map_len c) eqn:Hn; simpl in E; [discriminate|]. apply map_len_zero in Hn; subst; reflexivity. }
  assert (E2 : (do _ <- (if s_wl st then match a_wl a with None => Ok tt | Some w => if bool_at to w then Ok tt else Err "not in whitelist" end else Ok tt);
                if s_lim st then if v_limits v then do st' <- limits_fold (match a_lim a with Some l => l | None => [] end) now amt (match a_stat a with Some x => x | None => [] end); Ok (Some st') else Panic "nil limit statuses" else Ok None) = Ok r).
  { destruct (s_en st); [|exact E]. destruct (a_cust a) as [c|]; simpl in E; [|discriminate].
    destruct (0 <? map_len c); simpl in E; [discriminate|exact E]. }
  clear E.
  assert (A2 : s_wl st = true -> forall w, a_wl a = Some w -> bool_at to w = true).
  { intros Hw w Hl. rewrite Hw, Hl in E2. destruct (bool_at to w); [reflexivity|discriminate]. }
  split; [exact A1|]. split; [exact A2|].
  assert (E3 : (if s_lim st then if v_limits v then do st' <- limits_fold (match a_lim a with Some l => l | None => [] end) now amt (match a_stat a with Some x => x | None => [] end); Ok (Some st') else Panic "nil limit statuses" else Ok None) = Ok r).
  { destruct (s_wl st); [|exact E2]. destruct (a_wl a) as [w|]; [|exact E2]. destruct (bool_at to w); [exact E2|discriminate]. }
  destruct (s_lim st); [|inversion E3; reflexivity].
  destruct (v_limits v); [|discriminate]. split; [reflexivity|].
  destruct (limits_fold _ now amt _) as [st'| |]; simpl in E3; try discriminate. inversion E3. eauto.
Qed.

Lemma bank_send_accepted : forall s sg to amt now s',
  step s (OBank sg to amt now) = Ok s' ->
  match a_set (getA s sg) with
  | None => True
  | Some st => (s_en st = true -> a_cust (getA s sg) = Some [])
               /\ (s_wl st = true -> forall w, a_wl (getA s sg) = Some w -> bool_at to w = true)
               /\ (s_lim st = true -> v_limits v = true /\ exists st',
                      limits_fold (match a_lim (getA s sg) with Some l => l | None => [] end) now amt
                                  (match a_stat (getA s sg) with Some x => x | None => [] end) = Ok st')
  end.
Proof.
  intros s sg to amt now s' E. destruct (step_inv _ _ _ E) as (s1 & Ea & _).
  unfold Custody.ante in Ea. cbv zeta in Ea. simpl signer in Ea.
  match type of Ea with bind ?X _ = _ => destruct X; simpl in Ea; try discriminate end.
  destruct (ante_bank v (getA s sg) to amt now) as [r| |] eqn:Eb; simpl in Ea; try discriminate.
  pose proof (ante_bank_ok _ _ _ _ _ Eb) as A.
  destruct (a_set (getA s sg)) as [st|]; [|exact I].
  destruct A as (A1 & A2 & A3). split; [exact A1|]. split; [exact A2|].
  intros Hl. rewrite Hl in A3. destruct A3 as (Hv & st' & _ & Hf). eauto.
Qed.
End Facts.

(* ================================================================ 3. a vote counts once per (address, target, vote key) *)
Lemma mark_get_cons_other : forall f t h e l,
  mark_eqb f t h e = false -> mark_get f t h (e :: l) = mark_get f t h l.
Proof. intros f t h e l E. unfold mark_get; simpl. rewrite E. reflexivity. Qed.

Lemma mark_get_cons_same : forall f t h x l, mark_get f t h ((f, t, h, x) :: l) = Some x.
Proof. intros. unfold mark_get; simpl. rewrite !Z.eqb_refl, String.eqb_refl. reflexivity. Qed.

Lemma mark_eqb_true : forall f t h f' t' h' x, mark_eqb f t h (f', t', h', x) = true -> f = f' /\ t = t' /\ h = h'.
Proof.
  unfold mark_eqb; intros f t h f' t' h' x E.
  apply andb_prop in E; destruct E as [E E3]. apply andb_prop in E; destruct E as [E1 E2].
  apply String.eqb_eq in E3. split; [lia|split; [lia|assumption]].
Qed.

Section Votes.
Variable v : variant.
(* the vote store only grows -- except by the repaired address rotation, which re-keys marks *)
Hypothesis Hrot : v_rot v = false.
Variable H : string -> string.
Variable minrew : Z.
Notation step := (step v H minrew).
Notation exec := (exec v H minrew).
Notation run := (run v H minrew).
Notation ante := (ante v H minrew).
Notation handle := (handle v).

(* every handler leaves the vote store alone or adds one mark at a key that had none *)
Lemma marks_handle : forall s o s', handle s o = Ok s' ->
  marks s' = marks s \/ exists f t h x, mark_get f t h (marks s) = None /\ marks s' = (f, t, h, x) :: marks s.
Proof.
  intros s o s' E.
  destruct o; simpl in E; unfold bind, rec_missing in E.
  - inversion E; auto.
  - repeat (dmatch_in E; try discriminate). inversion E; auto.
  - repeat (dmatch_in E; try discriminate). inversion E; auto.
  - repeat (dmatch_in E; try discriminate); inversion E; subst; left; simpl;
      match goal with X : set_key _ _ _ = Ok _ |- _ => apply set_key_marks in X; auto end.
  - repeat (dmatch_in E; try discriminate); inversion E; subst; left; simpl;
      match goal with X : set_key _ _ _ = Ok _ |- _ => apply set_key_marks in X; auto end.
  - repeat (dmatch_in E; try discriminate); inversion E; subst; left; simpl;
      match goal with X : set_key _ _ _ = Ok _ |- _ => apply set_key_marks in X; auto end.
  - repeat (dmatch_in E; try discriminate); inversion E; subst; left; simpl;
      match goal with X : set_key _ _ _ = Ok _ |- _ => apply set_key_marks in X; auto end.
  - repeat (dmatch_in E; try discriminate); inversion E; subst; left; simpl;
      match goal with X : set_key _ _ _ = Ok _ |- _ => apply set_key_marks in X; auto end.
  - repeat (dmatch_in E; try discriminate); inversion E; subst; left; simpl;
      match goal with X : set_key _ _ _ = Ok _ |- _ => apply set_key_marks in X; auto end.
  - repeat (dmatch_in E; try discriminate); try (inversion E; subst; left; reflexivity);
      left; eapply send_marks; eauto.
  - (* approve *)
    destruct (negb (voter_ok v (getA s t) f)); [discriminate|].
    destruct (mark_get f t (mark_key v h) (marks s)) eqn:Hm; [inversion E; auto|].
    repeat (dmatch_in E; try discriminate); inversion E; subst; right; exists f, t, (mark_key v h), 1; split; auto; simpl;
      repeat match goal with X : send _ _ _ _ = Ok _ |- _ => apply send_marks in X; simpl in X end; congruence.
  - (* decline *)
    destruct (negb (voter_ok v (getA s t) f)); [discriminate|].
    destruct (mark_get f t (mark_key v h) (marks s)) eqn:Hm; [inversion E; auto|].
    repeat (dmatch_in E; try discriminate); try (inversion E; subst; left; reflexivity).
    right; exists f, t, (mark_key v h), (-1); split; auto. apply send_marks in E. simpl in E. exact E.
  - (* confirm *)
    repeat (dmatch_in E; try discriminate); inversion E; subst; left; simpl;
      repeat match goal with X : send _ _ _ _ = Ok _ |- _ => apply send_marks in X; simpl in X end; congruence.
  - repeat (dmatch_in E; try discriminate). left; eapply send_marks; eauto.
  - repeat (dmatch_in E; try discriminate). left; eapply send_marks; eauto.
  - (* rotation *) rewrite Hrot in E. destruct (negb ok || (a =? nw)); [discriminate|]. inversion E. left. reflexivity.
Qed.

Lemma marks_step : forall s o s', step s o = Ok s' ->
  marks s' = marks s \/ exists f t h x, mark_get f t h (marks s) = None /\ marks s' = (f, t, h, x) :: marks s.
Proof.
  intros s o s' E. destruct (step_inv _ _ _ _ _ _ E) as (s1 & Ea & Eh).
  pose proof (ante_marks _ _ _ _ _ _ Ea) as Em. rewrite <- Em. exact (marks_handle _ _ _ Eh).
Qed.

Lemma marks_mono_exec : forall s o f t h x,
  mark_get f t h (marks s) = Some x -> mark_get f t h (marks (exec s o)) = Some x.
Proof.
  intros s o f t h x Hm. unfold Custody.exec. destruct (step s o) as [s'| |] eqn:E; auto.
  destruct (marks_step s o s' E) as [Eq|(f' & t' & h' & x' & Hn & Eq)]; rewrite Eq; auto.
  destruct (mark_eqb f t h (f', t', h', x')) eqn:Em.
  - apply mark_eqb_true in Em. destruct Em as (-> & -> & ->). congruence.
  - rewrite mark_get_cons_other; auto.
Qed.

Lemma marks_mono_run : forall ops s f t h x,
  mark_get f t h (marks s) = Some x -> mark_get f t h (marks (run s ops)) = Some x.
Proof.
  induction ops as [|o ops IH]; intros s f t h x Hm; simpl; auto.
  apply IH. apply marks_mono_exec; assumption.
Qed.

(* an approval that changed anything left its mark ... *)
Lemma approve_marks : forall s f t h s',
  step s (OApprove f t h) = Ok s' -> s' <> s -> mark_get f t (mark_key v h) (marks s') = Some 1.
Proof.
  intros s f t h s' E Hne. destruct (step_inv _ _ _ _ _ _ E) as (s1 & Ea & Eh).
  apply ante_nonbank in Ea; [|exact I]. subst s1. simpl in Eh. unfold bind, rec_missing in Eh.
  destruct (negb (voter_ok v (getA s t) f)); [discriminate|].
  destruct (mark_get f t (mark_key v h) (marks s)) eqn:Hm; [inversion Eh; congruence|].
  repeat (dmatch_in Eh; try discriminate); inversion Eh; subst; simpl;
    repeat match goal with X : send _ _ _ _ = Ok _ |- _ => apply send_marks in X; simpl in X end;
    try match goal with X : marks _ = _ |- _ => rewrite X end; apply mark_get_cons_same.
Qed.

(* ... and a marked (from, target, key) approves and declines nothing any more *)
Lemma approve_marked_noop : forall s f t h x,
  mark_get f t (mark_key v h) (marks s) = Some x -> exec s (OApprove f t h) = s.
Proof.
  intros s f t h x Hm. unfold Custody.exec, Custody.step. destruct (ante s (OApprove f t h)) as [s1| |] eqn:Ea; simpl; auto.
  apply ante_nonbank in Ea; [|exact I]. subst s1.
  destruct (negb (voter_ok v (getA s t) f)); [reflexivity|]. rewrite Hm. reflexivity.
Qed.

Lemma decline_marked_noop : forall s f t h x,
  mark_get f t (mark_key v h) (marks s) = Some x -> exec s (ODecline f t h) = s.
Proof.
  intros s f t h x Hm. unfold Custody.exec, Custody.step. destruct (ante s (ODecline f t h)) as [s1| |] eqn:Ea; simpl; auto.
  apply ante_nonbank in Ea; [|exact I]. subst s1.
  destruct (negb (voter_ok v (getA s t) f)); [reflexivity|]. rewrite Hm. reflexivity.
Qed.

(* over every history: after an approval by [f] for ([t], [h]) took effect, no later approval or decline by
   [f] for [t] with a hash of the same vote key changes anything, whatever happened in between.  On the
   repaired variant (v_lower) the vote key is the lower-cased hash: every spelling of the hash. *)
Theorem vote_counts_once : forall s f t h h' ops,
  let s1 := exec s (OApprove f t h) in
  s1 <> s ->
  mark_key v h' = mark_key v h ->
  let s2 := run s1 ops in
  exec s2 (OApprove f t h') = s2 /\ exec s2 (ODecline f t h') = s2.
Proof.
  intros s f t h h' ops s1 Hne Hk s2.
  assert (Hm : mark_get f t (mark_key v h) (marks s1) = Some 1).
  { unfold s1, Custody.exec in *. destruct (step s (OApprove f t h)) as [s'| |] eqn:E; try congruence.
    eapply approve_marks; eauto. }
  assert (Hm2 : mark_get f t (mark_key v h') (marks s2) = Some 1) by (rewrite Hk; apply marks_mono_run; exact Hm).
  split; [eapply approve_marked_noop|eapply decline_marked_noop]; eauto.
Qed.

End Votes.

(* ================================================================ 4. settings messages: what the decorator establishes *)
Section Settings.
Variable v : variant.
Variable H : string -> string.
Variable minrew : Z.
Notation step := (step v H minrew).
Definition keyed_op (o : op) : option kp :=
  match o with OCreate _ _ k | OAdd _ _ _ k | ORem _ _ _ k | ODropL _ _ k => Some k | _ => None end.

Lemma keyed_requires_own_key : forall s o k st s',
  keyed_op o = Some k -> a_set (getA s (signer o)) = Some st -> s_en st = true ->
  step s o = Ok s' ->
  H (k_old k) = s_key st /\ (k_tgt k = -1 \/ k_tgt k = s_next st).
Proof.
  intros s o k st s' Hk Hs He E. unfold Custody.step, Custody.ante in E. rewrite Hs, He in E.
  assert (Ha : exists u, ante_keyed H st k = Ok u).
  { destruct o; simpl in Hk; inversion Hk; subst; simpl in E;
      destruct (ante_keyed H st k); simpl in E; try discriminate; eauto. }
  destruct Ha as [u Ha]. unfold ante_keyed in Ha.
  destruct (negb (k_tgt k =? -1) && negb (k_tgt k =? s_next st)) eqn:Et; [discriminate|].
  destruct (String.eqb (H (k_old k)) (s_key st)) eqn:Ek; [|discriminate].
  apply String.eqb_eq in Ek. split; auto. lia.
Qed.

(* the limits messages of a guarded signer are always rejected (their Type() names another message) *)
Lemma limits_ops_rejected_when_enabled : forall s o st,
  (match o with OAddLim _ _ _ _ _ | ORemLim _ _ _ | ODropLim _ _ => True | _ => False end) ->
  a_set (getA s (signer o)) = Some st -> s_en st = true -> is_ok (step s o) = false.
Proof.
  intros s o st Ho Hs He. unfold Custody.step, Custody.ante. rewrite Hs, He.
  destruct o; try contradiction; reflexivity.
Qed.
End Settings.

(* ================================================================ 5. helper lemmas for the soundness of the spec checker *)
(* ---- reflexivity of the comparisons *)
Lemma list_eqb_refl : forall A (e : A -> A -> bool), (forall x, e x x = true) -> forall l, list_eqb e l l = true.
Proof. intros A e He; induction l; simpl; auto. rewrite He, IHl. reflexivity. Qed.
Lemma sub_map_refl : forall K V (ke : K -> K -> bool) (ve : V -> V -> bool),
  (forall x, ke x x = true) -> (forall x, ve x x = true) -> forall l, sub_map ke ve l l = true.
Proof.
  intros K V ke ve Hk Hv l. unfold sub_map. apply forallb_forall. intros e He.
  apply existsb_exists. exists e. split; auto. rewrite Hk, Hv. reflexivity.
Qed.
Lemma map_eqb_refl : forall K V (ke : K -> K -> bool) (ve : V -> V -> bool),
  (forall x, ke x x = true) -> (forall x, ve x x = true) -> forall l, map_eqb ke ve l l = true.
Proof. intros. unfold map_eqb. rewrite Nat.eqb_refl, sub_map_refl; auto. Qed.
Lemma opt_eqb_refl : forall A (e : A -> A -> bool), (forall x, e x x = true) -> forall o, opt_eqb e o o = true.
Proof. intros A e He [x|]; simpl; auto. Qed.
Lemma settings_eqb_refl : forall a, settings_eqb a a = true.
Proof. intros. unfold settings_eqb. rewrite !Bool.eqb_reflx, !Z.eqb_refl, String.eqb_refl. reflexivity. Qed.
Lemma coin_eqb_refl : forall a, coin_eqb a a = true.
Proof. intros. unfold coin_eqb. rewrite !Z.eqb_refl. reflexivity. Qed.
Lemma txr_eqb_refl : forall a, txr_eqb a a = true.
Proof.
  intros. unfold txr_eqb. rewrite !Z.eqb_refl, String.eqb_refl, Bool.eqb_reflx, !list_eqb_refl; auto using coin_eqb_refl.
Qed.
Lemma lim_eqb_refl : forall a, lim_eqb a a = true.
Proof. intros. unfold lim_eqb. rewrite Z.eqb_refl, String.eqb_refl. reflexivity. Qed.
Lemma stat_eqb_refl : forall a, stat_eqb a a = true.
Proof. intros. unfold stat_eqb. rewrite !Z.eqb_refl. reflexivity. Qed.
Lemma bal_eqb_refl : forall a, bal_eqb a a = true.
Proof. intros. unfold bal_eqb. apply forallb_forall. intros; apply Z.eqb_refl. Qed.
Lemma acct_eqb_refl : forall a, acct_eqb a a = true.
Proof.
  intros. unfold acct_eqb.
  rewrite (opt_eqb_refl _ _ settings_eqb_refl).
  rewrite !(opt_eqb_refl _ _ (map_eqb_refl _ _ Z.eqb Bool.eqb Z.eqb_refl Bool.eqb_reflx)).
  rewrite (opt_eqb_refl _ _ (map_eqb_refl _ _ Z.eqb lim_eqb Z.eqb_refl lim_eqb_refl)).
  rewrite (opt_eqb_refl _ _ (map_eqb_refl _ _ String.eqb txr_eqb String.eqb_refl txr_eqb_refl)).
  rewrite bal_eqb_refl.
  rewrite (opt_eqb_refl _ _ (map_eqb_refl _ _ Z.eqb stat_eqb Z.eqb_refl stat_eqb_refl)).
  reflexivity.
Qed.
Lemma mark4_eqb_refl : forall a, mark4_eqb a a = true.
Proof. intros [[[f t] h] x]. simpl. rewrite !Z.eqb_refl, String.eqb_refl. reflexivity. Qed.
Lemma marks_eqb_refl : forall l, marks_eqb l l = true.
Proof.
  intros. unfold marks_eqb. rewrite Nat.eqb_refl. simpl.
  assert (X : forallb (fun e => existsb (mark4_eqb e) l) l = true).
  { apply forallb_forall. intros e He. apply existsb_exists. exists e; split; auto using mark4_eqb_refl. }
  rewrite X. reflexivity.
Qed.
Lemma state_eqb_refl : forall n s, state_eqb n s s = true.
Proof.
  intros. unfold state_eqb. rewrite marks_eqb_refl.
  assert (X : forallb (fun i => acct_eqb (getA s (Z.of_nat i)) (getA s (Z.of_nat i))) (seq 0 n) = true).
  { apply forallb_forall. intros; apply acct_eqb_refl. }
  rewrite X. reflexivity.
Qed.

(* ---- custodians *)
Lemma alist_get_in : forall V k (x : V) l, alist_get k l = Some x -> In (k, x) l.
Proof.
  induction l as [|[k' y] l IH]; simpl; intros E; [discriminate|].
  destruct (k =? k') eqn:Ek; [inversion E; subst; left; f_equal; lia|right; auto].
Qed.
Lemma bool_at_is_custodian : forall a c f, a_cust a = Some c -> bool_at f c = true -> is_custodian a f = true.
Proof.
  intros a c f Hc Hb. unfold is_custodian, custodians. rewrite Hc. unfold bool_at in Hb.
  destruct (alist_get f c) as [b|] eqn:E; [|discriminate]. subst b. apply alist_get_in in E.
  apply existsb_exists. exists f. split; [|apply Z.eqb_refl].
  apply in_map_iff. exists (f, true). split; auto. apply filter_In. split; auto.
Qed.
Lemma filter_len_le : forall A (f : A -> bool) l, (List.length (filter f l) <= List.length l)%nat.
Proof. induction l; simpl; auto. destruct (f a); simpl; lia. Qed.
Lemma n_cust_le_map_len : forall a c, a_cust a = Some c -> n_cust a <= map_len c.
Proof.
  intros a c Hc. unfold n_cust, custodians, map_len. rewrite Hc. rewrite map_length.
  assert (List.length (filter (fun e : Z * bool => snd e) c) <= List.length c)%nat by apply filter_len_le. lia.
Qed.
Lemma n_cust_nil : forall a, a_cust a = Some [] -> n_cust a = 0.
Proof. intros a E. unfold n_cust, custodians. rewrite E. reflexivity. Qed.
Lemma n_cust_nonneg : forall a, 0 <= n_cust a.
Proof. intros; unfold n_cust; lia. Qed.

(* ---- the log *)
Lemma count_appr_nonneg : forall t h l, 0 <= count_appr t h l.
Proof. intros; unfold count_appr; lia. Qed.
Lemma count_appr_cons_ge : forall t h e l, count_appr t h l <= count_appr t h (e :: l).
Proof. intros t h [[f t'] h'] l. unfold count_appr. simpl. destruct ((t =? t') && String.eqb h h'); simpl List.length; lia. Qed.
Lemma count_appr_cons_hit : forall f t h l, count_appr t h ((f, t, h) :: l) = count_appr t h l + 1.
Proof. intros. unfold count_appr. simpl. rewrite Z.eqb_refl, String.eqb_refl. simpl List.length. lia. Qed.
Lemma in3_cons : forall f t h e l, in3 f t h l = true -> in3 f t h (e :: l) = true.
Proof. intros. unfold in3 in *. simpl. rewrite H. apply orb_true_r. Qed.
Lemma in3_cons_inv : forall f t h f' t' h' l, in3 f t h ((f', t', h') :: l) = true -> (f = f' /\ t = t' /\ h = h') \/ in3 f t h l = true.
Proof.
  intros. unfold in3 in *. simpl in H. apply orb_prop in H. destruct H as [E|E]; auto.
  left. apply andb_prop in E. destruct E as [E E3]. apply andb_prop in E. destruct E as [E1 E2].
  apply String.eqb_eq in E3. repeat split; auto; lia.
Qed.
Lemma in2_cons : forall t h e l, in2 t h l = true -> in2 t h (e :: l) = true.
Proof. intros. unfold in2 in *. simpl. rewrite H. apply orb_true_r. Qed.
Lemma in2_cons_same : forall t h l, in2 t h ((t, h) :: l) = true.
Proof. intros. unfold in2. simpl. rewrite Z.eqb_refl, String.eqb_refl. reflexivity. Qed.

(* ---- pools *)
Definition pool_of (s : state) (t : Z) : option pmap := a_pool (getA s t).

Lemma pool_get_set : forall h' h x p, pool_get h' (pool_set h x p) = if String.eqb h' h then Some x else pool_get h' p.
Proof.
  induction p as [|[k y] p IH]; simpl.
  - destruct (String.eqb h' h); reflexivity.
  - destruct (String.eqb h k) eqn:E; simpl.
    + apply String.eqb_eq in E; subst. destruct (String.eqb h' k); reflexivity.
    + rewrite IH. destruct (String.eqb h' k) eqn:E2; auto.
      destruct (String.eqb h' h) eqn:E3; auto.
      apply String.eqb_eq in E2, E3. subst. rewrite String.eqb_refl in E. discriminate.
Qed.
Lemma pool_get_del_some : forall h' h p tx, pool_get h' (pool_del h p) = Some tx -> pool_get h' p = Some tx.
Proof.
  induction p as [|[k x] p IH]; simpl; intros tx E; [discriminate|].
  destruct (String.eqb h k) eqn:Ek; simpl in E.
  - destruct (String.eqb h' k) eqn:E2; auto.
    apply String.eqb_eq in Ek, E2; subst.
    exfalso. clear IH. induction p as [|[k2 x2] p IHp]; simpl in E; [discriminate|].
    destruct (String.eqb k k2) eqn:E3; simpl in E; auto. rewrite E3 in E. auto.
  - destruct (String.eqb h' k); auto.
Qed.
Lemma pool_get_del_same : forall h p, pool_get h (pool_del h p) = None.
Proof.
  induction p as [|[k x] p IH]; simpl; auto. destruct (String.eqb h k) eqn:E; simpl; auto. rewrite E. auto.
Qed.

Lemma released_inv : forall s s' t h tx, released s s' t h = Some tx ->
  exists p, pool_of s t = Some p /\ pool_get h p = Some tx
            /\ (match pool_of s' t with Some p' => pool_get h p' | None => None end) = None.
Proof.
  unfold released, pool_of. intros s s' t h tx E.
  destruct (a_pool (getA s t)) as [p|]; [|discriminate].
  destruct (pool_get h p) as [x|] eqn:Eg; [|discriminate].
  exists p. destruct (a_pool (getA s' t)) as [p'|].
  - destruct (pool_get h p') eqn:Eg'; [discriminate|]. inversion E; subst. auto.
  - inversion E; subst. auto.
Qed.
Lemma released_present : forall s s' t h p' x,
  pool_of s' t = Some p' -> pool_get h p' = Some x -> released s s' t h = None.
Proof.
  unfold released, pool_of. intros s s' t h p' x E1 E2.
  destruct (a_pool (getA s t)) as [p|]; auto. destruct (pool_get h p); auto. rewrite E1, E2. reflexivity.
Qed.
Lemma released_same_pool : forall s s' t h, pool_of s' t = pool_of s t -> released s s' t h = None.
Proof.
  unfold released, pool_of. intros s s' t h E. rewrite E.
  destruct (a_pool (getA s t)) as [p|]; auto. destruct (pool_get h p) eqn:Eg; auto.
Qed.

(* ---- what the handlers leave alone: pool, balance and limit statuses of every account, and the marks *)
Definition pbs (a : acct) := (a_pool a, a_bal a, a_stat a).
Definition frame_pbs (s s' : state) : Prop := forall t, pbs (getA s' t) = pbs (getA s t).
Definition frame_ps (s s' : state) : Prop := forall t, a_pool (getA s' t) = a_pool (getA s t) /\ a_stat (getA s' t) = a_stat (getA s t).

Lemma frame_pbs_setA : forall s i a, pbs a = pbs (getA s i) -> frame_pbs s (setA s i a).
Proof.
  intros s i a E t. rewrite getA_setA. destruct (t =? i) eqn:Et; auto. assert (t = i) by lia. subst. auto.
Qed.
Lemma frame_pbs_trans : forall a b c, frame_pbs a b -> frame_pbs b c -> frame_pbs a c.
Proof. intros a b c X Y t. rewrite Y, X. reflexivity. Qed.
Lemma frame_pbs_refl : forall a, frame_pbs a a.
Proof. intros a t; reflexivity. Qed.
Lemma set_key_frame : forall s x k s', set_key s x k = Ok s' -> frame_pbs s s'.
Proof.
  unfold set_key; intros s x k s' E. destruct (a_set (getA s x)); inversion E; subst.
  apply frame_pbs_setA. reflexivity.
Qed.
Lemma frame_ps_of_pbs : forall s s', frame_pbs s s' -> frame_ps s s'.
Proof. intros s s' F t. specialize (F t). unfold pbs in F. inversion F. auto. Qed.
Lemma frame_ps_trans : forall a b c, frame_ps a b -> frame_ps b c -> frame_ps a c.
Proof. intros a b c X Y t. destruct (X t), (Y t). split; congruence. Qed.
Lemma frame_ps_setA : forall s i a, a_pool a = a_pool (getA s i) -> a_stat a = a_stat (getA s i) -> frame_ps s (setA s i a).
Proof.
  intros s i a E1 E2 t. rewrite getA_setA. destruct (t =? i) eqn:Et; auto. assert (t = i) by lia. subst. auto.
Qed.
Lemma send_frame : forall s a b x s', send s a b x = Ok s' -> frame_ps s s'.
Proof.
  unfold send; intros s a b x s' E. destruct (negb (coins_valid x)); [discriminate|].
  destruct (can_pay (a_bal (getA s a)) x); inversion E; subst.
  eapply frame_ps_trans; apply frame_ps_setA; reflexivity.
Qed.
Lemma add_mark_frame : forall s f t h x u, getA (add_mark s f t h x) u = getA s u.
Proof. reflexivity. Qed.

Lemma pool_of_setA_same : forall s i a, pool_of (setA s i a) i = a_pool a.
Proof. intros. unfold pool_of. rewrite getA_setA_same. reflexivity. Qed.
Lemma pool_of_setA_other : forall s i a t, t <> i -> pool_of (setA s i a) t = pool_of s t.
Proof. intros s i a t Hn. unfold pool_of. rewrite getA_setA. destruct (t =? i) eqn:Et; auto. lia. Qed.
Lemma pool_of_store_same : forall s t p, pool_of (store_pool s t p) t = Some p.
Proof. intros. unfold store_pool. rewrite pool_of_setA_same. reflexivity. Qed.
Lemma pool_of_store_other : forall s t p u, u <> t -> pool_of (store_pool s t p) u = pool_of s u.
Proof. intros. unfold store_pool. rewrite pool_of_setA_other; auto. Qed.
Lemma stat_store_pool : forall s t p u, a_stat (getA (store_pool s t p) u) = a_stat (getA s u).
Proof.
  intros. unfold store_pool. rewrite getA_setA. destruct (u =? t) eqn:E; auto. assert (u = t) by lia; subst. reflexivity.
Qed.
Lemma bal_store_pool : forall s t p u, a_bal (getA (store_pool s t p) u) = a_bal (getA s u).
Proof.
  intros. unfold store_pool. rewrite getA_setA. destruct (u =? t) eqn:E; auto. assert (u = t) by lia; subst. reflexivity.
Qed.

(* ---- balances: a transfer never lowers the balance of an account that is not the payer *)
Lemma alist_get_map_set : forall V k k' (x : V) l, alist_get k (map_set k' x l) = if k =? k' then Some x else alist_get k l.
Proof.
  induction l as [|[j y] l IH]; simpl.
  - destruct (k =? k'); reflexivity.
  - destruct (k' =? j) eqn:E; simpl.
    + assert (k' = j) by lia; subst. destruct (k =? j); reflexivity.
    + rewrite IH. destruct (k =? j) eqn:E2; auto. destruct (k =? k') eqn:E3; auto. lia.
Qed.
Lemma bal_get_map_set : forall d d' x b, bal_get d (map_set d' x b) = if d =? d' then x else bal_get d b.
Proof. intros. unfold bal_get. rewrite alist_get_map_set. destruct (d =? d'); reflexivity. Qed.

Lemma bal_add_ge : forall cs b d, (forall c, In c cs -> 0 <= snd c) -> bal_get d b <= bal_get d (bal_add b cs).
Proof.
  unfold bal_add. induction cs as [|c cs IH]; intros b d Hp; simpl; [lia|].
  eapply Z.le_trans; [|apply IH; intros; apply Hp; right; assumption].
  rewrite bal_get_map_set. destruct (d =? fst c) eqn:E; [|lia].
  assert (d = fst c) by lia; subst. specialize (Hp c (or_introl eq_refl)). lia.
Qed.
Lemma coins_sorted_pos : forall cs lo c, coins_sorted lo cs = true -> In c cs -> 0 < snd c.
Proof.
  induction cs as [|[d a] cs IH]; simpl; intros lo c E Hin; [contradiction|].
  apply andb_prop in E. destruct E as [E E3]. apply andb_prop in E. destruct E as [E1 E2].
  destruct Hin as [<-|Hin]; [simpl; lia|eauto].
Qed.
Lemma coins_valid_nonneg : forall cs c, coins_valid cs = true -> In c cs -> 0 <= snd c.
Proof.
  intros cs c E Hin. destruct cs as [|x cs]; [contradiction|]. unfold coins_valid in E.
  pose proof (coins_sorted_pos _ _ _ E Hin). lia.
Qed.

Definition nondec (s s' : state) (x : Z) : Prop := forall d, bal_get d (a_bal (getA s x)) <= bal_get d (a_bal (getA s' x)).
Lemma nondec_refl : forall s x, nondec s s x.
Proof. intros s x d; lia. Qed.
Lemma nondec_send : forall s a f t cs b x, nondec s a x -> send a f t cs = Ok b -> x <> f -> nondec s b x.
Proof.
  intros s a f t cs b x N E Hn d. specialize (N d). unfold send in E.
  destruct (negb (coins_valid cs)) eqn:Ev; [discriminate|]. apply negb_false_iff in Ev.
  destruct (can_pay (a_bal (getA a f)) cs); inversion E; subst. clear E.
  rewrite getA_setA. destruct (x =? t) eqn:Et.
  - assert (x = t) by lia; subst. simpl a_bal. rewrite getA_setA. destruct (t =? f) eqn:Ef; [lia|].
    eapply Z.le_trans; [exact N|]. apply bal_add_ge. intros c Hc. eapply coins_valid_nonneg; eauto.
  - rewrite getA_setA. destruct (x =? f) eqn:Ef; [lia|]. exact N.
Qed.
Lemma nondec_store_pool : forall s a t p x, nondec s a x -> nondec s (store_pool a t p) x.
Proof. intros s a t p x N d. rewrite bal_store_pool. apply N. Qed.
Lemma nondec_add_mark : forall s a f t h y x, nondec s a x -> nondec s (add_mark a f t h y) x.
Proof. intros s a f t h y x N d. apply N. Qed.
Lemma nondec_setA : forall s a i acc x, nondec s a x -> a_bal acc = a_bal (getA a i) -> nondec s (setA a i acc) x.
Proof.
  intros s a i acc x N E d. rewrite getA_setA. destruct (x =? i) eqn:Ei; [|apply N].
  assert (x = i) by lia; subst. rewrite E. apply N.
Qed.
Lemma nondec_frame : forall s a b x, nondec s a x -> frame_pbs a b -> nondec s b x.
Proof. intros s a b x N F d. specialize (F x). unfold pbs in F. inversion F as [[F1 F2 F3]]. rewrite F2. apply N. Qed.
Lemma dec_nondec : forall s s' x, nondec s s' x -> dec (getA s x) (getA s' x) = false.
Proof.
  intros s s' x N. unfold dec. apply Bool.not_true_is_false. intros E. apply existsb_exists in E.
  destruct E as (d & _ & E). specialize (N d). lia.
Qed.

Ltac nd :=
  repeat match goal with
  | |- nondec ?s ?s _ => apply nondec_refl
  | |- nondec _ (store_pool _ _ _) _ => apply nondec_store_pool
  | |- nondec _ (add_mark _ _ _ _ _) _ => apply nondec_add_mark
  | X : send ?a _ _ _ = Ok ?b |- nondec _ ?b _ => apply (fun N Hn => nondec_send _ _ _ _ _ _ _ N X Hn); [|assumption]
  | X : set_key ?a _ _ = Ok ?b |- nondec _ ?b _ => apply (fun N => nondec_frame _ _ _ _ N (set_key_frame _ _ _ _ X))
  | |- nondec _ (setA _ _ _) _ => apply nondec_setA; [|try reflexivity; try (match goal with w : lst |- _ => destruct w; reflexivity end)]
  end.

(* the accounts an operation may take coins from: the target of a vote (the reward), the account that requested
   the pending transfer (the pay-out), the sender of a send, both ends of an address rotation *)
Definition payers (s : state) (o : op) : list Z :=
  match o with
  | OApprove _ t h | OConfirm _ t h _ _ => t :: match pending s t (to_lower h) with Some tx => [t_from tx] | None => [] end
  | ODecline _ t _ => [t]
  | OSend sg _ _ _ _ _ | OBank sg _ _ _ | OMulti sg _ _ => [sg]
  | ORotate a nw _ => [a; nw]
  | _ => []
  end.

Lemma option_eq_dec : forall (a b : option Z), {a = b} + {a <> b}.
Proof. decide equality. apply Z.eq_dec. Qed.

Section Outflow.
Variable v : variant.
Variable H : string -> string.
Variable minrew : Z.

Lemma handle_nondec : forall s o s' x, handle v s o = Ok s' -> ~ In x (payers s o) -> nondec s s' x.
Proof.
  intros s o s' x E Hp.
  destruct o; simpl in Hp.
  1-10, 12, 14-15:
    simpl in E; unfold bind, rec_missing in E;
    try (assert (Hx : x <> t) by (intro; apply Hp; left; auto)); try (assert (Hx : x <> sg) by (intro; apply Hp; left; auto));
    repeat (dmatch_in E; try discriminate); inversion E; subst; nd.
  - (* approve *)
    assert (Hx : x <> t) by (intro; apply Hp; left; auto).
    simpl in E. unfold bind, rec_missing in E. unfold pending in Hp.
    destruct (negb (voter_ok v (getA s t) f)); [discriminate|].
    destruct (mark_get f t (mark_key v h) (marks s)); [inversion E; subst; nd|].
    destruct (a_pool (getA s t)) as [p|]; [|discriminate].
    destruct (pool_get (to_lower h) p) as [tx|]; [|discriminate].
    assert (Hy : x <> t_from tx) by (intro; apply Hp; right; left; auto).
    repeat (dmatch_in E; try discriminate); inversion E; subst; nd.
  - (* confirm *)
    assert (Hx : x <> t) by (intro; apply Hp; left; auto).
    simpl in E. unfold bind, rec_missing in E. unfold pending in Hp.
    destruct (a_pool (getA s t)) as [pl|]; [|repeat (dmatch_in E; try discriminate)].
    destruct (pool_get (to_lower h) pl) as [tx|]; [|simpl in E; repeat (dmatch_in E; try discriminate)].
    assert (Hy : x <> t_from tx) by (intro; apply Hp; right; left; auto).
    simpl option_map in E. change (t_from (tx_conf tx true)) with (t_from tx) in E.
    repeat (dmatch_in E; try discriminate); inversion E; subst; nd.
  - (* rotation *)
    assert (Hx : x <> a) by (intro; apply Hp; left; auto).
    assert (Hy : x <> nw) by (intro; apply Hp; right; left; auto).
    simpl in E. destruct (negb ok || (a =? nw)); [discriminate|]. inversion E; subst. clear E.
    intros d. unfold getA at 2. simpl accts. unfold alist_get; fold (@alist_get acct).
    destruct (x =? nw) eqn:E1; [lia|]. destruct (x =? a) eqn:E2; [lia|]. fold (getA s x). lia.
Qed.

Lemma step_nondec : forall s o s' x, step v H minrew s o = Ok s' -> ~ In x (payers s o) -> nondec s s' x.
Proof.
  intros s o s' x E Hp. destruct (step_inv _ _ _ _ _ _ E) as (s1 & Ea & Eh).
  assert (Hp1 : ~ In x (payers s1 o)).
  { destruct o; try exact Hp; apply ante_nonbank in Ea; try exact Logic.I; subst s1; exact Hp. }
  pose proof (handle_nondec _ _ _ _ Eh Hp1) as N. intros d. specialize (N d).
  destruct (ante_fields _ _ _ _ _ _ x Ea) as (_ & _ & _ & _ & _ & Eb). rewrite Eb in N. exact N.
Qed.

(* coins never leave an account in a step in which it is not a payer: the outflow clause never fires *)
Lemma out_sound : forall n s o s', step v H minrew s o = Ok s' -> out_clauses n s s' o = [].
Proof.
  intros n s o s' E. unfold out_clauses. cbv zeta.
  induction (seq 0 n) as [|i l IH]; simpl; [reflexivity|]. rewrite IH, app_nil_r.
  destruct (guarded (getA s (Z.of_nat i)) && (0 <? n_cust (getA s (Z.of_nat i)))); simpl; [|reflexivity].
  destruct (dec (getA s (Z.of_nat i)) (getA s' (Z.of_nat i))) eqn:Ed; [|reflexivity].
  assert (P : In (Z.of_nat i) (payers s o)).
  { destruct (in_dec Z.eq_dec (Z.of_nat i) (payers s o)) as [P|P]; [exact P|].
    rewrite (dec_nondec _ _ _ (step_nondec _ _ _ _ E P)) in Ed. discriminate. }
  destruct o; simpl in P; try contradiction.
  - destruct P as [P|[]]. subst. rewrite Z.eqb_refl. reflexivity.
  - (* approve: the target, or the requester of the pending transfer *)
    destruct P as [P|P]; [subst; rewrite Z.eqb_refl; reflexivity|].
    destruct (pending s t (to_lower h)) as [tx|]; [|destruct P]. destruct P as [P|[]]. rewrite P, Z.eqb_refl, orb_true_r. reflexivity.
  - destruct P as [P|[]]. subst. rewrite Z.eqb_refl. reflexivity.
  - destruct P as [P|P]; [subst; rewrite Z.eqb_refl; reflexivity|].
    destruct (pending s t (to_lower h)) as [tx|]; [|destruct P]. destruct P as [P|[]]. rewrite P, Z.eqb_refl, orb_true_r. reflexivity.
  - destruct P as [P|[]]. subst. rewrite Z.eqb_refl. reflexivity.
  - destruct P as [P|[]]. subst. rewrite Z.eqb_refl. reflexivity.
  - destruct P as [P|[P|[]]]; subst; rewrite Z.eqb_refl; try rewrite orb_true_r; reflexivity.
Qed.
End Outflow.

(* ================================================================ 6. the invariant tying the checker's log to the model's state *)
(* accounts touched by an address rotation are outside the vote guarantees (their marks stay behind or are
   re-keyed, their pending transfers name another payer): the checker names their clauses "..._rotated" *)
Definition log_marks (lg : log) (s : state) : Prop :=
  forall f t h, rotated lg t = false -> in3 f t h (l_appr lg) || in3 f t h (l_decl lg) = true -> mark_get f t h (marks s) <> None.
Definition log_votes (lg : log) (s : state) : Prop :=
  forall t p h tx, rotated lg t = false -> pool_of s t = Some p -> pool_get h p = Some tx -> 0 <= t_votes tx <= count_appr t h (l_appr lg).
Definition log_conf (lg : log) (s : state) : Prop :=
  forall t p h tx, pool_of s t = Some p -> pool_get h p = Some tx -> t_conf tx = true -> in2 t h (l_conf lg) = true.
Definition stat_inv (s : state) : Prop :=
  forall x st d a tm, a_stat (getA s x) = Some st -> alist_get d st = Some (a, tm) -> 0 <= a.
Definition Inv (lg : log) (s : state) : Prop := log_marks lg s /\ log_votes lg s /\ log_conf lg s /\ stat_inv s.

Definition log_le (lg lg1 : log) : Prop :=
  (forall t h, count_appr t h (l_appr lg) <= count_appr t h (l_appr lg1)) /\
  (forall t h, in2 t h (l_conf lg) = true -> in2 t h (l_conf lg1) = true) /\
  (forall t, rotated lg1 t = false -> rotated lg t = false).
Lemma log_le_refl : forall lg, log_le lg lg.
Proof. intros; split; [|split]; intros; auto; lia. Qed.
Lemma log_le_appr : forall lg e, log_le lg (mkLog (e :: l_appr lg) (l_decl lg) (l_conf lg) (l_rot lg) (l_req lg) (l_alias lg) (l_same lg)).
Proof. intros; split; [|split]; simpl; intros; auto. apply count_appr_cons_ge. Qed.
Lemma log_le_decl : forall lg e, log_le lg (mkLog (l_appr lg) (e :: l_decl lg) (l_conf lg) (l_rot lg) (l_req lg) (l_alias lg) (l_same lg)).
Proof. intros; split; [|split]; simpl; intros; auto. lia. Qed.
Lemma log_le_conf : forall lg e, log_le lg (mkLog (l_appr lg) (l_decl lg) (e :: l_conf lg) (l_rot lg) (l_req lg) (l_alias lg) (l_same lg)).
Proof. intros; split; [|split]; simpl; intros; auto; [lia|]. apply in2_cons; assumption. Qed.

Lemma mark_get_cons_mono : forall f t h e l, mark_get f t h l <> None -> mark_get f t h (e :: l) <> None.
Proof.
  intros f t h [[[f' t'] h'] x] l Hn. destruct (mark_eqb f t h (f', t', h', x)) eqn:E.
  - apply mark_eqb_true in E. destruct E as (-> & -> & ->). rewrite mark_get_cons_same. discriminate.
  - rewrite mark_get_cons_other; auto.
Qed.

(* the pool of one account is replaced; the log grows *)
Lemma Inv_pool_update : forall lg lg1 s s' t p',
  Inv lg s -> log_le lg lg1 -> log_marks lg1 s' ->
  pool_of s' t = Some p' -> (forall u, u <> t -> pool_of s' u = pool_of s u) ->
  (forall h tx, pool_get h p' = Some tx ->
     (rotated lg1 t = false -> 0 <= t_votes tx <= count_appr t h (l_appr lg1)) /\ (t_conf tx = true -> in2 t h (l_conf lg1) = true)) ->
  (forall u, a_stat (getA s' u) = a_stat (getA s u)) ->
  Inv lg1 s'.
Proof.
  intros lg lg1 s s' t p' (I1 & I2 & I3 & I4) (L1 & L2 & L3) M Pt Po V S.
  split; [exact M|]. split; [|split].
  - intros u q h tx R Q1 Q2. destruct (Z.eq_dec u t) as [->|Hn].
    + rewrite Pt in Q1. inversion Q1; subst. apply (V h tx Q2). exact R.
    + rewrite Po in Q1 by assumption. specialize (I2 u q h tx (L3 u R) Q1 Q2). specialize (L1 u h). lia.
  - intros u q h tx Q1 Q2 Q3. destruct (Z.eq_dec u t) as [->|Hn].
    + rewrite Pt in Q1. inversion Q1; subst. apply (V h tx Q2); assumption.
    + rewrite Po in Q1 by assumption. apply L2. exact (I3 u q h tx Q1 Q2 Q3).
  - intros x st d a tm Q1 Q2. rewrite S in Q1. exact (I4 x st d a tm Q1 Q2).
Qed.

(* no pool changes; the log grows *)
Lemma Inv_same_pools : forall lg lg1 s s',
  Inv lg s -> log_le lg lg1 -> log_marks lg1 s' ->
  (forall u, pool_of s' u = pool_of s u) -> (forall u, a_stat (getA s' u) = a_stat (getA s u)) -> Inv lg1 s'.
Proof.
  intros lg lg1 s s' (I1 & I2 & I3 & I4) (L1 & L2 & L3) M P S.
  split; [exact M|]. split; [|split].
  - intros u q h tx R Q1 Q2. rewrite P in Q1. specialize (I2 u q h tx (L3 u R) Q1 Q2). specialize (L1 u h). lia.
  - intros u q h tx Q1 Q2 Q3. rewrite P in Q1. apply L2. exact (I3 u q h tx Q1 Q2 Q3).
  - intros x st d a tm Q1 Q2. rewrite S in Q1. exact (I4 x st d a tm Q1 Q2).
Qed.

Lemma log_marks_same : forall lg s s', log_marks lg s -> marks s' = marks s -> log_marks lg s'.
Proof. intros lg s s' M E f t h R X. rewrite E. exact (M f t h R X). Qed.
Lemma log_marks_cons : forall lg s s' e, log_marks lg s -> marks s' = e :: marks s -> log_marks lg s'.
Proof. intros lg s s' e M E f t h R X. rewrite E. apply mark_get_cons_mono. exact (M f t h R X). Qed.
Lemma log_marks_appr : forall lg s s' f t h x, log_marks lg s -> marks s' = (f, t, h, x) :: marks s ->
  log_marks (mkLog ((f, t, h) :: l_appr lg) (l_decl lg) (l_conf lg) (l_rot lg) (l_req lg) (l_alias lg) (l_same lg)) s'.
Proof.
  intros lg s s' f t h x M E f' t' h' R X. simpl in X. rewrite E.
  apply orb_prop in X. destruct X as [X|X].
  - apply in3_cons_inv in X. destruct X as [(-> & -> & ->)|X].
    + rewrite mark_get_cons_same. discriminate.
    + apply mark_get_cons_mono. apply (M f' t' h' R). rewrite X. reflexivity.
  - apply mark_get_cons_mono. apply (M f' t' h' R). rewrite X. apply orb_true_r.
Qed.
Lemma log_marks_decl : forall lg s s' f t h x, log_marks lg s -> marks s' = (f, t, h, x) :: marks s ->
  log_marks (mkLog (l_appr lg) ((f, t, h) :: l_decl lg) (l_conf lg) (l_rot lg) (l_req lg) (l_alias lg) (l_same lg)) s'.
Proof.
  intros lg s s' f t h x M E f' t' h' R X. simpl in X. rewrite E.
  apply orb_prop in X. destruct X as [X|X].
  - apply mark_get_cons_mono. apply (M f' t' h' R). rewrite X. reflexivity.
  - apply in3_cons_inv in X. destruct X as [(-> & -> & ->)|X].
    + rewrite mark_get_cons_same. discriminate.
    + apply mark_get_cons_mono. apply (M f' t' h' R). rewrite X. apply orb_true_r.
Qed.

Lemma voted_refl : forall s, voted s s = false.
Proof. intros. unfold voted. rewrite Nat.eqb_refl. reflexivity. Qed.
Lemma voted_same : forall s s', marks s' = marks s -> voted s s' = false.
Proof. intros s s' E. unfold voted. rewrite E, Nat.eqb_refl. reflexivity. Qed.
Lemma voted_cons : forall s s' e, marks s' = e :: marks s -> voted s s' = true.
Proof.
  intros s s' e E. unfold voted. rewrite E. simpl List.length.
  destruct (Nat.eqb (List.length (marks s)) (S (List.length (marks s)))) eqn:X; auto. apply Nat.eqb_eq in X. lia.
Qed.

Lemma released_gone : forall s s' t h p tx p',
  pool_of s t = Some p -> pool_get h p = Some tx -> pool_of s' t = Some p' -> pool_get h p' = None ->
  released s s' t h = Some tx.
Proof. unfold released, pool_of. intros s s' t h p tx p' E1 E2 E3 E4. rewrite E1, E2, E3, E4. reflexivity. Qed.

(* the share arithmetic: the counter reached the share of the map, the log has at least the counter *)
Lemma threshold_ok : forall mode V n nc cnt,
  mode <= Z.quot (V * 100) n -> 0 <= V -> 0 < n -> 0 <= nc <= n -> V <= cnt -> (cnt * 100 <? mode * nc) = false.
Proof.
  intros mode V n nc cnt Hq HV Hn Hnc Hc.
  assert (n * Z.quot (V * 100) n <= V * 100) by (apply Z.mul_quot_le; lia).
  destruct (Z_lt_le_dec mode 0); nia.
Qed.

(* ---- the clauses a repaired tree may still produce: the design-level ones, and those of rotated accounts *)
Definition starts_key (c : string) : bool :=
  match c with String "k" (String "e" (String "y" (String ":" _))) => true | _ => false end.
Definition residual (c : string) : bool :=
  starts_key c ||
  str_in c ["blocked:multisend"; "whitelist:multisend"; "limits:multisend"; "whitelist:custody_send"; "limits:custody_send";
            "vote_once:approve_rotated"; "vote_once:decline_rotated";
            "threshold:approve_rotated:nongenuine"; "threshold:approve_rotated:undercount";
            "threshold:confirm_rotated:nongenuine"; "threshold:confirm_rotated:undercount";
            "password:approve:requirement_dropped"; "password:confirm:requirement_dropped";
            "password:approve_rotated:requirement_dropped"; "password:confirm_rotated:requirement_dropped";
            "vote_once:approve:same_person"; "vote_once:decline:same_person"; "vote_once:approve_rotated:same_person";
            "vote_once:decline_rotated:same_person"; "vote_once:approve_alias:same_person"; "vote_once:decline_alias:same_person";
            "vote_once:approve_alias"; "vote_once:decline_alias";
            "threshold:approve_alias:nongenuine"; "threshold:approve_alias:undercount";
            "threshold:confirm_alias:nongenuine"; "threshold:confirm_alias:undercount";
            "password:approve_alias:requirement_dropped"; "password:confirm_alias:requirement_dropped"]%string.

(* how the checker names the votes of an account: plainly, or marked as outside the guarantees *)
Definition tainted_kind (k : string) : Prop :=
  k = "approve_rotated"%string \/ k = "confirm_rotated"%string \/ k = "approve_alias"%string \/ k = "confirm_alias"%string.
Lemma vote_kind_plain : forall lg t k, rotated lg t = false -> vote_kind lg t k = k.
Proof.
  intros lg t k R. unfold rotated in R. apply orb_false_elim in R. destruct R as [R1 R2]. unfold vote_kind. rewrite R1, R2. reflexivity.
Qed.
Lemma vote_kind_tainted : forall lg t k, rotated lg t = true -> vote_kind lg t k = (k ++ "_rotated")%string \/ vote_kind lg t k = (k ++ "_alias")%string.
Proof.
  intros lg t k R. unfold vote_kind. destruct (existsb (Z.eqb t) (l_rot lg)) eqn:R1; [left; reflexivity|].
  unfold rotated in R. rewrite R1 in R. simpl in R. rewrite R. right. reflexivity.
Qed.

Lemma residual_key : forall a b, residual (cl3 "key" a b) = true.
Proof. intros. unfold residual, cl3. simpl. reflexivity. Qed.

Ltac lit_res :=
  repeat match goal with
  | X : In _ (_ ++ _) |- _ => apply in_app_or in X; destruct X as [X|X]
  | X : In _ (if ?b then _ else _) |- _ => destruct b
  | X : In _ (match ?x with _ => _ end) |- _ => destruct x
  | X : In _ [] |- _ => destruct X
  | X : In _ (_ :: _) |- _ => destruct X as [X|X]; [subst; repeat match goal with |- context [if ?c then _ else _] => destruct c end; reflexivity|]
  end.

Lemma wl_lim_custody_residual : forall a to amt c, In c (wl_lim_clauses a to amt "custody_send") -> residual c = true.
Proof. intros a to amt c Hin. unfold wl_lim_clauses in Hin. lit_res. Qed.
Lemma path_multisend_residual : forall a to amt c, In c (path_clauses a to amt "multisend") -> residual c = true.
Proof. intros a to amt c Hin. unfold path_clauses, wl_lim_clauses in Hin. lit_res. Qed.

(* ---- the repaired limit path: what an accepted fold established *)
Lemma limits_fold_ok : forall lims now cs st st',
  limits_fold lims now cs st = Ok st' ->
  (forall d a tm, alist_get d st = Some (a, tm) -> 0 <= a) ->
  (forall c, In c cs -> 0 <= snd c) ->
  existsb (over_limit lims) cs = false /\ (forall d a tm, alist_get d st' = Some (a, tm) -> 0 <= a).
Proof.
  induction cs as [|[d amt] r IH]; intros st st' E Hst Hcs; simpl in E.
  - inversion E; subst. split; [reflexivity|exact Hst].
  - assert (Hr : forall c, In c r -> 0 <= snd c) by (intros; apply Hcs; right; assumption).
    assert (Ha : 0 <= amt) by (apply (Hcs (d, amt)); left; reflexivity).
    simpl existsb. unfold over_limit at 1. simpl fst. simpl snd.
    destruct (alist_get d lims) as [[cap lim]|] eqn:El.
    + destruct ((cap =? 0) && String.eqb lim "") eqn:Erm.
      * simpl. exact (IH st st' E Hst Hr).
      * destruct (dur_s lim) as [w|]; [|discriminate]. destruct (w <=? 0); [discriminate|].
        destruct (alist_get d st) as [[a tm]|] eqn:Es.
        -- pose proof (Hst d a tm Es) as Ha0.
           destruct (now - tm <? w).
           ++ destruct (cap <? a + amt) eqn:Ec; [discriminate|].
              assert (X : (cap <? amt) = false) by (clear - Ec Ha0; lia). rewrite X. simpl.
              apply (IH _ st' E); [|exact Hr].
              intros d' a' tm' Q. rewrite alist_get_map_set in Q. destruct (d' =? d); [inversion Q; subst; clear - Ha Ha0; lia|eauto].
           ++ destruct (cap <? 0 + amt) eqn:Ec; [discriminate|].
              assert (X : (cap <? amt) = false) by (clear - Ec; lia). rewrite X. simpl.
              apply (IH _ st' E); [|exact Hr].
              intros d' a' tm' Q. rewrite alist_get_map_set in Q. destruct (d' =? d); [inversion Q; subst; clear - Ha; lia|eauto].
        -- destruct (cap <? 0 + amt) eqn:Ec; [discriminate|].
           assert (X : (cap <? amt) = false) by (clear - Ec; lia). rewrite X. simpl.
           apply (IH _ st' E); [|exact Hr].
           intros d' a' tm' Q. rewrite alist_get_map_set in Q. destruct (d' =? d); [inversion Q; subst; clear - Ha; lia|eauto].
    + simpl. exact (IH st st' E Hst Hr).
Qed.

Lemma coins_ok_nonneg : forall cs c, coins_ok cs = true -> In c cs -> 0 <= snd c.
Proof.
  intros cs c E Hin. destruct cs as [|x cs]; [contradiction|]. unfold coins_ok in E.
  pose proof (coins_sorted_pos _ _ _ E Hin). lia.
Qed.

(* ---- a vote never takes more than the voter's reward out of the paying account unless the transfer leaves the pool *)
Lemma quot_bound : forall r n, 0 < n -> 0 <= Z.quot r n -> Z.quot r n <= Z.max 0 r.
Proof.
  intros r n Hn Hq. pose proof (Z.quot_rem' r n) as E.
  destruct (Z_lt_le_dec r 0) as [Hr|Hr].
  - assert (B : - n < Z.rem r n <= 0) by (apply Z.rem_bound_pos_neg; lia). nia.
  - assert (B : 0 <= Z.rem r n < n) by (apply Z.rem_bound_pos; lia). nia.
Qed.

Lemma bal_sub_one : forall b rd q d, bal_get d (bal_sub b [(rd, q)]) = if d =? rd then bal_get rd b - q else bal_get d b.
Proof. intros. unfold bal_sub. simpl. rewrite bal_get_map_set. simpl. destruct (d =? rd); reflexivity. Qed.

Lemma send_reward_bound : forall s t f rd q r0 s1,
  send s t f (one_coin rd q) = Ok s1 -> 0 <= q <= r0 ->
  forall x d, bal_get d (a_bal (getA s x)) <= (if (x =? t) && (d =? rd) then r0 else 0) + bal_get d (a_bal (getA s1 x)).
Proof.
  intros s t f rd q r0 s1 E Hq x d. unfold one_coin in E. destruct (q =? 0) eqn:Eq0.
  - (* nothing moves *)
    unfold send in E. cbn [coins_valid negb can_pay forallb] in E. inversion E; subst. clear E.
    unfold bal_sub, bal_add. cbn [fold_left].
    assert (G : a_bal (getA (setA (setA s t (with_bal (getA s t) (a_bal (getA s t)))) f
                  (with_bal (getA (setA s t (with_bal (getA s t) (a_bal (getA s t)))) f) (a_bal (getA (setA s t (with_bal (getA s t) (a_bal (getA s t)))) f)))) x)
                = a_bal (getA s x)).
    { rewrite getA_setA. destruct (x =? f) eqn:Ef.
      - assert (x = f) by lia; subst. cbn [a_bal with_bal]. rewrite getA_setA. destruct (f =? t) eqn:Eft; [assert (f = t) by lia; subst|]; reflexivity.
      - rewrite getA_setA. destruct (x =? t) eqn:Et; [assert (x = t) by lia; subst|]; reflexivity. }
    rewrite G. destruct ((x =? t) && (d =? rd)); lia.
  - unfold send in E. destruct (negb (coins_valid [(rd, q)])); [discriminate|].
    destruct (can_pay (a_bal (getA s t)) [(rd, q)]); inversion E; subst. clear E.
    set (A' := with_bal (getA s t) (bal_sub (a_bal (getA s t)) [(rd, q)])).
    set (s0 := setA s t A').
    rewrite getA_setA. destruct (x =? f) eqn:Ef.
    + assert (x = f) by lia; subst x. cbn [a_bal with_bal].
      assert (G : bal_get d (a_bal (getA s0 f)) <= bal_get d (bal_add (a_bal (getA s0 f)) [(rd, q)])).
      { apply bal_add_ge. intros c [<-|[]]. simpl. lia. }
      assert (G2 : bal_get d (a_bal (getA s f)) <= (if (f =? t) && (d =? rd) then r0 else 0) + bal_get d (a_bal (getA s0 f))).
      { unfold s0. rewrite getA_setA. destruct (f =? t) eqn:Eft.
        - assert (f = t) by lia; subst f. unfold A'. cbn [a_bal with_bal]. rewrite ?bal_sub_one, ?bal_get_map_set. simpl andb.
          destruct (d =? rd) eqn:Ed; [assert (d = rd) by lia; subst d|]; lia.
        - simpl andb; cbv iota; lia. }
      eapply Z.le_trans; [exact G2|]. apply Zplus_le_compat_l. exact G.
    + unfold s0. rewrite getA_setA. destruct (x =? t) eqn:Et.
      * assert (x = t) by lia; subst x. unfold A'. cbn [a_bal with_bal]. rewrite ?bal_sub_one, ?bal_get_map_set. simpl andb.
        destruct (d =? rd) eqn:Ed; [assert (d = rd) by lia; subst d|]; lia.
      * simpl andb; cbv iota; lia.
Qed.

Lemma paid_refl : forall s t h, paid_without_release s s t h = false.
Proof.
  intros. unfold paid_without_release. destruct (released s s t h); [reflexivity|].
  apply Bool.not_true_is_false. intros E. apply existsb_exists in E. destruct E as (d & _ & E).
  destruct (pending s t h) as [tx|].
  - destruct (t_from tx =? t); destruct (t_rew tx) as [|[rd r] rr];
      repeat match type of E with context [if ?c then _ else _] => destruct c end; lia.
  - repeat match type of E with context [if ?c then _ else _] => destruct c end; lia.
Qed.

(* after a vote whose only transfer was the reward share out of [t] *)
Lemma paid_reward_only : forall s s' t h p tx rd r0 rr q,
  pool_of s t = Some p -> pool_get h p = Some tx -> t_rew tx = (rd, r0) :: rr -> 0 <= q <= Z.max 0 r0 ->
  (forall x d, bal_get d (a_bal (getA s x)) <= (if (x =? t) && (d =? rd) then Z.max 0 r0 else 0) + bal_get d (a_bal (getA s' x))) ->
  paid_without_release s s' t h = false.
Proof.
  intros s s' t h p tx rd r0 rr q Hp Hg Hr Hq B. unfold paid_without_release.
  destruct (released s s' t h); [reflexivity|].
  unfold pending. unfold pool_of in Hp. rewrite Hp, Hg, Hr.
  apply Bool.not_true_is_false. intros E. apply existsb_exists in E. destruct E as (d & _ & E).
  specialize (B (t_from tx) d). destruct (t_from tx =? t) eqn:Ef; simpl andb in B; cbv iota in B; destruct (d =? rd); lia.
Qed.

(* ================================================================ 7. soundness of the checker on the repaired variant, operation by operation *)
Definition sound_step (n : nat) (lg : log) (s s' : state) (o : op) : Prop :=
  (forall c, In c (fst (op_clauses n lg s s s' o)) -> residual c = true) /\ Inv (snd (op_clauses n lg s s s' o)) s'.

Lemma release_clauses_ok : forall lg s t h tx V kind,
  (rotated lg t = false /\ (kind = "approve"%string \/ kind = "confirm"%string) /\ 0 <= V /\ V <= count_appr t h (l_appr lg) /\
   (forall st, a_set (getA s t) = Some st -> s_en st = true -> 0 < n_cust (getA s t) ->
      exists c, a_cust (getA s t) = Some c /\ 0 < map_len c /\ s_mode st <= Z.quot (V * 100) (map_len c)))
  \/ tainted_kind kind ->
  (forall st, a_set (getA s t) = Some st -> s_pwd st = true -> in2 t h (l_conf lg) = true) ->
  forall x, In x (release_clauses lg s t h tx V kind) -> residual x = true.
Proof.
  intros lg s t h tx V kind HT HP x Hin.
  assert (HK0 : kind = "approve"%string \/ kind = "confirm"%string \/ tainted_kind kind).
  { destruct HT as [(_ & [K|K] & _)|K]; auto. }
  unfold release_clauses in Hin. cbv zeta in Hin.
  apply in_app_or in Hin. destruct Hin as [Hin|Hin].
  - destruct HT as [(Hr & _ & HV & Hcnt & HC)|HK].
    + exfalso. unfold guarded in Hin. destruct (a_set (getA s t)) as [st|] eqn:Hs; [|destruct Hin].
      destruct (s_en st) eqn:He; [|destruct Hin]. simpl andb in Hin.
      destruct (0 <? n_cust (getA s t)) eqn:Hnc; [|destruct Hin].
      destruct (HC st eq_refl He ltac:(apply Z.ltb_lt; exact Hnc)) as (c & Hc & Hn & Hm).
      rewrite (threshold_ok (s_mode st) V (map_len c) (n_cust (getA s t)) (count_appr t h (l_appr lg))) in Hin; auto.
      split; [apply n_cust_nonneg|apply n_cust_le_map_len; assumption].
    + destruct HK as [->|[->|[->| ->]]]; lit_res.
  - apply in_app_or in Hin. destruct Hin as [Hin|Hin].
    + destruct (in2 t h (l_conf lg)) eqn:Ei; simpl negb in Hin; cbv iota in Hin; [destruct Hin|].
      unfold flag in Hin. destruct (a_set (getA s t)) as [st|] eqn:Hs.
      * destruct (s_pwd st) eqn:Hw; [pose proof (HP st eq_refl Hw) as Y; congruence|].
        destruct HK0 as [->|[->|[->|[->|[->| ->]]]]]; lit_res.
      * destruct HK0 as [->|[->|[->|[->|[->| ->]]]]]; lit_res.
    + eapply wl_lim_custody_residual; eauto.
Qed.

(* the invariant after an approval that took effect: the pool of [t] lost the transfer or counts one more vote *)
Lemma approve_inv : forall lg lg1 s s' f t h p tx p',
  Inv lg s -> pool_of s t = Some p -> pool_get h p = Some tx ->
  marks s' = (f, t, h, 1) :: marks s -> pool_of s' t = Some p' -> (forall u, u <> t -> pool_of s' u = pool_of s u) ->
  (forall u, a_stat (getA s' u) = a_stat (getA s u)) ->
  p' = pool_del h p \/ p' = pool_set h (tx_votes tx (t_votes tx + 1)) p ->
  lg1 = mkLog ((f, t, h) :: l_appr lg) (l_decl lg) (l_conf lg) (l_rot lg) (l_req lg) (l_alias lg) (l_same lg)
  \/ ((lg1 = lg \/ lg1 = mkLog (l_appr lg) (l_decl lg) (l_conf lg) (l_rot lg) (l_req lg) (l_alias lg) (t :: l_same lg)) /\ rotated lg1 t = true) ->
  Inv lg1 s'.
Proof.
  intros lg lg1 s s' f t h p tx p' I Hp Hg Mk Pt Po St Hp' Hl. pose proof I as (I1 & I2 & I3 & I4).
  assert (LE : log_le lg lg1).
  { destruct Hl as [->|[[->| ->] _]]; [apply log_le_appr|apply log_le_refl|].
    split; [|split]; simpl; intros; auto; [lia|]. unfold rotated in *. simpl in H. apply orb_false_elim in H. destruct H as [H1 H2].
    apply orb_false_elim in H2. destruct H2 as [_ H2]. rewrite H1, H2. reflexivity. }
  assert (LM : log_marks lg1 s').
  { destruct Hl as [->|[[->| ->] _]]; [eapply log_marks_appr; eauto|eapply log_marks_cons; eauto|].
    intros f' t' h' R X. simpl in X. rewrite Mk. apply mark_get_cons_mono. apply (I1 f' t' h'); [|exact X].
    destruct LE as (_ & _ & L3). exact (L3 t' R). }
  apply (Inv_pool_update lg lg1 s s' t p' I LE LM Pt Po); [|exact St].
  intros h' tx' Q.
  assert (Cf : forall y, pool_get h' p = Some y -> t_conf y = true -> in2 t h' (l_conf lg1) = true).
  { intros y Qy Cy. destruct LE as (_ & L2 & _). apply L2. exact (I3 t p h' y Hp Qy Cy). }
  assert (Vt : forall y, pool_get h' p = Some y -> rotated lg1 t = false -> 0 <= t_votes y <= count_appr t h' (l_appr lg1)).
  { intros y Qy R. destruct LE as (L1 & _ & L3). destruct (I2 t p h' y (L3 t R) Hp Qy) as [A B]. specialize (L1 t h'). lia. }
  destruct Hp' as [->| ->].
  - apply pool_get_del_some in Q. split; [exact (Vt tx' Q)|exact (Cf tx' Q)].
  - rewrite pool_get_set in Q. destruct (String.eqb h' h) eqn:Eh.
    + apply String.eqb_eq in Eh; subst h'. inversion Q; subst tx'. unfold tx_votes. cbn [t_votes t_conf]. split; [|exact (Cf tx Hg)].
      intros R. destruct Hl as [->|[_ Hr]]; [|congruence].
      simpl l_appr. rewrite count_appr_cons_hit. assert (R0 : rotated lg t = false) by exact R. destruct (I2 t p h tx R0 Hp Hg) as [A B]. lia.
    + split; [exact (Vt tx' Q)|exact (Cf tx' Q)].
Qed.

Lemma rotated_cons2 : forall lg a nw t x y z q al,
  rotated (mkLog x y z (a :: nw :: l_rot lg) q al (l_same lg)) t = false -> t <> a /\ t <> nw /\ rotated lg t = false.
Proof.
  intros lg a nw t x y z q al R. unfold rotated in *. simpl in R.
  apply orb_false_elim in R. destruct R as [R R3]. apply orb_false_elim in R. destruct R as [R1 R]. apply orb_false_elim in R. destruct R as [R2 R].
  rewrite R, R3. repeat split; [lia|lia].
Qed.

Section Sound.
Variable v : variant.
Hypothesis Hco : v_cust_only v = true.
Hypothesis Hlo : v_lower v = true.
Hypothesis Hpw : v_pwd v = true.
Variable H : string -> string.
Variable minrew : Z.

Lemma approve_noop_sound : forall n lg s f t hraw,
  Inv lg s -> is_custodian (getA s t) f = true -> sound_step n lg s s (OApprove f t hraw).
Proof.
  intros n lg s f t hraw I Hisc. unfold sound_step, op_clauses. cbv zeta.
  rewrite Hisc, voted_refl, !andb_false_r, paid_refl, (dec_nondec s s t (nondec_refl s t)), released_same_pool by reflexivity. simpl. split; [intros x []|exact I].
Qed.

Lemma sound_approve : forall n lg s f t hraw s',
  Inv lg s -> handle v s (OApprove f t hraw) = Ok s' -> sound_step n lg s s' (OApprove f t hraw).
Proof.
  intros n lg s f t hraw s' I E. pose proof I as (I1 & I2 & I3 & I4).
  simpl in E. unfold voter_ok, mark_key in E. rewrite Hco, Hlo in E. unfold bind, rec_missing in E.
  destruct (a_cust (getA s t)) as [c|] eqn:Hc; [|discriminate].
  destruct (bool_at f c) eqn:Hb; [|discriminate]. simpl negb in E. cbv iota in E.
  pose proof (bool_at_is_custodian _ _ _ Hc Hb) as Hisc.
  destruct (mark_get f t (to_lower hraw) (marks s)) eqn:Hm; [inversion E; subst s'; apply approve_noop_sound; assumption|].
  destruct (a_pool (getA s t)) as [p|] eqn:Hp; [|discriminate].
  destruct (pool_get (to_lower hraw) p) as [tx|] eqn:Hg; [|discriminate].
  destruct (t_rew tx) as [|[rd r0] rr] eqn:Hrw; [discriminate|].
  destruct (map_len c =? 0) eqn:En; [discriminate|].
  destruct (Z.quot r0 (map_len c) <? 0) eqn:Eq; [discriminate|].
  destruct (send s t f (one_coin rd (Z.quot r0 (map_len c)))) as [s1| |] eqn:E1; try discriminate.
  assert (Hn : 0 < map_len c) by (clear - En; unfold map_len in *; lia).
  assert (Hq : 0 <= Z.quot r0 (map_len c) <= Z.max 0 r0) by (split; [clear - Eq; lia|apply quot_bound; [exact Hn|clear - Eq; lia]]).
  pose proof (send_reward_bound _ _ _ _ _ _ _ E1 Hq) as B1.
  set (h := to_lower hraw) in *.
  set (lgc := mkLog ((f, t, h) :: l_appr lg) (l_decl lg) (l_conf lg) (l_rot lg) (l_req lg) (l_alias lg) (l_same lg)).
  set (lgs := mkLog (l_appr lg) (l_decl lg) (l_conf lg) (l_rot lg) (l_req lg) (l_alias lg) (t :: l_same lg)).
  set (dup := in3 f t h (l_appr lg) || in3 f t h (l_decl lg)).
  set (lg1 := if negb dup then (if negb dup && same_person lg f t h then lgs else lgc) else lg).
  (* the log after the step, and the vote clauses *)
  assert (HL : (lg1 = lgc \/ ((lg1 = lg \/ lg1 = lgs) /\ rotated lg1 t = true)) /\
               (forall x, In x ((if dup then [cl "vote_once" (vote_kind lg t "approve")] else []) ++
                                (if negb dup && same_person lg f t h then [cl3 "vote_once" (vote_kind lg t "approve") "same_person"] else [])) -> residual x = true)).
  { unfold lg1. destruct dup eqn:Hd; simpl negb; simpl andb; cbv iota.
    - destruct (rotated lg t) eqn:Hr; [|exfalso; exact (I1 _ _ _ Hr Hd Hm)].
      split; [right; split; [left; reflexivity|first [exact Hr|reflexivity]]|]. intros x Hx. rewrite app_nil_r in Hx. destruct Hx as [<-|[]].
      destruct (vote_kind_tainted lg t "approve" Hr) as [-> | ->]; reflexivity.
    - destruct (same_person lg f t h).
      + split.
        * right. split; [right; reflexivity|]. unfold rotated, lgs. simpl. rewrite Z.eqb_refl. simpl. apply orb_true_r.
        * intros x [<-|[]]. destruct (rotated lg t) eqn:Hr.
          -- destruct (vote_kind_tainted lg t "approve" Hr) as [-> | ->]; reflexivity.
          -- rewrite (vote_kind_plain lg t "approve" Hr). reflexivity.
      + split; [left; reflexivity|intros x []]. }
  destruct HL as [HL1 HL2].
  (* the clauses of a pay-out judged against the log after the step *)
  assert (HR : forall x, In x (release_clauses lg1 s t h tx (t_votes tx + 1) (vote_kind lg1 t "approve")) ->
               (forall st, a_set (getA s t) = Some st -> s_en st = true -> s_mode st <= Z.quot ((t_votes tx + 1) * 100) (map_len c)) ->
               (forall st, a_set (getA s t) = Some st -> s_pwd st = true -> t_conf tx = true) -> residual x = true).
  { intros x Hin HCm HPw.
    apply (release_clauses_ok lg1 s t h tx (t_votes tx + 1) (vote_kind lg1 t "approve")); [| |exact Hin].
    - destruct (rotated lg1 t) eqn:Hr1.
      + right. destruct (vote_kind_tainted lg1 t "approve" Hr1) as [-> | ->]; unfold tainted_kind; auto.
      + left. destruct HL1 as [HL1|[_ HL1]]; [|congruence].
        assert (Hr : rotated lg t = false) by (rewrite HL1 in Hr1; exact Hr1).
        destruct (I2 t p h tx Hr Hp Hg) as [Hv0 Hv1].
        split; [reflexivity|]. split; [left; apply vote_kind_plain; exact Hr1|]. split; [clear - Hv0; lia|]. split.
        * rewrite HL1. simpl l_appr. rewrite count_appr_cons_hit. clear - Hv1. lia.
        * intros st Hs He _. exists c. split; [exact Hc|]. split; [exact Hn|]. exact (HCm st Hs He).
    - intros st Hs Hw. assert (Y : in2 t h (l_conf lg) = true) by exact (I3 t p h tx Hp Hg (HPw st Hs Hw)).
      destruct HL1 as [->|[[->| ->] _]]; exact Y. }
  unfold sound_step, op_clauses. cbv zeta. fold h. rewrite Hisc. simpl negb. simpl andb. fold dup.
  match type of E with (if ?b then _ else _) = _ => destruct b eqn:Eb end.
  - (* paid out *)
    destruct (send (add_mark s1 f t h 1) (t_from tx) (t_to tx) (t_amt tx)) as [s3| |] eqn:E3; try discriminate.
    inversion E; subst s'. clear E.
    assert (Mk : marks (store_pool s3 t (pool_del h p)) = (f, t, h, 1) :: marks s).
    { rewrite store_pool_marks, (send_marks _ _ _ _ _ E3). simpl. rewrite (send_marks _ _ _ _ _ E1). reflexivity. }
    assert (Po : forall u, u <> t -> pool_of (store_pool s3 t (pool_del h p)) u = pool_of s u).
    { intros u Hu. rewrite pool_of_store_other by assumption. unfold pool_of.
      rewrite (proj1 (send_frame _ _ _ _ _ E3 u)), add_mark_frame, (proj1 (send_frame _ _ _ _ _ E1 u)). reflexivity. }
    assert (St : forall u, a_stat (getA (store_pool s3 t (pool_del h p)) u) = a_stat (getA s u)).
    { intros u. rewrite stat_store_pool, (proj2 (send_frame _ _ _ _ _ E3 u)), add_mark_frame, (proj2 (send_frame _ _ _ _ _ E1 u)). reflexivity. }
    pose proof (released_gone s (store_pool s3 t (pool_del h p)) t h p tx (pool_del h p) Hp Hg (pool_of_store_same _ _ _) (pool_get_del_same _ _)) as Rl.
    assert (Pd : paid_without_release s (store_pool s3 t (pool_del h p)) t h = false) by (unfold paid_without_release; rewrite Rl; reflexivity).
    rewrite (voted_cons _ _ _ Mk), Pd, Rl. rewrite !andb_true_r. simpl negb. simpl andb. fold lg1.
    simpl fst. simpl snd. split.
    + intros x Hin. rewrite app_assoc in Hin. apply in_app_or in Hin. destruct Hin as [Hin|Hin]; [exact (HL2 x Hin)|]. simpl app in Hin.
      apply (HR x Hin).
      * intros st Hs He. rewrite Hs, He in Eb. assert (X : 0 <? map_len c = true) by (apply Z.ltb_lt; exact Hn). rewrite X in Eb. simpl andb in Eb.
        apply andb_prop in Eb. destruct Eb as [Eb _]. apply Z.leb_le in Eb. exact Eb.
      * intros st Hs Hw. rewrite Hs, Hw in Eb. apply andb_prop in Eb. destruct Eb as [_ Eb]. exact Eb.
    + exact (approve_inv lg lg1 s (store_pool s3 t (pool_del h p)) f t h p tx (pool_del h p) I Hp Hg Mk (pool_of_store_same _ _ _) Po St (or_introl eq_refl) HL1).
  - (* counted, not yet paid out *)
    inversion E; subst s'. clear E.
    set (tx1 := tx_votes tx (t_votes tx + 1)).
    assert (Mk : marks (store_pool (add_mark s1 f t h 1) t (pool_set h tx1 p)) = (f, t, h, 1) :: marks s).
    { rewrite store_pool_marks. simpl. rewrite (send_marks _ _ _ _ _ E1). reflexivity. }
    assert (Po : forall u, u <> t -> pool_of (store_pool (add_mark s1 f t h 1) t (pool_set h tx1 p)) u = pool_of s u).
    { intros u Hu. rewrite pool_of_store_other by assumption. unfold pool_of.
      rewrite add_mark_frame, (proj1 (send_frame _ _ _ _ _ E1 u)). reflexivity. }
    assert (St : forall u, a_stat (getA (store_pool (add_mark s1 f t h 1) t (pool_set h tx1 p)) u) = a_stat (getA s u)).
    { intros u. rewrite stat_store_pool, add_mark_frame, (proj2 (send_frame _ _ _ _ _ E1 u)). reflexivity. }
    assert (Rl : released s (store_pool (add_mark s1 f t h 1) t (pool_set h tx1 p)) t h = None).
    { apply (released_present s (store_pool (add_mark s1 f t h 1) t (pool_set h tx1 p)) t h (pool_set h tx1 p) tx1 (pool_of_store_same _ _ _)). rewrite pool_get_set, String.eqb_refl. reflexivity. }
    assert (Pd : paid_without_release s (store_pool (add_mark s1 f t h 1) t (pool_set h tx1 p)) t h = false).
    { apply (paid_reward_only s (store_pool (add_mark s1 f t h 1) t (pool_set h tx1 p)) t h p tx rd r0 rr (Z.quot r0 (map_len c)) Hp Hg Hrw Hq). intros x d. rewrite bal_store_pool, add_mark_frame. apply B1. }
    rewrite (voted_cons _ _ _ Mk), Pd, Rl. rewrite !andb_true_r. simpl negb. simpl andb. fold lg1.
    simpl fst. simpl snd. split.
    + intros x Hin. rewrite app_assoc in Hin. apply in_app_or in Hin. destruct Hin as [Hin|Hin]; [exact (HL2 x Hin)|destruct Hin].
    + exact (approve_inv lg lg1 s (store_pool (add_mark s1 f t h 1) t (pool_set h tx1 p)) f t h p tx (pool_set h tx1 p) I Hp Hg Mk (pool_of_store_same _ _ _) Po St (or_intror eq_refl) HL1).
Qed.

Lemma paid_nondec : forall s s' t h, (forall x, nondec s s' x) -> paid_without_release s s' t h = false.
Proof.
  intros s s' t h N. unfold paid_without_release. destruct (released s s' t h); [reflexivity|].
  apply Bool.not_true_is_false. intros E. apply existsb_exists in E. destruct E as (d & _ & E).
  destruct (pending s t h) as [tx|].
  - specialize (N (t_from tx) d). destruct (t_from tx =? t); destruct (t_rew tx) as [|[rd r] rr];
      repeat match type of E with context [if ?c then _ else _] => destruct c end; lia.
  - specialize (N t d). repeat match type of E with context [if ?c then _ else _] => destruct c end; lia.
Qed.

Lemma decline_noop_sound : forall n lg s f t hraw,
  Inv lg s -> is_custodian (getA s t) f = true -> sound_step n lg s s (ODecline f t hraw).
Proof.
  intros n lg s f t hraw I Hisc. unfold sound_step, op_clauses. cbv zeta.
  rewrite Hisc, voted_refl, !andb_false_r, paid_refl, (dec_nondec s s t (nondec_refl s t)), released_same_pool by reflexivity. simpl. split; [intros x []|exact I].
Qed.

Lemma sound_decline : forall n lg s f t hraw s',
  Inv lg s -> handle v s (ODecline f t hraw) = Ok s' -> sound_step n lg s s' (ODecline f t hraw).
Proof.
  intros n lg s f t hraw s' I E. pose proof I as (I1 & I2 & I3 & I4).
  simpl in E. unfold voter_ok, mark_key in E. rewrite Hco, Hlo in E. unfold bind in E.
  destruct (a_cust (getA s t)) as [c|] eqn:Hc; [|discriminate].
  destruct (bool_at f c) eqn:Hb; [|discriminate]. simpl negb in E. cbv iota in E.
  pose proof (bool_at_is_custodian _ _ _ Hc Hb) as Hisc.
  destruct (mark_get f t (to_lower hraw) (marks s)) eqn:Hm; [inversion E; subst; apply decline_noop_sound; assumption|].
  destruct (a_set (getA s t)) as [st|]; [|inversion E; subst; apply decline_noop_sound; assumption].
  destruct (negb (s_en st)); [inversion E; subst; apply decline_noop_sound; assumption|].
  destruct (map_len c =? 0) eqn:En; [inversion E; subst; apply decline_noop_sound; assumption|].
  destruct (a_pool (getA s t)) as [p|] eqn:Hp; [|inversion E; subst; apply decline_noop_sound; assumption].
  destruct (pool_get (to_lower hraw) p) as [tx|] eqn:Hg; [|inversion E; subst; apply decline_noop_sound; assumption].
  destruct (t_rew tx) as [|[rd r0] rr] eqn:Hrw; [discriminate|].
  destruct (Z.quot r0 (map_len c) <? 0) eqn:Eq; [discriminate|].
  assert (Hn : 0 < map_len c) by (clear - En; unfold map_len in *; lia).
  assert (Hq : 0 <= Z.quot r0 (map_len c) <= Z.max 0 r0) by (split; [clear - Eq; lia|apply quot_bound; [exact Hn|clear - Eq; lia]]).
  pose proof (send_reward_bound _ _ _ _ _ _ _ E Hq) as B1.
  set (h := to_lower hraw) in *.
  assert (Mk : marks s' = (f, t, h, -1) :: marks s) by (rewrite (send_marks _ _ _ _ _ E); reflexivity).
  assert (Po : forall u, pool_of s' u = pool_of s u).
  { intros u. unfold pool_of. rewrite (proj1 (send_frame _ _ _ _ _ E u)). reflexivity. }
  assert (St : forall u, a_stat (getA s' u) = a_stat (getA s u)).
  { intros u. rewrite (proj2 (send_frame _ _ _ _ _ E u)). reflexivity. }
  assert (Pd : paid_without_release s s' t h = false).
  { apply (paid_reward_only s s' t h p tx rd r0 rr (Z.quot r0 (map_len c)) Hp Hg Hrw Hq). intros x d. apply B1. }
  unfold sound_step, op_clauses. cbv zeta. fold h. rewrite Hisc. simpl negb. simpl andb.
  rewrite (voted_cons _ _ _ Mk), Pd, (released_same_pool s s' t h (Po t)). rewrite !andb_true_r. simpl app. rewrite !app_nil_r.
  assert (SP : forall x, In x (if negb (in3 f t h (l_appr lg) || in3 f t h (l_decl lg)) && same_person lg f t h
                               then [cl3 "vote_once" (vote_kind lg t "decline") "same_person"] else []) -> residual x = true).
  { intros x Hx. destruct (negb (in3 f t h (l_appr lg) || in3 f t h (l_decl lg)) && same_person lg f t h); [|destruct Hx].
    destruct Hx as [<-|[]]. destruct (rotated lg t) eqn:Hr.
    - destruct (vote_kind_tainted lg t "decline" Hr) as [-> | ->]; reflexivity.
    - rewrite (vote_kind_plain lg t "decline" Hr). reflexivity. }
  destruct (in3 f t h (l_appr lg) || in3 f t h (l_decl lg)) eqn:Hd; simpl negb; cbv iota.
  - destruct (rotated lg t) eqn:Hr; [|exfalso; exact (I1 _ _ _ Hr Hd Hm)].
    simpl fst. simpl snd. split.
    + intros x Hin. simpl in Hin. destruct Hin as [<-|[]].
      destruct (vote_kind_tainted lg t "decline" Hr) as [-> | ->]; reflexivity.
    + exact (Inv_same_pools lg lg s s' I (log_le_refl _) (log_marks_cons _ _ _ _ I1 Mk) Po St).
  - simpl fst. simpl snd. split; [intros x Hin; exact (SP x Hin)|].
    exact (Inv_same_pools lg _ s s' I (log_le_decl _ _) (log_marks_decl _ _ _ _ _ _ _ I1 Mk) Po St).
Qed.

Lemma sound_confirm : forall n lg s f t hraw pw ph s',
  Inv lg s -> handle v s (OConfirm f t hraw pw ph) = Ok s' -> sound_step n lg s s' (OConfirm f t hraw pw ph).
Proof.
  intros n lg s f t hraw pw ph s' I E. pose proof I as (I1 & I2 & I3 & I4).
  simpl in E. rewrite Hpw in E. unfold bind, rec_missing in E.
  destruct (a_pool (getA s t)) as [p|] eqn:Hp; [|repeat (dmatch_in E; try discriminate)].
  destruct (pool_get (to_lower hraw) p) as [tx|] eqn:Hg; [|simpl in E; repeat (dmatch_in E; try discriminate)].
  simpl andb in E. destruct (String.eqb pw (t_pw tx)) eqn:Epw; simpl negb in E; cbv iota in E; [|discriminate].
  simpl option_map in E.
  set (h := to_lower hraw) in *.
  set (lg1 := mkLog (l_appr lg) (l_decl lg) ((t, h) :: l_conf lg) (l_rot lg) (l_req lg) (l_alias lg) (l_same lg)).
  set (r := tx_conf tx true) in *.
  set (kind := vote_kind lg t "confirm").
  unfold sound_step, op_clauses. cbv zeta. fold h. unfold pending. rewrite Hp, Hg, Epw. simpl orb. cbv iota. fold lg1. fold kind.
  match type of E with (match ?a with _ => _ end) = _ => destruct a as [allowC| |] eqn:EC; try discriminate end.
  match type of E with (match ?a with _ => _ end) = _ => destruct a as [allowP| |] eqn:EP; try discriminate end.
  assert (Vt : forall h' y, pool_get h' p = Some y -> rotated lg1 t = false -> 0 <= t_votes y <= count_appr t h' (l_appr lg1)).
  { intros h' y Qy R. exact (I2 t p h' y R Hp Qy). }
  assert (Cf : forall h' y, pool_get h' p = Some y -> t_conf y = true -> in2 t h' (l_conf lg1) = true).
  { intros h' y Qy Cy. unfold lg1; simpl l_conf. apply in2_cons. exact (I3 t p h' y Hp Qy Cy). }
  destruct (allowC && allowP) eqn:Eb.
  - (* paid out *)
    change (t_from r) with (t_from tx) in E. change (t_to r) with (t_to tx) in E. change (t_amt r) with (t_amt tx) in E.
    destruct (send s (t_from tx) (t_to tx) (t_amt tx)) as [s1| |] eqn:E1; try discriminate.
    inversion E; subst s'. clear E.
    assert (Mk : marks (store_pool s1 t (pool_del h p)) = marks s).
    { rewrite store_pool_marks. exact (send_marks _ _ _ _ _ E1). }
    assert (Po : forall u, u <> t -> pool_of (store_pool s1 t (pool_del h p)) u = pool_of s u).
    { intros u Hu. rewrite pool_of_store_other by assumption. unfold pool_of. rewrite (proj1 (send_frame _ _ _ _ _ E1 u)). reflexivity. }
    assert (St : forall u, a_stat (getA (store_pool s1 t (pool_del h p)) u) = a_stat (getA s u)).
    { intros u. rewrite stat_store_pool, (proj2 (send_frame _ _ _ _ _ E1 u)). reflexivity. }
    pose proof (released_gone s (store_pool s1 t (pool_del h p)) t h p tx (pool_del h p) Hp Hg (pool_of_store_same _ _ _) (pool_get_del_same _ _)) as Rl.
    assert (Pd : paid_without_release s (store_pool s1 t (pool_del h p)) t h = false) by (unfold paid_without_release; rewrite Rl; reflexivity).
    rewrite Pd, Rl. simpl fst. simpl snd. split.
    + intros x Hin. simpl in Hin.
      apply (release_clauses_ok lg1 s t h tx (t_votes tx) kind); [| |exact Hin].
      * destruct (rotated lg t) eqn:Hr.
        { right. unfold kind. destruct (vote_kind_tainted lg t "confirm" Hr) as [-> | ->]; unfold tainted_kind; auto. }
        left. destruct (I2 t p h tx Hr Hp Hg) as [Hv0 Hv1].
        split; [exact Hr|]. split; [right; unfold kind; apply vote_kind_plain; exact Hr|]. split; [exact Hv0|]. split; [exact Hv1|].
        intros st Hs He Hnc. rewrite Hs, He in EC.
        destruct (a_cust (getA s t)) as [c|] eqn:Hc; [|discriminate].
        pose proof (n_cust_le_map_len _ _ Hc) as Hle.
        assert (X : 0 <? map_len c = true) by (apply Z.ltb_lt; clear - Hle Hnc; lia). rewrite X in EC.
        inversion EC; subst allowC. apply andb_prop in Eb. destruct Eb as [Eb _]. apply Z.leb_le in Eb.
        exists c. split; [reflexivity|]. split; [apply Z.ltb_lt; exact X|exact Eb].
      * intros st Hs Hw. unfold lg1. simpl l_conf. apply in2_cons_same.
    + apply (Inv_pool_update lg lg1 s _ t (pool_del h p) I (log_le_conf _ _) (log_marks_same lg1 s _ I1 Mk)
               (pool_of_store_same _ _ _) Po); [|exact St].
      intros h' tx' Q. apply pool_get_del_some in Q. split; [exact (Vt h' tx' Q)|exact (Cf h' tx' Q)].
  - (* confirmed, not yet paid out *)
    inversion E; subst s'. clear E.
    assert (Po : forall u, u <> t -> pool_of (store_pool s t (pool_set h r p)) u = pool_of s u).
    { intros u Hu. rewrite pool_of_store_other by assumption. reflexivity. }
    assert (Rl : released s (store_pool s t (pool_set h r p)) t h = None).
    { apply (released_present s (store_pool s t (pool_set h r p)) t h (pool_set h r p) r (pool_of_store_same _ _ _)). rewrite pool_get_set, String.eqb_refl. reflexivity. }
    assert (Pd : paid_without_release s (store_pool s t (pool_set h r p)) t h = false).
    { apply paid_nondec. intros x d. rewrite bal_store_pool. lia. }
    rewrite Pd, Rl. simpl fst. simpl snd. split; [intros x []|].
    apply (Inv_pool_update lg lg1 s _ t (pool_set h r p) I (log_le_conf _ _) (log_marks_same lg1 s _ I1 (store_pool_marks _ _ _))
             (pool_of_store_same _ _ _) Po); [|intros u; apply stat_store_pool].
    intros h' tx' Q. rewrite pool_get_set in Q. destruct (String.eqb h' h) eqn:Eh.
    + apply String.eqb_eq in Eh; subst h'. inversion Q; subst tx'. unfold r, tx_conf. cbn [t_votes t_conf].
      split; [exact (Vt h tx Hg)|]. intros _. unfold lg1. simpl l_conf. apply in2_cons_same.
    + split; [exact (Vt h' tx' Q)|exact (Cf h' tx' Q)].
Qed.

Lemma sound_send : forall n lg s sg to amt pw rew h s',
  Inv lg s -> handle v s (OSend sg to amt pw rew h) = Ok s' -> sound_step n lg s s' (OSend sg to amt pw rew h).
Proof.
  intros n lg s sg to amt pw rew h s' I E. pose proof I as (I1 & I2 & I3 & I4).
  simpl in E. unfold bind in E. destruct (negb (coins_ok amt)); [discriminate|].
  match type of E with (match ?a with _ => _ end) = _ => destruct a as [pooled| |] eqn:EP; try discriminate end.
  unfold sound_step, op_clauses. cbv zeta.
  destruct pooled.
  - (* pooled: nothing moves *)
    inversion E; subst s'. clear E.
    rewrite (dec_nondec s _ sg) by (apply nondec_setA; [apply nondec_refl|reflexivity]).
    simpl fst. simpl snd. split; [intros x []|].
    assert (G : Inv lg (setA s sg (with_pool (getA s sg) (Some [(h, mkTx sg to amt pw rew 0 false)])))).
    { apply (Inv_pool_update lg lg s (setA s sg (with_pool (getA s sg) (Some [(h, mkTx sg to amt pw rew 0 false)]))) sg
             [(h, mkTx sg to amt pw rew 0 false)] I (log_le_refl _)
             (log_marks_same lg s (setA s sg (with_pool (getA s sg) (Some [(h, mkTx sg to amt pw rew 0 false)]))) I1 eq_refl)
             (pool_of_setA_same _ _ _) (fun u Hu => pool_of_setA_other _ _ _ _ Hu)).
      + intros h' tx' Q. simpl in Q. destruct (String.eqb h' h); inversion Q; subst tx'. simpl.
        split; [intros _; split; [lia|apply count_appr_nonneg]|discriminate].
      + intros u. rewrite getA_setA. destruct (u =? sg) eqn:Eu; auto. assert (u = sg) by lia; subst. reflexivity. }
    destruct (flag s_pwd (getA s sg)); exact G.
  - (* paid out directly: only without custodians and without password *)
    assert (G : guarded (getA s sg) && (0 <? n_cust (getA s sg)) = false /\ flag s_pwd (getA s sg) = false).
    { unfold guarded, flag. destruct (a_set (getA s sg)) as [st|]; [|auto].
      destruct (s_en st).
      - destruct (a_cust (getA s sg)) as [c|] eqn:Hc; [|discriminate]. injection EP as EP'.
        apply orb_false_elim in EP'. destruct EP' as [X Y]. apply map_len_zero in X. subst c.
        rewrite (n_cust_nil _ Hc). simpl. split; [reflexivity|exact Y].
      - injection EP as EP'. simpl. split; [reflexivity|exact EP']. }
    destruct G as [G1 G2].
    assert (Po : forall u, pool_of s' u = pool_of s u).
    { intros u. unfold pool_of. rewrite (proj1 (send_frame _ _ _ _ _ E u)). reflexivity. }
    assert (St : forall u, a_stat (getA s' u) = a_stat (getA s u)).
    { intros u. rewrite (proj2 (send_frame _ _ _ _ _ E u)). reflexivity. }
    split.
    + destruct (dec (getA s sg) (getA s' sg)); simpl fst; [|intros x []].
      rewrite G1, G2. simpl app. intros x Hin. eapply wl_lim_custody_residual; exact Hin.
    + assert (G : Inv lg s') by exact (Inv_same_pools lg lg s s' I (log_le_refl _) (log_marks_same lg s s' I1 (send_marks _ _ _ _ _ E)) Po St).
      destruct (dec (getA s sg) (getA s' sg)); simpl snd; [exact G|]. rewrite G2. exact G.
Qed.

Lemma sound_multi : forall n lg s sg to amt s',
  Inv lg s -> handle v s (OMulti sg to amt) = Ok s' -> sound_step n lg s s' (OMulti sg to amt).
Proof.
  intros n lg s sg to amt s' I E. pose proof I as (I1 & I2 & I3 & I4).
  simpl in E. destruct (negb (coins_ok amt)); [discriminate|].
  assert (Po : forall u, pool_of s' u = pool_of s u).
  { intros u. unfold pool_of. rewrite (proj1 (send_frame _ _ _ _ _ E u)). reflexivity. }
  assert (St : forall u, a_stat (getA s' u) = a_stat (getA s u)).
  { intros u. rewrite (proj2 (send_frame _ _ _ _ _ E u)). reflexivity. }
  unfold sound_step, op_clauses. cbv zeta. split.
  - destruct (dec (getA s sg) (getA s' sg)); simpl fst; [|intros x []].
    intros x Hin. eapply path_multisend_residual; exact Hin.
  - destruct (dec (getA s sg) (getA s' sg)); simpl snd;
      exact (Inv_same_pools lg lg s s' I (log_le_refl _) (log_marks_same lg s s' I1 (send_marks _ _ _ _ _ E)) Po St).
Qed.

(* the nine settings messages touch neither pools, balances, limit statuses nor the vote store *)
Ltac fr :=
  first [ apply frame_pbs_setA; first [reflexivity | match goal with w : lst |- _ => destruct w; reflexivity end]
        | eapply frame_pbs_trans; [eapply set_key_frame; eassumption
                                  | apply frame_pbs_setA; first [reflexivity | match goal with w : lst |- _ => destruct w; reflexivity end]] ].
Definition settings_op (o : op) : Prop :=
  match o with OSend _ _ _ _ _ _ | OApprove _ _ _ | ODecline _ _ _ | OConfirm _ _ _ _ _ | OBank _ _ _ _ | OMulti _ _ _ | ORotate _ _ _ => False | _ => True end.
Lemma handle_quiet : forall s o s', handle v s o = Ok s' -> settings_op o -> frame_pbs s s' /\ marks s' = marks s.
Proof.
  intros s o s' E Hq.
  destruct o; try contradiction; simpl in E; unfold bind in E;
    repeat (dmatch_in E; try discriminate); inversion E; subst;
    (split; [fr | simpl; try reflexivity; try (eapply set_key_marks; eassumption)]).
Qed.

Lemma sound_quiet : forall n lg s o s', Inv lg s -> handle v s o = Ok s' -> settings_op o -> sound_step n lg s s' o.
Proof.
  intros n lg s o s' I E Hq. pose proof I as (I1 & I2 & I3 & I4).
  destruct (handle_quiet _ _ _ E Hq) as [F M].
  assert (G : Inv lg s').
  { apply (Inv_same_pools lg lg s s' I (log_le_refl _) (log_marks_same lg s s' I1 M)).
    - intros u. specialize (F u). unfold pbs in F. injection F as F1 F2 F3. unfold pool_of. exact F1.
    - intros u. specialize (F u). unfold pbs in F. injection F as F1 F2 F3. exact F3. }
  unfold sound_step. destruct o; try contradiction; simpl; (split; [intros x []|exact G]).
Qed.

Lemma sound_bank : forall n lg s sg to amt now s',
  Inv lg s -> step v H minrew s (OBank sg to amt now) = Ok s' -> sound_step n lg s s' (OBank sg to amt now).
Proof.
  intros n lg s sg to amt now s' I E. pose proof I as (I1 & I2 & I3 & I4).
  destruct (step_inv _ _ _ _ _ _ E) as (s1 & Ea & Eh).
  simpl in Eh. destruct (negb (coins_ok amt)) eqn:Eok; [discriminate|]. apply negb_false_iff in Eok.
  (* the decorator *)
  unfold Custody.ante in Ea. cbv zeta in Ea. simpl signer in Ea.
  match type of Ea with bind ?X _ = _ => destruct X; simpl in Ea; try discriminate end.
  destruct (ante_bank v (getA s sg) to amt now) as [r| |] eqn:Eb; simpl in Ea; try discriminate.
  pose proof (ante_bank_ok _ _ _ _ _ _ Eb) as A.
  assert (Key : path_clauses (getA s sg) to amt "bank_send" = [] /\ stat_inv s1 /\ marks s1 = marks s /\ (forall u, pool_of s1 u = pool_of s u)).
  { unfold path_clauses, wl_lim_clauses, guarded, flag.
    destruct (a_set (getA s sg)) as [st|] eqn:Hs.
    2:{ subst r. inversion Ea; subst s1. repeat split; auto. }
    destruct A as (A1 & A2 & A3).
    assert (G : s_en st && (0 <? n_cust (getA s sg)) = false).
    { destruct (s_en st); [|reflexivity]. rewrite (n_cust_nil _ (A1 eq_refl)). reflexivity. }
    rewrite G. simpl app.
    assert (W : (if s_wl st then match a_wl (getA s sg) with Some w => if bool_at to w then [] else [cl "whitelist" "bank_send"] | None => [] end else []) = []).
    { destruct (s_wl st); [|reflexivity]. destruct (a_wl (getA s sg)) as [w|] eqn:Hl; [|reflexivity]. rewrite (A2 eq_refl w eq_refl). reflexivity. }
    rewrite W. simpl app.
    destruct (s_lim st).
    - destruct A3 as (Hv & st' & Hr & Hf). subst r. inversion Ea; subst s1. clear Ea.
      assert (S1 : forall d a0 tm, alist_get d (match a_stat (getA s sg) with Some x => x | None => [] end) = Some (a0, tm) -> 0 <= a0).
      { intros d a0 tm Q. destruct (a_stat (getA s sg)) as [x|] eqn:Hx; [exact (I4 sg x d a0 tm Hx Q)|discriminate]. }
      assert (S2 : forall c, In c amt -> 0 <= snd c) by (intros c Hc; exact (coins_ok_nonneg amt c Eok Hc)).
      destruct (limits_fold_ok _ _ _ _ _ Hf S1 S2) as [Hover Hst'].
      split; [|split; [|split]].
      + destruct (a_lim (getA s sg)) as [l|]; [|reflexivity]. rewrite Hover. reflexivity.
      + intros x stx d a0 tm Q1 Q2. rewrite getA_setA in Q1. destruct (x =? sg) eqn:Ex.
        * simpl in Q1. inversion Q1; subst stx. exact (Hst' d a0 tm Q2).
        * exact (I4 x stx d a0 tm Q1 Q2).
      + reflexivity.
      + intros u. unfold pool_of. rewrite getA_setA. destruct (u =? sg) eqn:Eu; auto. assert (u = sg) by lia; subst. reflexivity.
    - subst r. inversion Ea; subst s1. repeat split; auto. }
  destruct Key as (K1 & K2 & K3 & K4).
  assert (Po : forall u, pool_of s' u = pool_of s u).
  { intros u. rewrite <- K4. unfold pool_of. rewrite (proj1 (send_frame _ _ _ _ _ Eh u)). reflexivity. }
  unfold sound_step, op_clauses. cbv zeta. rewrite K1. split.
  - destruct (dec (getA s sg) (getA s' sg)); simpl fst; intros x [].
  - assert (V : Inv lg s').
    { split; [exact (log_marks_same lg s s' I1 ltac:(rewrite (send_marks _ _ _ _ _ Eh); exact K3))|].
      split; [|split].
      - intros u q h tx R Q1 Q2. rewrite Po in Q1. exact (I2 u q h tx R Q1 Q2).
      - intros u q h tx Q1 Q2 Q3. rewrite Po in Q1. exact (I3 u q h tx Q1 Q2 Q3).
      - intros x st d a0 tm Q1 Q2. rewrite (proj2 (send_frame _ _ _ _ _ Eh x)) in Q1. exact (K2 x st d a0 tm Q1 Q2). }
    destruct (dec (getA s sg) (getA s' sg)); simpl snd; exact V.
Qed.

(* ---- address rotation *)
Lemma bal_merge_fold : forall (b cs : coins) d l acc,
  bal_get d (fold_left (fun acc c => map_set (fst c) (bal_get (fst c) b + bal_get (fst c) cs) acc) l acc)
  = if existsb (fun c : Z * Z => fst c =? d) l then bal_get d b + bal_get d cs else bal_get d acc.
Proof.
  intros b cs d. induction l as [|c l IH]; intros acc; simpl; [reflexivity|].
  rewrite IH, bal_get_map_set. destruct (existsb (fun c0 : Z * Z => fst c0 =? d) l); [rewrite orb_true_r; reflexivity|].
  rewrite orb_false_r. destruct (fst c =? d) eqn:E.
  - assert (fst c = d) by lia; subst. rewrite Z.eqb_refl. reflexivity.
  - destruct (d =? fst c) eqn:E2; [lia|reflexivity].
Qed.
Lemma bal_get_absent : forall d (cs : coins), existsb (fun c : Z * Z => fst c =? d) cs = false -> bal_get d cs = 0.
Proof.
  intros d cs. unfold bal_get. induction cs as [|[k x] cs IH]; simpl; intros E; [reflexivity|].
  apply orb_false_elim in E. destruct E as [E1 E2]. destruct (d =? k) eqn:E; [lia|exact (IH E2)].
Qed.
Lemma bal_merge_get : forall cs b d, bal_get d (bal_merge b cs) = bal_get d b + bal_get d cs.
Proof.
  intros cs b d. unfold bal_merge. rewrite bal_merge_fold.
  destruct (existsb (fun c : Z * Z => fst c =? d) cs) eqn:E; [reflexivity|]. rewrite (bal_get_absent _ _ E). lia.
Qed.

Lemma moved_tx_refl : forall a nw x, moved_tx a nw x x = true.
Proof. intros. unfold moved_tx. rewrite txr_eqb_refl. reflexivity. Qed.

Definition ren_tx (a nw : Z) (e : string * txr) : string * txr :=
  (fst e, if t_from (snd e) =? a then mkTx nw (t_to (snd e)) (t_amt (snd e)) (t_pw (snd e)) (t_rew (snd e)) (t_votes (snd e)) (t_conf (snd e)) else snd e).

Lemma pool_moved_eqb : forall a nw p, map_eqb String.eqb (moved_tx a nw) (map (ren_tx a nw) p) p = true.
Proof.
  intros a nw p. unfold map_eqb. rewrite map_length, Nat.eqb_refl. simpl.
  assert (X : sub_map String.eqb (moved_tx a nw) (map (ren_tx a nw) p) p = true).
  { unfold sub_map. apply forallb_forall. intros e He. apply in_map_iff in He. destruct He as (e0 & <- & He0).
    apply existsb_exists. exists e0. split; [exact He0|]. unfold ren_tx. simpl fst. rewrite String.eqb_refl. simpl snd. simpl andb.
    unfold moved_tx. destruct (t_from (snd e0) =? a) eqn:Ef.
    - unfold tx_from. rewrite txr_eqb_refl. simpl andb. rewrite orb_true_r. reflexivity.
    - rewrite txr_eqb_refl. reflexivity. }
  assert (Y : sub_map String.eqb (moved_tx a nw) p (map (ren_tx a nw) p) = true).
  { unfold sub_map. apply forallb_forall. intros e0 He0. apply existsb_exists. exists (ren_tx a nw e0).
    split; [apply in_map; exact He0|]. unfold ren_tx. simpl fst. rewrite String.eqb_refl. simpl snd. simpl andb.
    unfold moved_tx. destruct (t_from (snd e0) =? a) eqn:Ef.
    - unfold tx_from. rewrite txr_eqb_refl. simpl. rewrite !orb_true_r. reflexivity.
    - rewrite txr_eqb_refl. reflexivity. }
  rewrite X, Y. reflexivity.
Qed.

Lemma pool_get_ren : forall a nw h p, pool_get h (map (ren_tx a nw) p) = option_map (fun r => snd (ren_tx a nw (h, r))) (pool_get h p).
Proof.
  induction p as [|[k x] p IH]; simpl; [reflexivity|]. destruct (String.eqb h k); [reflexivity|exact IH].
Qed.

Lemma in3_ren_other : forall a nw f t h l, t <> nw -> in3 f t h (ren3 a nw l) = in3 f t h l.
Proof.
  intros a nw f t h l Hn. unfold ren3, in3. rewrite existsb_app.
  assert (X : existsb (fun e : Z * Z * string => let '(f', t', h') := e in (f =? f') && (t =? t') && String.eqb h h')
                (map (fun e : Z * Z * string => let '(f0, _, h0) := e in (f0, nw, h0)) (filter (fun e : Z * Z * string => let '(_, t0, _) := e in t0 =? a) l)) = false).
  { apply Bool.not_true_is_false. intros E. apply existsb_exists in E. destruct E as (e & He & E).
    apply in_map_iff in He. destruct He as ([[f0 t0] h0] & <- & _). lia. }
  rewrite X. reflexivity.
Qed.
Lemma count_ren_other : forall a nw t h l, t <> nw -> count_appr t h (ren3 a nw l) = count_appr t h l.
Proof.
  intros a nw t h l Hn. unfold count_appr, ren3. rewrite filter_app, app_length.
  assert (X : filter (fun e : Z * Z * string => let '(_, t', h') := e in (t =? t') && String.eqb h h')
                (map (fun e : Z * Z * string => let '(f0, _, h0) := e in (f0, nw, h0)) (filter (fun e : Z * Z * string => let '(_, t0, _) := e in t0 =? a) l)) = []).
  { induction (filter (fun e : Z * Z * string => let '(_, t0, _) := e in t0 =? a) l) as [|[[f0 t0] h0] r IH]; simpl; [reflexivity|].
    destruct (t =? nw) eqn:E; [lia|]. simpl. exact IH. }
  rewrite X. simpl. reflexivity.
Qed.
Lemma in2_ren_keep : forall a nw t h l, in2 t h l = true -> in2 t h (ren2 a nw l) = true.
Proof. intros. unfold ren2, in2 in *. rewrite existsb_app. rewrite H0. apply orb_true_r. Qed.
Lemma in2_ren_moved : forall a nw h l, in2 a h l = true -> in2 nw h (ren2 a nw l) = true.
Proof.
  intros a nw h l E. unfold ren2, in2 in *. rewrite existsb_app. apply existsb_exists in E. destruct E as ([t0 h0] & He & E).
  simpl in E. apply andb_prop in E. destruct E as [E1 E2].
  assert (X : existsb (fun e : Z * string => (nw =? fst e) && String.eqb h (snd e)) (map (fun e : Z * string => (nw, snd e)) (filter (fun e : Z * string => fst e =? a) l)) = true).
  { apply existsb_exists. exists (nw, h0). split; [|simpl; rewrite Z.eqb_refl, E2; reflexivity].
    apply in_map_iff. exists (t0, h0). split; [reflexivity|]. apply filter_In. split; [exact He|simpl; lia]. }
  rewrite X. reflexivity.
Qed.
Lemma mark_get_ren_other : forall a nw f t h l, t <> a -> t <> nw -> mark_get f t h (ren_marks a nw l) = mark_get f t h l.
Proof.
  intros a nw f t h l Ha Hn. unfold mark_get, ren_marks. induction l as [|[[[f0 t0] h0] x0] l IH]; simpl; [reflexivity|].
  destruct (t0 =? a) eqn:E0.
  - assert (t0 = a) by lia; subst. assert (X : (t =? nw) = false) by lia. assert (Y : (t =? a) = false) by lia. rewrite X, Y, !andb_false_r. simpl. exact IH.
  - destruct ((f =? f0) && (t =? t0) && String.eqb h h0); [reflexivity|exact IH].
Qed.

Lemma sound_rotate : forall n lg s a nw ok s',
  Inv lg s -> handle v s (ORotate a nw ok) = Ok s' -> sound_step n lg s s' (ORotate a nw ok).
Proof.
  intros n lg s a nw ok s' I E. pose proof I as (I1 & I2 & I3 & I4).
  simpl in E. destruct ok; simpl negb in E; simpl orb in E; [|discriminate].
  destruct (a =? nw) eqn:Ean; [discriminate|]. assert (Hne : a <> nw) by lia.
  inversion E; subst s'. clear E.
  set (A := getA s a) in *. set (B := getA s nw) in *.
  set (pl := if v_rot v then option_map (map (ren_tx a nw)) (a_pool A) else a_pool A).
  set (mvo := fun (X : Type) (x y : option X) => match x with Some _ => x | None => y end).
  set (B' := mkAcct (mvo _ (a_set A) (a_set B)) (mvo _ (a_cust A) (a_cust B)) (mvo _ (a_wl A) (a_wl B)) (mvo _ (a_lim A) (a_lim B))
                    (mvo _ pl (a_pool B)) (bal_merge (a_bal B) (a_bal A)) (mvo _ (a_stat A) (a_stat B))).
  set (A' := mkAcct None None None None None [] None).
  set (s' := mkSt (accts (setA (setA s a A') nw B')) (if v_rot v then ren_marks a nw (marks s) else marks s)).
  assert (Gn : getA s' nw = B') by (unfold s', getA; simpl; rewrite Z.eqb_refl; reflexivity).
  assert (Ga : getA s' a = A') by (unfold s', getA; simpl; rewrite Ean, Z.eqb_refl; reflexivity).
  assert (Go : forall u, u <> a -> u <> nw -> getA s' u = getA s u).
  { intros u H1 H2. unfold s', getA. simpl. destruct (u =? nw) eqn:E1; [lia|]. destruct (u =? a) eqn:E2; [lia|]. reflexivity. }
  change (sound_step n lg s s' (ORotate a nw true)).
  unfold sound_step, op_clauses. cbv zeta. cbv beta. fold A B. rewrite Gn, Ga. simpl fst. simpl snd.
  split.
  - (* the rotation clauses: the records and the funds arrived *)
    intros x Hin. exfalso. simpl app in Hin.
    assert (C1 : opt_eqb settings_eqb (a_set B') (mvo _ (a_set A) (a_set B)) = true) by (apply opt_eqb_refl; apply settings_eqb_refl).
    assert (C2 : opt_eqb (map_eqb Z.eqb Bool.eqb) (a_cust B') (mvo _ (a_cust A) (a_cust B)) = true) by (apply opt_eqb_refl; apply map_eqb_refl; [apply Z.eqb_refl|apply Bool.eqb_reflx]).
    assert (C3 : opt_eqb (map_eqb Z.eqb Bool.eqb) (a_wl B') (mvo _ (a_wl A) (a_wl B)) = true) by (apply opt_eqb_refl; apply map_eqb_refl; [apply Z.eqb_refl|apply Bool.eqb_reflx]).
    assert (C4 : opt_eqb (map_eqb Z.eqb lim_eqb) (a_lim B') (mvo _ (a_lim A) (a_lim B)) = true) by (apply opt_eqb_refl; apply map_eqb_refl; [apply Z.eqb_refl|apply lim_eqb_refl]).
    assert (C6 : opt_eqb (map_eqb Z.eqb stat_eqb) (a_stat B') (mvo _ (a_stat A) (a_stat B)) = true) by (apply opt_eqb_refl; apply map_eqb_refl; [apply Z.eqb_refl|apply stat_eqb_refl]).
    assert (C5 : opt_eqb (map_eqb String.eqb (moved_tx a nw)) (a_pool B') (mvo _ (a_pool A) (a_pool B)) = true).
    { unfold B'. cbn [a_pool]. unfold pl, mvo. destruct (a_pool A) as [p|].
      - destruct (v_rot v); simpl; [apply pool_moved_eqb|apply map_eqb_refl; [apply String.eqb_refl|apply moved_tx_refl]].
      - destruct (v_rot v); simpl; apply opt_eqb_refl; apply map_eqb_refl; try apply String.eqb_refl; apply moved_tx_refl. }
    assert (C7 : forallb (fun d => (bal_get d (a_bal B') =? bal_get d (a_bal B) + bal_get d (a_bal A)) && (bal_get d (a_bal A') =? 0)) denoms = true).
    { apply forallb_forall. intros d _. unfold B', A'. cbn [a_bal]. rewrite bal_merge_get, Z.eqb_refl. reflexivity. }
    unfold B' in C1, C2, C3, C4, C5, C6. cbn [a_set a_cust a_wl a_lim a_pool a_stat] in C1, C2, C3, C4, C5, C6.
    unfold B', A' in C7. cbn [a_bal] in C7.
    unfold mvo in C1, C2, C3, C4, C5, C6, Hin. cbv beta in C1, C2, C3, C4, C5, C6, Hin. rewrite C1, C2, C3, C4, C5, C6 in Hin. rewrite !bal_merge_get, !Z.eqb_refl in Hin. simpl in Hin. destruct Hin.
  - (* the invariant: the two accounts of the rotation are outside the vote guarantees from now on *)
    set (lg' := mkLog (ren3 a nw (l_appr lg)) (ren3 a nw (l_decl lg)) (ren2 a nw (l_conf lg)) (a :: nw :: l_rot lg) (ren2 a nw (l_req lg)) ((nw, a) :: l_alias lg) (l_same lg)).
    assert (Mo : forall f t h, t <> a -> t <> nw -> mark_get f t h (marks s') = mark_get f t h (marks s)).
    { intros f t h H1 H2. unfold s'. simpl marks. destruct (v_rot v); [apply mark_get_ren_other; assumption|reflexivity]. }
    split; [|split; [|split]].
    + intros f t h R X. destruct (rotated_cons2 _ _ _ _ _ _ _ _ _ R) as (H1 & H2 & R0).
      unfold lg' in X. simpl l_appr in X. simpl l_decl in X. rewrite !in3_ren_other in X by assumption.
      rewrite Mo by assumption. exact (I1 f t h R0 X).
    + intros t p h tx R Q1 Q2. destruct (rotated_cons2 _ _ _ _ _ _ _ _ _ R) as (H1 & H2 & R0).
      unfold pool_of in Q1. rewrite Go in Q1 by assumption. unfold lg'. simpl l_appr. rewrite count_ren_other by assumption.
      exact (I2 t p h tx R0 Q1 Q2).
    + intros t p h tx Q1 Q2 Q3. unfold lg'. simpl l_conf. unfold pool_of in Q1.
      destruct (Z.eq_dec t nw) as [->|Hn].
      * rewrite Gn in Q1. unfold B' in Q1. cbn [a_pool] in Q1. unfold mvo, pl in Q1.
        destruct (a_pool A) as [pa|] eqn:Hpa.
        -- destruct (v_rot v).
           ++ simpl in Q1. inversion Q1; subst p. rewrite pool_get_ren in Q2. destruct (pool_get h pa) as [r|] eqn:Hr; [|discriminate].
              simpl in Q2. inversion Q2; subst tx. apply in2_ren_moved. apply (I3 a pa h r Hpa Hr).
              destruct (t_from r =? a); exact Q3.
           ++ inversion Q1; subst p. apply in2_ren_moved. exact (I3 a pa h tx Hpa Q2 Q3).
        -- assert (Q1' : a_pool B = Some p) by (destruct (v_rot v); exact Q1).
           apply in2_ren_keep. exact (I3 nw p h tx Q1' Q2 Q3).
      * destruct (Z.eq_dec t a) as [->|Ha]; [rewrite Ga in Q1; discriminate|].
        rewrite Go in Q1 by assumption. apply in2_ren_keep. exact (I3 t p h tx Q1 Q2 Q3).
    + intros x st d a0 tm Q1 Q2.
      destruct (Z.eq_dec x nw) as [->|Hn].
      * rewrite Gn in Q1. unfold B' in Q1. cbn [a_stat] in Q1. unfold mvo in Q1.
        destruct (a_stat A) as [sa|] eqn:Hsa; [inversion Q1; subst st; exact (I4 a sa d a0 tm Hsa Q2)|exact (I4 nw st d a0 tm Q1 Q2)].
      * destruct (Z.eq_dec x a) as [->|Ha]; [rewrite Ga in Q1; discriminate|].
        rewrite Go in Q1 by assumption. exact (I4 x st d a0 tm Q1 Q2).
Qed.

Lemma sound_op : forall n lg s o s',
  Inv lg s -> step v H minrew s o = Ok s' -> sound_step n lg s s' o.
Proof.
  intros n lg s o s' I E.
  destruct o; try (apply sound_bank; assumption);
    destruct (step_inv _ _ _ _ _ _ E) as (s1 & Ea & Eh);
    (assert (Es : s1 = s) by (eapply ante_nonbank; [exact Ea | exact Logic.I])); subst s1;
    first [ apply sound_approve; assumption | apply sound_decline; assumption | apply sound_confirm; assumption
          | apply sound_send; assumption | apply sound_multi; assumption | apply sound_rotate; assumption
          | apply sound_quiet; [assumption|assumption|exact Logic.I] ].
Qed.

Lemma key_clauses_residual : forall n a0 s s' o c, In c (key_clauses n a0 s s' o) -> residual c = true.
Proof.
  intros n a0 s s' o c Hin. unfold key_clauses in Hin. cbv zeta in Hin.
  apply in_flat_map in Hin. destruct Hin as (i & _ & Hin).
  repeat match goal with
  | X : In _ (if ?b then _ else _) |- _ => destruct b
  | X : In _ (match ?x with _ => _ end) |- _ => destruct x
  | X : In _ [] |- _ => destruct X
  | X : In _ (_ :: _) |- _ => destruct X as [X|X]; [subst; apply residual_key|]
  end.
Qed.

Lemma trace_sound : forall ops n lg id id0 a0 s, id0 < id -> Inv lg s ->
  forall c, In c (trace_clauses n lg id0 a0 s (model_trace v H minrew id s ops)) -> residual c = true.
Proof.
  induction ops as [|o ops IH]; intros n lg id id0 a0 s Hid I c Hin; simpl in Hin; [contradiction|].
  assert (X : (id =? id0) = false) by lia. rewrite X in Hin.
  destruct (step v H minrew s o) as [s1|e|e] eqn:Es; unfold Custody.exec in Hin; rewrite Es in Hin; simpl outcome_code in Hin.
  - simpl Z.eqb in Hin. cbv iota in Hin.
    destruct (sound_op n lg s o s1 I Es) as [S1 S2].
    apply in_app_or in Hin. destruct Hin as [Hin|Hin].
    + unfold step_clauses in Hin. simpl fst in Hin.
      apply in_app_or in Hin. destruct Hin as [Hin|Hin]; [eapply key_clauses_residual; exact Hin|].
      apply in_app_or in Hin. destruct Hin as [Hin|Hin]; [rewrite (out_sound _ _ _ _ _ _ _ Es) in Hin; contradiction|].
      exact (S1 c Hin).
    + unfold step_clauses in Hin. simpl snd in Hin. apply (IH n _ (id + 1) id s s1 ltac:(lia) S2 c Hin).
  - simpl Z.eqb in Hin. cbv iota in Hin. rewrite state_eqb_refl in Hin. simpl in Hin. apply (IH n lg (id + 1) id s s ltac:(lia) I c Hin).
  - simpl Z.eqb in Hin. cbv iota in Hin. rewrite state_eqb_refl in Hin. simpl in Hin. apply (IH n lg (id + 1) id s s ltac:(lia) I c Hin).
Qed.

Lemma init_fields : forall bals t, a_pool (getA (init_state bals) t) = None /\ a_stat (getA (init_state bals) t) = None.
Proof.
  intros bals t. unfold getA, init_state. simpl.
  generalize (seq 0 (List.length bals)). induction bals as [|b bals IH]; intros [|k ks]; simpl; auto.
  destruct (t =? Z.of_nat k); auto.
Qed.

Lemma Inv_init : forall bals, Inv no_log (init_state bals).
Proof.
  intros bals. split; [|split; [|split]].
  - intros f t h _ X. simpl in X. discriminate.
  - intros t p h tx _ Q. unfold pool_of in Q. rewrite (proj1 (init_fields bals t)) in Q. discriminate.
  - intros t p h tx Q. unfold pool_of in Q. rewrite (proj1 (init_fields bals t)) in Q. discriminate.
  - intros x st d a tm Q. rewrite (proj2 (init_fields bals x)) in Q. discriminate.
Qed.

(* THE soundness of the checker on the repaired variant: over every history from the initial state -- settings
   edits, address rotations, sends of every kind included -- the checker reports nothing but the design-level
   clauses and those of rotated accounts *)
Theorem chk_sound_repaired : forall bals ops c, In c (model_clauses v H minrew bals ops) -> residual c = true.
Proof. intros bals ops c Hin. unfold model_clauses in Hin. exact (trace_sound ops _ _ 0 (-1) _ _ ltac:(lia) (Inv_init bals) c Hin). Qed.
End Sound.

(* ================================================================ 10. one-step facts that hold on every variant *)
Section AnyVariant.
Variable v : variant.
Variable H : string -> string.
Variable minrew : Z.

(* a pay-out at an approval: the counter including this vote reaches the configured share of the
   custodian map, and the Confirmed flag is set when a password is in use *)
Lemma approve_release_needs_counter : forall s f t h s' st c p tx,
  step v H minrew s (OApprove f t h) = Ok s' ->
  mark_get f t (mark_key v h) (marks s) = None ->
  a_set (getA s t) = Some st -> s_en st = true -> a_cust (getA s t) = Some c ->
  a_pool (getA s t) = Some p -> pool_get (to_lower h) p = Some tx ->
  (match a_pool (getA s' t) with Some p' => pool_get (to_lower h) p' | None => None end) = None ->
  s_mode st <= Z.quot ((t_votes tx + 1) * 100) (map_len c) /\ (s_pwd st = true -> t_conf tx = true).
Proof.
  intros s f t h s' st c p tx E Hm Hs He Hc Hp Hg Hafter.
  destruct (step_inv _ _ _ _ _ _ E) as (s1 & Ea & Eh). apply ante_nonbank in Ea; [|exact Logic.I]. subst s1.
  simpl in Eh. unfold bind, rec_missing in Eh.
  destruct (negb (voter_ok v (getA s t) f)); [discriminate|].
  rewrite Hm, Hp, Hg, Hc, Hs, He in Eh.
  destruct (t_rew tx) as [|[rd r0] rr]; [discriminate|].
  destruct (map_len c =? 0) eqn:En; [discriminate|].
  destruct (Z.quot r0 (map_len c) <? 0); [discriminate|].
  assert (Hn : 0 <? map_len c = true) by (clear - En; unfold map_len in *; lia).
  rewrite Hn in Eh. simpl andb in Eh.
  destruct (send s t f (one_coin rd (Z.quot r0 (map_len c)))) as [s1| |] eqn:E1; try discriminate.
  assert (Stay : forall s2, pool_of (store_pool s2 t (pool_set (to_lower h) (tx_votes tx (t_votes tx + 1)) p)) t = a_pool (getA s' t) -> False).
  { intros s2 X. rewrite <- X, pool_of_store_same, pool_get_set, String.eqb_refl in Hafter. discriminate. }
  destruct (s_mode st <=? Z.quot ((t_votes tx + 1) * 100) (map_len c)) eqn:Em; simpl andb in Eh.
  - destruct (s_pwd st) eqn:Ew; cbv iota in Eh.
    + destruct (t_conf tx) eqn:Ec; cbv iota in Eh.
      * split; [apply Z.leb_le; exact Em|auto].
      * exfalso. injection Eh as Eh. apply (Stay (add_mark s1 f t (mark_key v h) 1)). rewrite <- Eh. reflexivity.
    + split; [apply Z.leb_le; exact Em|discriminate].
  - exfalso. cbv iota in Eh. injection Eh as Eh. apply (Stay (add_mark s1 f t (mark_key v h) 1)). rewrite <- Eh. reflexivity.
Qed.

(* a custody send pays out directly only without custodians and without password *)
Lemma send_direct_only_unguarded : forall s sg to amt pw rew h s' st,
  step v H minrew s (OSend sg to amt pw rew h) = Ok s' -> a_set (getA s sg) = Some st ->
  a_pool (getA s' sg) = a_pool (getA s sg) -> a_pool (getA s sg) = None ->
  s_pwd st = false /\ (s_en st = true -> a_cust (getA s sg) = Some []).
Proof.
  intros s sg to amt pw rew h s' st E Hs Hp Hn.
  destruct (step_inv _ _ _ _ _ _ E) as (s1 & Ea & Eh). apply ante_nonbank in Ea; [|exact Logic.I]. subst s1.
  simpl in Eh. destruct (negb (coins_ok amt)); [discriminate|]. rewrite Hs in Eh. unfold bind in Eh.
  destruct (s_en st) eqn:He.
  - destruct (a_cust (getA s sg)) as [c|] eqn:Hc; [|discriminate].
    destruct ((0 <? map_len c) || s_pwd st) eqn:Hb.
    + inversion Eh; subst. rewrite getA_setA_same in Hp. simpl in Hp. congruence.
    + apply orb_false_elim in Hb. destruct Hb as [Hb1 Hb2]. apply map_len_zero in Hb1; subst. auto.
  - destruct (s_pwd st) eqn:Hw.
    + inversion Eh; subst. rewrite getA_setA_same in Hp. simpl in Hp. congruence.
    + split; auto; discriminate.
Qed.

(* the checker's bank-send clauses never fire on a model step (needs the limit statuses non-negative,
   which holds in every reachable state: part of the invariant above) *)
Lemma chk_bank_sound : forall s sg to amt now s',
  stat_inv s -> step v H minrew s (OBank sg to amt now) = Ok s' -> path_clauses (getA s sg) to amt "bank_send" = [].
Proof.
  intros s sg to amt now s' I4 E.
  destruct (step_inv _ _ _ _ _ _ E) as (s1 & Ea & Eh).
  simpl in Eh. destruct (negb (coins_ok amt)) eqn:Eok; [discriminate|]. apply negb_false_iff in Eok.
  pose proof (bank_send_accepted _ _ _ _ _ _ _ _ _ E) as A.
  unfold path_clauses, wl_lim_clauses, guarded, flag.
  destruct (a_set (getA s sg)) as [st|] eqn:Hs; [|reflexivity].
  destruct A as (A1 & A2 & A3).
  assert (G : s_en st && (0 <? n_cust (getA s sg)) = false).
  { destruct (s_en st); [|reflexivity]. rewrite (n_cust_nil _ (A1 eq_refl)). reflexivity. }
  rewrite G. simpl app.
  assert (W : (if s_wl st then match a_wl (getA s sg) with Some w => if bool_at to w then [] else [cl "whitelist" "bank_send"] | None => [] end else []) = []).
  { destruct (s_wl st); [|reflexivity]. destruct (a_wl (getA s sg)) as [w|] eqn:Hl; [|reflexivity]. rewrite (A2 eq_refl w eq_refl). reflexivity. }
  rewrite W. simpl app.
  destruct (s_lim st); [|reflexivity].
  destruct (A3 eq_refl) as (Hv & st' & Hf).
  destruct (a_lim (getA s sg)) as [l|]; [|reflexivity].
  assert (S1 : forall d a0 tm, alist_get d (match a_stat (getA s sg) with Some x => x | None => [] end) = Some (a0, tm) -> 0 <= a0).
  { intros d a0 tm Q. destruct (a_stat (getA s sg)) as [x|] eqn:Hx; [exact (I4 sg x d a0 tm Hx Q)|discriminate]. }
  assert (S2 : forall c, In c amt -> 0 <= snd c) by (intros c Hc; exact (coins_ok_nonneg amt c Eok Hc)).
  destruct (limits_fold_ok _ _ _ _ _ Hf S1 S2) as [Hover _]. rewrite Hover. reflexivity.
Qed.
End AnyVariant.
