(* C17 -- lemmas about the custody model (Model/Custody.v) and the spec checker (Model/C17Check.v). *)
From Sekai Require Import Base.Prelude Model.Custody Model.C17Check.
From Coq Require Import ZifyBool.

Ltac dmatch_in H :=
  match type of H with
  | context [match ?x with _ => _ end] => destruct x eqn:?
  end.
Ltac dmatch_goal :=
  match goal with
  | |- context [match ?x with _ => _ end] => destruct x eqn:?
  end.

(* ---------------------------------------------------------------- basic facts *)
Lemma marks_setA : forall s i a, marks (setA s i a) = marks s.
Proof. reflexivity. Qed.

Lemma send_marks : forall s a b x s', send s a b x = Ok s' -> marks s' = marks s.
Proof. unfold send; intros s a b x s' E. destruct (a_bal (getA s a) <? x); inversion E; reflexivity. Qed.

Lemma set_key_marks : forall s x k s', set_key s x k = Ok s' -> marks s' = marks s.
Proof. unfold set_key; intros s x k s' E. destruct (a_set (getA s x)); inversion E; reflexivity. Qed.

Lemma store_pool_marks : forall s t p, marks (store_pool s t p) = marks s.
Proof. reflexivity. Qed.

Lemma map_len_pos : forall V (c : list (Z * V)), c <> [] -> 0 <? map_len c = true.
Proof. intros V [|x c] Hc; [congruence|]. unfold map_len; simpl List.length. lia. Qed.

Lemma map_len_zero : forall V (c : list (Z * V)), (0 <? map_len c) = false -> c = [].
Proof. intros V [|x c] Hc; [reflexivity|]. unfold map_len in Hc; simpl List.length in Hc. lia. Qed.

Section Facts.
Variable H : string -> string.
Variable minrew : Z.
Notation step := (step H minrew).
Notation exec := (exec H minrew).
Notation run := (run H minrew).
Notation ante := (ante H minrew).

Lemma exec_ok : forall s o s', step s o = Ok s' -> exec s o = s'.
Proof. unfold Custody.exec; intros s o s' E; rewrite E; reflexivity. Qed.
Lemma exec_not_ok : forall s o, is_ok (step s o) = false -> exec s o = s.
Proof. unfold Custody.exec; intros s o E; destruct (step s o); simpl in E; congruence. Qed.

(* ================================================================ 1. plain bank send is blocked while custodians exist *)
Lemma bank_send_blocked : forall s sg to amt st c,
  a_set (getA s sg) = Some st -> s_en st = true -> a_cust (getA s sg) = Some c -> c <> [] ->
  exists e, step s (OBank sg to amt) = Err e.
Proof.
  intros s sg to amt st c Hs He Hc Hne.
  unfold Custody.step, Custody.ante, ante_bank; simpl signer; cbv zeta. rewrite Hs, He. simpl.
  rewrite Hc. rewrite (map_len_pos _ c Hne). simpl. eauto.
Qed.

(* without a custodian record the decorator dereferences nil: the transaction fails as well *)
Lemma bank_send_fails_without_record : forall s sg to amt st,
  a_set (getA s sg) = Some st -> s_en st = true -> a_cust (getA s sg) = None ->
  is_ok (step s (OBank sg to amt)) = false.
Proof.
  intros s sg to amt st Hs He Hc.
  unfold Custody.step, Custody.ante, ante_bank; simpl signer; cbv zeta. rewrite Hs, He. simpl. rewrite Hc. reflexivity.
Qed.

Lemma bank_send_blocked_history : forall s0 ops sg to amt st c,
  let s := run s0 ops in
  a_set (getA s sg) = Some st -> s_en st = true -> a_cust (getA s sg) = Some c -> c <> [] ->
  exec s (OBank sg to amt) = s.
Proof.
  intros s0 ops sg to amt st c s Hs He Hc Hne.
  destruct (bank_send_blocked s sg to amt st c Hs He Hc Hne) as [e E].
  apply exec_not_ok. rewrite E. reflexivity.
Qed.

(* ================================================================ 2. the whitelist restricts every plain bank send *)
Lemma whitelist_restricts_bank_send : forall s sg to amt st w,
  a_set (getA s sg) = Some st -> s_wl st = true -> a_wl (getA s sg) = Some w -> bool_at to w = false ->
  is_ok (step s (OBank sg to amt)) = false.
Proof.
  intros s sg to amt st w Hs Hw Hl Hb.
  unfold Custody.step, Custody.ante, ante_bank; simpl signer; cbv zeta. rewrite Hs.
  destruct (s_en st) eqn:He; simpl.
  - destruct (a_cust (getA s sg)) as [c|]; [|reflexivity].
    destruct (0 <? map_len c); simpl; [reflexivity|]. rewrite Hw, Hl, Hb. reflexivity.
  - rewrite Hw, Hl, Hb. reflexivity.
Qed.

Lemma whitelist_restricts_history : forall s0 ops sg to amt st w,
  let s := run s0 ops in
  a_set (getA s sg) = Some st -> s_wl st = true -> a_wl (getA s sg) = Some w -> bool_at to w = false ->
  exec s (OBank sg to amt) = s.
Proof. intros; apply exec_not_ok; eapply whitelist_restricts_bank_send; eauto. Qed.

(* an accepted plain bank send: what the decorator established *)
Lemma bank_send_accepted : forall s sg to amt s',
  step s (OBank sg to amt) = Ok s' ->
  match a_set (getA s sg) with
  | None => True
  | Some st => (s_en st = true -> a_cust (getA s sg) = Some [])
               /\ (s_wl st = true -> forall w, a_wl (getA s sg) = Some w -> bool_at to w = true)
               /\ s_lim st = false
  end.
Proof.
  intros s sg to amt s' E. unfold Custody.step, Custody.ante, ante_bank in E; simpl signer in E; cbv zeta in E.
  destruct (a_set (getA s sg)) as [st|] eqn:Hs; [|exact I].
  destruct (s_en st) eqn:He; simpl in E.
  - destruct (a_cust (getA s sg)) as [c|] eqn:Hc; simpl in E; [|discriminate].
    destruct (0 <? map_len c) eqn:Hn; simpl in E; [discriminate|].
    apply map_len_zero in Hn; subst c.
    destruct (s_wl st) eqn:Hw; simpl in E.
    + destruct (a_wl (getA s sg)) as [w|] eqn:Hl; simpl in E.
      * destruct (bool_at to w) eqn:Hb; simpl in E; [|discriminate].
        destruct (s_lim st); simpl in E; [discriminate|]. repeat split; auto. intros _ w' Hw'; inversion Hw'; subst; auto.
      * destruct (s_lim st); simpl in E; [discriminate|]. repeat split; auto. intros _ w' Hw'; discriminate.
    + destruct (s_lim st); simpl in E; [discriminate|]. repeat split; auto; intros; discriminate.
  - destruct (s_wl st) eqn:Hw; simpl in E.
    + destruct (a_wl (getA s sg)) as [w|] eqn:Hl; simpl in E.
      * destruct (bool_at to w) eqn:Hb; simpl in E; [|discriminate].
        destruct (s_lim st); simpl in E; [discriminate|]. repeat split; auto; try discriminate. intros _ w' Hw'; inversion Hw'; subst; auto.
      * destruct (s_lim st); simpl in E; [discriminate|]. repeat split; auto; try discriminate.
    + destruct (s_lim st); simpl in E; [discriminate|]. repeat split; auto; intros; discriminate.
Qed.

(* ================================================================ 3. a vote counts once per (address, target, hash as written) *)
Lemma mark_get_cons_other : forall f t h e l,
  mark_eqb f t h e = false -> mark_get f t h (e :: l) = mark_get f t h l.
Proof. intros f t h e l E. unfold mark_get; simpl. rewrite E. reflexivity. Qed.

Lemma mark_get_cons_same : forall f t h v l, mark_get f t h ((f, t, h, v) :: l) = Some v.
Proof. intros. unfold mark_get; simpl. rewrite !Z.eqb_refl, String.eqb_refl. reflexivity. Qed.

Lemma mark_eqb_true : forall f t h f' t' h' v, mark_eqb f t h (f', t', h', v) = true -> f = f' /\ t = t' /\ h = h'.
Proof.
  unfold mark_eqb; intros f t h f' t' h' v E.
  apply andb_prop in E; destruct E as [E E3]. apply andb_prop in E; destruct E as [E1 E2].
  apply String.eqb_eq in E3. split; [lia|split; [lia|assumption]].
Qed.

(* every step leaves the vote store alone or adds one mark at a key that had none *)
Lemma marks_step : forall s o s', step s o = Ok s' ->
  marks s' = marks s \/ exists f t h v, mark_get f t h (marks s) = None /\ marks s' = (f, t, h, v) :: marks s.
Proof.
  intros s o s' E. unfold Custody.step in E. destruct (ante s o); simpl in E; try discriminate.
  destruct o; simpl in E; unfold bind, rec_missing in E.
  - inversion E; auto.
  - repeat (dmatch_in E; try discriminate). inversion E; auto.
  - repeat (dmatch_in E; try discriminate). inversion E; auto.
  - repeat (dmatch_in E; try discriminate); inversion E; subst; left; simpl;
      match goal with X : set_key _ _ _ = Ok _ |- _ => apply set_key_marks in X; auto end.
  - repeat (dmatch_in E; try discriminate); inversion E; subst; left; simpl;
      match goal with X : set_key _ _ _ = Ok _ |- _ => apply set_key_marks in X; auto end.
  - repeat (dmatch_in E; try discriminate); inversion E; subst; left; simpl;
      match goal with X : set_key _ _ _ = Ok _ |- _ => apply set_key_marks in X; auto end.
  - repeat (dmatch_in E; try discriminate); inversion E; subst; left; simpl;
      match goal with X : set_key _ _ _ = Ok _ |- _ => apply set_key_marks in X; auto end.
  - repeat (dmatch_in E; try discriminate); inversion E; subst; left; simpl;
      match goal with X : set_key _ _ _ = Ok _ |- _ => apply set_key_marks in X; auto end.
  - repeat (dmatch_in E; try discriminate); inversion E; subst; left; simpl;
      match goal with X : set_key _ _ _ = Ok _ |- _ => apply set_key_marks in X; auto end.
  - repeat (dmatch_in E; try discriminate); try (inversion E; subst; left; reflexivity);
      left; eapply send_marks; eauto.
  - (* approve *)
    destruct (mark_get f t h (marks s)) eqn:Hm; [inversion E; auto|].
    repeat (dmatch_in E; try discriminate); inversion E; subst; right; exists f, t, h, 1; split; auto; simpl;
      repeat match goal with X : send _ _ _ _ = Ok _ |- _ => apply send_marks in X; simpl in X end; congruence.
  - (* decline *)
    destruct (mark_get f t h (marks s)) eqn:Hm; [inversion E; auto|].
    repeat (dmatch_in E; try discriminate); try (inversion E; subst; left; reflexivity).
    right; exists f, t, h, (-1); split; auto. apply send_marks in E. simpl in E. exact E.
  - (* confirm *)
    repeat (dmatch_in E; try discriminate); inversion E; subst; left; simpl;
      repeat match goal with X : send _ _ _ _ = Ok _ |- _ => apply send_marks in X; simpl in X end; congruence.
  - repeat (dmatch_in E; try discriminate). left; eapply send_marks; eauto.
  - repeat (dmatch_in E; try discriminate). left; eapply send_marks; eauto.
Qed.

Lemma marks_mono_exec : forall s o f t h v,
  mark_get f t h (marks s) = Some v -> mark_get f t h (marks (exec s o)) = Some v.
Proof.
  intros s o f t h v Hm. unfold Custody.exec. destruct (step s o) as [s'| |] eqn:E; auto.
  destruct (marks_step s o s' E) as [Eq|(f' & t' & h' & v' & Hn & Eq)]; rewrite Eq; auto.
  destruct (mark_eqb f t h (f', t', h', v')) eqn:Em.
  - apply mark_eqb_true in Em. destruct Em as (-> & -> & ->). congruence.
  - rewrite mark_get_cons_other; auto.
Qed.

Lemma marks_mono_run : forall ops s f t h v,
  mark_get f t h (marks s) = Some v -> mark_get f t h (marks (run s ops)) = Some v.
Proof.
  induction ops as [|o ops IH]; intros s f t h v Hm; simpl; auto.
  apply IH. apply marks_mono_exec; assumption.
Qed.

(* an approval that changed anything left its mark ... *)
Lemma approve_marks : forall s f t h s',
  step s (OApprove f t h) = Ok s' -> s' <> s -> mark_get f t h (marks s') = Some 1.
Proof.
  intros s f t h s' E Hne. unfold Custody.step in E. destruct (ante s (OApprove f t h)); simpl in E; try discriminate.
  unfold bind, rec_missing in E.
  destruct (mark_get f t h (marks s)) eqn:Hm; [inversion E; congruence|].
  repeat (dmatch_in E; try discriminate); inversion E; subst; simpl;
    repeat match goal with X : send _ _ _ _ = Ok _ |- _ => apply send_marks in X; simpl in X end;
    try match goal with X : marks _ = _ |- _ => rewrite X end; apply mark_get_cons_same.
Qed.

(* ... and a marked (from, target, hash) approves nothing any more *)
Lemma approve_marked_noop : forall s f t h v,
  mark_get f t h (marks s) = Some v -> exec s (OApprove f t h) = s.
Proof.
  intros s f t h v Hm. unfold Custody.exec, Custody.step. destruct (ante s (OApprove f t h)); simpl; auto.
  rewrite Hm. reflexivity.
Qed.

Lemma decline_marked_noop : forall s f t h v,
  mark_get f t h (marks s) = Some v -> exec s (ODecline f t h) = s.
Proof.
  intros s f t h v Hm. unfold Custody.exec, Custody.step. destruct (ante s (ODecline f t h)); simpl; auto.
  rewrite Hm. reflexivity.
Qed.

(* over every history: after an approval by [f] for ([t], [h]) took effect, no later approval or
   decline by [f] with the same target and the same hash string changes anything, whatever happened between *)
Theorem vote_counts_once : forall s f t h ops,
  let s1 := exec s (OApprove f t h) in
  s1 <> s ->
  let s2 := run s1 ops in
  exec s2 (OApprove f t h) = s2 /\ exec s2 (ODecline f t h) = s2.
Proof.
  intros s f t h ops s1 Hne s2.
  assert (Hm : mark_get f t h (marks s1) = Some 1).
  { unfold s1, Custody.exec in *. destruct (step s (OApprove f t h)) as [s'| |] eqn:E; try congruence.
    eapply approve_marks; eauto. }
  assert (Hm2 : mark_get f t h (marks s2) = Some 1) by (apply marks_mono_run; exact Hm).
  split; [eapply approve_marked_noop|eapply decline_marked_noop]; eauto.
Qed.

(* ================================================================ 4. settings messages: what the decorator establishes *)
Definition keyed_op (o : op) : option kp :=
  match o with OCreate _ _ k | OAdd _ _ _ k | ORem _ _ _ k | ODropL _ _ k => Some k | _ => None end.

Lemma keyed_requires_own_key : forall s o k st s',
  keyed_op o = Some k -> a_set (getA s (signer o)) = Some st -> s_en st = true ->
  step s o = Ok s' ->
  H (k_old k) = s_key st /\ (k_tgt k = -1 \/ k_tgt k = s_next st).
Proof.
  intros s o k st s' Hk Hs He E. unfold Custody.step, Custody.ante in E. rewrite Hs, He in E.
  assert (Ha : exists u, ante_keyed H st k = Ok u).
  { destruct o; simpl in Hk; inversion Hk; subst; simpl in E;
      destruct (ante_keyed H st k); simpl in E; try discriminate; eauto. }
  destruct Ha as [u Ha]. unfold ante_keyed in Ha.
  destruct (negb (k_tgt k =? -1) && negb (k_tgt k =? s_next st)) eqn:Et; [discriminate|].
  destruct (String.eqb (H (k_old k)) (s_key st)) eqn:Ek; [|discriminate].
  apply String.eqb_eq in Ek. split; auto. lia.
Qed.

(* the limits messages of a guarded signer are always rejected (their Type() names another message) *)
Lemma limits_ops_rejected_when_enabled : forall s o st,
  (match o with OAddLim _ _ _ _ _ | ORemLim _ _ _ | ODropLim _ _ => True | _ => False end) ->
  a_set (getA s (signer o)) = Some st -> s_en st = true -> is_ok (step s o) = false.
Proof.
  intros s o st Ho Hs He. unfold Custody.step, Custody.ante. rewrite Hs, He.
  destruct o; try contradiction; reflexivity.
Qed.

(* ================================================================ 5. release: what the code itself requires *)
(* a direct pay-out by custody send happens only without custodians and without password *)
Lemma send_direct_only_unguarded : forall s sg to amt pw rew h s' st,
  step s (OSend sg to amt pw rew h) = Ok s' -> a_set (getA s sg) = Some st ->
  a_pool (getA s' sg) = a_pool (getA s sg) -> a_pool (getA s sg) = None ->
  s_pwd st = false /\ (s_en st = true -> a_cust (getA s sg) = Some []).
Proof.
  intros s sg to amt pw rew h s' st E Hs Hp Hn. unfold Custody.step in E.
  destruct (ante s (OSend sg to amt pw rew h)); simpl in E; try discriminate.
  destruct (amt <=? 0); [discriminate|]. rewrite Hs in E. unfold bind in E.
  destruct (s_en st) eqn:He.
  - destruct (a_cust (getA s sg)) as [c|] eqn:Hc; [|discriminate].
    destruct ((0 <? map_len c) || s_pwd st) eqn:Hb.
    + inversion E; subst. unfold getA at 1 in Hp. simpl in Hp. rewrite Z.eqb_refl in Hp. simpl in Hp. congruence.
    + apply orb_false_elim in Hb. destruct Hb as [Hb1 Hb2]. apply map_len_zero in Hb1; subst. auto.
  - destruct (s_pwd st) eqn:Hw.
    + inversion E; subst. unfold getA at 1 in Hp. simpl in Hp. rewrite Z.eqb_refl in Hp. simpl in Hp. congruence.
    + split; auto; discriminate.
Qed.

End Facts.

(* ================================================================ 6. the spec checker accepts the model's plain bank sends *)
Section ChkSound.
Variable H : string -> string.
Variable minrew : Z.

Lemma n_cust_nil : forall a, a_cust a = Some [] -> n_cust a = 0.
Proof. intros a E. unfold n_cust, custodians. rewrite E. reflexivity. Qed.

(* whenever the model accepts a plain bank send, none of the clauses blocked / whitelist / limits
   of the checker fires for it: the link between "real trace passes the checker" and theorems 1, 2 *)
Lemma chk_bank_sound : forall s sg to amt s',
  step H minrew s (OBank sg to amt) = Ok s' -> path_clauses (getA s sg) to amt "bank_send" = [].
Proof.
  intros s sg to amt s' E. pose proof (bank_send_accepted H minrew s sg to amt s' E) as A.
  unfold path_clauses, wl_lim_clauses, guarded, flag.
  destruct (a_set (getA s sg)) as [st|] eqn:Hs; [|reflexivity].
  destruct A as (A1 & A2 & A3). rewrite A3.
  assert (G : s_en st && (0 <? n_cust (getA s sg)) = false).
  { destruct (s_en st); [|reflexivity]. rewrite (n_cust_nil _ (A1 eq_refl)). reflexivity. }
  rewrite G. simpl.
  destruct (s_wl st); [|reflexivity].
  destruct (a_wl (getA s sg)) as [w|] eqn:Hl; [|reflexivity].
  rewrite (A2 eq_refl w eq_refl). reflexivity.
Qed.
End ChkSound.

(* ================================================================ 7. the full-strength statements and their refutations.
   Witnesses are concrete histories from the initial state; each is replayed on the real code by
   the directed histories of harness/cmd/c17 (the known findings). *)
Definition reachable (H : string -> string) (minrew : Z) (s : state) : Prop :=
  exists bals ops, s = run H minrew (init_state bals) ops.

(* the custody configuration of a guarded account changes only for someone who shows the
   preimage of its current key *)
Definition settings_change_requires_key_stmt : Prop :=
  forall H minrew s o x st, reachable H minrew s ->
    a_set (getA s x) = Some st -> s_en st = true ->
    config_eqb (getA s x) (getA (exec H minrew s o) x) = false ->
    exists k, op_kp o = Some k /\ H (k_old k) = s_key st.

(* an approval or a decline moves coins only if the voter is a custodian of the target *)
Definition only_custodians_count_stmt : Prop :=
  forall H minrew s f t h y, reachable H minrew s ->
    (a_bal (getA (exec H minrew s (OApprove f t h)) y) <> a_bal (getA s y)
     \/ a_bal (getA (exec H minrew s (ODecline f t h)) y) <> a_bal (getA s y)) ->
    is_custodian (getA s t) f = true.

(* a password confirmation pays out a transfer of an account that uses a password only if the
   password given matches the one the transfer was requested with *)
Definition password_confirmed_when_required_stmt : Prop :=
  forall H minrew s f t h p ph st pl tx, reachable H minrew s ->
    a_set (getA s t) = Some st -> s_pwd st = true ->
    a_pool (getA s t) = Some pl -> pool_get (to_lower h) pl = Some tx ->
    a_bal (getA (exec H minrew s (OConfirm f t h p ph)) (t_to tx)) <> a_bal (getA s (t_to tx)) ->
    p = t_pw tx \/ ph = t_pw tx.

(* over every history the checker's threshold clauses never fire: every pay-out of a pooled
   transfer of a guarded account was approved by the configured share of its custodians, each
   custodian counted once *)
Definition threshold_clause (c : string) : bool :=
  str_in c ["threshold:approve:nongenuine"; "threshold:approve:undercount"; "threshold:confirm:nongenuine";
            "threshold:confirm:undercount"; "threshold:custody_send:direct"]%string.
Definition release_only_after_threshold_stmt : Prop :=
  forall H minrew bals ops c, In c (model_clauses H minrew bals ops) -> threshold_clause c = false.

(* a custodian counts once per transfer (the transfer is named by its hash, whatever the spelling) *)
Definition vote_counts_once_per_transfer_stmt : Prop :=
  forall H minrew bals ops c, In c (model_clauses H minrew bals ops) ->
    str_in c ["vote_once:approve"; "vote_once:decline"]%string = false.

(* the whole property: the checker accepts every history of the model *)
Definition C17_full_stmt : Prop := forall H minrew bals ops, model_clauses H minrew bals ops = [].

Definition w_bals : list Z := [1000000; 1000000; 5000; 5000; 300; 0].
Definition kp0 (old new : string) : kp := mkKp old new (-1) (-1).
(* account 0 guarded: custodians 2 and 3, current key digest "K3" *)
Definition w_setup (mode : Z) (pwd : bool) : list op :=
  [ OCreate 0 (mkSet false mode pwd false false "" (-1)) (kp0 "Kx" "K1");
    OAdd LCust 0 [2; 3] (kp0 "K1" "K2");
    OCreate 0 (mkSet true mode pwd false false "" (-1)) (kp0 "K2" "K3") ]%string.
Definition w_send : op := OSend 0 5 1000 "P1" [400] "ab12cd34".
Definition w_run (ops : list op) : state := run Hid 200 (init_state w_bals) ops.

Lemma w_reachable : forall ops, reachable Hid 200 (w_run ops).
Proof. intros ops; exists w_bals, ops; reflexivity. Qed.

(* (a) MsgDisableCustodyRecord has no arm in the decorator: the owner's key is not needed *)
Lemma key_refuted_no_arm : exists ops o x st,
  let s := w_run ops in
  a_set (getA s x) = Some st /\ s_en st = true /\ config_eqb (getA s x) (getA (exec Hid 200 s o) x) = false
  /\ forall k, op_kp o = Some k -> Hid (k_old k) <> s_key st.
Proof.
  exists (w_setup 100 false), (ODisable 0 (kp0 "Kx" "K9")), 0, (mkSet true 100 false false false "K3" (-1)).
  cbv zeta. split; [vm_compute; reflexivity|]. split; [reflexivity|]. split; [vm_compute; reflexivity|].
  intros k Hk; inversion Hk; subst; vm_compute; discriminate.
Qed.

(* (b) a signer without any custody record skips all checks and names the victim as TargetAddress *)
Lemma key_refuted_target_norecord : exists ops o x st,
  let s := w_run ops in
  signer o <> x /\ a_set (getA s (signer o)) = None /\
  a_set (getA s x) = Some st /\ s_en st = true /\ config_eqb (getA s x) (getA (exec Hid 200 s o) x) = false
  /\ forall k, op_kp o = Some k -> Hid (k_old k) <> s_key st.
Proof.
  exists (w_setup 100 false), (ODropL LCust 4 (mkKp "Kx" "K9" (-1) 0)), 0, (mkSet true 100 false false false "K3" (-1)).
  cbv zeta. split; [vm_compute; discriminate|]. split; [vm_compute; reflexivity|].
  split; [vm_compute; reflexivity|]. split; [reflexivity|]. split; [vm_compute; reflexivity|].
  intros k Hk; inversion Hk; subst; vm_compute; discriminate.
Qed.

(* (c) a guarded signer proves ITS OWN key and names its own NextController: the record changed is the victim's *)
Lemma key_refuted_target_next : exists ops o x st,
  let s := w_run ops in
  signer o <> x /\ a_set (getA s x) = Some st /\ s_en st = true
  /\ config_eqb (getA s x) (getA (exec Hid 200 s o) x) = false
  /\ forall k, op_kp o = Some k -> Hid (k_old k) <> s_key st.
Proof.
  exists (app (w_setup 100 false) [OCreate 1 (mkSet true 50 false false false "" (-1)) (mkKp "Kx" "K7" 0 (-1))])%string,
         (OAdd LCust 1 [4] (mkKp "K7" "K8" (-1) 0)), 0, (mkSet true 100 false false false "K3" (-1)).
  cbv zeta. split; [vm_compute; discriminate|]. split; [vm_compute; reflexivity|]. split; [reflexivity|].
  split; [vm_compute; reflexivity|].
  intros k Hk; inversion Hk; subst; vm_compute; discriminate.
Qed.

Theorem settings_change_requires_key_refuted : ~ settings_change_requires_key_stmt.
Proof.
  intros St. destruct key_refuted_no_arm as (ops & o & x & st & Hs & He & Hc & Hk).
  destruct (St Hid 200 (w_run ops) o x st (w_reachable ops) Hs He Hc) as (k & Ek & Eh).
  exact (Hk k Ek Eh).
Qed.

(* a stranger approves: he is paid the reward share from the guarded account and his vote counts *)
Lemma stranger_approval_counts : exists ops f t h,
  let s := w_run ops in let s' := exec Hid 200 s (OApprove f t h) in
  is_custodian (getA s t) f = false /\ a_bal (getA s' f) = a_bal (getA s f) + 200
  /\ a_bal (getA s' t) = a_bal (getA s t) - 200
  /\ option_map (fun p => map (fun e => t_votes (snd e)) p) (a_pool (getA s' t)) = Some [1].
Proof.
  exists (app (w_setup 100 false) [w_send]), 4, 0, "ab12cd34"%string. vm_compute. repeat split; reflexivity.
Qed.

Lemma stranger_decline_paid : exists ops f t h,
  let s := w_run ops in let s' := exec Hid 200 s (ODecline f t h) in
  is_custodian (getA s t) f = false /\ a_bal (getA s' f) = a_bal (getA s f) + 200.
Proof.
  exists (app (w_setup 100 false) [w_send]), 4, 0, "ab12cd34"%string. vm_compute. repeat split; reflexivity.
Qed.

Theorem only_custodians_count_refuted : ~ only_custodians_count_stmt.
Proof.
  intros St. destruct stranger_approval_counts as (ops & f & t & h & Hc & Hb & _).
  cbv zeta in *. rewrite (St Hid 200 (w_run ops) f t h f (w_reachable ops)) in Hc; [discriminate|].
  left. rewrite Hb. lia.
Qed.

(* both custodians approved, then a stranger "confirms" with a wrong password: paid out *)
Lemma wrong_password_pays_out : exists ops f t h p ph st pl tx,
  let s := w_run ops in
  a_set (getA s t) = Some st /\ s_pwd st = true /\ a_pool (getA s t) = Some pl /\ pool_get (to_lower h) pl = Some tx
  /\ a_bal (getA (exec Hid 200 s (OConfirm f t h p ph)) (t_to tx)) = a_bal (getA s (t_to tx)) + t_amt tx
  /\ t_amt tx = 1000 /\ p <> t_pw tx /\ ph <> t_pw tx.
Proof.
  exists (app (w_setup 100 true) [w_send; OApprove 2 0 "ab12cd34"; OApprove 3 0 "ab12cd34"])%string, 4, 0, "AB12cd34"%string,
         "px"%string, "Px"%string, (mkSet true 100 true false false "K3" (-1)),
         [("ab12cd34"%string, mkTx 5 1000 "P1" [400] 2 false)], (mkTx 5 1000 "P1" [400] 2 false).
  vm_compute. repeat split; try reflexivity; discriminate.
Qed.

Theorem password_confirmed_when_required_refuted : ~ password_confirmed_when_required_stmt.
Proof.
  intros St. destruct wrong_password_pays_out as (ops & f & t & h & p & ph & st & pl & tx & Hs & Hp & Hl & Hg & Hb & Ha & N1 & N2).
  cbv zeta in *.
  destruct (St Hid 200 (w_run ops) f t h p ph st pl tx (w_reachable ops) Hs Hp Hl Hg); [|congruence|congruence].
  rewrite Hb, Ha. lia.
Qed.

(* threshold 100 % of two custodians: ONE custodian approves twice, spelling the hash differently;
   or two strangers approve: the transfer is paid out *)
Definition w_twice : list op := (app (w_setup 100 false) [w_send; OApprove 2 0 "ab12cd34"; OApprove 2 0 "AB12cd34"])%string.
Definition w_strangers : list op := (app (w_setup 100 false) [w_send; OApprove 4 0 "ab12cd34"; OApprove 1 0 "ab12cd34"])%string.

Lemma str_in_In : forall x l, str_in x l = true -> In x l.
Proof.
  induction l as [|y l IH]; simpl; [discriminate|]. intros E. apply orb_prop in E. destruct E as [E|E].
  - left. apply String.eqb_eq in E. auto.
  - right. auto.
Qed.

Lemma one_custodian_twice_pays_out :
  a_bal (getA (w_run w_twice) 5) = 1000 /\ n_cust (getA (w_run w_twice) 0) = 2
  /\ In "threshold:approve:nongenuine"%string (model_clauses Hid 200 w_bals w_twice)
  /\ In "vote_once:approve"%string (model_clauses Hid 200 w_bals w_twice).
Proof.
  split; [vm_compute; reflexivity|]. split; [vm_compute; reflexivity|].
  split; apply str_in_In; vm_compute; reflexivity.
Qed.

Lemma strangers_pay_out :
  a_bal (getA (w_run w_strangers) 5) = 1000
  /\ In "threshold:approve:nongenuine"%string (model_clauses Hid 200 w_bals w_strangers)
  /\ In "only_custodians:approve"%string (model_clauses Hid 200 w_bals w_strangers).
Proof.
  split; [vm_compute; reflexivity|]. split; apply str_in_In; vm_compute; reflexivity.
Qed.

Theorem release_only_after_threshold_refuted : ~ release_only_after_threshold_stmt.
Proof.
  intros St. destruct strangers_pay_out as (_ & Hin & _).
  specialize (St Hid 200 w_bals w_strangers _ Hin).
  assert (X : threshold_clause "threshold:approve:nongenuine" = true) by reflexivity. rewrite St in X. discriminate.
Qed.

Theorem vote_counts_once_per_transfer_refuted : ~ vote_counts_once_per_transfer_stmt.
Proof.
  intros St. destruct one_custodian_twice_pays_out as (_ & _ & _ & Hin).
  specialize (St Hid 200 w_bals w_twice _ Hin).
  assert (X : str_in "vote_once:approve" ["vote_once:approve"; "vote_once:decline"]%string = true) by reflexivity.
  rewrite St in X. discriminate.
Qed.

Theorem C17_full_refuted : ~ C17_full_stmt.
Proof.
  intros St. specialize (St Hid 200 w_bals w_strangers).
  assert (X : (match model_clauses Hid 200 w_bals w_strangers with [] => true | _ => false end) = false) by (vm_compute; reflexivity).
  rewrite St in X. discriminate.
Qed.

(* the second request replaces the pending one (the pool record is overwritten): the first transfer can
   no longer be approved; this loses a request but pays nothing out early *)
Lemma second_send_overwrites_pool :
  let s := w_run (app (w_setup 100 false) [w_send; OApprove 2 0 "ab12cd34"; OSend 0 4 2000 "P2" [400] "cd34ab12"])%string in
  option_map (map fst) (a_pool (getA s 0)) = Some ["cd34ab12"%string]
  /\ is_panic (step Hid 200 s (OApprove 3 0 "ab12cd34")) = true.
Proof. vm_compute. split; reflexivity. Qed.

(* the honest run is accepted by the checker (non-vacuity of the clauses) *)
Lemma honest_run_clean :
  model_clauses Hid 200 w_bals (app (w_setup 100 true) [w_send; OConfirm 0 0 "ab12cd34" "p1" "P1"; OApprove 2 0 "ab12cd34";
                                                      OApprove 2 0 "ab12cd34"; OApprove 3 0 "ab12cd34"; OBank 0 5 10])%string = []
  /\ a_bal (getA (w_run (app (w_setup 100 true) [w_send; OConfirm 0 0 "ab12cd34" "p1" "P1"; OApprove 2 0 "ab12cd34";
                                               OApprove 2 0 "ab12cd34"; OApprove 3 0 "ab12cd34"; OBank 0 5 10])%string) 5) = 1000.
Proof. vm_compute. split; reflexivity. Qed.

(* ================================================================ 8. votes are bounded by the recorded approval marks (invariant over histories) *)
Definition count_marks (t : Z) (h : string) (l : list (Z * Z * string * Z)) : Z :=
  Z.of_nat (List.length (filter (fun e => match e with (_, t', hr, v) => (t =? t') && String.eqb (to_lower hr) h && (v =? 1) end) l)).
Definition pool_of (s : state) (t : Z) : option pmap := a_pool (getA s t).
Definition votes_inv (s : state) : Prop :=
  forall t p h tx, pool_of s t = Some p -> pool_get h p = Some tx -> t_votes tx <= count_marks t h (marks s).

Lemma count_marks_nonneg : forall t h l, 0 <= count_marks t h l.
Proof. intros; unfold count_marks; lia. Qed.
Lemma count_marks_cons_ge : forall t h e l, count_marks t h l <= count_marks t h (e :: l).
Proof. intros t h [[[f t'] hr] v] l. unfold count_marks. simpl. destruct ((t =? t') && String.eqb (to_lower hr) h && (v =? 1)); simpl List.length; lia. Qed.
Lemma count_marks_cons_hit : forall f t hr l, count_marks t (to_lower hr) ((f, t, hr, 1) :: l) = count_marks t (to_lower hr) l + 1.
Proof. intros. unfold count_marks. simpl. rewrite Z.eqb_refl, String.eqb_refl. simpl List.length. lia. Qed.

Lemma getA_setA : forall s i a j, getA (setA s i a) j = if j =? i then a else getA s j.
Proof. intros. unfold getA, setA. simpl. destruct (j =? i); reflexivity. Qed.
Lemma pool_of_setA_keep : forall s i a t, a_pool a = pool_of s i -> pool_of (setA s i a) t = pool_of s t.
Proof.
  intros s i a t E. unfold pool_of in *. rewrite getA_setA. destruct (t =? i) eqn:Et; auto.
  assert (t = i) by lia. subst. auto.
Qed.
Lemma pool_of_setA_other : forall s i a t, t <> i -> pool_of (setA s i a) t = pool_of s t.
Proof. intros s i a t Hn. unfold pool_of. rewrite getA_setA. destruct (t =? i) eqn:Et; auto. lia. Qed.
Lemma pool_of_setA_same : forall s i a, pool_of (setA s i a) i = a_pool a.
Proof. intros. unfold pool_of. rewrite getA_setA, Z.eqb_refl. reflexivity. Qed.
Lemma pool_of_add_mark : forall s f t h v u, pool_of (add_mark s f t h v) u = pool_of s u.
Proof. reflexivity. Qed.
Lemma send_pool : forall s a b x s', send s a b x = Ok s' -> forall t, pool_of s' t = pool_of s t.
Proof.
  unfold send; intros s a b x s' E t. destruct (a_bal (getA s a) <? x); inversion E; subst.
  rewrite pool_of_setA_keep; [rewrite pool_of_setA_keep; reflexivity|reflexivity].
Qed.
Lemma set_key_pool : forall s x k s', set_key s x k = Ok s' -> forall t, pool_of s' t = pool_of s t.
Proof.
  unfold set_key; intros s x k s' E t. destruct (a_set (getA s x)); inversion E; subst.
  rewrite pool_of_setA_keep; reflexivity.
Qed.
Lemma pool_of_store_same : forall s t p, pool_of (store_pool s t p) t = Some p.
Proof. intros. unfold store_pool. rewrite pool_of_setA_same. reflexivity. Qed.
Lemma pool_of_store_other : forall s t p u, u <> t -> pool_of (store_pool s t p) u = pool_of s u.
Proof. intros. unfold store_pool. rewrite pool_of_setA_other; auto. Qed.

Lemma pool_get_set : forall h' h v p, pool_get h' (pool_set h v p) = if String.eqb h' h then Some v else pool_get h' p.
Proof.
  induction p as [|[k x] p IH]; simpl.
  - destruct (String.eqb h' h); reflexivity.
  - destruct (String.eqb h k) eqn:E; simpl.
    + apply String.eqb_eq in E; subst. destruct (String.eqb h' k); reflexivity.
    + rewrite IH. destruct (String.eqb h' k) eqn:E2; auto.
      destruct (String.eqb h' h) eqn:E3; auto.
      apply String.eqb_eq in E2, E3. subst. rewrite String.eqb_refl in E. discriminate.
Qed.
Lemma pool_get_del_some : forall h' h p tx, pool_get h' (pool_del h p) = Some tx -> pool_get h' p = Some tx.
Proof.
  induction p as [|[k x] p IH]; simpl; intros tx E; [discriminate|].
  destruct (String.eqb h k) eqn:Ek; simpl in E.
  - destruct (String.eqb h' k) eqn:E2; auto.
    apply String.eqb_eq in Ek, E2; subst.
    exfalso. clear IH. induction p as [|[k2 x2] p IHp]; simpl in E; [discriminate|].
    destruct (String.eqb k k2) eqn:E3; simpl in E; auto. rewrite E3 in E. auto.
  - destruct (String.eqb h' k); auto.
Qed.
Lemma pool_get_del_same : forall h p, pool_get h (pool_del h p) = None.
Proof.
  induction p as [|[k x] p IH]; simpl; auto. destruct (String.eqb h k) eqn:E; simpl; auto. rewrite E. auto.
Qed.

Lemma votes_inv_weaken : forall s s', (forall t, pool_of s' t = pool_of s t) ->
  (forall t h, count_marks t h (marks s) <= count_marks t h (marks s')) -> votes_inv s -> votes_inv s'.
Proof.
  intros s s' Hp Hm Inv t p h tx E1 E2. rewrite Hp in E1. specialize (Inv t p h tx E1 E2). specialize (Hm t h). lia.
Qed.

Section Inv.
Variable H : string -> string.
Variable minrew : Z.

Ltac quiet E :=
  repeat (dmatch_in E; try discriminate); inversion E; subst; (split;
  [ intro t0;
    repeat (rewrite pool_of_setA_keep;
            [|try reflexivity; try (match goal with w : lst |- _ => destruct w; reflexivity end)]);
    try reflexivity;
    try (eapply set_key_pool; eassumption); try (eapply send_pool; eassumption)
  | simpl; try reflexivity; try (eapply set_key_marks; eassumption); try (eapply send_marks; eassumption) ]).

(* operations that touch neither a pool nor the vote store *)
Lemma quiet_ops : forall s o s', step H minrew s o = Ok s' ->
  (match o with OSend _ _ _ _ _ _ | OApprove _ _ _ | ODecline _ _ _ | OConfirm _ _ _ _ _ => False | _ => True end) ->
  (forall t, pool_of s' t = pool_of s t) /\ marks s' = marks s.
Proof.
  intros s o s' E Hq. unfold Custody.step in E. destruct (ante H minrew s o); simpl in E; try discriminate.
  destruct o; try contradiction; simpl in E; unfold bind in E.
  - quiet E.
  - quiet E.
  - quiet E.
  - quiet E.
  - quiet E.
  - quiet E.
  - quiet E.
  - quiet E.
  - quiet E.
  - quiet E.
  - quiet E.
Qed.

Lemma votes_inv_step : forall s o s', votes_inv s -> step H minrew s o = Ok s' -> votes_inv s'.
Proof.
  intros s o s' Inv E.
  destruct o; try (destruct (quiet_ops s _ s' E I) as [Hp Hm]; apply (votes_inv_weaken s s' Hp); [intros; rewrite Hm; lia|exact Inv]).
  - (* custody send *)
    unfold Custody.step in E. destruct (ante H minrew s (OSend sg to amt pw rew h)); simpl in E; try discriminate.
    unfold bind in E. destruct (amt <=? 0); [discriminate|].
    match type of E with (match ?p with _ => _ end) = _ => destruct p as [pooled| |] eqn:Ep; try discriminate end.
    destruct pooled.
    + inversion E; subst. intros t p h' tx E1 E2.
      destruct (Z.eq_dec t sg) as [->|Hn].
      * rewrite pool_of_setA_same in E1. simpl in E1. inversion E1; subst. simpl in E2.
        destruct (String.eqb h' h); inversion E2; subst. simpl. apply count_marks_nonneg.
      * rewrite pool_of_setA_other in E1 by assumption. exact (Inv t p h' tx E1 E2).
    + apply (votes_inv_weaken s s' (send_pool _ _ _ _ _ E)); [intros; rewrite (send_marks _ _ _ _ _ E); lia|exact Inv].
  - (* approve *)
    unfold Custody.step in E. destruct (ante H minrew s (OApprove f t h)); simpl in E; try discriminate.
    unfold bind, rec_missing in E.
    destruct (mark_get f t h (marks s)) eqn:Hm; [inversion E; subst; exact Inv|].
    destruct (a_pool (getA s t)) as [p|] eqn:Hp; [|discriminate].
    destruct (pool_get (to_lower h) p) as [tx|] eqn:Hg; [|discriminate].
    destruct (a_cust (getA s t)) as [c|]; [|discriminate].
    destruct (t_rew tx) as [|r0 rr]; [discriminate|].
    destruct (map_len c =? 0); [discriminate|].
    destruct (send s t f (Z.quot r0 (map_len c))) as [s1| |] eqn:E1; try discriminate.
    match type of E with (if ?b then _ else _) = _ => destruct b end.
    + destruct (send (add_mark s1 f t h 1) t (t_to tx) (t_amt tx)) as [s3| |] eqn:E3; try discriminate.
      inversion E; subst. intros u q h' tx' Q1 Q2.
      assert (Mk : marks (store_pool s3 t (pool_del (to_lower h) p)) = (f, t, h, 1) :: marks s).
      { rewrite store_pool_marks, (send_marks _ _ _ _ _ E3). simpl. rewrite (send_marks _ _ _ _ _ E1). reflexivity. }
      rewrite Mk. eapply Z.le_trans; [|apply count_marks_cons_ge].
      destruct (Z.eq_dec u t) as [->|Hn].
      * rewrite pool_of_store_same in Q1. inversion Q1; subst. apply pool_get_del_some in Q2.
        exact (Inv t p h' tx' Hp Q2).
      * rewrite pool_of_store_other in Q1 by assumption.
        rewrite (send_pool _ _ _ _ _ E3), pool_of_add_mark, (send_pool _ _ _ _ _ E1) in Q1.
        exact (Inv u q h' tx' Q1 Q2).
    + inversion E; subst. intros u q h' tx' Q1 Q2.
      assert (Mk : marks (store_pool (add_mark s1 f t h 1) t (pool_set (to_lower h) (tx_votes tx (t_votes tx + 1)) p)) = (f, t, h, 1) :: marks s).
      { rewrite store_pool_marks. simpl. rewrite (send_marks _ _ _ _ _ E1). reflexivity. }
      rewrite Mk.
      destruct (Z.eq_dec u t) as [->|Hn].
      * rewrite pool_of_store_same in Q1. inversion Q1; subst. rewrite pool_get_set in Q2.
        destruct (String.eqb h' (to_lower h)) eqn:Eh.
        -- apply String.eqb_eq in Eh; subst h'. inversion Q2; subst. simpl.
           rewrite count_marks_cons_hit. specialize (Inv t p (to_lower h) tx Hp Hg). lia.
        -- eapply Z.le_trans; [|apply count_marks_cons_ge]. exact (Inv t p h' tx' Hp Q2).
      * rewrite pool_of_store_other in Q1 by assumption. rewrite pool_of_add_mark, (send_pool _ _ _ _ _ E1) in Q1.
        eapply Z.le_trans; [|apply count_marks_cons_ge]. exact (Inv u q h' tx' Q1 Q2).
  - (* decline *)
    unfold Custody.step in E. destruct (ante H minrew s (ODecline f t h)); simpl in E; try discriminate.
    unfold bind in E.
    repeat (dmatch_in E; try discriminate); try (inversion E; subst; exact Inv).
    apply (votes_inv_weaken (add_mark s f t h (-1)) s' (send_pool _ _ _ _ _ E)).
    + intros; rewrite (send_marks _ _ _ _ _ E); lia.
    + intros u q h' tx' Q1 Q2. simpl. eapply Z.le_trans; [|apply count_marks_cons_ge]. exact (Inv u q h' tx' Q1 Q2).
  - (* confirm *)
    unfold Custody.step in E. destruct (ante H minrew s (OConfirm f t h p ph)); simpl in E; try discriminate.
    unfold bind, rec_missing in E.
    destruct (a_pool (getA s t)) as [pl|] eqn:Hp.
    2:{ simpl in E. repeat (dmatch_in E; try discriminate). }
    destruct (pool_get (to_lower h) pl) as [tx|] eqn:Hg; simpl in E.
    2:{ repeat (dmatch_in E; try discriminate). }
    repeat (dmatch_in E; try discriminate); inversion E; subst; intros u q h' tx' Q1 Q2;
      try (rewrite store_pool_marks);
      repeat match goal with X : send _ _ _ _ = Ok _ |- _ => pose proof (send_marks _ _ _ _ _ X); pose proof (send_pool _ _ _ _ _ X); clear X end;
      (destruct (Z.eq_dec u t) as [->|Hn];
       [ rewrite pool_of_store_same in Q1; inversion Q1; subst;
         first [ apply pool_get_del_some in Q2; try (match goal with X : marks _ = marks _ |- _ => rewrite X end); exact (Inv t pl h' tx' Hp Q2)
               | rewrite pool_get_set in Q2; destruct (String.eqb h' (to_lower h)) eqn:Eh;
                 [ apply String.eqb_eq in Eh; subst h'; inversion Q2; subst; simpl; exact (Inv t pl (to_lower h) tx Hp Hg)
                 | exact (Inv t pl h' tx' Hp Q2) ] ]
       | rewrite pool_of_store_other in Q1 by assumption;
         try (match goal with X : forall t, pool_of _ t = pool_of _ t |- _ => rewrite X in Q1 end);
         try (match goal with X : marks _ = marks _ |- _ => rewrite X end);
         exact (Inv u q h' tx' Q1 Q2) ]).
Qed.

Lemma votes_inv_run : forall ops s, votes_inv s -> votes_inv (run H minrew s ops).
Proof.
  induction ops as [|o ops IH]; intros s Inv; simpl; auto. apply IH.
  unfold Custody.exec. destruct (step H minrew s o) eqn:E; auto. eapply votes_inv_step; eauto.
Qed.

Lemma init_pool_none : forall bals t, pool_of (init_state bals) t = None.
Proof.
  intros bals t. unfold pool_of, getA, init_state. simpl.
  generalize (seq 0 (List.length bals)). induction bals as [|b bals IH]; intros [|k ks]; simpl; auto.
  destruct (t =? Z.of_nat k); auto.
Qed.

Lemma votes_bounded_by_marks : forall bals ops t p h tx,
  let s := run H minrew (init_state bals) ops in
  a_pool (getA s t) = Some p -> pool_get h p = Some tx -> t_votes tx <= count_marks t h (marks s).
Proof.
  intros bals ops t p h tx s E1 E2.
  assert (Inv : votes_inv s).
  { apply votes_inv_run. intros u q h' tx' Q. rewrite init_pool_none in Q. discriminate. }
  exact (Inv t p h tx E1 E2).
Qed.

(* a pay-out at an approval: the counter including this vote reaches the configured share, and the
   Confirmed flag is set when a password is in use *)
Lemma approve_release_needs_counter : forall s f t h s' st c p tx,
  step H minrew s (OApprove f t h) = Ok s' ->
  mark_get f t h (marks s) = None ->
  a_set (getA s t) = Some st -> s_en st = true -> a_cust (getA s t) = Some c ->
  a_pool (getA s t) = Some p -> pool_get (to_lower h) p = Some tx ->
  (match a_pool (getA s' t) with Some p' => pool_get (to_lower h) p' | None => None end) = None ->
  s_mode st <= Z.quot ((t_votes tx + 1) * 100) (map_len c) /\ (s_pwd st = true -> t_conf tx = true).
Proof.
  intros s f t h s' st c p tx E Hm Hs He Hc Hp Hg Hafter.
  unfold Custody.step in E. destruct (ante H minrew s (OApprove f t h)); simpl in E; try discriminate.
  unfold bind, rec_missing in E. rewrite Hm, Hp, Hg, Hc, Hs, He in E.
  destruct (t_rew tx) as [|r0 rr]; [discriminate|].
  destruct (map_len c =? 0) eqn:En; [discriminate|].
  assert (Hn : 0 <? map_len c = true) by (unfold map_len in *; lia).
  rewrite Hn in E. simpl andb in E.
  destruct (send s t f (Z.quot r0 (map_len c))) as [s1| |] eqn:E1; try discriminate.
  destruct (s_mode st <=? Z.quot ((t_votes tx + 1) * 100) (map_len c)) eqn:Em; simpl andb in E.
  - destruct (s_pwd st) eqn:Ew.
    + destruct (t_conf tx) eqn:Ec.
      * split; [lia|auto].
      * exfalso. inversion E; subst. fold (pool_of (store_pool (add_mark s1 f t h 1) t (pool_set (to_lower h) (tx_votes tx (t_votes tx + 1)) p)) t) in Hafter.
        rewrite pool_of_store_same, pool_get_set, String.eqb_refl in Hafter. discriminate.
    + split; [lia|discriminate].
  - exfalso. inversion E; subst. fold (pool_of (store_pool (add_mark s1 f t h 1) t (pool_set (to_lower h) (tx_votes tx (t_votes tx + 1)) p)) t) in Hafter.
    rewrite pool_of_store_same, pool_get_set, String.eqb_refl in Hafter. discriminate.
Qed.
End Inv.

(* ================================================================ 9. non-vacuity *)
Lemma nonvacuous_guarded :
  let s := w_run (w_setup 100 false) in
  exists st c, a_set (getA s 0) = Some st /\ s_en st = true /\ a_cust (getA s 0) = Some c /\ c <> [].
Proof.
  exists (mkSet true 100 false false false "K3" (-1)), [(2, true); (3, true)].
  vm_compute. repeat split; try reflexivity. discriminate.
Qed.

Lemma nonvacuous_approval :
  let s := w_run (app (w_setup 100 false) [w_send]) in exec Hid 200 s (OApprove 2 0 "ab12cd34") <> s.
Proof.
  cbv zeta. intros E.
  assert (X : a_bal (getA (exec Hid 200 (w_run (app (w_setup 100 false) [w_send])) (OApprove 2 0 "ab12cd34")) 2)
              = a_bal (getA (w_run (app (w_setup 100 false) [w_send])) 2)) by (rewrite E; reflexivity).
  vm_compute in X. discriminate.
Qed.

(* ================================================================ 10. over every history of the model the checker never reports a plain bank send *)
Definition bank_clause_free (c : string) : Prop :=
  c <> "blocked:bank_send"%string /\ c <> "whitelist:bank_send"%string /\ c <> "limits:bank_send"%string.

Ltac lit :=
  repeat match goal with
  | X : In _ (_ ++ _) |- _ => apply in_app_or in X; destruct X as [X|X]
  | X : In _ (if ?b then _ else _) |- _ => destruct b
  | X : In _ (match ?x with _ => _ end) |- _ => destruct x
  | X : In _ [] |- _ => destruct X
  | X : In _ (_ :: _) |- _ => destruct X as [X|X]; [subst; unfold bank_clause_free, cl, cl3; simpl; repeat split; discriminate|]
  end.

Lemma fst_let_pair : forall (X : list string * log) (A B : list string),
  fst (let '(c, l) := X in (A ++ B ++ c, l)) = (A ++ B) ++ fst X.
Proof. intros [c l] A B; simpl. apply app_assoc. Qed.

Section ChkHistory.
Variable H : string -> string.
Variable minrew : Z.

Lemma step_clauses_no_bank : forall n lg s o s1 c,
  step H minrew s o = Ok s1 -> In c (fst (step_clauses n lg s (compact n s1) o)) -> bank_clause_free c.
Proof.
  intros n lg s o s1 c Es Hin. unfold step_clauses in Hin. cbv zeta in Hin.
  rewrite fst_let_pair in Hin.
  apply in_app_or in Hin. destruct Hin as [Hin|Hin].
  - apply in_app_or in Hin. destruct Hin as [Hin|Hin]; apply in_flat_map in Hin; destruct Hin as (i & _ & Hin).
    + destruct o as [| | |w ? ? ?|w ? ? ?|w ? ?| | | | | | | | |]; try destruct w; simpl kind_name in Hin; lit.
    + destruct o as [| | |w ? ? ?|w ? ? ?|w ? ?| | | | | | | | |]; try destruct w; simpl kind_name in Hin; cbv iota beta in Hin; lit.
  - destruct o as [| | |w ? ? ?|w ? ? ?|w ? ?| | | | | | | | |]; try destruct w; cbv iota beta in Hin; simpl kind_name in Hin;
      repeat match type of Hin with
             | In _ (fst (if ?b then _ else _)) => destruct b
             | In _ (fst (match ?x with _ => _ end)) => destruct x
             end;
      simpl fst in Hin; try contradiction;
      (* plain bank send: the decorator's checks are exactly what the checker asks for *)
      try (rewrite (chk_bank_sound H minrew _ _ _ _ _ Es) in Hin; contradiction);
      unfold release_clauses, path_clauses, wl_lim_clauses in Hin; lit.
Qed.

Lemma trace_no_bank : forall ops n lg s c,
  In c (trace_clauses n lg s (model_trace H minrew n s ops)) -> bank_clause_free c.
Proof.
  induction ops as [|o ops IH]; intros n lg s c Hin; simpl in Hin; [contradiction|].
  destruct (step H minrew s o) as [s1|e|e] eqn:Es; unfold Custody.exec in Hin; rewrite Es in Hin; simpl outcome_code in Hin.
  - simpl Z.eqb in Hin. cbv iota in Hin.
    destruct (step_clauses n lg s (compact n s1) o) as [cs lg'] eqn:Esc.
    apply in_app_or in Hin. destruct Hin as [Hin|Hin].
    + eapply step_clauses_no_bank; [exact Es|]. rewrite Esc. exact Hin.
    + eapply IH; exact Hin.
  - simpl Z.eqb in Hin. cbv iota in Hin. apply in_app_or in Hin. destruct Hin as [Hin|Hin]; [lit|eapply IH; exact Hin].
  - simpl Z.eqb in Hin. cbv iota in Hin. apply in_app_or in Hin. destruct Hin as [Hin|Hin]; [lit|eapply IH; exact Hin].
Qed.

Lemma chk_bank_sound_history : forall bals ops c, In c (model_clauses H minrew bals ops) ->
  c <> "blocked:bank_send"%string /\ c <> "whitelist:bank_send"%string /\ c <> "limits:bank_send"%string.
Proof. intros bals ops c Hin. unfold model_clauses in Hin. exact (trace_no_bank _ _ _ _ _ Hin). Qed.
End ChkHistory.
