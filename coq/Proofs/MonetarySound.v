(* C13: the spec checker of Model/C13Check.v accepts every step of the model (chk_sound).
   For a checker state [k] that agrees with a model state [s] ([rel k s]) and a well-formed [s]
   ([inv cf s]), the clauses computed by [check_step] on the model's own observation are all
   satisfied, and the next checker state agrees with the next model state. *)
From Sekai Require Import Base.Prelude Base.Dec Model.Monetary Model.C13Check Gen.MintBurn Proofs.Monetary.
From Coq Require Import ZifyBool.
Local Open Scope Z_scope.

(* ---------------------------------------------------------------- reflexivity of the equality tests *)
Lemma oz_eqb_refl : forall a, oz_eqb a a = true. Proof. destruct a; cbn; lia. Qed.
Lemma snap_eqb_refl : forall a, snap_eqb a a = true.
Proof. intros a. unfold snap_eqb. rewrite oz_eqb_refl. lia. Qed.
Lemma tok_eqb_refl : forall a, tok_eqb a a = true.
Proof. intros a. unfold tok_eqb. rewrite Bool.eqb_reflx. repeat rewrite Z.eqb_refl. reflexivity. Qed.
Lemma otok_eqb_refl : forall a, otok_eqb a a = true. Proof. destruct a; cbn; [apply tok_eqb_refl|reflexivity]. Qed.
Lemma ubi_eqb_refl : forall a, ubi_eqb a a = true.
Proof. intros a. unfold ubi_eqb. rewrite Bool.eqb_reflx. repeat rewrite Z.eqb_refl. reflexivity. Qed.
Lemma list_eqb_refl : forall A (e : A -> A -> bool), (forall x, e x x = true) -> forall l, list_eqb e l l = true.
Proof. intros A e He. induction l as [|x l IH]; cbn; [reflexivity|rewrite He, IH; reflexivity]. Qed.
Lemma existsb_ubi_in : forall u l, In u l -> existsb (ubi_eqb u) l = true.
Proof. intros u l H. apply existsb_exists. exists u. split; [exact H|apply ubi_eqb_refl]. Qed.

(* ---------------------------------------------------------------- checker state vs. model state *)
Definition view_ok (k : cst) (s : st) (d : Z) : Prop :=
  let v := view_of k d in
  v_tok v = aget d (s_reg s) /\ v_bank v = supply_of s d /\
  (0 < v_bound v -> exists t, aget d (s_reg s) = Some t /\ 0 < t_cap t <= v_bound v).
Definition rel (k : cst) (s : st) : Prop :=
  k_now k = s_now s /\ k_params k = s_params s /\ k_psnap k = s_psnap s /\ k_ysnap k = s_ysnap s /\
  k_native k = nat_supply s /\ k_ubis k = s_ubis s /\ forall d, view_ok k s d.

Fixpoint names_sorted (l : list ubi) : Prop :=
  match l with
  | [] => True
  | u :: r => (match r with [] => True | v :: _ => u_name u < u_name v end) /\ names_sorted r
  end.
(* well-formed model states: what x/gov validation, the bank and the block clock guarantee *)
Definition inv (s : st) : Prop :=
  cap_ok (s_reg s) /\ aget native (s_reg s) <> None /\
  0 <= p_rate (s_params s) /\ 0 < p_period (s_params s) < two63 /\ 0 <= p_maxann (s_params s) /\
  (forall a, sn_amt (s_psnap s) = Some a -> 0 <= a) /\ sn_time (s_psnap s) <= s_now s /\
  pools_nonneg s /\ Forall (fun u => 0 <= u_amount u /\ 0 <= u_last u /\ 0 <= u_period u) (s_ubis s) /\
  names_sorted (s_ubis s).
(* all five guards in the repaired shape *)
Definition all_repaired (cf : config) : Prop :=
  cf_cap_strict cf = true /\ cf_ubi_exact cf = true /\ cf_ubi_amount_exact cf = true /\ cf_ubi_due_exact cf = true
  /\ cf_mint_native_refused cf = true.
(* side conditions on the operation: a block does not go back in time, UBI proposals carry uint64 values *)
Definition good_op (o : op) : Prop :=
  match o with
  | OBlock dt => 0 <= dt
  | OUbiUpsert _ amount period start _ _ => 0 <= amount /\ 0 <= period /\ 0 <= start
  | _ => True
  end.

Lemma cl_true : forall b n, b = true -> cl b n = []. Proof. intros b n ->. reflexivity. Qed.

Lemma view_of_aset_other : forall k d d' v now pr ps ys n ubis,
  d' <> d -> d' <> native \/ n = k_native k ->
  view_of (mkCst now pr ps ys n ubis (aset d v (k_toks k))) d' = view_of k d'.
Proof.
  intros k d d' v now pr ps ys n ubis Hne Hn. unfold view_of. cbn [k_toks k_native].
  rewrite aget_aset_other by assumption.
  destruct (d' =? native) eqn:E; [|reflexivity]. destruct Hn as [Hn|Hn]; [lia|]. rewrite Hn. reflexivity.
Qed.

Lemma view_of_aset_same : forall toks d v now pr ps ys n ubis,
  view_of (mkCst now pr ps ys n ubis (aset d v toks)) d = if d =? native then mkTview (v_tok v) n (v_bound v) else v.
Proof. intros. unfold view_of. cbn [k_toks k_native]. rewrite aget_aset_same. reflexivity. Qed.

Lemma view_ok_ext : forall k k' s s' d, k_toks k' = k_toks k -> k_native k' = k_native k ->
  s_reg s' = s_reg s -> s_bank s' = s_bank s -> view_ok k s d -> view_ok k' s' d.
Proof.
  intros k k' s s' d Ht Hn Hr Hb. unfold view_ok, view_of, supply_of. rewrite Ht, Hn, Hr, Hb. auto.
Qed.

Lemma rel_intro : forall k s, k_now k = s_now s -> k_params k = s_params s -> k_psnap k = s_psnap s -> k_ysnap k = s_ysnap s ->
  k_native k = nat_supply s -> k_ubis k = s_ubis s -> (forall d, view_ok k s d) -> rel k s.
Proof. intros. unfold rel. tauto. Qed.

Ltac close_rel R7 :=
  apply rel_intro; cbn; try assumption; try congruence;
  try (let d := fresh "d" in intros d; eapply view_ok_ext; try apply R7; try reflexivity; cbn; unfold nat_supply, supply_of in *; cbn; lia).

Section Sound.
Variable cf : config.
Hypothesis Hcf : all_repaired cf.

Definition step_sound (k : cst) (s : st) (o : op) : Prop :=
  let '(s', ob) := model_obs cf s o in
  fst (check_step k o ob) = [] /\ rel (snd (check_step k o ob)) s'.

(* ---------------------------------------------------------------- parameters, hard cap, fee flow *)
Lemma sound_params : forall k s rate period maxann, rel k s -> step_sound k s (OParams rate period maxann).
Proof.
  intros k s rate period maxann (R1 & R2 & R3 & R4 & R5 & R6 & R7). unfold step_sound, model_obs, step_total. cbn [step res_of fst snd check_step].
  split.
  - apply cl_true. unfold chk_origin. cbn. unfold nat_supply, supply_of in *. cbn. lia.
  - cbn [Z.eqb]. apply rel_intro; cbn; try assumption; try congruence.
    intros d. eapply view_ok_ext; try apply R7; try reflexivity. cbn. unfold nat_supply, supply_of in *. cbn. lia.
Qed.
Lemma sound_hardcap : forall k s v, rel k s -> step_sound k s (OHardcap v).
Proof.
  intros k s v (R1 & R2 & R3 & R4 & R5 & R6 & R7). unfold step_sound, model_obs, step_total. cbn [step res_of fst snd check_step].
  split.
  - apply cl_true. unfold chk_origin. cbn. unfold nat_supply, supply_of in *. cbn. lia.
  - cbn [Z.eqb]. apply rel_intro; cbn; try assumption; try congruence.
    intros d. eapply view_ok_ext; try apply R7; try reflexivity. cbn. unfold nat_supply, supply_of in *. cbn. lia.
Qed.
Lemma debit_keeps : forall s a d amt s', debit s a d amt = Ok s' ->
  s_now s' = s_now s /\ s_params s' = s_params s /\ s_psnap s' = s_psnap s /\ s_ysnap s' = s_ysnap s
  /\ s_bank s' = s_bank s /\ s_ubis s' = s_ubis s /\ s_reg s' = s_reg s /\ s_pools s' = s_pools s.
Proof. intros s a d amt s'. unfold debit. destruct (_ <? _); [discriminate|]. intros H; inversion H; subst. cbn. tauto. Qed.
Lemma rel_unchanged : forall k s n, rel k s -> n = nat_supply s -> rel (with_native k n) s.
Proof.
  intros k s n (R1 & R2 & R3 & R4 & R5 & R6 & R7) ->. apply rel_intro; cbn; try assumption; try reflexivity.
  intros d. eapply view_ok_ext; try apply R7; reflexivity || (cbn; lia).
Qed.
Lemma sound_fee : forall k s actor amt, rel k s -> step_sound k s (OFee actor amt).
Proof.
  intros k s actor amt R. pose proof R as (R1 & R2 & R3 & R4 & R5 & R6 & R7).
  unfold step_sound, model_obs, step_total. cbn [step fst snd check_step].
  destruct (debit s actor native amt) as [s'| |] eqn:ED.
  - destruct (debit_keeps _ _ _ _ _ ED) as (E1 & E2 & E3 & E4 & E5 & E6 & E7 & _).
    assert (En : nat_supply s' = nat_supply s) by (unfold nat_supply, supply_of; rewrite E5; reflexivity).
    split; [apply cl_true; unfold chk_origin; lia|].
    apply rel_intro; cbn; try congruence.
    intros d. eapply view_ok_ext; try apply R7; try reflexivity; try assumption. cbn. lia.
  - split; [apply cl_true; unfold chk_origin; lia|]. apply rel_unchanged; [exact R|reflexivity].
  - split; [apply cl_true; unfold chk_origin; lia|]. apply rel_unchanged; [exact R|reflexivity].
Qed.

(* ---------------------------------------------------------------- UBI proposals *)
Lemma ubi_insert_in : forall u l, In u (ubi_insert u l).
Proof.
  intros u l. induction l as [|v r IH]; cbn [ubi_insert]; [left; reflexivity|].
  destruct (u_name v =? u_name u); [left; reflexivity|]. destruct (u_name u <? u_name v); [left; reflexivity|right; exact IH].
Qed.
Lemma ubi_insert_from : forall u l x, In x (ubi_insert u l) -> x = u \/ In x l.
Proof.
  intros u l. induction l as [|v r IH]; cbn [ubi_insert]; intros x H.
  - destruct H as [H|[]]; auto.
  - destruct (u_name v =? u_name u).
    + destruct H as [H|H]; [auto|right; right; exact H].
    + destruct (u_name u <? u_name v).
      * destruct H as [H|H]; [auto|right; exact H].
      * destruct H as [H|H]; [right; left; exact H|]. destruct (IH _ H); [auto|right; right; assumption].
Qed.
Lemma names_sorted_lower : forall l u, names_sorted (u :: l) -> forall x, In x l -> u_name u < u_name x.
Proof.
  induction l as [|v r IH]; intros u Hs x Hx; [destruct Hx|].
  cbn [names_sorted] in Hs. destruct Hs as (Huv & Hs). destruct Hx as [->|Hx]; [exact Huv|].
  pose proof (IH v Hs x Hx). lia.
Qed.
Lemma ubi_remove_spec : forall name l l', ubi_remove name l = Some l' -> names_sorted l ->
  forall x, In x l' -> u_name x <> name /\ In x l.
Proof.
  intros name. induction l as [|v r IH]; cbn [ubi_remove]; intros l' H Hs x Hx; [discriminate|].
  destruct (u_name v =? name) eqn:E.
  - inversion H; subst l'. split; [|right; exact Hx]. pose proof (names_sorted_lower _ _ Hs x Hx). lia.
  - destruct (ubi_remove name r) as [r'|] eqn:ER; [|discriminate]. inversion H; subst l'.
    assert (Hs' : names_sorted r) by (cbn [names_sorted] in Hs; tauto).
    destruct Hx as [->|Hx]; [split; [lia|left; reflexivity]|].
    destruct (IH r' eq_refl Hs' x Hx). split; [assumption|right; assumption].
Qed.

Lemma forall_dom : forall l, Forall (fun u => 0 <= u_amount u /\ 0 <= u_last u /\ 0 <= u_period u) l -> Forall ubi_dom l.
Proof. intros l H. eapply Forall_impl; [|exact H]. intros u (A & _ & P). split; assumption. Qed.

Lemma sound_ubi_upsert : forall k s name amount period start end_ pool, rel k s -> inv s ->
  step_sound k s (OUbiUpsert name amount period start end_ pool).
Proof.
  intros k s name amount period start end_ pool R I. pose proof R as (R1 & R2 & R3 & R4 & R5 & R6 & R7).
  destruct I as (_ & _ & _ & _ & _ & _ & _ & _ & Idom & _). destruct Hcf as (_ & Hex & _).
  unfold step_sound, model_obs, step_total. cbn [step fst snd check_step].
  destruct (ubi_upsert cf s name amount period start end_ pool) as [s'| |] eqn:EU; cbn [res_of Z.eqb].
  - pose proof (ubi_upsert_shape _ _ _ _ _ _ _ _ _ EU) as Es.
    destruct (ubi_within_hardcap_exact_lemma _ _ _ _ _ _ _ _ _ Hex (forall_dom _ Idom) EU) as (Hc & Hh & _).
    assert (En : nat_supply s' = nat_supply s) by (subst s'; reflexivity).
    split.
    + rewrite (cl_true (chk_origin _ _)) by (unfold chk_origin; lia). cbn [app].
      rewrite (cl_true (_ <=? _)) by (rewrite R2; lia). cbn [app].
      apply cl_true. apply andb_true_intro. split.
      * apply existsb_exists. eexists. split; [subst s'; cbn [s_ubis set_ubis]; apply ubi_insert_in|apply ubi_eqb_refl].
      * apply forallb_forall. intros x Hx. subst s'. cbn [s_ubis set_ubis] in Hx.
        destruct (ubi_insert_from _ _ _ Hx) as [->|Hin]; [cbn; lia|]. rewrite R6, (existsb_ubi_in _ _ Hin). lia.
    + subst s'. close_rel R7.
  - split.
    + rewrite (cl_true (chk_origin _ _)) by (unfold chk_origin; lia). cbn [app].
      apply cl_true. rewrite R6. apply list_eqb_refl, ubi_eqb_refl.
    + close_rel R7.
  - split.
    + rewrite (cl_true (chk_origin _ _)) by (unfold chk_origin; lia). cbn [app].
      apply cl_true. rewrite R6. apply list_eqb_refl, ubi_eqb_refl.
    + close_rel R7.
Qed.

Lemma sound_ubi_remove : forall k s name, rel k s -> inv s -> step_sound k s (OUbiRemove name).
Proof.
  intros k s name R I. pose proof R as (R1 & R2 & R3 & R4 & R5 & R6 & R7).
  destruct I as (_ & _ & _ & _ & _ & _ & _ & _ & _ & Isort).
  unfold step_sound, model_obs, step_total. cbn [step fst snd check_step]. unfold ubi_delete.
  destruct (ubi_remove name (s_ubis s)) as [l'|] eqn:ER; cbn [res_of Z.eqb].
  - split.
    + rewrite (cl_true (chk_origin _ _)) by (unfold chk_origin; cbn; unfold nat_supply, supply_of in *; cbn; lia). cbn [app].
      apply cl_true. apply forallb_forall. intros x Hx. cbn [s_ubis set_ubis] in Hx.
      destruct (ubi_remove_spec _ _ _ ER Isort x Hx) as (Hn & Hin). rewrite R6, (existsb_ubi_in _ _ Hin). lia.
    + close_rel R7.
  - split.
    + rewrite (cl_true (chk_origin _ _)) by (unfold chk_origin; lia). cbn [app].
      apply cl_true. rewrite R6. apply list_eqb_refl, ubi_eqb_refl.
    + close_rel R7.
Qed.

(* ---------------------------------------------------------------- token operations: shapes *)
Definition same_frame (s s' : st) : Prop :=
  s_now s' = s_now s /\ s_params s' = s_params s /\ s_psnap s' = s_psnap s /\ s_ysnap s' = s_ysnap s
  /\ s_ubis s' = s_ubis s /\ s_pools s' = s_pools s.
Definition touch_only (d : Z) (s s' : st) : Prop :=
  forall d', d' <> d -> aget d' (s_reg s') = aget d' (s_reg s) /\ supply_of s' d' = supply_of s d'.

Lemma reg_upsert_shape : forall reg d t reg', reg_upsert reg d t = Ok reg' -> reg' = aset d t reg.
Proof.
  intros reg d t reg'. unfold reg_upsert. destruct (_ && _); [discriminate|]. destruct (_ <? _); [discriminate|].
  intros H; inversion H; reflexivity.
Qed.
Lemma credit_frame : forall s a d amt, same_frame s (credit s a d amt) /\ s_reg (credit s a d amt) = s_reg s /\ s_bank (credit s a d amt) = s_bank s.
Proof. intros. unfold credit, same_frame. destruct (a =? 0); cbn; tauto. Qed.
Lemma debit_frame : forall s a d amt s', debit s a d amt = Ok s' -> same_frame s s' /\ s_reg s' = s_reg s /\ s_bank s' = s_bank s.
Proof. intros s a d amt s' H. destruct (debit_keeps _ _ _ _ _ H) as (A & B & C & D & E & F & G & P). unfold same_frame. tauto. Qed.
Lemma same_frame_trans : forall a b c, same_frame a b -> same_frame b c -> same_frame a c.
Proof. unfold same_frame. intros a b c H1 H2. intuition congruence. Qed.

Lemma reg_mint_shape : forall s d amt s', reg_mint s d amt = Ok s' ->
  same_frame s s' /\ 0 < amt /\ s_bank s' = zadd d amt (s_bank s) /\
  s_reg s' = aset d (with_supply (match aget d (s_reg s) with Some t => t | None => default_tok end)
                                 (t_supply (match aget d (s_reg s) with Some t => t | None => default_tok end) + amt)) (s_reg s).
Proof.
  intros s d amt s'. unfold reg_mint.
  destruct (reg_upsert _ _ _) as [reg'| |] eqn:ER; cbn [bind]; try discriminate.
  destruct (amt <=? 0) eqn:E; [discriminate|]. intros H; inversion H; subst s'.
  apply reg_upsert_shape in ER. subst reg'. unfold same_frame. cbn. repeat split; lia.
Qed.
Lemma reg_burn_shape : forall s d amt s', reg_burn s d amt = Ok s' ->
  exists t, aget d (s_reg s) = Some t /\ same_frame s s' /\ 0 < amt /\ s_bank s' = zadd d (- amt) (s_bank s) /\
  s_reg s' = aset d (with_supply t (t_supply t - amt)) (s_reg s).
Proof.
  intros s d amt s'. unfold reg_burn. destruct (aget d (s_reg s)) as [t|]; [|discriminate].
  destruct (reg_upsert _ _ _) as [reg'| |] eqn:ER; cbn [bind]; try discriminate.
  destruct (amt <=? 0) eqn:E; [discriminate|]. intros H; inversion H; subst s'.
  apply reg_upsert_shape in ER. subst reg'. exists t. unfold same_frame. cbn. repeat split; lia.
Qed.

Lemma mint_issue_shape : forall s actor d amt s', mint_issue cf s actor d amt = Ok s' ->
  exists t, aget d (s_reg s) = Some t /\ same_frame s s' /\ 0 < amt /\ s_bank s' = zadd d amt (s_bank s) /\
  s_reg s' = aset d (with_supply t (t_supply t + amt)) (s_reg s) /\ d <> native.
Proof.
  intros s actor d amt s'. unfold mint_issue. destruct Hcf as (_ & _ & _ & _ & Hnat). rewrite Hnat. cbn [andb].
  destruct (d =? native) eqn:Ed; [discriminate|].
  destruct (aget d (s_reg s)) as [t|] eqn:Et; [|discriminate].
  match goal with |- (do s1 <- ?X; _) = _ -> _ => destruct X as [s1| |] eqn:E1 end; cbn [bind]; try discriminate.
  assert (S1 : same_frame s s1 /\ s_reg s1 = s_reg s /\ s_bank s1 = s_bank s).
  { destruct (t_owner t =? actor); [inversion E1; subst; unfold same_frame; tauto|].
    destruct (dmul_int (t_fee t) amt) as [f| |]; cbn [bind] in E1; try discriminate.
    destruct (trunc_int f <? 0); [discriminate|]. destruct (0 <? trunc_int f); [|discriminate].
    destruct (debit s actor native (trunc_int f)) as [s0| |] eqn:ED; cbn [bind] in E1; try discriminate.
    inversion E1; subst s1. destruct (debit_frame _ _ _ _ _ ED) as (A & B & C).
    destruct (credit_frame s0 (t_owner t) native (trunc_int f)) as (A' & B' & C').
    split; [eapply same_frame_trans; eassumption|split; congruence]. }
  destruct S1 as (F1 & R1 & B1).
  destruct (amt <? 0); [discriminate|].
  destruct (reg_mint s1 d amt) as [s2| |] eqn:EM; cbn [bind]; try discriminate.
  intros H; inversion H; subst s'; clear H.
  destruct (reg_mint_shape _ _ _ _ EM) as (F2 & P & B2 & R2).
  destruct (credit_frame s2 actor d amt) as (F3 & R3 & B3).
  exists t. split; [reflexivity|]. split; [eapply same_frame_trans; [exact F1|eapply same_frame_trans; eassumption]|].
  split; [exact P|]. split; [congruence|]. split; [|lia].
  rewrite R3, R2, R1, Et. reflexivity.
Qed.

Lemma mint_burn_shape : forall s actor d amt s', mint_burn s actor d amt = Ok s' ->
  exists t, aget d (s_reg s) = Some t /\ same_frame s s' /\ 0 < amt /\ s_bank s' = zadd d (- amt) (s_bank s) /\
  s_reg s' = aset d (with_supply t (t_supply t - amt)) (s_reg s).
Proof.
  intros s actor d amt s'. unfold mint_burn. destruct (aget d (s_reg s)) as [t0|] eqn:Et; [|discriminate].
  destruct (amt <? 0); [discriminate|]. destruct (amt =? 0); [discriminate|].
  destruct (debit s actor d amt) as [s1| |] eqn:ED; cbn [bind]; try discriminate.
  destruct (debit_frame _ _ _ _ _ ED) as (F1 & R1 & B1). intros H.
  destruct (reg_burn_shape _ _ _ _ H) as (t & Ht & F2 & P & B2 & R2). rewrite R1 in Ht.
  exists t. split; [congruence|]. split; [eapply same_frame_trans; eassumption|]. split; [exact P|]. split; congruence.
Qed.

Lemma upsert_msg_shape : forall s actor perm d supply cap owner noedit fee sc s',
  upsert_msg cf s actor perm d supply cap owner noedit fee sc = Ok s' ->
  exists t', same_frame s s' /\ s_bank s' = s_bank s /\ s_reg s' = aset d t' (s_reg s).
Proof.
  intros s actor perm d supply cap owner noedit fee sc s'. unfold upsert_msg.
  destruct (d =? native); [discriminate|]. destruct (fee <=? 0); [discriminate|].
  destruct (sc <? 0); [discriminate|]. destruct (PREC <? sc); [discriminate|].
  destruct (aget d (s_reg s)) as [t|].
  - destruct (_ || _); [discriminate|]. destruct (_ && _); [discriminate|].
    destruct (reg_upsert _ _ _) as [reg'| |] eqn:ER; cbn [bind]; try discriminate.
    intros H; inversion H; subst s'. apply reg_upsert_shape in ER. subst reg'. eexists. unfold same_frame. cbn. repeat split.
  - destruct (negb perm); [discriminate|].
    destruct (reg_upsert _ _ _) as [reg'| |] eqn:ER; cbn [bind]; try discriminate.
    intros H; inversion H; subst s'. apply reg_upsert_shape in ER. subst reg'. eexists. unfold same_frame. cbn. repeat split.
Qed.
Lemma prop_upsert_shape : forall s d supply cap owner noedit fee sc s',
  prop_upsert s d supply cap owner noedit fee sc = Ok s' ->
  exists t', same_frame s s' /\ s_bank s' = s_bank s /\ s_reg s' = aset d t' (s_reg s).
Proof.
  intros s d supply cap owner noedit fee sc s'. unfold prop_upsert.
  destruct (reg_upsert _ _ _) as [reg'| |] eqn:ER; cbn [bind]; try discriminate.
  intros H; inversion H; subst s'. apply reg_upsert_shape in ER. subst reg'. eexists. unfold same_frame. cbn. repeat split.
Qed.

(* ---------------------------------------------------------------- the checker's bound on past caps *)
Definition bound_next (t : option tok) (b : Z) : Z :=
  match t with
  | Some x => if 0 <? t_cap x then (if 0 <? b then Z.min b (t_cap x) else t_cap x) else b
  | None => b end.
Lemma bound_next_ok : forall x b, (0 < b -> 0 < t_cap x <= b) ->
  0 < bound_next (Some x) b -> 0 < t_cap x <= bound_next (Some x) b.
Proof. intros x b H. unfold bound_next. destruct (0 <? t_cap x) eqn:E1; destruct (0 <? b) eqn:E2; lia. Qed.

(* the next checker state of a token operation on [d] agrees with the next model state *)
Lemma rel_token_update : forall k s s' d b',
  rel k s -> same_frame s s' -> touch_only d s s' ->
  (0 < b' -> exists t, aget d (s_reg s') = Some t /\ 0 < t_cap t <= b') ->
  rel (mkCst (k_now k) (k_params k) (k_psnap k) (k_ysnap k) (nat_supply s') (k_ubis k)
             (aset d (mkTview (aget d (s_reg s')) (supply_of s' d) b') (k_toks k))) s'.
Proof.
  intros k s s' d b' (R1 & R2 & R3 & R4 & R5 & R6 & R7) (F1 & F2 & F3 & F4 & F5 & F6) T Hb.
  apply rel_intro; cbn [k_now k_params k_psnap k_ysnap k_native k_ubis]; try congruence.
  intros d'. destruct (Z.eq_dec d' d) as [E|E].
  - subst d'. unfold view_ok, view_of. cbn [k_toks k_native]. rewrite aget_aset_same.
    destruct (d =? native) eqn:En; cbn [v_tok v_bank v_bound]; (split; [reflexivity|split; [|exact Hb]]); [|reflexivity].
    assert (d = native) by lia. subst d. reflexivity.
  - destruct (T d' E) as (Tr & Ts).
    assert (Hn : d' <> native \/ nat_supply s' = k_native k).
    { destruct (Z.eq_dec d' native) as [En|En]; [right|left; exact En]. subst d'. unfold nat_supply. rewrite Ts. exact (eq_sym R5). }
    unfold view_ok. rewrite (view_of_aset_other k d d' _ _ _ _ _ _ _ E Hn).
    destruct (R7 d') as (V1 & V2 & V3). rewrite Tr, Ts. split; [exact V1|split; [exact V2|exact V3]].
Qed.

Lemma touch_only_aset : forall d s s' t', s_reg s' = aset d t' (s_reg s) ->
  (forall d', d' <> d -> supply_of s' d' = supply_of s d') -> touch_only d s s'.
Proof. intros d s s' t' Hr Hb d' Hne. split; [rewrite Hr; apply aget_aset_other; exact Hne|apply Hb; exact Hne]. Qed.

Lemma bound_cond : forall (told tnew : option tok) b,
  (0 < b -> exists t, told = Some t /\ 0 < t_cap t <= b) ->
  (forall x t, tnew = Some x -> told = Some t -> 0 < t_cap t -> 0 < t_cap x <= t_cap t) ->
  (tnew = None -> told = None) ->
  0 < bound_next tnew b -> exists x, tnew = Some x /\ 0 < t_cap x <= bound_next tnew b.
Proof.
  intros told tnew b Hb Hcap Hnone Hpos. destruct tnew as [x|].
  - exists x. split; [reflexivity|]. apply bound_next_ok; [|exact Hpos].
    intros Hb0. destruct (Hb Hb0) as (t & Et & Ht). pose proof (Hcap x t eq_refl Et ltac:(lia)). lia.
  - cbn in Hpos. destruct (Hb Hpos) as (t & Et & _). rewrite (Hnone eq_refl) in Et. discriminate.
Qed.

(* common tail of every accepted token operation: the two cap clauses and the next checker state *)
Lemma token_tail : forall k s s' d rs,
  rel k s -> cap_ok (s_reg s') -> same_frame s s' -> touch_only d s s' ->
  (forall x t, aget d (s_reg s') = Some x -> aget d (s_reg s) = Some t -> 0 < t_cap t -> 0 < t_cap x <= t_cap t) ->
  (aget d (s_reg s') = None -> aget d (s_reg s) = None) ->
  let t' := aget d (s_reg s') in
  let b' := bound_next t' (v_bound (view_of k d)) in
  cl (match t' with Some x => if 0 <? t_cap x then t_supply x <=? t_cap x else true | None => true end) "cap"
  ++ cl (if (0 <? b') && (rs <? reg_supply_of t') then reg_supply_of t' <=? b' else true) "cap_hist" = []
  /\ rel (mkCst (k_now k) (k_params k) (k_psnap k) (k_ysnap k) (nat_supply s') (k_ubis k)
                (aset d (mkTview t' (supply_of s' d) b') (k_toks k))) s'.
Proof.
  intros k s s' d rs R Hc F T Hcap Hnone t' b'. pose proof R as (_ & _ & _ & _ & _ & _ & R7).
  destruct (R7 d) as (V1 & V2 & V3).
  assert (HB : 0 < b' -> exists x, t' = Some x /\ 0 < t_cap x <= b').
  { apply bound_cond with (told := aget d (s_reg s)); [exact V3|exact Hcap|exact Hnone]. }
  split; [|apply rel_token_update with (s := s); assumption].
  rewrite cl_true.
  - cbn [app]. apply cl_true. destruct ((0 <? b') && (rs <? reg_supply_of t')) eqn:E; [|reflexivity].
    destruct (HB ltac:(lia)) as (x & Ex & Hx). rewrite Ex. cbn [reg_supply_of]. unfold t' in Ex. pose proof (Hc d x Ex ltac:(lia)). lia.
  - destruct t' as [x|] eqn:Ex; [|reflexivity]. destruct (0 <? t_cap x) eqn:E; [|reflexivity].
    pose proof (Hc d x Ex ltac:(lia)). lia.
Qed.

(* a rejected or panicking token operation: nothing changed, the reject clause holds *)
Lemma token_reject : forall k s d, rel k s ->
  let v := view_of k d in
  cl (otok_eqb (aget d (s_reg s)) (v_tok v) && (supply_of s d =? v_bank v)) "reject" = []
  /\ rel (mkCst (k_now k) (k_params k) (k_psnap k) (k_ysnap k) (nat_supply s) (k_ubis k)
                (aset d (mkTview (aget d (s_reg s)) (supply_of s d) (bound_next (aget d (s_reg s)) (v_bound v))) (k_toks k))) s.
Proof.
  intros k s d R v. pose proof R as (_ & _ & _ & _ & _ & _ & R7). destruct (R7 d) as (V1 & V2 & V3). fold v in V1, V2, V3.
  split.
  - apply cl_true. rewrite V1, V2, otok_eqb_refl. lia.
  - apply rel_token_update with (s := s); try assumption.
    + unfold same_frame. tauto.
    + intros d' _. split; reflexivity.
    + intros Hp. apply bound_cond with (told := aget d (s_reg s)); try assumption; [|tauto].
      intros x t E1 E2 Ht. rewrite E1 in E2. inversion E2; subst. lia.
Qed.

Lemma step_ok_cap : forall s o s', inv s -> step cf s o = Ok s' -> cap_ok (s_reg s').
Proof. intros s o s' I H. eapply step_cap_ok; [exact H|apply I]. Qed.

Lemma zget_zadd : forall d d' x l, zget d' (zadd d x l) = if d' =? d then zget d l + x else zget d' l.
Proof.
  intros d d' x l. destruct (d' =? d) eqn:E.
  - assert (d' = d) by lia. subst. apply zget_zadd_same.
  - apply zget_zadd_other. lia.
Qed.

Lemma sound_mint_issue : forall k s actor d amt, rel k s -> inv s -> step_sound k s (OMintIssue actor d amt).
Proof.
  intros k s actor d amt R I. pose proof R as (R1 & R2 & R3 & R4 & R5 & R6 & R7). destruct (R7 d) as (V1 & V2 & V3).
  unfold step_sound, model_obs, step_total. cbn [step op_denom].
  destruct (mint_issue cf s actor d amt) as [s'| |] eqn:E; cbn [res_of fst snd check_step Z.eqb negb].
  - destruct (mint_issue_shape _ _ _ _ _ E) as (t & Et & F & P & B & Rg & Hn).
    assert (Hc : cap_ok (s_reg s')) by (eapply (step_ok_cap s (OMintIssue actor d amt)); [exact I|exact E]).
    assert (Ed : aget d (s_reg s') = Some (with_supply t (t_supply t + amt))) by (rewrite Rg; apply aget_aset_same).
    assert (Es : supply_of s' d = supply_of s d + amt) by (unfold supply_of; rewrite B; apply zget_zadd_same).
    assert (En : nat_supply s' = nat_supply s) by (unfold nat_supply, supply_of; rewrite B; apply zget_zadd_other; lia).
    assert (T : touch_only d s s').
    { eapply touch_only_aset; [exact Rg|]. intros d' Hd. unfold supply_of. rewrite B. apply zget_zadd_other. exact Hd. }
    destruct (token_tail k s s' d (reg_supply_of (v_tok (view_of k d))) R Hc F T) as (T1 & T2).
    { intros x t0 E1 E2 Hp. rewrite Ed in E1. rewrite Et in E2. inversion E1; inversion E2; subst. cbn. lia. }
    { rewrite Ed. discriminate. }
    split; [|exact T2].
    rewrite (cl_true (chk_origin _ _)) by (unfold chk_origin; lia). cbn [app].
    rewrite cl_true; [exact T1|].
    rewrite V1, V2, Et, Ed, Es. cbn [reg_supply_of t_supply with_supply]. lia.
  - destruct (token_reject k s d R) as (T1 & T2). split; [|exact T2].
    rewrite (cl_true (chk_origin _ _)) by (unfold chk_origin; lia). cbn [app]. rewrite T1. reflexivity.
  - destruct (token_reject k s d R) as (T1 & T2). split; [|exact T2].
    rewrite (cl_true (chk_origin _ _)) by (unfold chk_origin; lia). cbn [app]. rewrite T1. reflexivity.
Qed.

Lemma aset_aset_same : forall A k (v w : A) l, aset k v (aset k w l) = aset k v l.
Proof.
  induction l as [|[k0 v0] l IH]; cbn [aset].
  - rewrite Z.eqb_refl. reflexivity.
  - destruct (k0 =? k) eqn:E; cbn [aset]; rewrite ?Z.eqb_refl, ?E; [reflexivity|rewrite IH; reflexivity].
Qed.

(* two MsgMintIssueTx in one transaction: the cap clauses see the SUM *)
Lemma sound_mint_issue2 : forall k s actor d a1 a2, rel k s -> inv s -> step_sound k s (OMintIssue2 actor d a1 a2).
Proof.
  intros k s actor d a1 a2 R I. pose proof R as (R1 & R2 & R3 & R4 & R5 & R6 & R7). destruct (R7 d) as (V1 & V2 & V3).
  unfold step_sound, model_obs, step_total. cbn [step op_denom].
  destruct (do s1 <- mint_issue cf s actor d a1; mint_issue cf s1 actor d a2) as [s'| |] eqn:E; cbn [res_of fst snd check_step Z.eqb negb].
  - assert (Hc : cap_ok (s_reg s')) by (eapply (step_ok_cap s (OMintIssue2 actor d a1 a2)); [exact I|exact E]).
    destruct (mint_issue cf s actor d a1) as [s1| |] eqn:E1; cbn [bind] in E; try discriminate.
    destruct (mint_issue_shape _ _ _ _ _ E1) as (t & Et & F1 & P1 & B1 & Rg1 & Hn).
    destruct (mint_issue_shape _ _ _ _ _ E) as (t1 & Et1 & F2 & P2 & B2 & Rg2 & _).
    rewrite Rg1, aget_aset_same in Et1. inversion Et1; subst t1; clear Et1.
    assert (Rg : s_reg s' = aset d (with_supply t (t_supply t + a1 + a2)) (s_reg s)).
    { rewrite Rg2, Rg1, aset_aset_same. cbn [t_supply with_supply]. reflexivity. }
    assert (F : same_frame s s') by (eapply same_frame_trans; eassumption).
    assert (Ed : aget d (s_reg s') = Some (with_supply t (t_supply t + a1 + a2))) by (rewrite Rg; apply aget_aset_same).
    assert (Es : supply_of s' d = supply_of s d + a1 + a2) by (unfold supply_of; rewrite B2, B1, !zget_zadd_same; lia).
    assert (En : nat_supply s' = nat_supply s) by (unfold nat_supply, supply_of; rewrite B2, B1, !zget_zadd_other by lia; reflexivity).
    assert (T : touch_only d s s').
    { eapply touch_only_aset; [exact Rg|]. intros d' Hd. unfold supply_of. rewrite B2, B1, !zget_zadd_other by exact Hd. reflexivity. }
    destruct (token_tail k s s' d (reg_supply_of (v_tok (view_of k d))) R Hc F T) as (T1 & T2).
    { intros x t0 E1' E2' Hp. rewrite Ed in E1'. rewrite Et in E2'. inversion E1'; inversion E2'; subst. cbn. lia. }
    { rewrite Ed. discriminate. }
    split; [|exact T2].
    rewrite (cl_true (chk_origin _ _)) by (unfold chk_origin; lia). cbn [app].
    rewrite cl_true; [exact T1|].
    rewrite V1, V2, Et, Ed, Es. cbn [reg_supply_of t_supply with_supply]. lia.
  - destruct (token_reject k s d R) as (T1 & T2). split; [|exact T2].
    rewrite (cl_true (chk_origin _ _)) by (unfold chk_origin; lia). cbn [app]. rewrite T1. reflexivity.
  - destruct (token_reject k s d R) as (T1 & T2). split; [|exact T2].
    rewrite (cl_true (chk_origin _ _)) by (unfold chk_origin; lia). cbn [app]. rewrite T1. reflexivity.
Qed.

Lemma sound_burn : forall k s actor d amt, rel k s -> inv s -> step_sound k s (OBurn actor d amt).
Proof.
  intros k s actor d amt R I. pose proof R as (R1 & R2 & R3 & R4 & R5 & R6 & R7). destruct (R7 d) as (V1 & V2 & V3).
  unfold step_sound, model_obs, step_total. cbn [step op_denom].
  destruct (mint_burn s actor d amt) as [s'| |] eqn:E; cbn [res_of fst snd check_step Z.eqb negb].
  - destruct (mint_burn_shape _ _ _ _ _ E) as (t & Et & F & P & B & Rg).
    assert (Hc : cap_ok (s_reg s')) by (eapply (step_ok_cap s (OBurn actor d amt)); [exact I|exact E]).
    assert (Ed : aget d (s_reg s') = Some (with_supply t (t_supply t - amt))) by (rewrite Rg; apply aget_aset_same).
    assert (Es : supply_of s' d = supply_of s d - amt) by (unfold supply_of; rewrite B, zget_zadd_same; lia).
    assert (En : nat_supply s' <= nat_supply s).
    { unfold nat_supply, supply_of. rewrite B, zget_zadd. destruct (native =? d) eqn:Q; [|lia]. assert (Q' : d = native) by lia. rewrite Q'. lia. }
    assert (T : touch_only d s s').
    { eapply touch_only_aset; [exact Rg|]. intros d' Hd. unfold supply_of. rewrite B. apply zget_zadd_other. exact Hd. }
    destruct (token_tail k s s' d (reg_supply_of (v_tok (view_of k d))) R Hc F T) as (T1 & T2).
    { intros x t0 E1 E2 Hp. rewrite Ed in E1. rewrite Et in E2. inversion E1; inversion E2; subst. cbn. lia. }
    { rewrite Ed. discriminate. }
    split; [|exact T2].
    rewrite (cl_true (chk_origin _ _)) by (unfold chk_origin; lia). cbn [app].
    rewrite cl_true; [exact T1|].
    rewrite V1, V2, Et, Ed, Es. cbn [reg_supply_of t_supply with_supply]. lia.
  - destruct (token_reject k s d R) as (T1 & T2). split; [|exact T2].
    rewrite (cl_true (chk_origin _ _)) by (unfold chk_origin; lia). cbn [app]. rewrite T1. reflexivity.
  - destruct (token_reject k s d R) as (T1 & T2). split; [|exact T2].
    rewrite (cl_true (chk_origin _ _)) by (unfold chk_origin; lia). cbn [app]. rewrite T1. reflexivity.
Qed.

Lemma sound_upsert_msg : forall k s actor perm d supply cap owner noedit fee sc, rel k s -> inv s ->
  step_sound k s (OUpsertMsg actor perm d supply cap owner noedit fee sc).
Proof.
  intros k s actor perm d supply cap owner noedit fee sc R I. pose proof R as (R1 & R2 & R3 & R4 & R5 & R6 & R7). destruct (R7 d) as (V1 & V2 & V3).
  destruct Hcf as (Hstrict & _).
  unfold step_sound, model_obs, step_total. cbn [step op_denom].
  destruct (upsert_msg cf s actor perm d supply cap owner noedit fee sc) as [s'| |] eqn:E; cbn [res_of fst snd check_step Z.eqb negb].
  - destruct (upsert_msg_shape _ _ _ _ _ _ _ _ _ _ _ E) as (tn & F & B & Rg).
    assert (Hc : cap_ok (s_reg s')) by (eapply (step_ok_cap s (OUpsertMsg actor perm d supply cap owner noedit fee sc)); [exact I|exact E]).
    assert (Es : supply_of s' d = supply_of s d) by (unfold supply_of; rewrite B; reflexivity).
    assert (En : nat_supply s' = nat_supply s) by (unfold nat_supply, supply_of; rewrite B; reflexivity).
    assert (T : touch_only d s s').
    { eapply touch_only_aset; [exact Rg|]. intros d' Hd. unfold supply_of. rewrite B. reflexivity. }
    destruct (aget d (s_reg s)) as [t|] eqn:Et.
    + destruct (upsert_msg_existing _ _ _ _ _ _ _ _ _ _ _ _ _ E Et) as (Ha & Hne & Hcap & Ed & _).
      destruct (token_tail k s s' d (reg_supply_of (v_tok (view_of k d))) R Hc F T) as (T1 & T2).
      { intros x t0 E1 E2 Hp. assert (Q : t0 = t) by congruence. subst t0. rewrite Ed in E1. inversion E1; subst x. cbn [t_cap].
        assert (Hnz : t_cap t <> 0) by lia. destruct (Hcap Hnz) as (A1 & A2 & A3). specialize (A3 Hstrict). lia. }
      { rewrite Ed. discriminate. }
      split; [|exact T2]. rewrite V1 in T1.
      rewrite (cl_true (chk_origin _ _)) by (unfold chk_origin; lia). cbn [app].
      rewrite V1. cbn [app].
      rewrite cl_true by (rewrite V2, Ed, Es; cbn [reg_supply_of t_supply]; lia). cbn [app].
      rewrite cl_true by (rewrite Ha, Hne; cbn; lia). cbn [app].
      rewrite cl_true; [exact T1|].
      destruct (0 <? t_cap t) eqn:Ep; [|reflexivity]. rewrite Ed. cbn [t_cap].
      assert (Hnz : t_cap t <> 0) by lia. destruct (Hcap Hnz) as (A1 & A2 & A3). specialize (A3 Hstrict). lia.
    + destruct (upsert_msg_new _ _ _ _ _ _ _ _ _ _ _ _ E Et) as (Hp & Ed & _).
      destruct (token_tail k s s' d (reg_supply_of (v_tok (view_of k d))) R Hc F T) as (T1 & T2).
      { intros x t0 E1 E2. rewrite Et in E2. discriminate E2. }
      { rewrite Ed. discriminate. }
      split; [|exact T2]. rewrite V1 in T1.
      rewrite (cl_true (chk_origin _ _)) by (unfold chk_origin; lia). cbn [app].
      rewrite V1. cbn [app]. rewrite Hp. cbn [cl app].
      rewrite cl_true by (rewrite V2, Es; lia). cbn [app]. exact T1.
  - destruct (token_reject k s d R) as (T1 & T2). split; [|exact T2].
    rewrite (cl_true (chk_origin _ _)) by (unfold chk_origin; lia). cbn [app]. rewrite T1. reflexivity.
  - destruct (token_reject k s d R) as (T1 & T2). split; [|exact T2].
    rewrite (cl_true (chk_origin _ _)) by (unfold chk_origin; lia). cbn [app]. rewrite T1. reflexivity.
Qed.

Lemma sound_prop_upsert : forall k s d supply cap owner noedit fee sc, rel k s -> inv s ->
  step_sound k s (OPropUpsert d supply cap owner noedit fee sc).
Proof.
  intros k s d supply cap owner noedit fee sc R I. pose proof R as (R1 & R2 & R3 & R4 & R5 & R6 & R7). destruct (R7 d) as (V1 & V2 & V3).
  unfold step_sound, model_obs, step_total. cbn [step op_denom].
  destruct (prop_upsert s d supply cap owner noedit fee sc) as [s'| |] eqn:E; cbn [res_of fst snd check_step Z.eqb negb].
  - destruct (prop_upsert_shape _ _ _ _ _ _ _ _ _ E) as (tn & F & B & Rg).
    destruct (prop_upsert_char _ _ _ _ _ _ _ _ _ E) as (Ed & _).
    assert (Hc : cap_ok (s_reg s')) by (eapply (step_ok_cap s (OPropUpsert d supply cap owner noedit fee sc)); [exact I|exact E]).
    assert (Es : supply_of s' d = supply_of s d) by (unfold supply_of; rewrite B; reflexivity).
    assert (En : nat_supply s' = nat_supply s) by (unfold nat_supply, supply_of; rewrite B; reflexivity).
    assert (T : touch_only d s s').
    { eapply touch_only_aset; [exact Rg|]. intros d' Hd. unfold supply_of. rewrite B. reflexivity. }
    destruct (token_tail k s s' d (reg_supply_of (v_tok (view_of k d))) R Hc F T) as (T1 & T2).
    { intros x t0 E1 E2 Hp. rewrite Ed, E2 in E1. inversion E1; subst. cbn [t_cap]. lia. }
    { rewrite Ed. destruct (aget d (s_reg s)); discriminate. }
    split; [|exact T2]. rewrite V1 in T1.
    rewrite (cl_true (chk_origin _ _)) by (unfold chk_origin; lia). cbn [app].
    rewrite V1. destruct (aget d (s_reg s)) as [t|] eqn:Et; cbn [app].
    + rewrite cl_true; [exact T1|]. rewrite V2, Ed, Es. cbn [reg_supply_of t_supply t_cap]. lia.
    + rewrite cl_true; [exact T1|]. rewrite V2, Es. lia.
  - destruct (token_reject k s d R) as (T1 & T2). split; [|exact T2].
    rewrite (cl_true (chk_origin _ _)) by (unfold chk_origin; lia). cbn [app]. rewrite T1. reflexivity.
  - destruct (token_reject k s d R) as (T1 & T2). split; [|exact T2].
    rewrite (cl_true (chk_origin _ _)) by (unfold chk_origin; lia). cbn [app]. rewrite T1. reflexivity.
Qed.

(* ---------------------------------------------------------------- blocks *)
Lemma touch_refl : forall d s, touch_only d s s. Proof. intros d s d' _. split; reflexivity. Qed.
Lemma touch_trans : forall d a b c, touch_only d a b -> touch_only d b c -> touch_only d a c.
Proof. intros d a b c H1 H2 d' Hd. destruct (H1 d' Hd), (H2 d' Hd). split; congruence. Qed.
Lemma touch_same : forall d s s', s_reg s' = s_reg s -> s_bank s' = s_bank s -> touch_only d s s'.
Proof. intros d s s' Hr Hb d' _. unfold supply_of. rewrite Hr, Hb. split; reflexivity. Qed.
Definition snaps_same (s s' : st) : Prop := s_psnap s' = s_psnap s /\ s_ysnap s' = s_ysnap s /\ s_params s' = s_params s /\ s_now s' = s_now s.

Lemma reg_mint_touch : forall s d amt s', reg_mint s d amt = Ok s' -> touch_only d s s' /\ snaps_same s s'.
Proof.
  intros s d amt s' H. destruct (reg_mint_shape _ _ _ _ H) as ((F1 & F2 & F3 & F4 & _) & _ & B & Rg). split.
  - eapply touch_only_aset; [exact Rg|]. intros d' Hd. unfold supply_of. rewrite B. apply zget_zadd_other. exact Hd.
  - unfold snaps_same. tauto.
Qed.
Lemma allocate_touch : forall s s', allocate s = Ok s' -> touch_only native s s' /\ snaps_same s s'.
Proof.
  intros s s'. unfold allocate.
  destruct (inflation_possible _ _ _ _) as [ip| |]; cbn [bind]; try discriminate.
  destruct (negb ip); [intros H; inversion H; subst; split; [apply touch_refl|unfold snaps_same; tauto]|].
  destruct (target_supply _ _ _ _) as [tgt| |]; cbn [bind]; try discriminate.
  destruct (0 <? _).
  - destruct (reg_mint s native _) as [s1| |] eqn:EM; try discriminate.
    intros H; inversion H; subst s1. exact (reg_mint_touch _ _ _ _ EM).
  - intros H; inversion H; subst; split; [apply touch_refl|unfold snaps_same; tauto].
Qed.
Lemma process_ubi_touch : forall s u s', process_ubi cf s u = Ok s' -> touch_only native s s' /\ snaps_same s s'.
Proof.
  intros s u s'. unfold process_ubi.
  destruct (inflation_possible _ _ _ _) as [ip| |]; cbn [bind]; try discriminate.
  destruct (negb ip); [intros H; inversion H; subst; split; [apply touch_refl|unfold snaps_same; tauto]|].
  set (s1 := set_ubis s _).
  match goal with |- (do todo <- ?X; _) = _ -> _ => destruct X as [todo| |] end; cbn [bind]; try discriminate.
  destruct todo as [amt|]; [|intros H; inversion H; subst; split; [apply touch_same; reflexivity|unfold snaps_same; cbn; tauto]].
  destruct (amt <? 0); [discriminate|]. destruct (amt =? 0); [discriminate|].
  destruct (reg_mint s1 native amt) as [s2| |] eqn:EM; cbn [bind]; try discriminate.
  destruct (aget (u_pool u) (s_pools s2)); [|discriminate].
  intros H; inversion H; subst s'; clear H. destruct (reg_mint_touch _ _ _ _ EM) as (T & (S1 & S2 & S3 & S4)). split.
  - eapply touch_trans; [apply (touch_same native s s1); reflexivity|]. eapply touch_trans; [exact T|]. apply touch_same; reflexivity.
  - unfold snaps_same. cbn. subst s1. cbn in *. tauto.
Qed.
Lemma snaps_trans : forall a b c, snaps_same a b -> snaps_same b c -> snaps_same a c.
Proof. unfold snaps_same. intros a b c H1 H2. intuition congruence. Qed.
Lemma ubi_end_touch : forall us s s', ubi_end cf us s = Ok s' -> touch_only native s s' /\ snaps_same s s'.
Proof.
  induction us as [|u r IH]; intros s s'; cbn [ubi_end].
  - intros H; inversion H; subst. split; [apply touch_refl|unfold snaps_same; tauto].
  - destruct (ubi_due cf (s_now s) u); [|apply IH].
    destruct (process_ubi cf s u) as [s1| |] eqn:E; [|apply IH|discriminate].
    intros H. destruct (process_ubi_touch _ _ _ E) as (T1 & S1). destruct (IH _ _ H) as (T2 & S2).
    split; [eapply touch_trans; eassumption|eapply snaps_trans; eassumption].
Qed.

Lemma block_shape : forall s dt s1 s2 s3, block_parts cf s dt = Ok (s1, s2, s3) ->
  touch_only native s s3 /\ s_params s3 = s_params s /\ s_now s3 = s_now s + dt /\ s_ubis s3 = s_ubis s2 /\
  (s_psnap s3 = s_psnap s \/ s_psnap s3 = mkSnap (s_now s + dt) (Some (nat_supply s2))) /\
  (s_ysnap s3 = s_ysnap s \/ s_ysnap s3 = mkSnap (s_now s + dt) (Some (nat_supply s2))).
Proof.
  intros s dt s1 s2 s3. unfold block_parts.
  set (s0 := set_time s (s_now s + dt) (s_height s + 1)).
  assert (A : forall x, (if 1 <? s_height s0 then allocate s0 else Ok s0) = Ok x -> touch_only native s0 x /\ snaps_same s0 x).
  { intros x. destruct (1 <? s_height s0); [apply allocate_touch|]. intros H; inversion H; subst. split; [apply touch_refl|unfold snaps_same; tauto]. }
  destruct (if 1 <? s_height s0 then allocate s0 else Ok s0) as [x| |]; cbn [bind]; try discriminate.
  destruct (A x eq_refl) as (TA & SA).
  destruct (ubi_end cf (s_ubis x) x) as [y| |] eqn:EU; cbn [bind]; try discriminate.
  destruct (ubi_end_touch _ _ _ EU) as (TU & SU).
  intros H; inversion H; subst s1 s2 s3; clear H.
  destruct (snaps_trans _ _ _ SA SU) as (P1 & P2 & P3 & P4). cbn [s_psnap s_ysnap s_params s_now set_time s0] in P1, P2, P3, P4.
  split; [|split; [|split; [|split; [|split]]]].
  - eapply touch_trans; [apply (touch_same native s s0); reflexivity|]. eapply touch_trans; [exact TA|]. eapply touch_trans; [exact TU|].
    apply touch_same; reflexivity.
  - unfold distr_end. cbn. exact P3.
  - unfold distr_end. cbn. exact P4.
  - reflexivity.
  - unfold distr_end, set_snaps. cbn [s_psnap]. rewrite P1, P4. destruct (_ || _); [right|left]; reflexivity.
  - unfold distr_end, set_snaps. cbn [s_ysnap]. rewrite P2, P4. destruct (_ || _); [right|left]; reflexivity.
Qed.

Lemma tok_eta : forall t t', tok_same t t' -> t' = with_supply t (t_supply t').
Proof. intros [a b c d e f] [a' b' c' d' e' f'] (H1 & H2 & H3 & H4 & H5). cbn in *. subst. reflexivity. Qed.

Lemma sound_block : forall k s dt, rel k s -> inv s -> 0 <= dt -> step_sound k s (OBlock dt).
Proof.
  intros k s dt R I Hdt. pose proof R as (R1 & R2 & R3 & R4 & R5 & R6 & R7).
  destruct I as (Icap & Inat & Irate & Iper & Imax & Isnap & Itime & Ipools & Idom & Isort).
  destruct Hcf as (_ & _ & Hamt & Hdue & _).
  unfold step_sound, model_obs.
  destruct (block_parts cf s dt) as [[[s1 s2] s3]| |] eqn:E; cbn [res_of fst snd check_step Z.eqb negb].
  2,3: (split; [reflexivity|exact R]).
  assert (VM : valid_monetary s dt) by (unfold valid_monetary; repeat split; try assumption; lia).
  destruct (c13_chk_sound_block_lemma cf s dt s1 s2 s3 VM E) as (C1 & C2).
  assert (PO : Forall (ubi_pay_ok cf) (s_ubis s)).
  { eapply Forall_impl; [|exact Idom]. intros u (A & L & P). unfold ubi_pay_ok. repeat split; try assumption; left; assumption. }
  destruct (block_ubi_payout_lemma cf s dt s1 s2 s3 E Ipools PO) as (C3 & _).
  destruct (block_ubi_gate_lemma cf s dt s1 s2 s3 Imax E) as (G1 & G2).
  destruct (block_shape _ _ _ _ _ E) as (T & Sp & Sn & Su & Sps & Sys).
  destruct (block_parts_view _ _ _ _ _ _ E) as (VP & _ & _ & N3).
  destruct (VP native) as (Off & Tk).
  destruct (aget native (s_reg s)) as [x|] eqn:Ex; [|congruence].
  destruct (Tk x eq_refl) as (x' & Ex' & Same).
  destruct (R7 native) as (V1 & V2 & V3). rewrite Ex in V1.
  assert (Ereg : reg_native s3 = t_supply x') by (unfold reg_native; rewrite Ex'; reflexivity).
  assert (Eoff : t_supply x' - nat_supply s2 = t_supply x - nat_supply s).
  { unfold offset, reg_supply in Off. rewrite Ex, Ex' in Off. unfold nat_supply in *. rewrite <- N3. exact Off. }
  split.
  - rewrite R1, R2, R3, R4, R5, R6.
    rewrite (cl_true _ _ C1). cbn [app]. rewrite (cl_true _ _ C2). cbn [app].
    rewrite (cl_true _ _ G1). cbn [app]. rewrite cl_true by lia. cbn [app].
    rewrite cl_true by lia. cbn [app].
    rewrite cl_true. 2:{ apply andb_true_intro. split; apply Bool.orb_true_iff.
                         - destruct Sps as [->| ->]; [left|right]; apply snap_eqb_refl.
                         - destruct Sys as [->| ->]; [left|right]; apply snap_eqb_refl. }
    cbn [app]. apply cl_true. rewrite V1, Ereg. cbn [reg_supply_of]. lia.
  - rewrite V1. apply rel_intro; cbn [k_now k_params k_psnap k_ysnap k_native k_ubis];
    [rewrite R1, Sn; reflexivity|congruence|reflexivity|reflexivity|symmetry; exact N3|reflexivity|].
    intros d'. destruct (Z.eq_dec d' native) as [Ed|Ed].
    + subst d'. unfold view_ok. rewrite view_of_aset_same. cbn [Z.eqb native v_tok v_bank v_bound].
      split; [rewrite Ex', Ereg; f_equal; symmetry; apply tok_eta; exact Same|]. split; [unfold nat_supply in *; congruence|].
      intros Hb. destruct (V3 Hb) as (t0 & Et0 & Hc0). exists x'. split; [exact Ex'|]. assert (Q : t0 = x) by congruence. subst t0.
      destruct Same as (Sc & _). lia.
    + destruct (T d' Ed) as (Tr & Ts). unfold view_ok.
      rewrite (view_of_aset_other k native d' _ _ _ _ _ _ _ Ed (or_introl Ed)).
      destruct (R7 d') as (W1 & W2 & W3). rewrite Tr, Ts. split; [exact W1|split; [exact W2|exact W3]].
Qed.

(* ---------------------------------------------------------------- genesis round trip *)
Lemma snap_norm_idem : forall p, snap_norm (snap_norm p) = snap_norm p.
Proof. intros [t [a|]]; reflexivity. Qed.
Lemma aget_some_key : forall A d (l : list (Z * A)) v, aget d l = Some v -> existsb (fun r => fst r =? d) l = true.
Proof.
  induction l as [|[k0 v0] l IH]; cbn [aget existsb fst]; intros v H; [discriminate|].
  destruct (k0 =? d) eqn:E; [reflexivity|]. cbn [orb]. eapply IH; exact H.
Qed.

Lemma sound_genesis : forall k s, rel k s -> step_sound k s OGenesis.
Proof.
  intros k s R. pose proof R as (R1 & R2 & R3 & R4 & R5 & R6 & R7).
  unfold step_sound, model_obs, step_total. cbn [step fst snd check_step].
  set (s' := genesis_roundtrip s).
  assert (En : nat_supply s' = nat_supply s) by reflexivity.
  assert (Ep : s_psnap s' = snap_norm (s_psnap s)) by reflexivity.
  assert (Ey : s_ysnap s' = snap_norm (s_ysnap s)) by reflexivity.
  assert (Eu : s_ubis s' = s_ubis s) by reflexivity.
  assert (Er : s_reg s' = s_reg s) by reflexivity.
  assert (Eb : s_bank s' = s_bank s) by reflexivity.
  rewrite En, Ep, Ey, Eu, Er. split.
  - cbn [Z.eqb cl app]. rewrite cl_true by lia. cbn [app].
    rewrite cl_true by (rewrite !snap_norm_idem, R3, R4, !snap_eqb_refl; reflexivity). cbn [app].
    rewrite cl_true by (rewrite R6; apply list_eqb_refl, ubi_eqb_refl). cbn [app].
    apply cl_true. apply andb_true_intro. split; [apply andb_true_intro; split|].
    + apply forallb_forall. intros e _. destruct (R7 (fst e)) as (V1 & _). rewrite V1. apply otok_eqb_refl.
    + apply forallb_forall. intros e He. apply in_map_iff in He. destruct He as (x & <- & _). cbn [fst snd].
      destruct (R7 (fst x)) as (_ & V2 & _). rewrite V2. unfold supply_of. rewrite Eb. lia.
    + apply forallb_forall. intros e _. destruct (R7 (fst e)) as (V1 & _). rewrite V1.
      destruct (aget (fst e) (s_reg s)) as [t|] eqn:Et; [|reflexivity]. eapply aget_some_key. exact Et.
  - apply rel_intro; cbn [k_now k_params k_psnap k_ysnap k_native k_ubis]; try congruence; try assumption;
    try (intros d; eapply view_ok_ext; try apply R7; reflexivity).
Qed.

(* ---------------------------------------------------------------- every operation, then histories *)
Lemma step_sound_all : forall k s o, rel k s -> inv s -> good_op o -> step_sound k s o.
Proof.
  intros k s o R I G. destruct o.
  - apply sound_block; assumption.
  - apply sound_params; assumption.
  - apply sound_hardcap; assumption.
  - apply sound_ubi_upsert; assumption.
  - apply sound_ubi_remove; assumption.
  - apply sound_upsert_msg; assumption.
  - apply sound_prop_upsert; assumption.
  - apply sound_mint_issue; assumption.
  - apply sound_mint_issue2; assumption.
  - apply sound_burn; assumption.
  - apply sound_fee; assumption.
  - apply sound_genesis; assumption.
Qed.

(* the trace the model produces, in the harness format *)
Fixpoint model_trace (s : st) (ops : list op) : list (op * obs) :=
  match ops with
  | [] => []
  | o :: r => (o, snd (model_obs cf s o)) :: model_trace (fst (model_obs cf s o)) r
  end.
(* the well-formedness invariant holds at every state the run visits *)
Fixpoint inv_along (s : st) (ops : list op) : Prop :=
  match ops with
  | [] => True
  | o :: r => inv s /\ good_op o /\ inv_along (fst (model_obs cf s o)) r
  end.

Lemma chk_sound_lemma : forall ops s k i, rel k s -> inv_along s ops -> check_steps i k (model_trace s ops) = [].
Proof.
  induction ops as [|o r IH]; intros s k i R IA; [reflexivity|].
  destruct IA as (I & G & IA'). cbn [model_trace check_steps].
  pose proof (step_sound_all k s o R I G) as S. unfold step_sound in S.
  destruct (model_obs cf s o) as [s' ob] eqn:EM. cbn [fst snd] in *.
  destruct (check_step k o ob) as [cls k'] eqn:EC. cbn [fst snd] in S. destruct S as (S1 & S2). subst cls.
  cbn [map app]. apply IH; assumption.
Qed.
End Sound.

(* the initial checker state agrees with the initial model state of a case *)
Lemma init_rel : forall t0 reg0 ubis0 pools0 i,
  NoDup (map fst reg0) ->
  rel (init_cst t0 reg0 ubis0 i) (init_state t0 reg0 ubis0 pools0 i).
Proof.
  intros t0 reg0 ubis0 pools0 i Hnd. apply rel_intro; try reflexivity.
  intros d. unfold view_ok, view_of, init_cst, init_state, supply_of. cbn [k_toks k_native s_reg s_bank].
  assert (G : forall l, NoDup (map fst l) ->
            aget d (map (fun e : Z * tok => (fst e, mkTview (Some (snd e)) (if fst e =? native then i_supply i else 0)
                                                       (if 0 <? t_cap (snd e) then t_cap (snd e) else 0))) l)
            = option_map (fun t => mkTview (Some t) (if d =? native then i_supply i else 0) (if 0 <? t_cap t then t_cap t else 0)) (aget d l)).
  { induction l as [|[k0 t0'] l IH]; intros Hl; [reflexivity|]. cbn [map aget fst snd]. inversion Hl; subst.
    destruct (k0 =? d) eqn:E; [assert (k0 = d) by lia; subst; reflexivity|apply IH; assumption]. }
  rewrite (G reg0 Hnd). unfold zget. cbn [aget].
  destruct (aget d reg0) as [t|] eqn:Et; cbn [option_map].
  - destruct (d =? native) eqn:En; cbn [v_tok v_bank v_bound].
    + split; [reflexivity|]. assert (d = native) by lia; subst d. rewrite Z.eqb_refl. split; [reflexivity|].
      intros Hb. exists t. split; [reflexivity|]. destruct (0 <? t_cap t); lia.
    + split; [reflexivity|]. replace (native =? d) with false by lia. split; [reflexivity|].
      intros Hb. exists t. split; [reflexivity|]. destruct (0 <? t_cap t); lia.
  - cbn [v_tok v_bank v_bound]. destruct (d =? native) eqn:En.
    + assert (d = native) by lia; subst d. rewrite Z.eqb_refl. split; [reflexivity|split; [reflexivity|lia]].
    + replace (native =? d) with false by lia. split; [reflexivity|split; [reflexivity|lia]].
Qed.

(* non-vacuity: a concrete well-formed state related to a checker state, and a one-block history *)
Definition sound_state : st :=
  mkSt 1700000000 5 (mkParams 180000000000000000 31557600 350000000000000000 7000000)
       (mkSnap 1699990000 (Some 300000000000000)) (mkSnap 1699990000 (Some 300000000000000))
       [(0, 300000000000000)] [(bkey 1 0, 1000000)] [(0, mkTok 0 0 0 false PREC 500000000000000000)]
       [mkUbi 0 500000 2592000 0 0 true 0] [(0, 0)].
Lemma sound_state_inv : inv sound_state.
Proof.
  unfold inv. split; [|split; [|split; [|split; [|split; [|split; [|split; [|split; [|split]]]]]]]].
  - intros d t. cbn [s_reg sound_state aget]. destruct (0 =? d); [intros H; inversion H; subst; cbn; lia|discriminate].
  - cbn. discriminate.
  - cbn. lia.
  - vm_compute. split; reflexivity.
  - cbn. lia.
  - intros a H. cbn in H. inversion H. lia.
  - cbn. lia.
  - intros p b. cbn [s_pools sound_state aget]. destruct (0 =? p); [intros H; inversion H; lia|discriminate].
  - repeat constructor; cbn; lia.
  - cbn. tauto.
Qed.
Lemma chk_sound_nonvacuous : forall cf, exists s ops, inv_along cf s ops /\ ops <> [] /\
  rel (init_cst (s_now s) (s_reg s) (s_ubis s) (mkInit (nat_supply s) [] (s_params s) (s_psnap s) (s_ysnap s))) 
      (init_state (s_now s) (s_reg s) (s_ubis s) (s_pools s) (mkInit (nat_supply s) [] (s_params s) (s_psnap s) (s_ysnap s))).
Proof.
  intros cf. exists sound_state, [OBlock 86400]. split; [|split; [discriminate|]].
  - cbn [inv_along]. split; [exact sound_state_inv|]. split; [cbn; lia|exact I].
  - apply init_rel. cbn. repeat constructor; cbn; tauto.
Qed.
