From Sekai Require Import Base.Prelude Base.Dec Model.Basket Model.C11Check.
From Coq Require Import ZifyBool.

Lemma PREC_pos : 0 < PREC. Proof. reflexivity. Qed.
Lemma HALF2 : 2 * HALF = PREC. Proof. reflexivity. Qed.

Lemma chop_round_pos_mul : forall x, chop_round_pos (x * PREC) = x.
Proof.
  intros x. unfold chop_round_pos.
  rewrite Z.mod_mul by (unfold PREC; lia). rewrite Z.div_mul by (unfold PREC; lia).
  reflexivity.
Qed.
Lemma chop_round_mul : forall x, chop_round (x * PREC) = x.
Proof.
  intros x. unfold chop_round. pose proof PREC_pos.
  destruct (x * PREC <? 0) eqn:E.
  - replace (- (x * PREC)) with ((- x) * PREC) by ring. rewrite chop_round_pos_mul. ring.
  - apply chop_round_pos_mul.
Qed.

(* banker's rounding moves a non-negative value by at most half a unit *)
Lemma chop_round_pos_bounds : forall d, 0 <= d ->
  2 * d - PREC <= 2 * PREC * chop_round_pos d <= 2 * d + PREC.
Proof.
  intros d Hd. unfold chop_round_pos. pose proof PREC_pos as HP. pose proof HALF2 as HH.
  pose proof (Z.div_mod d PREC ltac:(lia)) as E.
  pose proof (Z.mod_pos_bound d PREC HP) as B.
  set (q := d / PREC) in *. set (r := d mod PREC) in *.
  destruct (r =? 0) eqn:E0; [nia|].
  destruct (r <? HALF) eqn:E1; [nia|].
  destruct (HALF <? r) eqn:E2; [nia|].
  destruct (Z.even q); nia.
Qed.
Lemma chop_round_bounds : forall d, 0 <= d ->
  2 * d - PREC <= 2 * PREC * chop_round d <= 2 * d + PREC.
Proof.
  intros d Hd. unfold chop_round. destruct (d <? 0) eqn:E; [lia|]. apply chop_round_pos_bounds; lia.
Qed.
Lemma chop_round_nonneg : forall d, 0 <= d -> 0 <= chop_round d.
Proof. intros d Hd. pose proof (chop_round_bounds d Hd). pose proof PREC_pos. nia. Qed.

Lemma chop_trunc_bounds : forall d, 0 <= d -> chop_trunc d * PREC <= d < (chop_trunc d + 1) * PREC.
Proof.
  intros d Hd. unfold chop_trunc. pose proof PREC_pos as HP.
  rewrite Z.quot_div_nonneg by lia.
  pose proof (Z.div_mod d PREC ltac:(lia)). pose proof (Z.mod_pos_bound d PREC HP). nia.
Qed.
Lemma chop_trunc_nonneg : forall d, 0 <= d -> 0 <= chop_trunc d.
Proof. intros d Hd. pose proof (chop_trunc_bounds d Hd). pose proof PREC_pos. nia. Qed.
Lemma chop_trunc_nonpos : forall d, d <= 0 -> chop_trunc d <= 0.
Proof.
  intros d Hd. unfold chop_trunc. pose proof PREC_pos.
  replace d with (- (- d)) by ring. rewrite Z.quot_opp_l by lia.
  pose proof (Z.quot_pos (- d) PREC ltac:(lia) ltac:(lia)). lia.
Qed.

Lemma dmul_int_l : forall a w r, dmul (dec_of_int a) w = Ok r -> r = a * w.
Proof.
  unfold dmul, dec_of_int. intros a w r H.
  replace (a * PREC * w) with (a * w * PREC) in H by ring. rewrite chop_round_mul in H.
  destruct (dec_in_range (a * w)); congruence.
Qed.
Lemma dquo_bound : forall a b r, dquo a b = Ok r -> 0 <= a -> 0 < b ->
  0 <= r /\ 2 * r * b <= 2 * a * PREC + b.
Proof.
  unfold dquo. intros a b r H Ha Hb. pose proof PREC_pos as HP.
  destruct (b =? 0) eqn:E; [lia|].
  destruct (dec_in_range _); [|discriminate]. injection H as <-.
  assert (Hq : 0 <= Z.quot (a * PREC * PREC) b) by (apply Z.quot_pos; nia).
  pose proof (chop_round_bounds _ Hq) as B. split; [apply chop_round_nonneg; auto|].
  assert (Z.quot (a * PREC * PREC) b * b <= a * PREC * PREC).
  { rewrite Z.quot_div_nonneg by nia. pose proof (Z.div_mod (a*PREC*PREC) b ltac:(lia)).
    pose proof (Z.mod_pos_bound (a*PREC*PREC) b Hb). nia. }
  set (q := Z.quot (a * PREC * PREC) b) in *. set (c := chop_round q) in *.
  assert (2 * PREC * c * b <= (2 * q + PREC) * b) by nia.
  nia.
Qed.
Ltac inv_ok H :=
  repeat (match type of H with
  | bind ?o _ = Ok _ => let E := fresh "E" in destruct o eqn:E; cbn [bind] in H; [|discriminate H|discriminate H]
  | (if ?c then _ else _) = Ok _ => let E := fresh "C" in destruct c eqn:E; try discriminate H
  | (match ?o with _ => _ end) = Ok _ => let E := fresh "M" in destruct o eqn:E; try discriminate H
  end).

(* ---------------------------------------------------------------- mint *)
Definition dep_value (ts : list token) (dep : coins) : Z :=
  zsum (map (fun c => match find_token ts (fst c) with Some t => snd c * t_weight t | None => 0 end) dep).

Lemma mint_value_spec : forall ts dep acc v, mint_value ts dep acc = Ok v ->
  v = acc + dep_value ts dep /\ forallb (fun c => match find_token ts (fst c) with Some t => t_dep t | None => false end) dep = true.
Proof.
  induction dep as [|[d x] r IH]; simpl; intros acc v H.
  - injection H as <-. unfold dep_value. simpl. split; [unfold dec in *; lia|reflexivity].
  - unfold dep_value in *. simpl.
    destruct (find_token ts d) as [t|] eqn:F; [|discriminate].
    destruct (t_dep t) eqn:D; simpl in H; [|discriminate].
    destruct (dmul (dec_of_int x) (t_weight t)) eqn:M; simpl in H; try discriminate.
    apply dmul_int_l in M. subst a. apply IH in H. destruct H as [-> Hf]. split; [unfold dec in *; lia|exact Hf].
Qed.

Theorem mint_le_value : forall s now a dep s', mint s now a dep = Ok s' ->
  let minted := b_amount (s_bk s') - b_amount (s_bk s) in
  0 < minted /\ minted * PREC <= dep_value (b_tokens (s_bk s)) dep
  /\ s_supply s' = s_supply s + minted.
Proof.
  unfold mint. intros s now a dep s' H. inv_ok H. injection H as <-. simpl.
  apply mint_value_spec in E. destruct E as [E _]. simpl in E. subst a0.
  set (v := dep_value (b_tokens (s_bk s)) dep) in *.
  replace (b_amount (s_bk s) + trunc_int v - b_amount (s_bk s)) with (trunc_int v) by ring.
  assert (0 < trunc_int v) by lia.
  assert (0 <= v). { destruct (Z_lt_le_dec v 0); [|lia]. pose proof (chop_trunc_nonpos v ltac:(lia)). unfold trunc_int in *. lia. }
  pose proof (chop_trunc_bounds v H0). unfold trunc_int in *. repeat split; lia.
Qed.

Theorem mint_respects_switches : forall s now a dep s', mint s now a dep = Ok s' ->
  b_md (s_bk s) = false /\
  forallb (fun c => match find_token (b_tokens (s_bk s)) (fst c) with Some t => t_dep t | None => false end) dep = true.
Proof.
  unfold mint. intros s now a dep s' H. inv_ok H. apply mint_value_spec in E. split; [reflexivity|apply E].
Qed.

Theorem mint_respects_limits_and_caps : forall s now a dep s', mint s now a dep = Ok s' ->
  let minted := b_amount (s_bk s') - b_amount (s_bk s) in
  b_mmin (s_bk s) <= minted
  /\ period_sum (s_hm s') now (b_period (s_bk s)) <= b_mmax (s_bk s)
  /\ s_hm s' = register (s_hm s) now minted
  /\ validate_cap (b_cap (s_bk s)) (b_tokens (s_bk s')) = Ok true.
Proof.
  unfold mint. intros s now a dep s' H. inv_ok H. injection H as <-. simpl.
  replace (b_amount (s_bk s) + trunc_int a0 - b_amount (s_bk s)) with (trunc_int a0) by ring.
  destruct a2; [|discriminate]. repeat split; try lia. exact E1.
Qed.
(* ---------------------------------------------------------------- sums per denomination *)
Definition rsum (ts : list token) (d : Z) : Z := zsum (map (fun t => if t_denom t =? d then t_amount t else 0) ts).
Definition ssum (cs : coins) (d : Z) : Z := zsum (map (fun c => if fst c =? d then snd c else 0) cs).

Lemma ssum_cons : forall c cs d, ssum (c :: cs) d = (if fst c =? d then snd c else 0) + ssum cs d.
Proof. reflexivity. Qed.
Lemma rsum_cons : forall t ts d, rsum (t :: ts) d = (if t_denom t =? d then t_amount t else 0) + rsum ts d.
Proof. reflexivity. Qed.

Lemma ssum_nil : forall d, ssum [] d = 0. Proof. reflexivity. Qed.
Lemma rsum_nil : forall d, rsum [] d = 0. Proof. reflexivity. Qed.
Lemma ssum_coins_add : forall cs d x d', ssum (coins_add cs d x) d' = ssum cs d' + (if d =? d' then x else 0).
Proof.
  induction cs as [|[e y] r IH]; intros d x d'; simpl.
  - destruct (x =? 0) eqn:X; rewrite ?ssum_cons, ?ssum_nil; simpl; destruct (d =? d'); lia.
  - destruct (x =? 0) eqn:X; [destruct (d =? d'); lia|].
    destruct (d <? e) eqn:L.
    + rewrite !ssum_cons. simpl. lia.
    + destruct (d =? e) eqn:Q.
      * assert (d = e) by lia. subst e.
        destruct (y + x =? 0) eqn:Z0; rewrite ?ssum_cons; simpl; destruct (d =? d'); lia.
      * rewrite !ssum_cons. simpl. rewrite IH. lia.
Qed.
Lemma ssum_coins_add_all : forall ds cs d', ssum (coins_add_all cs ds) d' = ssum cs d' + ssum ds d'.
Proof.
  unfold coins_add_all. induction ds as [|[e y] r IH]; intros cs d'; simpl.
  - rewrite ssum_nil. lia.
  - rewrite IH, ssum_coins_add, ssum_cons. simpl. lia.
Qed.

Lemma bal_add_at : forall bal a d x a' d', bal_add bal a d x a' d' = bal a' d' + (if (a' =? a) && (d' =? d) then x else 0).
Proof. intros. unfold bal_add. destruct ((a' =? a) && (d' =? d)); lia. Qed.

Lemma send_spec : forall cs bal from to a d, from <> to ->
  send bal from to cs a d = bal a d + (if a =? to then ssum cs d else 0) - (if a =? from then ssum cs d else 0).
Proof.
  unfold send. induction cs as [|[e y] r IH]; intros bal from to a d Hne; simpl.
  - rewrite ssum_nil. destruct (a =? to), (a =? from); lia.
  - rewrite IH by assumption. rewrite !bal_add_at, !ssum_cons. simpl.
    destruct (a =? to) eqn:A1, (a =? from) eqn:A2, (e =? d) eqn:A3, (d =? e) eqn:A4; simpl; lia.
Qed.

(* ---------------------------------------------------------------- burn *)
Definition reserves_nonneg (ts : list token) : Prop := forall t, In t ts -> 0 <= t_amount t.

Lemma rsum_nonneg : forall ts d, reserves_nonneg ts -> 0 <= rsum ts d.
Proof.
  induction ts as [|t r IH]; intros d Hn; [unfold rsum; simpl; lia|].
  rewrite rsum_cons. assert (0 <= t_amount t) by (apply Hn; left; reflexivity).
  assert (0 <= rsum r d) by (apply IH; intros u Hu; apply Hn; right; exact Hu).
  destruct (t_denom t =? d); lia.
Qed.

Lemma withdraw_coins_bound : forall ts p outs, withdraw_coins ts p = Ok outs -> 0 <= p -> reserves_nonneg ts ->
  forall d, 0 <= ssum outs d /\ ssum outs d * PREC <= rsum ts d * p.
Proof.
  induction ts as [|t r IH]; simpl; intros p outs H Hp Hn d.
  - injection H as <-. rewrite ssum_nil. unfold rsum. simpl. lia.
  - destruct (withdraw_coins r p) as [rest| |] eqn:W; simpl in H; try discriminate.
    assert (Hr : reserves_nonneg r) by (intros u Hu; apply Hn; right; exact Hu).
    assert (Ht : 0 <= t_amount t) by (apply Hn; left; reflexivity).
    destruct (IH p rest W Hp Hr d) as [I0 I1].
    rewrite rsum_cons.
    destruct (t_wd t); simpl in H.
    + destruct (dmul (dec_of_int (t_amount t)) p) as [w| |] eqn:M; simpl in H; try discriminate.
      apply dmul_int_l in M. injection H as <-.
      assert (0 <= w) by nia.
      pose proof (chop_trunc_bounds w H) as B. pose proof (chop_trunc_nonneg w H) as B0. unfold trunc_int.
      destruct (0 <? chop_trunc w) eqn:P.
      * rewrite ssum_coins_add. destruct (t_denom t =? d); nia.
      * destruct (t_denom t =? d); nia.
    + injection H as <-. destruct (t_denom t =? d); nia.
Qed.

(* the divisor the burn uses: the supply before the burn in the repaired variant, the supply
   left after it in the current code *)
Definition burn_divisor (v : variant) (s : state) (x : Z) : Z :=
  if v_burn_pre v then s_supply s else s_supply s - x.

Lemma burn_bound : forall v s now a d x s', burn v s now a d x = Ok s' ->
  a <> MODULE -> reserves_nonneg (b_tokens (s_bk s)) -> 0 < burn_divisor v s x ->
  let S := burn_divisor v s x in
  d = BDENOM /\ 0 < x /\ s_supply s' = s_supply s - x /\ b_amount (s_bk s') = b_amount (s_bk s) - x
  /\ forall d', d' <> BDENOM ->
       0 <= s_bal s' a d' - s_bal s a d' /\
       (s_bal s' a d' - s_bal s a d') * S * (2 * PREC) <= rsum (b_tokens (s_bk s)) d' * x * (2 * PREC) + rsum (b_tokens (s_bk s)) d' * S.
Proof.
  unfold burn, burn_divisor. intros v s now a d x s' H Ha Hn HS. cbv zeta.
  inv_ok H. injection H as Hs'. symmetry in Hs'.
  assert (d = BDENOM) by lia. subst d.
  set (S := if v_burn_pre v then s_supply s else s_supply s - x) in *.
  pose proof PREC_pos as HP.
  apply dquo_bound in E; unfold dec_of_int in *; try nia.
  destruct E as [P0 P1].
  assert (P2 : 2 * a0 * S <= 2 * x * PREC + S) by nia.
  assert (Hb : forall d', d' <> BDENOM -> s_bal s' a d' - s_bal s a d' = ssum a1 d').
  { intros d' Hd. subst s'. simpl. rewrite send_spec by (unfold MODULE in *; lia). rewrite bal_add_at.
    destruct (a =? MODULE) eqn:A; [unfold MODULE in *; lia|]. rewrite Z.eqb_refl.
    unfold BDENOM in *. destruct (d' =? 0) eqn:Q; simpl; lia. }
  subst s'. cbn [s_supply s_bk s_bal b_amount set_amount set_tokens b_tokens] in *.
  repeat split; try lia.
  - rewrite (Hb d' H). apply (withdraw_coins_bound _ _ _ E0 P0 Hn d').
  - rewrite (Hb d' H).
    pose proof (withdraw_coins_bound _ _ _ E0 P0 Hn d') as [B0 B1].
    set (o := ssum a1 d') in *. set (r := rsum (b_tokens (s_bk s)) d') in *.
    assert (0 <= r) by (apply rsum_nonneg; exact Hn).
    assert (K1 : o * PREC * (2 * S) <= r * a0 * (2 * S)) by (apply Z.mul_le_mono_nonneg_r; lia).
    assert (K2 : r * (2 * a0 * S) <= r * (2 * x * PREC + S)) by (apply Z.mul_le_mono_nonneg_l; lia).
    clearbody o r S. clear - K1 K2. nia.
Qed.

(* "burning a fraction of the supply returns at most that fraction of each reserve": the fraction
   is taken of the supply BEFORE the burn.  Holds for the repaired order of reads ... *)
Definition pro_rata_statement (v : variant) : Prop :=
  forall s now a d x s', burn v s now a d x = Ok s' ->
  a <> MODULE -> reserves_nonneg (b_tokens (s_bk s)) -> 0 < s_supply s -> x <= s_supply s ->
  forall d', d' <> BDENOM ->
    (s_bal s' a d' - s_bal s a d') * s_supply s * (2 * PREC)
    <= rsum (b_tokens (s_bk s)) d' * x * (2 * PREC) + rsum (b_tokens (s_bk s)) d' * s_supply s.

Theorem burn_pro_rata_fixed : forall v, v_burn_pre v = true -> pro_rata_statement v.
Proof.
  intros v Hv s now a d x s' H Ha Hn HS Hx d' Hd.
  pose proof (burn_bound v s now a d x s' H Ha Hn) as B. unfold burn_divisor in B. rewrite Hv in B.
  specialize (B HS). cbv zeta in B. destruct B as (_ & _ & _ & _ & B). apply (B d' Hd).
Qed.

(* ... and is false for the code as it is: two holders own 1000 each of a supply of 2000 backed by
   2000 units; the first burns his 1000 and receives all 2000 *)
Definition wit_basket : basket :=
  mkB 2000 [mkT 1 PREC 2000 true true true] [] 0 0 PREC 3600 1 1000000000000 1 1000000000000 1 1000000000000 false false false.
Definition wit_state : state :=
  init_state wit_basket
    (fun a d => if (a =? 0) && (d =? 1) then 2000 else if ((a =? 1) || (a =? 2)) && (d =? 0) then 1000 else 0) 2000.
(* the tree as it is (68b9c08 keeps the amount in EditBasket), the tree before that commit, and
   the tree with every proposed repair *)
Definition current : variant := mkV false true false.
Definition before_68b9c08 : variant := mkV false false false.
Definition repaired : variant := mkV true true true.

Lemma wit_burn_current_b :
  match burn current wit_state 0 1 0 1000 with
  | Ok s' => (s_bal s' 1 1 =? 2000) && (s_bal s' MODULE 1 =? 0) && (s_supply s' =? 1000) && (rsum (b_tokens (s_bk s')) 1 =? 0)
  | _ => false end = true.
Proof. vm_compute. reflexivity. Qed.
Lemma wit_burn_current : exists s', burn current wit_state 0 1 0 1000 = Ok s' /\ s_bal s' 1 1 = 2000 /\ s_bal s' MODULE 1 = 0
                                    /\ s_supply s' = 1000 /\ rsum (b_tokens (s_bk s')) 1 = 0.
Proof.
  pose proof wit_burn_current_b as H. destruct (burn current wit_state 0 1 0 1000) as [s'| |]; try discriminate.
  exists s'. split; [reflexivity|]. lia.
Qed.

Theorem burn_pro_rata_refuted : ~ pro_rata_statement current.
Proof.
  intros P. destruct wit_burn_current as (s' & Hb & Hbal & _).
  specialize (P wit_state 0 1 0 1000 s' Hb).
  assert (Hn : reserves_nonneg (b_tokens (s_bk wit_state))).
  { intros t [<-|[]]. vm_compute. discriminate. }
  specialize (P ltac:(discriminate) Hn ltac:(reflexivity) ltac:(vm_compute; discriminate) 1 ltac:(discriminate)).
  rewrite Hbal in P. vm_compute in P. apply P. reflexivity.
Qed.

(* what the current code does guarantee: pro rata of the supply LEFT AFTER the burn *)
Theorem burn_pro_rata_partial : forall v s now a d x s', burn v s now a d x = Ok s' ->
  a <> MODULE -> reserves_nonneg (b_tokens (s_bk s)) -> 0 < burn_divisor v s x ->
  forall d', d' <> BDENOM ->
    (s_bal s' a d' - s_bal s a d') * burn_divisor v s x * (2 * PREC)
    <= rsum (b_tokens (s_bk s)) d' * x * (2 * PREC) + rsum (b_tokens (s_bk s)) d' * burn_divisor v s x.
Proof.
  intros v s now a d x s' H Ha Hn HS d' Hd.
  pose proof (burn_bound v s now a d x s' H Ha Hn HS) as B. cbv zeta in B.
  destruct B as (_ & _ & _ & _ & B). apply (B d' Hd).
Qed.

(* the holder of the whole supply cannot redeem it on the current code (division by zero) ... *)
Definition sole_state : state :=
  init_state (mkB 5000 [mkT 1 PREC 5000 true true true] [] 0 0 PREC 3600 1 1000000000000 1 1000000000000 1 1000000000000 false false false)
    (fun a d => if (a =? 0) && (d =? 1) then 5000 else if (a =? 1) && (d =? 0) then 5000 else 0) 5000.
Theorem burn_whole_supply_panics_current : burn current sole_state 0 1 0 5000 = Panic "division by zero".
Proof. vm_compute. reflexivity. Qed.
(* ... and gets exactly the reserves with the repaired order *)
Lemma burn_whole_supply_repaired_b :
  match burn repaired sole_state 0 1 0 5000 with Ok s' => (s_bal s' 1 1 =? 5000) && (s_supply s' =? 0) | _ => false end = true.
Proof. vm_compute. reflexivity. Qed.
Theorem burn_whole_supply_repaired : exists s', burn repaired sole_state 0 1 0 5000 = Ok s' /\ s_bal s' 1 1 = 5000 /\ s_supply s' = 0.
Proof.
  pose proof burn_whole_supply_repaired_b as H. destruct (burn repaired sole_state 0 1 0 5000) as [s'| |]; try discriminate.
  exists s'. split; [reflexivity|]. lia.
Qed.

(* ---------------------------------------------------------------- switches, limits, caps: burn *)
Theorem burn_respects_switches_and_limits : forall v s now a d x s', burn v s now a d x = Ok s' ->
  b_bd (s_bk s) = false /\ b_bmin (s_bk s) <= x
  /\ period_sum (s_hb s') now (b_period (s_bk s)) <= b_bmax (s_bk s)
  /\ s_hb s' = register (s_hb s) now x
  /\ validate_cap (b_cap (s_bk s)) (b_tokens (s_bk s')) = Ok true.
Proof.
  unfold burn. intros v s now a d x s' H. inv_ok H. injection H as <-. cbn [s_hb s_bk b_tokens set_amount set_tokens].
  match goal with Hc : negb ?b = false |- _ => destruct b; [|discriminate Hc] end. repeat split; try lia. assumption.
Qed.

Lemma withdraw_coins_disabled : forall ts p outs, withdraw_coins ts p = Ok outs ->
  forall d, (forall t, In t ts -> t_denom t = d -> t_wd t = false) -> ssum outs d = 0.
Proof.
  induction ts as [|t r IH]; simpl; intros p outs H d Hd.
  - injection H as <-. reflexivity.
  - destruct (withdraw_coins r p) as [rest| |] eqn:W; simpl in H; try discriminate.
    assert (I : ssum rest d = 0) by (apply (IH p rest W d); intros u Hu; apply Hd; right; exact Hu).
    destruct (t_wd t) eqn:Wd; simpl in H.
    + destruct (dmul (dec_of_int (t_amount t)) p) as [w| |]; simpl in H; try discriminate. injection H as <-.
      destruct (0 <? trunc_int w); [|exact I]. rewrite ssum_coins_add.
      destruct (t_denom t =? d) eqn:Q; [|lia].
      assert (t_wd t = false) by (apply Hd; [left; reflexivity|lia]). congruence.
    + injection H as <-. exact I.
Qed.
(* ---------------------------------------------------------------- books match the bank *)
Definition Books (s : state) : Prop :=
  s_supply s = b_amount (s_bk s) /\
  forall d, rsum (b_tokens (s_bk s)) d + ssum (b_surplus (s_bk s)) d <= s_bal s MODULE d.

Lemma add_token_rsum : forall ts d x d', find_token ts d <> None ->
  rsum (add_token ts d x) d' = rsum ts d' + (if d =? d' then x else 0).
Proof.
  induction ts as [|t r IH]; simpl; intros d x d' H; [congruence|].
  destruct (t_denom t =? d) eqn:Q.
  - rewrite !rsum_cons. cbn [with_amount t_denom t_amount]. destruct (t_denom t =? d') eqn:Q2, (d =? d') eqn:Q3; lia.
  - rewrite !rsum_cons, IH by assumption. lia.
Qed.
Lemma find_add_token : forall ts d x e, find_token (add_token ts d x) e <> None <-> find_token ts e <> None.
Proof.
  induction ts as [|t r IH]; simpl; intros d x e; [tauto|].
  destruct (t_denom t =? d) eqn:Q; simpl.
  - destruct (t_denom t =? e); [split; congruence|tauto].
  - destruct (t_denom t =? e); [split; congruence|apply IH].
Qed.

Lemma inc_tokens_rsum : forall cs ts ts', inc_tokens ts cs = Ok ts' -> forall d, rsum ts' d = rsum ts d + ssum cs d.
Proof.
  induction cs as [|[e y] r IH]; simpl; intros ts ts' H d.
  - injection H as <-. rewrite ssum_nil. lia.
  - destruct (find_token ts e) eqn:F; [|discriminate].
    rewrite (IH _ _ H d), add_token_rsum, ssum_cons by congruence. simpl. lia.
Qed.
Lemma dec_tokens_rsum : forall cs ts ts', dec_tokens ts cs = Ok ts' -> forall d, rsum ts' d = rsum ts d - ssum cs d.
Proof.
  induction cs as [|[e y] r IH]; simpl; intros ts ts' H d.
  - injection H as <-. rewrite ssum_nil. lia.
  - destruct (find_token ts e) eqn:F; [|discriminate].
    destruct (t_amount t - y <? 0); [discriminate|].
    rewrite (IH _ _ H d), add_token_rsum, ssum_cons by congruence. simpl. destruct (e =? d); lia.
Qed.

Lemma mint_books : forall s now a dep s', mint s now a dep = Ok s' -> a <> MODULE -> Books s -> Books s'.
Proof.
  unfold mint, Books. intros s now a dep s' H Ha [B1 B2]. inv_ok H. injection H as <-.
  cbn [s_supply s_bk s_bal b_amount b_tokens b_surplus set_amount set_tokens]. split; [lia|].
  intros d. rewrite (inc_tokens_rsum _ _ _ E0 d), bal_add_at, send_spec by congruence.
  specialize (B2 d). unfold MODULE in *. destruct (0 =? a) eqn:Q; [lia|]. simpl. lia.
Qed.

Lemma burn_books : forall v s now a d x s', burn v s now a d x = Ok s' -> a <> MODULE -> Books s -> Books s'.
Proof.
  unfold burn, Books. intros v s now a d x s' H Ha [B1 B2]. inv_ok H. injection H as <-.
  cbn [s_supply s_bk s_bal b_amount b_tokens b_surplus set_amount set_tokens]. split; [lia|].
  intros d'. rewrite (dec_tokens_rsum _ _ _ E2 d'), send_spec, bal_add_at by (unfold MODULE in *; lia).
  specialize (B2 d'). unfold MODULE in *. destruct (0 =? a) eqn:Q; [lia|]. simpl. lia.
Qed.

(* swap: while the pairs are processed the module also holds what is still to be paid out *)
Definition fee_ok (b : basket) : Prop := 0 <= b_fee b <= PREC.
Definition AccInv (acc : swap_acc) : Prop :=
  forall d, rsum (a_ts acc) d + ssum (a_sur acc) d + ssum (a_outs acc) d <= a_bal acc MODULE d.

Lemma swap_pair_inv : forall b now a acc p acc', swap_pair b now a acc p = Ok acc' ->
  a <> MODULE -> fee_ok b -> AccInv acc -> AccInv acc'.
Proof.
  unfold swap_pair, AccInv, fee_ok. intros b now a acc [[din xin] dout] acc' H Ha Hf I.
  inv_ok H. injection H as <-. cbn [a_ts a_sur a_bal a_outs]. intros d. specialize (I d).
  apply dmul_int_l in E0.
  assert (F1 : find_token (a_ts acc) din <> None) by congruence.
  assert (F2 : find_token (add_token (a_ts acc) din (trunc_int a1)) dout <> None) by congruence.
  rewrite !add_token_rsum by assumption. rewrite ssum_coins_add, !bal_add_at.
  pose proof PREC_pos as HP.
  assert (X : 0 <= a1 /\ a1 <= xin * PREC).
  { subst a1. unfold dec_one, dec in *. split; [apply Z.mul_nonneg_nonneg; lia|apply Z.mul_le_mono_nonneg_l; lia]. }
  destruct X as [X0 X1].
  pose proof (chop_trunc_bounds a1 X0) as TB. unfold trunc_int in *.
  assert (chop_trunc a1 <= xin) by nia.
  unfold MODULE in *. destruct (0 =? a) eqn:Q; [lia|]. cbn [andb].
  destruct (0 <? xin - chop_trunc a1) eqn:P.
  - rewrite ssum_coins_add. destruct (din =? d) eqn:Q1, (dout =? d) eqn:Q2, (d =? din) eqn:Q3; simpl; lia.
  - destruct (din =? d) eqn:Q1, (dout =? d) eqn:Q2, (d =? din) eqn:Q3; simpl; lia.
Qed.
Lemma swap_pairs_inv : forall ps b now a acc acc', swap_pairs b now a acc ps = Ok acc' ->
  a <> MODULE -> fee_ok b -> AccInv acc -> AccInv acc'.
Proof.
  induction ps as [|p r IH]; simpl; intros b now a acc acc' H Ha Hf I.
  - injection H as <-. exact I.
  - destruct (swap_pair b now a acc p) as [acc1| |] eqn:E; simpl in H; try discriminate.
    eapply IH; eauto. eapply swap_pair_inv; eauto.
Qed.
Lemma final_outs_sum : forall omf outs ff, final_outs omf outs = Ok ff ->
  forall d, ssum (fst ff) d + ssum (snd ff) d = ssum outs d.
Proof.
  induction outs as [|[e x] r IH]; simpl; intros ff H d.
  - injection H as <-. reflexivity.
  - inv_ok H. injection H as <-. cbn [fst snd]. specialize (IH _ eq_refl d).
    destruct (trunc_int a =? 0) eqn:Z0; rewrite !ssum_cons; cbn [fst snd]; destruct (e =? d); lia.
Qed.

Lemma swap_books : forall s now a ps s', swap s now a ps = Ok s' -> a <> MODULE -> fee_ok (s_bk s) -> Books s -> Books s'.
Proof.
  unfold swap, Books. intros s now a ps s' H Ha Hf [B1 B2]. inv_ok H. injection H as <-.
  cbn [s_supply s_bk s_bal b_amount b_tokens b_surplus set_surplus set_tokens]. split; [exact B1|].
  intros d.
  assert (I : AccInv a1).
  { eapply swap_pairs_inv; eauto. unfold AccInv. cbn [a_ts a_sur a_bal a_outs]. intros d0. rewrite ssum_nil. specialize (B2 d0). lia. }
  specialize (I d). pose proof (final_outs_sum _ _ _ E2 d) as FS.
  rewrite ssum_coins_add_all, send_spec by (unfold MODULE in *; lia).
  unfold MODULE in *. destruct (0 =? a) eqn:Q; [lia|]. simpl. lia.
Qed.
(* ---------------------------------------------------------------- invariant over histories *)
Lemma slash_token_rsum : forall ts d sl ts', slash_token ts d sl = Ok ts' -> forall d', rsum ts' d' = rsum ts d'.
Proof.
  induction ts as [|t r IH]; cbn [slash_token]; intros d sl ts' H d'.
  - injection H as <-. reflexivity.
  - destruct (slash_token r d sl) as [rest| |] eqn:E; cbn [bind] in H; try discriminate.
    specialize (IH _ _ _ E d').
    destruct (t_denom t =? d).
    + destruct (dmul (t_weight t) (dec_one - sl)); cbn [bind] in H; try discriminate. injection H as <-.
      rewrite !rsum_cons. cbn [t_denom t_amount]. lia.
    + injection H as <-. rewrite !rsum_cons. lia.
Qed.

(* operations of holders (never the module account itself), emergency switches, hooks, end block,
   weight slashes.  Edits are treated separately below; the pool-upsert hook is excluded (refuted). *)
Definition op_ok (o : op) : Prop :=
  match o with
  | OMint _ a _ | OBurn _ a _ _ | OSwap _ a _ => a <> MODULE
  | OEdit _ => False
  | OUpsertHook se => se = false
  | _ => True
  end.
Definition Inv (s : state) : Prop := Books s /\ fee_ok (s_bk s).

Lemma step_inv : forall v s o s', step v s o = Ok s' -> op_ok o -> Inv s -> Inv s'.
Proof.
  intros v s o s' H Hok [B F]. destruct o; cbn [step] in H; cbn [op_ok] in Hok.
  - split; [eapply mint_books; eauto|]. unfold mint in H. inv_ok H. injection H as <-. exact F.
  - split; [eapply burn_books; eauto|]. unfold burn in H. inv_ok H. injection H as <-. exact F.
  - split; [eapply swap_books; eauto|]. unfold swap in H. inv_ok H. injection H as <-. exact F.
  - contradiction.
  - destruct (negb allowed); [discriminate|]. injection H as <-. split; [exact B|exact F].
  - injection H as <-. split; assumption.
  - injection H as <-. split; assumption.
  - destruct (slash_token (b_tokens (s_bk s)) d slash) as [ts| |] eqn:E; cbn [bind] in H; try discriminate.
    injection H as <-. split; [|exact F]. destruct B as [B1 B2]. split; [exact B1|].
    intros d'. cbn [with_bk s_bk s_bal set_tokens b_tokens b_surplus]. rewrite (slash_token_rsum _ _ _ _ E d'). apply B2.
  - injection H as <-. split; assumption.
  - subst stake_enabled. cbn [andb] in H. injection H as <-. split; assumption.
Qed.

Theorem books_match_bank : forall v ops s, Forall op_ok ops -> Inv s -> Inv (run v s ops).
Proof.
  intros v ops. unfold run. induction ops as [|o r IH]; simpl; intros s Hok I; [exact I|].
  inversion Hok as [|? ? H1 H2]; subst. apply IH; [exact H2|].
  unfold apply. destruct (step v s o) as [s'| |] eqn:E; try exact I. eapply step_inv; eauto.
Qed.

(* an edit under the repaired variant touches neither the recorded amount, the surplus, the bank ... *)
Theorem edit_keeps_amount_repaired : forall v s new s', v_edit_keep v = true -> edit v s new = Ok s' ->
  b_amount (s_bk s') = b_amount (s_bk s) /\ s_supply s' = s_supply s /\ b_surplus (s_bk s') = b_surplus (s_bk s)
  /\ s_bal s' = s_bal s.
Proof.
  unfold edit. intros v s new s' Hv H. rewrite Hv in H. inv_ok H. injection H as <-. repeat split.
Qed.
(* ... and always leaves the supply covered by the new valuation of the reserves *)
Theorem edit_leaves_supply_covered : forall v s new s', edit v s new = Ok s' ->
  exists vs, token_values (b_tokens (s_bk s')) = Ok vs /\ s_supply s' <= trunc_int (zsum vs).
Proof.
  unfold edit. intros v s new s' H. inv_ok H. injection H as <-.
  exists a0. destruct (v_edit_keep v); cbn [s_supply s_bk b_tokens set_amount set_surplus set_tokens]; (split; [exact E0|lia]).
Qed.

(* the code as it is: an edit proposal that changes only the fee and leaves the amount field at 0 *)
Definition edit_wit : basket :=
  mkB 0 [mkT 1 PREC 0 true true true] [] 20000000000000000 0 PREC 3600 1 1000000000000 1 1000000000000 1 1000000000000 false false false.
Lemma wit_books : Books wit_state.
Proof.
  split; [reflexivity|]. intros d. unfold wit_state, init_state, wit_basket. cbn [s_bk s_bal b_tokens b_surplus].
  rewrite rsum_cons, ssum_nil, rsum_nil. cbn [t_denom t_amount]. unfold MODULE.
  change ((0 =? 0) && (d =? 1)) with (d =? 1).
  change (((0 =? 1) || (0 =? 2)) && (d =? 0)) with false. destruct (1 =? d) eqn:Q, (d =? 1) eqn:Q2; lia.
Qed.
Lemma edit_wit_b : match edit before_68b9c08 wit_state edit_wit with Ok s' => (s_supply s' =? 2000) && (b_amount (s_bk s') =? 0) | _ => false end = true.
Proof. vm_compute. reflexivity. Qed.
Theorem books_edit_refuted : exists s new s', Books s /\ edit before_68b9c08 s new = Ok s' /\ s_supply s' <> b_amount (s_bk s').
Proof.
  exists wit_state, edit_wit. pose proof edit_wit_b as H.
  destruct (edit before_68b9c08 wit_state edit_wit) as [s'| |]; try discriminate.
  exists s'. split; [exact wit_books|]. split; [reflexivity|]. lia.
Qed.
(* the pool-upsert hook replaces the record: supply in circulation, recorded amount zero *)
Theorem books_upsert_hook_refuted : exists s, Books s /\ ~ Books (apply current s (OUpsertHook true)).
Proof.
  exists wit_state. split; [exact wit_books|]. intros [B _]. vm_compute in B. discriminate.
Qed.
(* ---------------------------------------------------------------- swap: value out <= value in less fees *)
Theorem swap_pair_value : forall b now a acc din xin dout acc' tin tout,
  swap_pair b now a acc (din, xin, dout) = Ok acc' -> fee_ok b ->
  find_token (a_ts acc) din = Some tin -> find_token (a_ts acc) dout = Some tout ->
  0 < t_weight tin -> 0 < t_weight tout ->
  exists out, a_outs acc' = coins_add (a_outs acc) dout out /\ 0 < out /\ 0 < xin
    /\ t_sw tin = true /\ t_sw tout = true /\ b_smin b <= trunc_int (xin * t_weight tin)
    /\ 2 * out * t_weight tout * PREC <= 2 * xin * (PREC - b_fee b) * t_weight tin + t_weight tout.
Proof.
  unfold swap_pair, fee_ok. intros b now a acc din xin dout acc' tin tout H Hf Fi Fo Wi Wo.
  rewrite Fi, Fo in H. inv_ok H. injection H as <-. cbn [a_outs].
  apply dmul_int_l in E, E0, E1. unfold dec, dec_one in *. subst a0 a1 a2.
  pose proof PREC_pos as HP.
  set (A1 := xin * (PREC - b_fee b)) in *.
  assert (X0 : 0 <= A1) by (apply Z.mul_nonneg_nonneg; lia).
  pose proof (chop_trunc_bounds A1 X0) as TB. pose proof (chop_trunc_nonneg A1 X0) as TN. unfold trunc_int in *.
  set (sa := chop_trunc A1) in *.
  assert (Q0 : 0 <= sa * t_weight tin) by (apply Z.mul_nonneg_nonneg; lia).
  apply dquo_bound in E2; [|exact Q0|exact Wo]. destruct E2 as [R0 R1].
  pose proof (chop_trunc_bounds a3 R0) as TB3. set (out := chop_trunc a3) in *.
  exists out. destruct (t_sw tin), (t_sw tout); try discriminate.
  repeat split; try lia.
  assert (K1 : 2 * (out * PREC) * t_weight tout <= 2 * a3 * t_weight tout) by (apply Z.mul_le_mono_nonneg_r; lia).
  assert (K2 : sa * PREC * t_weight tin <= A1 * t_weight tin) by (apply Z.mul_le_mono_nonneg_r; lia).
  replace (2 * xin * (PREC - b_fee b) * t_weight tin) with (2 * A1 * t_weight tin) by (unfold A1; ring).
  clearbody out sa A1. clear - K1 K2 R1 HP Wo.
  assert (K3 : 2 * out * t_weight tout * PREC * PREC <= (2 * A1 * t_weight tin + t_weight tout) * PREC) by nia.
  apply Z.mul_le_mono_pos_r in K3; [lia|exact HP].
Qed.

(* the slippage fee only lowers what is paid *)
Lemma final_outs_le : forall omf outs ff, final_outs omf outs = Ok ff -> forall d, ssum (fst ff) d <= ssum outs d.
Proof.
  intros omf outs ff H d. pose proof (final_outs_sum _ _ _ H d) as S.
  assert (0 <= ssum (snd ff) d); [|lia]. clear S. revert ff H.
  induction outs as [|[e x] r IH]; simpl; intros ff H.
  - injection H as <-. rewrite ssum_nil. lia.
  - inv_ok H. injection H as <-. cbn [snd]. rewrite ssum_cons. cbn [fst snd]. specialize (IH _ eq_refl).
    destruct (e =? d); lia.
Qed.

(* disabled swaps are rejected *)
Theorem swap_respects_switch : forall s now a ps s', swap s now a ps = Ok s' -> b_sd (s_bk s) = false.
Proof. unfold swap. intros s now a ps s' H. inv_ok H. reflexivity. Qed.
Theorem burn_disabled_token_pays_nothing : forall ts p outs, withdraw_coins ts p = Ok outs ->
  forall d, (forall t, In t ts -> t_denom t = d -> t_wd t = false) -> ssum outs d = 0.
Proof. exact withdraw_coins_disabled. Qed.
