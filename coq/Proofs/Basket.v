From Sekai Require Import Base.Prelude Base.Dec Model.Basket Model.C11Check.
From Coq Require Import ZifyBool.

Lemma PREC_pos : 0 < PREC. Proof. reflexivity. Qed.
Lemma HALF2 : 2 * HALF = PREC. Proof. reflexivity. Qed.

Lemma chop_round_pos_mul : forall x, chop_round_pos (x * PREC) = x.
Proof.
  intros x. unfold chop_round_pos.
  rewrite Z.mod_mul by (unfold PREC; lia). rewrite Z.div_mul by (unfold PREC; lia).
  reflexivity.
Qed.
Lemma chop_round_mul : forall x, chop_round (x * PREC) = x.
Proof.
  intros x. unfold chop_round. pose proof PREC_pos.
  destruct (x * PREC <? 0) eqn:E.
  - replace (- (x * PREC)) with ((- x) * PREC) by ring. rewrite chop_round_pos_mul. ring.
  - apply chop_round_pos_mul.
Qed.

(* banker's rounding moves a non-negative value by at most half a unit *)
Lemma chop_round_pos_bounds : forall d, 0 <= d ->
  2 * d - PREC <= 2 * PREC * chop_round_pos d <= 2 * d + PREC.
Proof.
  intros d Hd. unfold chop_round_pos. pose proof PREC_pos as HP. pose proof HALF2 as HH.
  pose proof (Z.div_mod d PREC ltac:(lia)) as E.
  pose proof (Z.mod_pos_bound d PREC HP) as B.
  set (q := d / PREC) in *. set (r := d mod PREC) in *.
  destruct (r =? 0) eqn:E0; [nia|].
  destruct (r <? HALF) eqn:E1; [nia|].
  destruct (HALF <? r) eqn:E2; [nia|].
  destruct (Z.even q); nia.
Qed.
Lemma chop_round_bounds : forall d, 0 <= d ->
  2 * d - PREC <= 2 * PREC * chop_round d <= 2 * d + PREC.
Proof.
  intros d Hd. unfold chop_round. destruct (d <? 0) eqn:E; [lia|]. apply chop_round_pos_bounds; lia.
Qed.
Lemma chop_round_nonneg : forall d, 0 <= d -> 0 <= chop_round d.
Proof. intros d Hd. pose proof (chop_round_bounds d Hd). pose proof PREC_pos. nia. Qed.

Lemma chop_trunc_bounds : forall d, 0 <= d -> chop_trunc d * PREC <= d < (chop_trunc d + 1) * PREC.
Proof.
  intros d Hd. unfold chop_trunc. pose proof PREC_pos as HP.
  rewrite Z.quot_div_nonneg by lia.
  pose proof (Z.div_mod d PREC ltac:(lia)). pose proof (Z.mod_pos_bound d PREC HP). nia.
Qed.
Lemma chop_trunc_nonneg : forall d, 0 <= d -> 0 <= chop_trunc d.
Proof. intros d Hd. pose proof (chop_trunc_bounds d Hd). pose proof PREC_pos. nia. Qed.
Lemma chop_trunc_nonpos : forall d, d <= 0 -> chop_trunc d <= 0.
Proof.
  intros d Hd. unfold chop_trunc. pose proof PREC_pos.
  replace d with (- (- d)) by ring. rewrite Z.quot_opp_l by lia.
  pose proof (Z.quot_pos (- d) PREC ltac:(lia) ltac:(lia)). lia.
Qed.

Lemma dmul_int_l : forall a w r, dmul (dec_of_int a) w = Ok r -> r = a * w.
Proof.
  unfold dmul, dec_of_int. intros a w r H.
  replace (a * PREC * w) with (a * w * PREC) in H by ring. rewrite chop_round_mul in H.
  destruct (dec_in_range (a * w)); congruence.
Qed.
Lemma dquo_bound : forall a b r, dquo a b = Ok r -> 0 <= a -> 0 < b ->
  0 <= r /\ 2 * r * b <= 2 * a * PREC + b.
Proof.
  unfold dquo. intros a b r H Ha Hb. pose proof PREC_pos as HP.
  destruct (b =? 0) eqn:E; [lia|].
  destruct (dec_in_range _); [|discriminate]. injection H as <-.
  assert (Hq : 0 <= Z.quot (a * PREC * PREC) b) by (apply Z.quot_pos; nia).
  pose proof (chop_round_bounds _ Hq) as B. split; [apply chop_round_nonneg; auto|].
  assert (Z.quot (a * PREC * PREC) b * b <= a * PREC * PREC).
  { rewrite Z.quot_div_nonneg by nia. pose proof (Z.div_mod (a*PREC*PREC) b ltac:(lia)).
    pose proof (Z.mod_pos_bound (a*PREC*PREC) b Hb). nia. }
  set (q := Z.quot (a * PREC * PREC) b) in *. set (c := chop_round q) in *.
  assert (2 * PREC * c * b <= (2 * q + PREC) * b) by nia.
  nia.
Qed.
Ltac inv_ok H :=
  repeat (match type of H with
  | bind ?o _ = Ok _ => let E := fresh "E" in destruct o eqn:E; cbn [bind] in H; [|discriminate H|discriminate H]
  | (if ?c then _ else _) = Ok _ => let E := fresh "C" in destruct c eqn:E; try discriminate H
  | (match ?o with _ => _ end) = Ok _ => let E := fresh "M" in destruct o eqn:E; try discriminate H
  end).

(* ---------------------------------------------------------------- mint *)
Definition dep_value (ts : list token) (dep : coins) : Z :=
  zsum (map (fun c => match find_token ts (fst c) with Some t => snd c * t_weight t | None => 0 end) dep).

Lemma mint_value_spec : forall ts dep acc v, mint_value ts dep acc = Ok v ->
  v = acc + dep_value ts dep /\ forallb (fun c => match find_token ts (fst c) with Some t => t_dep t | None => false end) dep = true.
Proof.
  induction dep as [|[d x] r IH]; simpl; intros acc v H.
  - injection H as <-. unfold dep_value. simpl. split; [unfold dec in *; lia|reflexivity].
  - unfold dep_value in *. simpl.
    destruct (find_token ts d) as [t|] eqn:F; [|discriminate].
    destruct (t_dep t) eqn:D; simpl in H; [|discriminate].
    destruct (dmul (dec_of_int x) (t_weight t)) eqn:M; simpl in H; try discriminate.
    apply dmul_int_l in M. subst a. apply IH in H. destruct H as [-> Hf]. split; [unfold dec in *; lia|exact Hf].
Qed.

Theorem mint_le_value : forall s now a dep s', mint s now a dep = Ok s' ->
  let minted := b_amount (s_bk s') - b_amount (s_bk s) in
  0 < minted /\ minted * PREC <= dep_value (b_tokens (s_bk s)) dep
  /\ s_supply s' = s_supply s + minted.
Proof.
  unfold mint. intros s now a dep s' H. inv_ok H. injection H as <-. simpl.
  apply mint_value_spec in E. destruct E as [E _]. simpl in E. subst a0.
  set (v := dep_value (b_tokens (s_bk s)) dep) in *.
  replace (b_amount (s_bk s) + trunc_int v - b_amount (s_bk s)) with (trunc_int v) by ring.
  assert (0 < trunc_int v) by lia.
  assert (0 <= v). { destruct (Z_lt_le_dec v 0); [|lia]. pose proof (chop_trunc_nonpos v ltac:(lia)). unfold trunc_int in *. lia. }
  pose proof (chop_trunc_bounds v H0). unfold trunc_int in *. repeat split; lia.
Qed.

Theorem mint_respects_switches : forall s now a dep s', mint s now a dep = Ok s' ->
  b_md (s_bk s) = false /\
  forallb (fun c => match find_token (b_tokens (s_bk s)) (fst c) with Some t => t_dep t | None => false end) dep = true.
Proof.
  unfold mint. intros s now a dep s' H. inv_ok H. apply mint_value_spec in E. split; [reflexivity|apply E].
Qed.

Theorem mint_respects_limits_and_caps : forall s now a dep s', mint s now a dep = Ok s' ->
  let minted := b_amount (s_bk s') - b_amount (s_bk s) in
  b_mmin (s_bk s) <= minted
  /\ period_sum (s_hm s') now (b_period (s_bk s)) <= b_mmax (s_bk s)
  /\ s_hm s' = register (s_hm s) now minted
  /\ validate_cap (b_cap (s_bk s)) (b_tokens (s_bk s')) = Ok true.
Proof.
  unfold mint. intros s now a dep s' H. inv_ok H. injection H as <-. simpl.
  replace (b_amount (s_bk s) + trunc_int a0 - b_amount (s_bk s)) with (trunc_int a0) by ring.
  destruct a2; [|discriminate]. repeat split; try lia. exact E1.
Qed.
(* ---------------------------------------------------------------- sums per denomination *)
Definition rsum (ts : list token) (d : Z) : Z := zsum (map (fun t => if t_denom t =? d then t_amount t else 0) ts).
Definition ssum (cs : coins) (d : Z) : Z := zsum (map (fun c => if fst c =? d then snd c else 0) cs).

Lemma ssum_cons : forall c cs d, ssum (c :: cs) d = (if fst c =? d then snd c else 0) + ssum cs d.
Proof. reflexivity. Qed.
Lemma rsum_cons : forall t ts d, rsum (t :: ts) d = (if t_denom t =? d then t_amount t else 0) + rsum ts d.
Proof. reflexivity. Qed.

Lemma ssum_nil : forall d, ssum [] d = 0. Proof. reflexivity. Qed.
Lemma rsum_nil : forall d, rsum [] d = 0. Proof. reflexivity. Qed.
Lemma ssum_coins_add : forall cs d x d', ssum (coins_add cs d x) d' = ssum cs d' + (if d =? d' then x else 0).
Proof.
  induction cs as [|[e y] r IH]; intros d x d'; simpl.
  - destruct (x =? 0) eqn:X; rewrite ?ssum_cons, ?ssum_nil; simpl; destruct (d =? d'); lia.
  - destruct (x =? 0) eqn:X; [destruct (d =? d'); lia|].
    destruct (d <? e) eqn:L.
    + rewrite !ssum_cons. simpl. lia.
    + destruct (d =? e) eqn:Q.
      * assert (d = e) by lia. subst e.
        destruct (y + x =? 0) eqn:Z0; rewrite ?ssum_cons; simpl; destruct (d =? d'); lia.
      * rewrite !ssum_cons. simpl. rewrite IH. lia.
Qed.
Lemma ssum_coins_add_all : forall ds cs d', ssum (coins_add_all cs ds) d' = ssum cs d' + ssum ds d'.
Proof.
  unfold coins_add_all. induction ds as [|[e y] r IH]; intros cs d'; simpl.
  - rewrite ssum_nil. lia.
  - rewrite IH, ssum_coins_add, ssum_cons. simpl. lia.
Qed.

Lemma bal_add_at : forall bal a d x a' d', bal_add bal a d x a' d' = bal a' d' + (if (a' =? a) && (d' =? d) then x else 0).
Proof. intros. unfold bal_add. destruct ((a' =? a) && (d' =? d)); lia. Qed.

Lemma send_spec : forall cs bal from to a d, from <> to ->
  send bal from to cs a d = bal a d + (if a =? to then ssum cs d else 0) - (if a =? from then ssum cs d else 0).
Proof.
  unfold send. induction cs as [|[e y] r IH]; intros bal from to a d Hne; simpl.
  - rewrite ssum_nil. destruct (a =? to), (a =? from); lia.
  - rewrite IH by assumption. rewrite !bal_add_at, !ssum_cons. simpl.
    destruct (a =? to) eqn:A1, (a =? from) eqn:A2, (e =? d) eqn:A3, (d =? e) eqn:A4; simpl; lia.
Qed.

(* ---------------------------------------------------------------- burn *)
Definition reserves_nonneg (ts : list token) : Prop := forall t, In t ts -> 0 <= t_amount t.

Lemma rsum_nonneg : forall ts d, reserves_nonneg ts -> 0 <= rsum ts d.
Proof.
  induction ts as [|t r IH]; intros d Hn; [unfold rsum; simpl; lia|].
  rewrite rsum_cons. assert (0 <= t_amount t) by (apply Hn; left; reflexivity).
  assert (0 <= rsum r d) by (apply IH; intros u Hu; apply Hn; right; exact Hu).
  destruct (t_denom t =? d); lia.
Qed.

Lemma withdraw_coins_bound : forall ts p outs, withdraw_coins ts p = Ok outs -> 0 <= p -> reserves_nonneg ts ->
  forall d, 0 <= ssum outs d /\ ssum outs d * PREC <= rsum ts d * p.
Proof.
  induction ts as [|t r IH]; simpl; intros p outs H Hp Hn d.
  - injection H as <-. rewrite ssum_nil. unfold rsum. simpl. lia.
  - destruct (withdraw_coins r p) as [rest| |] eqn:W; simpl in H; try discriminate.
    assert (Hr : reserves_nonneg r) by (intros u Hu; apply Hn; right; exact Hu).
    assert (Ht : 0 <= t_amount t) by (apply Hn; left; reflexivity).
    destruct (IH p rest W Hp Hr d) as [I0 I1].
    rewrite rsum_cons.
    destruct (t_wd t); simpl in H.
    + destruct (dmul (dec_of_int (t_amount t)) p) as [w| |] eqn:M; simpl in H; try discriminate.
      apply dmul_int_l in M. injection H as <-.
      assert (0 <= w) by nia.
      pose proof (chop_trunc_bounds w H) as B. pose proof (chop_trunc_nonneg w H) as B0. unfold trunc_int.
      destruct (0 <? chop_trunc w) eqn:P.
      * rewrite ssum_coins_add. destruct (t_denom t =? d); nia.
      * destruct (t_denom t =? d); nia.
    + injection H as <-. destruct (t_denom t =? d); nia.
Qed.

(* the divisor the burn uses: the supply before the burn in the repaired variant, the supply
   left after it in the current code *)
Definition burn_divisor (v : variant) (s : state) (x : Z) : Z :=
  if v_burn_pre v then s_supply s else s_supply s - x.

Lemma burn_bound : forall v s now a d x s', burn v s now a d x = Ok s' ->
  a <> MODULE -> reserves_nonneg (b_tokens (s_bk s)) -> 0 < burn_divisor v s x ->
  let S := burn_divisor v s x in
  d = BDENOM /\ 0 < x /\ s_supply s' = s_supply s - x /\ b_amount (s_bk s') = b_amount (s_bk s) - x
  /\ forall d', d' <> BDENOM ->
       0 <= s_bal s' a d' - s_bal s a d' /\
       (s_bal s' a d' - s_bal s a d') * S * (2 * PREC) <= rsum (b_tokens (s_bk s)) d' * x * (2 * PREC) + rsum (b_tokens (s_bk s)) d' * S.
Proof.
  unfold burn, burn_divisor. intros v s now a d x s' H Ha Hn HS. cbv zeta.
  inv_ok H. injection H as Hs'. symmetry in Hs'.
  assert (d = BDENOM) by lia. subst d.
  set (S := if v_burn_pre v then s_supply s else s_supply s - x) in *.
  pose proof PREC_pos as HP.
  apply dquo_bound in E; unfold dec_of_int in *; try nia.
  destruct E as [P0 P1].
  assert (P2 : 2 * a0 * S <= 2 * x * PREC + S) by nia.
  assert (Hb : forall d', d' <> BDENOM -> s_bal s' a d' - s_bal s a d' = ssum a1 d').
  { intros d' Hd. subst s'. simpl. rewrite send_spec by (unfold MODULE in *; lia). rewrite bal_add_at.
    destruct (a =? MODULE) eqn:A; [unfold MODULE in *; lia|]. rewrite Z.eqb_refl.
    unfold BDENOM in *. destruct (d' =? 0) eqn:Q; simpl; lia. }
  subst s'. cbn [s_supply s_bk s_bal b_amount set_amount set_tokens b_tokens] in *.
  repeat split; try lia.
  - rewrite (Hb d' H). apply (withdraw_coins_bound _ _ _ E0 P0 Hn d').
  - rewrite (Hb d' H).
    pose proof (withdraw_coins_bound _ _ _ E0 P0 Hn d') as [B0 B1].
    set (o := ssum a1 d') in *. set (r := rsum (b_tokens (s_bk s)) d') in *.
    assert (0 <= r) by (apply rsum_nonneg; exact Hn).
    assert (K1 : o * PREC * (2 * S) <= r * a0 * (2 * S)) by (apply Z.mul_le_mono_nonneg_r; lia).
    assert (K2 : r * (2 * a0 * S) <= r * (2 * x * PREC + S)) by (apply Z.mul_le_mono_nonneg_l; lia).
    clearbody o r S. clear - K1 K2. nia.
Qed.

(* "burning a fraction of the supply returns at most that fraction of each reserve": the fraction
   is taken of the supply BEFORE the burn.  Holds for the repaired order of reads ... *)
Definition pro_rata_statement (v : variant) : Prop :=
  forall s now a d x s', burn v s now a d x = Ok s' ->
  a <> MODULE -> reserves_nonneg (b_tokens (s_bk s)) -> 0 < s_supply s -> x <= s_supply s ->
  forall d', d' <> BDENOM ->
    (s_bal s' a d' - s_bal s a d') * s_supply s * (2 * PREC)
    <= rsum (b_tokens (s_bk s)) d' * x * (2 * PREC) + rsum (b_tokens (s_bk s)) d' * s_supply s.

Theorem burn_pro_rata_fixed : forall v, v_burn_pre v = true -> pro_rata_statement v.
Proof.
  intros v Hv s now a d x s' H Ha Hn HS Hx d' Hd.
  pose proof (burn_bound v s now a d x s' H Ha Hn) as B. unfold burn_divisor in B. rewrite Hv in B.
  specialize (B HS). cbv zeta in B. destruct B as (_ & _ & _ & _ & B). apply (B d' Hd).
Qed.

(* ... and is false for the code as it is: two holders own 1000 each of a supply of 2000 backed by
   2000 units; the first burns his 1000 and receives all 2000 *)
Definition wit_basket : basket :=
  mkB 2000 [mkT 1 PREC 2000 true true true] [] 0 0 PREC 3600 1 1000000000000 1 1000000000000 1 1000000000000 false false false.
Definition wit_state : state :=
  init_state wit_basket
    (fun a d => if (a =? 0) && (d =? 1) then 2000 else if ((a =? 1) || (a =? 2)) && (d =? 0) then 1000 else 0) 2000 [].
(* the tree as it is (68b9c08 keeps the amount in EditBasket), the tree before that commit, and
   the tree with every proposed repair *)
Definition current : variant := mkV false true true false.
Definition before_68b9c08 : variant := mkV false false false false.
Definition before_853c45f : variant := mkV false true false false.
Definition repaired : variant := mkV true true true true.

Lemma wit_burn_current_b :
  match burn current wit_state 0 1 0 1000 with
  | Ok s' => (s_bal s' 1 1 =? 2000) && (s_bal s' MODULE 1 =? 0) && (s_supply s' =? 1000) && (rsum (b_tokens (s_bk s')) 1 =? 0)
  | _ => false end = true.
Proof. vm_compute. reflexivity. Qed.
Lemma wit_burn_current : exists s', burn current wit_state 0 1 0 1000 = Ok s' /\ s_bal s' 1 1 = 2000 /\ s_bal s' MODULE 1 = 0
                                    /\ s_supply s' = 1000 /\ rsum (b_tokens (s_bk s')) 1 = 0.
Proof.
  pose proof wit_burn_current_b as H. destruct (burn current wit_state 0 1 0 1000) as [s'| |]; try discriminate.
  exists s'. split; [reflexivity|]. lia.
Qed.

Theorem burn_pro_rata_refuted : ~ pro_rata_statement current.
Proof.
  intros P. destruct wit_burn_current as (s' & Hb & Hbal & _).
  specialize (P wit_state 0 1 0 1000 s' Hb).
  assert (Hn : reserves_nonneg (b_tokens (s_bk wit_state))).
  { intros t [<-|[]]. vm_compute. discriminate. }
  specialize (P ltac:(discriminate) Hn ltac:(reflexivity) ltac:(vm_compute; discriminate) 1 ltac:(discriminate)).
  rewrite Hbal in P. vm_compute in P. apply P. reflexivity.
Qed.

(* what the current code does guarantee: pro rata of the supply LEFT AFTER the burn *)
Theorem burn_pro_rata_partial : forall v s now a d x s', burn v s now a d x = Ok s' ->
  a <> MODULE -> reserves_nonneg (b_tokens (s_bk s)) -> 0 < burn_divisor v s x ->
  forall d', d' <> BDENOM ->
    (s_bal s' a d' - s_bal s a d') * burn_divisor v s x * (2 * PREC)
    <= rsum (b_tokens (s_bk s)) d' * x * (2 * PREC) + rsum (b_tokens (s_bk s)) d' * burn_divisor v s x.
Proof.
  intros v s now a d x s' H Ha Hn HS d' Hd.
  pose proof (burn_bound v s now a d x s' H Ha Hn HS) as B. cbv zeta in B.
  destruct B as (_ & _ & _ & _ & B). apply (B d' Hd).
Qed.

(* the holder of the whole supply cannot redeem it on the current code (division by zero) ... *)
Definition sole_state : state :=
  init_state (mkB 5000 [mkT 1 PREC 5000 true true true] [] 0 0 PREC 3600 1 1000000000000 1 1000000000000 1 1000000000000 false false false)
    (fun a d => if (a =? 0) && (d =? 1) then 5000 else if (a =? 1) && (d =? 0) then 5000 else 0) 5000 [].
Theorem burn_whole_supply_panics_current : burn current sole_state 0 1 0 5000 = Panic "division by zero".
Proof. vm_compute. reflexivity. Qed.
(* ... and gets exactly the reserves with the repaired order *)
Lemma burn_whole_supply_repaired_b :
  match burn repaired sole_state 0 1 0 5000 with Ok s' => (s_bal s' 1 1 =? 5000) && (s_supply s' =? 0) | _ => false end = true.
Proof. vm_compute. reflexivity. Qed.
Theorem burn_whole_supply_repaired : exists s', burn repaired sole_state 0 1 0 5000 = Ok s' /\ s_bal s' 1 1 = 5000 /\ s_supply s' = 0.
Proof.
  pose proof burn_whole_supply_repaired_b as H. destruct (burn repaired sole_state 0 1 0 5000) as [s'| |]; try discriminate.
  exists s'. split; [reflexivity|]. lia.
Qed.

(* ---------------------------------------------------------------- switches, limits, caps: burn *)
Theorem burn_respects_switches_and_limits : forall v s now a d x s', burn v s now a d x = Ok s' ->
  b_bd (s_bk s) = false /\ b_bmin (s_bk s) <= x
  /\ period_sum (s_hb s') now (b_period (s_bk s)) <= b_bmax (s_bk s)
  /\ s_hb s' = register (s_hb s) now x
  /\ validate_cap (b_cap (s_bk s)) (b_tokens (s_bk s')) = Ok true.
Proof.
  unfold burn. intros v s now a d x s' H. inv_ok H. injection H as <-. cbn [s_hb s_bk b_tokens set_amount set_tokens].
  match goal with Hc : negb ?b = false |- _ => destruct b; [|discriminate Hc] end. repeat split; try lia. assumption.
Qed.

Lemma withdraw_coins_disabled : forall ts p outs, withdraw_coins ts p = Ok outs ->
  forall d, (forall t, In t ts -> t_denom t = d -> t_wd t = false) -> ssum outs d = 0.
Proof.
  induction ts as [|t r IH]; simpl; intros p outs H d Hd.
  - injection H as <-. reflexivity.
  - destruct (withdraw_coins r p) as [rest| |] eqn:W; simpl in H; try discriminate.
    assert (I : ssum rest d = 0) by (apply (IH p rest W d); intros u Hu; apply Hd; right; exact Hu).
    destruct (t_wd t) eqn:Wd; simpl in H.
    + destruct (dmul (dec_of_int (t_amount t)) p) as [w| |]; simpl in H; try discriminate. injection H as <-.
      destruct (0 <? trunc_int w); [|exact I]. rewrite ssum_coins_add.
      destruct (t_denom t =? d) eqn:Q; [|lia].
      assert (t_wd t = false) by (apply Hd; [left; reflexivity|lia]). congruence.
    + injection H as <-. exact I.
Qed.
(* ---------------------------------------------------------------- books match the bank *)
(* recorded reserves + surplus of the other baskets, per denomination *)
Definition sibs_total (l : list basket) (d : Z) : Z :=
  zsum (map (fun b => rsum (b_tokens b) d + ssum (b_surplus b) d) l).
(* supply = recorded amount of basket 1, and the module account holds, per denomination, at least the
   recorded reserves and surplus of ALL baskets together *)
Definition Books (s : state) : Prop :=
  s_supply s = b_amount (s_bk s) /\
  forall d, rsum (b_tokens (s_bk s)) d + ssum (b_surplus (s_bk s)) d + sibs_total (s_sibs s) d <= s_bal s MODULE d.

Lemma add_token_rsum : forall ts d x d', find_token ts d <> None ->
  rsum (add_token ts d x) d' = rsum ts d' + (if d =? d' then x else 0).
Proof.
  induction ts as [|t r IH]; simpl; intros d x d' H; [congruence|].
  destruct (t_denom t =? d) eqn:Q.
  - rewrite !rsum_cons. cbn [with_amount t_denom t_amount]. destruct (t_denom t =? d') eqn:Q2, (d =? d') eqn:Q3; lia.
  - rewrite !rsum_cons, IH by assumption. lia.
Qed.
Lemma find_add_token : forall ts d x e, find_token (add_token ts d x) e <> None <-> find_token ts e <> None.
Proof.
  induction ts as [|t r IH]; simpl; intros d x e; [tauto|].
  destruct (t_denom t =? d) eqn:Q; simpl.
  - destruct (t_denom t =? e); [split; congruence|tauto].
  - destruct (t_denom t =? e); [split; congruence|apply IH].
Qed.

Lemma inc_tokens_rsum : forall cs ts ts', inc_tokens ts cs = Ok ts' -> forall d, rsum ts' d = rsum ts d + ssum cs d.
Proof.
  induction cs as [|[e y] r IH]; simpl; intros ts ts' H d.
  - injection H as <-. rewrite ssum_nil. lia.
  - destruct (find_token ts e) eqn:F; [|discriminate].
    rewrite (IH _ _ H d), add_token_rsum, ssum_cons by congruence. simpl. lia.
Qed.
Lemma dec_tokens_rsum : forall cs ts ts', dec_tokens ts cs = Ok ts' -> forall d, rsum ts' d = rsum ts d - ssum cs d.
Proof.
  induction cs as [|[e y] r IH]; simpl; intros ts ts' H d.
  - injection H as <-. rewrite ssum_nil. lia.
  - destruct (find_token ts e) eqn:F; [|discriminate].
    destruct (t_amount t - y <? 0); [discriminate|].
    rewrite (IH _ _ H d), add_token_rsum, ssum_cons by congruence. simpl. destruct (e =? d); lia.
Qed.

Lemma mint_books : forall s now a dep s', mint s now a dep = Ok s' -> a <> MODULE -> Books s -> Books s'.
Proof.
  unfold mint, Books. intros s now a dep s' H Ha [B1 B2]. inv_ok H. injection H as <-.
  cbn [s_supply s_bk s_bal s_sibs b_amount b_tokens b_surplus set_amount set_tokens]. split; [lia|].
  intros d. rewrite (inc_tokens_rsum _ _ _ E0 d), bal_add_at, send_spec by congruence.
  specialize (B2 d). unfold MODULE in *. destruct (0 =? a) eqn:Q; [lia|]. simpl. lia.
Qed.

Lemma burn_books : forall v s now a d x s', burn v s now a d x = Ok s' -> a <> MODULE -> Books s -> Books s'.
Proof.
  unfold burn, Books. intros v s now a d x s' H Ha [B1 B2]. inv_ok H. injection H as <-.
  cbn [s_supply s_bk s_bal s_sibs b_amount b_tokens b_surplus set_amount set_tokens]. split; [lia|].
  intros d'. rewrite (dec_tokens_rsum _ _ _ E2 d'), send_spec, bal_add_at by (unfold MODULE in *; lia).
  specialize (B2 d'). unfold MODULE in *. destruct (0 =? a) eqn:Q; [lia|]. simpl. lia.
Qed.

(* swap: while the pairs are processed the module also holds what is still to be paid out *)
Definition fee_ok (b : basket) : Prop := 0 <= b_fee b <= PREC.
Definition AccInv (k : Z -> Z) (acc : swap_acc) : Prop :=
  forall d, rsum (a_ts acc) d + ssum (a_sur acc) d + ssum (a_outs acc) d + k d <= a_bal acc MODULE d.

Lemma swap_pair_inv : forall k b now a acc p acc', swap_pair b now a acc p = Ok acc' ->
  a <> MODULE -> fee_ok b -> AccInv k acc -> AccInv k acc'.
Proof.
  unfold swap_pair, AccInv, fee_ok. intros k b now a acc [[din xin] dout] acc' H Ha Hf I.
  inv_ok H. injection H as <-. cbn [a_ts a_sur a_bal a_outs]. intros d. specialize (I d).
  apply dmul_int_l in E0.
  assert (F1 : find_token (a_ts acc) din <> None) by congruence.
  assert (F2 : find_token (add_token (a_ts acc) din (trunc_int a1)) dout <> None) by congruence.
  rewrite !add_token_rsum by assumption. rewrite ssum_coins_add, !bal_add_at.
  pose proof PREC_pos as HP.
  assert (X : 0 <= a1 /\ a1 <= xin * PREC).
  { subst a1. unfold dec_one, dec in *. split; [apply Z.mul_nonneg_nonneg; lia|apply Z.mul_le_mono_nonneg_l; lia]. }
  destruct X as [X0 X1].
  pose proof (chop_trunc_bounds a1 X0) as TB. unfold trunc_int in *.
  assert (chop_trunc a1 <= xin) by nia.
  unfold MODULE in *. destruct (0 =? a) eqn:Q; [lia|]. cbn [andb].
  destruct (0 <? xin - chop_trunc a1) eqn:P.
  - rewrite ssum_coins_add. destruct (din =? d) eqn:Q1, (dout =? d) eqn:Q2, (d =? din) eqn:Q3; simpl; lia.
  - destruct (din =? d) eqn:Q1, (dout =? d) eqn:Q2, (d =? din) eqn:Q3; simpl; lia.
Qed.
Lemma swap_pairs_inv : forall k ps b now a acc acc', swap_pairs b now a acc ps = Ok acc' ->
  a <> MODULE -> fee_ok b -> AccInv k acc -> AccInv k acc'.
Proof.
  intros k. induction ps as [|p r IH]; simpl; intros b now a acc acc' H Ha Hf I.
  - injection H as <-. exact I.
  - destruct (swap_pair b now a acc p) as [acc1| |] eqn:E; simpl in H; try discriminate.
    eapply IH; eauto. eapply swap_pair_inv; eauto.
Qed.
Lemma final_outs_sum : forall omf outs ff, final_outs omf outs = Ok ff ->
  forall d, ssum (fst ff) d + ssum (snd ff) d = ssum outs d.
Proof.
  induction outs as [|[e x] r IH]; simpl; intros ff H d.
  - injection H as <-. reflexivity.
  - inv_ok H. injection H as <-. cbn [fst snd]. specialize (IH _ eq_refl d).
    destruct (trunc_int a =? 0) eqn:Z0; rewrite !ssum_cons; cbn [fst snd]; destruct (e =? d); lia.
Qed.

Lemma swap_books : forall s now a ps s', swap s now a ps = Ok s' -> a <> MODULE -> fee_ok (s_bk s) -> Books s -> Books s'.
Proof.
  unfold swap, Books. intros s now a ps s' H Ha Hf [B1 B2]. inv_ok H. injection H as <-.
  cbn [s_supply s_bk s_bal s_sibs b_amount b_tokens b_surplus set_surplus set_tokens]. split; [exact B1|].
  intros d.
  assert (I : AccInv (sibs_total (s_sibs s)) a1).
  { eapply swap_pairs_inv; eauto. unfold AccInv. cbn [a_ts a_sur a_bal a_outs]. intros d0. rewrite ssum_nil. specialize (B2 d0). lia. }
  specialize (I d). pose proof (final_outs_sum _ _ _ E2 d) as FS.
  rewrite ssum_coins_add_all, send_spec by (unfold MODULE in *; lia).
  unfold MODULE in *. destruct (0 =? a) eqn:Q; [lia|]. simpl. lia.
Qed.
(* ---------------------------------------------------------------- invariant over histories *)
Lemma slash_token_rsum : forall ts d sl ts', slash_token ts d sl = Ok ts' -> forall d', rsum ts' d' = rsum ts d'.
Proof.
  induction ts as [|t r IH]; cbn [slash_token]; intros d sl ts' H d'.
  - injection H as <-. reflexivity.
  - destruct (slash_token r d sl) as [rest| |] eqn:E; cbn [bind] in H; try discriminate.
    specialize (IH _ _ _ E d').
    destruct (t_denom t =? d).
    + destruct (dmul (t_weight t) (dec_one - sl)); cbn [bind] in H; try discriminate. injection H as <-.
      rewrite !rsum_cons. cbn [t_denom t_amount]. lia.
    + injection H as <-. rewrite !rsum_cons. lia.
Qed.

(* ---------------------------------------------------------------- proposals over several baskets *)
Lemma sibs_total_cons : forall b l d, sibs_total (b :: l) d = rsum (b_tokens b) d + ssum (b_surplus b) d + sibs_total l d.
Proof. reflexivity. Qed.
Lemma sibs_total_upd : forall l n b d, nth_error l n = Some b ->
  sibs_total (upd_nth l n (set_surplus b [])) d = sibs_total l d - ssum (b_surplus b) d.
Proof.
  induction l as [|x r IH]; intros n b d H; [destruct n; discriminate|].
  destruct n as [|k]; cbn [nth_error upd_nth] in *.
  - injection H as <-. rewrite !sibs_total_cons. cbn [set_surplus b_tokens b_surplus]. rewrite ssum_nil. lia.
  - rewrite !sibs_total_cons, (IH _ _ _ H). lia.
Qed.
Lemma sibs_total_app1 : forall l b d, sibs_total (l ++ [b]) d = sibs_total l d + rsum (b_tokens b) d + ssum (b_surplus b) d.
Proof.
  induction l as [|x r IH]; intros b d; cbn [app]; rewrite ?sibs_total_cons.
  - unfold sibs_total. cbn [map zsum fold_right]. lia.
  - rewrite IH. lia.
Qed.
Lemma create_tokens_rsum : forall new seen ts, create_tokens seen new = Ok ts -> forall d, rsum ts d = 0.
Proof.
  induction new as [|t r IH]; cbn [create_tokens]; intros seen ts H d; [injection H as <-; reflexivity|].
  destruct (t_weight t =? 0); [discriminate|]. destruct (has_denom seen (t_denom t)); [discriminate|].
  destruct (create_tokens (t :: seen) r) as [rest| |] eqn:E; cbn [bind] in H; try discriminate. injection H as <-.
  rewrite rsum_cons, (IH _ _ E d). cbn [with_amount t_denom t_amount]. destruct (t_denom t =? d); lia.
Qed.

(* what a surplus withdrawal leaves alone: supply, histories, and everything of basket 1 but its surplus *)
Definition same_but_surplus (s s' : state) : Prop :=
  s_supply s' = s_supply s /\ b_tokens (s_bk s') = b_tokens (s_bk s) /\ b_amount (s_bk s') = b_amount (s_bk s)
  /\ b_fee (s_bk s') = b_fee (s_bk s).
Lemma withdraw_ids_books : forall ids s target s', withdraw_ids s target ids = Ok s' -> target <> MODULE ->
  Books s -> Books s' /\ same_but_surplus s s'.
Proof.
  induction ids as [|id r IH]; cbn [withdraw_ids]; intros s target s' H Ht B.
  - injection H as <-. split; [exact B|repeat split].
  - destruct (get_bk s id) as [b|] eqn:G; [|discriminate].
    destruct (negb (has_funds (s_bal s) MODULE (b_surplus b))); [discriminate|].
    set (s1 := put_bk s id (send (s_bal s) MODULE target (b_surplus b)) (set_surplus b [])) in *.
    assert (B1 : Books s1 /\ same_but_surplus s s1).
    { destruct B as [Ba Bb]. unfold get_bk in G. unfold s1, put_bk. destruct (id =? 1) eqn:Q.
      - injection G as <-. split; [|repeat split]. split; [exact Ba|]. intros d.
        cbn [s_bk s_bal s_sibs set_surplus b_tokens b_surplus]. rewrite send_spec, ssum_nil by (unfold MODULE in *; lia).
        specialize (Bb d). unfold MODULE in *. destruct (0 =? target) eqn:Q2; [lia|]. cbn [Z.eqb]. lia.
      - destruct (id <? 2); [discriminate|]. split; [|repeat split]. split; [exact Ba|]. intros d.
        cbn [s_bk s_bal s_sibs]. rewrite send_spec, (sibs_total_upd _ _ _ d G) by (unfold MODULE in *; lia).
        specialize (Bb d). unfold MODULE in *. destruct (0 =? target) eqn:Q2; [lia|]. cbn [Z.eqb]. lia. }
    destruct B1 as [B1 F1]. destruct (IH _ _ _ H Ht B1) as [B' F']. split; [exact B'|].
    destruct F1 as (a1 & a2 & a3 & a4), F' as (c1 & c2 & c3 & c4). repeat split; congruence.
Qed.
Lemma withdraw_ids_frame : forall ids s target s', withdraw_ids s target ids = Ok s' -> same_but_surplus s s'.
Proof.
  induction ids as [|id r IH]; cbn [withdraw_ids]; intros s target s' H.
  - injection H as <-. repeat split.
  - destruct (get_bk s id) as [b|] eqn:G; [|discriminate].
    destruct (negb (has_funds (s_bal s) MODULE (b_surplus b))); [discriminate|].
    apply IH in H. destruct H as (c1 & c2 & c3 & c4).
    assert (F1 : same_but_surplus s (put_bk s id (send (s_bal s) MODULE target (b_surplus b)) (set_surplus b []))).
    { unfold get_bk in G. unfold put_bk. destruct (id =? 1); [injection G as <-|]; repeat split. }
    destruct F1 as (a1 & a2 & a3 & a4). repeat split; congruence.
Qed.
Lemma pay_rewards_module : forall cs bal target d, target <> MODULE ->
  fold_left (fun b c => bal_add b target (fst c) (snd c)) cs bal MODULE d = bal MODULE d.
Proof.
  induction cs as [|c r IH]; intros bal target d H; cbn [fold_left]; [reflexivity|].
  rewrite IH by assumption. rewrite bal_add_at. unfold MODULE in *. destruct (0 =? target) eqn:Q; [lia|]. cbn [andb]. lia.
Qed.
(* the whole handler: surplus of the listed baskets, then the pending staking rewards *)
Lemma withdraw_step : forall v s ids target rewards s', step v s (OWithdraw ids target rewards) = Ok s' ->
  exists s1, withdraw_ids s target ids = Ok s1 /\ s_bk s' = s_bk s1 /\ s_supply s' = s_supply s1 /\ s_sibs s' = s_sibs s1
             /\ (target <> MODULE -> forall d, s_bal s' MODULE d = s_bal s1 MODULE d).
Proof.
  intros v s ids target rewards s' H. cbn [step] in H.
  destruct (withdraw_ids s target ids) as [s1| |] eqn:E; cbn [bind] in H; try discriminate.
  exists s1. split; [reflexivity|]. destruct (coins_valid rewards); injection H as <-; cbn [s_bk s_supply s_sibs s_bal]; repeat split.
  intros Ht d. apply pay_rewards_module. exact Ht.
Qed.
Lemma create_books : forall v s new s', create v s new = Ok s' -> Books s -> Books s' /\ s_bk s' = s_bk s /\ s_supply s' = s_supply s.
Proof.
  unfold create. intros v s new s' H [Ba Bb]. inv_ok H. injection H as <-. split; [|split; reflexivity].
  split; [exact Ba|]. intros d. cbn [s_bk s_bal s_sibs]. rewrite sibs_total_app1.
  destruct (v_create_zero v); cbn [set_surplus set_tokens set_amount b_tokens b_surplus]; rewrite (create_tokens_rsum _ _ _ E d), ssum_nil; specialize (Bb d); lia.
Qed.

(* operations of holders (never the module account itself), emergency switches, hooks, end block,
   weight slashes.  Edits are treated separately below; the pool-upsert hook is excluded (refuted). *)
Definition op_ok (o : op) : Prop :=
  match o with
  | OMint _ a _ | OBurn _ a _ _ | OSwap _ a _ => a <> MODULE
  | OEdit _ => False
  | OUpsertHook se => se = false
  | OWithdraw _ target _ => target <> MODULE
  | _ => True
  end.
Definition Inv (s : state) : Prop := Books s /\ fee_ok (s_bk s).

Lemma step_inv : forall v s o s', step v s o = Ok s' -> op_ok o -> Inv s -> Inv s'.
Proof.
  intros v s o s' H Hok [B F]. destruct o; cbn [step] in H; cbn [op_ok] in Hok.
  - split; [eapply mint_books; eauto|]. unfold mint in H. inv_ok H. injection H as <-. exact F.
  - split; [eapply burn_books; eauto|]. unfold burn in H. inv_ok H. injection H as <-. exact F.
  - split; [eapply swap_books; eauto|]. unfold swap in H. inv_ok H. injection H as <-. exact F.
  - contradiction.
  - destruct (negb allowed); [discriminate|]. injection H as <-. split; [exact B|exact F].
  - injection H as <-. split; assumption.
  - injection H as <-. split; assumption.
  - destruct (slash_token (b_tokens (s_bk s)) d slash) as [ts| |] eqn:E; cbn [bind] in H; try discriminate.
    injection H as <-. split; [|exact F]. destruct B as [B1 B2]. split; [exact B1|].
    intros d'. cbn [with_bk s_bk s_bal s_sibs set_tokens b_tokens b_surplus]. rewrite (slash_token_rsum _ _ _ _ E d'). apply B2.
  - injection H as <-. split; assumption.
  - subst stake_enabled. cbn [andb] in H. injection H as <-. split; assumption.
  - destruct (withdraw_step v s ids target rewards s' H) as (s1 & W1 & Eb & Es & Esib & Ebal).
    destruct (withdraw_ids_books _ _ _ _ W1 Hok B) as [[Ba Bb] (_ & _ & _ & Ff)].
    split; [|unfold fee_ok in *; rewrite Eb, Ff; exact F].
    split; [rewrite Es, Eb; exact Ba|]. intros d. rewrite Eb, Esib, (Ebal Hok d). apply Bb.
  - destruct (create_books _ _ _ _ H B) as [B' [Eb _]]. split; [exact B'|]. rewrite Eb. exact F.
  - injection H as <-. split; assumption.
Qed.

Theorem books_match_bank : forall v ops s, Forall op_ok ops -> Inv s -> Inv (run v s ops).
Proof.
  intros v ops. unfold run. induction ops as [|o r IH]; simpl; intros s Hok I; [exact I|].
  inversion Hok as [|? ? H1 H2]; subst. apply IH; [exact H2|].
  unfold apply. destruct (step v s o) as [s'| |] eqn:E; try exact I. eapply step_inv; eauto.
Qed.

(* an edit under the repaired variant touches neither the recorded amount, the surplus, the bank ... *)
Theorem edit_keeps_amount_repaired : forall v s new s', v_edit_keep v = true -> edit v s new = Ok s' ->
  b_amount (s_bk s') = b_amount (s_bk s) /\ s_supply s' = s_supply s /\ b_surplus (s_bk s') = b_surplus (s_bk s)
  /\ s_bal s' = s_bal s.
Proof.
  unfold edit. intros v s new s' Hv H. rewrite Hv in H. inv_ok H. injection H as <-. repeat split.
Qed.
(* ... and always leaves the supply covered by the new valuation of the reserves *)
Theorem edit_leaves_supply_covered : forall v s new s', edit v s new = Ok s' ->
  exists vs, token_values (b_tokens (s_bk s')) = Ok vs /\ s_supply s' <= trunc_int (zsum vs).
Proof.
  unfold edit. intros v s new s' H. inv_ok H. injection H as <-.
  exists a0. destruct (v_edit_keep v); cbn [s_supply s_bk b_tokens set_amount set_surplus set_tokens]; (split; [exact E0|lia]).
Qed.

(* the code as it is: an edit proposal that changes only the fee and leaves the amount field at 0 *)
Definition edit_wit : basket :=
  mkB 0 [mkT 1 PREC 0 true true true] [] 20000000000000000 0 PREC 3600 1 1000000000000 1 1000000000000 1 1000000000000 false false false.
Lemma wit_books : Books wit_state.
Proof.
  split; [reflexivity|]. intros d. unfold wit_state, init_state, wit_basket. cbn [s_bk s_bal s_sibs b_tokens b_surplus].
  change (sibs_total [] d) with 0. rewrite rsum_cons, ssum_nil, rsum_nil. cbn [t_denom t_amount]. unfold MODULE.
  change ((0 =? 0) && (d =? 1)) with (d =? 1).
  change (((0 =? 1) || (0 =? 2)) && (d =? 0)) with false. destruct (1 =? d) eqn:Q, (d =? 1) eqn:Q2; lia.
Qed.
Lemma edit_wit_b : match edit before_68b9c08 wit_state edit_wit with Ok s' => (s_supply s' =? 2000) && (b_amount (s_bk s') =? 0) | _ => false end = true.
Proof. vm_compute. reflexivity. Qed.
Theorem books_edit_refuted : exists s new s', Books s /\ edit before_68b9c08 s new = Ok s' /\ s_supply s' <> b_amount (s_bk s').
Proof.
  exists wit_state, edit_wit. pose proof edit_wit_b as H.
  destruct (edit before_68b9c08 wit_state edit_wit) as [s'| |]; try discriminate.
  exists s'. split; [exact wit_books|]. split; [reflexivity|]. lia.
Qed.
(* the pool-upsert hook replaces the record: supply in circulation, recorded amount zero *)
Theorem books_upsert_hook_refuted : exists s, Books s /\ ~ Books (apply before_853c45f s (OUpsertHook true)).
Proof.
  exists wit_state. split; [exact wit_books|]. intros [B _]. vm_compute in B. discriminate.
Qed.
(* ---------------------------------------------------------------- swap: value out <= value in less fees *)
Theorem swap_pair_value : forall b now a acc din xin dout acc' tin tout,
  swap_pair b now a acc (din, xin, dout) = Ok acc' -> fee_ok b ->
  find_token (a_ts acc) din = Some tin -> find_token (a_ts acc) dout = Some tout ->
  0 < t_weight tin -> 0 < t_weight tout ->
  exists out, a_outs acc' = coins_add (a_outs acc) dout out /\ 0 < out /\ 0 < xin
    /\ t_sw tin = true /\ t_sw tout = true /\ b_smin b <= trunc_int (xin * t_weight tin)
    /\ 2 * out * t_weight tout * PREC <= 2 * xin * (PREC - b_fee b) * t_weight tin + t_weight tout.
Proof.
  unfold swap_pair, fee_ok. intros b now a acc din xin dout acc' tin tout H Hf Fi Fo Wi Wo.
  rewrite Fi, Fo in H. inv_ok H. injection H as <-. cbn [a_outs].
  apply dmul_int_l in E, E0, E1. unfold dec, dec_one in *. subst a0 a1 a2.
  pose proof PREC_pos as HP.
  set (A1 := xin * (PREC - b_fee b)) in *.
  assert (X0 : 0 <= A1) by (apply Z.mul_nonneg_nonneg; lia).
  pose proof (chop_trunc_bounds A1 X0) as TB. pose proof (chop_trunc_nonneg A1 X0) as TN. unfold trunc_int in *.
  set (sa := chop_trunc A1) in *.
  assert (Q0 : 0 <= sa * t_weight tin) by (apply Z.mul_nonneg_nonneg; lia).
  apply dquo_bound in E2; [|exact Q0|exact Wo]. destruct E2 as [R0 R1].
  pose proof (chop_trunc_bounds a3 R0) as TB3. set (out := chop_trunc a3) in *.
  exists out. destruct (t_sw tin), (t_sw tout); try discriminate.
  repeat split; try lia.
  assert (K1 : 2 * (out * PREC) * t_weight tout <= 2 * a3 * t_weight tout) by (apply Z.mul_le_mono_nonneg_r; lia).
  assert (K2 : sa * PREC * t_weight tin <= A1 * t_weight tin) by (apply Z.mul_le_mono_nonneg_r; lia).
  replace (2 * xin * (PREC - b_fee b) * t_weight tin) with (2 * A1 * t_weight tin) by (unfold A1; ring).
  clearbody out sa A1. clear - K1 K2 R1 HP Wo.
  assert (K3 : 2 * out * t_weight tout * PREC * PREC <= (2 * A1 * t_weight tin + t_weight tout) * PREC) by nia.
  apply Z.mul_le_mono_pos_r in K3; [lia|exact HP].
Qed.

(* the slippage fee only lowers what is paid *)
Lemma final_outs_le : forall omf outs ff, final_outs omf outs = Ok ff -> forall d, ssum (fst ff) d <= ssum outs d.
Proof.
  intros omf outs ff H d. pose proof (final_outs_sum _ _ _ H d) as S.
  assert (0 <= ssum (snd ff) d); [|lia]. clear S. revert ff H.
  induction outs as [|[e x] r IH]; simpl; intros ff H.
  - injection H as <-. rewrite ssum_nil. lia.
  - inv_ok H. injection H as <-. cbn [snd]. rewrite ssum_cons. cbn [fst snd]. specialize (IH _ eq_refl).
    destruct (e =? d); lia.
Qed.

(* disabled swaps are rejected *)
Theorem swap_respects_switch : forall s now a ps s', swap s now a ps = Ok s' -> b_sd (s_bk s) = false.
Proof. unfold swap. intros s now a ps s' H. inv_ok H. reflexivity. Qed.
Theorem burn_disabled_token_pays_nothing : forall ts p outs, withdraw_coins ts p = Ok outs ->
  forall d, (forall t, In t ts -> t_denom t = d -> t_wd t = false) -> ssum outs d = 0.
Proof. exact withdraw_coins_disabled. Qed.
(* ---------------------------------------------------------------- recorded reserves never go negative *)
Lemma add_token_nonneg : forall ts d x, reserves_nonneg ts ->
  (forall t, find_token ts d = Some t -> 0 <= t_amount t + x) -> reserves_nonneg (add_token ts d x).
Proof.
  induction ts as [|t r IH]; cbn [add_token find_token]; intros d x Hn Hx; [exact Hn|].
  assert (Hr : reserves_nonneg r) by (intros u Hu; apply Hn; right; exact Hu).
  destruct (t_denom t =? d) eqn:Q.
  - intros u [<-|Hu]; [cbn [with_amount t_amount]; apply Hx; reflexivity|apply Hr; exact Hu].
  - intros u [<-|Hu]; [apply Hn; left; reflexivity|]. apply (IH d x Hr Hx u Hu).
Qed.
Lemma reserve_nonneg : forall ts d, reserves_nonneg ts -> 0 <= reserve ts d.
Proof.
  unfold reserve. induction ts as [|t r IH]; cbn [find_token]; intros d Hn; [lia|].
  destruct (t_denom t =? d); [apply Hn; left; reflexivity|]. apply IH. intros u Hu; apply Hn; right; exact Hu.
Qed.
Lemma reserve_le_rsum : forall ts d, reserves_nonneg ts -> reserve ts d <= rsum ts d.
Proof.
  unfold reserve. induction ts as [|t r IH]; cbn [find_token]; intros d Hn; [rewrite rsum_nil; lia|].
  assert (Hr : reserves_nonneg r) by (intros u Hu; apply Hn; right; exact Hu).
  rewrite rsum_cons. pose proof (rsum_nonneg r d Hr). specialize (IH d Hr).
  assert (0 <= t_amount t) by (apply Hn; left; reflexivity).
  destruct (t_denom t =? d); lia.
Qed.
Lemma find_token_in : forall ts d t, find_token ts d = Some t -> In t ts.
Proof.
  induction ts as [|u r IH]; cbn [find_token]; intros d t H; [discriminate|].
  destruct (t_denom u =? d); [injection H as <-; left; reflexivity|right; eapply IH; eauto].
Qed.

Lemma coins_valid_from_pos : forall cs lo, coins_valid_from lo cs = true -> forall c, In c cs -> 0 < snd c.
Proof.
  induction cs as [|[d x] r IH]; cbn [coins_valid_from]; intros lo H c Hc; [destruct Hc|].
  apply andb_prop in H. destruct H as [H1 H2]. apply andb_prop in H1. destruct H1 as [H0 _].
  destruct Hc as [<-|Hc]; [cbn [snd]; lia|]. eapply IH; eauto.
Qed.
Lemma inc_tokens_nonneg : forall cs ts ts', inc_tokens ts cs = Ok ts' -> (forall c, In c cs -> 0 < snd c) ->
  reserves_nonneg ts -> reserves_nonneg ts'.
Proof.
  induction cs as [|[e y] r IH]; cbn [inc_tokens]; intros ts ts' H Hp Hn.
  - injection H as <-. exact Hn.
  - destruct (find_token ts e) eqn:F; [|discriminate].
    apply (IH _ _ H); [intros c Hc; apply Hp; right; exact Hc|].
    apply add_token_nonneg; [exact Hn|]. intros u Hu.
    assert (0 <= t_amount u) by (apply Hn; eapply find_token_in; eauto).
    specialize (Hp (e, y) (or_introl eq_refl)). cbn [snd] in Hp. lia.
Qed.
Lemma dec_tokens_nonneg : forall cs ts ts', dec_tokens ts cs = Ok ts' -> reserves_nonneg ts -> reserves_nonneg ts'.
Proof.
  induction cs as [|[e y] r IH]; cbn [dec_tokens]; intros ts ts' H Hn.
  - injection H as <-. exact Hn.
  - destruct (find_token ts e) eqn:F; [|discriminate].
    destruct (t_amount t - y <? 0) eqn:C; [discriminate|].
    apply (IH _ _ H). apply add_token_nonneg; [exact Hn|]. intros u Hu. rewrite F in Hu. injection Hu as <-. lia.
Qed.
Lemma slash_token_nonneg : forall ts d sl ts', slash_token ts d sl = Ok ts' -> reserves_nonneg ts -> reserves_nonneg ts'.
Proof.
  induction ts as [|t r IH]; cbn [slash_token]; intros d sl ts' H Hn.
  - injection H as <-. exact Hn.
  - destruct (slash_token r d sl) as [rest| |] eqn:E; cbn [bind] in H; try discriminate.
    assert (Hr : reserves_nonneg rest) by (eapply IH; eauto; intros u Hu; apply Hn; right; exact Hu).
    assert (Ht : 0 <= t_amount t) by (apply Hn; left; reflexivity).
    destruct (t_denom t =? d).
    + destruct (dmul (t_weight t) (dec_one - sl)); cbn [bind] in H; try discriminate. injection H as <-.
      intros u [<-|Hu]; [exact Ht|apply Hr; exact Hu].
    + injection H as <-. intros u [<-|Hu]; [exact Ht|apply Hr; exact Hu].
Qed.

Lemma swap_pair_nonneg : forall b now a acc p acc', swap_pair b now a acc p = Ok acc' ->
  reserves_nonneg (a_ts acc) -> reserves_nonneg (a_ts acc').
Proof.
  unfold swap_pair. intros b now a acc [[din xin] dout] acc' H Hn. inv_ok H. injection H as <-. cbn [a_ts].
  apply add_token_nonneg.
  - apply add_token_nonneg; [exact Hn|]. intros u Hu.
    assert (0 <= t_amount u) by (apply Hn; eapply find_token_in; eauto). lia.
  - intros u Hu. rewrite M1 in Hu. injection Hu as <-. lia.
Qed.
Lemma swap_pairs_nonneg : forall ps b now a acc acc', swap_pairs b now a acc ps = Ok acc' ->
  reserves_nonneg (a_ts acc) -> reserves_nonneg (a_ts acc').
Proof.
  induction ps as [|p r IH]; cbn [swap_pairs]; intros b now a acc acc' H Hn.
  - injection H as <-. exact Hn.
  - destruct (swap_pair b now a acc p) as [acc1| |] eqn:E; cbn [bind] in H; try discriminate.
    eapply IH; eauto. eapply swap_pair_nonneg; eauto.
Qed.

(* ---------------------------------------------------------------- EditBasket *)
Lemma edit_tokens_spec : forall old new seen ts', edit_tokens old seen new = Ok ts' -> reserves_nonneg old ->
  reserves_nonneg ts' /\
  forall d, rsum ts' d <= reserve old d /\ (has_denom seen d = true -> rsum ts' d = 0).
Proof.
  induction new as [|t r IH]; cbn [edit_tokens]; intros seen ts' H Hn.
  - injection H as <-. split; [intros u []|]. intros d. rewrite rsum_nil. pose proof (reserve_nonneg old d Hn). split; [lia|reflexivity].
  - destruct (t_weight t =? 0); [discriminate|].
    destruct (has_denom seen (t_denom t)) eqn:S; [discriminate|].
    destruct (edit_tokens old (t :: seen) r) as [rest| |] eqn:E; cbn [bind] in H; try discriminate.
    injection H as <-. destruct (IH _ _ E Hn) as [Rn Rd]. split.
    + intros u [<-|Hu]; [cbn [with_amount t_amount]; apply reserve_nonneg; exact Hn|apply Rn; exact Hu].
    + intros d. rewrite rsum_cons. cbn [with_amount t_denom t_amount].
      destruct (Rd d) as [R1 R2]. cbn [has_denom] in R2.
      pose proof (reserve_nonneg old d Hn) as R0.
      destruct (t_denom t =? d) eqn:Q.
      * assert (t_denom t = d) by lia. subst d. rewrite (R2 eq_refl). split; [lia|]. intros K. congruence.
      * split; [lia|]. intros K. rewrite K in R2. cbn [orb] in R2. rewrite (R2 eq_refl). reflexivity.
Qed.

(* ---------------------------------------------------------------- invariant over histories, with edits *)
Definition InvE (s : state) : Prop := Books s /\ fee_ok (s_bk s) /\ reserves_nonneg (b_tokens (s_bk s)).
(* every operation of a holder, every accepted or rejected edit proposal with a fee in [0,1] on a
   tree whose EditBasket keeps the stored amount (68b9c08), switches, hooks, weight slashes, end
   blocks; the pool-upsert hook only where it skips (proposed repair) *)
Definition op_okE (v : variant) (o : op) : Prop :=
  match o with
  | OMint _ a _ | OBurn _ a _ _ | OSwap _ a _ => a <> MODULE
  | OEdit new => v_edit_keep v = true /\ fee_ok new
  | OUpsertHook se => se = false \/ v_upsert_skip v = true
  | OWithdraw _ target _ => target <> MODULE
  | _ => True
  end.

Lemma step_invE : forall v s o s', step v s o = Ok s' -> op_okE v o -> InvE s -> InvE s'.
Proof.
  intros v s o s' H Hok (B & F & N). destruct o; cbn [step] in H; cbn [op_okE] in Hok.
  - split; [eapply mint_books; eauto|]. unfold mint in H. inv_ok H. injection H as <-.
    cbn [s_bk b_tokens set_amount set_tokens]. split; [exact F|].
    eapply inc_tokens_nonneg; eauto. apply (coins_valid_from_pos dep None). unfold coins_valid in C0. destruct (coins_valid_from None dep); [reflexivity|discriminate].
  - split; [eapply burn_books; eauto|]. unfold burn in H. inv_ok H. injection H as <-.
    cbn [s_bk b_tokens set_amount set_tokens]. split; [exact F|]. eapply dec_tokens_nonneg; eauto.
  - split; [eapply swap_books; eauto|]. unfold swap in H. inv_ok H. injection H as <-.
    cbn [s_bk b_tokens set_surplus set_tokens]. split; [exact F|].
    eapply swap_pairs_nonneg in E0; [exact E0|exact N].
  - destruct Hok as [Hv Hf]. unfold edit in H. rewrite Hv in H. inv_ok H. injection H as <-.
    destruct (edit_tokens_spec _ _ _ _ E N) as [Rn Rd]. destruct B as [B1 B2].
    split; [|split; [exact Hf|exact Rn]].
    split; [exact B1|]. intros d. cbn [s_bk s_bal s_sibs b_tokens b_surplus set_amount set_surplus set_tokens].
    destruct (Rd d) as [R1 _]. pose proof (reserve_le_rsum _ d N). specialize (B2 d). lia.
  - destruct (negb allowed); [discriminate|]. injection H as <-. split; [exact B|split; [exact F|exact N]].
  - injection H as <-. split; [exact B|split; [exact F|exact N]].
  - injection H as <-. split; [exact B|split; [exact F|exact N]].
  - destruct (slash_token (b_tokens (s_bk s)) d slash) as [ts| |] eqn:E; cbn [bind] in H; try discriminate.
    injection H as <-. split; [|split; [exact F|eapply slash_token_nonneg; eauto]]. destruct B as [B1 B2]. split; [exact B1|].
    intros d'. cbn [with_bk s_bk s_bal s_sibs set_tokens b_tokens b_surplus]. rewrite (slash_token_rsum _ _ _ _ E d'). apply B2.
  - injection H as <-. split; [exact B|split; [exact F|exact N]].
  - assert (K : stake_enabled && negb (v_upsert_skip v) = false) by (destruct Hok as [->| ->]; [reflexivity|destruct stake_enabled; reflexivity]).
    rewrite K in H. injection H as <-. split; [exact B|split; [exact F|exact N]].
  - destruct (withdraw_step v s ids target rewards s' H) as (s1 & W1 & Eb & Es & Esib & Ebal).
    destruct (withdraw_ids_books _ _ _ _ W1 Hok B) as [[Ba Bb] (_ & Ft & _ & Ff)].
    split; [|unfold fee_ok in *; rewrite Eb, Ff, Ft; split; [exact F|exact N]].
    split; [rewrite Es, Eb; exact Ba|]. intros d. rewrite Eb, Esib, (Ebal Hok d). apply Bb.
  - destruct (create_books _ _ _ _ H B) as [B' [Eb _]]. split; [exact B'|]. rewrite Eb. split; [exact F|exact N].
  - injection H as <-. split; [exact B|split; [exact F|exact N]].
Qed.

Theorem books_match_bank_with_edits : forall v ops s, Forall (op_okE v) ops -> InvE s -> InvE (run v s ops).
Proof.
  intros v ops. unfold run. induction ops as [|o r IH]; cbn [fold_left]; intros s Hok I; [exact I|].
  inversion Hok as [|? ? H1 H2]; subst. apply IH; [exact H2|].
  unfold apply. destruct (step v s o) as [s'| |] eqn:E; try exact I. eapply step_invE; eauto.
Qed.
(* ---------------------------------------------------------------- backing *)
(* reserves valued at the weights (scaled by 10^18), and how far the supply exceeds them *)
Definition value (ts : list token) : Z := zsum (map (fun t => t_weight t * t_amount t) ts).
Definition gap (s : state) : Z := s_supply s * PREC - value (b_tokens (s_bk s)).
Definition Backed (s : state) : Prop := gap s <= 0.
Definition wof (ts : list token) (d : Z) : option Z := option_map t_weight (find_token ts d).

Lemma value_cons : forall t ts, value (t :: ts) = t_weight t * t_amount t + value ts.
Proof. reflexivity. Qed.
Lemma add_token_value : forall ts d x t, find_token ts d = Some t -> value (add_token ts d x) = value ts + t_weight t * x.
Proof.
  induction ts as [|u r IH]; cbn [find_token add_token]; intros d x t H; [discriminate|].
  destruct (t_denom u =? d).
  - injection H as <-. rewrite !value_cons. cbn [with_amount t_weight t_amount]. unfold dec in *. lia.
  - rewrite !value_cons, (IH _ _ _ H). lia.
Qed.
Lemma add_token_wof : forall ts d x e, wof (add_token ts d x) e = wof ts e.
Proof.
  unfold wof. induction ts as [|u r IH]; cbn [find_token add_token]; intros d x e; [reflexivity|].
  destruct (t_denom u =? d) eqn:Q; cbn [find_token with_amount t_denom].
  - destruct (t_denom u =? e); reflexivity.
  - destruct (t_denom u =? e); [reflexivity|apply IH].
Qed.
Definition wvalue (ts : list token) (cs : coins) : Z :=
  zsum (map (fun c => match wof ts (fst c) with Some w => snd c * w | None => 0 end) cs).
Lemma dep_value_wvalue : forall ts cs, dep_value ts cs = wvalue ts cs.
Proof.
  unfold dep_value, wvalue, wof. intros ts cs. f_equal. apply map_ext. intros c. destruct (find_token ts (fst c)); reflexivity.
Qed.
Lemma wvalue_ext : forall ts ts' cs, (forall e, wof ts' e = wof ts e) -> wvalue ts' cs = wvalue ts cs.
Proof. intros ts ts' cs H. unfold wvalue. f_equal. apply map_ext. intros c. rewrite H. reflexivity. Qed.

Lemma inc_tokens_value : forall cs ts ts', inc_tokens ts cs = Ok ts' -> value ts' = value ts + wvalue ts cs.
Proof.
  induction cs as [|[e y] r IH]; cbn [inc_tokens]; intros ts ts' H.
  - injection H as <-. unfold wvalue. simpl. lia.
  - destruct (find_token ts e) eqn:F; [|discriminate].
    assert (W : wvalue ts ((e, y) :: r) = y * t_weight t + wvalue ts r).
    { unfold wvalue. cbn [map fst snd]. unfold wof at 1. rewrite F. cbn [option_map]. reflexivity. }
    rewrite (IH _ _ H), (add_token_value _ _ _ _ F), (wvalue_ext ts _ r), W by (intros; apply add_token_wof).
    unfold dec in *. lia.
Qed.

Theorem mint_keeps_backing : forall s now a dep s', mint s now a dep = Ok s' -> gap s' <= gap s.
Proof.
  intros s now a dep s' H. pose proof (mint_le_value _ _ _ _ _ H) as (M0 & M1 & M2).
  unfold mint in H. inv_ok H. injection H as Hs. subst s'. unfold gap in *.
  cbn [s_supply s_bk b_tokens b_amount set_amount set_tokens] in *.
  rewrite (inc_tokens_value _ _ _ E0), <- dep_value_wvalue. lia.
Qed.

(* swap: per pair the value of the reserves falls by at most half of 10^-18 of the out weight *)
Definition pair_slack (ts : list token) (p : Z * Z * Z) : Z :=
  match wof ts (snd p) with Some w => w / (2 * PREC) + 1 | None => 0 end.
Definition weights_pos (ts : list token) : Prop := forall d w, wof ts d = Some w -> 0 < w.

Lemma swap_pair_value_kept : forall b now a acc p acc', swap_pair b now a acc p = Ok acc' -> fee_ok b ->
  weights_pos (a_ts acc) ->
  value (a_ts acc) <= value (a_ts acc') + pair_slack (a_ts acc) p /\ (forall e, wof (a_ts acc') e = wof (a_ts acc) e).
Proof.
  unfold swap_pair, fee_ok. intros b now a acc [[din xin] dout] acc' H Hf Wp.
  inv_ok H. injection H as <-. cbn [a_ts]. split; [|intros e; rewrite !add_token_wof; reflexivity].
  assert (Wi : 0 < t_weight t) by (apply (Wp din); unfold wof; rewrite M; reflexivity).
  assert (Wo : 0 < t_weight t0) by (apply (Wp dout); unfold wof; rewrite M0; reflexivity).
  assert (W1 : t_weight t1 = t_weight t0).
  { pose proof (add_token_wof (a_ts acc) din (trunc_int a1) dout) as K. unfold wof in K. rewrite M1, M0 in K. cbn [option_map] in K. congruence. }
  rewrite (add_token_value _ _ _ _ M1), (add_token_value _ _ _ _ M), W1.
  unfold pair_slack. cbn [snd]. unfold wof. rewrite M0. cbn [option_map].
  apply dmul_int_l in E0, E1. unfold dec, dec_one in *. subst a1 a2.
  pose proof PREC_pos as HP.
  set (A1 := xin * (PREC - b_fee b)) in *.
  assert (X0 : 0 <= A1) by (apply Z.mul_nonneg_nonneg; lia).
  pose proof (chop_trunc_nonneg A1 X0) as TN. unfold trunc_int in *.
  set (sa := chop_trunc A1) in *.
  assert (Q0 : 0 <= sa * t_weight t) by (apply Z.mul_nonneg_nonneg; lia).
  apply dquo_bound in E2; [|exact Q0|exact Wo]. destruct E2 as [R0 R1].
  pose proof (chop_trunc_bounds a3 R0) as TB3. set (out := chop_trunc a3) in *.
  assert (K1 : 2 * (out * PREC) * t_weight t0 <= 2 * a3 * t_weight t0) by (apply Z.mul_le_mono_nonneg_r; lia).
  set (wo := t_weight t0) in *. set (wi := t_weight t) in *.
  assert (K2 : 2 * PREC * (out * wo) <= 2 * PREC * (sa * wi) + wo) by (clearbody out sa wo wi; clear - K1 R1 HP; nia).
  pose proof (Z.div_mod wo (2 * PREC) ltac:(lia)) as DM. pose proof (Z.mod_pos_bound wo (2 * PREC) ltac:(lia)) as MB.
  set (q := wo / (2 * PREC)) in *. set (m := wo mod (2 * PREC)) in *.
  clearbody out sa wo wi q m. clear - K2 DM MB HP. nia.
Qed.

Fixpoint pairs_slack (ts : list token) (ps : list (Z * Z * Z)) : Z :=
  match ps with [] => 0 | p :: r => pair_slack ts p + pairs_slack ts r end.
Lemma pair_slack_ext : forall ts ts' p, (forall e, wof ts' e = wof ts e) -> pair_slack ts' p = pair_slack ts p.
Proof. intros ts ts' p H. unfold pair_slack. rewrite H. reflexivity. Qed.
Lemma pairs_slack_ext : forall ps ts ts', (forall e, wof ts' e = wof ts e) -> pairs_slack ts' ps = pairs_slack ts ps.
Proof. induction ps as [|p r IH]; intros ts ts' H; cbn [pairs_slack]; [reflexivity|]. rewrite (pair_slack_ext ts ts' p H), (IH ts ts' H). reflexivity. Qed.

Lemma swap_pairs_value_kept : forall ps b now a acc acc', swap_pairs b now a acc ps = Ok acc' -> fee_ok b ->
  weights_pos (a_ts acc) -> value (a_ts acc) <= value (a_ts acc') + pairs_slack (a_ts acc) ps.
Proof.
  induction ps as [|p r IH]; cbn [swap_pairs pairs_slack]; intros b now a acc acc' H Hf Wp.
  - injection H as <-. lia.
  - destruct (swap_pair b now a acc p) as [acc1| |] eqn:E; cbn [bind] in H; try discriminate.
    destruct (swap_pair_value_kept _ _ _ _ _ _ E Hf Wp) as [V1 W1].
    assert (Wp1 : weights_pos (a_ts acc1)) by (intros d w Hd; rewrite W1 in Hd; eapply Wp; eauto).
    pose proof (IH _ _ _ _ _ H Hf Wp1) as V2. rewrite (pairs_slack_ext r _ _ W1) in V2. lia.
Qed.

Theorem swap_keeps_backing : forall s now a ps s', swap s now a ps = Ok s' -> fee_ok (s_bk s) ->
  weights_pos (b_tokens (s_bk s)) -> gap s' <= gap s + pairs_slack (b_tokens (s_bk s)) ps.
Proof.
  intros s now a ps s' H Hf Wp. unfold swap in H. inv_ok H. injection H as <-. unfold gap.
  cbn [s_supply s_bk b_tokens set_surplus set_tokens].
  pose proof (swap_pairs_value_kept _ _ _ _ _ _ E0 Hf Wp) as V. cbn [a_ts] in V. lia.
Qed.

(* edit: the guard leaves the supply covered by the NEW valuation *)
Lemma token_values_sum : forall ts vs, token_values ts = Ok vs -> zsum vs = value ts.
Proof.
  induction ts as [|t r IH]; cbn [token_values]; intros vs H.
  - injection H as <-. reflexivity.
  - unfold token_value in H. destruct (dmul (dec_of_int (t_amount t)) (t_weight t)) as [x| |] eqn:M; cbn [bind] in H; try discriminate.
    destruct (token_values r) as [rest| |] eqn:E; cbn [bind] in H; try discriminate. injection H as <-.
    apply dmul_int_l in M. change (zsum (x :: rest)) with (x + zsum rest). rewrite value_cons, (IH _ eq_refl). rewrite M, (Z.mul_comm (t_amount t)). reflexivity.
Qed.
Theorem edit_restores_backing : forall v s new s', edit v s new = Ok s' -> 0 < s_supply s' -> Backed s'.
Proof.
  intros v s new s' H Hs. destruct (edit_leaves_supply_covered _ _ _ _ H) as (vs & T & L).
  apply token_values_sum in T. unfold Backed, gap. rewrite <- T.
  assert (H0 : 0 <= zsum vs). { destruct (Z_lt_le_dec (zsum vs) 0); [|lia]. pose proof (chop_trunc_nonpos (zsum vs) ltac:(lia)). unfold trunc_int in *. lia. }
  pose proof (chop_trunc_bounds _ H0). unfold trunc_int in *. pose proof PREC_pos. nia.
Qed.
(* ---------------------------------------------------------------- backing over histories *)
Definition weights_all_pos (ts : list token) : Prop := forall t, In t ts -> 0 < t_weight t.
Lemma weights_all_pos_wof : forall ts, weights_all_pos ts -> weights_pos ts.
Proof.
  intros ts H d w Hw. unfold wof in Hw. destruct (find_token ts d) as [t|] eqn:F; [|discriminate].
  injection Hw as <-. apply H. eapply find_token_in; eauto.
Qed.
Lemma add_token_weights : forall ts d x, weights_all_pos ts -> weights_all_pos (add_token ts d x).
Proof.
  induction ts as [|u r IH]; cbn [add_token]; intros d x H; [exact H|].
  assert (Hr : weights_all_pos r) by (intros t Ht; apply H; right; exact Ht).
  assert (Hu : 0 < t_weight u) by (apply H; left; reflexivity).
  destruct (t_denom u =? d).
  - intros t [<-|Ht]; [exact Hu|apply Hr; exact Ht].
  - intros t [<-|Ht]; [exact Hu|apply (IH d x Hr); exact Ht].
Qed.
Lemma inc_tokens_weights : forall cs ts ts', inc_tokens ts cs = Ok ts' -> weights_all_pos ts -> weights_all_pos ts'.
Proof.
  induction cs as [|[e y] r IH]; cbn [inc_tokens]; intros ts ts' H W; [injection H as <-; exact W|].
  destruct (find_token ts e); [|discriminate]. apply (IH _ _ H). apply add_token_weights. exact W.
Qed.
Lemma swap_pairs_weights : forall ps b now a acc acc', swap_pairs b now a acc ps = Ok acc' ->
  weights_all_pos (a_ts acc) -> weights_all_pos (a_ts acc').
Proof.
  induction ps as [|p r IH]; cbn [swap_pairs]; intros b now a acc acc' H W; [injection H as <-; exact W|].
  destruct (swap_pair b now a acc p) as [acc1| |] eqn:E; cbn [bind] in H; try discriminate.
  apply (IH _ _ _ _ _ H). destruct p as [[din xin] dout]. unfold swap_pair in E. inv_ok E. injection E as <-. cbn [a_ts].
  apply add_token_weights, add_token_weights. exact W.
Qed.
Lemma edit_tokens_weights : forall old new seen ts', edit_tokens old seen new = Ok ts' -> weights_all_pos new -> weights_all_pos ts'.
Proof.
  induction new as [|t r IH]; cbn [edit_tokens]; intros seen ts' H W; [injection H as <-; intros u []|].
  destruct (t_weight t =? 0); [discriminate|]. destruct (has_denom seen (t_denom t)); [discriminate|].
  destruct (edit_tokens old (t :: seen) r) as [rest| |] eqn:E; cbn [bind] in H; try discriminate. injection H as <-.
  intros u [<-|Hu]; [cbn [with_amount t_weight]; apply W; left; reflexivity|].
  apply (IH _ _ E); [intros x Hx; apply W; right; exact Hx|exact Hu].
Qed.
Lemma value_nonneg : forall ts, weights_all_pos ts -> reserves_nonneg ts -> 0 <= value ts.
Proof.
  induction ts as [|t r IH]; intros W N; [unfold value; simpl; lia|]. rewrite value_cons.
  assert (0 < t_weight t) by (apply W; left; reflexivity). assert (0 <= t_amount t) by (apply N; left; reflexivity).
  assert (0 <= value r) by (apply IH; [intros u Hu; apply W; right; exact Hu|intros u Hu; apply N; right; exact Hu]).
  unfold dec in *. nia.
Qed.
Lemma pairs_slack_nonneg : forall ps ts, weights_pos ts -> 0 <= pairs_slack ts ps.
Proof.
  induction ps as [|p r IH]; intros ts W; cbn [pairs_slack]; [lia|]. specialize (IH ts W).
  unfold pair_slack. destruct (wof ts (snd p)) as [w|] eqn:F; [|lia].
  pose proof (W _ _ F). pose proof PREC_pos. assert (0 <= w / (2 * PREC)) by (apply Z.div_pos; lia). lia.
Qed.

Definition InvB (s : state) : Prop :=
  fee_ok (s_bk s) /\ weights_all_pos (b_tokens (s_bk s)) /\ reserves_nonneg (b_tokens (s_bk s)) /\ 0 <= s_supply s.
(* histories of mints and multi-pair swaps by anybody, edit proposals (positive weights, fee in [0,1]),
   switches, the slash / raise hooks as they are, end blocks; burns are the refuted part *)
Definition op_okB (v : variant) (o : op) : Prop :=
  match o with
  | OBurn _ _ _ _ => False
  | OSlashW _ _ => False
  | OEdit new => fee_ok new /\ weights_all_pos (b_tokens new)
  | OUpsertHook se => se = false \/ v_upsert_skip v = true
  | _ => True
  end.
Definition op_slack (s : state) (o : op) : Z :=
  match o with OSwap _ _ ps => pairs_slack (b_tokens (s_bk s)) ps | _ => 0 end.
Fixpoint run_slack (v : variant) (s : state) (ops : list op) : Z :=
  match ops with [] => 0 | o :: r => op_slack s o + run_slack v (apply v s o) r end.

Lemma op_slack_nonneg : forall s o, InvB s -> 0 <= op_slack s o.
Proof.
  intros s o (_ & W & _). destruct o; cbn [op_slack]; try lia. apply pairs_slack_nonneg, weights_all_pos_wof, W.
Qed.

Lemma step_backed : forall v s o s', step v s o = Ok s' -> op_okB v o -> InvB s ->
  InvB s' /\ gap s' <= Z.max (gap s) 0 + op_slack s o.
Proof.
  intros v s o s' H Hok (F & W & N & S0). destruct o; cbn [step] in H; cbn [op_okB op_slack] in *.
  - pose proof (mint_keeps_backing _ _ _ _ _ H) as G. pose proof (mint_le_value _ _ _ _ _ H) as (M0 & _ & M2).
    split; [|lia]. unfold mint in H. inv_ok H. injection H as Hs. subst s'.
    unfold InvB. cbn [s_bk s_supply b_tokens b_amount set_amount set_tokens] in *.
    split; [exact F|split; [|split; [|lia]]].
    + eapply inc_tokens_weights; eauto.
    + eapply inc_tokens_nonneg; eauto. apply (coins_valid_from_pos dep None). unfold coins_valid in C0. destruct (coins_valid_from None dep); [reflexivity|discriminate].
  - contradiction.
  - pose proof (swap_keeps_backing _ _ _ _ _ H F (weights_all_pos_wof _ W)) as G. split; [|lia].
    unfold swap in H. inv_ok H. injection H as <-. unfold InvB. cbn [s_bk s_supply b_tokens set_surplus set_tokens].
    split; [exact F|split; [|split; [|exact S0]]].
    + eapply swap_pairs_weights in E0; [exact E0|exact W].
    + eapply swap_pairs_nonneg in E0; [exact E0|exact N].
  - destruct Hok as [Hf Hw]. pose proof (edit_restores_backing _ _ _ _ H) as G.
    assert (I' : InvB s').
    { unfold edit in H. inv_ok H. injection H as <-. destruct (edit_tokens_spec _ _ _ _ E N) as [Rn _].
      pose proof (edit_tokens_weights _ _ _ _ E Hw) as Rw.
      unfold InvB. destruct (v_edit_keep v); cbn [s_bk s_supply b_tokens set_amount set_surplus set_tokens]; (split; [exact Hf|split; [exact Rw|split; [exact Rn|exact S0]]]). }
    split; [exact I'|]. destruct I' as (_ & W' & N' & S').
    destruct (Z_lt_le_dec 0 (s_supply s')) as [P|P]; [specialize (G P); unfold Backed in G; lia|].
    pose proof (value_nonneg _ W' N'). unfold gap. pose proof PREC_pos. nia.
  - destruct (negb allowed); [discriminate|]. injection H as <-. split; [split; [exact F|split; [exact W|split; [exact N|exact S0]]]|unfold gap; cbn [with_bk s_bk s_supply set_flags b_tokens]; lia].
  - injection H as <-. split; [split; [exact F|split; [exact W|split; [exact N|exact S0]]]|lia].
  - injection H as <-. split; [split; [exact F|split; [exact W|split; [exact N|exact S0]]]|lia].
  - contradiction.
  - injection H as <-. split; [split; [exact F|split; [exact W|split; [exact N|exact S0]]]|unfold gap; cbn [s_bk s_supply]; lia].
  - assert (K : stake_enabled && negb (v_upsert_skip v) = false) by (destruct Hok as [->| ->]; [reflexivity|destruct stake_enabled; reflexivity]).
    rewrite K in H. injection H as <-. split; [split; [exact F|split; [exact W|split; [exact N|exact S0]]]|lia].
  - destruct (withdraw_step v s ids target rewards s' H) as (s1 & W1 & Eb & Es & _ & _).
    destruct (withdraw_ids_frame _ _ _ _ W1) as (Fs & Ft & _ & Ff).
    split; [|unfold gap; rewrite Es, Eb, Fs, Ft; lia]. unfold InvB, fee_ok in *. rewrite Es, Eb, Ff, Ft, Fs. split; [exact F|split; [exact W|split; [exact N|exact S0]]].
  - unfold create in H. inv_ok H. injection H as <-. split; [split; [exact F|split; [exact W|split; [exact N|exact S0]]]|unfold gap; cbn [s_bk s_supply]; lia].
  - injection H as <-. split; [split; [exact F|split; [exact W|split; [exact N|exact S0]]]|unfold gap; cbn [s_bk s_supply]; lia].
Qed.

(* Over every such history the supply exceeds the weighted reserves by at most what it did at the
   start plus the accumulated rounding slack of the swaps (half of 10^-18 of the out weight per pair) *)
Theorem backed_over_histories : forall v ops s, Forall (op_okB v) ops -> InvB s ->
  InvB (run v s ops) /\ gap (run v s ops) <= Z.max (gap s) 0 + run_slack v s ops.
Proof.
  intros v ops. induction ops as [|o r IH]; intros s Hok I.
  - cbn [run fold_left run_slack]. split; [exact I|lia].
  - inversion Hok as [|? ? H1 H2]; subst. pose proof (op_slack_nonneg s o I) as SN.
    change (run v s (o :: r)) with (run v (apply v s o) r). cbn [run_slack].
    assert (A : InvB (apply v s o) /\ gap (apply v s o) <= Z.max (gap s) 0 + op_slack s o).
    { unfold apply. destruct (step v s o) as [s'| |] eqn:E; [eapply step_backed; eauto|split; [exact I|lia]|split; [exact I|lia]]. }
    destruct A as [I' G]. destruct (IH _ H2 I') as [I'' G']. split; [exact I''|lia].
Qed.

(* ... and burns on the current code break it outright (not by rounding): the witness of
   burn_pro_rata_refuted leaves a supply of 1000 backed by reserves worth 0 *)
Lemma wit_backed_b : (gap wit_state <=? 0) && match burn current wit_state 0 1 0 1000 with Ok s' => gap s' =? 1000 * PREC | _ => false end = true.
Proof. vm_compute. reflexivity. Qed.
Theorem backed_refuted : exists s a x s', Books s /\ Backed s /\ burn current s 0 a 0 x = Ok s' /\ gap s' = x * PREC.
Proof.
  exists wit_state, 1, 1000. pose proof wit_backed_b as H. apply andb_prop in H. destruct H as [H1 H2].
  destruct (burn current wit_state 0 1 0 1000) as [s'| |]; try discriminate.
  exists s'. split; [exact wit_books|]. split; [unfold Backed; lia|]. split; [reflexivity|lia].
Qed.
(* ---------------------------------------------------------------- swap on a basket without reserves *)
Lemma dmul_zero_l : forall w, dmul (dec_of_int 0) w = Ok 0.
Proof. reflexivity. Qed.
Lemma token_values_zero : forall ts, (forall t, In t ts -> t_amount t = 0) -> exists vs, token_values ts = Ok vs /\ forall x, In x vs -> x = 0.
Proof.
  induction ts as [|t r IH]; intros H; [exists []; split; [reflexivity|intros x []]|].
  destruct IH as (vs & E & Z0); [intros u Hu; apply H; right; exact Hu|].
  exists (0 :: vs). cbn [token_values]. unfold token_value. rewrite (H t (or_introl eq_refl)), dmul_zero_l. cbn [bind]. rewrite E. cbn [bind].
  split; [reflexivity|]. intros x [<-|Hx]; [reflexivity|apply Z0; exact Hx].
Qed.
Lemma zsum_zero : forall vs, (forall x, In x vs -> x = 0) -> zsum vs = 0.
Proof.
  induction vs as [|x r IH]; intros H; [reflexivity|]. change (zsum (x :: r)) with (x + zsum r).
  rewrite (H x (or_introl eq_refl)), IH; [reflexivity|intros y Hy; apply H; right; exact Hy].
Qed.
Lemma dquo_zero_l : forall n, n <> 0 -> dquo 0 n = Ok 0.
Proof. intros n H. unfold dquo. destruct (n =? 0) eqn:E; [lia|]. reflexivity. Qed.

(* AverageDisbalance divides by the average value: any swap message -- whatever its pairs, even none
   -- on a basket with tokens but no reserves (new, or fully redeemed) panics; the transaction
   fails and nothing moves *)
Theorem swap_without_reserves_panics : forall s now a ps t r,
  b_sd (s_bk s) = false -> b_tokens (s_bk s) = t :: r -> (forall u, In u (t :: r) -> t_amount u = 0) ->
  swap s now a ps = Panic "division by zero".
Proof.
  intros s now a ps t r Hd Ht Hz. unfold swap. rewrite Hd, Ht. unfold avg_disbalance.
  destruct (token_values_zero (t :: r) Hz) as (vs & E & Z0). rewrite E. cbn [bind].
  rewrite (zsum_zero vs Z0).
  assert (N : dec_of_int (Z.of_nat (List.length (t :: r))) <> 0).
  { unfold dec_of_int. cbn [List.length]. pose proof PREC_pos. lia. }
  rewrite (dquo_zero_l _ N). cbn [bind].
  destruct vs as [|x vs']; [cbn [token_values] in E; unfold token_value in E; destruct (dmul _ _); cbn [bind] in E; [destruct (token_values r); discriminate|discriminate|discriminate]|].
  cbn [abs_disbalances]. reflexivity.
Qed.

(* ---------------------------------------------------------------- the checker's books clause and the invariant *)
Lemma rsum_absent : forall ts d, (forall t, In t ts -> t_denom t <> d) -> rsum ts d = 0.
Proof.
  induction ts as [|t r IH]; intros d H; [reflexivity|]. rewrite rsum_cons, IH by (intros u Hu; apply H; right; exact Hu).
  pose proof (H t (or_introl eq_refl)). destruct (t_denom t =? d) eqn:Q; lia.
Qed.
Lemma ssum_absent : forall cs d, (forall c, In c cs -> fst c <> d) -> ssum cs d = 0.
Proof.
  induction cs as [|c r IH]; intros d H; [reflexivity|]. rewrite ssum_cons, IH by (intros u Hu; apply H; right; exact Hu).
  pose proof (H c (or_introl eq_refl)). destruct (fst c =? d) eqn:Q; lia.
Qed.
Lemma existsb_eqb_in : forall l x, existsb (Z.eqb x) l = true -> In x l.
Proof. intros l x H. apply existsb_exists in H. destruct H as (y & Hy & E). assert (x = y) by lia. subst. exact Hy. Qed.

(* an observation accepted by the checker's [books] clause is a state satisfying [Books] *)
Lemma recorded_total_eq : forall p d,
  recorded_total p d = rsum (b_tokens (p_bk p)) d + ssum (b_surplus (p_bk p)) d + sibs_total (map fst (p_sibs p)) d.
Proof. intros p d. unfold recorded_total, all_baskets. cbn [map zsum fold_right]. reflexivity. Qed.
Lemma sibs_total_absent : forall l d,
  (forall b, In b l -> (forall t, In t (b_tokens b) -> t_denom t <> d) /\ (forall c, In c (b_surplus b) -> fst c <> d)) ->
  sibs_total l d = 0.
Proof.
  induction l as [|b r IH]; intros d H; [reflexivity|]. rewrite sibs_total_cons, IH by (intros x Hx; apply H; right; exact Hx).
  destruct (H b (or_introl eq_refl)) as [Ht Hs]. rewrite rsum_absent, ssum_absent by assumption. lia.
Qed.
Theorem books_reflects : forall p, books p = true -> (forall d, ~ In d (denoms_of p) -> bal_at p MODULE d = 0) ->
  Books (state_of_post p).
Proof.
  intros p H Hout. unfold books in H. repeat (apply andb_prop in H; destruct H as [H ?]).
  rename H0 into Hlisted, H1 into Hbal, H2 into Hsibsup.
  split; [cbn; lia|]. intros d. cbn [state_of_post init_state s_bk s_bal s_sibs].
  change (bal_of_lists (p_bals p) MODULE d) with (bal_at p MODULE d).
  destruct (in_dec Z.eq_dec d (denoms_of p)) as [I|I].
  - rewrite forallb_forall in Hbal. specialize (Hbal d I). rewrite recorded_total_eq in Hbal. lia.
  - assert (A : forall b, In b (all_baskets p) -> (forall t, In t (b_tokens b) -> t_denom t <> d) /\ (forall c, In c (b_surplus b) -> fst c <> d)).
    { intros b Hb. rewrite forallb_forall in Hlisted. specialize (Hlisted b Hb). apply andb_prop in Hlisted. destruct Hlisted as [L1 L2].
      rewrite forallb_forall in L1, L2. split.
      - intros t Ht E. specialize (L1 t Ht). apply existsb_eqb_in in L1. congruence.
      - intros c Hc E. specialize (L2 c Hc). apply existsb_eqb_in in L2. congruence. }
    destruct (A (p_bk p) (or_introl eq_refl)) as [A1 A2].
    rewrite (Hout d I), rsum_absent, ssum_absent, sibs_total_absent; try assumption; [lia|].
    intros b Hb. apply A. right. exact Hb.
Qed.
(* hence: from an accepted observation every model step of a holder keeps the books *)
Corollary books_clause_sound_step : forall v p o s', books p = true ->
  (forall d, ~ In d (denoms_of p) -> bal_at p MODULE d = 0) -> fee_ok (p_bk p) -> op_ok o ->
  step v (state_of_post p) o = Ok s' -> Books s'.
Proof.
  intros v p o s' Hb Hout Hf Hok Hs.
  assert (I : Inv (state_of_post p)) by (split; [apply books_reflects; assumption|exact Hf]).
  apply (step_inv _ _ _ _ Hs Hok I).
Qed.
(* ---------------------------------------------------------------- burns inside the backing invariant *)
Definition denoms (ts : list token) : list Z := map t_denom ts.
Lemma add_token_denoms : forall ts d x, denoms (add_token ts d x) = denoms ts.
Proof.
  induction ts as [|t r IH]; intros d x; cbn [add_token]; [reflexivity|].
  destruct (t_denom t =? d); cbn [denoms map with_amount t_denom]; [reflexivity|]. f_equal. apply IH.
Qed.
Lemma inc_tokens_denoms : forall cs ts ts', inc_tokens ts cs = Ok ts' -> denoms ts' = denoms ts.
Proof.
  induction cs as [|[e y] r IH]; cbn [inc_tokens]; intros ts ts' H; [injection H as <-; reflexivity|].
  destruct (find_token ts e); [|discriminate]. rewrite (IH _ _ H). apply add_token_denoms.
Qed.
Lemma dec_tokens_denoms : forall cs ts ts', dec_tokens ts cs = Ok ts' -> denoms ts' = denoms ts.
Proof.
  induction cs as [|[e y] r IH]; cbn [dec_tokens]; intros ts ts' H; [injection H as <-; reflexivity|].
  destruct (find_token ts e); [|discriminate]. destruct (t_amount t - y <? 0); [discriminate|].
  rewrite (IH _ _ H). apply add_token_denoms.
Qed.
Lemma swap_pairs_denoms : forall ps b now a acc acc', swap_pairs b now a acc ps = Ok acc' -> denoms (a_ts acc') = denoms (a_ts acc).
Proof.
  induction ps as [|p r IH]; cbn [swap_pairs]; intros b now a acc acc' H; [injection H as <-; reflexivity|].
  destruct (swap_pair b now a acc p) as [acc1| |] eqn:E; cbn [bind] in H; try discriminate.
  rewrite (IH _ _ _ _ _ H). destruct p as [[din xin] dout]. unfold swap_pair in E. inv_ok E. injection E as <-. cbn [a_ts].
  rewrite !add_token_denoms. reflexivity.
Qed.
Lemma has_denom_in : forall ts d, has_denom ts d = true <-> In d (denoms ts).
Proof.
  induction ts as [|t r IH]; intros d; cbn [has_denom denoms map In]; [split; [discriminate|tauto]|].
  rewrite Bool.orb_true_iff, IH. split; intros [H|H]; [left; lia|right; exact H|left; lia|right; exact H].
Qed.
Lemma edit_tokens_nodup : forall old new seen ts', edit_tokens old seen new = Ok ts' ->
  NoDup (denoms ts') /\ forall d, In d (denoms ts') -> has_denom seen d = false.
Proof.
  induction new as [|t r IH]; cbn [edit_tokens]; intros seen ts' H; [injection H as <-; split; [constructor|intros d []]|].
  destruct (t_weight t =? 0); [discriminate|]. destruct (has_denom seen (t_denom t)) eqn:S; [discriminate|].
  destruct (edit_tokens old (t :: seen) r) as [rest| |] eqn:E; cbn [bind] in H; try discriminate. injection H as <-.
  destruct (IH _ _ E) as [N A]. cbn [denoms map with_amount t_denom]. split.
  - constructor; [|exact N]. intros I. specialize (A _ I). cbn [has_denom] in A. rewrite Z.eqb_refl in A. discriminate.
  - intros d [<-|I]; [exact S|]. specialize (A _ I). cbn [has_denom] in A. apply Bool.orb_false_iff in A. apply A.
Qed.
Lemma nodup_wof : forall ts t, NoDup (denoms ts) -> In t ts -> wof ts (t_denom t) = Some (t_weight t).
Proof.
  unfold wof. induction ts as [|u r IH]; intros t N I; [destruct I|]. cbn [find_token]. inversion N as [|? ? Hn Nr]; subst.
  destruct I as [<-|I]; [rewrite Z.eqb_refl; reflexivity|].
  destruct (t_denom u =? t_denom t) eqn:Q; [|apply IH; assumption].
  exfalso. apply Hn. assert (t_denom u = t_denom t) by lia. rewrite H. apply in_map. exact I.
Qed.

Lemma wvalue_cons : forall ts c cs, wvalue ts (c :: cs) = match wof ts (fst c) with Some w => snd c * w | None => 0 end + wvalue ts cs.
Proof. reflexivity. Qed.
Lemma wvalue_coins_add : forall ts cs d x, wvalue ts (coins_add cs d x) = wvalue ts cs + match wof ts d with Some w => x * w | None => 0 end.
Proof.
  intros ts. induction cs as [|[e y] r IH]; intros d x; cbn [coins_add].
  - destruct (x =? 0) eqn:X; [assert (x = 0) by lia; subst; destruct (wof ts d); lia|]. rewrite wvalue_cons. cbn [fst snd]. unfold wvalue. simpl. lia.
  - destruct (x =? 0) eqn:X; [assert (x = 0) by lia; subst; destruct (wof ts d); lia|].
    destruct (d <? e) eqn:L; [rewrite !wvalue_cons; cbn [fst snd]; lia|].
    destruct (d =? e) eqn:Q.
    + assert (d = e) by lia. subst e. destruct (y + x =? 0) eqn:Z0; rewrite ?wvalue_cons; cbn [fst snd]; destruct (wof ts d); nia.
    + rewrite !wvalue_cons, IH. cbn [fst snd]. lia.
Qed.
Lemma dec_tokens_value : forall cs ts ts', dec_tokens ts cs = Ok ts' -> value ts' = value ts - wvalue ts cs.
Proof.
  induction cs as [|[e y] r IH]; cbn [dec_tokens]; intros ts ts' H.
  - injection H as <-. unfold wvalue. simpl. lia.
  - destruct (find_token ts e) eqn:F; [|discriminate]. destruct (t_amount t - y <? 0); [discriminate|].
    rewrite (IH _ _ H), (add_token_value _ _ _ _ F), (wvalue_ext ts _ r), wvalue_cons by (intros; apply add_token_wof).
    cbn [fst snd]. unfold wof. rewrite F. cbn [option_map]. unfold dec in *. lia.
Qed.
(* what a burn takes out is worth at most portion times the reserves *)
Lemma withdraw_coins_value : forall ts sub p outs, withdraw_coins sub p = Ok outs -> 0 <= p ->
  (forall t, In t sub -> wof ts (t_denom t) = Some (t_weight t) /\ 0 <= t_weight t /\ 0 <= t_amount t) ->
  0 <= wvalue ts outs /\ wvalue ts outs * PREC <= value sub * p.
Proof.
  intros ts. induction sub as [|t r IH]; cbn [withdraw_coins]; intros p outs H Hp Hs.
  - injection H as <-. unfold wvalue, value. simpl. lia.
  - destruct (withdraw_coins r p) as [rest| |] eqn:W; cbn [bind] in H; try discriminate.
    destruct (IH _ _ W Hp) as [I0 I1]; [intros u Hu; apply Hs; right; exact Hu|].
    destruct (Hs t (or_introl eq_refl)) as (Hw & W0 & A0). rewrite value_cons.
    assert (P0 : 0 <= t_weight t * t_amount t * p) by (unfold dec in *; apply Z.mul_nonneg_nonneg; [apply Z.mul_nonneg_nonneg|]; lia).
    destruct (t_wd t); cbn [negb] in H.
    + destruct (dmul (dec_of_int (t_amount t)) p) as [w| |] eqn:M; cbn [bind] in H; try discriminate.
      apply dmul_int_l in M. injection H as <-.
      assert (0 <= w) by (unfold dec in *; subst w; apply Z.mul_nonneg_nonneg; lia).
      pose proof (chop_trunc_bounds w H) as B. pose proof (chop_trunc_nonneg w H) as B0. unfold trunc_int.
      destruct (0 <? chop_trunc w) eqn:P.
      * rewrite wvalue_coins_add, Hw. unfold dec in *. subst w. split; [nia|].
        assert (chop_trunc (t_amount t * p) * t_weight t * PREC <= t_weight t * t_amount t * p) by nia. nia.
      * unfold dec in *. split; [lia|nia].
    + injection H as <-. unfold dec in *. split; [lia|nia].
Qed.

Definition burn_slack (s : state) : Z := value (b_tokens (s_bk s)) / (2 * PREC) + 1.

Theorem burn_keeps_backing_repaired : forall v s now a d x s', v_burn_pre v = true -> burn v s now a d x = Ok s' ->
  NoDup (denoms (b_tokens (s_bk s))) -> weights_all_pos (b_tokens (s_bk s)) -> reserves_nonneg (b_tokens (s_bk s)) ->
  0 < s_supply s -> x <= s_supply s ->
  gap s' <= Z.max (gap s) 0 + burn_slack s.
Proof.
  intros v s now a d x s' Hv H Nd Wp Rn S0 Hx. unfold burn in H. rewrite Hv in H. inv_ok H. injection H as <-.
  unfold gap, burn_slack. cbn [s_supply s_bk b_tokens set_amount set_tokens].
  set (ts := b_tokens (s_bk s)) in *. set (S := s_supply s) in *. set (V := value ts).
  pose proof PREC_pos as HP.
  apply dquo_bound in E; unfold dec_of_int in *; try nia. destruct E as [P0 P1].
  assert (P2 : 2 * a0 * S <= 2 * x * PREC + S) by nia.
  destruct (withdraw_coins_value ts ts a0 a1 E0 P0) as [D0 D1].
  { intros t Ht. split; [apply nodup_wof; assumption|]. split; [specialize (Wp t Ht); lia|apply Rn; exact Ht]. }
  rewrite (dec_tokens_value _ _ _ E2). fold V. set (DV := wvalue ts a1) in *.
  assert (V0 : 0 <= V) by (apply value_nonneg; assumption).
  assert (K : DV * (2 * S * PREC) <= 2 * V * x * PREC + V * S).
  { assert (K1 : DV * PREC * (2 * S) <= V * a0 * (2 * S)) by (apply Z.mul_le_mono_nonneg_r; lia).
    assert (K2 : V * (2 * a0 * S) <= V * (2 * x * PREC + S)) by (apply Z.mul_le_mono_nonneg_l; lia).
    clearbody DV V S. clear - K1 K2. lia. }
  pose proof (Z.div_mod V (2 * PREC) ltac:(lia)) as DM. pose proof (Z.mod_pos_bound V (2 * PREC) ltac:(lia)) as MB.
  set (q := V / (2 * PREC)) in *. set (m := V mod (2 * PREC)) in *.
  assert (X0 : 0 < x) by lia.
  clearbody DV V S q m. clear - K DM MB HP S0 Hx X0 V0 D0.
  assert (T : 0 < 2 * S * PREC) by nia.
  destruct (Z_le_gt_dec (S * PREC) V) as [C|C].
  - rewrite Z.max_r by lia.
    assert (G : ((S - x) * PREC - (V - DV)) * (2 * S * PREC) <= (q + 1) * (2 * S * PREC)).
    { assert (0 <= (V - S * PREC) * (S - x)) by (apply Z.mul_nonneg_nonneg; lia). nia. }
    apply Z.mul_le_mono_pos_r in G; [lia|exact T].
  - rewrite Z.max_l by lia.
    assert (G : ((S - x) * PREC - (V - DV)) * (2 * S * PREC) <= (S * PREC - V + (q + 1)) * (2 * S * PREC)).
    { assert (0 <= (S * PREC - V) * x) by (apply Z.mul_nonneg_nonneg; lia). nia. }
    apply Z.mul_le_mono_pos_r in G; [lia|exact T].
Qed.
Lemma dec_tokens_weights : forall cs ts ts', dec_tokens ts cs = Ok ts' -> weights_all_pos ts -> weights_all_pos ts'.
Proof.
  induction cs as [|[e y] r IH]; cbn [dec_tokens]; intros ts ts' H W; [injection H as <-; exact W|].
  destruct (find_token ts e); [|discriminate]. destruct (t_amount t - y <? 0); [discriminate|].
  apply (IH _ _ H). apply add_token_weights. exact W.
Qed.

(* ---------------------------------------------------------------- backing over ALL histories (repaired burn) *)
Definition InvF (s : state) : Prop := InvB s /\ NoDup (denoms (b_tokens (s_bk s))).
(* every operation of the alphabet except the unreachable weight slash; burns where the portion is
   taken of the supply before the burn *)
Definition op_okF (v : variant) (o : op) : Prop :=
  match o with
  | OBurn _ _ _ _ => v_burn_pre v = true
  | OSlashW _ _ => False
  | OEdit new => fee_ok new /\ weights_all_pos (b_tokens new)
  | OUpsertHook se => se = false \/ v_upsert_skip v = true
  | _ => True
  end.
(* the bank never lets an account hold more of a denomination than its supply: a burn of x finds x <= supply *)
Definition burn_guard (s : state) (o : op) : Prop :=
  match o with OBurn _ _ _ x => x <= s_supply s | _ => True end.
Fixpoint burns_guarded (v : variant) (s : state) (ops : list op) : Prop :=
  match ops with [] => True | o :: r => burn_guard s o /\ burns_guarded v (apply v s o) r end.
Definition op_slackF (s : state) (o : op) : Z :=
  match o with OBurn _ _ _ _ => burn_slack s | _ => op_slack s o end.
Fixpoint run_slackF (v : variant) (s : state) (ops : list op) : Z :=
  match ops with [] => 0 | o :: r => op_slackF s o + run_slackF v (apply v s o) r end.

Lemma op_slackF_nonneg : forall s o, InvF s -> 0 <= op_slackF s o.
Proof.
  intros s o [I _]. destruct o; cbn [op_slackF]; try (apply op_slack_nonneg; exact I).
  unfold burn_slack. destruct I as (_ & W & N & _). pose proof (value_nonneg _ W N). pose proof PREC_pos.
  assert (0 <= value (b_tokens (s_bk s)) / (2 * PREC)) by (apply Z.div_pos; lia). lia.
Qed.

Lemma step_full : forall v s o s', step v s o = Ok s' -> op_okF v o -> burn_guard s o -> InvF s ->
  InvF s' /\ gap s' <= Z.max (gap s) 0 + op_slackF s o.
Proof.
  intros v s o s' H Hok Hg [I Nd].
  destruct o; cbn [op_okF burn_guard op_slackF] in *;
    try (destruct (step_backed v s _ s' H ltac:(cbn [op_okB]; auto) I) as [I' G]; split; [split; [exact I'|]|exact G]).
  - cbn [step] in H. unfold mint in H. inv_ok H. injection H as <-. cbn [s_bk b_tokens set_amount set_tokens].
    rewrite (inc_tokens_denoms _ _ _ E0). exact Nd.
  - (* burn *) cbn [step] in H. destruct I as (F & W & N & S0).
    assert (X0 : 0 < x) by (unfold burn in H; inv_ok H; lia).
    pose proof (burn_keeps_backing_repaired v s now a d x s' Hok H Nd W N ltac:(lia) Hg) as G.
    split; [|exact G]. unfold burn in H. inv_ok H. injection H as <-. unfold InvF, InvB.
    cbn [s_bk s_supply b_tokens set_amount set_tokens].
    split; [split; [exact F|split; [eapply dec_tokens_weights; eauto|split; [eapply dec_tokens_nonneg; eauto|lia]]]|].
    rewrite (dec_tokens_denoms _ _ _ E2). exact Nd.
  - cbn [step] in H. unfold swap in H. inv_ok H. injection H as <-. cbn [s_bk b_tokens set_surplus set_tokens].
    rewrite (swap_pairs_denoms _ _ _ _ _ _ E0). exact Nd.
  - cbn [step] in H. unfold edit in H. inv_ok H. injection H as <-. destruct (edit_tokens_nodup _ _ _ _ E) as [Nn _].
    destruct (v_edit_keep v); cbn [s_bk b_tokens set_amount set_surplus set_tokens]; exact Nn.
  - cbn [step] in H. destruct (negb allowed); [discriminate|]. injection H as <-. exact Nd.
  - cbn [step] in H. injection H as <-. exact Nd.
  - cbn [step] in H. injection H as <-. exact Nd.
  - contradiction.
  - cbn [step] in H. injection H as <-. exact Nd.
  - cbn [step] in H. assert (K : stake_enabled && negb (v_upsert_skip v) = false) by (destruct Hok as [->| ->]; [reflexivity|destruct stake_enabled; reflexivity]).
    rewrite K in H. injection H as <-. exact Nd.
  - destruct (withdraw_step v s ids target rewards s' H) as (s1 & W1 & Eb & _).
    destruct (withdraw_ids_frame _ _ _ _ W1) as (_ & Ft & _). rewrite Eb, Ft. exact Nd.
  - cbn [step] in H. unfold create in H. inv_ok H. injection H as <-. exact Nd.
  - cbn [step] in H. injection H as <-. exact Nd.
Qed.

(* "the supply never exceeds the reserves valued at the basket weights": over EVERY history of mints,
   burns, multi-pair swaps, edit / create / withdraw-surplus proposals, switches, hooks, end blocks and
   genesis round trips the excess of supply * 10^18 over sum(weight_i * reserve_i) stays below its
   starting value (0 for a backed basket) plus the rounding slack of the swaps and burns *)
Theorem backed_over_all_histories : forall v ops s, Forall (op_okF v) ops -> burns_guarded v s ops -> InvF s ->
  InvF (run v s ops) /\ gap (run v s ops) <= Z.max (gap s) 0 + run_slackF v s ops.
Proof.
  intros v ops. induction ops as [|o r IH]; intros s Hok Hg I.
  - cbn [run fold_left run_slackF]. split; [exact I|lia].
  - inversion Hok as [|? ? H1 H2]; subst. destruct Hg as [G1 G2]. pose proof (op_slackF_nonneg s o I) as SN.
    change (run v s (o :: r)) with (run v (apply v s o) r). cbn [run_slackF].
    assert (A : InvF (apply v s o) /\ gap (apply v s o) <= Z.max (gap s) 0 + op_slackF s o).
    { unfold apply. destruct (step v s o) as [s'| |] eqn:E; [eapply step_full; eauto|split; [exact I|lia]|split; [exact I|lia]]. }
    destruct A as [I' G]. destruct (IH _ H2 G2 I') as [I'' G']. split; [exact I''|lia].
Qed.
(* ---------------------------------------------------------------- the spec checker accepts the model's runs *)
(* an observation [p] of a model state [s]: same records, same supply, the module account's balances
   of the listed denominations; [well_listed]: what the harness guarantees of any observation (every
   denomination that occurs is listed, the other baskets' tokens have the recorded supply) *)
Definition represents (s : state) (p : post) : Prop :=
  p_bk p = s_bk s /\ p_supply p = s_supply s /\ map fst (p_sibs p) = s_sibs s /\
  forall d, In d (denoms_of p) -> bal_at p MODULE d = s_bal s MODULE d.
Definition well_listed (p : post) : Prop :=
  forallb (fun bs => snd bs =? b_amount (fst bs)) (p_sibs p) = true /\
  forallb (fun b => forallb (fun t => existsb (Z.eqb (t_denom t)) (denoms_of p)) (b_tokens b)
                    && forallb (fun c => existsb (Z.eqb (fst c)) (denoms_of p)) (b_surplus b)) (all_baskets p) = true.

Lemma books_of_Books : forall s p, Books s -> represents s p -> well_listed p -> books p = true.
Proof.
  intros s p [B1 B2] (Rb & Rs & Rsib & Rbal) [L1 L2]. unfold books. rewrite L1, L2, !Bool.andb_true_r.
  apply andb_true_intro. split; [rewrite Rb, Rs; lia|].
  apply forallb_forall. intros d Hd. rewrite recorded_total_eq, Rb, Rsib, (Rbal d Hd). specialize (B2 d). lia.
Qed.

Lemma run_snoc : forall v s l o, run v s (l ++ [o]) = apply v (run v s l) o.
Proof. intros. unfold run. rewrite fold_left_app. reflexivity. Qed.
Lemma burns_guarded_snoc : forall v l s o, burns_guarded v s (l ++ [o]) -> burn_guard (run v s l) o.
Proof.
  intros v. induction l as [|x r IH]; intros s o H; cbn [app burns_guarded] in H.
  - destruct H as [H _]. exact H.
  - destruct H as [_ H]. change (run v s (x :: r)) with (run v (apply v s x) r). apply IH. exact H.
Qed.
Lemma burns_guarded_prefix : forall v l s o, burns_guarded v s (l ++ [o]) -> burns_guarded v s l.
Proof.
  intros v. induction l as [|x r IH]; intros s o H; cbn [app burns_guarded] in *; [exact I|].
  destruct H as [H1 H2]. split; [exact H1|eapply IH; eauto].
Qed.

Lemma max_weight_ge : forall ts d w, wof ts d = Some w -> w <= fold_right Z.max 0 (map t_weight ts).
Proof.
  unfold wof. induction ts as [|t r IH]; cbn [find_token]; intros d w H; [discriminate|]. cbn [map fold_right].
  destruct (t_denom t =? d); [injection H as <-; lia|]. specialize (IH _ _ H). lia.
Qed.
Lemma pairs_slack_le : forall ps ts, weights_pos ts ->
  pairs_slack ts ps <= Z.of_nat (List.length ps) * (fold_right Z.max 0 (map t_weight ts) / (2 * PREC) + 1).
Proof.
  induction ps as [|p r IH]; intros ts W; cbn [pairs_slack List.length]; [lia|]. specialize (IH ts W).
  rewrite Nat2Z.inj_succ. set (M := fold_right Z.max 0 (map t_weight ts)) in *.
  assert (pair_slack ts p <= M / (2 * PREC) + 1).
  { unfold pair_slack. destruct (wof ts (snd p)) as [w|] eqn:F.
    - pose proof (max_weight_ge _ _ _ F). pose proof PREC_pos. assert (w / (2 * PREC) <= M / (2 * PREC)) by (apply Z.div_le_mono; lia). fold M in H. lia.
    - pose proof PREC_pos. assert (0 <= M / (2 * PREC)); [apply Z.div_pos; [unfold M; clear; induction (map t_weight ts); cbn; lia|lia]|lia]. }
  lia.
Qed.

(* the two clauses that carry the backing of the token -- [books] and [backed] -- never fire on a run of
   the model: for ALL operation lists, at every step, for any observations of the states before and
   after it.  (Repaired burn order; the other clauses restate, per operation, the theorems
   C11_mint_*, C11_burn_*, C11_swap_* above and are checked on the real observations only.) *)
Theorem chk_sound_books_backed : forall v l o s pre p,
  Forall (op_okE v) (l ++ [o]) -> Forall (op_okF v) (l ++ [o]) -> burns_guarded v s (l ++ [o]) ->
  InvE s -> InvF s ->
  represents (run v s l) pre -> represents (run v s (l ++ [o])) p -> well_listed p ->
  books_step pre p = true /\ deficit p <= deficit pre + allowance o pre p.
Proof.
  intros v l o s pre p HE HF HG IE IF Rpre Rp WL.
  apply Forall_app in HE. destruct HE as [HE1 HE2]. apply Forall_app in HF. destruct HF as [HF1 HF2].
  inversion HE2 as [|? ? oE _]; subst. inversion HF2 as [|? ? oF _]; subst.
  pose proof (books_match_bank_with_edits v l s HE1 IE) as IE1.
  destruct (backed_over_all_histories v l s HF1 (burns_guarded_prefix _ _ _ _ HG) IF) as [IF1 _].
  pose proof (burns_guarded_snoc _ _ _ _ HG) as G1.
  set (s1 := run v s l) in *. rewrite run_snoc in Rp. fold s1 in Rp.
  assert (IE2 : InvE (apply v s1 o)).
  { unfold apply. destruct (step v s1 o) as [s'| |] eqn:E; try exact IE1. eapply step_invE; eauto. }
  assert (G2 : gap (apply v s1 o) <= Z.max (gap s1) 0 + op_slackF s1 o).
  { unfold apply. pose proof (op_slackF_nonneg s1 o IF1). destruct (step v s1 o) as [s'| |] eqn:E; try lia.
    destruct (step_full _ _ _ _ E oF G1 IF1) as [_ G]. exact G. }
  split.
  - destruct IE2 as [B2 _]. pose proof (books_of_Books _ _ B2 Rp WL) as Bp. unfold books_step. rewrite Bp.
    destruct Rp as (Rb & Rs & Rsib & Rbal). destruct B2 as [B21 B22].
    rewrite Bool.orb_true_r. cbn [andb].
    apply andb_true_intro. split; [rewrite Rb, Rs; destruct (p_supply pre =? b_amount (p_bk pre)); cbn; lia|].
    apply forallb_forall. intros d Hd. unfold shortfall. rewrite recorded_total_eq, Rb, Rsib, (Rbal d Hd). specialize (B22 d). lia.
  - destruct Rpre as (Qb & Qs & _). destruct Rp as (Rb & Rs & _).
    assert (Dp : deficit p = Z.max 0 (gap (apply v s1 o))) by (unfold deficit, gap, value_of, value; rewrite Rb, Rs; reflexivity).
    assert (Dq : deficit pre = Z.max 0 (gap s1)) by (unfold deficit, gap, value_of, value; rewrite Qb, Qs; reflexivity).
    assert (A : op_slackF s1 o <= allowance o pre p).
    { destruct IF1 as [(_ & W & N & _) _]. destruct o; cbn [op_slackF op_slack allowance]; try lia.
      - unfold burn_slack, value_of, value. rewrite Qb. pose proof PREC_pos. unfold two_prec. lia.
      - unfold max_weight, two_prec. rewrite Qb. apply pairs_slack_le. apply weights_all_pos_wof. exact W.
      }
    pose proof (op_slackF_nonneg s1 o IF1). rewrite Dp, Dq. lia.
Qed.
