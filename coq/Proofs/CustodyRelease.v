(* C17 -- the release theorem at full strength, over every history of the model (settings edits, custodian
   list edits, sends of every kind, address rotations included): a pooled transfer is paid out only at an
   approval / a password confirmation for it, only when the configured share of DISTINCT LISTED custodians had
   approved it (each recorded once) and the password was confirmed with the password of the request when one
   is in use, and the pay-out takes the transfer out of the pool (no second pay-out).
   The record of approvals is the checker's own log, built from accepted messages; its well-formedness
   (distinct entries, every entry a recorded vote of a then-listed custodian) is proved for every trace. *)
From Sekai Require Import Base.Prelude Model.Custody Model.C17Check Proofs.Custody.
From Coq Require Import ZifyBool.

(* the accepted steps of a trace, each with the checker's log and the transaction-start state before it *)
Fixpoint acc_steps (n : nat) (lg : log) (id0 : Z) (a0 s : state) (tr : trace) : list (log * state * state * state * op) :=
  match tr with
  | [] => []
  | (id, o, code, None) :: _ => []
  | (id, o, code, Some post) :: r =>
      let a0 := if id =? id0 then a0 else s in
      if code =? 0 then (lg, a0, s, post, o) :: acc_steps n (snd (step_clauses n lg a0 s post o)) id a0 post r
      else acc_steps n lg id a0 post r
  end.
(* the log after the whole trace *)
Fixpoint final_log (n : nat) (lg : log) (id0 : Z) (a0 s : state) (tr : trace) : log :=
  match tr with
  | [] => lg
  | (id, o, code, None) :: _ => lg
  | (id, o, code, Some post) :: r =>
      let a0 := if id =? id0 then a0 else s in
      if code =? 0 then final_log n (snd (step_clauses n lg a0 s post o)) id a0 post r else final_log n lg id a0 post r
  end.

Lemma step_clauses_in_trace : forall tr n lg id0 a0 s lg' a s1 s2 o c,
  In (lg', a, s1, s2, o) (acc_steps n lg id0 a0 s tr) -> In c (fst (step_clauses n lg' a s1 s2 o)) ->
  In c (trace_clauses n lg id0 a0 s tr).
Proof.
  induction tr as [|[[[id o0] code] [post|]] r IH]; intros n lg id0 a0 s lg' a s1 s2 o c Hin Hc; simpl in Hin; try contradiction.
  simpl. destruct (code =? 0).
  - destruct Hin as [E|Hin].
    + inversion E; subst. apply in_or_app. left. exact Hc.
    + apply in_or_app. right. eapply IH; eauto.
  - apply in_or_app. right. eapply IH; eauto.
Qed.

(* ---------------------------------------------------------------- the log is well formed on EVERY trace (no model needed) *)
Definition count3 (f t : Z) (h : string) (l : list (Z * Z * string)) : nat :=
  List.length (filter (fun e => match e with (f', t', h') => (f =? f') && (t =? t') && String.eqb h h' end) l).
(* each (custodian, account, transfer) is recorded at most once, for accounts no rotation touched *)
Definition log_distinct (lg : log) : Prop := forall f t h, rotated lg t = false -> (count3 f t h (l_appr lg) <= 1)%nat.

Lemma count3_in3_false : forall f t h l, in3 f t h l = false -> count3 f t h l = O.
Proof.
  intros f t h l. unfold in3, count3. induction l as [|[[f' t'] h'] l IH]; simpl; intros E; [reflexivity|].
  apply orb_false_elim in E. destruct E as [E1 E2]. rewrite E1. exact (IH E2).
Qed.
Lemma count3_ren_other : forall a nw f t h l, t <> nw -> count3 f t h (ren3 a nw l) = count3 f t h l.
Proof.
  intros a nw f t h l Hn. unfold count3, ren3. rewrite filter_app, app_length.
  assert (X : filter (fun e : Z * Z * string => let '(f', t', h') := e in (f =? f') && (t =? t') && String.eqb h h')
                (map (fun e : Z * Z * string => let '(f0, _, h0) := e in (f0, nw, h0)) (filter (fun e : Z * Z * string => let '(_, t0, _) := e in t0 =? a) l)) = []).
  { induction (filter (fun e : Z * Z * string => let '(_, t0, _) := e in t0 =? a) l) as [|[[f0 t0] h0] r IH]; simpl; [reflexivity|].
    destruct (t =? nw) eqn:E; [lia|]. rewrite andb_false_r. simpl. exact IH. }
  rewrite X. reflexivity.
Qed.

Lemma log_distinct_step : forall n lg a0 s1 s2 o, log_distinct lg -> log_distinct (snd (step_clauses n lg a0 s1 s2 o)).
Proof.
  intros n lg a0 s1 s2 o D. unfold step_clauses. simpl snd.
  destruct o; try exact D; unfold op_clauses; cbv zeta.
  - (* custody send *) destruct (dec _ _); [exact D|]. simpl snd. destruct (flag _ _); exact D.
  - (* approve *)
    match goal with |- log_distinct (snd (_, if ?c then _ else _)) => destruct c eqn:Ec end; simpl snd; [|exact D].
    match goal with |- log_distinct (if ?c then _ else _) => destruct c end.
    { (* the same person under another address: nothing is recorded, the account leaves the guarantee *)
      intros f' t' h' R. simpl l_appr. apply D. unfold rotated in *. simpl in R.
      apply orb_false_elim in R. destruct R as [R1 R2]. apply orb_false_elim in R2. destruct R2 as [_ R2]. rewrite R1, R2. reflexivity. }
    intros f' t' h' R. assert (R0 : rotated lg t' = false) by exact R. simpl l_appr. unfold count3. simpl.
    destruct ((f' =? f) && (t' =? t) && String.eqb h' (to_lower h)) eqn:Em.
    + apply andb_prop in Em. destruct Em as [Em E3]. apply andb_prop in Em. destruct Em as [E1 E2].
      apply String.eqb_eq in E3. assert (f' = f) by lia. assert (t' = t) by lia. subst.
      apply andb_prop in Ec. destruct Ec as [Ec _]. apply andb_prop in Ec. destruct Ec as [_ Ec].
      apply negb_true_iff in Ec. apply orb_false_elim in Ec. destruct Ec as [Ec _].
      simpl List.length. fold (count3 f t (to_lower h) (l_appr lg)). rewrite (count3_in3_false _ _ _ _ Ec). lia.
    + exact (D f' t' h' R0).
  - (* decline *)
    match goal with |- log_distinct (snd (_, if ?c then _ else _)) => destruct c end; simpl snd; exact D.
  - (* confirm *)
    destruct (pending s1 t (to_lower h)); simpl snd; [|exact D].
    match goal with |- log_distinct (if ?c then _ else _) => destruct c end; exact D.
  - destruct (dec _ _); exact D.
  - destruct (dec _ _); exact D.
  - (* rotation: the two accounts leave the guarantee; the copies are filed under the new one *)
    simpl snd. intros f' t' h' R. destruct (rotated_cons2 _ _ _ _ _ _ _ _ _ R) as (H1 & H2 & R0).
    simpl l_appr. rewrite count3_ren_other by lia. exact (D f' t' h' R0).
Qed.

Lemma log_distinct_steps : forall tr n lg id0 a0 s, log_distinct lg ->
  (forall lg' a s1 s2 o, In (lg', a, s1, s2, o) (acc_steps n lg id0 a0 s tr) -> log_distinct lg' /\ log_distinct (snd (step_clauses n lg' a s1 s2 o)))
  /\ log_distinct (final_log n lg id0 a0 s tr).
Proof.
  induction tr as [|[[[id o0] code] [post|]] r IH]; intros n lg id0 a0 s D; simpl; try (split; [intros; contradiction|exact D]).
  destruct (code =? 0).
  - pose proof (log_distinct_step n lg (if id =? id0 then a0 else s) s post o0 D) as D1.
    destruct (IH n _ id (if id =? id0 then a0 else s) post D1) as [IH1 IH2]. split; [|exact IH2].
    intros lg' a s1 s2 o [E|Hin]; [inversion E; subst; split; assumption|exact (IH1 _ _ _ _ _ Hin)].
  - exact (IH n lg id (if id =? id0 then a0 else s) post D).
Qed.

(* every recorded approval is an accepted approval message of a custodian listed at that moment, whose vote the
   store recorded; or the copy of such a record made when the account was rotated *)
Definition witnessed (steps : list (log * state * state * state * op)) (e : Z * Z * string) : Prop :=
  match e with (f, t, h) =>
    exists lg a s1 s2 hraw, In (lg, a, s1, s2, OApprove f t hraw) steps /\ to_lower hraw = h
                            /\ is_custodian (getA s1 t) f = true /\ voted s1 s2 = true
  end.

Lemma log_entries_witnessed : forall tr n lg id0 a0 s e,
  In e (l_appr (final_log n lg id0 a0 s tr)) -> rotated (final_log n lg id0 a0 s tr) (snd (fst e)) = false ->
  In e (l_appr lg) \/ witnessed (acc_steps n lg id0 a0 s tr) e.
Proof.
  induction tr as [|[[[id o0] code] [post|]] r IH]; intros n lg id0 a0 s e Hin R; simpl in *; auto.
  destruct (code =? 0); [|exact (IH n lg id _ post e Hin R)].
  destruct (IH n _ id _ post e Hin R) as [Hl|Hw].
  - (* the entry was in the log right after this step *)
    unfold step_clauses in Hl. simpl snd in Hl.
    destruct o0; try (left; exact Hl); unfold op_clauses in Hl; cbv zeta in Hl.
    + destruct (dec _ _); [left; exact Hl|]. simpl snd in Hl. destruct (flag _ _); left; exact Hl.
    + match type of Hl with In _ (l_appr (snd (_, if ?c then _ else _))) => destruct c eqn:Ec end; simpl snd in Hl; [|left; exact Hl].
      match type of Hl with In _ (l_appr (if ?c then _ else _)) => destruct c end; [left; exact Hl|].
      simpl l_appr in Hl. destruct Hl as [<-|Hl]; [|left; exact Hl].
      right. apply andb_prop in Ec. destruct Ec as [Ec Ev]. apply andb_prop in Ec. destruct Ec as [Ei _].
      exists lg, (if id =? id0 then a0 else s), s, post, h. split; [left; reflexivity|]. repeat split; assumption.
    + match type of Hl with In _ (l_appr (snd (_, if ?c then _ else _))) => destruct c end; simpl snd in Hl; left; exact Hl.
    + destruct (pending s t (to_lower h)); simpl snd in Hl; [|left; exact Hl].
      match type of Hl with In _ (l_appr (if ?c then _ else _)) => destruct c end; left; exact Hl.
    + destruct (dec _ _); left; exact Hl.
    + destruct (dec _ _); left; exact Hl.
    + (* rotation: copies are filed under the new, tainted account -- the entry is an old one *)
      simpl snd in Hl. simpl l_appr in Hl. unfold ren3 in Hl. apply in_app_or in Hl. destruct Hl as [Hl|Hl]; [|left; exact Hl].
      exfalso. apply in_map_iff in Hl. destruct Hl as ([[f0 t0] h0] & <- & _). simpl in R.
      (* the taint only grows along the trace *)
      assert (G : forall tr' n' lg' id' a' s', rotated lg' nw = true -> rotated (final_log n' lg' id' a' s' tr') nw = true).
      { clear. induction tr' as [|[[[id o0] code] [post|]] r IH]; intros n' lg' id' a' s' T; simpl; auto.
        destruct (code =? 0); [|apply IH; exact T]. apply IH.
        unfold step_clauses. simpl snd. destruct o0; try exact T; unfold op_clauses; cbv zeta.
        - destruct (dec _ _); [exact T|]. simpl snd. destruct (flag _ _); exact T.
        - match goal with |- rotated (snd (_, if ?c then _ else _)) _ = true => destruct c end; simpl snd; [|exact T].
          match goal with |- rotated (if ?c then _ else _) _ = true => destruct c end; [|exact T].
          unfold rotated in *. simpl. apply orb_prop in T. destruct T as [T|T]; rewrite T; [reflexivity|]. rewrite !orb_true_r. reflexivity.
        - match goal with |- rotated (snd (_, if ?c then _ else _)) _ = true => destruct c end; exact T.
        - destruct (pending s' t (to_lower h)); simpl snd; [|exact T]. match goal with |- rotated (if ?c then _ else _) _ = true => destruct c end; exact T.
        - destruct (dec _ _); exact T.
        - destruct (dec _ _); exact T.
        - simpl snd. unfold rotated in *. simpl. apply orb_prop in T. destruct T as [T|T]; rewrite T; rewrite ?orb_true_r; reflexivity. }
      rewrite G in R; [discriminate|]. unfold step_clauses, op_clauses. simpl snd. unfold rotated. simpl. rewrite Z.eqb_refl. rewrite ?orb_true_r. reflexivity.
  - right. destruct e as [[f t] h]. destruct Hw as (lg' & a & s1 & s2 & hraw & Hs & Hw). exists lg', a, s1, s2, hraw. split; [right; exact Hs|exact Hw].
Qed.

(* ---------------------------------------------------------------- the model's histories *)
Section Release.
Variable v : variant.
Hypothesis Hco : v_cust_only v = true.
Hypothesis Hlo : v_lower v = true.
Hypothesis Hpw : v_pwd v = true.
Variable H : string -> string.
Variable minrew : Z.

Definition run_steps (bals : list coins) (ops : list op) : list (log * state * state * state * op) :=
  acc_steps (List.length bals) no_log (-1) (init_state bals) (init_state bals) (model_trace v H minrew 0 (init_state bals) ops).
Definition run_log (bals : list coins) (ops : list op) : log :=
  final_log (List.length bals) no_log (-1) (init_state bals) (init_state bals) (model_trace v H minrew 0 (init_state bals) ops).

Lemma acc_steps_model : forall ops n lg id id0 a0 s lg' a s1 s2 o, id0 < id ->
  In (lg', a, s1, s2, o) (acc_steps n lg id0 a0 s (model_trace v H minrew id s ops)) -> step v H minrew s1 o = Ok s2.
Proof.
  induction ops as [|o0 ops IH]; intros n lg id id0 a0 s lg' a s1 s2 o Hid Hin; simpl in Hin; [contradiction|].
  destruct (step v H minrew s o0) as [x|e|e] eqn:Es; unfold Custody.exec in Hin; rewrite Es in Hin; simpl outcome_code in Hin; simpl Z.eqb in Hin; cbv iota in Hin.
  - destruct Hin as [E|Hin]; [inversion E; subst; exact Es|]. eapply (IH n _ (id + 1) id); [lia|exact Hin].
  - eapply (IH n _ (id + 1) id); [lia|exact Hin].
  - eapply (IH n _ (id + 1) id); [lia|exact Hin].
Qed.

Lemma confirm_needs_pending : forall s f t hraw p ph s', step v H minrew s (OConfirm f t hraw p ph) = Ok s' -> pending s t (to_lower hraw) <> None.
Proof.
  intros s f t hraw p ph s' E. destruct (step_inv _ _ _ _ _ _ E) as (s1 & Ea & Eh).
  apply ante_nonbank in Ea; [|exact Logic.I]. subst s1. unfold pending. simpl in Eh. unfold bind, rec_missing in Eh.
  destruct (a_pool (getA s t)) as [pl|]; [|repeat (dmatch_in Eh; try discriminate)].
  destruct (pool_get (to_lower hraw) pl); [discriminate|simpl in Eh; repeat (dmatch_in Eh; try discriminate)].
Qed.

Lemma run_step_clauses_residual : forall bals ops lg a s1 s2 o c,
  In (lg, a, s1, s2, o) (run_steps bals ops) -> In c (fst (step_clauses (List.length bals) lg a s1 s2 o)) -> residual c = true.
Proof.
  intros bals ops lg a s1 s2 o c Hs Hc. apply (chk_sound_repaired v Hco Hlo Hpw H minrew bals ops).
  unfold model_clauses. eapply step_clauses_in_trace; eauto.
Qed.

Lemma in_op_clauses : forall n lg a s1 s2 o c, In c (fst (op_clauses n lg a s1 s2 o)) -> In c (fst (step_clauses n lg a s1 s2 o)).
Proof. intros. unfold step_clauses. simpl fst. apply in_or_app. right. apply in_or_app. right. assumption. Qed.

(* the log after an accepted approval / confirmation, spelled out *)
Definition approve_log (lg : log) (s1 s2 : state) (f t : Z) (hraw : string) : log :=
  if is_custodian (getA s1 t) f && negb (in3 f t (to_lower hraw) (l_appr lg) || in3 f t (to_lower hraw) (l_decl lg)) && voted s1 s2
  then (if negb (in3 f t (to_lower hraw) (l_appr lg) || in3 f t (to_lower hraw) (l_decl lg)) && same_person lg f t (to_lower hraw)
        then mkLog (l_appr lg) (l_decl lg) (l_conf lg) (l_rot lg) (l_req lg) (l_alias lg) (t :: l_same lg)
        else mkLog ((f, t, to_lower hraw) :: l_appr lg) (l_decl lg) (l_conf lg) (l_rot lg) (l_req lg) (l_alias lg) (l_same lg))
  else lg.
Lemma approve_log_eq : forall n lg a s1 s2 f t hraw, snd (op_clauses n lg a s1 s2 (OApprove f t hraw)) = approve_log lg s1 s2 f t hraw.
Proof. reflexivity. Qed.

(* RELEASE AT AN APPROVAL: the share of distinct listed custodians, and the password *)
Theorem release_at_approval : forall bals ops lg a s1 s2 f t hraw tx,
  In (lg, a, s1, s2, OApprove f t hraw) (run_steps bals ops) ->
  released s1 s2 t (to_lower hraw) = Some tx -> rotated (approve_log lg s1 s2 f t hraw) t = false ->
  let lg1 := approve_log lg s1 s2 f t hraw in
  let T := getA s1 t in
  (guarded T = true -> 0 < n_cust T -> forall st, a_set T = Some st ->
     s_mode st * n_cust T <= count_appr t (to_lower hraw) (l_appr lg1) * 100)
  /\ (flag s_pwd T = true -> in2 t (to_lower hraw) (l_conf lg1) = true)
  /\ log_distinct lg1.
Proof.
  intros bals ops lg a s1 s2 f t hraw tx Hs Hr Ht lg1 T.
  assert (Res : forall c, In c (fst (op_clauses (List.length bals) lg a s1 s2 (OApprove f t hraw))) -> residual c = true).
  { intros c Hc. eapply run_step_clauses_residual; [exact Hs|]. apply in_op_clauses. exact Hc. }
  assert (D : log_distinct lg1).
  { destruct (log_distinct_steps (model_trace v H minrew 0 (init_state bals) ops) (List.length bals) no_log (-1) (init_state bals) (init_state bals)) as [D1 _].
    - intros f0 t0 h0 _. unfold count3. simpl. lia.
    - unfold lg1. rewrite <- (approve_log_eq (List.length bals) lg a). unfold step_clauses in D1. exact (proj2 (D1 _ _ _ _ _ Hs)). }
  assert (Rc : forall x, In x (release_clauses lg1 s1 t (to_lower hraw) tx (t_votes tx + 1) "approve") ->
               In x (fst (op_clauses (List.length bals) lg a s1 s2 (OApprove f t hraw)))).
  { intros x Hx. unfold op_clauses. cbv zeta. rewrite Hr. fold (approve_log lg s1 s2 f t hraw). fold lg1.
    rewrite (vote_kind_plain lg1 t "approve" Ht). simpl fst.
    apply in_or_app. right. apply in_or_app. right. apply in_or_app. right. apply in_or_app. right. apply in_or_app. right. exact Hx. }
  split; [|split; [|exact D]].
  - intros Hg Hn st Hst. destruct (Z_lt_le_dec (count_appr t (to_lower hraw) (l_appr lg1) * 100) (s_mode st * n_cust T)) as [Hlt|]; [|assumption].
    exfalso. set (X := if (t_votes tx + 1) * 100 <? s_mode st * n_cust T then "undercount"%string else "nongenuine"%string).
    assert (Hc : In (cl3 "threshold" "approve" X) (release_clauses lg1 s1 t (to_lower hraw) tx (t_votes tx + 1) "approve")).
    { unfold release_clauses. cbv zeta. apply in_or_app. left. fold T. rewrite Hg. assert (Y : 0 <? n_cust T = true) by lia. rewrite Y. simpl andb. cbv iota.
      rewrite Hst. assert (Z : count_appr t (to_lower hraw) (l_appr lg1) * 100 <? s_mode st * n_cust T = true) by lia. rewrite Z. left. reflexivity. }
    specialize (Res _ (Rc _ Hc)). unfold X in Res. destruct ((t_votes tx + 1) * 100 <? s_mode st * n_cust T); discriminate.
  - intros Hp. destruct (in2 t (to_lower hraw) (l_conf lg1)) eqn:Ei; [reflexivity|exfalso].
    set (X := if t_conf tx then "unconfirmed"%string else "flag_unset"%string).
    assert (Hc : In (cl3 "password" "approve" X) (release_clauses lg1 s1 t (to_lower hraw) tx (t_votes tx + 1) "approve")).
    { unfold release_clauses. cbv zeta. apply in_or_app. right. apply in_or_app. left. fold T. rewrite Hp, Ei. simpl. left. reflexivity. }
    specialize (Res _ (Rc _ Hc)). unfold X in Res. destruct (t_conf tx); discriminate.
Qed.

(* RELEASE AT A PASSWORD CONFIRMATION *)
Theorem release_at_confirmation : forall bals ops lg a s1 s2 f t hraw p ph tx,
  In (lg, a, s1, s2, OConfirm f t hraw p ph) (run_steps bals ops) ->
  released s1 s2 t (to_lower hraw) = Some tx -> rotated lg t = false ->
  let T := getA s1 t in
  (p = t_pw tx \/ ph = t_pw tx)
  /\ (guarded T = true -> 0 < n_cust T -> forall st, a_set T = Some st ->
        s_mode st * n_cust T <= count_appr t (to_lower hraw) (l_appr lg) * 100).
Proof.
  intros bals ops lg a s1 s2 f t hraw p ph tx Hs Hr Ht T.
  assert (Res : forall c, In c (fst (op_clauses (List.length bals) lg a s1 s2 (OConfirm f t hraw p ph))) -> residual c = true).
  { intros c Hc. eapply run_step_clauses_residual; [exact Hs|]. apply in_op_clauses. exact Hc. }
  assert (Hpend : pending s1 t (to_lower hraw) = Some tx).
  { unfold released in Hr. unfold pending. destruct (a_pool (getA s1 t)) as [pl|]; [|discriminate].
    destruct (pool_get (to_lower hraw) pl) as [x|]; [|discriminate].
    destruct (a_pool (getA s2 t)) as [p'|]; [destruct (pool_get (to_lower hraw) p'); [discriminate|]|]; inversion Hr; reflexivity. }
  split.
  - destruct (String.eqb p (t_pw tx) || String.eqb ph (t_pw tx)) eqn:Eg.
    + apply orb_prop in Eg. destruct Eg as [Eg|Eg]; apply String.eqb_eq in Eg; auto.
    + exfalso. assert (Hc : In (cl3 "password" "confirm" "wrong") (fst (op_clauses (List.length bals) lg a s1 s2 (OConfirm f t hraw p ph)))).
      { unfold op_clauses. cbv zeta. rewrite (vote_kind_plain lg t "confirm" Ht), Hpend, Eg. simpl. left. reflexivity. }
      specialize (Res _ Hc). discriminate.
  - intros Hg Hn st Hst. destruct (Z_lt_le_dec (count_appr t (to_lower hraw) (l_appr lg) * 100) (s_mode st * n_cust T)) as [Hlt|]; [|assumption].
    exfalso. set (X := if t_votes tx * 100 <? s_mode st * n_cust T then "undercount"%string else "nongenuine"%string).
    assert (Hc : In (cl3 "threshold" "confirm" X) (fst (op_clauses (List.length bals) lg a s1 s2 (OConfirm f t hraw p ph)))).
    { unfold op_clauses. cbv zeta. rewrite (vote_kind_plain lg t "confirm" Ht), Hpend, Hr. simpl fst. apply in_or_app. right. apply in_or_app. right.
      unfold release_clauses. cbv zeta. apply in_or_app. left. fold T. rewrite Hg. assert (Y : 0 <? n_cust T = true) by lia. rewrite Y. simpl andb. cbv iota.
      rewrite Hst.
      assert (Z : count_appr t (to_lower hraw) (l_appr lg) * 100 <? s_mode st * n_cust T = true) by lia.
      destruct (String.eqb p (t_pw tx) || String.eqb ph (t_pw tx)); simpl l_appr; rewrite Z; left; reflexivity. }
    specialize (Res _ Hc). unfold X in Res. destruct (t_votes tx * 100 <? s_mode st * n_cust T); discriminate.
Qed.

(* EXACTLY ONCE: a vote or a confirmation takes no more than the voter's reward out of the requesting account
   unless the transfer leaves the pool in the same step; a decline never takes a transfer out of the pool *)
Theorem payout_takes_transfer_out_of_pool : forall bals ops lg a s1 s2 o t hraw,
  In (lg, a, s1, s2, o) (run_steps bals ops) ->
  (exists f, o = OApprove f t hraw) \/ (exists f, o = ODecline f t hraw) \/ (exists f p ph, o = OConfirm f t hraw p ph) ->
  paid_without_release s1 s2 t (to_lower hraw) = false
  /\ ((exists f, o = ODecline f t hraw) -> released s1 s2 t (to_lower hraw) = None).
Proof.
  intros bals ops lg a s1 s2 o t hraw Hs Ho.
  assert (Res : forall c, In c (fst (op_clauses (List.length bals) lg a s1 s2 o)) -> residual c = true).
  { intros c Hc. eapply run_step_clauses_residual; [exact Hs|]. apply in_op_clauses. exact Hc. }
  split.
  - destruct (paid_without_release s1 s2 t (to_lower hraw)) eqn:Ep; [exfalso|reflexivity].
    destruct Ho as [[f ->]|[[f ->]|(f & p & ph & ->)]].
    + assert (Hc : In (cl "payout_without_release" (vote_kind lg t "approve")) (fst (op_clauses (List.length bals) lg a s1 s2 (OApprove f t hraw)))).
      { unfold op_clauses. cbv zeta. simpl fst. apply in_or_app. right. apply in_or_app. right. apply in_or_app. right. apply in_or_app. left. rewrite Ep. left. reflexivity. }
      specialize (Res _ Hc). destruct (rotated lg t) eqn:Hrt;
        [destruct (vote_kind_tainted lg t "approve" Hrt) as [K|K]|pose proof (vote_kind_plain lg t "approve" Hrt) as K]; rewrite K in Res; discriminate.
    + assert (Hc : In (cl "payout_without_release" (vote_kind lg t "decline")) (fst (op_clauses (List.length bals) lg a s1 s2 (ODecline f t hraw)))).
      { unfold op_clauses. cbv zeta. simpl fst. apply in_or_app. right. apply in_or_app. right. apply in_or_app. right. apply in_or_app. left. rewrite Ep. left. reflexivity. }
      specialize (Res _ Hc). destruct (rotated lg t) eqn:Hrt;
        [destruct (vote_kind_tainted lg t "decline" Hrt) as [K|K]|pose proof (vote_kind_plain lg t "decline" Hrt) as K]; rewrite K in Res; discriminate.
    + unfold paid_without_release in Ep. destruct (released s1 s2 t (to_lower hraw)) eqn:Er; [discriminate|].
      destruct (pending s1 t (to_lower hraw)) as [tx|] eqn:Hpend.
      * assert (Hc : In (cl "payout_without_release" (vote_kind lg t "confirm")) (fst (op_clauses (List.length bals) lg a s1 s2 (OConfirm f t hraw p ph)))).
        { unfold op_clauses. cbv zeta. rewrite Hpend. simpl fst. apply in_or_app. right. apply in_or_app. left.
          unfold paid_without_release. rewrite Er, Hpend, Ep. left. reflexivity. }
        specialize (Res _ Hc). destruct (rotated lg t) eqn:Hrt;
          [destruct (vote_kind_tainted lg t "confirm" Hrt) as [K|K]|pose proof (vote_kind_plain lg t "confirm" Hrt) as K]; rewrite K in Res; discriminate.
      * (* no pending transfer: the model never accepts such a confirmation *)
        exact (confirm_needs_pending _ _ _ _ _ _ _ (acc_steps_model _ _ _ 0 (-1) _ _ _ _ _ _ _ ltac:(lia) Hs) Hpend).
  - intros [f ->]. destruct (released s1 s2 t (to_lower hraw)) eqn:Er; [exfalso|reflexivity].
    assert (Hc : In (cl "release" (vote_kind lg t "decline")) (fst (op_clauses (List.length bals) lg a s1 s2 (ODecline f t hraw)))).
    { unfold op_clauses. cbv zeta. simpl fst. apply in_or_app. right. apply in_or_app. right. apply in_or_app. right. apply in_or_app. right. apply in_or_app. right. rewrite Er. left. reflexivity. }
    specialize (Res _ Hc). destruct (rotated lg t) eqn:Hrt;
      [destruct (vote_kind_tainted lg t "decline" Hrt) as [K|K]|pose proof (vote_kind_plain lg t "decline" Hrt) as K]; rewrite K in Res; discriminate.
Qed.
End Release.
