(* Proofs about the validator registry model (C05, C15). *)
From Sekai Require Import Base.Prelude Base.Dec Model.Validators Model.C05Check Model.C15Check.
From Coq Require Import ZifyBool.

Local Ltac inv H := inversion H; subst; clear H.
Local Ltac zb :=
  repeat match goal with
  | H : (_ =? _) = true |- _ => apply Z.eqb_eq in H
  | H : (_ =? _) = false |- _ => apply Z.eqb_neq in H
  | H : (_ <? _) = true |- _ => apply Z.ltb_lt in H
  | H : (_ <? _) = false |- _ => apply Z.ltb_ge in H
  | H : (_ <=? _) = true |- _ => apply Z.leb_le in H
  | H : (_ <=? _) = false |- _ => apply Z.leb_gt in H
  end.

(* ================================================================ finite maps and sets *)
Lemma lookup_upd_same : forall A k (a : A) l, lookup k (upd k a l) = Some a.
Proof.
  induction l as [|[k' a'] l IH]; cbn.
  - now rewrite Z.eqb_refl.
  - destruct (k =? k') eqn:E; cbn; [now rewrite Z.eqb_refl|].
    destruct (k <? k'); cbn; [now rewrite Z.eqb_refl|]. now rewrite E.
Qed.
Lemma lookup_upd_other : forall A k k' (a : A) l, k <> k' -> lookup k (upd k' a l) = lookup k l.
Proof.
  intros A k k' a l Hn. induction l as [|[k2 a2] l IH]; cbn.
  - destruct (k =? k') eqn:E; [zb; contradiction|reflexivity].
  - destruct (k' =? k2) eqn:E; cbn.
    + zb; subst. destruct (k =? k2) eqn:E2; [zb; contradiction|reflexivity].
    + destruct (k' <? k2); cbn.
      * destruct (k =? k') eqn:E2; [zb; contradiction|reflexivity].
      * destruct (k =? k2); [reflexivity|apply IH].
Qed.
Lemma lookup_upd : forall A k k' (a : A) l, lookup k (upd k' a l) = if k =? k' then Some a else lookup k l.
Proof.
  intros. destruct (k =? k') eqn:E; zb.
  - subst; apply lookup_upd_same.
  - now apply lookup_upd_other.
Qed.
Lemma lookup_del : forall A k k' (l : list (Z * A)), lookup k (del k' l) = if k =? k' then None else lookup k l.
Proof.
  intros A k k' l. unfold del. induction l as [|[k2 a2] l IH]; cbn [filter lookup fst].
  - now destruct (k =? k').
  - destruct (k2 =? k') eqn:E; cbn [negb lookup].
    + zb; subst. rewrite IH. destruct (k =? k'); reflexivity.
    + destruct (k =? k2) eqn:E2; zb.
      * subst. destruct (k2 =? k') eqn:E3; [zb; contradiction|reflexivity].
      * apply IH.
Qed.

Lemma smem_In : forall x l, smem x l = true <-> In x l.
Proof.
  induction l as [|y l IH]; cbn; [split; [discriminate|tauto]|].
  rewrite orb_true_iff, IH. split.
  - intros [H|H]; [zb; auto|auto].
  - intros [H|H]; [subst; left; apply Z.eqb_refl|auto].
Qed.
Lemma smem_false_In : forall x l, smem x l = false <-> ~ In x l.
Proof. intros. rewrite <- smem_In. destruct (smem x l); split; intros; try congruence; try (exfalso; auto). Qed.
Lemma In_sadd : forall x y l, In x (sadd y l) <-> x = y \/ In x l.
Proof.
  induction l as [|z l IH]; cbn; [intuition congruence|].
  destruct (y =? z) eqn:E; zb; [subst; cbn; intuition congruence|].
  destruct (y <? z); cbn; [intuition congruence|]. rewrite IH. intuition congruence.
Qed.
Lemma In_sdel : forall x y l, In x (sdel y l) <-> x <> y /\ In x l.
Proof.
  intros. unfold sdel. rewrite filter_In. split; intros [H1 H2]; split; auto.
  - intro; subst. now rewrite Z.eqb_refl in H2.
  - destruct (x =? y) eqn:E; zb; [contradiction|reflexivity].
Qed.
Lemma smem_sadd : forall x y l, smem x (sadd y l) = (x =? y) || smem x l.
Proof.
  intros. destruct ((x =? y) || smem x l) eqn:E.
  - apply smem_In, In_sadd. apply orb_true_iff in E as [E|E]; [zb; auto|right; now apply smem_In].
  - apply smem_false_In. rewrite In_sadd. apply orb_false_iff in E as [E1 E2]. zb. apply smem_false_In in E2. tauto.
Qed.
Lemma smem_sdel : forall x y l, smem x (sdel y l) = negb (x =? y) && smem x l.
Proof.
  intros. destruct (negb (x =? y) && smem x l) eqn:E.
  - apply smem_In, In_sdel. apply andb_true_iff in E as [E1 E2]. apply negb_true_iff in E1. zb. split; auto. now apply smem_In.
  - apply smem_false_In. rewrite In_sdel. intros [H1 H2]. apply smem_In in H2. rewrite H2 in E.
    destruct (x =? y) eqn:E3; zb; [contradiction|discriminate].
Qed.

(* strictly increasing lists *)
Fixpoint sorted (l : list Z) : Prop :=
  match l with [] => True | x :: r => (forall y, In y r -> x < y) /\ sorted r end.
Lemma sorted_sadd : forall x l, sorted l -> sorted (sadd x l).
Proof.
  induction l as [|y l IH]; cbn; intros H; [tauto|].
  destruct H as [H1 H2].
  destruct (x =? y) eqn:E; [cbn; tauto|]. zb.
  destruct (x <? y) eqn:E2; zb; cbn.
  - repeat split; auto. intros z [Hz|Hz]; [lia|]. specialize (H1 z Hz). lia.
  - split; [|auto]. intros z Hz. apply In_sadd in Hz as [Hz|Hz]; [lia|auto].
Qed.
Lemma sorted_filter : forall f l, sorted l -> sorted (filter f l).
Proof.
  induction l as [|y l IH]; cbn; intros H; [tauto|]. destruct H as [H1 H2].
  destruct (f y); cbn; auto. split; auto. intros z Hz. apply filter_In in Hz. apply H1, Hz.
Qed.
Lemma sorted_sdel : forall x l, sorted l -> sorted (sdel x l).
Proof. intros; now apply sorted_filter. Qed.
Lemma sorted_NoDup : forall l, sorted l -> NoDup l.
Proof.
  induction l as [|y l IH]; cbn; intros H; constructor.
  - intro Hy. destruct H as [H _]. specialize (H y Hy). lia.
  - apply IH, H.
Qed.
Lemma keys_upd : forall A k (a : A) l, map fst (upd k a l) = sadd k (map fst l).
Proof.
  induction l as [|[k' a'] l IH]; cbn; [reflexivity|].
  destruct (k =? k') eqn:E; cbn; [zb; now subst|].
  destruct (k <? k'); cbn; [reflexivity|]. now rewrite IH.
Qed.
Lemma lookup_In : forall A k (a : A) l, lookup k l = Some a -> In (k, a) l.
Proof.
  induction l as [|[k' a'] l IH]; cbn; [discriminate|].
  destruct (k =? k') eqn:E; intros H; [zb; inv H; auto|auto].
Qed.
Lemma lookup_None_keys : forall A k (l : list (Z * A)), ~ In k (map fst l) -> lookup k l = None.
Proof.
  induction l as [|[k' a'] l IH]; cbn; [reflexivity|]. intros H.
  destruct (k =? k') eqn:E; zb; [subst; tauto|]. apply IH. tauto.
Qed.
Lemma In_lookup_sorted : forall A k (a : A) l, sorted (map fst l) -> In (k, a) l -> lookup k l = Some a.
Proof.
  induction l as [|[k' a'] l IH]; cbn; [tauto|]. intros [H1 H2] [H|H].
  - inv H. now rewrite Z.eqb_refl.
  - destruct (k =? k') eqn:E; zb; [|auto].
    subst. exfalso. assert (In k' (map fst l)) by (apply in_map_iff; exists (k', a); auto).
    specialize (H1 _ H0). lia.
Qed.
Lemma lookup_keys : forall A k (a : A) l, lookup k l = Some a -> In k (map fst l).
Proof. intros. apply in_map_iff. exists (k, a). split; auto. now apply lookup_In. Qed.

Lemma has_dup_NoDup : forall l, has_dup l = false <-> NoDup l.
Proof.
  induction l as [|x l IH]; cbn; [split; [constructor|reflexivity]|].
  rewrite orb_false_iff, IH, smem_false_In. split.
  - intros [H1 H2]; now constructor.
  - intros H; inv H; auto.
Qed.
Lemma NoDup_app_iff : forall (a b : list Z), NoDup (a ++ b) <-> NoDup a /\ NoDup b /\ (forall x, In x a -> ~ In x b).
Proof.
  induction a as [|x a IH]; cbn; intros b.
  - split; [intros; repeat split; auto; constructor|tauto].
  - split.
    + intros H; inv H. apply IH in H3 as (Ha & Hb & Hd). rewrite in_app_iff in H2.
      repeat split; auto; [constructor; tauto|]. intros y [Hy|Hy]; [subst; tauto|auto].
    + intros (Ha & Hb & Hd). inv Ha. constructor.
      * rewrite in_app_iff. intros [H|H]; [tauto|]. apply (Hd x); auto.
      * apply IH. repeat split; auto.
Qed.
Lemma NoDup_map_inj : forall A (f : A -> Z) l, NoDup l -> (forall x y, In x l -> In y l -> f x = f y -> x = y) -> NoDup (map f l).
Proof.
  induction l as [|x l IH]; cbn; intros Hn Hi; constructor; inv Hn.
  - rewrite in_map_iff. intros (y & Hy1 & Hy2). assert (y = x) by (apply Hi; auto). subst; tauto.
  - apply IH; auto.
Qed.

(* ================================================================ CometBFT: apply_updates *)
Lemma In_fold_sadd : forall x ks cs, In x (fold_left (fun a k => sadd k a) ks cs) <-> In x ks \/ In x cs.
Proof.
  induction ks as [|k ks IH]; cbn; intros cs; [tauto|]. rewrite IH, In_sadd. intuition congruence.
Qed.
Lemma In_fold_sdel : forall x ks cs, In x (fold_left (fun a k => sdel k a) ks cs) <-> ~ In x ks /\ In x cs.
Proof.
  induction ks as [|k ks IH]; cbn; intros cs; [tauto|]. rewrite IH, In_sdel. intuition congruence.
Qed.
Lemma sorted_fold_sadd : forall ks cs, sorted cs -> sorted (fold_left (fun a k => sadd k a) ks cs).
Proof. induction ks; cbn; auto. intros; apply IHks, sorted_sadd; auto. Qed.
Lemma sorted_fold_sdel : forall ks cs, sorted cs -> sorted (fold_left (fun a k => sdel k a) ks cs).
Proof. induction ks; cbn; auto. intros; apply IHks, sorted_sdel; auto. Qed.

Definition dels_of (ups : list (Z * Z)) := map fst (filter (fun u => snd u =? 0) ups).
Definition upds_of (ups : list (Z * Z)) := map fst (filter (fun u => 0 <? snd u) ups).

Definition apply_body (cs : list Z) (ups : list (Z * Z)) : option (list Z) :=
  if has_dup (map fst ups) then None
  else if existsb (fun u => snd u <? 0) ups then None
  else
    if Nat.eqb (List.length (filter (fun k => negb (smem k cs)) (upds_of ups))) 0 && Nat.eqb (List.length cs) (List.length (dels_of ups)) then None
    else if negb (forallb (fun k => smem k cs) (dels_of ups)) then None
    else Some (fold_left (fun a k => sdel k a) (dels_of ups) (fold_left (fun a k => sadd k a) (upds_of ups) cs)).
Lemma apply_updates_nonempty : forall cs ups, ups <> [] -> apply_updates cs ups = apply_body cs ups.
Proof. destruct ups; [congruence|reflexivity]. Qed.

(* what a successful application means: exactly CometBFT's side conditions, and the resulting set *)
Lemma apply_updates_ok : forall cs ups,
  NoDup (map fst ups) ->
  (forall u, In u ups -> snd u = 0 \/ snd u = 1) ->
  (forall k, In k (dels_of ups) -> In k cs) ->
  ((exists k, In k (upds_of ups) /\ ~ In k cs) \/ List.length cs <> List.length (dels_of ups) \/ ups = []) ->
  exists c', apply_updates cs ups = Some c' /\
             (forall k, In k c' <-> (In k cs \/ In k (upds_of ups)) /\ ~ In k (dels_of ups)) /\
             (sorted cs -> sorted c').
Proof.
  intros cs ups Hnd Hpow Hdel Hne.
  destruct ups as [|u0 ups0].
  - exists cs. cbn. repeat split; auto; tauto.
  - rewrite apply_updates_nonempty by discriminate. unfold apply_body.
    remember (u0 :: ups0) as ups eqn:E.
    assert (Hd : has_dup (map fst ups) = false) by now apply has_dup_NoDup.
    rewrite Hd.
    assert (Hneg : existsb (fun u => snd u <? 0) ups = false).
    { apply not_true_is_false. intro H. apply existsb_exists in H as (u & Hu & Hlt). zb. destruct (Hpow u Hu); lia. }
    rewrite Hneg.
    assert (Hchk : Nat.eqb (List.length (filter (fun k => negb (smem k cs)) (upds_of ups))) 0 &&
                   Nat.eqb (List.length cs) (List.length (dels_of ups)) = false).
    { destruct Hne as [(k & Hk1 & Hk2)|[Hl|He]].
      - apply andb_false_iff; left. apply Nat.eqb_neq.
        assert (In k (filter (fun k => negb (smem k cs)) (upds_of ups))).
        { apply filter_In. split; auto. apply negb_true_iff, smem_false_In; auto. }
        destruct (filter (fun k => negb (smem k cs)) (upds_of ups)); [contradiction|cbn; lia].
      - apply andb_false_iff; right. now apply Nat.eqb_neq.
      - subst ups; discriminate. }
    rewrite Hchk.
    assert (Hall : forallb (fun k => smem k cs) (dels_of ups) = true).
    { apply forallb_forall. intros k Hk. apply smem_In; auto. }
    rewrite Hall. cbn [negb].
    eexists; split; [reflexivity|]. split.
    + intros k. rewrite In_fold_sdel, In_fold_sadd. tauto.
    + intros Hs. now apply sorted_fold_sdel, sorted_fold_sadd.
Qed.

(* the refusals: a removal of an absent key *)
Lemma apply_updates_absent_removal : forall cs ups k,
  In (k, 0) ups -> ~ In k cs -> apply_updates cs ups = None.
Proof.
  intros cs ups k Hin Hk. rewrite apply_updates_nonempty by (intro; subst; contradiction). unfold apply_body.
  destruct (has_dup (map fst ups)); [reflexivity|].
  destruct (existsb (fun u => snd u <? 0) ups); [reflexivity|].
  match goal with |- (if ?c then _ else _) = _ => destruct c end; [reflexivity|].
  assert (forallb (fun k => smem k cs) (dels_of ups) = false) as ->; [|reflexivity].
  apply not_true_is_false. intro H. rewrite forallb_forall in H.
  assert (In k (dels_of ups)).
  { apply in_map_iff. exists (k, 0). split; auto. apply filter_In. split; auto. }
  apply H in H0. apply smem_In in H0. contradiction.
Qed.

Local Ltac inv_some := repeat match goal with H : Some _ = Some _ |- _ => inversion H; subst; clear H end.

(* ================================================================ C05: the queue invariant *)
Lemma status_eqb_eq : forall a b, status_eqb a b = true <-> a = b.
Proof. destruct a, b; cbn; split; intros; congruence. Qed.
Lemma status_eqb_neq : forall a b, status_eqb a b = false <-> a <> b.
Proof. destruct a, b; cbn; split; intros; congruence. Qed.
Lemma is_active_true : forall a, is_active a = true <-> a = SActive.
Proof. intros; apply status_eqb_eq. Qed.
Lemma is_active_false : forall a, is_active a = false <-> a <> SActive.
Proof. intros; apply status_eqb_neq. Qed.

Record Inv (s : state) : Prop := mkInv {
  inv_rm_sorted : sorted (st_rm s);
  inv_re_sorted : sorted (st_re s);
  inv_pend_sorted : sorted (map fst (st_pend s));
  inv_cset_sorted : sorted (st_cset s);
  (* consensus keys identify validators, pending ones included *)
  inv_inj : forall v1 v2 r1 r2, lookup v1 (st_vals s) = Some r1 -> lookup v2 (st_vals s) = Some r2 ->
            v_cons r1 = v_cons r2 -> v1 = v2;
  inv_pend_fresh : forall v k v' r, lookup v (st_pend s) = Some k -> lookup v' (st_vals s) = Some r -> v_cons r <> k;
  inv_pend_inj : forall v1 v2 k, lookup v1 (st_pend s) = Some k -> lookup v2 (st_pend s) = Some k -> v1 = v2;
  inv_pend_new : forall v k, lookup v (st_pend s) = Some k -> lookup v (st_vals s) = None;
  (* the queues describe exactly the difference between the application and the consensus set *)
  inv_rm : forall v, In v (st_rm s) ->
           exists r, lookup v (st_vals s) = Some r /\ v_status r <> SActive /\ In (v_cons r) (st_cset s) /\ ~ In v (st_re s);
  inv_re : forall v, In v (st_re s) -> exists r, lookup v (st_vals s) = Some r /\ v_status r = SActive;
  inv_rest : forall v r, lookup v (st_vals s) = Some r -> ~ In v (st_rm s) -> ~ In v (st_re s) ->
             (v_status r = SActive <-> In (v_cons r) (st_cset s));
  inv_cset : forall k, In k (st_cset s) -> exists v r, lookup v (st_vals s) = Some r /\ v_cons r = k;
  inv_halt : st_halt s = false;
  inv_vals_sorted : sorted (map fst (st_vals s))
}.

(* only these six components matter *)
Lemma Inv_ext : forall s s', Inv s ->
  st_vals s' = st_vals s -> st_pend s' = st_pend s -> st_rm s' = st_rm s -> st_re s' = st_re s ->
  st_cset s' = st_cset s -> st_halt s' = st_halt s -> Inv s'.
Proof.
  intros s s' [] E1 E2 E3 E4 E5 E6. constructor; rewrite ?E1, ?E2, ?E3, ?E4, ?E5, ?E6; assumption.
Qed.

(* a record rewritten without changing its key nor whether it is active *)
Lemma Inv_touch : forall s v r r', Inv s -> lookup v (st_vals s) = Some r ->
  v_cons r' = v_cons r -> (v_status r' = SActive <-> v_status r = SActive) ->
  Inv (add_validator s v r').
Proof.
  intros s v r r' I Hv Hc Hs. destruct I. constructor; cbn [add_validator st_vals st_pend st_rm st_re st_cset st_halt]; auto.
  - intros v1 v2 r1 r2. rewrite !lookup_upd.
    destruct (v1 =? v) eqn:E1, (v2 =? v) eqn:E2; zb; subst; intros H1 H2 H3; inv_some; auto.
    + rewrite Hc in H3. eapply inv_inj0; eauto.
    + rewrite Hc in H3. eapply inv_inj0; eauto.
    + eapply inv_inj0; eauto.
  - intros v0 k v' r0 Hp. rewrite lookup_upd. destruct (v' =? v) eqn:E; zb; subst; intros H; [inv H; rewrite Hc|]; eauto.
  - intros v0 k Hp. rewrite lookup_upd. destruct (v0 =? v) eqn:E; zb; subst; eauto.
    specialize (inv_pend_new0 _ _ Hp). congruence.
  - intros v0 Hin. destruct (inv_rm0 _ Hin) as (r0 & A & B & C & D). rewrite lookup_upd.
    destruct (v0 =? v) eqn:E; zb; subst; [|eauto].
    rewrite Hv in A; inv A. exists r'. rewrite Hc. repeat split; auto. tauto.
  - intros v0 Hin. destruct (inv_re0 _ Hin) as (r0 & A & B). rewrite lookup_upd.
    destruct (v0 =? v) eqn:E; zb; subst; [|eauto].
    rewrite Hv in A; inv A. exists r'. split; auto. tauto.
  - intros v0 r0. rewrite lookup_upd. destruct (v0 =? v) eqn:E; zb; subst; intros H Hrm Hre.
    + inv_some. rewrite Hc, Hs. apply (inv_rest0 v); auto.
    + apply (inv_rest0 v0); auto.
  - intros k Hk. destruct (inv_cset0 _ Hk) as (v0 & r0 & A & B).
    destruct (Z.eq_dec v0 v) as [->|Hn].
    + rewrite Hv in A; inv A. exists v, r'. rewrite lookup_upd_same. auto.
    + exists v0, r0. rewrite lookup_upd_other; auto.
  - rewrite keys_upd. now apply sorted_sadd.
Qed.

(* Pause / Inactivate / Jail of an active validator whose key the consensus engine holds *)
Lemma Inv_deactivate : forall s v r r', Inv s -> lookup v (st_vals s) = Some r ->
  v_status r = SActive -> In (v_cons r) (st_cset s) ->
  v_cons r' = v_cons r -> v_status r' <> SActive ->
  Inv (sk_deactivate s v r').
Proof.
  intros s v r r' I Hv Ha Hk Hc Hs. destruct I.
  constructor; cbn [sk_deactivate add_validator set_queues st_vals st_pend st_rm st_re st_cset st_halt]; auto.
  - now apply sorted_sadd.
  - now apply sorted_sdel.
  - intros v1 v2 r1 r2. rewrite !lookup_upd.
    destruct (v1 =? v) eqn:E1, (v2 =? v) eqn:E2; zb; subst; intros H1 H2 H3; inv_some; auto.
    + rewrite Hc in H3. eapply inv_inj0; eauto.
    + rewrite Hc in H3. eapply inv_inj0; eauto.
    + eapply inv_inj0; eauto.
  - intros v0 k v' r0 Hp. rewrite lookup_upd. destruct (v' =? v) eqn:E; zb; subst; intros H; [inv H; rewrite Hc|]; eauto.
  - intros v0 k Hp. rewrite lookup_upd. destruct (v0 =? v) eqn:E; zb; subst; eauto.
    specialize (inv_pend_new0 _ _ Hp). congruence.
  - intros v0 Hin. apply In_sadd in Hin.
    destruct (Z.eq_dec v0 v) as [->|Hn].
    + exists r'. rewrite lookup_upd_same, Hc, In_sdel. repeat split; auto. tauto.
    + destruct Hin as [?|Hin]; [contradiction|]. destruct (inv_rm0 _ Hin) as (r0 & A & B & C & D).
      exists r0. rewrite lookup_upd_other, In_sdel by auto. repeat split; auto. tauto.
  - intros v0 Hin. apply In_sdel in Hin as [Hn Hin]. rewrite lookup_upd_other by auto. auto.
  - intros v0 r0. rewrite lookup_upd, In_sadd, In_sdel. destruct (v0 =? v) eqn:E; zb; subst; intros H Hrm Hre.
    + exfalso; apply Hrm; auto.
    + apply (inv_rest0 v0); auto; tauto.
  - intros k Hin. destruct (inv_cset0 _ Hin) as (v0 & r0 & A & B).
    destruct (Z.eq_dec v0 v) as [->|Hn].
    + rewrite Hv in A; inv A. exists v, r'. rewrite lookup_upd_same. auto.
    + exists v0, r0. rewrite lookup_upd_other; auto.
  - rewrite keys_upd. now apply sorted_sadd.
Qed.

(* Unpause / Activate of a non-active validator *)
Lemma Inv_reactivate : forall s v r, Inv s -> lookup v (st_vals s) = Some r -> v_status r <> SActive ->
  Inv (sk_reactivate s v r).
Proof.
  intros s v r I Hv Hs. destruct I.
  constructor; cbn [sk_reactivate add_validator set_queues with_status v_cons v_status st_vals st_pend st_rm st_re st_cset st_halt]; auto.
  - now apply sorted_sdel.
  - now apply sorted_sadd.
  - intros v1 v2 r1 r2. rewrite !lookup_upd.
    destruct (v1 =? v) eqn:E1, (v2 =? v) eqn:E2; zb; subst; intros H1 H2 H3; inv_some; cbn in *; auto.
    + eapply inv_inj0; eauto.
    + eapply inv_inj0; eauto.
    + eapply inv_inj0; eauto.
  - intros v0 k v' r0 Hp. rewrite lookup_upd. destruct (v' =? v) eqn:E; zb; subst; intros H; [inv H; cbn|]; eauto.
  - intros v0 k Hp. rewrite lookup_upd. destruct (v0 =? v) eqn:E; zb; subst; eauto.
    specialize (inv_pend_new0 _ _ Hp). congruence.
  - intros v0 Hin. apply In_sdel in Hin as [Hn Hin].
    destruct (inv_rm0 _ Hin) as (r0 & A & B & C & D). exists r0. rewrite lookup_upd_other, In_sadd by auto. repeat split; auto. tauto.
  - intros v0 Hin. apply In_sadd in Hin. rewrite lookup_upd. destruct (v0 =? v) eqn:E; zb; subst.
    + eexists; split; [reflexivity|reflexivity].
    + destruct Hin as [?|Hin]; [contradiction|]. auto.
  - intros v0 r0. rewrite lookup_upd, In_sadd, In_sdel. destruct (v0 =? v) eqn:E; zb; subst; intros H Hrm Hre.
    + exfalso; apply Hre; auto.
    + apply (inv_rest0 v0); auto; tauto.
  - intros k Hin. destruct (inv_cset0 _ Hin) as (v0 & r0 & A & B).
    destruct (Z.eq_dec v0 v) as [->|Hn].
    + rewrite Hv in A; inv A. exists v, (with_status r0 SActive). rewrite lookup_upd_same. auto.
    + exists v0, r0. rewrite lookup_upd_other; auto.
  - rewrite keys_upd. now apply sorted_sadd.
Qed.

(* ---------------------------------------------------------------- claim *)
Definition fresh_key (s : state) (v k : Z) : Prop :=
  (forall v' r, lookup v' (st_vals s) = Some r -> v_cons r <> k) /\
  (forall v' k', lookup v' (st_pend s) = Some k' -> k' = k -> v' = v).

Lemma Inv_claim : forall s v k, Inv s -> lookup v (st_vals s) = None -> fresh_key s v k ->
  Inv (set_pend s (upd v k (st_pend s))).
Proof.
  intros s v k I Hv [F1 F2]. destruct I.
  constructor; cbn [set_pend st_vals st_pend st_rm st_re st_cset st_halt]; auto.
  - rewrite keys_upd. now apply sorted_sadd.
  - intros v0 k0 v' r. rewrite lookup_upd. destruct (v0 =? v) eqn:E; zb; subst; intros H; inv_some; eauto.
  - intros v1 v2 k0. rewrite !lookup_upd.
    destruct (v1 =? v) eqn:E1, (v2 =? v) eqn:E2; zb; subst; intros H1 H2; inv_some; auto.
    + symmetry. eapply F2; eauto.
    + eapply F2; eauto.
    + eapply inv_pend_inj0; eauto.
  - intros v0 k0. rewrite lookup_upd. destruct (v0 =? v) eqn:E; zb; subst; intros H; inv_some; eauto.
Qed.

(* ---------------------------------------------------------------- end block *)
Definition joined (s : state) : state := fold_left join_pending (st_pend s) s.
Definition key_of (s : state) (v : Z) : Z := match lookup v (st_vals s) with Some r => v_cons r | None => 0 end.

Lemma join_fields : forall l s, let s' := fold_left join_pending l s in
  st_pend s' = st_pend s /\ st_rm s' = st_rm s /\ st_re s' = st_re s /\ st_cset s' = st_cset s /\ st_halt s' = st_halt s.
Proof.
  induction l as [|[v k] l IH]; intros s; cbn; [tauto|].
  specialize (IH (join_pending s (v, k))). cbn in IH. exact IH.
Qed.

Lemma lookup_below : forall A k (l : list (Z * A)), (forall y, In y (map fst l) -> k < y) -> lookup k l = None.
Proof. intros. apply lookup_None_keys. intro Hin. specialize (H _ Hin). lia. Qed.

Lemma join_vals_lookup : forall l s v, sorted (map fst l) ->
  lookup v (st_vals (fold_left join_pending l s)) =
  match lookup v l with Some k => Some (mkV SActive 0 0 k) | None => lookup v (st_vals s) end.
Proof.
  induction l as [|[v0 k0] l IH]; intros s v Hs; [reflexivity|].
  cbn [fold_left]. destruct Hs as [H1 H2]. rewrite IH by assumption.
  cbn [lookup]. destruct (v =? v0) eqn:E; zb.
  - subst. rewrite (lookup_below _ v0 l H1). cbn. now rewrite lookup_upd_same.
  - destruct (lookup v l); [reflexivity|]. cbn. now rewrite lookup_upd_other.
Qed.

Lemma queue_updates_some : forall s q p, (forall v, In v q -> exists r, lookup v (st_vals s) = Some r) ->
  queue_updates s q p = Some (map (fun v => (key_of s v, p)) q).
Proof.
  induction q as [|v q IH]; intros p H; [reflexivity|].
  unfold queue_updates in *. cbn [fold_right map]. rewrite IH by (intros; apply H; now right).
  destruct (H v (or_introl eq_refl)) as (r & Hr). unfold key_of. now rewrite Hr.
Qed.

Lemma dels_const0 : forall A (f : A -> Z) l, dels_of (map (fun x => (f x, 0)) l) = map f l.
Proof. induction l; cbn; auto. unfold dels_of in *. cbn. now rewrite IHl. Qed.
Lemma dels_const1 : forall A (f : A -> Z) l, dels_of (map (fun x => (f x, 1)) l) = [].
Proof. induction l; cbn; auto. Qed.
Lemma upds_const0 : forall A (f : A -> Z) l, upds_of (map (fun x => (f x, 0)) l) = [].
Proof. induction l; cbn; auto. Qed.
Lemma upds_const1 : forall A (f : A -> Z) l, upds_of (map (fun x => (f x, 1)) l) = map f l.
Proof. induction l; cbn; auto. unfold upds_of in *. cbn. now rewrite IHl. Qed.
Lemma dels_app : forall a b, dels_of (a ++ b) = dels_of a ++ dels_of b.
Proof. intros. unfold dels_of. now rewrite filter_app, map_app. Qed.
Lemma upds_app : forall a b, upds_of (a ++ b) = upds_of a ++ upds_of b.
Proof. intros. unfold upds_of. now rewrite filter_app, map_app. Qed.

Definition eb_updates (s : state) : list (Z * Z) :=
  map (fun e : Z * Z => (snd e, 1)) (st_pend s) ++ map (fun v => (key_of s v, 0)) (st_rm s) ++ map (fun v => (key_of s v, 1)) (st_re s).

Lemma old_not_pending : forall s v r, Inv s -> lookup v (st_vals s) = Some r -> lookup v (st_pend s) = None.
Proof.
  intros s v r I H. destruct (lookup v (st_pend s)) eqn:E; [|reflexivity].
  apply (inv_pend_new s I) in E. congruence.
Qed.

Lemma joined_old : forall s v r, Inv s -> lookup v (st_vals s) = Some r -> lookup v (st_vals (joined s)) = Some r.
Proof.
  intros. unfold joined. rewrite join_vals_lookup by apply (inv_pend_sorted s H).
  now rewrite (old_not_pending s v r H H0).
Qed.

Lemma end_block_updates_eq : forall s, Inv s -> end_block_updates s = Some (eb_updates s).
Proof.
  intros s I. unfold end_block_updates. fold (joined s).
  assert (Hk : forall v r, lookup v (st_vals s) = Some r -> key_of (joined s) v = key_of s v).
  { intros v r H. unfold key_of. now rewrite (joined_old s v r I H), H. }
  rewrite !queue_updates_some.
  - unfold eb_updates.
    assert (E1 : map (fun v => (key_of (joined s) v, 0)) (st_rm s) = map (fun v => (key_of s v, 0)) (st_rm s)).
    { apply map_ext_in; intros v Hv. destruct (inv_rm s I v Hv) as (r & A & _). now rewrite (Hk v r A). }
    assert (E2 : map (fun v => (key_of (joined s) v, 1)) (st_re s) = map (fun v => (key_of s v, 1)) (st_re s)).
    { apply map_ext_in; intros v Hv. destruct (inv_re s I v Hv) as (r & A & _). now rewrite (Hk v r A). }
    now rewrite E1, E2.
  - intros v Hv. destruct (inv_re s I v Hv) as (r & A & _). exists r. now apply joined_old.
  - intros v Hv. destruct (inv_rm s I v Hv) as (r & A & _). exists r. now apply joined_old.
Qed.

Lemma In_pend_keys : forall s k, Inv s -> In k (map snd (st_pend s)) <-> exists v, lookup v (st_pend s) = Some k.
Proof.
  intros s k I. rewrite in_map_iff. split.
  - intros ([v k'] & E & Hin). cbn in E; subst. exists v. apply In_lookup_sorted; auto. apply (inv_pend_sorted s I).
  - intros (v & H). exists (v, k). split; auto. now apply lookup_In.
Qed.
Lemma In_queue_keys : forall s q k, In k (map (key_of s) q) <-> exists v, In v q /\ key_of s v = k.
Proof. intros. rewrite in_map_iff. split; intros (v & A & B); exists v; auto. Qed.

Lemma eb_dels : forall s, dels_of (eb_updates s) = map (key_of s) (st_rm s).
Proof.
  intros. unfold eb_updates. rewrite !dels_app, dels_const0, (dels_const1 _ (key_of s)).
  rewrite (dels_const1 _ (fun e : Z * Z => snd e)). cbn. now rewrite app_nil_r.
Qed.
Lemma eb_upds : forall s, upds_of (eb_updates s) = map snd (st_pend s) ++ map (key_of s) (st_re s).
Proof.
  intros. unfold eb_updates. rewrite !upds_app, (upds_const0 _ (key_of s)), (upds_const1 _ (key_of s)).
  rewrite (upds_const1 _ (fun e : Z * Z => snd e)). reflexivity.
Qed.
Lemma eb_keys : forall s, map fst (eb_updates s) = map snd (st_pend s) ++ map (key_of s) (st_rm s) ++ map (key_of s) (st_re s).
Proof. intros. unfold eb_updates. rewrite !map_app, !map_map. reflexivity. Qed.

Lemma eb_keys_NoDup : forall s, Inv s -> NoDup (map fst (eb_updates s)).
Proof.
  intros s I. rewrite eb_keys.
  assert (Hq : forall q, (forall v, In v q -> exists r, lookup v (st_vals s) = Some r) -> NoDup q -> NoDup (map (key_of s) q)).
  { intros q Hq Hn. apply NoDup_map_inj; auto. intros x y Hx Hy E.
    destruct (Hq x Hx) as (rx & Ax), (Hq y Hy) as (ry & Ay). unfold key_of in E. rewrite Ax, Ay in E.
    eapply (inv_inj s I); eauto. }
  apply NoDup_app_iff. repeat split.
  - apply NoDup_map_inj.
    + apply (NoDup_map_inv fst). apply sorted_NoDup, (inv_pend_sorted s I).
    + intros [v1 k1] [v2 k2] H1 H2 E. cbn in E. subst k2.
      apply In_lookup_sorted in H1; [|apply (inv_pend_sorted s I)]. apply In_lookup_sorted in H2; [|apply (inv_pend_sorted s I)].
      now rewrite (inv_pend_inj s I _ _ _ H1 H2).
  - apply NoDup_app_iff. repeat split.
    + apply Hq; [|apply sorted_NoDup, (inv_rm_sorted s I)]. intros v Hv. destruct (inv_rm s I v Hv) as (r & A & _); eauto.
    + apply Hq; [|apply sorted_NoDup, (inv_re_sorted s I)]. intros v Hv. destruct (inv_re s I v Hv) as (r & A & _); eauto.
    + intros k H1 H2. apply In_queue_keys in H1 as (v1 & A1 & B1). apply In_queue_keys in H2 as (v2 & A2 & B2).
      destruct (inv_rm s I v1 A1) as (r1 & C1 & _ & _ & D1). destruct (inv_re s I v2 A2) as (r2 & C2 & _).
      unfold key_of in *. rewrite C1 in B1. rewrite C2 in B2. subst k.
      assert (v1 = v2) by (eapply (inv_inj s I); eauto). subst. contradiction.
  - intros k H1 H2. apply (In_pend_keys s k I) in H1 as (v & Hp).
    apply in_app_iff in H2 as [H2|H2]; apply In_queue_keys in H2 as (v2 & A2 & B2); unfold key_of in B2.
    + destruct (inv_rm s I v2 A2) as (r2 & C2 & _). rewrite C2 in B2. eapply (inv_pend_fresh s I); eauto.
    + destruct (inv_re s I v2 A2) as (r2 & C2 & _). rewrite C2 in B2. eapply (inv_pend_fresh s I); eauto.
Qed.

(* the application-side set: validators recorded as active, by consensus key *)
Definition active_key (s : state) (k : Z) : Prop :=
  exists v r, lookup v (st_vals s) = Some r /\ v_status r = SActive /\ v_cons r = k.
Definition some_active (s : state) : Prop := exists v r, lookup v (st_vals s) = Some r /\ v_status r = SActive.

Lemma joined_lookup_cases : forall s v r, Inv s -> lookup v (st_vals (joined s)) = Some r ->
  (exists k, lookup v (st_pend s) = Some k /\ r = mkV SActive 0 0 k) \/
  (lookup v (st_pend s) = None /\ lookup v (st_vals s) = Some r).
Proof.
  intros s v r I H. unfold joined in H. rewrite join_vals_lookup in H by apply (inv_pend_sorted s I).
  destruct (lookup v (st_pend s)) as [k|]; [left; exists k; split; congruence|right; auto].
Qed.

(* membership of a key in the three parts of the update list, for a validator of the old registry *)
Lemma old_key_in_queue : forall s q v r, Inv s -> lookup v (st_vals s) = Some r ->
  (forall x, In x q -> exists rx, lookup x (st_vals s) = Some rx) ->
  (In (v_cons r) (map (key_of s) q) <-> In v q).
Proof.
  intros s q v r I Hv Hq. rewrite In_queue_keys. split.
  - intros (x & Hx & E). destruct (Hq x Hx) as (rx & Ax). unfold key_of in E. rewrite Ax in E.
    assert (x = v) by (eapply (inv_inj s I); eauto). now subst.
  - intros Hin. exists v. split; auto. unfold key_of. now rewrite Hv.
Qed.

Lemma join_sorted : forall l s, sorted (map fst (st_vals s)) -> sorted (map fst (st_vals (fold_left join_pending l s))).
Proof.
  induction l as [|[v k] l IH]; intros s H; [assumption|]. cbn [fold_left]. apply IH.
  cbn [join_pending add_validator st_vals]. rewrite keys_upd. now apply sorted_sadd.
Qed.

Theorem end_block_applicable_and_equal : forall s, Inv s -> some_active (joined s) ->
  exists c', end_block s = (set_cons (set_queues (set_pend (joined s) []) [] []) c' false, ROk, eb_updates s) /\
             apply_updates (st_cset s) (eb_updates s) = Some c' /\
             (forall k, In k c' <-> active_key (joined s) k) /\
             Inv (set_cons (set_queues (set_pend (joined s) []) [] []) c' false).
Proof.
  intros s I Hact.
  assert (Hrmv : forall x, In x (st_rm s) -> exists rx, lookup x (st_vals s) = Some rx).
  { intros x Hx. destruct (inv_rm s I x Hx) as (rx & A & _); eauto. }
  assert (Hrev : forall x, In x (st_re s) -> exists rx, lookup x (st_vals s) = Some rx).
  { intros x Hx. destruct (inv_re s I x Hx) as (rx & A & _); eauto. }
  (* removals are present *)
  assert (Hdel : forall k, In k (dels_of (eb_updates s)) -> In k (st_cset s)).
  { intros k Hk. rewrite eb_dels in Hk. apply In_queue_keys in Hk as (v & A & B).
    destruct (inv_rm s I v A) as (r & C & _ & D & _). unfold key_of in B. rewrite C in B. now subst. }
  assert (Hpow : forall u, In u (eb_updates s) -> snd u = 0 \/ snd u = 1).
  { intros u Hu. unfold eb_updates in Hu. rewrite !in_app_iff, !in_map_iff in Hu.
    destruct Hu as [(x & E & _)|[(x & E & _)|(x & E & _)]]; subst u; cbn; auto. }
  (* the result is not empty *)
  assert (Hne : (exists k, In k (upds_of (eb_updates s)) /\ ~ In k (st_cset s)) \/
                List.length (st_cset s) <> List.length (dels_of (eb_updates s)) \/ eb_updates s = []).
  { destruct (Nat.eq_dec (List.length (st_cset s)) (List.length (dels_of (eb_updates s)))) as [El|]; [|auto].
    left.
    assert (Hincl : incl (st_cset s) (dels_of (eb_updates s))).
    { apply NoDup_length_incl; [|lia|exact Hdel].
      rewrite eb_dels. pose proof (eb_keys_NoDup s I) as Hn. rewrite eb_keys in Hn.
      apply NoDup_app_iff in Hn as (_ & Hn & _). now apply NoDup_app_iff in Hn as (Hn & _ & _). }
    destruct Hact as (a & ra & Ha & Hs).
    destruct (joined_lookup_cases s a ra I Ha) as [(k & Hp & ->)|(Hp & Hold)].
    - exists k. split.
      + rewrite eb_upds, in_app_iff. left. apply (In_pend_keys s k I). eauto.
      + intro Hin. destruct (inv_cset s I k Hin) as (v & r & A & B). eapply (inv_pend_fresh s I); eauto.
    - exists (v_cons ra).
      destruct (in_dec Z.eq_dec a (st_rm s)) as [Hrm|Hrm].
      { destruct (inv_rm s I a Hrm) as (r & A & B & _). congruence. }
      assert (Hnd : ~ In (v_cons ra) (dels_of (eb_updates s))).
      { rewrite eb_dels. rewrite (old_key_in_queue s (st_rm s) a ra I Hold Hrmv). exact Hrm. }
      destruct (in_dec Z.eq_dec a (st_re s)) as [Hre|Hre].
      + split; [|intro Hin; apply Hnd, Hincl, Hin].
        rewrite eb_upds, in_app_iff. right. now apply (old_key_in_queue s (st_re s) a ra I Hold Hrev).
      + exfalso. apply Hnd, Hincl. now apply (inv_rest s I a ra Hold Hrm Hre). }
  destruct (apply_updates_ok (st_cset s) (eb_updates s) (eb_keys_NoDup s I) Hpow Hdel Hne) as (c' & Happ & Hmem & Hsort).
  exists c'.
  pose proof (join_fields (st_pend s) s) as (Jp & Jrm & Jre & Jc & Jh). cbn zeta in *. fold (joined s) in *.
  (* membership in the new set, by cases *)
  assert (Hin_new : forall k, In k c' <-> active_key (joined s) k).
  { intros k. rewrite Hmem, eb_upds, eb_dels, in_app_iff. split.
    - intros ([Hcs|[Hpk|Hrk]] & Hnrm).
      + destruct (inv_cset s I k Hcs) as (v & r & A & B). exists v, r. split; [now apply joined_old|]. split; auto.
        destruct (in_dec Z.eq_dec v (st_rm s)) as [Hrm|Hrm].
        { exfalso. apply Hnrm. subst k. now apply (old_key_in_queue s (st_rm s) v r I A Hrmv). }
        destruct (in_dec Z.eq_dec v (st_re s)) as [Hre|Hre].
        { destruct (inv_re s I v Hre) as (r' & A' & B'). congruence. }
        apply (inv_rest s I v r A Hrm Hre). now subst.
      + apply (In_pend_keys s k I) in Hpk as (v & Hp). exists v, (mkV SActive 0 0 k).
        split; [|auto]. unfold joined. rewrite join_vals_lookup by apply (inv_pend_sorted s I). now rewrite Hp.
      + apply In_queue_keys in Hrk as (v & A & B). destruct (inv_re s I v A) as (r & C & D).
        unfold key_of in B. rewrite C in B. exists v, r. split; [now apply joined_old|auto].
    - intros (v & r & A & B & C).
      destruct (joined_lookup_cases s v r I A) as [(k' & Hp & ->)|(Hp & Hold)].
      + cbn in C. subst k'. split.
        * right; left. apply (In_pend_keys s k I); eauto.
        * intro H. apply In_queue_keys in H as (x & Hx & E). destruct (inv_rm s I x Hx) as (rx & Ax & _).
          unfold key_of in E. rewrite Ax in E. eapply (inv_pend_fresh s I); eauto.
      + subst k.
        assert (Hnrm : ~ In v (st_rm s)).
        { intro Hrm. destruct (inv_rm s I v Hrm) as (r' & A' & B' & _). congruence. }
        split.
        * destruct (in_dec Z.eq_dec v (st_re s)) as [Hre|Hre].
          -- right; right. now apply (old_key_in_queue s (st_re s) v r I Hold Hrev).
          -- left. now apply (inv_rest s I v r Hold Hnrm Hre).
        * now rewrite (old_key_in_queue s (st_rm s) v r I Hold Hrmv). }
  split; [|split; [exact Happ|split; [exact Hin_new|]]].
  - unfold end_block. rewrite (end_block_updates_eq s I). fold (joined s). rewrite Happ.
    now rewrite (inv_halt s I).
  - constructor; cbn [set_cons set_queues set_pend st_vals st_pend st_rm st_re st_cset st_halt map sorted]; auto.
    + apply Hsort, (inv_cset_sorted s I).
    + (* keys identify validators in the joined registry *)
      intros v1 v2 r1 r2 H1 H2 E.
      destruct (joined_lookup_cases s v1 r1 I H1) as [(k1 & P1 & ->)|(P1 & O1)];
      destruct (joined_lookup_cases s v2 r2 I H2) as [(k2 & P2 & ->)|(P2 & O2)]; cbn in E.
      * subst. eapply (inv_pend_inj s I); eauto.
      * exfalso. eapply (inv_pend_fresh s I); eauto.
      * exfalso. eapply (inv_pend_fresh s I); eauto.
      * eapply (inv_inj s I); eauto.
    + cbn. discriminate.
    + cbn. discriminate.
    + cbn. discriminate.
    + cbn. tauto.
    + cbn. tauto.
    + intros v r Hv _ _. rewrite Hin_new. split.
      * intros Hs. exists v, r. auto.
      * intros (v' & r' & A & B & C).
        assert (v' = v); [|subst; congruence].
        destruct (joined_lookup_cases s v' r' I A) as [(k1 & P1 & ->)|(P1 & O1)];
        destruct (joined_lookup_cases s v r I Hv) as [(k2 & P2 & ->)|(P2 & O2)]; cbn in C.
        -- subst. eapply (inv_pend_inj s I); eauto.
        -- exfalso. eapply (inv_pend_fresh s I); eauto.
        -- exfalso. eapply (inv_pend_fresh s I); eauto.
        -- eapply (inv_inj s I); eauto.
    + intros k Hk. apply Hin_new in Hk as (v & r & A & B & C). eauto.
    + apply join_sorted, (inv_vals_sorted s I).
Qed.

(* ---------------------------------------------------------------- address rotation, genesis export + import *)
Lemma keys_del : forall A k (l : list (Z * A)), map fst (del k l) = sdel k (map fst l).
Proof.
  intros A k l. unfold del, sdel. induction l as [|[k' a] l IH]; cbn; [reflexivity|].
  destruct (k' =? k); cbn; now rewrite IH.
Qed.

Definition good_rotate (s : state) (v v' : Z) : Prop :=
  ~ In v (st_rm s) /\ ~ In v (st_re s) /\ lookup v' (st_vals s) = None /\ lookup v' (st_pend s) = None.

Lemma Inv_rotate : forall cfg s v v', Inv s -> good_rotate s v v' -> Inv (fst (step cfg s (ORotate v v'))).
Proof.
  intros cfg s v v' I (Grm & Gre & Gv & Gp). cbn [step].
  destruct (lookup v (st_vals s)) as [r|] eqn:Hv; [|exact I]. cbn [fst].
  assert (Hne : v' <> v) by (intro; subst; congruence).
  assert (L : forall x, lookup x (upd v' r (del v (st_vals s))) =
                        if x =? v' then Some r else if x =? v then None else lookup x (st_vals s)).
  { intros x. rewrite lookup_upd, lookup_del. reflexivity. }
  destruct I. constructor; cbn [st_vals st_pend st_rm st_re st_cset st_halt]; auto.
  - intros v1 v2 r1 r2. rewrite !L. intros H1 H2 H3.
    assert (C : forall x rx, (if x =? v' then Some r else if x =? v then None else lookup x (st_vals s)) = Some rx ->
                 (x = v' /\ rx = r) \/ (x <> v' /\ x <> v /\ lookup x (st_vals s) = Some rx)).
    { intros x rx H. destruct (x =? v') eqn:E1; zb; [inv_some; auto|]. destruct (x =? v) eqn:E2; zb; [discriminate|auto]. }
    destruct (C _ _ H1) as [[-> ->]|(A1 & B1 & C1)]; destruct (C _ _ H2) as [[-> ->]|(A2 & B2 & C2)]; auto.
    + exfalso. apply B2. exact (inv_inj0 v2 v r2 r C2 Hv (eq_sym H3)).
    + exfalso. apply B1. exact (inv_inj0 v1 v r1 r C1 Hv H3).
    + exact (inv_inj0 v1 v2 r1 r2 C1 C2 H3).
  - intros v0 k x rx Hp. rewrite L. destruct (x =? v') eqn:E1; zb; [intros H; inv_some; eauto|].
    destruct (x =? v); [discriminate|eauto].
  - intros v0 k Hp. rewrite L. destruct (v0 =? v') eqn:E1; zb; [subst; congruence|].
    destruct (v0 =? v); [reflexivity|eauto].
  - intros x Hx. destruct (inv_rm0 x Hx) as (rx & A & B & C & D). exists rx. rewrite L.
    destruct (x =? v') eqn:E1; zb; [subst; congruence|]. destruct (x =? v) eqn:E2; zb; [subst; contradiction|auto].
  - intros x Hx. destruct (inv_re0 x Hx) as (rx & A & B). exists rx. rewrite L.
    destruct (x =? v') eqn:E1; zb; [subst; congruence|]. destruct (x =? v) eqn:E2; zb; [subst; contradiction|auto].
  - intros x rx. rewrite L. destruct (x =? v') eqn:E1; zb.
    + intros H _ _. inv_some. apply (inv_rest0 v); auto.
    + destruct (x =? v); [discriminate|]. intros; apply (inv_rest0 x); auto.
  - intros k Hk. destruct (inv_cset0 k Hk) as (x & rx & A & B).
    destruct (Z.eq_dec x v) as [->|Hn].
    + rewrite Hv in A. inv_some. exists v', rx. rewrite L, Z.eqb_refl. auto.
    + exists x, rx. rewrite L. destruct (x =? v') eqn:E1; zb; [subst; congruence|].
      destruct (x =? v) eqn:E2; zb; [contradiction|auto].
  - rewrite keys_upd, keys_del. now apply sorted_sadd, sorted_sdel.
Qed.

Definition some_active_now (s : state) : Prop := exists v r, lookup v (st_vals s) = Some r /\ v_status r = SActive.

(* export + import re-establishes the invariant from ANY state in which it held, whatever was queued *)
Lemma Inv_genesis : forall over s, Inv s -> some_active_now s ->
  Inv (fst (genesis_import over s)) /\ snd (genesis_import over s) = ROk /\
  (forall k, In k (st_cset (fst (genesis_import over s))) <-> exists v r, lookup v (st_vals s) = Some r /\ v_status r = SActive /\ v_cons r = k).
Proof.
  intros over s I (a & ra & Ha & Sa).
  pose proof (inv_vals_sorted s I) as Hvs.
  set (act := filter (fun e : Z * vrec => is_active (v_status (snd e))) (st_vals s)).
  assert (Hact : forall v r, In (v, r) act <-> lookup v (st_vals s) = Some r /\ v_status r = SActive).
  { intros v r. unfold act. rewrite filter_In. cbn. rewrite is_active_true. split.
    - intros [A B]. split; auto. now apply In_lookup_sorted.
    - intros [A B]. split; auto. now apply lookup_In. }
  assert (Eups : genesis_updates s = map (fun e : Z * vrec => (v_cons (snd e), 1)) act) by reflexivity.
  assert (Hkeys : map fst (genesis_updates s) = map (fun e : Z * vrec => v_cons (snd e)) act) by (rewrite Eups, map_map; reflexivity).
  assert (Hupds : upds_of (genesis_updates s) = map (fun e : Z * vrec => v_cons (snd e)) act).
  { rewrite Eups. apply (upds_const1 _ (fun e : Z * vrec => v_cons (snd e))). }
  assert (Hdels : dels_of (genesis_updates s) = []).
  { rewrite Eups. apply (dels_const1 _ (fun e : Z * vrec => v_cons (snd e))). }
  assert (Hnd : NoDup (map fst (genesis_updates s))).
  { rewrite Hkeys. apply NoDup_map_inj.
    - unfold act. apply NoDup_filter. apply (NoDup_map_inv fst). now apply sorted_NoDup.
    - intros [v1 r1] [v2 r2] H1 H2 E. cbn in E. apply Hact in H1 as [A1 _]. apply Hact in H2 as [A2 _].
      assert (v1 = v2) by (eapply (inv_inj s I); eauto). subst. congruence. }
  assert (Hin : In (a, ra) act) by (apply Hact; auto).
  destruct (apply_updates_ok [] (genesis_updates s) Hnd) as (c & Happ & Hmem & Hsort).
  { intros u Hu. rewrite Eups in Hu. apply in_map_iff in Hu as (e & <- & _). cbn. auto. }
  { rewrite Hdels. intros k []. }
  { left. exists (v_cons ra). split; [|intros []]. rewrite Hupds. apply in_map_iff. exists (a, ra). auto. }
  assert (Hne : genesis_updates s <> []).
  { rewrite Eups. intro E. apply map_eq_nil in E. rewrite E in Hin. destruct Hin. }
  assert (Hc : forall k, In k c <-> exists v r, lookup v (st_vals s) = Some r /\ v_status r = SActive /\ v_cons r = k).
  { intros k. rewrite Hmem, Hupds, Hdels, in_map_iff. split.
    - intros ([[]|([v r] & E & Hv)] & _). cbn in E. apply Hact in Hv as [A B]. eauto.
    - intros (v & r & A & B & C). split; [|intros []]. right. exists (v, r). split; auto. apply Hact. auto. }
  unfold genesis_import. destruct (genesis_updates s) as [|u0 ups0] eqn:Eg; [congruence|]. rewrite <- Eg in *.
  rewrite Happ. cbn [fst snd]. split; [|split; [reflexivity|exact Hc]].
  constructor; cbn [set_cons st_vals st_pend st_rm st_re st_cset st_halt map sorted lookup In];
    try exact Logic.I; try (intros; discriminate); try (intros; contradiction); try apply (inv_halt s I); try exact Hvs.
  - apply Hsort. exact Logic.I.
  - apply (inv_inj s I).
  - intros v r Hv _ _. rewrite Hc. split.
    + intros Hs. eauto.
    + intros (v' & r' & A & B & C). assert (v' = v) by (eapply (inv_inj s I); eauto). subst. congruence.
  - intros k Hk. apply Hc in Hk as (v & r & A & _ & C). eauto.
Qed.

(* ---------------------------------------------------------------- the alphabet on which C05 holds *)
(* a removing operation meets a validator the consensus engine actually holds *)
Definition held_if_active (s : state) (r : vrec) : Prop := v_status r = SActive -> In (v_cons r) (st_cset s).
Definition good_pause (s : state) (v : Z) : Prop := forall r, lookup v (st_vals s) = Some r -> held_if_active s r.
Definition good_vote (s : state) (x : Z * bool) : Prop := forall v r, by_cons s (fst x) = Some (v, r) -> held_if_active s r.
Definition good_evid (cfg : config) (s : state) (e : Z * Z * Z) : Prop :=
  let '(k, ih, it) := e in
  smem k (st_pk s) = true -> evid_too_old cfg s ih it = false ->
  forall v r, by_cons s k = Some (v, r) -> v_status r = SJailed \/ (v_status r = SActive /\ In (v_cons r) (st_cset s)).
Definition good_uppause (s : state) (v : Z) : Prop :=
  forall r, lookup v (st_vals s) = Some r -> v_status r = SInactive \/ (v_status r = SActive /\ In (v_cons r) (st_cset s)).

Fixpoint goods_list {A} (f : state -> A -> option state) (g : state -> A -> Prop) (s : state) (l : list A) : Prop :=
  match l with
  | [] => True
  | x :: r => g s x /\ match f s x with Some s' => goods_list f g s' r | None => True end
  end.

Definition good (cfg : config) (s : state) (o : op) : Prop :=
  match o with
  | OClaim v k perm => perm = true -> lookup v (st_vals s) = None -> fresh_key s v k
  | OPause v => good_pause s v
  | OUnpause _ | OActivate _ | OUnjail _ | ONewBlock _ => True
  | OVotes vs => goods_list (vote1 cfg) good_vote s vs
  | OEvidence es => goods_list (evid1 cfg) (good_evid cfg) s es
  | OReset => False
  | OUpPause vs => goods_list (fun a v => Some (sk_pause a v)) good_uppause s vs
  | OEndBlock => some_active (joined s)
  | ORotate v v' => good_rotate s v v'
  | OGenesis _ => some_active_now s
  | OUpgrade | OSetProp _ _ _ => True
  end.
Fixpoint goods (cfg : config) (s : state) (ops : list op) : Prop :=
  match ops with [] => True | o :: r => good cfg s o /\ goods (next_cfg cfg o) (fst (step cfg s o)) r end.

Lemma by_cons_lookup : forall s k v r, by_cons s k = Some (v, r) -> lookup v (st_vals s) = Some r.
Proof.
  unfold by_cons. intros s k v r H. destruct (lookup k (st_cidx s)) as [v0|]; [|discriminate].
  destruct (lookup v0 (st_vals s)) eqn:E; inv H. assumption.
Qed.

Lemma Inv_sk_pause : forall s v, Inv s -> good_uppause s v -> Inv (sk_pause s v).
Proof.
  intros s v I G. unfold sk_pause. destruct (lookup v (st_vals s)) as [r|] eqn:E; [|assumption].
  destruct (status_eqb (v_status r) SInactive) eqn:Es; [assumption|]. apply status_eqb_neq in Es.
  destruct (G r E) as [?|[Ha Hk]]; [contradiction|].
  eapply Inv_deactivate; eauto; cbn; congruence.
Qed.

Lemma Inv_vote1 : forall cfg s x s', Inv s -> good_vote s x -> vote1 cfg s x = Some s' -> Inv s'.
Proof.
  intros cfg s [k signed] s' I G H. unfold vote1 in H.
  destruct (negb (smem k (st_pk s))); [discriminate|].
  destruct (by_cons s k) as [[v r]|] eqn:Ebc; [|discriminate].
  pose proof (by_cons_lookup _ _ _ _ Ebc) as Hv. specialize (G v r Ebc).
  destruct (negb (is_active (v_status r))) eqn:Ea; [inv H; assumption|].
  apply negb_false_iff, is_active_true in Ea.
  destruct (lookup k (st_si s)) as [i|]; [|discriminate].
  set (i1 := if negb signed then _ else _) in H.
  (* rank / streak update keeps status and key *)
  assert (exists r1, sk_signature cfg s v (negb signed) (si_misch i1) = add_validator s v r1 /\
                     v_status r1 = v_status r /\ v_cons r1 = v_cons r) as (r1 & E1 & S1 & C1).
  { unfold sk_signature. rewrite Hv. eexists; split; [reflexivity|].
    destruct (negb signed); [destruct (0 <? si_misch i1)|]; cbn; auto. }
  rewrite E1 in H.
  assert (I1 : Inv (add_validator s v r1)) by (eapply Inv_touch; eauto; rewrite S1; tauto).
  destruct (c_maxm cfg <? si_misch i1).
  - inv H. apply Inv_ext with (s := sk_inactivate cfg (add_validator s v r1) v); [|reflexivity..].
    unfold sk_inactivate. cbn [add_validator st_vals]. rewrite lookup_upd_same.
    assert (status_eqb (v_status r1) SPaused = false) as -> by (apply status_eqb_neq; congruence).
    eapply Inv_deactivate; [exact I1|cbn [add_validator st_vals]; apply lookup_upd_same|congruence| |reflexivity|cbn; discriminate].
    cbn [add_validator st_cset]. rewrite C1. apply G. assumption.
  - inv H. apply Inv_ext with (s := add_validator s v r1); [exact I1|reflexivity..].
Qed.

Lemma Inv_sk_jail : forall s v r, Inv s -> lookup v (st_vals s) = Some r -> v_status r = SActive -> In (v_cons r) (st_cset s) ->
  Inv (sk_jail s v).
Proof.
  intros s v r I Hv Ha Hk. unfold sk_jail. rewrite Hv. apply Inv_ext with (s := sk_deactivate s v (with_status r SJailed)); [|reflexivity..].
  eapply Inv_deactivate; eauto; cbn; congruence.
Qed.

Lemma Inv_evid1 : forall cfg s e s', Inv s -> good_evid cfg s e -> evid1 cfg s e = Some s' -> Inv s'.
Proof.
  intros cfg s [[k ih] it] s' I G H. unfold evid1 in H. unfold good_evid in G.
  destruct (smem k (st_pk s)); cbn [negb] in H; [|inv H; assumption].
  destruct (evid_too_old cfg s ih it); [inv H; assumption|].
  destruct (by_cons s k) as [[v r]|] eqn:Ebc; [|inv H; assumption].
  pose proof (by_cons_lookup _ _ _ _ Ebc) as Hv. specialize (G eq_refl eq_refl v r eq_refl).
  destruct (lookup k (st_si s)); [|discriminate].
  destruct (status_eqb (v_status r) SJailed) eqn:Ej.
  - destruct (lookup k (st_si s)); inv H. apply Inv_ext with (s := s); [exact I|reflexivity..].
  - apply status_eqb_neq in Ej. destruct G as [?|[Ha Hk]]; [contradiction|].
    destruct (lookup k (st_si (sk_jail s v))); inv H.
    apply Inv_ext with (s := sk_jail s v); [eapply Inv_sk_jail; eauto|reflexivity..].
Qed.

Lemma Inv_goods_list : forall A (f : state -> A -> option state) (g : state -> A -> Prop),
  (forall s x s', Inv s -> g s x -> f s x = Some s' -> Inv s') ->
  forall l s s', Inv s -> goods_list f g s l ->
  (fix go (a : state) (l : list A) : option state :=
     match l with [] => Some a | x :: r => match f a x with None => None | Some a' => go a' r end end) s l = Some s' -> Inv s'.
Proof.
  intros A f g Hstep. induction l as [|x l IH]; intros s s' I G H; [inv H; assumption|].
  destruct G as [G1 G2]. cbn in H. destruct (f s x) as [s1|] eqn:E; [|discriminate].
  eapply IH; [eapply Hstep; eauto|exact G2|exact H].
Qed.

Lemma votes_eq : forall cfg s l, votes cfg s l =
  (fix go (a : state) (l : list (Z * bool)) : option state :=
     match l with [] => Some a | x :: r => match vote1 cfg a x with None => None | Some a' => go a' r end end) s l.
Proof. intros cfg s l; revert s; induction l; intros; cbn; auto. destruct (vote1 cfg s a); auto. Qed.
Lemma evidences_eq : forall cfg s l, evidences cfg s l =
  (fix go (a : state) (l : list (Z * Z * Z)) : option state :=
     match l with [] => Some a | x :: r => match evid1 cfg a x with None => None | Some a' => go a' r end end) s l.
Proof. intros cfg s l; revert s; induction l; intros; cbn; auto. destruct (evid1 cfg s a); auto. Qed.

Theorem step_preserves_Inv : forall cfg s o, Inv s -> good cfg s o -> Inv (fst (step cfg s o)).
Proof.
  intros cfg s o I G. destruct o; cbn [step good] in *.
  - (* claim *)
    destruct perm; cbn [negb]; [|assumption].
    destruct (lookup v (st_vals s)) eqn:E; [assumption|]. cbn. apply Inv_claim; auto.
  - (* pause *)
    destruct (_ || _); [assumption|].
    destruct (lookup v (st_vals s)) as [r|] eqn:E; [|assumption].
    destruct (is_active (v_status r)) eqn:Ea; [|assumption]. cbn.
    apply is_active_true in Ea. apply Inv_sk_pause; auto.
    intros r' E'. assert (r' = r) by congruence. subst r'. right. split; auto. apply (G r E Ea).
  - (* unpause *)
    destruct (lookup v (st_vals s)) as [r|] eqn:E; [|assumption].
    destruct (status_eqb (v_status r) SPaused) eqn:Ep; [|assumption]. cbn.
    apply status_eqb_eq in Ep. apply Inv_reactivate; auto. congruence.
  - (* activate *)
    destruct (lookup v (st_vals s)) as [r|] eqn:E; [|assumption].
    destruct (status_eqb (v_status r) SInactive) eqn:Ei; cbn [negb]; [|assumption].
    apply status_eqb_eq in Ei.
    assert (I1 : Inv (sk_reactivate s v r)) by (apply Inv_reactivate; auto; congruence).
    destruct (lookup (v_cons r) (st_si (sk_reactivate s v r))) as [i|]; [|assumption].
    destruct (st_time s <? si_until i); [assumption|]. cbn [fst]. apply Inv_ext with (s := sk_reactivate s v r); [exact I1|reflexivity..].
  - (* votes *)
    destruct (votes cfg s vs) as [s'|] eqn:E; [|assumption]. cbn. rewrite votes_eq in E.
    eapply (Inv_goods_list _ (vote1 cfg) good_vote); eauto. intros; eapply Inv_vote1; eauto.
  - (* evidence *)
    destruct (evidences cfg s es) as [s'|] eqn:E; [|assumption]. cbn. rewrite evidences_eq in E.
    eapply (Inv_goods_list _ (evid1 cfg) (good_evid cfg)); eauto. intros; eapply Inv_evid1; eauto.
  - (* unjail *)
    destruct (lookup v (st_vals s)) as [r|] eqn:E; [|assumption].
    destruct (status_eqb (v_status r) SJailed) eqn:Ej; cbn [negb]; [|assumption].
    apply status_eqb_eq in Ej.
    destruct (lookup v (st_jail s)); [|assumption].
    destruct (_ <? _); [assumption|]. cbn [fst]. apply Inv_ext with (s := add_validator s v (with_status r SInactive)); [|reflexivity..].
    eapply Inv_touch; eauto. cbn. split; intros; congruence.
  - contradiction.
  - (* upgrade pause *)
    cbn. revert s I G. induction vs as [|v vs IH]; intros s I G; [assumption|].
    cbn [fold_left]. destruct G as [G1 G2]. apply IH; [apply Inv_sk_pause; auto|exact G2].
  - (* new block *)
    cbn [fst]. apply Inv_ext with (s := s); [exact I|reflexivity..].
  - (* end block *)
    destruct (end_block_applicable_and_equal s I G) as (c' & E & _ & _ & I'). rewrite E. exact I'.
  - (* address rotation *) now apply (Inv_rotate cfg).
  - (* genesis export + import *) cbn [step]. now apply Inv_genesis.
  - (* second block of an upgrade plan *) cbn [step fst]. exact I.
  - (* settings change *) cbn [step fst]. exact I.
Qed.

Theorem run_preserves_Inv : forall ops cfg s, Inv s -> goods cfg s ops -> Inv (run cfg s ops).
Proof.
  induction ops as [|o ops IH]; intros cfg s I G; [assumption|].
  destruct G as [G1 G2]. cbn [run]. apply IH; [apply step_preserves_Inv; auto|exact G2].
Qed.

Lemma run_app : forall a cfg b s, run cfg s (a ++ b) = run (cfg_after cfg a) (run cfg s a) b.
Proof. induction a as [|o a IH]; intros; cbn; [reflexivity|apply IH]. Qed.
Lemma goods_app : forall a cfg b s, goods cfg s (a ++ b) <-> goods cfg s a /\ goods (cfg_after cfg a) (run cfg s a) b.
Proof.
  induction a as [|o a IH]; intros cfg b s; cbn; [tauto|].
  rewrite IH. tauto.
Qed.

(* C05, full history form: at EVERY end block of a history inside the alphabet, from any state
   satisfying the queue invariant, the returned updates are applicable and the consensus set
   afterwards is exactly the set of validators recorded as active *)
Theorem every_end_block_applicable_and_equal : forall cfg s pre post,
  Inv s -> goods cfg s (pre ++ OEndBlock :: post) ->
  let s1 := run cfg s pre in
  let s2 := run cfg s (pre ++ [OEndBlock]) in
  exists c', apply_updates (st_cset s1) (eb_updates s1) = Some c' /\
             snd (end_block s1) = eb_updates s1 /\
             st_cset s2 = c' /\ st_halt s2 = false /\
             (forall k, In k (st_cset s2) <-> active_key s2 k).
Proof.
  intros cfg s pre post I G s1 s2.
  apply goods_app in G as [G1 G2]. cbn in G2. destruct G2 as [G2 _].
  assert (I1 : Inv s1) by (apply run_preserves_Inv; auto).
  destruct (end_block_applicable_and_equal s1 I1 G2) as (c' & E & A & M & I2).
  exists c'.
  assert (Es2 : s2 = set_cons (set_queues (set_pend (joined s1) []) [] []) c' false).
  { subst s2. rewrite run_app. fold s1. unfold run. cbn [fold_left]. cbn [step]. rewrite E. reflexivity. }
  rewrite Es2. split; [exact A|]. split; [rewrite E; reflexivity|]. split; [reflexivity|]. split; [reflexivity|].
  intros k. cbn [set_cons st_cset]. rewrite M. unfold active_key. cbn [set_cons set_queues set_pend st_vals]. tauto.
Qed.

(* ---------------------------------------------------------------- decidable versions (for concrete states and histories) *)
Fixpoint sortedb (l : list Z) : bool :=
  match l with x :: ((y :: _) as r) => (x <? y) && sortedb r | _ => true end.
Lemma sortedb_sound : forall l, sortedb l = true -> sorted l.
Proof.
  induction l as [|x l IH]; [cbn; auto|]. intros H. destruct l as [|y l].
  - cbn. split; auto. intros ? [].
  - cbn [sortedb] in H. apply andb_true_iff in H as [H1 H2]. zb. specialize (IH H2).
    split; auto. intros z [Hz|Hz]; [lia|]. destruct IH as [IH _]. specialize (IH z Hz). lia.
Qed.
Lemma NoDup_map_injective : forall A (f : A -> Z) l x y, NoDup (map f l) -> In x l -> In y l -> f x = f y -> x = y.
Proof.
  induction l as [|a l IH]; cbn; intros x y Hn Hx Hy E; [contradiction|]. inv Hn.
  destruct Hx as [->|Hx], Hy as [->|Hy]; auto.
  - exfalso. apply H1. rewrite E. now apply in_map.
  - exfalso. apply H1. rewrite <- E. now apply in_map.
Qed.

Definition invb (s : state) : bool :=
  sortedb (st_rm s) && sortedb (st_re s) && sortedb (map fst (st_pend s)) && sortedb (st_cset s)
  && negb (has_dup (map (fun e : Z * vrec => v_cons (snd e)) (st_vals s) ++ map snd (st_pend s)))
  && forallb (fun e : Z * Z => match lookup (fst e) (st_vals s) with None => true | Some _ => false end) (st_pend s)
  && forallb (fun v => match lookup v (st_vals s) with
                       | Some r => negb (is_active (v_status r)) && smem (v_cons r) (st_cset s) && negb (smem v (st_re s))
                       | None => false end) (st_rm s)
  && forallb (fun v => match lookup v (st_vals s) with Some r => is_active (v_status r) | None => false end) (st_re s)
  && forallb (fun e : Z * vrec => smem (fst e) (st_rm s) || smem (fst e) (st_re s) ||
                                  Bool.eqb (is_active (v_status (snd e))) (smem (v_cons (snd e)) (st_cset s))) (st_vals s)
  && forallb (fun k => existsb (fun e : Z * vrec => match lookup (fst e) (st_vals s) with Some r => v_cons r =? k | None => false end) (st_vals s)) (st_cset s)
  && negb (st_halt s)
  && sortedb (map fst (st_vals s)).

Lemma invb_sound : forall s, invb s = true -> Inv s.
Proof.
  intros s H. unfold invb in H. apply andb_true_iff in H as [H Hvs].
  apply andb_true_iff in H as [H Hhalt]. apply andb_true_iff in H as [H Hcsq]. apply andb_true_iff in H as [H Hrest].
  apply andb_true_iff in H as [H Hreq]. apply andb_true_iff in H as [H Hrmq]. apply andb_true_iff in H as [H Hpn].
  apply andb_true_iff in H as [H Hnd]. apply andb_true_iff in H as [H Hs4]. apply andb_true_iff in H as [H Hs3].
  apply andb_true_iff in H as [Hs1 Hs2].
  apply negb_true_iff, has_dup_NoDup in Hnd.
  pose proof Hnd as Hnd'. apply NoDup_app_iff in Hnd' as (Hn1 & Hn2 & Hn3).
  rewrite forallb_forall in Hpn, Hrmq, Hreq, Hrest, Hcsq.
  constructor; try (apply sortedb_sound; assumption).
  - intros v1 v2 r1 r2 A1 A2 E. apply lookup_In in A1, A2.
    pose proof (NoDup_map_injective _ (fun e : Z * vrec => v_cons (snd e)) _ (v1, r1) (v2, r2) Hn1 A1 A2 E). congruence.
  - intros v k v' r A B E. apply lookup_In in A, B. apply (Hn3 k).
    + apply in_map_iff. exists (v', r). auto.
    + apply in_map_iff. exists (v, k). auto.
  - intros v1 v2 k A B. apply lookup_In in A, B.
    pose proof (NoDup_map_injective _ (fun e : Z * Z => snd e) _ (v1, k) (v2, k) Hn2 A B eq_refl). congruence.
  - intros v k A. apply lookup_In in A. specialize (Hpn _ A). cbn in Hpn. destruct (lookup v (st_vals s)); [discriminate|reflexivity].
  - intros v Hv. specialize (Hrmq _ Hv). destruct (lookup v (st_vals s)) as [r|]; [|discriminate].
    apply andb_true_iff in Hrmq as [Hrmq C]. apply andb_true_iff in Hrmq as [A B].
    apply negb_true_iff, is_active_false in A. apply smem_In in B. apply negb_true_iff, smem_false_In in C. eauto 6.
  - intros v Hv. specialize (Hreq _ Hv). destruct (lookup v (st_vals s)) as [r|]; [|discriminate].
    apply is_active_true in Hreq. eauto.
  - intros v r A Hnrm Hnre. apply lookup_In in A. specialize (Hrest _ A). cbn in Hrest.
    apply smem_false_In in Hnrm, Hnre. rewrite Hnrm, Hnre in Hrest. cbn in Hrest. apply eqb_prop in Hrest.
    rewrite <- is_active_true, <- smem_In, Hrest. tauto.
  - intros k Hk. specialize (Hcsq _ Hk). apply existsb_exists in Hcsq as ([v r] & A & B). cbn in B.
    destruct (lookup v (st_vals s)) as [r'|] eqn:E; [|discriminate]. zb. eauto.
  - now apply negb_true_iff.
Qed.

Definition fresh_keyb (s : state) (v k : Z) : bool :=
  forallb (fun e : Z * vrec => negb (v_cons (snd e) =? k)) (st_vals s) &&
  forallb (fun e : Z * Z => negb (snd e =? k) || (fst e =? v)) (st_pend s).
Definition heldb (s : state) (r : vrec) : bool := negb (is_active (v_status r)) || smem (v_cons r) (st_cset s).
Definition okb (s : state) (r : vrec) (other : status) : bool :=
  status_eqb (v_status r) other || (is_active (v_status r) && smem (v_cons r) (st_cset s)).
Definition some_activeb (s : state) : bool :=
  existsb (fun e : Z * vrec => match lookup (fst e) (st_vals s) with Some r => is_active (v_status r) | None => false end) (st_vals s).
Fixpoint goods_listb {A} (f : state -> A -> option state) (g : state -> A -> bool) (s : state) (l : list A) : bool :=
  match l with
  | [] => true
  | x :: r => g s x && match f s x with Some s' => goods_listb f g s' r | None => true end
  end.
Definition goodb (cfg : config) (s : state) (o : op) : bool :=
  match o with
  | OClaim v k perm => negb perm || (match lookup v (st_vals s) with Some _ => true | None => false end) || fresh_keyb s v k
  | OPause v => match lookup v (st_vals s) with Some r => heldb s r | None => true end
  | OUnpause _ | OActivate _ | OUnjail _ | ONewBlock _ => true
  | OVotes vs => goods_listb (vote1 cfg) (fun a x => match by_cons a (fst x) with Some (_, r) => heldb a r | None => true end) s vs
  | OEvidence es => goods_listb (evid1 cfg) (fun a (e : Z * Z * Z) => let '(k, ih, it) := e in
                       negb (smem k (st_pk a)) || evid_too_old cfg a ih it ||
                       match by_cons a k with Some (_, r) => okb a r SJailed | None => true end) s es
  | OReset => false
  | OUpPause vs => goods_listb (fun a v => Some (sk_pause a v))
                     (fun a v => match lookup v (st_vals a) with Some r => okb a r SInactive | None => true end) s vs
  | OEndBlock => some_activeb (joined s)
  | ORotate v v' => negb (smem v (st_rm s)) && negb (smem v (st_re s))
                    && (match lookup v' (st_vals s) with None => true | Some _ => false end)
                    && (match lookup v' (st_pend s) with None => true | Some _ => false end)
  | OGenesis _ => some_activeb s
  | OUpgrade | OSetProp _ _ _ => true
  end.
Fixpoint goodsb (cfg : config) (s : state) (ops : list op) : bool :=
  match ops with [] => true | o :: r => goodb cfg s o && goodsb (next_cfg cfg o) (fst (step cfg s o)) r end.

Lemma goods_listb_sound : forall A (f : state -> A -> option state) gb (g : state -> A -> Prop),
  (forall s x, gb s x = true -> g s x) -> forall l s, goods_listb f gb s l = true -> goods_list f g s l.
Proof.
  intros A f gb g Hs. induction l as [|x l IH]; intros s H; cbn in *; auto.
  apply andb_true_iff in H as [H1 H2]. split; auto. destruct (f s x); auto.
Qed.
Lemma heldb_sound : forall s r, heldb s r = true -> held_if_active s r.
Proof.
  intros s r H Ha. unfold heldb in H. apply is_active_true in Ha. rewrite Ha in H. cbn in H. now apply smem_In.
Qed.
Lemma okb_sound : forall s r o, okb s r o = true -> v_status r = o \/ (v_status r = SActive /\ In (v_cons r) (st_cset s)).
Proof.
  intros s r o H. unfold okb in H. apply orb_true_iff in H as [H|H].
  - left. now apply status_eqb_eq.
  - right. apply andb_true_iff in H as [H1 H2]. split; [now apply is_active_true|now apply smem_In].
Qed.

Lemma goodb_sound : forall cfg s o, goodb cfg s o = true -> good cfg s o.
Proof.
  intros cfg s o H. destruct o; cbn [goodb good] in *; auto.
  - intros -> Hn. rewrite Hn in H. cbn in H. unfold fresh_keyb in H. apply andb_true_iff in H as [H1 H2].
    rewrite forallb_forall in H1, H2. split.
    + intros v' r A E. apply lookup_In in A. specialize (H1 _ A). cbn in H1. subst. now rewrite Z.eqb_refl in H1.
    + intros v' k' A E. apply lookup_In in A. specialize (H2 _ A). cbn in H2. subst. rewrite Z.eqb_refl in H2. cbn in H2. now zb.
  - intros r E. rewrite E in H. now apply heldb_sound.
  - eapply goods_listb_sound; [|exact H]. intros a x Hx v r E. cbn beta in Hx. rewrite E in Hx. now apply heldb_sound.
  - eapply goods_listb_sound; [|exact H]. intros a [[k ih] it] Hx. cbn. intros Hpk Hold v r E. cbn beta iota in Hx.
    rewrite Hpk, Hold, E in Hx. cbn in Hx. now apply okb_sound.
  - discriminate.
  - eapply goods_listb_sound; [|exact H]. intros a v Hx r E. cbn beta in Hx. rewrite E in Hx. now apply okb_sound.
  - unfold some_activeb in H. apply existsb_exists in H as ([v r] & A & B). cbn in B.
    destruct (lookup v (st_vals (joined s))) as [r'|] eqn:E; [|discriminate]. exists v, r'. split; auto. now apply is_active_true.
  - apply andb_true_iff in H as [H H4]. apply andb_true_iff in H as [H H3]. apply andb_true_iff in H as [H1 H2].
    apply negb_true_iff in H1. apply smem_false_In in H1. apply negb_true_iff in H2. apply smem_false_In in H2.
    unfold good_rotate.
    destruct (lookup v' (st_vals s)); [discriminate|]. destruct (lookup v' (st_pend s)); [discriminate|]. repeat split; auto.
  - unfold some_activeb in H. apply existsb_exists in H as ([v r] & A & B). cbn in B.
    destruct (lookup v (st_vals s)) as [r'|] eqn:E; [|discriminate]. exists v, r'. split; auto. now apply is_active_true.
Qed.
Lemma goodsb_sound : forall ops cfg s, goodsb cfg s ops = true -> goods cfg s ops.
Proof.
  induction ops as [|o ops IH]; intros cfg s H; cbn [goodsb goods] in *; auto.
  apply andb_true_iff in H as [H1 H2]. split; [now apply goodb_sound|now apply IH].
Qed.

(* ================================================================ concrete states, non-vacuity, refutations *)
Definition cfg0 : config := mkCfg 0 1 1 500000000000000000 1 60 600 1000 5.
(* one genesis validator (address 0, key 0), as after InitGenesis *)
Definition s_gen : state := mkSt [(0, mkV SActive 0 0 0)] [] [] [] [(0, 0)] [(0, new_sinfo 0)] [] [0] 1000 10 [0] false.
Lemma s_gen_Inv : Inv s_gen.
Proof. apply invb_sound. vm_compute. reflexivity. Qed.

(* validators 1 and 2 claim and join *)
Definition h_setup : list op := [ONewBlock (5 * NS); OVotes [(0, true)]; OClaim 1 1 true; OClaim 2 2 true; OEndBlock].
(* a history inside the alphabet that exercises every good operation over six blocks *)
Definition h_happy : list op :=
  h_setup ++
  [ONewBlock (5 * NS); OVotes [(0, true); (1, true); (2, true)]; OPause 1; OPause 1; OActivate 1; OEndBlock;
   ONewBlock (5 * NS); OVotes [(0, true); (2, true)]; OUnpause 1; OPause 2; OUnpause 2; OEndBlock;
   ONewBlock (5 * NS); OVotes [(0, true); (1, false); (2, true)]; OEndBlock;
   ONewBlock (5 * NS); OVotes [(0, true); (1, false); (2, true)]; OEvidence [(2, 13, 1020)]; OEndBlock;
   ONewBlock (100 * NS); OVotes [(0, true)]; OActivate 1; OUnjail 2; OUpPause [0; 7]; OEndBlock;
   ONewBlock (5 * NS); OVotes [(1, true)]; OActivate 2; OUnpause 0; OClaim 3 3 true; OEndBlock].

Lemma h_happy_good : goods cfg0 s_gen h_happy.
Proof. apply goodsb_sound. vm_compute. reflexivity. Qed.
Lemma h_happy_result :
  let s := run cfg0 s_gen h_happy in
  Inv s /\ st_cset s = [0; 1; 2; 3] /\ st_halt s = false /\ map (fun e => v_status (snd e)) (st_vals s) = [SActive; SActive; SActive; SActive].
Proof.
  split; [apply run_preserves_Inv; [apply s_gen_Inv|apply h_happy_good]|]. vm_compute. auto.
Qed.

(* reachable (by histories inside the alphabet) states used by the refutations *)
Definition s_three : state := run cfg0 s_gen h_setup.
Definition s_paused1 : state := run cfg0 s_three [ONewBlock (5 * NS); OVotes [(0, true); (1, true); (2, true)]; OPause 1; OEndBlock; ONewBlock (5 * NS)].
Definition s_inactive1 : state :=
  run cfg0 s_three [ONewBlock (5 * NS); OVotes [(0, true); (1, false); (2, true)]; OEndBlock;
                    ONewBlock (5 * NS); OVotes [(0, true); (1, false); (2, true)]; OEndBlock; ONewBlock (100 * NS)].
Definition s_jailed1 : state := run cfg0 s_three [ONewBlock (5 * NS); OEvidence [(1, 11, 1008)]; OEndBlock; ONewBlock (5 * NS)].
Definition s_only0_active : state :=
  run cfg0 s_three [ONewBlock (5 * NS); OVotes [(0, true); (1, false); (2, false)]; OEndBlock;
                    ONewBlock (5 * NS); OVotes [(0, true); (1, false); (2, false)]; OEndBlock; ONewBlock (5 * NS)].

Local Ltac reach h := apply run_preserves_Inv; [first [apply s_gen_Inv | apply run_preserves_Inv; [apply s_gen_Inv|apply goodsb_sound; vm_compute; reflexivity]] | apply goodsb_sound; vm_compute; reflexivity].
Lemma s_three_Inv : Inv s_three. Proof. unfold s_three. reach h_setup. Qed.
Lemma s_paused1_Inv : Inv s_paused1. Proof. unfold s_paused1, s_three. reach 0. Qed.
Lemma s_inactive1_Inv : Inv s_inactive1. Proof. unfold s_inactive1, s_three. reach 0. Qed.
Lemma s_jailed1_Inv : Inv s_jailed1. Proof. unfold s_jailed1, s_three. reach 0. Qed.
Lemma s_only0_active_Inv : Inv s_only0_active. Proof. unfold s_only0_active, s_three. reach 0. Qed.

(* The full statement of C05 quantifies over ALL operations. It is refuted by the faithful model for
   each of the following; every witness is replayed on the real code by the harness. *)
Definition C05_statement_for (ops : list op) : Prop :=
  forall cfg s, Inv s -> let s' := run cfg s ops in
  st_halt s' = false /\ (forall k, In k (st_cset s') <-> active_key s' k).

Local Ltac refute_with c s I := intros H; destruct (H c s I) as [Hh Hk]; cbv zeta in *.

(* rank reset: every validator becomes active, no update is queued *)
Lemma rank_reset_refuted : ~ C05_statement_for [OReset; OEndBlock].
Proof.
  refute_with cfg0 s_paused1 s_paused1_Inv.
  assert (A : active_key (run cfg0 s_paused1 [OReset; OEndBlock]) 1).
  { exists 1. eexists. split; [vm_compute; reflexivity|split; reflexivity]. }
  apply Hk in A. vm_compute in A. intuition discriminate.
Qed.
(* evidence against an inactive or paused validator queues the removal of an absent key *)
Lemma jail_of_paused_refuted : ~ C05_statement_for [OEvidence [(1, 12, 1010)]; OEndBlock].
Proof. refute_with cfg0 s_paused1 s_paused1_Inv. vm_compute in Hh. discriminate. Qed.
Lemma jail_of_inactive_refuted : ~ C05_statement_for [OEvidence [(1, 13, 1110)]; OEndBlock].
Proof. refute_with cfg0 s_inactive1 s_inactive1_Inv. vm_compute in Hh. discriminate. Qed.
(* the upgrade pause of an already paused or a jailed validator: same *)
Lemma upgrade_pause_of_paused_refuted : ~ C05_statement_for [OUpPause [1]; OEndBlock].
Proof. refute_with cfg0 s_paused1 s_paused1_Inv. vm_compute in Hh. discriminate. Qed.
Lemma upgrade_pause_of_jailed_refuted : ~ C05_statement_for [OUpPause [1]; OEndBlock].
Proof. refute_with cfg0 s_jailed1 s_jailed1_Inv. vm_compute in Hh. discriminate. Qed.
(* the pause guard counts validators of every status: the last active validator pauses, empty set *)
Lemma pause_guard_refuted : ~ C05_statement_for [OPause 0; OEndBlock].
Proof. refute_with cfg0 s_only0_active s_only0_active_Inv. vm_compute in Hh. discriminate. Qed.
Lemma pause_guard_accepts_last_active : snd (step cfg0 s_only0_active (OPause 0)) = ROk /\ active_keys s_only0_active = [0].
Proof. vm_compute. auto. Qed.
(* unpause (or activate) followed by pause in one block: removal of a key the engine never got back *)
Lemma unpause_then_pause_refuted : ~ C05_statement_for [OUnpause 1; OPause 1; OEndBlock].
Proof. refute_with cfg0 s_paused1 s_paused1_Inv. vm_compute in Hh. discriminate. Qed.
Lemma activate_then_pause_refuted : ~ C05_statement_for [OActivate 1; OPause 1; OEndBlock].
Proof. refute_with cfg0 s_inactive1 s_inactive1_Inv. vm_compute in Hh. discriminate. Qed.
(* a claim with the consensus key of an existing validator *)
Lemma shared_key_refuted : ~ C05_statement_for [OClaim 3 1 true; OEndBlock; ONewBlock (5 * NS); OPause 1; OEndBlock].
Proof.
  refute_with cfg0 s_three s_three_Inv.
  assert (A : active_key (run cfg0 s_three [OClaim 3 1 true; OEndBlock; ONewBlock (5 * NS); OPause 1; OEndBlock]) 1).
  { exists 3. eexists. split; [vm_compute; reflexivity|split; reflexivity]. }
  apply Hk in A. vm_compute in A. intuition discriminate.
Qed.
Lemma same_key_twice_refuted : ~ C05_statement_for [OClaim 3 3 true; OClaim 4 3 true; OEndBlock].
Proof. refute_with cfg0 s_three s_three_Inv. vm_compute in Hh. discriminate. Qed.
(* evidence against the only active validator: nothing is left (excluded by the deliverability
   hypothesis [some_active] of the positive theorem) *)
Lemma never_empty_refuted : ~ C05_statement_for [OEvidence [(0, 10, 1000)]; OEndBlock].
Proof. refute_with cfg0 s_gen s_gen_Inv. vm_compute in Hh. discriminate. Qed.

(* ... and it HOLDS for every history inside the alphabet [goods] *)
Theorem C05_statement_partial : forall cfg s ops, Inv s -> goods cfg s (ops ++ [OEndBlock]) ->
  let s' := run cfg s (ops ++ [OEndBlock]) in
  st_halt s' = false /\ (forall k, In k (st_cset s') <-> active_key s' k).
Proof.
  intros cfg s ops I G. destruct (every_end_block_applicable_and_equal cfg s ops [] I G) as (c' & _ & _ & _ & Hh & Hk).
  split; assumption.
Qed.

(* ================================================================ C15: the status machine *)
Definition status_at (s : state) (v : Z) : option status := option_map v_status (lookup v (st_vals s)).

Lemma status_add_validator : forall s v r v', status_at (add_validator s v r) v' = if v' =? v then Some (v_status r) else status_at s v'.
Proof. intros. unfold status_at. cbn. rewrite lookup_upd. now destruct (v' =? v). Qed.
Lemma status_deactivate : forall s v r v', status_at (sk_deactivate s v r) v' = if v' =? v then Some (v_status r) else status_at s v'.
Proof. intros. apply (status_add_validator s v r v'). Qed.
Lemma status_reactivate : forall s v r v', status_at (sk_reactivate s v r) v' = if v' =? v then Some SActive else status_at s v'.
Proof. intros. apply (status_add_validator s v (with_status r SActive) v'). Qed.

(* ---- owner messages *)
Theorem pause_edge : forall cfg s v v' a b, status_at s v' = Some a -> status_at (fst (step cfg s (OPause v))) v' = Some b -> a <> b ->
  v' = v /\ a = SActive /\ b = SPaused /\ snd (step cfg s (OPause v)) = ROk.
Proof.
  intros cfg s v v' a b Ha Hb Hn. cbn [step] in *.
  destruct (_ || _); [cbn in Hb; congruence|].
  destruct (lookup v (st_vals s)) as [r|] eqn:E; [|cbn in Hb; congruence].
  destruct (is_active (v_status r)) eqn:Ea; [|cbn in Hb; congruence].
  cbn [fst snd] in *. unfold sk_pause in Hb. rewrite E in Hb. apply is_active_true in Ea.
  assert (status_eqb (v_status r) SInactive = false) as Ei by (rewrite Ea; reflexivity). rewrite Ei in Hb.
  rewrite status_deactivate in Hb. destruct (v' =? v) eqn:Ev; [|congruence]. zb. subst v'.
  unfold status_at in Ha. rewrite E in Ha. cbn in *. inv Ha. inv Hb. auto.
Qed.
Theorem unpause_edge : forall cfg s v v' a b, status_at s v' = Some a -> status_at (fst (step cfg s (OUnpause v))) v' = Some b -> a <> b ->
  v' = v /\ a = SPaused /\ b = SActive.
Proof.
  intros cfg s v v' a b Ha Hb Hn. cbn [step] in *.
  destruct (lookup v (st_vals s)) as [r|] eqn:E; [|cbn in Hb; congruence].
  destruct (status_eqb (v_status r) SPaused) eqn:Ep; [|cbn in Hb; congruence].
  cbn [fst] in Hb. rewrite status_reactivate in Hb. destruct (v' =? v) eqn:Ev; [|congruence]. zb. subst v'.
  apply status_eqb_eq in Ep. unfold status_at in Ha. rewrite E in Ha. cbn in Ha. inv Ha. inv Hb. auto.
Qed.
(* an inactive validator is re-activated by its owner's message only, and only after the period *)
Theorem activate_edge : forall cfg s v v' a b, status_at s v' = Some a -> status_at (fst (step cfg s (OActivate v))) v' = Some b -> a <> b ->
  v' = v /\ a = SInactive /\ b = SActive /\
  (forall r i, lookup v (st_vals s) = Some r -> lookup (v_cons r) (st_si s) = Some i -> si_until i <= st_time s).
Proof.
  intros cfg s v v' a b Ha Hb Hn. cbn [step] in *.
  destruct (lookup v (st_vals s)) as [r|] eqn:E; [|cbn in Hb; congruence].
  destruct (status_eqb (v_status r) SInactive) eqn:Ei; cbn [negb] in Hb; [|cbn in Hb; congruence].
  apply status_eqb_eq in Ei.
  assert (Hsi : st_si (sk_reactivate s v r) = st_si s) by reflexivity. rewrite Hsi in Hb.
  destruct (lookup (v_cons r) (st_si s)) as [i|] eqn:Es.
  - destruct (st_time s <? si_until i) eqn:Et; [cbn in Hb; congruence|]. zb.
    cbn [fst] in Hb. change (status_at (sk_reactivate s v r) v' = Some b) in Hb.
    rewrite status_reactivate in Hb. destruct (v' =? v) eqn:Ev; [|congruence]. zb. subst v'.
    unfold status_at in Ha. rewrite E in Ha. cbn in Ha. inv Ha. inv Hb. repeat split; auto.
    intros r0 i0 A B. inv A. rewrite Es in B. inv B. lia.
  - cbn [fst] in Hb. rewrite status_reactivate in Hb. destruct (v' =? v) eqn:Ev; [|congruence]. zb. subst v'.
    unfold status_at in Ha. rewrite E in Ha. cbn in Ha. inv Ha. inv Hb. repeat split; auto.
    intros r0 i0 A B. inv A. congruence.
Qed.
Theorem activate_accepted_only_after_period : forall cfg s v r i,
  snd (step cfg s (OActivate v)) = ROk -> lookup v (st_vals s) = Some r -> lookup (v_cons r) (st_si s) = Some i ->
  v_status r = SInactive /\ si_until i <= st_time s.
Proof.
  intros cfg s v r i H E Es. cbn [step] in H. rewrite E in H.
  destruct (status_eqb (v_status r) SInactive) eqn:Ei; cbn [negb] in H; [|cbn in H; discriminate].
  apply status_eqb_eq in Ei. split; auto.
  assert (Hsi : st_si (sk_reactivate s v r) = st_si s) by reflexivity. rewrite Hsi, Es in H.
  destruct (st_time s <? si_until i) eqn:Et; [cbn in H; discriminate|]. zb. lia.
Qed.
(* a jailed validator is released by an unjail proposal only within the window *)
Theorem unjail_edge : forall cfg s v v' a b, status_at s v' = Some a -> status_at (fst (step cfg s (OUnjail v))) v' = Some b -> a <> b ->
  v' = v /\ a = SJailed /\ b = SInactive /\ exists jt, lookup v (st_jail s) = Some jt /\ st_time s <= jt + c_unjail_max cfg * NS.
Proof.
  intros cfg s v v' a b Ha Hb Hn. cbn [step] in *.
  destruct (lookup v (st_vals s)) as [r|] eqn:E; [|cbn in Hb; congruence].
  destruct (status_eqb (v_status r) SJailed) eqn:Ej; cbn [negb] in Hb; [|cbn in Hb; congruence].
  apply status_eqb_eq in Ej.
  destruct (lookup v (st_jail s)) as [jt|] eqn:Et; [|cbn in Hb; congruence].
  destruct (jt + c_unjail_max cfg * NS <? st_time s) eqn:El; [cbn in Hb; congruence|]. zb.
  cbn [fst] in Hb. change (status_at (add_validator s v (with_status r SInactive)) v' = Some b) in Hb.
  rewrite status_add_validator in Hb. destruct (v' =? v) eqn:Ev; [|congruence]. zb. subst v'.
  unfold status_at in Ha. rewrite E in Ha. cbn in *. inv Ha. inv Hb. repeat split; auto. exists jt. split; auto; lia.
Qed.
Theorem unjail_accepted_only_in_window : forall cfg s v,
  snd (step cfg s (OUnjail v)) = ROk ->
  exists r jt, lookup v (st_vals s) = Some r /\ v_status r = SJailed /\ lookup v (st_jail s) = Some jt /\ st_time s <= jt + c_unjail_max cfg * NS.
Proof.
  intros cfg s v H. cbn [step] in H.
  destruct (lookup v (st_vals s)) as [r|] eqn:E; [|cbn in H; discriminate].
  destruct (status_eqb (v_status r) SJailed) eqn:Ej; cbn [negb] in H; [|cbn in H; discriminate].
  destruct (lookup v (st_jail s)) as [jt|] eqn:Et; [|cbn in H; discriminate].
  destruct (jt + c_unjail_max cfg * NS <? st_time s) eqn:El; [cbn in H; discriminate|]. zb.
  apply status_eqb_eq in Ej. exists r, jt. repeat split; auto; lia.
Qed.

(* ---- operations that touch no existing validator's status *)
Theorem claim_newblock_no_edge : forall cfg s o v' , (exists v k p, o = OClaim v k p) \/ (exists dt, o = ONewBlock dt) ->
  status_at (fst (step cfg s o)) v' = status_at s v'.
Proof.
  intros cfg s o v' [(v & k & p & ->)|(dt & ->)]; cbn [step].
  - destruct (negb p); [reflexivity|]. destruct (lookup v (st_vals s)); reflexivity.
  - reflexivity.
Qed.

(* ---- commit votes (downtime) *)
Definition cfg_ok (cfg : config) : Prop :=
  0 <= c_mc cfg /\ 0 <= c_maxm cfg /\ 0 <= c_rankdec cfg /\ 0 <= c_inact_pct cfg <= PREC.

Lemma sk_signature_shape : forall cfg s v r missed m, lookup v (st_vals s) = Some r ->
  exists r1, sk_signature cfg s v missed m = add_validator s v r1 /\ v_status r1 = v_status r /\ v_cons r1 = v_cons r /\
             (missed = false -> v_streak r1 = v_streak r + 1 /\ v_rank r <= v_rank r1) /\
             (0 <= v_rank r -> 0 <= v_streak r -> 0 <= v_rank r1 /\ 0 <= v_streak r1).
Proof.
  intros cfg s v r missed m E. unfold sk_signature. rewrite E. eexists; split; [reflexivity|].
  destruct missed; [destruct (0 <? m)|]; cbn; repeat split; auto; try discriminate; try lia;
    try (destruct (_ <? _) eqn:?; zb; lia).
Qed.

(* what one vote does to the statuses *)
Lemma vote1_status : forall cfg s k sg s' v', 0 <= c_maxm cfg -> vote1 cfg s (k, sg) = Some s' ->
  status_at s' v' = status_at s v' \/
  (status_at s v' = Some SActive /\ status_at s' v' = Some SInactive /\ sg = false /\ exists r, by_cons s k = Some (v', r)).
Proof.
  intros cfg s k sg s' v' Hm H. unfold vote1 in H.
  destruct (negb (smem k (st_pk s))); [discriminate|].
  destruct (by_cons s k) as [[v r]|] eqn:Ebc; [|discriminate].
  pose proof (by_cons_lookup _ _ _ _ Ebc) as Hv.
  destruct (negb (is_active (v_status r))) eqn:Ea; [inv H; auto|].
  apply negb_false_iff, is_active_true in Ea.
  destruct (lookup k (st_si s)) as [i|]; [|discriminate].
  set (i1 := if negb sg then _ else _) in H.
  destruct (sk_signature_shape cfg s v r (negb sg) (si_misch i1) Hv) as (r1 & E1 & S1 & C1 & _).
  rewrite E1 in H.
  destruct (c_maxm cfg <? si_misch i1) eqn:Em.
  - inv H. unfold sk_inactivate. cbn [add_validator st_vals]. rewrite lookup_upd_same.
    assert (status_eqb (v_status r1) SPaused = false) as -> by (apply status_eqb_neq; congruence).
    change (status_at (set_si ?x _) v') with (status_at x v'). rewrite status_deactivate. cbn [v_status].
    destruct (v' =? v) eqn:Ev; zb.
    + subst v'. right. unfold status_at at 1. rewrite Hv. cbn. rewrite Ea. repeat split; eauto.
      destruct sg; [|reflexivity]. subst i1. cbn in Em. lia.
    + left. rewrite status_add_validator. destruct (v' =? v) eqn:Ev2; zb; [contradiction|reflexivity].
  - inv H. left. change (status_at (set_si ?x _) v') with (status_at x v'). rewrite status_add_validator.
    destruct (v' =? v) eqn:Ev; zb; [|reflexivity]. subst. unfold status_at. rewrite Hv. cbn. congruence.
Qed.

Theorem votes_edge : forall cfg vs s s' v' a b, 0 <= c_maxm cfg -> votes cfg s vs = Some s' ->
  status_at s v' = Some a -> status_at s' v' = Some b -> a <> b ->
  a = SActive /\ b = SInactive /\ exists k, In (k, false) vs.
Proof.
  intros cfg. induction vs as [|[k sg] vs IH]; intros s s' v' a b Hm H Ha Hb Hn; cbn [votes] in H; [inv H; congruence|].
  destruct (vote1 cfg s (k, sg)) as [s1|] eqn:E1; [|discriminate].
  destruct (vote1_status cfg s k sg s1 v' Hm E1) as [Eq|(A & B & C & _)].
  - rewrite Ha in Eq. destruct (IH s1 s' v' a b Hm H Eq Hb Hn) as (X & Y & k' & Z). repeat split; auto. exists k'. now right.
  - rewrite Ha in A. inv A.
    destruct (status_eqb SInactive b) eqn:Eb; [apply status_eqb_eq in Eb; subst; repeat split; auto; exists k; now left|].
    apply status_eqb_neq in Eb. destruct (IH s1 s' v' SInactive b Hm H B Hb Eb) as (X & _). discriminate.
Qed.

(* a validator that signs is never punished: still active, streak + 1, rank not lower *)
Theorem full_signer_never_punished : forall cfg s k s' v r, 0 <= c_maxm cfg ->
  vote1 cfg s (k, true) = Some s' -> by_cons s k = Some (v, r) -> v_status r = SActive ->
  exists r', lookup v (st_vals s') = Some r' /\ v_status r' = SActive /\ v_streak r' = v_streak r + 1 /\ v_rank r <= v_rank r' /\
             exists i', lookup k (st_si s') = Some i' /\ si_misch i' = 0 /\ si_conf i' = 0.
Proof.
  intros cfg s k s' v r Hm H Ebc Ea. unfold vote1 in H.
  destruct (negb (smem k (st_pk s))); [discriminate|]. rewrite Ebc in H.
  pose proof (by_cons_lookup _ _ _ _ Ebc) as Hv.
  rewrite Ea in H. cbn [is_active status_eqb negb] in H.
  destruct (lookup k (st_si s)) as [i|]; [|discriminate]. cbn [negb] in H.
  destruct (sk_signature_shape cfg s v r false 0 Hv) as (r1 & E1 & S1 & C1 & D1 & _). cbn [si_misch] in H.
  rewrite E1 in H. destruct (c_maxm cfg <? 0) eqn:Em; [zb; lia|]. inv H.
  exists r1. cbn. rewrite lookup_upd_same. destruct (D1 eq_refl). repeat split; auto; try congruence.
  eexists. rewrite lookup_upd_same. split; [reflexivity|auto].
Qed.

(* the threshold: [n] consecutive misses of an active validator with fresh counters *)
Fixpoint misses (cfg : config) (s : state) (k : Z) (n : nat) : option state :=
  match n with O => Some s | S m => match misses cfg s k m with Some s1 => vote1 cfg s1 (k, false) | None => None end end.

Lemma one_miss : forall cfg s k v r i, smem k (st_pk s) = true -> by_cons s k = Some (v, r) -> v_status r = SActive ->
  lookup k (st_si s) = Some i -> lookup v (st_vals s) = Some r -> lookup (v_cons r) (st_cidx s) = Some v -> v_cons r = k ->
  let conf' := if c_mc cfg <=? si_conf i then si_conf i else si_conf i + 1 in
  let misch' := if c_mc cfg <=? si_conf i then si_misch i + 1 else si_misch i in
  exists s' r' i', vote1 cfg s (k, false) = Some s' /\ smem k (st_pk s') = true /\ by_cons s' k = Some (v, r') /\
    lookup k (st_si s') = Some i' /\ lookup v (st_vals s') = Some r' /\ lookup (v_cons r') (st_cidx s') = Some v /\ v_cons r' = k /\
    si_conf i' = conf' /\ si_misch i' = misch' /\
    v_status r' = (if c_maxm cfg <? misch' then SInactive else SActive).
Proof.
  intros cfg s k v r i Hpk Ebc Ea Esi Hv Hidx Hk conf' misch'. unfold vote1. rewrite Hpk, Ebc, Ea, Esi. cbn [negb is_active status_eqb].
  destruct (sk_signature_shape cfg s v r true (if c_mc cfg <=? si_conf i then si_misch i + 1 else si_misch i) Hv) as (r1 & E1 & S1 & C1 & _).
  assert (Em : si_misch (if c_mc cfg <=? si_conf i
     then mkSI (si_start i) (si_until i) (si_conf i) (si_misch i + 1) (si_last i) (si_missed i + 1) (si_produced i)
     else mkSI (si_start i) (si_until i) (si_conf i + 1) (si_misch i) (si_last i) (si_missed i + 1) (si_produced i)) = misch')
    by (subst misch'; destruct (c_mc cfg <=? si_conf i); reflexivity).
  rewrite Em. fold misch' in E1. rewrite E1.
  destruct (c_maxm cfg <? misch') eqn:Et.
  - unfold sk_inactivate. cbn [add_validator st_vals]. rewrite lookup_upd_same.
    assert (status_eqb (v_status r1) SPaused = false) as -> by (apply status_eqb_neq; congruence).
    eexists. exists (mkV SInactive (inact_rank (v_rank r1) (c_inact_pct cfg)) 0 (v_cons r1)). eexists. split; [reflexivity|].
    split; [exact Hpk|].
    unfold by_cons. cbn [set_si sk_deactivate add_validator set_queues st_pk st_si st_vals st_cidx v_cons v_status].
    rewrite ?C1, ?Hk. rewrite !lookup_upd_same.
    split; [reflexivity|]. split; [reflexivity|]. split; [reflexivity|]. cbn [v_cons v_status si_conf si_misch].
    rewrite ?lookup_upd_same.
    repeat split; subst conf' misch'; destruct (c_mc cfg <=? si_conf i); reflexivity.
  - eexists. exists r1. eexists. split; [reflexivity|].
    split; [exact Hpk|].
    unfold by_cons. cbn [set_si add_validator st_pk st_si st_vals st_cidx].
    rewrite ?C1, ?Hk. rewrite !lookup_upd_same.
    split; [reflexivity|]. split; [reflexivity|]. split; [reflexivity|].
    rewrite ?C1, ?Hk. rewrite ?lookup_upd_same.
    repeat split; try congruence; subst conf' misch'; destruct (c_mc cfg <=? si_conf i); reflexivity.
Qed.

(* an active validator whose counters are zero stays active through MischanceConfidence + MaxMischance
   consecutive misses and is inactive after exactly one more *)
Theorem downtime_inactivates_exactly : forall cfg s k v r i, 0 <= c_mc cfg -> 0 <= c_maxm cfg ->
  smem k (st_pk s) = true -> by_cons s k = Some (v, r) -> v_status r = SActive ->
  lookup k (st_si s) = Some i -> lookup (v_cons r) (st_cidx s) = Some v -> v_cons r = k ->
  si_conf i = 0 -> si_misch i = 0 ->
  (forall n, Z.of_nat n <= c_mc cfg + c_maxm cfg ->
     exists s' r', misses cfg s k n = Some s' /\ lookup v (st_vals s') = Some r' /\ v_status r' = SActive) /\
  (exists s' r', misses cfg s k (Z.to_nat (c_mc cfg + c_maxm cfg + 1)) = Some s' /\ lookup v (st_vals s') = Some r' /\ v_status r' = SInactive).
Proof.
  intros cfg s k v r i Hmc Hmm Hpk Ebc Ea Esi Hidx Hk Hc0 Hm0.
  pose proof (by_cons_lookup _ _ _ _ Ebc) as Hv.
  assert (P : forall n, Z.of_nat n <= c_mc cfg + c_maxm cfg ->
    exists s' r' i', misses cfg s k n = Some s' /\ smem k (st_pk s') = true /\ by_cons s' k = Some (v, r') /\
      lookup k (st_si s') = Some i' /\ lookup v (st_vals s') = Some r' /\ lookup (v_cons r') (st_cidx s') = Some v /\ v_cons r' = k /\
      si_conf i' = Z.min (Z.of_nat n) (c_mc cfg) /\ si_misch i' = Z.max 0 (Z.of_nat n - c_mc cfg) /\ v_status r' = SActive).
  { induction n as [|n IH]; intros Hn.
    - exists s, r, i. cbn [misses]. repeat split; auto; lia.
    - destruct IH as (s1 & r1 & i1 & M & A1 & A2 & A3 & A4 & A5 & A6 & A7 & A8 & A9); [lia|].
      destruct (one_miss cfg s1 k v r1 i1 A1 A2 A9 A3 A4 A5 A6) as (s2 & r2 & i2 & V & B1 & B2 & B3 & B4 & B5 & B6 & B7 & B8 & B9).
      exists s2, r2, i2. cbn [misses]. rewrite M. repeat split; auto.
      + rewrite B7, A7. destruct (c_mc cfg <=? Z.min (Z.of_nat n) (c_mc cfg)) eqn:E; zb; lia.
      + rewrite B8, A7, A8. destruct (c_mc cfg <=? Z.min (Z.of_nat n) (c_mc cfg)) eqn:E; zb; lia.
      + rewrite B9, A7, A8. destruct (c_mc cfg <=? Z.min (Z.of_nat n) (c_mc cfg)) eqn:E; zb;
          match goal with |- (if ?c then _ else _) = _ => destruct c eqn:E2 end; zb; try reflexivity; lia. }
  split.
  - intros n Hn. destruct (P n Hn) as (s' & r' & i' & M & _ & _ & _ & A & _ & _ & _ & _ & B). eauto.
  - destruct (P (Z.to_nat (c_mc cfg + c_maxm cfg))) as (s1 & r1 & i1 & M & A1 & A2 & A3 & A4 & A5 & A6 & A7 & A8 & A9); [lia|].
    destruct (one_miss cfg s1 k v r1 i1 A1 A2 A9 A3 A4 A5 A6) as (s2 & r2 & i2 & V & B1 & B2 & B3 & B4 & B5 & B6 & B7 & B8 & B9).
    exists s2, r2. replace (Z.to_nat (c_mc cfg + c_maxm cfg + 1)) with (S (Z.to_nat (c_mc cfg + c_maxm cfg))) by lia.
    cbn [misses]. rewrite M. repeat split; auto.
    rewrite B9, A7, A8. destruct (c_mc cfg <=? Z.min (Z.of_nat (Z.to_nat (c_mc cfg + c_maxm cfg))) (c_mc cfg)) eqn:E; zb;
      match goal with |- (if ?c then _ else _) = _ => destruct c eqn:E2 end; zb; try reflexivity; lia.
Qed.

(* ---- evidence *)
Lemma evid1_status : forall cfg s e s' v', evid1 cfg s e = Some s' ->
  status_at s' v' = status_at s v' \/ status_at s' v' = Some SJailed.
Proof.
  intros cfg s [[k ih] it] s' v' H. unfold evid1 in H.
  destruct (negb (smem k (st_pk s))); [inv H; auto|].
  destruct (evid_too_old cfg s ih it); [inv H; auto|].
  destruct (by_cons s k) as [[v r]|] eqn:Ebc; [|inv H; auto].
  pose proof (by_cons_lookup _ _ _ _ Ebc) as Hv.
  destruct (lookup k (st_si s)); [|discriminate].
  destruct (status_eqb (v_status r) SJailed) eqn:Ej.
  - destruct (lookup k (st_si s)); inv H. auto.
  - destruct (lookup k (st_si (sk_jail s v))); inv H.
    change (status_at (set_si ?x _) v') with (status_at x v'). unfold sk_jail. rewrite Hv.
    change (status_at (set_jail ?x _) v') with (status_at x v'). rewrite status_deactivate. cbn.
    destruct (v' =? v); auto.
Qed.
(* valid double-sign evidence always jails the offender *)
Theorem evidence_jails : forall cfg s k ih it s' v r, evid1 cfg s (k, ih, it) = Some s' ->
  smem k (st_pk s) = true -> evid_too_old cfg s ih it = false -> by_cons s k = Some (v, r) ->
  status_at s' v = Some SJailed.
Proof.
  intros cfg s k ih it s' v r H Hpk Hold Ebc. unfold evid1 in H. rewrite Hpk, Hold, Ebc in H. cbn [negb] in H.
  pose proof (by_cons_lookup _ _ _ _ Ebc) as Hv.
  destruct (lookup k (st_si s)); [|discriminate].
  destruct (status_eqb (v_status r) SJailed) eqn:Ej.
  - destruct (lookup k (st_si s)); inv H. apply status_eqb_eq in Ej.
    change (status_at (set_si ?x _) v) with (status_at x v). unfold status_at. rewrite Hv. cbn. congruence.
  - destruct (lookup k (st_si (sk_jail s v))); inv H.
    change (status_at (set_si ?x _) v) with (status_at x v). unfold sk_jail. rewrite Hv.
    change (status_at (set_jail ?x _) v) with (status_at x v). rewrite status_deactivate. now rewrite Z.eqb_refl.
Qed.
Theorem evidences_edge : forall cfg es s s' v' a b, evidences cfg s es = Some s' ->
  status_at s v' = Some a -> status_at s' v' = Some b -> a <> b -> b = SJailed.
Proof.
  intros cfg. induction es as [|e es IH]; intros s s' v' a b H Ha Hb Hn; cbn [evidences] in H; [inv H; congruence|].
  destruct (evid1 cfg s e) as [s1|] eqn:E1; [|discriminate].
  destruct (evid1_status cfg s e s1 v' E1) as [Eq|Ej].
  - rewrite Ha in Eq. eapply IH; eauto.
  - destruct (status_eqb SJailed b) eqn:Eb; [apply status_eqb_eq in Eb; congruence|].
    apply status_eqb_neq in Eb. eapply (IH s1 s' v' SJailed b); eauto.
Qed.

(* ---- upgrade pause: as coded it also moves a JAILED (or already paused) validator to PAUSED *)
Lemma sk_pause_status : forall s v v', 
  status_at (sk_pause s v) v' = status_at s v' \/
  (v' = v /\ status_at s v' <> Some SInactive /\ status_at s v' <> None /\ status_at (sk_pause s v) v' = Some SPaused).
Proof.
  intros s v v'. unfold sk_pause. destruct (lookup v (st_vals s)) as [r|] eqn:E; [|auto].
  destruct (status_eqb (v_status r) SInactive) eqn:Ei; [auto|]. apply status_eqb_neq in Ei.
  rewrite status_deactivate. destruct (v' =? v) eqn:Ev; zb; [|auto]. subst v'. right.
  unfold status_at. rewrite E. cbn. repeat split; congruence.
Qed.
Theorem upgrade_pause_edge : forall vs s v' a b,
  status_at s v' = Some a -> status_at (fold_left sk_pause vs s) v' = Some b -> a <> b ->
  In v' vs /\ b = SPaused /\ (a = SActive \/ a = SJailed).
Proof.
  induction vs as [|v vs IH]; intros s v' a b Ha Hb Hn; cbn [fold_left] in Hb; [congruence|].
  destruct (sk_pause_status s v v') as [Eq|(-> & A & _ & B)].
  - rewrite Ha in Eq. destruct (IH _ _ _ _ Eq Hb Hn) as (X & Y & Z). repeat split; auto. now right.
  - destruct (status_eqb SPaused b) eqn:Eb.
    + apply status_eqb_eq in Eb. subst b. repeat split; [now left|].
      rewrite Ha in A. destruct a; auto; congruence.
    + apply status_eqb_neq in Eb. destruct (IH _ _ _ _ B Hb Eb) as (_ & Y & [Z|Z]); discriminate.
Qed.

(* ---- rank reset: every validator becomes active *)
Lemma reset_fold_status : forall l s v', 
  status_at (fold_left (fun a (e : Z * vrec) => add_validator a (fst e) (mkV SActive 0 0 (v_cons (snd e)))) l s) v' =
  if smem v' (map fst l) then Some SActive else status_at s v'.
Proof.
  induction l as [|[v r] l IH]; intros s v'; [reflexivity|]. cbn [fold_left map fst snd smem]. rewrite IH.
  destruct (smem v' (map fst l)); [now rewrite orb_true_r|]. rewrite orb_false_r.
  rewrite status_add_validator. reflexivity.
Qed.
Theorem reset_edge : forall cfg s v' a b, status_at s v' = Some a -> status_at (fst (step cfg s OReset)) v' = Some b -> b = SActive.
Proof.
  intros cfg s v' a b Ha Hb. cbn [step fst] in Hb. unfold reset_all in Hb.
  cbn [set_si st_vals] in Hb. rewrite reset_fold_status in Hb.
  assert (smem v' (map fst (st_vals s)) = true) as E.
  { apply smem_In. unfold status_at in Ha. destruct (lookup v' (st_vals s)) eqn:E; [|discriminate]. eapply lookup_keys; eauto. }
  rewrite E in Hb. congruence.
Qed.

(* ---- end block: existing validators keep their status (new ones join as active) *)
Theorem end_block_edge : forall cfg s v' a, Inv s -> status_at s v' = Some a -> status_at (fst (step cfg s OEndBlock)) v' = Some a.
Proof.
  intros cfg s v' a I Ha. cbn [step]. unfold end_block. rewrite (end_block_updates_eq s I). fold (joined s).
  unfold status_at in Ha. destruct (lookup v' (st_vals s)) as [r|] eqn:E; [|discriminate].
  destruct (apply_updates (st_cset s) (eb_updates s)); cbn [fst];
    unfold status_at; cbn [set_cons set_queues set_pend st_vals]; now rewrite (joined_old s v' r I E).
Qed.

(* ---- all causes together *)
Definition edge_ok (o : op) (v : Z) (a b : status) : Prop :=
  match o with
  | OPause t => v = t /\ a = SActive /\ b = SPaused
  | OUnpause t => v = t /\ a = SPaused /\ b = SActive
  | OActivate t => v = t /\ a = SInactive /\ b = SActive
  | OVotes vs => a = SActive /\ b = SInactive /\ exists k, In (k, false) vs
  | OEvidence _ => b = SJailed
  | OUnjail t => v = t /\ a = SJailed /\ b = SInactive
  | OReset => b = SActive
  | OUpPause vs => In v vs /\ a = SActive /\ b = SPaused
  | OClaim _ _ _ | ONewBlock _ | OEndBlock | OGenesis _ | OUpgrade | OSetProp _ _ _ => False
  | ORotate _ t' => v = t'     (* only when the target address already held a validator record, which the real message excludes *)
  end.

(* the full statement ... *)
Definition C15_only_allowed_edges_statement : Prop :=
  forall cfg s o v a b, Inv s -> 0 <= c_maxm cfg ->
  status_at s v = Some a -> status_at (fst (step cfg s o)) v = Some b -> a <> b -> edge_ok o v a b.

(* ... holds except for exactly one edge: the upgrade pause moves a jailed validator to paused *)
Theorem only_allowed_edges_partial : forall cfg s o v a b, Inv s -> 0 <= c_maxm cfg ->
  status_at s v = Some a -> status_at (fst (step cfg s o)) v = Some b -> a <> b ->
  edge_ok o v a b \/ (exists vs, o = OUpPause vs /\ In v vs /\ a = SJailed /\ b = SPaused).
Proof.
  intros cfg s o v a b I Hm Ha Hb Hn. destruct o.
  - rewrite claim_newblock_no_edge in Hb by (left; do 3 eexists; reflexivity). congruence.
  - left. destruct (pause_edge cfg s v0 v a b Ha Hb Hn) as (A & B & C & _). cbn. auto.
  - left. destruct (unpause_edge cfg s v0 v a b Ha Hb Hn) as (A & B & C). cbn. auto.
  - left. destruct (activate_edge cfg s v0 v a b Ha Hb Hn) as (A & B & C & _). cbn. auto.
  - left. cbn [step] in Hb. destruct (votes cfg s vs) as [s'|] eqn:E; cbn [fst] in Hb; [|congruence].
    destruct (votes_edge cfg vs s s' v a b Hm E Ha Hb Hn) as (A & B & C). cbn. auto.
  - left. cbn [step] in Hb. destruct (evidences cfg s es) as [s'|] eqn:E; cbn [fst] in Hb; [|congruence].
    cbn. eapply evidences_edge; eauto.
  - left. destruct (unjail_edge cfg s v0 v a b Ha Hb Hn) as (A & B & C & _). cbn. auto.
  - left. cbn. exact (reset_edge cfg s v a b Ha Hb).
  - cbn [step fst] in Hb. destruct (upgrade_pause_edge vs s v a b Ha Hb Hn) as (A & B & [C|C]).
    + left. cbn. auto.
    + right. eauto.
  - rewrite claim_newblock_no_edge in Hb by (right; eexists; reflexivity). congruence.
  - rewrite (end_block_edge cfg s v a I Ha) in Hb. congruence.
  - (* rotation: every other record keeps its status; the rotated one changes address, not status *)
    left. cbn [edge_ok]. cbn [step] in Hb. destruct (lookup v0 (st_vals s)) as [r|] eqn:E; [|cbn in Hb; congruence].
    cbn [fst] in Hb. unfold status_at in Hb. cbn [st_vals] in Hb. rewrite lookup_upd in Hb.
    destruct (v =? v') eqn:Ev; zb; [assumption|]. rewrite lookup_del in Hb.
    destruct (v =? v0); [discriminate|]. unfold status_at in Ha. congruence.
  - (* genesis import keeps every record *)
    exfalso. assert (E : st_vals (fst (genesis_import over s)) = st_vals s).
    { unfold genesis_import. destruct (genesis_updates s); [reflexivity|]. destruct (apply_updates _ _); reflexivity. }
    cbn [step] in Hb. unfold status_at in Ha, Hb. rewrite E in Hb. congruence.
  - cbn [step fst] in Hb. congruence.
  - (* a settings change touches no validator *) cbn [step fst] in Hb. congruence.
Qed.

Theorem only_allowed_edges_refuted : ~ C15_only_allowed_edges_statement.
Proof.
  intros H. assert (E : edge_ok (OUpPause [1]) 1 SJailed SPaused).
  { apply (H cfg0 s_jailed1); [apply s_jailed1_Inv|unfold cfg0; cbn; lia|vm_compute; reflexivity|vm_compute; reflexivity|discriminate]. }
  cbn in E. destruct E as (_ & A & _). discriminate.
Qed.

(* the jail exit: jailed -> paused by the upgrade pause, then the owner's unpause -> active, and the
   consensus engine takes the validator back; no unjail proposal and no rank reset in the history *)
Theorem jail_escape_refuted :
  exists s ops, Inv s /\ status_at s 1 = Some SJailed /\
    (forall o, In o ops -> o <> OReset /\ forall v, o <> OUnjail v) /\
    status_at (run cfg0 s ops) 1 = Some SActive /\ In 1 (st_cset (run cfg0 s ops)) /\ st_halt (run cfg0 s ops) = false.
Proof.
  exists s_jailed1, [OUpPause [1]; OUnpause 1; OEndBlock]. split; [apply s_jailed1_Inv|]. split; [vm_compute; reflexivity|].
  split.
  - intros o [<-|[<-|[<-|[]]]]; split; intros; discriminate.
  - vm_compute. auto.
Qed.

(* ---- rank and streak never go negative *)
Definition nonneg (s : state) : Prop := forall v r, lookup v (st_vals s) = Some r -> 0 <= v_rank r /\ 0 <= v_streak r.

Lemma nonneg_add : forall s v r, nonneg s -> 0 <= v_rank r -> 0 <= v_streak r -> nonneg (add_validator s v r).
Proof.
  intros s v r N A B v' r'. cbn. rewrite lookup_upd. destruct (v' =? v); intros H; [inv H; auto|eauto].
Qed.
Lemma nonneg_ext : forall s s', st_vals s' = st_vals s -> nonneg s -> nonneg s'.
Proof. intros s s' E N v r. rewrite E. apply N. Qed.

Lemma chop_round_nonneg : forall d, 0 <= d -> 0 <= chop_round d.
Proof.
  intros d H. unfold chop_round. destruct (d <? 0) eqn:E; zb; [lia|]. unfold chop_round_pos.
  assert (0 <= d / PREC) by (apply Z.div_pos; [lia|reflexivity]).
  repeat match goal with |- context[if ?c then _ else _] => destruct c end; lia.
Qed.
Lemma inact_rank_nonneg : forall rank pct, 0 <= rank -> 0 <= pct <= PREC -> 0 <= inact_rank rank pct.
Proof.
  intros. unfold inact_rank, round_int, dec_of_int. apply chop_round_nonneg, chop_round_nonneg.
  assert (0 < PREC) by reflexivity. nia.
Qed.

Lemma nonneg_sk_pause : forall s v, nonneg s -> nonneg (sk_pause s v).
Proof.
  intros s v N. unfold sk_pause. destruct (lookup v (st_vals s)) as [r|] eqn:E; [|assumption].
  destruct (status_eqb _ _); [assumption|]. destruct (N v r E).
  apply (nonneg_ext (add_validator s v (with_status r SPaused))); [reflexivity|]. apply nonneg_add; auto.
Qed.
Lemma nonneg_vote1 : forall cfg s x s', cfg_ok cfg -> nonneg s -> vote1 cfg s x = Some s' -> nonneg s'.
Proof.
  intros cfg s [k sg] s' (_ & _ & _ & Hp) N H. unfold vote1 in H.
  destruct (negb (smem k (st_pk s))); [discriminate|].
  destruct (by_cons s k) as [[v r]|] eqn:Ebc; [|discriminate].
  pose proof (by_cons_lookup _ _ _ _ Ebc) as Hv.
  destruct (negb (is_active (v_status r))); [inv H; assumption|].
  destruct (lookup k (st_si s)) as [i|]; [|discriminate].
  set (i1 := if negb sg then _ else _) in H.
  destruct (sk_signature_shape cfg s v r (negb sg) (si_misch i1) Hv) as (r1 & E1 & S1 & C1 & _ & D).
  destruct (N v r Hv) as [Nr Ns]. destruct (D Nr Ns) as [Nr1 Ns1].
  rewrite E1 in H. assert (N1 : nonneg (add_validator s v r1)) by (apply nonneg_add; auto).
  destruct (c_maxm cfg <? si_misch i1).
  - inv H. unfold sk_inactivate. cbn [add_validator st_vals]. rewrite lookup_upd_same.
    destruct (status_eqb (v_status r1) SPaused); (eapply nonneg_ext; [reflexivity|]); [exact N1|].
    apply (nonneg_add (add_validator s v r1)); auto; cbn; [now apply inact_rank_nonneg|lia].
  - inv H. eapply nonneg_ext; [reflexivity|exact N1].
Qed.
Lemma nonneg_evid1 : forall cfg s e s', nonneg s -> evid1 cfg s e = Some s' -> nonneg s'.
Proof.
  intros cfg s [[k ih] it] s' N H. unfold evid1 in H.
  destruct (negb (smem k (st_pk s))); [inv H; auto|].
  destruct (evid_too_old cfg s ih it); [inv H; auto|].
  destruct (by_cons s k) as [[v r]|] eqn:Ebc; [|inv H; auto].
  pose proof (by_cons_lookup _ _ _ _ Ebc) as Hv.
  destruct (lookup k (st_si s)); [|discriminate].
  destruct (status_eqb (v_status r) SJailed).
  - destruct (lookup k (st_si s)); inv H. eapply nonneg_ext; [reflexivity|exact N].
  - destruct (lookup k (st_si (sk_jail s v))); inv H.
    apply (nonneg_ext (add_validator s v (with_status r SJailed))); [unfold sk_jail; rewrite Hv; reflexivity|].
    destruct (N v r Hv). apply nonneg_add; auto.
Qed.

Theorem rank_streak_nonneg_step : forall cfg s o, cfg_ok cfg -> nonneg s -> nonneg (fst (step cfg s o)).
Proof.
  intros cfg s o Hc N. destruct o; cbn [step].
  - destruct (negb perm); [assumption|]. destruct (lookup v (st_vals s)); [assumption|]. cbn. eapply nonneg_ext; [reflexivity|exact N].
  - destruct (_ || _); [assumption|]. destruct (lookup v (st_vals s)) as [r|]; [|assumption].
    destruct (is_active (v_status r)); [|assumption]. cbn. now apply nonneg_sk_pause.
  - destruct (lookup v (st_vals s)) as [r|] eqn:E; [|assumption]. destruct (status_eqb _ _); [|assumption]. cbn.
    destruct (N v r E). apply (nonneg_ext (add_validator s v (with_status r SActive))); [reflexivity|]. apply nonneg_add; auto.
  - destruct (lookup v (st_vals s)) as [r|] eqn:E; [|assumption]. destruct (negb _); [assumption|].
    destruct (N v r E).
    assert (N1 : nonneg (sk_reactivate s v r)).
    { apply (nonneg_ext (add_validator s v (with_status r SActive))); [reflexivity|]. apply nonneg_add; auto. }
    destruct (lookup (v_cons r) (st_si (sk_reactivate s v r))) as [i|]; [|exact N1]. destruct (st_time s <? si_until i); [assumption|]. cbn. eapply nonneg_ext; [reflexivity|exact N1].
  - destruct (votes cfg s vs) as [s'|] eqn:E; [|assumption]. cbn. revert s N E.
    induction vs as [|x vs IH]; intros s N E; cbn [votes] in E; [inv E; assumption|].
    destruct (vote1 cfg s x) as [s1|] eqn:E1; [|discriminate]. eapply IH; [eapply nonneg_vote1; eauto|exact E].
  - destruct (evidences cfg s es) as [s'|] eqn:E; [|assumption]. cbn. revert s N E.
    induction es as [|x es IH]; intros s N E; cbn [evidences] in E; [inv E; assumption|].
    destruct (evid1 cfg s x) as [s1|] eqn:E1; [|discriminate]. eapply IH; [eapply nonneg_evid1; eauto|exact E].
  - destruct (lookup v (st_vals s)) as [r|] eqn:E; [|assumption]. destruct (negb _); [assumption|].
    destruct (lookup v (st_jail s)); [|assumption]. destruct (_ <? _); [assumption|]. cbn.
    destruct (N v r E). apply (nonneg_ext (add_validator s v (with_status r SInactive))); [reflexivity|]. apply nonneg_add; auto.
  - cbn. unfold reset_all.
    assert (forall l a, nonneg a -> nonneg (fold_left (fun a (e : Z * vrec) => add_validator a (fst e) (mkV SActive 0 0 (v_cons (snd e)))) l a)) as F.
    { induction l as [|e l IH]; intros a Na; [assumption|]. cbn [fold_left]. apply IH, nonneg_add; auto; cbn; lia. }
    apply F. eapply nonneg_ext; [reflexivity|exact N].
  - cbn. revert s N. induction vs as [|v vs IH]; intros s N; [assumption|]. cbn [fold_left]. apply IH, nonneg_sk_pause, N.
  - cbn. eapply nonneg_ext; [reflexivity|exact N].
  - assert (forall l a, nonneg a -> nonneg (fold_left join_pending l a)) as F.
    { induction l as [|[v k] l IH]; intros a Na; [assumption|]. cbn [fold_left]. apply IH.
      apply (nonneg_ext (add_validator a v (mkV SActive 0 0 k))); [reflexivity|]. apply nonneg_add; auto; cbn; lia. }
    unfold end_block. destruct (end_block_updates s); [|cbn; eapply nonneg_ext; [reflexivity|exact N]].
    destruct (apply_updates _ _); cbn [fst]; (eapply nonneg_ext; [reflexivity|]); apply F, N.
  - destruct (lookup v (st_vals s)) as [r|] eqn:E; [|assumption]. cbn [fst]. intros x rx. cbn [st_vals].
    rewrite lookup_upd. destruct (x =? v'); [intros H; inv H; apply (N v rx E)|]. rewrite lookup_del.
    destruct (x =? v); [discriminate|apply N].
  - eapply nonneg_ext; [|exact N]. unfold genesis_import.
    destruct (genesis_updates s); [reflexivity|]. destruct (apply_updates _ _); reflexivity.
  - exact N.
  - exact N.
Qed.
(* every settings change keeps the settings well-formed (what the gov module's validation guarantees) *)
Fixpoint cfgs_ok (cfg : config) (ops : list op) : Prop :=
  match ops with [] => True | o :: r => cfg_ok cfg /\ cfgs_ok (next_cfg cfg o) r end.
Theorem rank_streak_nonneg : forall ops cfg s, cfgs_ok cfg ops -> nonneg s -> nonneg (run cfg s ops).
Proof.
  induction ops as [|o ops IH]; intros cfg s Hc N; [assumption|].
  destruct Hc as [Hc1 Hc2]. cbn [run]. apply IH; auto. now apply rank_streak_nonneg_step.
Qed.
Lemma s_gen_nonneg : nonneg s_gen /\ cfg_ok cfg0.
Proof.
  split.
  - intros v r. cbn. destruct (v =? 0); intros H; inv H. cbn. lia.
  - unfold cfg_ok, cfg0, PREC. cbn. lia.
Qed.

(* ================================================================ address rotation and genesis import: statements *)
(* inside the alphabet: rotation of a validator that sits in no queue, export + import with somebody active *)
Definition h_rotate_genesis : list op :=
  h_setup ++
  [ONewBlock (5 * NS); OVotes [(0, true); (1, true); (2, true)]; ORotate 1 5; OPause 5; OEndBlock;
   ONewBlock (5 * NS); OVotes [(0, true); (2, true)]; OEvidence [(2, 12, 1012)]; OEndBlock;
   OGenesis [];
   ONewBlock (5 * NS); OVotes [(0, true)]; OUnpause 5; OClaim 1 7 true; OEndBlock].
Lemma h_rotate_genesis_good : goods cfg0 s_gen h_rotate_genesis.
Proof. apply goodsb_sound. vm_compute. reflexivity. Qed.
Lemma h_rotate_genesis_result :
  let s := run cfg0 s_gen h_rotate_genesis in
  Inv s /\ st_cset s = [0; 1; 7] /\ st_halt s = false /\
  map (fun e => (fst e, v_status (snd e), v_cons (snd e))) (st_vals s) = [(0, SActive, 0); (1, SActive, 7); (2, SJailed, 2); (5, SActive, 1)].
Proof.
  split; [apply run_preserves_Inv; [apply s_gen_Inv|apply h_rotate_genesis_good]|]. vm_compute. auto.
Qed.

(* rotation of a validator that sits in the removing (or reactivating) queue: the queue keeps the old
   address, EndBlock cannot find the record, BlockValidatorUpdates panics *)
Lemma rotate_while_queued_refuted : ~ C05_statement_for [OPause 1; ORotate 1 5; OEndBlock].
Proof. refute_with cfg0 s_three s_three_Inv. vm_compute in Hh. discriminate. Qed.
Lemma rotate_while_reactivating_refuted : ~ C05_statement_for [OUnpause 1; ORotate 1 5; OEndBlock].
Proof. refute_with cfg0 s_paused1 s_paused1_Inv. vm_compute in Hh. discriminate. Qed.

(* export + import re-establishes "consensus set = active validators" from any state of the invariant *)
Theorem genesis_import_reestablishes : forall over s, Inv s -> some_active_now s ->
  Inv (fst (genesis_import over s)) /\ snd (genesis_import over s) = ROk /\
  (forall k, In k (st_cset (fst (genesis_import over s))) <-> exists v r, lookup v (st_vals s) = Some r /\ v_status r = SActive /\ v_cons r = k).
Proof. exact Inv_genesis. Qed.
(* with nobody active the SDK module manager panics in InitChain *)
Lemma genesis_import_empty_refuted : ~ C05_statement_for [OEvidence [(0, 10, 1000)]; OGenesis []].
Proof. refute_with cfg0 s_gen s_gen_Inv. vm_compute in Hh. discriminate. Qed.

(* what export + import and rotation LOSE (C15): the jail record is neither exported nor moved, so a
   validator jailed inside the unjail window can no longer be released by an unjail proposal *)
Lemma unjail_lost_by_genesis_and_rotation :
  snd (step cfg0 s_jailed1 (OUnjail 1)) = ROk /\
  snd (step cfg0 (fst (step cfg0 s_jailed1 (OGenesis []))) (OUnjail 1)) = RRej /\
  snd (step cfg0 (fst (step cfg0 s_jailed1 (ORotate 1 5))) (OUnjail 5)) = RRej /\
  status_at (fst (step cfg0 s_jailed1 (ORotate 1 5))) 5 = Some SJailed.
Proof. vm_compute. auto. Qed.

(* ================================================================ the spec checker accepts the model (chk_sound) *)
Lemma dup_keys_nil : forall l, NoDup l -> dup_keys l = [].
Proof.
  induction l as [|x l IH]; intros H; [reflexivity|]. inv H. cbn.
  apply smem_false_In in H2. rewrite H2. auto.
Qed.
Lemma filter_nil : forall A (f : A -> bool) l, (forall x, In x l -> f x = false) -> filter f l = [].
Proof.
  induction l as [|x l IH]; intros H; [reflexivity|]. cbn. rewrite (H x (or_introl eq_refl)). apply IH. intros; apply H; now right.
Qed.
Lemma eb_dels_in_cset : forall s, Inv s -> forall k, In k (dels_of (eb_updates s)) -> In k (st_cset s).
Proof.
  intros s I k Hk. rewrite eb_dels in Hk. apply In_queue_keys in Hk as (v & A & B).
  destruct (inv_rm s I v A) as (r & C & _ & D & _). unfold key_of in B. rewrite C in B. now subst.
Qed.
Lemma eb_powers : forall s u, In u (eb_updates s) -> snd u = 0 \/ snd u = 1.
Proof.
  intros s u Hu. unfold eb_updates in Hu. rewrite !in_app_iff, !in_map_iff in Hu.
  destruct Hu as [(x & E & _)|[(x & E & _)|(x & E & _)]]; subst u; cbn; auto.
Qed.

(* The C05 checker, run on the model's own end block (updates returned, accepted, resulting set with
   power 1) from ANY state of the invariant with somebody left active, reports nothing -- whatever its
   bookkeeping [c].  Together with the correspondence (real observation = model) this is what ties
   "the real trace passes the checker" to the theorems. *)
Theorem c05_chk_sound_end_block : forall c s, Inv s -> some_active (joined s) ->
  let s' := fst (fst (end_block s)) in
  end_block_clauses c s s'
    (mkObs (snd (fst (end_block s))) [] [] [] None None None None None None
           (Some (snd (end_block s), negb (st_halt s'), map (fun k => (k, 1)) (st_cset s')))) = [].
Proof.
  intros c s I Hact.
  destruct (end_block_applicable_and_equal s I Hact) as (c' & E & Happ & Hmem & I').
  rewrite E. cbn [fst snd set_cons st_halt st_cset negb]. unfold end_block_clauses. cbn [o_res o_eb].
  set (vals := st_vals (set_cons (set_queues (set_pend (joined s) []) [] []) c' false)).
  assert (Evals : vals = st_vals (joined s)) by reflexivity.
  assert (Hvs : sorted (map fst vals)) by (rewrite Evals; apply join_sorted, (inv_vals_sorted s I)).
  rewrite (dup_keys_nil _ (eb_keys_NoDup s I)). cbn [map].
  assert (Hneg : existsb (fun u : Z * Z => snd u <? 0) (eb_updates s) = false).
  { apply not_true_is_false. intro H. apply existsb_exists in H as (u & Hu & Hlt). zb. destruct (eb_powers s u Hu); lia. }
  rewrite Hneg.
  assert (Habs : filter (fun u : Z * Z => (snd u =? 0) && negb (smem (fst u) (st_cset s))) (eb_updates s) = []).
  { apply filter_nil. intros u Hu. destruct (snd u =? 0) eqn:E0; [|reflexivity]. zb. cbn.
    rewrite negb_false_iff. apply (proj2 (smem_In _ _)). apply (eb_dels_in_cset s I). unfold dels_of. apply in_map.
    apply (proj2 (filter_In _ _ _)). split; auto. now apply Z.eqb_eq. }
  rewrite Habs. cbn [map app].
  assert (Esetk : map fst (map (fun k : Z => (k, 1)) c') = c') by (rewrite map_map; apply map_id).
  rewrite Esetk.
  assert (Ha : filter (fun e : Z * vrec => negb (smem (v_cons (snd e)) c'))
                 (filter (fun e : Z * vrec => is_active (v_status (snd e))) vals) = []).
  { apply filter_nil. intros [v r] Hin. apply filter_In in Hin as [Hin Hs]. cbn in *.
    rewrite negb_false_iff. apply (proj2 (smem_In _ _)). apply (proj2 (Hmem _)). exists v, r.
    split; [apply In_lookup_sorted; [exact Hvs|exact Hin]|]. split; [now apply is_active_true|reflexivity]. }
  rewrite Ha.
  assert (Hb : filter (fun k : Z => negb (existsb (fun e : Z * vrec => v_cons (snd e) =? k)
                                       (filter (fun e : Z * vrec => is_active (v_status (snd e))) vals))) c' = []).
  { apply filter_nil. intros k Hk. rewrite negb_false_iff. apply (proj2 (existsb_exists _ _)).
    apply Hmem in Hk as (v & r & A & B & C). exists (v, r). split.
    - apply (proj2 (filter_In _ _ _)). split; [exact (lookup_In _ _ _ _ A)|now apply is_active_true].
    - cbn. now apply Z.eqb_eq. }
  rewrite Hb.
  assert (Hp1 : forallb (fun e : Z * Z => snd e =? 1) (map (fun k : Z => (k, 1)) c') = true).
  { apply forallb_forall. intros e He. apply in_map_iff in He as (k & <- & _). reflexivity. }
  assert (Hp2 : forallb (fun u : Z * Z => (snd u =? 0) || (snd u =? 1)) (eb_updates s) = true).
  { apply forallb_forall. intros u Hu. destruct (eb_powers s u Hu) as [->| ->]; reflexivity. }
  rewrite Hp1, Hp2. reflexivity.
Qed.

(* the allowance IN FORCE decides: three misses under MaxMischance 4 leave the validator active; after the
   limit is lowered to 1 by a proposal the very next miss inactivates it (mischance 4 > 1, although it
   never "stepped over" 2) *)
Definition cfg_loose : config := mkCfg 0 4 1 500000000000000000 1 60 600 1000 5.
Lemma lowered_max_mischance_applies_at_next_miss :
  let miss := [ONewBlock (5 * NS); OVotes [(0, true); (1, false); (2, true)]; OEndBlock] in
  let s3 := run cfg_loose s_three (miss ++ miss ++ miss) in
  status_at s3 1 = Some SActive /\
  status_at (run cfg_loose s3 (OSetProp 1 1 true :: miss)) 1 = Some SInactive /\
  status_at (run cfg_loose s3 (OSetProp 1 1 false :: miss)) 1 = Some SActive.
Proof. vm_compute. auto. Qed.
