(* C10 -- how much IncreasePoolRewards credits to the delegators of a pool (the [_partial] bound of
   "the credited total never exceeds the allocation") and the share-holdings invariant it rests on. *)
From Sekai Require Import Base.Prelude Base.Dec Model.Pools Proofs.Pools.
From Coq Require Import ZifyBool.

Fixpoint zsum_map {A} (f : A -> Z) (l : list A) : Z := match l with [] => 0 | x :: r => f x + zsum_map f r end.

Lemma zsum_map_ext : forall {A} (f g : A -> Z) l, (forall x, In x l -> f x = g x) -> zsum_map f l = zsum_map g l.
Proof. induction l as [|x r IH]; intro H; simpl; [reflexivity|]. rewrite H by (left; reflexivity). rewrite IH; [reflexivity|]. intros; apply H; right; assumption. Qed.
Lemma zsum_map_le : forall {A} (f g : A -> Z) l, (forall x, In x l -> f x <= g x) -> zsum_map f l <= zsum_map g l.
Proof. induction l as [|x r IH]; intro H; simpl; [lia|]. pose proof (H x (or_introl eq_refl)). assert (zsum_map f r <= zsum_map g r) by (apply IH; intros; apply H; right; assumption). lia. Qed.
Lemma zsum_map_0 : forall {A} (l : list A), zsum_map (fun _ => 0) l = 0.
Proof. induction l; simpl; lia. Qed.
Lemma zsum_map_plus : forall {A} (f g : A -> Z) l, zsum_map (fun x => f x + g x) l = zsum_map f l + zsum_map g l.
Proof. induction l as [|x r IH]; simpl; [reflexivity|]. rewrite IH. lia. Qed.
Lemma zsum_map_swap : forall {A B} (f : A -> B -> Z) (la : list A) (lb : list B),
  zsum_map (fun a => zsum_map (fun b => f a b) lb) la = zsum_map (fun b => zsum_map (fun a => f a b) la) lb.
Proof.
  induction la as [|a r IH]; intro lb; simpl.
  - rewrite zsum_map_0. reflexivity.
  - rewrite IH. rewrite <- zsum_map_plus. reflexivity.
Qed.
(* selecting one element of a duplicate-free list *)
Lemma zsum_map_pick : forall (g : Z -> Z) l b, NoDup l ->
  zsum_map (fun a => if b =? a then g a else 0) l = if zmem b l then g b else 0.
Proof.
  induction l as [|x r IH]; intros b ND; simpl; [reflexivity|]. inversion ND as [|? ? NI ND']; subst.
  rewrite IH by assumption. destruct (b =? x) eqn:E.
  - assert (b = x) by lia. subst. simpl.
    assert (zmem x r = false).
    { clear - NI. induction r as [|y r IH]; simpl; [reflexivity|]. destruct (x =? y) eqn:E; simpl.
      - exfalso. apply NI. left. lia.
      - apply IH. intro H. apply NI. right. exact H. }
    rewrite H. lia.
  - simpl. lia.
Qed.
Lemma zmem_In : forall x l, zmem x l = true <-> In x l.
Proof.
  induction l as [|y r IH]; simpl; [split; [discriminate|tauto]|].
  rewrite orb_true_iff, IH. split; intros [H|H]; auto; [left; lia|left; lia].
Qed.

(* ---------------------------------------------------------------- the folds of credit_all, pointwise *)
Lemma fold_aadd_inner : forall a (f : Z -> Z) rs (m : amap) b e,
  fold_left (fun m r => aadd m a r (f r)) rs m b e
  = m b e + (if b =? a then zsum_map (fun r => if e =? r then f r else 0) rs else 0).
Proof.
  intros a f. induction rs as [|r rs IH]; intros m b e; simpl.
  - destruct (b =? a); lia.
  - rewrite IH. unfold aadd, aset, cadd. destruct (b =? a) eqn:E; [|lia].
    assert (b = a) by lia. subst. destruct (e =? r); lia.
Qed.
Lemma fold_aadd_outer : forall (f : Z -> Z -> Z) rs l (m : amap) b e,
  fold_left (fun m a => fold_left (fun m r => aadd m a r (f a r)) rs m) l m b e
  = m b e + zsum_map (fun a => if b =? a then zsum_map (fun r => if e =? r then f a r else 0) rs else 0) l.
Proof.
  intros f rs. induction l as [|a l IH]; intros m b e; simpl; [lia|].
  rewrite IH, fold_aadd_inner. lia.
Qed.

(* what one staked denom contributes to the reward record of account b in reward denom e *)
Definition staked_cap (c : cfg) (s : st) (d : Z) : option Z :=
  match tok_of c d with
  | Some (_, _, cap) => if (cap =? 0) || (shares s d =? 0) then None else Some cap
  | None => None end.
Definition contrib (c : cfg) (s : st) (rw : cmap) (d b e : Z) : Z :=
  match staked_cap c s d with
  | None => 0
  | Some cap => zsum_map (fun a => if b =? a then
                   zsum_map (fun r => if e =? r then delegator_cut (denom_alloc rw cap r) (sbal s a d) (shares s d) else 0) (c_dens c)
                 else 0) (dels s)
  end.
Lemma credit_denom_val : forall c s rw d m b e, credit_denom c s rw d m b e = m b e + contrib c s rw d b e.
Proof.
  intros. unfold credit_denom, contrib, staked_cap. destruct (tok_of c d) as [[[en mn] cap]|]; [|lia].
  destruct ((cap =? 0) || (shares s d =? 0)); [lia|]. apply fold_aadd_outer.
Qed.
Lemma credit_all_val : forall c s rw b e,
  credit_all c s rw b e = rew s b e + zsum_map (fun d => contrib c s rw d b e) (c_dens c).
Proof.
  intros c s rw b e. unfold credit_all. generalize (rew s). induction (c_dens c) as [|d ds IH]; intro m; simpl; [lia|].
  rewrite IH, credit_denom_val. lia.
Qed.

(* ---------------------------------------------------------------- floor shares of an amount never add up to more than it *)
Lemma div_sum_le : forall A S (bs : list Z), 0 <= A -> 0 < S -> (forall x, In x bs -> 0 <= x) ->
  zsum_map (fun x => A * x / S) bs <= A * zsum_map (fun x => x) bs / S.
Proof.
  intros A S bs HA HS. induction bs as [|x r IH]; intro NN; simpl.
  - rewrite Z.mul_0_r, Z.div_0_l by lia. lia.
  - assert (0 <= x) by (apply NN; left; reflexivity).
    assert (IH' : zsum_map (fun x => A * x / S) r <= A * zsum_map (fun x => x) r / S) by (apply IH; intros; apply NN; right; assumption).
    assert (0 <= zsum_map (fun x => x) r).
    { clear - NN. induction r as [|y r IH]; simpl; [lia|]. assert (0 <= y) by (apply NN; right; left; reflexivity).
      assert (0 <= zsum_map (fun x => x) r) by (apply IH; intros z [Z|Z]; apply NN; [left; exact Z|right; right; exact Z]). lia. }
    replace (A * (x + zsum_map (fun x => x) r)) with (A * x + A * zsum_map (fun x => x) r) by ring.
    (* x/S + y/S <= (x+y)/S *)
    assert (A * x / S + A * zsum_map (fun x => x) r / S <= (A * x + A * zsum_map (fun x => x) r) / S).
    { apply Z.div_le_lower_bound; [lia|].
      pose proof (Z.mul_div_le (A * x) S HS). pose proof (Z.mul_div_le (A * zsum_map (fun x => x) r) S HS). lia. }
    lia.
Qed.

Lemma chop_round_nonneg : forall y, 0 <= y -> 0 <= chop_round y.
Proof.
  intros y Y. pose proof PREC_pos. unfold chop_round. replace (y <? 0) with false by lia. unfold chop_round_pos.
  assert (0 <= y / PREC) by (apply Z.div_pos; lia).
  repeat match goal with |- context [if ?b then _ else _] => destruct b end; lia.
Qed.
Lemma denom_alloc_nonneg : forall rw cap r, 0 <= rw r -> 0 <= cap -> 0 <= denom_alloc rw cap r.
Proof. intros. unfold denom_alloc. fold (dec_mul_round (rw r) cap). rewrite dec_mul_round_eq. apply chop_round_nonneg. nia. Qed.

(* THE BOUND.  Hypotheses = the bank-ledger facts about the share tokens (proved invariant below: holdings of any
   duplicate-free set of accounts add up to at most the supply = the pool record) and non-negative rewards/caps.
   For every reward denom e the delegators together are credited at most the sum, over the staked denoms, of
   that denom's allocation round(reward_e * StakeCap_d): the only excess over the pool allocation is that
   per-denom banker's rounding (the refuted part). *)
Definition denom_allocation (c : cfg) (s : st) (rw : cmap) (d e : Z) : Z :=
  match staked_cap c s d with Some cap => denom_alloc rw cap e | None => 0 end.
Theorem delegators_credited_le_denom_allocations : forall c s rw e,
  NoDup (dels s) -> NoDup (c_dens c) ->
  (forall a d, 0 <= sbal s a d) ->
  (forall d, zsum_map (fun a => sbal s a d) (dels s) <= shares s d) ->
  (forall r, 0 <= rw r) -> (forall d en mn cap, tok_of c d = Some (en, mn, cap) -> 0 <= cap) ->
  zsum_map (fun b => credit_all c s rw b e - rew s b e) (dels s)
  <= zsum_map (fun d => denom_allocation c s rw d e) (c_dens c).
Proof.
  intros c s rw e ND NDd NN HS RW CAP.
  rewrite (zsum_map_ext _ (fun b => zsum_map (fun d => contrib c s rw d b e) (c_dens c))) by (intros; rewrite credit_all_val; lia).
  rewrite zsum_map_swap. apply zsum_map_le. intros d Dd.
  unfold contrib, denom_allocation. destruct (staked_cap c s d) as [cap|] eqn:SC; [|rewrite zsum_map_0; lia].
  assert (CP : 0 <= cap /\ shares s d <> 0).
  { unfold staked_cap in SC. destruct (tok_of c d) as [[[en mn] cap']|] eqn:T; [|discriminate].
    destruct ((cap' =? 0) || (shares s d =? 0)) eqn:G; [discriminate|]. inversion SC; subst. split; [eapply CAP; eauto|lia]. }
  destruct CP as [CP SH].
  assert (SP : 0 < shares s d).
  { specialize (HS d). assert (0 <= zsum_map (fun a => sbal s a d) (dels s)).
    { clear - NN. induction (dels s); simpl; [lia|]. specialize (NN a d). lia. } lia. }
  set (A := denom_alloc rw cap e). assert (HA : 0 <= A) by (apply denom_alloc_nonneg; auto).
  (* each delegator b of the duplicate-free list picks exactly its own term *)
  rewrite (zsum_map_ext _ (fun b => if zmem e (c_dens c) then A * sbal s b d / shares s d else 0)).
  2:{ intros b Bd. rewrite zsum_map_pick by assumption. apply zmem_In in Bd. rewrite Bd.
      rewrite zsum_map_pick by assumption. destruct (zmem e (c_dens c)); [|reflexivity].
      unfold delegator_cut. apply Z.quot_div_nonneg; [specialize (NN b d); nia|lia]. }
  destruct (zmem e (c_dens c)); [|rewrite zsum_map_0; lia].
  assert (K : zsum_map (fun b => A * sbal s b d / shares s d) (dels s)
              <= A * zsum_map (fun a => sbal s a d) (dels s) / shares s d).
  { pose proof (div_sum_le A (shares s d) (map (fun a => sbal s a d) (dels s)) HA SP) as K.
    assert (M1 : forall (g : Z -> Z) l, zsum_map g (map (fun a => sbal s a d) l) = zsum_map (fun a => g (sbal s a d)) l)
      by (intros g l; induction l; simpl; [reflexivity|]; rewrite IHl; reflexivity).
    rewrite !M1 in K. apply K. intros x X. apply in_map_iff in X. destruct X as (a & <- & _). apply NN. }
  assert (A * zsum_map (fun a => sbal s a d) (dels s) / shares s d <= A).
  { apply Z.div_le_upper_bound; [lia|]. specialize (HS d). nia. }
  lia.
Qed.
