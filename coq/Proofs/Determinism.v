(* C01 -- proofs over Model/Determinism.v and Model/C01Check.v. *)
From Coq Require Import ZifyBool Permutation.
From Sekai Require Import Base.Prelude Gen.NondetSites Model.Determinism Model.C01Check.

(* ================================================================ 1. noninterference *)

Lemma clean_flags c : clean c = true ->
  poll_create_wall c = false /\ poll_vote_wall c = false /\ poll_end_wall c = false /\
  custody_wall c = false /\ custody_unsorted c = false.
Proof. destruct c as [[] [] [] [] []]; cbn; intro H; try discriminate H; repeat split. Qed.

Lemma poll_dirty_flags c : poll_dirty c = false ->
  poll_create_wall c = false /\ poll_vote_wall c = false /\ poll_end_wall c = false.
Proof. destruct c as [[] [] [] ? ?]; cbn; intro H; try discriminate H; repeat split. Qed.

(* a transaction that is environment-free under c is executed identically in any two environments *)
Lemma deliver_envfree c e1 e2 k bt s t :
  tx_envfree c t = true -> deliver c e1 k bt s t = deliver c e2 k bt s t.
Proof.
  intro H. destruct t; cbn [tx_envfree] in H.
  - reflexivity.
  - apply negb_true_iff in H. destruct (poll_dirty_flags c H) as (Hc & _ & _).
    unfold deliver, poll_end_of, now. rewrite Hc. reflexivity.
  - apply negb_true_iff in H. destruct (poll_dirty_flags c H) as (_ & Hv & _).
    unfold deliver, vote_accepts, now. rewrite Hv. reflexivity.
  - apply negb_true_iff in H. unfold deliver, wl_encode. rewrite H. reflexivity.
  - apply negb_true_iff in H. unfold deliver, limit_new, now. rewrite H. reflexivity.
Qed.

Lemma deliver_all_envfree c e1 e2 bt ts : forallb (tx_envfree c) ts = true ->
  forall k s, deliver_all c e1 k bt s ts = deliver_all c e2 k bt s ts.
Proof.
  induction ts as [|t r IH]; intros H k s; [reflexivity|].
  cbn [forallb] in H. apply andb_true_iff in H. destruct H as [Ht Hr].
  cbn [deliver_all]. rewrite (deliver_envfree c e1 e2 k bt s t Ht).
  destruct (deliver c e2 k bt s t) as [s1 x]. rewrite (IH Hr (S k) s1). reflexivity.
Qed.

Lemma end_block_indep c e1 e2 k bt s : quiescent c s = true -> end_block c e1 k bt s = end_block c e2 k bt s.
Proof.
  unfold quiescent. intro H. apply orb_true_iff in H. destruct H as [H|H].
  - apply negb_true_iff in H. unfold end_block, poll_due, now. rewrite H. reflexivity.
  - unfold end_block. destruct (active s); [reflexivity|discriminate H].
Qed.

(* environment-free transactions of a configuration whose end blocker reads the clock open no poll *)
Lemma deliver_keeps_quiescent c e k bt s t :
  tx_envfree c t = true -> quiescent c s = true -> quiescent c (fst (deliver c e k bt s t)) = true.
Proof.
  unfold quiescent. intros Ht Hq. destruct (poll_end_wall c) eqn:Hw; [|reflexivity].
  cbn [negb orb] in *.
  assert (Hd : poll_dirty c = true) by (unfold poll_dirty; rewrite Hw; destruct (poll_create_wall c), (poll_vote_wall c); reflexivity).
  destruct t; cbn [tx_envfree] in Ht; try (rewrite Hd in Ht; discriminate Ht); unfold deliver.
  - destruct (_ && _ && _); exact Hq.
  - exact Hq.
  - cbn [bump_seq limit_status]. destruct (zget owner (limit_status s)); [|exact Hq].
    destruct (_ =? 0); exact Hq.
Qed.

Lemma deliver_all_keeps_quiescent c e bt ts : forallb (tx_envfree c) ts = true ->
  forall k s, quiescent c s = true -> quiescent c (fst (deliver_all c e k bt s ts)) = true.
Proof.
  induction ts as [|t r IH]; intros H k s Hq; [exact Hq|].
  cbn [forallb] in H. apply andb_true_iff in H. destruct H as [Ht Hr].
  cbn [deliver_all]. pose proof (deliver_keeps_quiescent c e k bt s t Ht Hq) as H1.
  destruct (deliver c e k bt s t) as [s1 x]. cbn [fst] in H1.
  pose proof (IH Hr (S k) s1 H1) as H2. destruct (deliver_all c e (S k) bt s1 r) as [s2 xs]. exact H2.
Qed.

Lemma end_block_keeps_quiescent c e k bt s : quiescent c s = true -> quiescent c (end_block c e k bt s) = true.
Proof.
  unfold quiescent. intro H. apply orb_true_iff in H. destruct H as [H|H]; [rewrite H; reflexivity|].
  apply orb_true_iff. right. unfold end_block. cbn [active]. destruct (active s); [reflexivity|discriminate H].
Qed.

Lemma run_block_envfree c e1 e2 k s b :
  forallb (tx_envfree c) (b_txs b) = true -> quiescent c s = true ->
  run_block c e1 k s b = run_block c e2 k s b /\ quiescent c (fst (run_block c e2 k s b)) = true.
Proof.
  intros Hf Hq. unfold run_block. rewrite (deliver_all_envfree c e1 e2 (b_time b) (b_txs b) Hf k s).
  pose proof (deliver_all_keeps_quiescent c e2 (b_time b) (b_txs b) Hf k s Hq) as H1.
  destruct (deliver_all c e2 k (b_time b) s (b_txs b)) as [s1 rs]. cbn [fst] in H1.
  rewrite (end_block_indep c e1 e2 _ (b_time b) s1 H1). split; [reflexivity|].
  cbn [fst]. apply end_block_keeps_quiescent. exact H1.
Qed.

(* PARTIAL statement that holds for EVERY configuration (in particular for the code as it is):
   histories made of environment-free transactions, started where no poll is open, are executed
   identically by all replicas. *)
Theorem run_deterministic_partial : forall c e1 e2 g bs,
  history_envfree c bs = true -> quiescent c g = true -> run c e1 g bs = run c e2 g bs.
Proof.
  intros c e1 e2 g bs. unfold run. generalize 0%nat as k. revert g.
  induction bs as [|b r IH]; intros s k Hf Hq; [reflexivity|].
  unfold history_envfree in Hf. cbn [forallb] in Hf. apply andb_true_iff in Hf. destruct Hf as [Hb Hr].
  cbn [run_from]. destruct (run_block_envfree c e1 e2 k s b Hb Hq) as [Heq Hq'].
  rewrite Heq. destruct (run_block c e2 k s b) as [s1 o]. cbn [fst] in Hq'.
  f_equal. apply IH; assumption.
Qed.

Lemma clean_all_envfree c : clean c = true -> forall t, tx_envfree c t = true.
Proof.
  intros H t. destruct (clean_flags c H) as (H1 & H2 & H3 & H4 & H5).
  destruct t; cbn [tx_envfree]; unfold poll_dirty; rewrite ?H1, ?H2, ?H3, ?H4, ?H5; reflexivity.
Qed.

(* FULL statement for a configuration without environment-consulting sites: every history, every
   genesis, any two environments. *)
Theorem run_deterministic : forall c, clean c = true ->
  forall e1 e2 g bs, run c e1 g bs = run c e2 g bs.
Proof.
  intros c H e1 e2 g bs. apply run_deterministic_partial.
  - unfold history_envfree. apply forallb_forall. intros b _. apply forallb_forall. intros t _.
    apply clean_all_envfree. exact H.
  - unfold quiescent. destruct (clean_flags c H) as (_ & _ & H3 & _). rewrite H3. reflexivity.
Qed.

(* ---------------------------------------------------------------- wall-clock independence
   With no wall-clock site live, a run depends on the environment through the map iteration
   orders only -- for ALL histories, custody map writes included. *)
Lemma wall_free_flags c : wall_free c = true ->
  poll_create_wall c = false /\ poll_vote_wall c = false /\ poll_end_wall c = false /\ custody_wall c = false.
Proof. destruct c as [[] [] [] [] ?]; cbn; intro H; try discriminate H; repeat split. Qed.

Section WallFree.
Variables (c : cfg) (e1 e2 : env).
Hypothesis Hc : wall_free c = true.
Hypothesis Hmo : forall k l, map_order e1 k l = map_order e2 k l.

Lemma deliver_wall_free k bt s t : deliver c e1 k bt s t = deliver c e2 k bt s t.
Proof.
  destruct (wall_free_flags c Hc) as (H1 & H2 & H3 & H4).
  destruct t; unfold deliver, poll_end_of, vote_accepts, limit_new, wl_encode, now; rewrite ?H1, ?H2, ?H4, ?Hmo; reflexivity.
Qed.

Lemma deliver_all_wall_free bt ts : forall k s, deliver_all c e1 k bt s ts = deliver_all c e2 k bt s ts.
Proof.
  induction ts as [|t r IH]; intros k s; [reflexivity|].
  cbn [deliver_all]. rewrite deliver_wall_free. destruct (deliver c e2 k bt s t) as [s1 x]. rewrite IH. reflexivity.
Qed.

Lemma end_block_wall_free k bt s : end_block c e1 k bt s = end_block c e2 k bt s.
Proof. destruct (wall_free_flags c Hc) as (_ & _ & H3 & _). unfold end_block, poll_due, now. rewrite H3. reflexivity. Qed.

Lemma run_from_wall_free bs : forall k s, run_from c e1 k s bs = run_from c e2 k s bs.
Proof.
  induction bs as [|b r IH]; intros k s; [reflexivity|].
  cbn [run_from]. unfold run_block. rewrite deliver_all_wall_free.
  destruct (deliver_all c e2 k (b_time b) s (b_txs b)) as [s1 rs]. rewrite end_block_wall_free. rewrite IH. reflexivity.
Qed.
End WallFree.

Theorem run_wall_clock_independent : forall c, wall_free c = true ->
  forall e1 e2 g bs, (forall k l, map_order e1 k l = map_order e2 k l) -> run c e1 g bs = run c e2 g bs.
Proof. intros c Hc e1 e2 g bs Hmo. unfold run. apply run_from_wall_free; assumption. Qed.

(* ================================================================ 2. the code as it is: refuted *)

Definition g0 : st := mkSt [(1, 1000); (2, 1000)] [] 1 [] [] [] [(1, 5)].
Definition env_a : env := mkEnv (fun _ => 1000 * nsec) (fun _ l => l).
Definition env_b : env := mkEnv (fun _ => 2000 * nsec) (fun _ l => rev l).
Definition bt0 : Z := 1500 * nsec.

(* PollCreate stores time.Now() + duration: one block, one message, two stored end times *)
Lemma polls_depend_on_wall_clock_refuted :
  exists e1 e2 g bs, run wall_cfg e1 g bs <> run wall_cfg e2 g bs.
Proof. exists env_a, env_b, g0, [mkBlock bt0 [TPollCreate 1 100]]. vm_compute. discriminate. Qed.

(* ... the same stored poll (end = block time + 100ns, as the repaired PollCreate would store it) is
   accepted for voting by one replica and refused by the other *)
Lemma poll_vote_wall_clock_refuted :
  exists e1 e2 g bs, map fst (run (mkCfg false true false false false) e1 g bs)
                     <> map fst (run (mkCfg false true false false false) e2 g bs).
Proof. exists env_a, env_b, g0, [mkBlock bt0 [TPollCreate 1 100; TPollVote 2 1 1]]. vm_compute. discriminate. Qed.

(* ... and closed by the end blocker of one replica only *)
Lemma poll_end_blocker_wall_clock_refuted :
  exists e1 e2 g bs, run (mkCfg false false true false false) e1 g bs <> run (mkCfg false false true false false) e2 g bs.
Proof. exists env_a, env_b, g0, [mkBlock bt0 [TPollCreate 1 100]]. vm_compute. discriminate. Qed.

(* CustodyDecorator: the spent amount recorded for a limited send depends on time.Now() *)
Lemma custody_limits_wall_clock_refuted :
  exists e1 e2 g bs, run wall_cfg e1 g bs <> run wall_cfg e2 g bs.
Proof. exists env_a, env_b, g0, [mkBlock bt0 [TLimitedSend 1 10 1]]. vm_compute. discriminate. Qed.

(* custody.pb.go: two replicas visiting the map in different orders store different bytes, although
   the two environments agree on the clock *)
Lemma custody_map_encoding_refuted :
  exists e1 e2 g bs, wall_clock e1 = wall_clock e2 /\ run wall_cfg e1 g bs <> run wall_cfg e2 g bs.
Proof.
  exists (mkEnv (fun _ => 0) (fun _ l => l)), (mkEnv (fun _ => 0) (fun _ l => rev l)), g0,
    [mkBlock bt0 [TWhitelistAdd 1 [1%nat; 2%nat]]].
  split; [reflexivity|]. vm_compute. discriminate.
Qed.

(* the same on the tree after c7688a1 (no wall-clock site left): the map encodings alone break it *)
Lemma custody_map_encoding_after_fix_refuted :
  exists e1 e2 g bs, wall_clock e1 = wall_clock e2 /\ run marshal_cfg e1 g bs <> run marshal_cfg e2 g bs.
Proof.
  exists (mkEnv (fun _ => 0) (fun _ l => l)), (mkEnv (fun _ => 0) (fun _ l => rev l)), g0,
    [mkBlock bt0 [TWhitelistAdd 1 [1%nat; 2%nat]]].
  split; [reflexivity|]. vm_compute. discriminate.
Qed.

(* ================================================================ 3. characterisation *)
Definition wit_blocks : list block :=
  [mkBlock bt0 [TPollCreate 1 100; TWhitelistAdd 1 [1%nat; 2%nat]; TLimitedSend 1 10 1; TPollVote 2 1 1]].

Lemma dirty_diverges : forall c, clean c = false -> run c env_a g0 wit_blocks <> run c env_b g0 wit_blocks.
Proof.
  intros [[] [] [] [] []] H; try discriminate H; vm_compute; discriminate.
Qed.

(* the model is deterministic for all histories exactly when no environment-consulting site is live *)
Theorem deterministic_iff_clean : forall c,
  (forall e1 e2 g bs, run c e1 g bs = run c e2 g bs) <-> clean c = true.
Proof.
  intro c. split.
  - intro H. destruct (clean c) eqn:Hc; [reflexivity|].
    exfalso. exact (dirty_diverges c Hc (H env_a env_b g0 wit_blocks)).
  - intros H e1 e2 g bs. apply run_deterministic. exact H.
Qed.

(* ================================================================ 4. ProcessResult ranges a map: harmless *)
Lemma existsb_perm {A} (f : A -> bool) l l' : Permutation l l' -> existsb f l = existsb f l'.
Proof.
  intro P. destruct (existsb f l) eqn:E.
  - symmetry. apply existsb_exists. apply existsb_exists in E. destruct E as (x & Hin & Hx).
    exists x. split; [eapply Permutation_in; eassumption|exact Hx].
  - symmetry. destruct (existsb f l') eqn:E'; [|reflexivity].
    apply existsb_exists in E'. destruct E' as (x & Hin & Hx).
    assert (existsb f l = true) by (apply existsb_exists; exists x; split; [eapply Permutation_in; [apply Permutation_sym; eassumption|exact Hin]|exact Hx]).
    congruence.
Qed.

Definition hl_inv (acc : Z * list Z) : Prop := 0 < fst acc /\ (2 <= List.length (snd acc))%nat.

Lemma highest_step_inv acc x : 0 < snd x -> (acc = (0, []) \/ hl_inv acc) -> hl_inv (highest_step acc x).
Proof.
  intros Hx [->|[Hhi Hlen]]; unfold highest_step, hl_inv.
  - cbn [fst snd]. assert (E : (0 <? snd x) = true) by lia. rewrite E. rewrite Z.eqb_refl. cbn. split; lia.
  - destruct acc as [hi lst]. cbn [fst snd] in *.
    destruct (hi <? snd x) eqn:E.
    + rewrite Z.eqb_refl. cbn. split; lia.
    + destruct (snd x =? hi); cbn [fst snd]; rewrite ?app_length; cbn; split; lia.
Qed.

Lemma highest_fold_inv l : forall acc, (forall x, In x l -> 0 < snd x) -> hl_inv acc -> hl_inv (fold_left highest_step l acc).
Proof.
  induction l as [|x r IH]; intros acc Hpos Hinv; [exact Hinv|].
  cbn [fold_left]. apply IH.
  - intros y Hy. apply Hpos. right. exact Hy.
  - apply highest_step_inv; [apply Hpos; left; reflexivity|right; exact Hinv].
Qed.

(* whatever the visiting order: the "highest" list has at least two entries as soon as one option
   has a vote (the strictly-greater branch falls through into the equal branch) *)
Lemma highest_list_len l : (forall x, In x l -> 0 < snd x) ->
  Nat.leb 2 (List.length (highest_list l)) = negb (match l with [] => true | _ => false end).
Proof.
  intro Hpos. destruct l as [|x r]; [reflexivity|].
  unfold highest_list. cbn [fold_left negb].
  assert (H : hl_inv (fold_left highest_step r (highest_step (0, []) x))).
  { apply highest_fold_inv.
    - intros y Hy. apply Hpos. right. exact Hy.
    - apply highest_step_inv; [apply Hpos; left; reflexivity|left; reflexivity]. }
  destruct H as [_ H]. apply Nat.leb_le. exact H.
Qed.

Theorem tally_result_order_independent : forall P rest l l',
  Permutation l l' -> (forall x, In x l -> 0 < snd x) -> tally_result P rest l = tally_result P rest l'.
Proof.
  intros P rest l l' Hp Hpos. unfold tally_result.
  rewrite (existsb_perm (fun x => P (snd x)) l l' Hp).
  rewrite (highest_list_len l Hpos).
  rewrite (highest_list_len l').
  - destruct l as [|x r], l' as [|y s]; try reflexivity.
    + apply Permutation_nil in Hp. discriminate Hp.
    + apply Permutation_sym, Permutation_nil in Hp. discriminate Hp.
  - intros x Hx. apply Hpos. eapply Permutation_in; [apply Permutation_sym; exact Hp|exact Hx].
Qed.

(* ================================================================ 5. the spec checker accepts every model run *)
Section ChkSound.
Variable D : Type.
Variable deqb : D -> D -> bool.
Hypothesis deqb_refl : forall x, deqb x x = true.

Lemma all_eq_const {A} (x : D) (l : list A) : all_eq D deqb (map (fun _ => x) l) = true.
Proof.
  destruct l as [|a r]; [reflexivity|]. cbn [map all_eq].
  apply forallb_forall. intros y Hy. apply in_map_iff in Hy. destruct Hy as (_ & <- & _). apply deqb_refl.
Qed.
End ChkSound.

(* observations of k model replicas, block by block; the digest of a block is its whole observation *)
Inductive mdig : Type := DState (s : st) | DRes (r : tx_res) | DNone.

Definition obs_block (dflt : obs) (i : nat) (rs : list (list obs)) : block_obs mdig :=
  let ntx := match rs with r :: _ => List.length (fst (nth i r dflt)) | [] => O end in
  mkB (map (fun r => DState (snd (nth i r dflt))) rs)
      (map (fun j => ("tx"%string, map (fun r => DRes (nth j (fst (nth i r dflt)) RRejected)) rs, map (fun _ => DNone) rs)) (seq 0 ntx))
      (map (fun _ => DNone) rs)
      [("model/state"%string, map (fun r => DState (snd (nth i r dflt))) rs)].
Definition model_obs (dflt : obs) (nblocks : nat) (rs : list (list obs)) : list (block_obs mdig) :=
  map (fun i => obs_block dflt i rs) (seq 0 nblocks).

Section ModelSound.
Variable deqb : mdig -> mdig -> bool.
Hypothesis deqb_refl : forall x, deqb x x = true.

Lemma const_block_clauses dflt i (R : list obs) (envs : list env) : (2 <= List.length envs)%nat ->
  block_clauses mdig deqb (obs_block dflt i (map (fun _ => R) envs)) = [].
Proof.
  intro Hk. unfold obs_block, block_clauses. cbn [bo_hash bo_txs bo_upd bo_stores].
  rewrite !map_map. rewrite !map_length.
  assert (E : Nat.ltb (List.length envs) 2 = false) by (apply Nat.ltb_ge; exact Hk). rewrite E.
  rewrite (all_eq_const mdig deqb deqb_refl (DState (snd (nth i R dflt))) envs).
  rewrite (all_eq_const mdig deqb deqb_refl DNone envs).
  cbn [flat_map snd fst app].
  rewrite (all_eq_const mdig deqb deqb_refl (DState (snd (nth i R dflt))) envs). cbn [app].
  rewrite app_nil_r.
  match goal with |- flat_map _ (map ?f (seq 0 ?n)) = [] => generalize (seq 0 n) end.
  intro l. induction l as [|j r IH]; [reflexivity|].
  cbn [map flat_map]. rewrite IH, app_nil_r. unfold tx_clauses. rewrite !map_map.
  rewrite (all_eq_const mdig deqb deqb_refl (DRes (nth j (fst (nth i R dflt)) RRejected)) envs).
  rewrite (all_eq_const mdig deqb deqb_refl DNone envs). reflexivity.
Qed.

(* replicas of a clean configuration, each in an environment of its own, pass the spec checker *)
Theorem c01_chk_sound : forall c envs g bs dflt, clean c = true -> (2 <= List.length envs)%nat ->
  history_clauses mdig deqb (model_obs dflt (List.length bs) (map (fun e => run c e g bs) envs)) = [].
Proof.
  intros c envs g bs dflt Hc Hk.
  assert (E : map (fun e => run c e g bs) envs = map (fun _ => run c (mkEnv (fun _ => 0) (fun _ l => l)) g bs) envs).
  { apply map_ext. intro e. apply run_deterministic. exact Hc. }
  rewrite E. unfold history_clauses, model_obs. rewrite map_map.
  generalize (seq 0 (List.length bs)). intro l. induction l as [|i r IH]; [reflexivity|].
  cbn [map first_clauses]. rewrite (const_block_clauses dflt i _ envs Hk). exact IH.
Qed.

(* and the checker is not vacuous: on the code as it is it flags the model replicas of the witness *)
End ModelSound.

(* ================================================================ 6. non-vacuity *)
Example clean_run_nontrivial :
  exists o1 o2, run fixed_cfg env_a g0 (wit_blocks ++ [mkBlock (bt0 + 200) [TSend 1 2 10]]) = [o1; o2]
     /\ run fixed_cfg env_b g0 (wit_blocks ++ [mkBlock (bt0 + 200) [TSend 1 2 10]]) = [o1; o2]
     /\ fst o1 = [ROk 1; ROk 0; ROk 0; ROk 0] /\ fst o2 = [ROk 0]
     /\ map p_result (polls (snd o1)) = [0] /\ map p_result (polls (snd o2)) = [2].
Proof. eexists. eexists. vm_compute. repeat split. Qed.

Example partial_hypotheses_satisfiable :
  history_envfree wall_cfg [mkBlock bt0 [TSend 1 2 10; TSend 2 1 3]] = true /\ quiescent wall_cfg g0 = true
  /\ map fst (run wall_cfg env_a g0 [mkBlock bt0 [TSend 1 2 10; TSend 2 1 3]]) = [[ROk 0; ROk 0]].
Proof. vm_compute. repeat split. Qed.
