(* Lemmas about the proposal lifecycle model (Model/Gov.v). *)
From Sekai Require Import Base.Prelude Base.Dec Model.Gov.
From Coq Require Import ZifyBool.

(* ---------------------------------------------------------------- the decision rule *)
Lemma decide_q_passed_iff : forall t, 0 <= t_yes t <= t_total t ->
  decide_q t = Passed <->
  (2 * t_yes t > t_total t /\ (t_vcap t = 0 \/ 2 * t_veto t < t_vcap t)).
Proof.
  intros t Hwf. unfold decide_q.
  destruct (Z.eqb_spec (t_vcap t) 0) as [E0|E0]; destruct (Z.leb_spec (t_vcap t) (2 * t_veto t)) as [E1|E1];
  destruct (Z.eqb_spec (t_total t) 0) as [E2|E2]; destruct (Z.ltb_spec (t_total t) (2 * t_yes t)) as [E3|E3];
  destruct (Z.leb_spec (t_total t) (2 * (t_no t + t_abstain t + t_veto t))) as [E4|E4]; cbn [negb andb];
  (split; [intros H; try discriminate; lia | intros H; try reflexivity; exfalso; lia]).
Qed.

Lemma filter_length_le : forall {X} (f : X -> bool) l, (List.length (filter f l) <= List.length l)%nat.
Proof. induction l as [|x l IH]; cbn; [lia|]. destruct (f x); cbn; lia. Qed.

Lemma tally_of_wf : forall vs vcap, 0 <= t_yes (tally_of vs vcap) <= t_total (tally_of vs vcap).
Proof.
  intros. unfold tally_of, count_opt. cbn [t_yes t_total].
  pose proof (filter_length_le (fun v : Z * Z => snd v =? 1) vs). lia.
Qed.

(* ---------------------------------------------------------------- quorum: exact on sdk.Dec *)
Lemma PREC_pos : 0 < PREC. Proof. unfold PREC. lia. Qed.

Lemma chop_round_mul : forall m, chop_round (m * PREC) = m.
Proof.
  intros m. pose proof PREC_pos as HP. unfold chop_round.
  assert (Hpos : forall k, 0 <= k -> chop_round_pos (k * PREC) = k).
  { intros k Hk. unfold chop_round_pos. rewrite Z.div_mul, Z.mod_mul by lia. reflexivity. }
  destruct (Z.ltb_spec (m * PREC) 0) as [Hn|Hn].
  - replace (- (m * PREC)) with ((- m) * PREC) by lia. rewrite Hpos by nia. lia.
  - apply Hpos. nia.
Qed.

Lemma is_quorum_exact : forall q v n b, is_quorum q v n = Ok b ->
  v <= n /\ q <= PREC /\ b = (n * q <=? v * PREC).
Proof.
  intros q v n b H. unfold is_quorum in H.
  destruct (Z.ltb_spec n v) as [H1|H1]; [discriminate|].
  destruct (Z.ltb_spec PREC q) as [H2|H2]; [discriminate|].
  unfold dmul, dec_of_int in H.
  replace (n * PREC * q) with ((n * q) * PREC) in H by lia.
  rewrite chop_round_mul in H.
  destruct (dec_in_range (n * q)); cbn in H; [|discriminate].
  inversion H. repeat split; auto.
Qed.

Lemma quorum_checked_true : forall f q v n, quorum_checked f q v n = Ok true -> is_quorum q v n = Ok true.
Proof.
  intros f q v n H. unfold quorum_checked in H. destruct (is_quorum q v n) as [b|e|m]; [exact H| |discriminate].
  destruct f; discriminate.
Qed.

Lemma quorum_checked_err : forall q v n e, is_quorum q v n = Err e -> quorum_checked false q v n = Ok false.
Proof. intros q v n e H. unfold quorum_checked. rewrite H. reflexivity. Qed.

(* ---------------------------------------------------------------- queues *)
Lemma key_eqb_eq : forall a b, key_eqb a b = true <-> a = b.
Proof.
  intros [a1 a2] [b1 b2]. unfold key_eqb. cbn [fst snd]. split.
  - intros H. apply andb_true_iff in H. destruct H as [H1 H2].
    apply Z.eqb_eq in H1. apply Z.eqb_eq in H2. congruence.
  - intros H. inversion H. subst. rewrite !Z.eqb_refl. reflexivity.
Qed.

Lemma In_q_insert : forall k k0 q, In k (q_insert k0 q) <-> k = k0 \/ In k q.
Proof.
  intros k k0 q. induction q as [|x r IH]; cbn [q_insert].
  - cbn. intuition.
  - destruct (key_eqb k0 x) eqn:E.
    + apply key_eqb_eq in E. subst x. cbn. intuition.
    + destruct (key_ltb k0 x); cbn [In]; [intuition|]. rewrite IH. intuition.
Qed.

Lemma In_q_remove : forall k k0 q, In k (q_remove k0 q) <-> In k q /\ k <> k0.
Proof.
  intros k k0 q. unfold q_remove. rewrite filter_In. split; intros [H1 H2]; split; auto.
  - intros ->. rewrite (proj2 (key_eqb_eq k0 k0) eq_refl) in H2. discriminate.
  - destruct (key_eqb k0 k) eqn:E; [|reflexivity]. apply key_eqb_eq in E. congruence.
Qed.

Lemma NoDup_map_filter : forall {X Y} (g : X -> Y) (f : X -> bool) l,
  NoDup (map g l) -> NoDup (map g (filter f l)).
Proof.
  induction l as [|x l IH]; cbn; intros H; [constructor|].
  inversion H as [|? ? Hn Hd]; subst. destruct (f x); cbn; auto.
  constructor; auto. intros Hin. apply Hn. apply in_map_iff in Hin. destruct Hin as [y [Hy Hin]].
  apply filter_In in Hin. apply in_map_iff. exists y. tauto.
Qed.

Lemma In_ids_q_insert : forall j k0 q, In j (map snd (q_insert k0 q)) <-> j = snd k0 \/ In j (map snd q).
Proof.
  intros. rewrite !in_map_iff. split.
  - intros [k [Hk Hin]]. apply In_q_insert in Hin. destruct Hin as [->|Hin]; [left; auto|right; exists k; auto].
  - intros [->|[k [Hk Hin]]]; [exists k0|exists k]; split; auto; apply In_q_insert; auto.
Qed.

Lemma NoDup_ids_q_insert : forall k0 q, NoDup (map snd q) -> ~ In (snd k0) (map snd q) ->
  NoDup (map snd (q_insert k0 q)).
Proof.
  intros k0 q. induction q as [|x r IH]; cbn [q_insert]; intros Hd Hn.
  - cbn. constructor; [intros []|constructor].
  - destruct (key_eqb k0 x); [exact Hd|]. destruct (key_ltb k0 x).
    + cbn [map]. constructor; auto.
    + cbn [map] in *. inversion Hd as [|? ? Hx Hr]; subst. constructor.
      * rewrite In_ids_q_insert. intros [E|E]; [apply Hn; left; auto|contradiction].
      * apply IH; auto. intros E. apply Hn. right. exact E.
Qed.

Lemma q_due_In : forall t q id, In id (q_due t q) <-> exists t0, In (t0, id) q /\ t0 <= t.
Proof.
  intros. unfold q_due. rewrite in_map_iff. split.
  - intros [[t0 i] [E Hin]]. cbn in E. subst i. apply filter_In in Hin. cbn in Hin.
    exists t0. split; [tauto|lia].
  - intros [t0 [Hin Hle]]. exists (t0, id). split; auto. apply filter_In. cbn. split; auto. lia.
Qed.

Lemma q_due_NoDup : forall t q, NoDup (map snd q) -> NoDup (q_due t q).
Proof. intros. unfold q_due. apply NoDup_map_filter. assumption. Qed.

(* ---------------------------------------------------------------- votes *)
Lemma get_vote_set_same : forall who opt vs, get_vote who (set_vote who opt vs) = Some opt.
Proof. intros. unfold get_vote, set_vote. cbn. rewrite Z.eqb_refl. reflexivity. Qed.

Lemma find_filter_neq : forall who w (vs : list (Z * Z)), w <> who ->
  find (fun v => fst v =? w) (filter (fun v => negb (fst v =? who)) vs) = find (fun v => fst v =? w) vs.
Proof.
  intros who w vs Hne. induction vs as [|[k o] r IH]; cbn; [reflexivity|].
  destruct (Z.eqb_spec k who) as [->|Hk]; cbn.
  - destruct (Z.eqb_spec who w); [congruence|]. exact IH.
  - destruct (Z.eqb_spec k w); [reflexivity|exact IH].
Qed.

Lemma get_vote_set_other : forall who opt w vs, w <> who -> get_vote w (set_vote who opt vs) = get_vote w vs.
Proof.
  intros. unfold get_vote, set_vote. cbn [find fst]. destruct (Z.eqb_spec who w); [congruence|].
  rewrite find_filter_neq by assumption. reflexivity.
Qed.

Lemma set_vote_one_entry : forall who opt vs,
  filter (fun v => fst v =? who) (set_vote who opt vs) = [(who, opt)].
Proof.
  intros. unfold set_vote. cbn [filter fst]. rewrite Z.eqb_refl. f_equal.
  induction vs as [|[k o] r IH]; cbn; [reflexivity|].
  destruct (Z.eqb_spec k who); cbn; [exact IH|]. destruct (Z.eqb_spec k who); [contradiction|exact IH].
Qed.

(* ================================================================ histories *)
Section Histories.
Variables (A content ext : Type).
Variable P : params A content ext.
Notation St := (state A content).
Notation Ev := (event A content).
Notation Pr := (proposal content).

(* ---- reading the ghost log (newest first) *)
Fixpoint submit_of (id : Z) (l : list Ev) : option Pr :=
  match l with
  | [] => None
  | EvSubmit i p _ :: r => if i =? id then Some p else submit_of id r
  | _ :: r => submit_of id r
  end.
Definition fin_rec : Type := vresult * tally * Z * Z * Z * ctx * A.
Fixpoint final_of (id : Z) (l : list Ev) : option fin_rec :=
  match l with
  | [] => None
  | EvFinal i res tl nv q mine c a :: r => if i =? id then Some (res, tl, nv, q, mine, c, a) else final_of id r
  | _ :: r => final_of id r
  end.
Fixpoint n_final (id : Z) (l : list Ev) : nat :=
  match l with
  | [] => O
  | EvFinal i _ _ _ _ _ _ _ :: r => if i =? id then S (n_final id r) else n_final id r
  | _ :: r => n_final id r
  end.
Fixpoint n_applied (id : Z) (l : list Ev) : nat :=
  match l with
  | [] => O
  | EvApply i _ _ _ _ :: r => if i =? id then S (n_applied id r) else n_applied id r
  | _ :: r => n_applied id r
  end.
(* the votes in force: the latest accepted vote of each voter *)
Fixpoint votes_of (id : Z) (l : list Ev) : list (Z * Z) :=
  match l with
  | [] => []
  | EvVote i who opt _ _ :: r => if i =? id then set_vote who opt (votes_of id r) else votes_of id r
  | EvRotate old new _ :: r => rename_vote old new (votes_of id r)     (* the person continues under the new address *)
  | _ :: r => votes_of id r
  end.

(* ---- what every logged event guarantees about the history [r] before it: the property itself *)
Definition ev_ok (e : Ev) (r : list Ev) : Prop :=
  match e with
  | EvSubmit id p c =>
      submit_of id r = None /\ n_final id r = O /\ n_applied id r = O /\ votes_of id r = [] /\ p_result p = Pending
  | EvVote id who opt c a =>
      exists p, submit_of id r = Some p /\ now c <= p_vend p
                /\ is_active P a who = true /\ has_vote_perm P a who (p_content p) = true
  | EvFinal id res tl nv q mine c a =>
      exists p, submit_of id r = Some p /\ n_final id r = O /\ n_applied id r = O
                /\ p_vend p <= now c /\ p_minv p <= height c
                /\ tl = tally_of (votes_of id r) (nveto P a (p_content p))
                /\ nv = nvoters P a (p_content p) /\ q = quorum_of P a (p_content p)
                /\ (exists qb, quorum_checked (quorum_error_panics P) q (t_total tl) nv = Ok qb /\ res = final_result A content ext P qb tl)
                /\ mine = height c + min_enact_blocks P a
  | EvApply id ok c a a' =>
      exists p, submit_of id r = Some p /\ n_applied id r = O
                /\ (exists tl nv q mine cf af, final_of id r = Some (Enactment, tl, nv, q, mine, cf, af) /\ mine <= height c)
                /\ p_eend p <= now c
                /\ (if ok then handler P (p_content p) a = Ok a'
                    else a' = a /\ exists m, handler P (p_content p) a = Err m)
  | EvRotate _ _ _ => True
  end.
Fixpoint log_ok (l : list Ev) : Prop :=
  match l with [] => True | e :: r => ev_ok e r /\ log_ok r end.

(* ---- state invariant tying the state to its log *)
Definition fresh (id : Z) (l : list Ev) : Prop :=
  submit_of id l = None /\ n_final id l = O /\ n_applied id l = O /\ votes_of id l = [].
Definition same_static (p p0 : Pr) : Prop :=
  p_content p = p_content p0 /\ p_submit p = p_submit p0 /\ p_vend p = p_vend p0 /\ p_eend p = p_eend p0 /\ p_minv p = p_minv p0.
Definition prop_ok (id : Z) (p : Pr) (l : list Ev) : Prop :=
  exists p0, submit_of id l = Some p0 /\ same_static p p0
    /\ (p_result p = Enactment ->
        n_applied id l = O /\ exists tl nv q cf af, final_of id l = Some (Enactment, tl, nv, q, p_mine p, cf, af)).

Record Inv (s : St) : Prop := mkInv {
  inv_log : log_ok (log s);
  inv_votes : forall id, votes s id = votes_of id (log s);
  inv_props : forall id p, props s id = Some p -> prop_ok id p (log s) /\ id < next_id s;
  inv_none : forall id, props s id = None -> fresh id (log s);
  inv_next : forall id, next_id s <= id -> props s id = None;
  inv_active : forall k, In k (activeq s) ->
     exists p, props s (snd k) = Some p /\ p_vend p = fst k /\ p_result p = Pending
               /\ n_final (snd k) (log s) = O /\ n_applied (snd k) (log s) = O;
  inv_nodup : NoDup (map snd (activeq s));
  inv_enact : forall k, In k (enactq s) -> exists p, props s (snd k) = Some p /\ p_eend p = fst k }.

Lemma inv_init : forall a, Inv (init a).
Proof.
  intros a. constructor; cbn; auto; try (intros; contradiction); try discriminate.
  - intros. repeat split.
  - constructor.
Qed.

(* how proposals may evolve in one step: static fields fixed; a result changes only from Pending,
   or from Enactment to Passed *)
Definition evolves (s s' : St) : Prop :=
  forall id p, props s id = Some p ->
  exists p', props s' id = Some p' /\ same_static p' p
    /\ (p_result p' = p_result p \/ p_result p = Pending \/ (p_result p = Enactment /\ p_result p' = Passed)).

Lemma same_static_refl : forall p, same_static p p.
Proof. intros. repeat split. Qed.
Lemma same_static_trans : forall p q r, same_static p q -> same_static q r -> same_static p r.
Proof. unfold same_static. intros p q r (?&?&?&?&?) (?&?&?&?&?). repeat split; congruence. Qed.

Lemma evolves_refl : forall s, evolves s s.
Proof. intros s id p H. exists p. split; auto. split; [apply same_static_refl|auto]. Qed.

Lemma evolves_trans : forall s1 s2 s3, evolves s1 s2 -> evolves s2 s3 -> evolves s1 s3.
Proof.
  intros s1 s2 s3 H12 H23 id p Hp.
  destruct (H12 id p Hp) as [p2 [Hp2 [Hs2 Hr2]]].
  destruct (H23 id p2 Hp2) as [p3 [Hp3 [Hs3 Hr3]]].
  exists p3. split; auto. split; [eapply same_static_trans; eauto|].
  destruct Hr2 as [E|[E|[E1 E2]]]; [|tauto|].
  - rewrite E in Hr3. tauto.
  - destruct Hr3 as [E3|[E3|[E3 _]]]; [right; right; split; congruence| congruence | congruence].
Qed.

Lemma upd_same : forall {V} (f : Z -> V) k v, upd f k v k = v.
Proof. intros. unfold upd. rewrite Z.eqb_refl. reflexivity. Qed.
Lemma upd_other : forall {V} (f : Z -> V) k v x, x <> k -> upd f k v x = f x.
Proof. intros. unfold upd. destruct (Z.eqb_spec x k); [contradiction|reflexivity]. Qed.

Notation submit' := (submit A content ext P).
Notation vote' := (vote A content ext P).
Notation process_prop' := (process_prop A content ext P).
Notation process_enact' := (process_enact A content ext P).
Notation end_block' := (end_block A content ext P).
Notation step' := (step A content ext P).
Notation run' := (run A content ext P).

Lemma active_id_lt : forall s k, Inv s -> In k (activeq s) -> snd k < next_id s.
Proof.
  intros s k HI Hin. destruct (inv_active s HI k Hin) as [p [Hp _]].
  apply (inv_props s HI) in Hp. tauto.
Qed.

(* ---------------------------------------------------------------- submit *)
Lemma submit_inv : forall c who ct s s', Inv s -> submit' c who ct s = Ok s' -> Inv s' /\ evolves s s'.
Proof.
  intros c who ct s s' HI H. unfold submit in H.
  destruct (valid_basic P ct); cbn [negb] in H; [|discriminate].
  destruct (can_propose P (app s) who ct); cbn [negb] in H; [|discriminate].
  destruct (handler P ct (app s)) as [a1|e1|m1]; try discriminate.
  inversion H; subst s'; clear H.
  set (id := next_id s) in *.
  set (p := mkP ct (now c) _ _ _ _ Pending 0).
  assert (Hnone : props s id = None) by (apply (inv_next s HI); unfold id; lia).
  pose proof (inv_none s HI id Hnone) as [Hf1 [Hf2 [Hf3 Hf4]]].
  assert (Hlt : forall i q, props s i = Some q -> i <> id).
  { intros i q Hq. apply (inv_props s HI) in Hq. unfold id. lia. }
  split.
  - constructor; cbn [log votes props next_id activeq enactq app].
    + cbn [log_ok ev_ok]. split; [|apply (inv_log s HI)]. repeat split; auto.
    + intros i. cbn [votes_of]. apply (inv_votes s HI).
    + intros i q Hq. destruct (Z.eqb_spec i id) as [->|Hne].
      * rewrite upd_same in Hq. inversion Hq; subst q. split; [|lia].
        exists p. cbn [submit_of]. rewrite Z.eqb_refl. split; [reflexivity|]. split; [apply same_static_refl|].
        unfold p. cbn [p_result]. discriminate.
      * rewrite upd_other in Hq by assumption. destruct (inv_props s HI i q Hq) as [[p0 [Hs [Hst Hen]]] Hl].
        split; [|fold id in Hl; lia]. exists p0. cbn [submit_of n_applied final_of].
        destruct (Z.eqb_spec id i); [congruence|]. auto.
    + intros i Hq. destruct (Z.eqb_spec i id) as [->|Hne]; [rewrite upd_same in Hq; discriminate|].
      rewrite upd_other in Hq by assumption. destruct (inv_none s HI i Hq) as (?&?&?&?).
      unfold fresh. cbn [submit_of n_final n_applied votes_of]. destruct (Z.eqb_spec id i); [congruence|]. auto.
    + intros i Hi. rewrite upd_other by lia. apply (inv_next s HI). fold id. lia.
    + intros k Hin. apply In_q_insert in Hin. destruct Hin as [->|Hin]; cbn [fst snd n_final n_applied].
      * exists p. rewrite upd_same. auto.
      * destruct (inv_active s HI k Hin) as [q [Hq Hr]]. exists q.
        rewrite upd_other by (eapply Hlt; eauto). auto.
    + apply NoDup_ids_q_insert; [apply (inv_nodup s HI)|]. cbn [snd]. intros Hin.
      apply in_map_iff in Hin. destruct Hin as [k [Hk Hin]]. pose proof (active_id_lt s k HI Hin). fold id in H. lia.
    + intros k Hin. destruct (inv_enact s HI k Hin) as [q [Hq Hr]]. exists q.
      rewrite upd_other by (eapply Hlt; eauto). auto.
  - intros i q Hq. exists q. cbn [props]. rewrite upd_other by (eapply Hlt; eauto).
    split; auto. split; [apply same_static_refl|auto].
Qed.

(* ---------------------------------------------------------------- vote *)
Lemma vote_inv : forall c who id opt s s', Inv s -> vote' c who id opt s = Ok s' -> Inv s' /\ evolves s s'.
Proof.
  intros c who id opt s s' HI H. unfold vote in H.
  destruct (is_active P (app s) who) eqn:Hact; cbn [negb] in H; [|discriminate].
  destruct (props s id) as [p|] eqn:Hp; [|discriminate].
  destruct (Z.ltb_spec (p_vend p) (now c)) as [Hlate|Hintime]; [discriminate|].
  destruct (has_vote_perm P (app s) who (p_content p)) eqn:Hperm; cbn [negb] in H; [|discriminate].
  inversion H; subst s'; clear H.
  destruct (inv_props s HI id p Hp) as [[p0 [Hs0 [Hst0 Hen0]]] Hl0].
  split; [|intros i q Hq; exists q; cbn [props]; split; auto; split; [apply same_static_refl|auto]].
  constructor; cbn [log votes props next_id activeq enactq app].
  - cbn [log_ok ev_ok]. split; [|apply (inv_log s HI)].
    exists p0. destruct Hst0 as (Hc&_&Hv&_). rewrite <- Hc, <- Hv. auto.
  - intros i. cbn [votes_of]. destruct (Z.eqb_spec id i) as [->|Hne].
    + rewrite upd_same. rewrite (inv_votes s HI). reflexivity.
    + rewrite upd_other by congruence. apply (inv_votes s HI).
  - intros i q Hq. destruct (inv_props s HI i q Hq) as [[q0 [Hs [Hst Hen]]] Hl]. split; auto.
    exists q0. cbn [submit_of n_applied final_of]. auto.
  - intros i Hq. destruct (inv_none s HI i Hq) as (?&?&?&?).
    unfold fresh. cbn [submit_of n_final n_applied votes_of].
    destruct (Z.eqb_spec id i) as [->|Hne]; [congruence|]. auto.
  - apply (inv_next s HI).
  - intros k Hin. destruct (inv_active s HI k Hin) as [q Hq]. exists q. cbn [n_final n_applied]. exact Hq.
  - apply (inv_nodup s HI).
  - apply (inv_enact s HI).
Qed.

Lemma NoDup_ids_inj : forall (q : list (Z * Z)) k k', NoDup (map snd q) -> In k q -> In k' q -> snd k = snd k' -> k = k'.
Proof.
  induction q as [|x r IH]; cbn; intros k k' Hd Hk Hk' E; [contradiction|].
  inversion Hd as [|? ? Hx Hr]; subst.
  destruct Hk as [->|Hk]; destruct Hk' as [->|Hk']; auto.
  - exfalso. apply Hx. rewrite E. apply in_map. assumption.
  - exfalso. apply Hx. rewrite <- E. apply in_map. assumption.
Qed.

(* ---------------------------------------------------------------- processProposal *)
Lemma process_prop_inv : forall c id s s' t,
  Inv s -> In (t, id) (activeq s) -> t <= now c -> process_prop' c id s = Ok s' ->
  Inv s' /\ evolves s s' /\ (forall k, In k (activeq s) -> snd k <> id -> In k (activeq s')).
Proof.
  intros c id s s' t HI Hin Ht H.
  destruct (inv_active s HI _ Hin) as [p [Hp [Hvend [Hpend [Hnf Hna]]]]]. cbn [fst snd] in *.
  unfold process_prop in H. rewrite Hp in H.
  destruct (Z.ltb_spec (height c) (p_minv p)) as [Hh|Hh].
  { inversion H; subst s'. split; auto. split; [apply evolves_refl|auto]. }
  destruct (quorum_checked _ _ _ _) as [qb|e|m] eqn:Hq; cbn [bind] in H; try discriminate.
  inversion H; subst s'; clear H.
  destruct (inv_props s HI id p Hp) as [[p0 [Hs0 [Hst0 Hen0]]] Hl0].
  set (a := app s) in *. set (ct := p_content p) in *.
  set (tl := tally_of (votes s id) (nveto P a ct)) in *.
  set (res := final_result A content ext P qb tl) in *.
  set (mine := height c + min_enact_blocks P a) in *.
  set (p' := mkP ct (p_submit p) (p_vend p) (p_eend p) (p_minv p) mine res (p_exec p)).
  assert (Hst' : same_static p' p) by (repeat split).
  assert (Hother : forall k, In k (activeq s) -> k <> (p_vend p, id) -> snd k <> id).
  { intros k Hk Hne E. apply Hne. rewrite Hvend.
    apply (NoDup_ids_inj (activeq s) k (t, id) (inv_nodup s HI) Hk Hin E). }
  split; [|split].
  - constructor; cbn [log votes props next_id activeq enactq app].
    + cbn [log_ok ev_ok]. split; [|apply (inv_log s HI)].
      exists p0. destruct Hst0 as (Hc&_&Hv&_&Hm).
      split; [assumption|]. split; [assumption|]. split; [assumption|].
      split; [lia|]. split; [lia|]. rewrite <- Hc. rewrite <- (inv_votes s HI id).
      split; [reflexivity|]. split; [reflexivity|]. split; [reflexivity|].
      split; [exists qb; split; [exact Hq|reflexivity]|reflexivity].
    + intros i. cbn [votes_of]. apply (inv_votes s HI).
    + intros i q Hq'. destruct (Z.eqb_spec i id) as [->|Hne].
      * rewrite upd_same in Hq'. inversion Hq'; subst q. split; [|assumption].
        exists p0. cbn [submit_of n_applied final_of]. rewrite Z.eqb_refl.
        split; [assumption|]. split; [eapply same_static_trans; eauto|].
        intros Hres. unfold p' in Hres |- *. cbn [p_result p_mine] in Hres |- *. split; [assumption|].
        exists tl, (nvoters P a ct), (quorum_of P a ct), c, a. rewrite Hres. reflexivity.
      * rewrite upd_other in Hq' by assumption.
        destruct (inv_props s HI i q Hq') as [[q0 [Hs [Hst Hen]]] Hl]. split; auto.
        exists q0. cbn [submit_of n_applied final_of]. destruct (Z.eqb_spec id i); [congruence|]. auto.
    + intros i Hq'. destruct (Z.eqb_spec i id) as [->|Hne]; [rewrite upd_same in Hq'; discriminate|].
      rewrite upd_other in Hq' by assumption. destruct (inv_none s HI i Hq') as (?&?&?&?).
      unfold fresh. cbn [submit_of n_final n_applied votes_of]. destruct (Z.eqb_spec id i); [congruence|]. auto.
    + intros i Hi. rewrite upd_other by lia. apply (inv_next s HI). assumption.
    + intros k Hk. apply In_q_remove in Hk. destruct Hk as [Hk Hne].
      pose proof (Hother k Hk Hne) as Hsk.
      destruct (inv_active s HI k Hk) as [q Hq']. exists q. rewrite upd_other by assumption.
      cbn [n_final n_applied]. destruct (Z.eqb_spec id (snd k)); [congruence|]. exact Hq'.
    + unfold q_remove. apply NoDup_map_filter. apply (inv_nodup s HI).
    + intros k Hk. apply In_q_insert in Hk. destruct Hk as [->|Hk]; cbn [fst snd].
      * exists p'. rewrite upd_same. auto.
      * destruct (inv_enact s HI k Hk) as [q [Hq' He]].
        destruct (Z.eqb_spec (snd k) id) as [E|Hne].
        -- rewrite E in *. rewrite Hp in Hq'. inversion Hq'; subst q. exists p'. rewrite upd_same. auto.
        -- exists q. rewrite upd_other by assumption. auto.
  - intros i q Hq'. cbn [props]. destruct (Z.eqb_spec i id) as [->|Hne].
    + rewrite Hp in Hq'. inversion Hq'; subst q. exists p'. rewrite upd_same. split; auto.
    + exists q. rewrite upd_other by assumption. split; auto. split; [apply same_static_refl|auto].
  - intros k Hk Hne. cbn [activeq]. apply In_q_remove. split; auto. intros ->. apply Hne. reflexivity.
Qed.

(* ---------------------------------------------------------------- processEnactmentProposal *)
Lemma drop_enact_inv : forall s k0, Inv s ->
  Inv (mkS (app s) (props s) (votes s) (activeq s) (q_remove k0 (enactq s)) (next_id s) (log s)).
Proof.
  intros s k0 HI. constructor; cbn [log votes props next_id activeq enactq app];
  try apply HI. intros k Hk. apply In_q_remove in Hk. apply (inv_enact s HI). tauto.
Qed.

Lemma process_enact_inv : forall c id s s',
  Inv s -> (forall p, props s id = Some p -> p_eend p <= now c) -> process_enact' c id s = Ok s' ->
  Inv s' /\ evolves s s' /\ activeq s' = activeq s.
Proof.
  intros c id s s' HI Hdue H. unfold process_enact in H.
  destruct (props s id) as [p|] eqn:Hp; [|discriminate].
  destruct (Z.ltb_spec (height c) (p_mine p)) as [Hh|Hh].
  { inversion H; subst s'. split; auto. split; [apply evolves_refl|reflexivity]. }
  assert (Hdrop : forall s0 : St, @Ok St (mkS (app s) (props s) (votes s) (activeq s) (q_remove (p_eend p, id) (enactq s)) (next_id s) (log s)) = Ok s0 ->
                  Inv s0 /\ evolves s s0 /\ activeq s0 = activeq s).
  { intros s0 E. inversion E; subst s0. split; [apply drop_enact_inv; assumption|].
    split; [|reflexivity]. intros i q Hq. exists q. cbn [props]. split; auto. split; [apply same_static_refl|auto]. }
  destruct (p_result p) eqn:Hr; try (apply Hdrop; exact H). clear Hdrop.
  destruct (inv_props s HI id p Hp) as [[p0 [Hs0 [Hst0 Hen0]]] Hl0].
  destruct (Hen0 Hr) as [Hna [tl [nv [q [cf [af Hfin]]]]]].
  assert (Hgen : forall (a' : A) (ok : bool),
     (if ok then handler P (p_content p) (app s) = Ok a' else a' = app s /\ exists m, handler P (p_content p) (app s) = Err m) ->
     let p' := mkP (p_content p) (p_submit p) (p_vend p) (p_eend p) (p_minv p) (p_mine p) Passed (if ok then 1 else 2) in
     let s1 := mkS a' (upd (props s) id (Some p')) (votes s) (activeq s) (q_remove (p_eend p, id) (enactq s)) (next_id s)
                   (EvApply id ok c (app s) a' :: log s) in
     Inv s1 /\ evolves s s1 /\ activeq s1 = activeq s).
  { intros a' ok Hh' p' s1.
    assert (Hact : forall k, In k (activeq s) -> snd k <> id).
    { intros k Hk E. destruct (inv_active s HI k Hk) as [q' [Hq' [_ [Hpend _]]]].
      rewrite E, Hp in Hq'. inversion Hq'; subst q'. congruence. }
    split; [|split; [|reflexivity]].
    - constructor; unfold s1; cbn [log votes props next_id activeq enactq app].
      + cbn [log_ok ev_ok]. split; [|apply (inv_log s HI)].
        exists p0. destruct Hst0 as (Hc&_&_&He&_). rewrite <- Hc, <- He.
        split; [assumption|]. split; [assumption|].
        split; [exists tl, nv, q, (p_mine p), cf, af; split; [assumption|lia]|].
        split; [apply Hdue; reflexivity|assumption].
      + intros i. cbn [votes_of]. apply (inv_votes s HI).
      + intros i q' Hq'. destruct (Z.eqb_spec i id) as [->|Hne].
        * rewrite upd_same in Hq'. inversion Hq'; subst q'. split; [|assumption].
          exists p0. cbn [submit_of]. split; [assumption|]. split; [exact Hst0|].
          unfold p'. cbn [p_result]. discriminate.
        * rewrite upd_other in Hq' by assumption.
          destruct (inv_props s HI i q' Hq') as [[q0 [Hs [Hst Hen]]] Hl]. split; auto.
          exists q0. cbn [submit_of n_applied final_of]. destruct (Z.eqb_spec id i); [congruence|]. auto.
      + intros i Hq'. destruct (Z.eqb_spec i id) as [->|Hne]; [rewrite upd_same in Hq'; discriminate|].
        rewrite upd_other in Hq' by assumption. destruct (inv_none s HI i Hq') as (?&?&?&?).
        unfold fresh. cbn [submit_of n_final n_applied votes_of]. destruct (Z.eqb_spec id i); [congruence|]. auto.
      + intros i Hi. rewrite upd_other by lia. apply (inv_next s HI). assumption.
      + intros k Hk. pose proof (Hact k Hk) as Hsk.
        destruct (inv_active s HI k Hk) as [q' Hq']. exists q'. rewrite upd_other by assumption.
        cbn [n_final n_applied]. destruct (Z.eqb_spec id (snd k)); [congruence|]. exact Hq'.
      + apply (inv_nodup s HI).
      + intros k Hk. apply In_q_remove in Hk. destruct Hk as [Hk _].
        destruct (inv_enact s HI k Hk) as [q' [Hq' He]].
        destruct (Z.eqb_spec (snd k) id) as [E|Hne].
        * rewrite E in *. rewrite Hp in Hq'. inversion Hq'; subst q'. exists p'. rewrite upd_same. auto.
        * exists q'. rewrite upd_other by assumption. auto.
    - intros i q' Hq'. unfold s1. cbn [props]. destruct (Z.eqb_spec i id) as [->|Hne].
      + rewrite Hp in Hq'. inversion Hq'; subst q'. exists p'. rewrite upd_same. split; auto.
        split; [repeat split|]. right. right. split; [assumption|reflexivity].
      + exists q'. rewrite upd_other by assumption. split; auto. split; [apply same_static_refl|auto]. }
  destruct (handler P (p_content p) (app s)) as [a1|e1|m1] eqn:Hh'; [| |discriminate].
  - inversion H; subst s'. apply (Hgen a1 true). reflexivity.
  - inversion H; subst s'. apply (Hgen (app s) false). split; [reflexivity|exists e1; reflexivity].
Qed.

(* ---------------------------------------------------------------- EndBlocker *)
Lemma fold_enact_inv : forall c ids s s',
  Inv s -> (forall id, In id ids -> exists p, props s id = Some p /\ p_eend p <= now c) ->
  fold_out (process_enact' c) ids s = Ok s' -> Inv s' /\ evolves s s' /\ activeq s' = activeq s.
Proof.
  intros c ids. induction ids as [|i r IH]; intros s s' HI Hdue H; cbn [fold_out] in H.
  - inversion H; subst s'. split; auto. split; [apply evolves_refl|reflexivity].
  - destruct (process_enact' c i s) as [s1|e|m] eqn:H1; cbn [bind] in H; try discriminate.
    destruct (Hdue i (or_introl eq_refl)) as [pi [Hpi Hei]].
    destruct (process_enact_inv c i s s1 HI) as [HI1 [Hev1 Ha1]]; auto.
    { intros p Hp. rewrite Hpi in Hp. inversion Hp; subst p. assumption. }
    destruct (IH s1 s' HI1) as [HI2 [Hev2 Ha2]]; auto.
    { intros id Hin. destruct (Hdue id (or_intror Hin)) as [p [Hp He]].
      destruct (Hev1 id p Hp) as [p' [Hp' [(_&_&_&E&_) _]]]. exists p'. split; auto. lia. }
    split; auto. split; [eapply evolves_trans; eauto|congruence].
Qed.

Lemma fold_prop_inv : forall c ids s s',
  Inv s -> NoDup ids -> (forall id, In id ids -> exists t, In (t, id) (activeq s) /\ t <= now c) ->
  fold_out (process_prop' c) ids s = Ok s' -> Inv s' /\ evolves s s'.
Proof.
  intros c ids. induction ids as [|i r IH]; intros s s' HI Hnd Hdue H; cbn [fold_out] in H.
  - inversion H; subst s'. split; auto. apply evolves_refl.
  - destruct (process_prop' c i s) as [s1|e|m] eqn:H1; cbn [bind] in H; try discriminate.
    inversion Hnd as [|? ? Hni Hnr]; subst.
    destruct (Hdue i (or_introl eq_refl)) as [t [Hin Ht]].
    destruct (process_prop_inv c i s s1 t HI Hin Ht H1) as [HI1 [Hev1 Hfr]].
    destruct (IH s1 s' HI1 Hnr) as [HI2 Hev2]; auto.
    { intros id Hid. destruct (Hdue id (or_intror Hid)) as [t' [Hin' Ht']]. exists t'. split; auto.
      apply Hfr; auto. cbn [snd]. intros ->. contradiction. }
    split; auto. eapply evolves_trans; eauto.
Qed.

Lemma end_block_inv : forall c s s', Inv s -> end_block' c s = Ok s' -> Inv s' /\ evolves s s'.
Proof.
  intros c s s' HI H. unfold end_block in H.
  destruct (fold_out (process_enact' c) _ s) as [s1|e|m] eqn:H1; cbn [bind] in H; try discriminate.
  destruct (fold_enact_inv c (q_due (now c) (enactq s)) s s1 HI) as [HI1 [Hev1 _]]; auto.
  { intros id Hin. apply q_due_In in Hin. destruct Hin as [t0 [Hin Ht]].
    destruct (inv_enact s HI _ Hin) as [p [Hp He]]. cbn [fst snd] in *. exists p. split; auto. lia. }
  destruct (fold_prop_inv c (q_due (now c) (activeq s1)) s1 s' HI1) as [HI2 Hev2]; auto.
  - apply q_due_NoDup. apply (inv_nodup s1 HI1).
  - intros id Hin. apply q_due_In in Hin. exact Hin.
  - split; auto. eapply evolves_trans; eauto.
Qed.

(* ---------------------------------------------------------------- whole histories *)
Lemma step_inv : forall c o s s', Inv s -> step' c o s = Ok s' -> Inv s' /\ evolves s s'.
Proof.
  intros c o s s' HI H. destruct o as [who ct|who id opt| |e|old new]; cbn [step] in H.
  - eapply submit_inv; eauto.
  - eapply vote_inv; eauto.
  - eapply end_block_inv; eauto.
  - inversion H; subst s'. split.
    + constructor; cbn [log votes props next_id activeq enactq app]; apply HI.
    + intros i q Hq. exists q. cbn [props]. split; auto. split; [apply same_static_refl|auto].
  - inversion H; subst s'. split.
    + constructor; cbn [log votes props next_id activeq enactq app].
      * cbn [log_ok ev_ok]. split; [exact I|apply (inv_log s HI)].
      * intros i. cbn [votes_of]. rewrite (inv_votes s HI). reflexivity.
      * intros i q Hq. destruct (inv_props s HI i q Hq) as [[q0 [Hs [Hst Hen]]] Hl]. split; auto.
        exists q0. cbn [submit_of n_applied final_of]. auto.
      * intros i Hq. destruct (inv_none s HI i Hq) as (?&?&?&Hv).
        unfold fresh. cbn [submit_of n_final n_applied votes_of]. rewrite Hv. auto.
      * apply (inv_next s HI).
      * intros k Hin. destruct (inv_active s HI k Hin) as [q Hq]. exists q. cbn [n_final n_applied]. exact Hq.
      * apply (inv_nodup s HI).
      * apply (inv_enact s HI).
    + intros i q Hq. exists q. cbn [props]. split; auto. split; [apply same_static_refl|auto].
Qed.

Lemma step_total_inv : forall s co, Inv s -> Inv (step_total A content ext P s co) /\ evolves s (step_total A content ext P s co).
Proof.
  intros s [c o] HI. unfold step_total. cbn [fst snd].
  destruct (step' c o s) as [s1|e|m] eqn:H; try (split; [assumption|apply evolves_refl]).
  eapply step_inv; eauto.
Qed.

Lemma run_inv : forall ops s, Inv s -> Inv (run' ops s) /\ evolves s (run' ops s).
Proof.
  induction ops as [|co r IH]; intros s HI; cbn [run fold_left].
  - split; [assumption|apply evolves_refl].
  - destruct (step_total_inv s co HI) as [HI1 Hev1]. destruct (IH _ HI1) as [HI2 Hev2].
    split; [exact HI2|]. eapply evolves_trans; eauto.
Qed.

Lemma run_app : forall ops1 ops2 s, run' (ops1 ++ ops2) s = run' ops2 (run' ops1 s).
Proof. intros. unfold run. apply fold_left_app. Qed.

Lemma history_ok : forall ops a, Inv (run' ops (init a)).
Proof. intros. apply run_inv. apply inv_init. Qed.

Lemma log_ok_suffix : forall l1 l2, log_ok (l1 ++ l2) -> log_ok l2.
Proof. induction l1 as [|e r IH]; cbn; intros l2 H; [assumption|]. apply IH. tauto. Qed.

Lemma log_ok_at : forall l1 e l2, log_ok (l1 ++ e :: l2) -> ev_ok e l2 /\ log_ok l2.
Proof. intros l1 e l2 H. apply log_ok_suffix in H. exact H. Qed.

Lemma final_of_split : forall id l res tl nv q mine c a,
  final_of id l = Some (res, tl, nv, q, mine, c, a) ->
  exists l3 l4, l = l3 ++ EvFinal id res tl nv q mine c a :: l4.
Proof.
  intros id l. induction l as [|e r IH]; cbn [final_of]; intros res tl nv q mine c a H; [discriminate|].
  destruct e as [i p0 c0|i w o c0 a0|i res0 tl0 nv0 q0 mine0 c0 a0|i ok0 c0 a0 a1|ro rn c0].
  - destruct (IH _ _ _ _ _ _ _ H) as [l3 [l4 E]]. exists (EvSubmit i p0 c0 :: l3), l4. rewrite E. reflexivity.
  - destruct (IH _ _ _ _ _ _ _ H) as [l3 [l4 E]]. exists (EvVote i w o c0 a0 :: l3), l4. rewrite E. reflexivity.
  - destruct (Z.eqb_spec i id) as [->|Hne].
    + inversion H; subst. exists [], r. reflexivity.
    + destruct (IH _ _ _ _ _ _ _ H) as [l3 [l4 E]]. exists (EvFinal i res0 tl0 nv0 q0 mine0 c0 a0 :: l3), l4. rewrite E. reflexivity.
  - destruct (IH _ _ _ _ _ _ _ H) as [l3 [l4 E]]. exists (EvApply i ok0 c0 a0 a1 :: l3), l4. rewrite E. reflexivity.
  - destruct (IH _ _ _ _ _ _ _ H) as [l3 [l4 E]]. exists (EvRotate ro rn c0 :: l3), l4. rewrite E. reflexivity.
Qed.

Lemma submit_of_stable : forall id p l3 l4, log_ok (l3 ++ l4) -> submit_of id l4 = Some p -> submit_of id (l3 ++ l4) = Some p.
Proof.
  intros id p l3 l4. induction l3 as [|e r IH]; cbn [List.app]; intros Hok Hs; [assumption|].
  cbn [log_ok] in Hok. destruct Hok as [He Hr]. specialize (IH Hr Hs).
  destruct e as [i p0 c0|i w o c0 a0|i res0 tl0 nv0 q0 mine0 c0 a0|i ok0 c0 a0 a1|ro rn c0]; cbn [List.app submit_of]; auto.
  destruct (Z.eqb_spec i id) as [->|Hne]; auto.
  cbn [ev_ok] in He. destruct He as [E _]. congruence.
Qed.

Lemma n_applied_le_1 : forall id l, log_ok l -> (n_applied id l <= 1)%nat.
Proof.
  intros id l. induction l as [|e r IH]; cbn [log_ok n_applied]; intros H; [lia|].
  destruct H as [He Hr]. specialize (IH Hr).
  destruct e as [i p0 c0|i w o c0 a0|i res0 tl0 nv0 q0 mine0 c0 a0|i ok0 c0 a0 a1|ro rn c0]; auto.
  destruct (Z.eqb_spec i id) as [->|Hne]; auto.
  cbn [ev_ok] in He. destruct He as [p [_ [E _]]]. lia.
Qed.

Lemma n_final_le_1 : forall id l, log_ok l -> (n_final id l <= 1)%nat.
Proof.
  intros id l. induction l as [|e r IH]; cbn [log_ok n_final]; intros H; [lia|].
  destruct H as [He Hr]. specialize (IH Hr).
  destruct e as [i p0 c0|i w o c0 a0|i res0 tl0 nv0 q0 mine0 c0 a0|i ok0 c0 a0 a1|ro rn c0]; auto.
  destruct (Z.eqb_spec i id) as [->|Hne]; auto.
  cbn [ev_ok] in He. destruct He as [p [_ [E _]]]. lia.
Qed.

Lemma final_result_enactment : forall qb tl,
  (forall t, decide P t <> Enactment) ->
  final_result A content ext P qb tl = Enactment -> qb = true /\ decide P tl = Passed.
Proof.
  intros qb tl Hd H. unfold final_result in H. destruct qb; [|discriminate]. split; [reflexivity|].
  pose proof (Hd tl) as Hn. destruct (decide P tl); congruence.
Qed.

(* ---- the theorems of property C08, over arbitrary histories *)
Theorem applied_only_if_passed : forall ops a id ok c a1 a2 l1 l2,
  (forall t, decide P t <> Enactment) ->
  log (run' ops (init a)) = l1 ++ EvApply id ok c a1 a2 :: l2 ->
  exists p tl cf af l3 l4,
    l2 = l3 ++ EvFinal id Enactment tl (nvoters P af (p_content p)) (quorum_of P af (p_content p))
                       (height cf + min_enact_blocks P af) cf af :: l4
    /\ submit_of id l4 = Some p
    /\ p_vend p <= now cf /\ p_minv p <= height cf
    /\ tl = tally_of (votes_of id l4) (nveto P af (p_content p))
    /\ is_quorum (quorum_of P af (p_content p)) (t_total tl) (nvoters P af (p_content p)) = Ok true
    /\ decide P tl = Passed.
Proof.
  intros ops a id ok c a1 a2 l1 l2 Hd Hlog.
  pose proof (inv_log _ (history_ok ops a)) as Hok. rewrite Hlog in Hok.
  destruct (log_ok_at _ _ _ Hok) as [He Hok2]. cbn [ev_ok] in He.
  destruct He as [p [Hs [Hna [[tl [nv [q [mine [cf [af [Hfin Hmine]]]]]]] _]]]].
  destruct (final_of_split _ _ _ _ _ _ _ _ _ Hfin) as [l3 [l4 E]].
  rewrite E in Hok2. destruct (log_ok_at _ _ _ Hok2) as [Hf Hok4]. cbn [ev_ok] in Hf.
  destruct Hf as [p4 [Hs4 [_ [_ [Hv [Hm [Htl [Hnv [Hq [[qb [Hqb Hres]] Hmi]]]]]]]]]].
  symmetry in Hres. apply final_result_enactment in Hres; auto. destruct Hres as [-> Hdec].
  apply quorum_checked_true in Hqb.
  exists p4, tl, cf, af, l3, l4. subst nv q mine. repeat split; auto.
Qed.

Theorem applied_at_most_once : forall ops a id, (n_applied id (log (run' ops (init a))) <= 1)%nat.
Proof. intros. apply n_applied_le_1. apply (inv_log _ (history_ok ops a)). Qed.

Theorem finalised_at_most_once : forall ops a id, (n_final id (log (run' ops (init a))) <= 1)%nat.
Proof. intros. apply n_final_le_1. apply (inv_log _ (history_ok ops a)). Qed.

Theorem applied_not_before_enactment : forall ops a id ok c a1 a2 l1 l2,
  log (run' ops (init a)) = l1 ++ EvApply id ok c a1 a2 :: l2 ->
  exists p res tl nv q cf af,
    submit_of id l2 = Some p
    /\ final_of id l2 = Some (res, tl, nv, q, height cf + min_enact_blocks P af, cf, af)
    /\ p_eend p <= now c                                        (* enactment end time reached *)
    /\ height cf + min_enact_blocks P af <= height c.           (* MinProposalEnactmentBlocks after the tally *)
Proof.
  intros ops a id ok c a1 a2 l1 l2 Hlog.
  pose proof (inv_log _ (history_ok ops a)) as Hok. rewrite Hlog in Hok.
  destruct (log_ok_at _ _ _ Hok) as [He Hok2]. cbn [ev_ok] in He.
  destruct He as [p [Hs [Hna [[tl [nv [q [mine [cf [af [Hfin Hmine]]]]]]] [Hee _]]]]].
  destruct (final_of_split _ _ _ _ _ _ _ _ _ Hfin) as [l3 [l4 E]].
  pose proof Hok2 as Hok2'. rewrite E in Hok2'. destruct (log_ok_at _ _ _ Hok2') as [Hf _]. cbn [ev_ok] in Hf.
  destruct Hf as [p4 [_ [_ [_ [_ [_ [_ [_ [_ [_ Hmi]]]]]]]]]]. subst mine.
  exists p, Enactment, tl, nv, q, cf, af. auto.
Qed.

Theorem apply_atomic : forall ops a id ok c a1 a2 l1 l2,
  log (run' ops (init a)) = l1 ++ EvApply id ok c a1 a2 :: l2 ->
  exists p, submit_of id l2 = Some p
    /\ (if ok then handler P (p_content p) a1 = Ok a2
        else a2 = a1 /\ exists m, handler P (p_content p) a1 = Err m).
Proof.
  intros ops a id ok c a1 a2 l1 l2 Hlog.
  pose proof (inv_log _ (history_ok ops a)) as Hok. rewrite Hlog in Hok.
  destruct (log_ok_at _ _ _ Hok) as [He _]. cbn [ev_ok] in He.
  destruct He as [p [Hs [_ [_ [_ Hh]]]]]. exists p. auto.
Qed.

(* one enactment step: the application state afterwards is the handler's complete result, or unchanged *)
Theorem enact_step_atomic : forall c id s s', process_enact' c id s = Ok s' ->
  app s' = app s \/ exists p, props s id = Some p /\ p_result p = Enactment /\ handler P (p_content p) (app s) = Ok (app s').
Proof.
  intros c id s s' H. unfold process_enact in H.
  destruct (props s id) as [p|] eqn:Hp; [|discriminate].
  destruct (height c <? p_mine p); [inversion H; auto|].
  destruct (p_result p) eqn:Hr; try (inversion H; subst; left; reflexivity).
  destruct (handler P (p_content p) (app s)) as [a1|e1|m1] eqn:Hh; [| |discriminate]; inversion H; subst; cbn [app].
  - right. exists p. auto.
  - left. reflexivity.
Qed.

Theorem counted_votes_were_admissible : forall ops a id who opt c a1 l1 l2,
  log (run' ops (init a)) = l1 ++ EvVote id who opt c a1 :: l2 ->
  exists p, submit_of id l2 = Some p /\ now c <= p_vend p
            /\ is_active P a1 who = true /\ has_vote_perm P a1 who (p_content p) = true.
Proof.
  intros ops a id who opt c a1 l1 l2 Hlog.
  pose proof (inv_log _ (history_ok ops a)) as Hok. rewrite Hlog in Hok.
  destruct (log_ok_at _ _ _ Hok) as [He _]. exact He.
Qed.

Theorem late_vote_rejected : forall c who id opt s p,
  props s id = Some p -> p_vend p < now c -> exists e, vote' c who id opt s = Err e.
Proof.
  intros c who id opt s p Hp Hl. unfold vote. destruct (is_active P (app s) who); cbn [negb]; [|eauto].
  rewrite Hp. destruct (Z.ltb_spec (p_vend p) (now c)); [eauto|lia].
Qed.

Theorem vote_needs_permission_now : forall c who id opt s,
  (is_active P (app s) who = false \/ exists p, props s id = Some p /\ has_vote_perm P (app s) who (p_content p) = false) ->
  exists e, vote' c who id opt s = Err e.
Proof.
  intros c who id opt s H. unfold vote. destruct (is_active P (app s) who) eqn:Ha; cbn [negb]; [|eauto].
  destruct H as [H|[p [Hp Hperm]]]; [discriminate|]. rewrite Hp.
  destruct (p_vend p <? now c); [eauto|]. rewrite Hperm. cbn [negb]. eauto.
Qed.

Theorem rejected_changes_nothing : forall s c o, (forall s', step' c o s <> Ok s') -> step_total A content ext P s (c, o) = s.
Proof.
  intros s c o H. unfold step_total. cbn [fst snd]. destruct (step' c o s) eqn:E; auto. exfalso. eapply H; eauto.
Qed.

Theorem revote_replaces : forall c who id opt s s', vote' c who id opt s = Ok s' ->
  get_vote who (votes s' id) = Some opt
  /\ filter (fun v => fst v =? who) (votes s' id) = [(who, opt)]
  /\ (forall w, w <> who -> get_vote w (votes s' id) = get_vote w (votes s id))
  /\ (forall j, j <> id -> votes s' j = votes s j)
  /\ props s' = props s /\ app s' = app s.
Proof.
  intros c who id opt s s' H. unfold vote in H.
  destruct (is_active P (app s) who); cbn [negb] in H; [|discriminate].
  destruct (props s id) as [p|]; [|discriminate].
  destruct (p_vend p <? now c); [discriminate|].
  destruct (has_vote_perm P (app s) who (p_content p)); cbn [negb] in H; [|discriminate].
  inversion H; subst s'; cbn [votes props app]. rewrite upd_same.
  split; [apply get_vote_set_same|]. split; [apply set_vote_one_entry|].
  split; [intros; apply get_vote_set_other; assumption|].
  split; [intros; apply upd_other; assumption|auto].
Qed.

Theorem result_final : forall ops1 ops2 a id p,
  props (run' ops1 (init a)) id = Some p -> p_result p <> Pending ->
  exists p', props (run' (ops1 ++ ops2) (init a)) id = Some p' /\ same_static p' p
             /\ (p_result p' = p_result p \/ (p_result p = Enactment /\ p_result p' = Passed)).
Proof.
  intros ops1 ops2 a id p Hp Hr. rewrite run_app.
  destruct (run_inv ops2 _ (history_ok ops1 a)) as [_ Hev].
  destruct (Hev id p Hp) as [p' [Hp' [Hst Hres]]]. exists p'. split; auto. split; auto.
  destruct Hres as [E|[E|E]]; auto. contradiction.
Qed.

(* ---- an inconsistent tally (IsQuorum reports an error: more votes than voters, quorum above 1)
   with the repaired end blocker: the proposal is finalised as quorum-not-reached and is never applied *)
Lemma not_passed_never_applied : forall l id res tl nv q mine c a,
  log_ok l -> final_of id l = Some (res, tl, nv, q, mine, c, a) -> res <> Enactment -> n_applied id l = O.
Proof.
  induction l as [|e r IH]; intros id res tl nv q mine c a Hok Hf Hne; [discriminate|].
  cbn [log_ok] in Hok. destruct Hok as [He Hr].
  destruct e as [i p0 c0|i w o c0 a0|i res0 tl0 nv0 q0 mine0 c0 a0|i ok0 c0 a0 a1|ro rn c0]; cbn [final_of n_applied] in *.
  - eapply IH; eauto.
  - eapply IH; eauto.
  - destruct (Z.eqb_spec i id) as [->|Hni]; [|eapply IH; eauto].
    cbn [ev_ok] in He. destruct He as [p [_ [_ [Hna _]]]]. exact Hna.
  - destruct (Z.eqb_spec i id) as [->|Hni]; [|eapply IH; eauto].
    cbn [ev_ok] in He. destruct He as [p [_ [_ [[tl1 [nv1 [q1 [m1 [cf1 [af1 [Hf1 _]]]]]]] _]]]].
    rewrite Hf in Hf1. inversion Hf1. congruence.
  - eapply IH; eauto.
Qed.

Theorem inconsistent_tally_not_applied : forall ops a id res tl nv q mine c af e,
  quorum_error_panics P = false ->
  final_of id (log (run' ops (init a))) = Some (res, tl, nv, q, mine, c, af) ->
  is_quorum q (t_total tl) nv = Err e ->
  res = QuorumNotReached /\ n_applied id (log (run' ops (init a))) = O.
Proof.
  intros ops a id res tl nv q mine c af e Hflag Hf Hq.
  pose proof (inv_log _ (history_ok ops a)) as Hok.
  assert (Hres : res = QuorumNotReached).
  { destruct (final_of_split _ _ _ _ _ _ _ _ _ Hf) as [l3 [l4 E]]. rewrite E in Hok.
    destruct (log_ok_at _ _ _ Hok) as [He _]. cbn [ev_ok] in He.
    destruct He as [p [_ [_ [_ [_ [_ [_ [_ [_ [[qb [Hqb Hr]] _]]]]]]]]]].
    rewrite Hflag, (quorum_checked_err _ _ _ _ Hq) in Hqb. inversion Hqb; subst qb. exact Hr. }
  split; [exact Hres|]. eapply not_passed_never_applied; eauto. rewrite Hres. discriminate.
Qed.

(* the tally uses exactly the votes in force: the latest accepted vote of each voter *)
Theorem state_votes_are_log_votes : forall ops a id,
  votes (run' ops (init a)) id = votes_of id (log (run' ops (init a))).
Proof. intros. apply (inv_votes _ (history_ok ops a)). Qed.

End Histories.
