(* C14 -- Frozen tokens cannot move and a weak network accepts only allowed messages.
   Only statements, each closed by [exact] of a lemma of Proofs/Filters.v / Proofs/Fees.v.
   The loop shape of the two filters is a parameter [sh : shape] of the model; its value for the
   current tree, [gen_shape], is regenerated from app/ante/ante.go (Gen/AnteChain.v) and used by the
   differential run.  The two "iff" theorems say for exactly which shapes the property holds, so
   they stay valid whether or not the code is repaired; the [_refuted] theorems instantiate them
   at the shape the tree had when this was written. *)
From Sekai Require Import Base.Prelude Base.Dec Model.Filters Model.Fees Model.C09Check Gen.AnteChain Gen.TransferSites
  Proofs.Filters Proofs.Fees Proofs.C14Transfers.

(* the native token is never frozen *)
Theorem C14_native_never_frozen : forall t d en_black en_white, is_frozen t d d en_black en_white = false.
Proof. exact native_never_frozen. Qed.
Print Assumptions C14_native_never_frozen.

(* frozen = not native, and blacklisted (blacklist on) or absent from the whitelist (whitelisting on) *)
Theorem C14_frozen_meaning : forall t d nat_ b w,
  is_frozen t d nat_ b w = true <->
  d <> nat_ /\ ((b = true /\ In d (bw_black t)) \/ (w = true /\ ~ In d (bw_white t))).
Proof. exact is_frozen_spec. Qed.
Print Assumptions C14_frozen_meaning.

(* no admitted transaction pays fees with a frozen token *)
Theorem C14_fee_coins_not_frozen : forall c fee ms,
  validate_fee c fee ms = Ok tt -> forall x, In x fee -> frozen (c_filt c) (fst x) = false.
Proof. exact fee_coins_not_frozen. Qed.
Print Assumptions C14_fee_coins_not_frozen.

(* FULL STATEMENT "no admitted transaction moves a frozen token to another account, whatever the
   message type and position" holds exactly when the filter inspects all transfer-capable types *)
Theorem C14_frozen_never_moves_iff : forall sh,
  (forall f ms, bw_loop sh f ms = Ok tt -> forall m, In m ms -> forall d, In d (moved_by (f_native f) m) -> frozen f d = false)
  <-> bw_complete (sh_bw_types sh) = true.
Proof. exact frozen_never_moves_iff. Qed.
Print Assumptions C14_frozen_never_moves_iff.

(* REFUTED on the tree as written (the filter looks at bank MsgSend only): MsgMultiSend and
   custody MsgSend carry a frozen token through *)
Theorem C14_frozen_never_moves_refuted :
  exists f ms, bw_loop shape_at_writing f ms = Ok tt /\
               exists m d, In m ms /\ In d (moved_by (f_native f) m) /\ frozen f d = true.
Proof. exact (frozen_never_moves_incomplete shape_at_writing eq_refl). Qed.
Print Assumptions C14_frozen_never_moves_refuted.

(* what does hold for every shape that inspects bank sends: a bank send of a frozen token is
   refused at every position of the message list *)
Theorem C14_frozen_never_moves_partial : forall sh f ms,
  str_in "send" (sh_bw_types sh) = true -> bw_loop sh f ms = Ok tt ->
  forall from to amt, In (MSend from to amt) ms -> forall d, In d (denoms amt) -> frozen f d = false.
Proof. exact frozen_never_moves_partial. Qed.
Print Assumptions C14_frozen_never_moves_partial.

(* FULL STATEMENT "with fewer validators than the minimum, every message of an admitted
   transaction is on the allowed list or a native transfer within the limit" holds exactly when
   neither arm of the loop ends with `return next(...)` *)
Theorem C14_weak_network_only_allowed_iff : forall sh,
  (forall f ms, 0 <= f_minvals f < two63 -> weak_network f = true -> poor_check sh f ms = Ok tt ->
                Forall (fun m => allowed_on_weak f m = true) ms)
  <-> poor_shape_ok sh = true.
Proof. exact weak_network_only_allowed_iff. Qed.
Print Assumptions C14_weak_network_only_allowed_iff.

(* HOLDS AT FULL STRENGTH for the loop shape regenerated from the current tree (after /repo commit
   7b33f10 both arms `continue`): with fewer validators than the minimum, every message of an
   admitted transaction is on the allowed list or a native transfer within the limit.  If the
   shape regresses, [eq_refl] no longer type-checks and this obligation breaks. *)
Theorem C14_weak_network_only_allowed : forall f ms,
  0 <= f_minvals f < two63 -> weak_network f = true -> poor_check gen_shape f ms = Ok tt ->
  Forall (fun m => allowed_on_weak f m = true) ms.
Proof. exact (fun f ms => weak_network_only_allowed_ok gen_shape f ms eq_refl). Qed.
Print Assumptions C14_weak_network_only_allowed.

(* REFUTED for the `return next(...)` shape the tree had before that commit: only the first
   message is inspected *)
Theorem C14_weak_network_only_allowed_refuted :
  exists f ms, 0 <= f_minvals f < two63 /\ weak_network f = true /\ poor_check shape_at_writing f ms = Ok tt /\
               ~ Forall (fun m => allowed_on_weak f m = true) ms.
Proof. exact (weak_network_only_allowed_broken shape_at_writing eq_refl). Qed.
Print Assumptions C14_weak_network_only_allowed_refuted.

(* what does hold for every shape: the first message is always checked *)
Theorem C14_weak_network_first_checked : forall sh f m ms,
  0 <= f_minvals f < two63 -> weak_network f = true -> poor_check sh f (m :: ms) = Ok tt ->
  allowed_on_weak f m = true.
Proof. exact weak_network_first_checked. Qed.
Print Assumptions C14_weak_network_first_checked.

(* REFUTED for MinValidators >= 2^63, whatever the shape: int(MinValidators) is negative and the
   weak network counts as healthy *)
Theorem C14_weak_network_cast_refuted : forall sh,
  exists f ms, weak_network f = true /\ poor_check sh f ms = Ok tt /\ ~ Forall (fun m => allowed_on_weak f m = true) ms.
Proof. exact weak_network_cast_refuted. Qed.
Print Assumptions C14_weak_network_cast_refuted.

(* The transfer-capable handlers: the table regenerated from x/*/keeper/*.go (every bank SendCoins
   call: module, handler, message type, origin of the coins) is the reviewed one -- a NEW
   account-to-account transfer path, or one whose coins change origin, breaks this obligation ... *)
Theorem C14_transfer_table_reviewed : transfer_gen_errors = [] /\ transfer_sites = reviewed_sites.
Proof. exact transfer_table_reviewed. Qed.
Print Assumptions C14_transfer_table_reviewed.

(* ... every path the current filter leaves open is one of the reviewed, known ones ... *)
Theorem C14_unfiltered_paths_known :
  forallb (fun p => pair_in p reviewed_unfiltered) (unfiltered gen_shape transfer_sites) = true.
Proof. exact unfiltered_paths_known. Qed.
Print Assumptions C14_unfiltered_paths_known.

(* ... the handlers the model represents (custody Send, Ethereum native send) are in the table, the
   Ethereum one as native-only ... *)
Theorem C14_modelled_paths_in_table :
  existsb (fun s => String.eqb (site_type s) "custody_send" && String.eqb (site_class s) "caller")%bool transfer_sites = true /\
  existsb (fun s => String.eqb (site_type s) "ethereum_tx" && String.eqb (site_class s) "native")%bool transfer_sites = true.
Proof. exact modelled_paths_in_table. Qed.
Print Assumptions C14_modelled_paths_in_table.

(* ... and "every such path is filtered" is REFUTED for the reviewed table and the filter as written *)
Theorem C14_all_paths_filtered_refuted : unfiltered shape_at_writing reviewed_sites <> [].
Proof. exact all_paths_filtered_refuted. Qed.
Print Assumptions C14_all_paths_filtered_refuted.

(* ... and the writers of the state the three rules read (token registry, freeze lists,
   execution-fee table, allowed-message list, feeprocessing records) are the reviewed ones: a NEW
   writer breaks this obligation *)
Theorem C14_state_writers_reviewed : state_writers = reviewed_writers.
Proof. exact state_writers_reviewed. Qed.
Print Assumptions C14_state_writers_reviewed.

(* GOVERNANCE of the freeze lists (TokensWhiteBlackChange proposal handler, addTokens): after a
   passed "add" proposal a token is on the list iff it was there or is named -- every named token,
   whatever its position in the proposal's list and whatever was already listed ... *)
Theorem C14_add_proposal_lists_every_named_token : forall addings origin x,
  In x (add_tokens origin addings) <-> In x origin \/ In x addings.
Proof. exact add_tokens_In. Qed.
Print Assumptions C14_add_proposal_lists_every_named_token.

(* ... so, with the blacklist on, every named non-native token is frozen afterwards (and then
   C14_frozen_never_moves_partial / C14_fee_coins_not_frozen apply to it) *)
Theorem C14_add_to_blacklist_freezes_every_named_token : forall f toks x,
  f_en_black f = true -> In x toks -> x <> f_native f ->
  frozen (with_bw f (apply_prop (f_bw f) (mkProp true true toks))) x = true.
Proof. exact add_proposal_then_frozen. Qed.
Print Assumptions C14_add_to_blacklist_freezes_every_named_token.

(* the tree is inside the translator's fragment; both filters sit in the chain after the fee
   deduction and before signature verification, as modelled *)
Theorem C14_translation_side_conditions :
  gen_errors = [] /\ ante_chain = expected_chain.
Proof. exact gen_chain_ok. Qed.
Print Assumptions C14_translation_side_conditions.

(* ---------------- non-vacuity *)
Definition ex_filt : filt :=
  mkFilt "ukex" (mkBW ["frozen"%string] ["ukex"%string; "ubtc"%string]) true true 1 3 ["set_network_properties"%string] 1000.
Example C14_nonvacuous :
  frozen ex_filt "frozen" = true /\ frozen ex_filt "xeth" = true /\ frozen ex_filt "ubtc" = false /\ frozen ex_filt "ukex" = false
  /\ weak_network ex_filt = true
  /\ poor_check shape_repaired ex_filt [MOther "set_network_properties" ["a"%string] false ""; MSend "a" "b" [("ukex"%string, 1000)]] = Ok tt
  /\ poor_check shape_repaired ex_filt [MOther "set_network_properties" ["a"%string] false ""; MSend "a" "b" [("ukex"%string, 1001)]] <> Ok tt
  /\ bw_loop shape_repaired ex_filt [MMulti "a" [("xeth"%string, 5)] [("b"%string, [("xeth"%string, 5)])]] <> Ok tt
  /\ bw_loop shape_repaired ex_filt [MEth "e" "b" 7] = Ok tt /\ moved_by "ukex" (MEth "e" "b" 7) = ["ukex"%string]
  /\ bw_complete (sh_bw_types shape_repaired) = true /\ poor_shape_ok shape_repaired = true.
Proof. vm_compute. repeat split; discriminate. Qed.
