(* C05 -- Validator updates keep consensus and application validator sets equal.
   Only statements, each closed by [exact] of a lemma from Proofs/Validators.v, and its assumptions.
   Model: Model/Validators.v (tied to /repo by the one-step differential run of checks/c05.py);
   [apply_updates] models CometBFT's ValidatorSet.UpdateWithChangeSet and is compared with the real one. *)
From Sekai Require Import Base.Prelude Base.Dec Model.Validators Model.C05Check Model.C15Check Proofs.Validators.

(* The queue invariant [Inv] is preserved by every operation of the alphabet [good]: claim with a
   fresh consensus key, pause / inactivation / jail / upgrade-pause of a validator the consensus
   engine holds, unpause, activate, unjail, new block, and an end block that leaves somebody active. *)
Theorem C05_invariant_preserved_by_every_good_operation :
  forall cfg s o, Inv s -> good cfg s o -> Inv (fst (step cfg s o)).
Proof. exact step_preserves_Inv. Qed.
Print Assumptions C05_invariant_preserved_by_every_good_operation.

Theorem C05_invariant_over_histories :
  forall ops cfg s, Inv s -> goods cfg s ops -> Inv (run cfg s ops).
Proof. exact run_preserves_Inv. Qed.
Print Assumptions C05_invariant_over_histories.

(* One end block, from ANY state satisfying the invariant: the returned updates are accepted by the
   consensus engine, and the resulting consensus set is exactly the set of active validators. *)
Theorem C05_end_block_applicable_and_equal :
  forall s, Inv s -> some_active (joined s) ->
  exists c', end_block s = (set_cons (set_queues (set_pend (joined s) []) [] []) c' false, ROk, eb_updates s) /\
             apply_updates (st_cset s) (eb_updates s) = Some c' /\
             (forall k, In k c' <-> active_key (joined s) k) /\
             Inv (set_cons (set_queues (set_pend (joined s) []) [] []) c' false).
Proof. exact end_block_applicable_and_equal. Qed.
Print Assumptions C05_end_block_applicable_and_equal.

(* Every end block of every history inside the alphabet, by induction over the operation list. *)
Theorem C05_every_end_block_of_every_good_history :
  forall cfg s pre post, Inv s -> goods cfg s (pre ++ OEndBlock :: post) ->
  let s1 := run cfg s pre in
  let s2 := run cfg s (pre ++ [OEndBlock]) in
  exists c', apply_updates (st_cset s1) (eb_updates s1) = Some c' /\
             snd (end_block s1) = eb_updates s1 /\
             st_cset s2 = c' /\ st_halt s2 = false /\
             (forall k, In k (st_cset s2) <-> active_key s2 k).
Proof. exact every_end_block_applicable_and_equal. Qed.
Print Assumptions C05_every_end_block_of_every_good_history.

Theorem C05_statement_partial_good_histories :
  forall cfg s ops, Inv s -> goods cfg s (ops ++ [OEndBlock]) ->
  let s' := run cfg s (ops ++ [OEndBlock]) in
  st_halt s' = false /\ (forall k, In k (st_cset s') <-> active_key s' k).
Proof. exact C05_statement_partial. Qed.
Print Assumptions C05_statement_partial_good_histories.

(* What "the consensus engine can apply them" means in the model of CometBFT: no duplicate key,
   removals present, result not empty => accepted with exactly the expected set; a removal of an
   absent key => refused. *)
Theorem C05_consensus_accepts :
  forall cs ups, NoDup (map fst ups) -> (forall u, In u ups -> snd u = 0 \/ snd u = 1) ->
  (forall k, In k (dels_of ups) -> In k cs) ->
  ((exists k, In k (upds_of ups) /\ ~ In k cs) \/ List.length cs <> List.length (dels_of ups) \/ ups = []) ->
  exists c', apply_updates cs ups = Some c' /\
             (forall k, In k c' <-> (In k cs \/ In k (upds_of ups)) /\ ~ In k (dels_of ups)) /\
             (sorted cs -> sorted c').
Proof. exact apply_updates_ok. Qed.
Print Assumptions C05_consensus_accepts.
Theorem C05_consensus_refuses_absent_removal :
  forall cs ups k, In (k, 0) ups -> ~ In k cs -> apply_updates cs ups = None.
Proof. exact apply_updates_absent_removal. Qed.
Print Assumptions C05_consensus_refuses_absent_removal.

(* Address rotation (recovery MsgRotateRecoveryAddress) of a validator that sits in no queue, onto an
   unused address, and genesis export + import with somebody active are inside the alphabet ([good]):
   export + import re-establishes the equality from any state of the invariant. *)
Theorem C05_rotation_outside_queues_preserves_invariant :
  forall cfg s v v', Inv s -> good_rotate s v v' -> Inv (fst (step cfg s (ORotate v v'))).
Proof. exact Inv_rotate. Qed.
Print Assumptions C05_rotation_outside_queues_preserves_invariant.
Theorem C05_genesis_import_reestablishes_equality :
  forall over s, Inv s -> some_active_now s ->
  Inv (fst (genesis_import over s)) /\ snd (genesis_import over s) = ROk /\
  (forall k, In k (st_cset (fst (genesis_import over s))) <-> exists v r, lookup v (st_vals s) = Some r /\ v_status r = SActive /\ v_cons r = k).
Proof. exact genesis_import_reestablishes. Qed.
Print Assumptions C05_genesis_import_reestablishes_equality.

(* chk_sound: the spec checker of Model/C05Check.v reports nothing on the model's own end block, from
   any state of the invariant and whatever its bookkeeping. *)
Theorem C05_chk_sound_end_block :
  forall c s, Inv s -> some_active (joined s) ->
  let s' := fst (fst (end_block s)) in
  end_block_clauses c s s'
    (mkObs (snd (fst (end_block s))) [] [] [] None None None None None None
           (Some (snd (end_block s), negb (st_halt s'), map (fun k => (k, 1)) (st_cset s')))) = [].
Proof. exact c05_chk_sound_end_block. Qed.
Print Assumptions C05_chk_sound_end_block.

(* The decidable invariant and alphabet used for concrete states are sound. *)
Theorem C05_decidable_invariant_sound : forall s, invb s = true -> Inv s.
Proof. exact invb_sound. Qed.
Print Assumptions C05_decidable_invariant_sound.
Theorem C05_decidable_alphabet_sound : forall ops cfg s, goodsb cfg s ops = true -> goods cfg s ops.
Proof. exact goodsb_sound. Qed.
Print Assumptions C05_decidable_alphabet_sound.

(* The FULL statement (all operations) is refuted by the faithful model; each witness is replayed on
   the real code by the harness and listed in known-findings.txt. *)
Theorem C05_rank_reset_refuted : ~ C05_statement_for [OReset; OEndBlock].
Proof. exact rank_reset_refuted. Qed.
Print Assumptions C05_rank_reset_refuted.
Theorem C05_jail_of_paused_refuted : ~ C05_statement_for [OEvidence [(1, 12, 1010)]; OEndBlock].
Proof. exact jail_of_paused_refuted. Qed.
Print Assumptions C05_jail_of_paused_refuted.
Theorem C05_jail_of_inactive_refuted : ~ C05_statement_for [OEvidence [(1, 13, 1110)]; OEndBlock].
Proof. exact jail_of_inactive_refuted. Qed.
Print Assumptions C05_jail_of_inactive_refuted.
Theorem C05_upgrade_pause_of_paused_or_jailed_refuted : ~ C05_statement_for [OUpPause [1]; OEndBlock].
Proof. exact upgrade_pause_of_paused_refuted. Qed.
Print Assumptions C05_upgrade_pause_of_paused_or_jailed_refuted.
Theorem C05_pause_guard_refuted : ~ C05_statement_for [OPause 0; OEndBlock].
Proof. exact pause_guard_refuted. Qed.
Print Assumptions C05_pause_guard_refuted.
Theorem C05_unpause_then_pause_in_one_block_refuted : ~ C05_statement_for [OUnpause 1; OPause 1; OEndBlock].
Proof. exact unpause_then_pause_refuted. Qed.
Print Assumptions C05_unpause_then_pause_in_one_block_refuted.
Theorem C05_activate_then_pause_in_one_block_refuted : ~ C05_statement_for [OActivate 1; OPause 1; OEndBlock].
Proof. exact activate_then_pause_refuted. Qed.
Print Assumptions C05_activate_then_pause_in_one_block_refuted.
Theorem C05_shared_consensus_key_refuted : ~ C05_statement_for [OClaim 3 1 true; OEndBlock; ONewBlock (5 * NS); OPause 1; OEndBlock].
Proof. exact shared_key_refuted. Qed.
Print Assumptions C05_shared_consensus_key_refuted.
Theorem C05_same_key_claimed_twice_refuted : ~ C05_statement_for [OClaim 3 3 true; OClaim 4 3 true; OEndBlock].
Proof. exact same_key_twice_refuted. Qed.
Print Assumptions C05_same_key_claimed_twice_refuted.
Theorem C05_never_empty_refuted : ~ C05_statement_for [OEvidence [(0, 10, 1000)]; OEndBlock].
Proof. exact never_empty_refuted. Qed.
Print Assumptions C05_never_empty_refuted.

Theorem C05_rotation_while_in_removing_queue_refuted : ~ C05_statement_for [OPause 1; ORotate 1 5; OEndBlock].
Proof. exact rotate_while_queued_refuted. Qed.
Print Assumptions C05_rotation_while_in_removing_queue_refuted.
Theorem C05_rotation_while_in_reactivating_queue_refuted : ~ C05_statement_for [OUnpause 1; ORotate 1 5; OEndBlock].
Proof. exact rotate_while_reactivating_refuted. Qed.
Print Assumptions C05_rotation_while_in_reactivating_queue_refuted.
Theorem C05_genesis_import_nobody_active_refuted : ~ C05_statement_for [OEvidence [(0, 10, 1000)]; OGenesis []].
Proof. exact genesis_import_empty_refuted. Qed.
Print Assumptions C05_genesis_import_nobody_active_refuted.

(* Non-vacuity: the genesis state satisfies the invariant; a six-block history with claims, pause,
   unpause, downtime, activation, evidence, unjail and an upgrade pause lies inside the alphabet and
   ends with four active validators known to the consensus engine. *)
Example C05_nonvacuous_genesis : Inv s_gen.
Proof. exact s_gen_Inv. Qed.
Example C05_nonvacuous_history : goods cfg0 s_gen h_happy.
Proof. exact h_happy_good. Qed.
Example C05_nonvacuous_result :
  let s := run cfg0 s_gen h_happy in
  Inv s /\ st_cset s = [0; 1; 2; 3] /\ st_halt s = false /\ map (fun e => v_status (snd e)) (st_vals s) = [SActive; SActive; SActive; SActive].
Proof. exact h_happy_result. Qed.
Example C05_nonvacuous_rotation_and_genesis :
  goods cfg0 s_gen h_rotate_genesis /\
  let s := run cfg0 s_gen h_rotate_genesis in
  Inv s /\ st_cset s = [0; 1; 7] /\ st_halt s = false /\
  map (fun e => (fst e, v_status (snd e), v_cons (snd e))) (st_vals s) = [(0, SActive, 0); (1, SActive, 7); (2, SJailed, 2); (5, SActive, 1)].
Proof. split; [exact h_rotate_genesis_good|exact h_rotate_genesis_result]. Qed.
