(* C11 -- Basket tokens stay fully backed; mint, burn and swap are value-preserving.
   Only statements, each closed by [exact] of a lemma of Proofs/Basket.v, and its assumptions.
   The model (Model/Basket.v) is tied to /repo on every run by the differential run of the real msg
   server against it; [current] is the code as it is, [repaired] the two proposed repairs
   (fixes/C11-*.patch); the harness probes which one the tree implements. *)
From Sekai Require Import Base.Prelude Base.Dec Model.Basket Model.C11Check Proofs.Basket.

(* Minting yields at most the weighted value deposited (and a positive amount, added to the supply) *)
Theorem C11_mint_le_value : forall s now a dep s', mint s now a dep = Ok s' ->
  let minted := b_amount (s_bk s') - b_amount (s_bk s) in
  0 < minted /\ minted * PREC <= dep_value (b_tokens (s_bk s)) dep /\ s_supply s' = s_supply s + minted.
Proof. exact mint_le_value. Qed.
Print Assumptions C11_mint_le_value.

(* disabled operations are rejected: an accepted mint means mints are enabled and every deposited
   denomination is an underlying token with deposits enabled *)
Theorem C11_mint_respects_switches : forall s now a dep s', mint s now a dep = Ok s' ->
  b_md (s_bk s) = false /\
  forallb (fun c => match find_token (b_tokens (s_bk s)) (fst c) with Some t => t_dep t | None => false end) dep = true.
Proof. exact mint_respects_switches. Qed.
Print Assumptions C11_mint_respects_switches.

(* per-period limits and token caps *)
Theorem C11_mint_respects_limits_and_caps : forall s now a dep s', mint s now a dep = Ok s' ->
  let minted := b_amount (s_bk s') - b_amount (s_bk s) in
  b_mmin (s_bk s) <= minted /\ period_sum (s_hm s') now (b_period (s_bk s)) <= b_mmax (s_bk s)
  /\ s_hm s' = register (s_hm s) now minted /\ validate_cap (b_cap (s_bk s)) (b_tokens (s_bk s')) = Ok true.
Proof. exact mint_respects_limits_and_caps. Qed.
Print Assumptions C11_mint_respects_limits_and_caps.

(* Burning a fraction of the supply returns at most that fraction of each reserve: true of the
   repaired order of reads (supply read before the burn), up to the 10^-18 rounding of Dec.Quo ... *)
Theorem C11_burn_pro_rata_repaired : forall v, v_burn_pre v = true -> pro_rata_statement v.
Proof. exact burn_pro_rata_fixed. Qed.
Print Assumptions C11_burn_pro_rata_repaired.

(* ... REFUTED for the code as it is: of two holders owning half each, the first to burn his half
   receives all reserves (the witness is replayed on the real code by the harness) *)
Theorem C11_burn_pro_rata_refuted : ~ pro_rata_statement current.
Proof. exact burn_pro_rata_refuted. Qed.
Print Assumptions C11_burn_pro_rata_refuted.

(* what does hold of the code as it is: pro rata of the supply LEFT after the burn *)
Theorem C11_burn_pro_rata_partial : forall v s now a d x s', burn v s now a d x = Ok s' ->
  a <> MODULE -> reserves_nonneg (b_tokens (s_bk s)) -> 0 < burn_divisor v s x ->
  forall d', d' <> BDENOM ->
    (s_bal s' a d' - s_bal s a d') * burn_divisor v s x * (2 * PREC)
    <= rsum (b_tokens (s_bk s)) d' * x * (2 * PREC) + rsum (b_tokens (s_bk s)) d' * burn_divisor v s x.
Proof. exact burn_pro_rata_partial. Qed.
Print Assumptions C11_burn_pro_rata_partial.

(* the holder of the whole supply cannot redeem on the current code, and can after the repair *)
Theorem C11_burn_whole_supply_panics_current : burn current sole_state 0 1 0 5000 = Panic "division by zero".
Proof. exact burn_whole_supply_panics_current. Qed.
Print Assumptions C11_burn_whole_supply_panics_current.
Theorem C11_burn_whole_supply_repaired :
  exists s', burn repaired sole_state 0 1 0 5000 = Ok s' /\ s_bal s' 1 1 = 5000 /\ s_supply s' = 0.
Proof. exact burn_whole_supply_repaired. Qed.
Print Assumptions C11_burn_whole_supply_repaired.

Theorem C11_burn_respects_switches_and_limits : forall v s now a d x s', burn v s now a d x = Ok s' ->
  b_bd (s_bk s) = false /\ b_bmin (s_bk s) <= x
  /\ period_sum (s_hb s') now (b_period (s_bk s)) <= b_bmax (s_bk s)
  /\ s_hb s' = register (s_hb s) now x
  /\ validate_cap (b_cap (s_bk s)) (b_tokens (s_bk s')) = Ok true.
Proof. exact burn_respects_switches_and_limits. Qed.
Print Assumptions C11_burn_respects_switches_and_limits.

(* non-vacuity: the refutation witness is an accepted burn of a reachable-looking state *)
Example C11_nonvacuous : exists s', burn current wit_state 0 1 0 1000 = Ok s' /\ s_bal s' 1 1 = 2000 /\ s_bal s' MODULE 1 = 0
                                    /\ s_supply s' = 1000 /\ rsum (b_tokens (s_bk s')) 1 = 0.
Proof. exact wit_burn_current. Qed.
