(* C11 -- Basket tokens stay fully backed; mint, burn and swap are value-preserving.
   Only statements, each closed by [exact] of a lemma of Proofs/Basket.v, and its assumptions.
   The model (Model/Basket.v) is tied to /repo on every run by the differential run of the real msg
   server against it; [current] is the code as it is (EditBasket keeps the amount since 68b9c08),
   [before_68b9c08] the tree before that commit, [repaired] adds the two proposed repairs
   (fixes/C11-burn-supply-before.patch, fixes/C11-upsert-hook-skip.patch); the harness probes which
   variant the tree implements. *)
From Sekai Require Import Base.Prelude Base.Dec Model.Basket Model.C11Check Proofs.Basket.

(* Minting yields at most the weighted value deposited (and a positive amount, added to the supply) *)
Theorem C11_mint_le_value : forall s now a dep s', mint s now a dep = Ok s' ->
  let minted := b_amount (s_bk s') - b_amount (s_bk s) in
  0 < minted /\ minted * PREC <= dep_value (b_tokens (s_bk s)) dep /\ s_supply s' = s_supply s + minted.
Proof. exact mint_le_value. Qed.
Print Assumptions C11_mint_le_value.

(* disabled operations are rejected: an accepted mint means mints are enabled and every deposited
   denomination is an underlying token with deposits enabled *)
Theorem C11_mint_respects_switches : forall s now a dep s', mint s now a dep = Ok s' ->
  b_md (s_bk s) = false /\
  forallb (fun c => match find_token (b_tokens (s_bk s)) (fst c) with Some t => t_dep t | None => false end) dep = true.
Proof. exact mint_respects_switches. Qed.
Print Assumptions C11_mint_respects_switches.

(* per-period limits and token caps *)
Theorem C11_mint_respects_limits_and_caps : forall s now a dep s', mint s now a dep = Ok s' ->
  let minted := b_amount (s_bk s') - b_amount (s_bk s) in
  b_mmin (s_bk s) <= minted /\ period_sum (s_hm s') now (b_period (s_bk s)) <= b_mmax (s_bk s)
  /\ s_hm s' = register (s_hm s) now minted /\ validate_cap (b_cap (s_bk s)) (b_tokens (s_bk s')) = Ok true.
Proof. exact mint_respects_limits_and_caps. Qed.
Print Assumptions C11_mint_respects_limits_and_caps.

(* Burning a fraction of the supply returns at most that fraction of each reserve: true of the
   repaired order of reads (supply read before the burn), up to the 10^-18 rounding of Dec.Quo ... *)
Theorem C11_burn_pro_rata_repaired : forall v, v_burn_pre v = true -> pro_rata_statement v.
Proof. exact burn_pro_rata_fixed. Qed.
Print Assumptions C11_burn_pro_rata_repaired.

(* ... REFUTED for the code as it is: of two holders owning half each, the first to burn his half
   receives all reserves (the witness is replayed on the real code by the harness) *)
Theorem C11_burn_pro_rata_refuted : ~ pro_rata_statement current.
Proof. exact burn_pro_rata_refuted. Qed.
Print Assumptions C11_burn_pro_rata_refuted.

(* what does hold of the code as it is: pro rata of the supply LEFT after the burn *)
Theorem C11_burn_pro_rata_partial : forall v s now a d x s', burn v s now a d x = Ok s' ->
  a <> MODULE -> reserves_nonneg (b_tokens (s_bk s)) -> 0 < burn_divisor v s x ->
  forall d', d' <> BDENOM ->
    (s_bal s' a d' - s_bal s a d') * burn_divisor v s x * (2 * PREC)
    <= rsum (b_tokens (s_bk s)) d' * x * (2 * PREC) + rsum (b_tokens (s_bk s)) d' * burn_divisor v s x.
Proof. exact burn_pro_rata_partial. Qed.
Print Assumptions C11_burn_pro_rata_partial.

(* the holder of the whole supply cannot redeem on the current code, and can after the repair *)
Theorem C11_burn_whole_supply_panics_current : burn current sole_state 0 1 0 5000 = Panic "division by zero".
Proof. exact burn_whole_supply_panics_current. Qed.
Print Assumptions C11_burn_whole_supply_panics_current.
Theorem C11_burn_whole_supply_repaired :
  exists s', burn repaired sole_state 0 1 0 5000 = Ok s' /\ s_bal s' 1 1 = 5000 /\ s_supply s' = 0.
Proof. exact burn_whole_supply_repaired. Qed.
Print Assumptions C11_burn_whole_supply_repaired.

Theorem C11_burn_respects_switches_and_limits : forall v s now a d x s', burn v s now a d x = Ok s' ->
  b_bd (s_bk s) = false /\ b_bmin (s_bk s) <= x
  /\ period_sum (s_hb s') now (b_period (s_bk s)) <= b_bmax (s_bk s)
  /\ s_hb s' = register (s_hb s) now x
  /\ validate_cap (b_cap (s_bk s)) (b_tokens (s_bk s')) = Ok true.
Proof. exact burn_respects_switches_and_limits. Qed.
Print Assumptions C11_burn_respects_switches_and_limits.

(* Books match the bank, as an invariant over ALL histories of mints, burns and swaps by holders
   (arbitrary amounts, arbitrary order), emergency switches, slash / raise hooks, weight slashes,
   end blocks, surplus-withdrawal proposals over ANY list of basket ids (repeated, unknown, empty,
   any order; receiver not the module account) and create-basket proposals, for every variant:
   the supply equals the recorded amount and, per denomination, the module account holds at least
   the recorded reserves plus surplus of ALL baskets together ([Books], [sibs_total]). *)
Theorem C11_books_match_bank : forall v ops s, Forall op_ok ops -> Inv s -> Inv (run v s ops).
Proof. exact books_match_bank. Qed.
Print Assumptions C11_books_match_bank.

(* the surplus withdrawal itself: the books survive ANY id list, and nothing but surplus records
   (and balances) changes -- a repeated id finds its surplus already empty *)
Theorem C11_withdraw_surplus_keeps_books : forall ids s target s', withdraw_ids s target ids = Ok s' -> target <> MODULE ->
  Books s -> Books s' /\ same_but_surplus s s'.
Proof. exact withdraw_ids_books. Qed.
Print Assumptions C11_withdraw_surplus_keeps_books.
Theorem C11_create_keeps_books : forall v s new s', create v s new = Ok s' -> Books s -> Books s' /\ s_bk s' = s_bk s /\ s_supply s' = s_supply s.
Proof. exact create_books. Qed.
Print Assumptions C11_create_keeps_books.
Example C11_withdraw_ops_admitted : forall v, op_ok (OWithdraw [2; 1; 2; 1; 7] 3 [(4, 5)]) /\ op_okE v (OWithdraw [] 1 []) /\ op_okE v (OCreate shell).
Proof. intros v. repeat split; discriminate. Qed.

(* The same invariant at full strength for the tree as it is (EditBasket keeps the stored amount,
   68b9c08): histories may also contain ANY edit proposals with a swap fee in [0,1] -- accepted or
   rejected, changing weights, dropping or adding tokens, limits, caps, flags -- and the recorded
   reserves stay non-negative throughout. *)
Theorem C11_books_match_bank_with_edits : forall v ops s, Forall (op_okE v) ops -> InvE s -> InvE (run v s ops).
Proof. exact books_match_bank_with_edits. Qed.
Print Assumptions C11_books_match_bank_with_edits.
Example C11_current_tree_admits_edits : forall new, fee_ok new -> op_okE current (OEdit new).
Proof. intros new H. split; [reflexivity|exact H]. Qed.

(* edits: with the repair they touch neither amount, supply, surplus nor balances, and every
   accepted edit leaves the supply covered by the new valuation of the reserves ... *)
Theorem C11_edit_keeps_amount_repaired : forall v s new s', v_edit_keep v = true -> edit v s new = Ok s' ->
  b_amount (s_bk s') = b_amount (s_bk s) /\ s_supply s' = s_supply s /\ b_surplus (s_bk s') = b_surplus (s_bk s)
  /\ s_bal s' = s_bal s.
Proof. exact edit_keeps_amount_repaired. Qed.
Print Assumptions C11_edit_keeps_amount_repaired.
Theorem C11_edit_leaves_supply_covered : forall v s new s', edit v s new = Ok s' ->
  exists vs, token_values (b_tokens (s_bk s')) = Ok vs /\ s_supply s' <= trunc_int (zsum vs).
Proof. exact edit_leaves_supply_covered. Qed.
Print Assumptions C11_edit_leaves_supply_covered.
(* ... it was REFUTED for the tree before commit 68b9c08 (amount taken from the proposal) *)
Theorem C11_books_edit_refuted_before_68b9c08 :
  exists s new s', Books s /\ edit before_68b9c08 s new = Ok s' /\ s_supply s' <> b_amount (s_bk s').
Proof. exact books_edit_refuted. Qed.
Print Assumptions C11_books_edit_refuted_before_68b9c08.
(* and it was REFUTED for the pool-upsert hook before 853c45f, which replaced the record of basket 1 *)
Theorem C11_books_upsert_hook_refuted_before_853c45f : exists s, Books s /\ ~ Books (apply before_853c45f s (OUpsertHook true)).
Proof. exact books_upsert_hook_refuted. Qed.
Print Assumptions C11_books_upsert_hook_refuted_before_853c45f.

(* A swap pays out at most the value paid in less fees: for every pair, the amount taken out of
   the reserves, valued at the out weight, is at most the amount paid in less the swap fee valued
   at the in weight, up to half of 10^-18 of the out weight (Dec.Quo rounds half to even); it is
   accepted only for tokens with swaps enabled and at least the minimum value ... *)
Theorem C11_swap_out_le_in_minus_fees : forall b now a acc din xin dout acc' tin tout,
  swap_pair b now a acc (din, xin, dout) = Ok acc' -> fee_ok b ->
  find_token (a_ts acc) din = Some tin -> find_token (a_ts acc) dout = Some tout ->
  0 < t_weight tin -> 0 < t_weight tout ->
  exists out, a_outs acc' = coins_add (a_outs acc) dout out /\ 0 < out /\ 0 < xin
    /\ t_sw tin = true /\ t_sw tout = true /\ b_smin b <= trunc_int (xin * t_weight tin)
    /\ 2 * out * t_weight tout * PREC <= 2 * xin * (PREC - b_fee b) * t_weight tin + t_weight tout.
Proof. exact swap_pair_value. Qed.
Print Assumptions C11_swap_out_le_in_minus_fees.
(* ... and the slippage fee only lowers what is finally paid, per denomination *)
Theorem C11_swap_slippage_only_lowers : forall omf outs ff, final_outs omf outs = Ok ff ->
  forall d, ssum (fst ff) d <= ssum outs d.
Proof. exact final_outs_le. Qed.
Print Assumptions C11_swap_slippage_only_lowers.

Theorem C11_swap_disabled_rejected : forall s now a ps s', swap s now a ps = Ok s' -> b_sd (s_bk s) = false.
Proof. exact swap_respects_switch. Qed.
Print Assumptions C11_swap_disabled_rejected.
Theorem C11_burn_disabled_token_pays_nothing : forall ts p outs, withdraw_coins ts p = Ok outs ->
  forall d, (forall t, In t ts -> t_denom t = d -> t_wd t = false) -> ssum outs d = 0.
Proof. exact burn_disabled_token_pays_nothing. Qed.
Print Assumptions C11_burn_disabled_token_pays_nothing.

(* Backing over histories on the CURRENT code (burns excluded, see the refutation below): over EVERY history of mints and multi-pair swaps by anybody, edit proposals
   (positive weights, fee in [0,1]), switches, the slash / raise hooks as they are, and end blocks,
   the supply exceeds the reserves valued at the weights by at most what it did at the start plus
   the accumulated rounding slack of the swaps (w_out/(2*10^18) + 1 scaled units per pair); the
   slash hook changes no weight on this tree, so there is no slash loss to add. *)
Theorem C11_backed_over_histories : forall v ops s, Forall (op_okB v) ops -> InvB s ->
  InvB (run v s ops) /\ gap (run v s ops) <= Z.max (gap s) 0 + run_slack v s ops.
Proof. exact backed_over_histories. Qed.
Print Assumptions C11_backed_over_histories.
(* The backing invariant at full strength, in the form the property states it ("the supply never exceeds
   the reserves valued at the basket weights"): over EVERY history -- mints, burns (portion taken of the
   supply before the burn), multi-pair swaps, edit / create / withdraw-surplus proposals, switches,
   hooks, end blocks, genesis round trips -- supply * 10^18 - sum(weight_i * reserve_i) stays below its
   starting value (<= 0 for a backed basket) plus the rounding slack: w_out/(2*10^18)+1 per swap pair,
   value/(2*10^18)+1 per burn (scaled units, i.e. less than 10^-18 of the value moved).  No slash
   loss appears because the slash hook changes no weight on this tree.  [burns_guarded]: the bank
   never lets a holder own more of a token than its supply. *)
Theorem C11_backed_over_all_histories : forall v ops s, Forall (op_okF v) ops -> burns_guarded v s ops -> InvF s ->
  InvF (run v s ops) /\ gap (run v s ops) <= Z.max (gap s) 0 + run_slackF v s ops.
Proof. exact backed_over_all_histories. Qed.
Print Assumptions C11_backed_over_all_histories.
Theorem C11_burn_keeps_backing_repaired : forall v s now a d x s', v_burn_pre v = true -> burn v s now a d x = Ok s' ->
  NoDup (denoms (b_tokens (s_bk s))) -> weights_all_pos (b_tokens (s_bk s)) -> reserves_nonneg (b_tokens (s_bk s)) ->
  0 < s_supply s -> x <= s_supply s -> gap s' <= Z.max (gap s) 0 + burn_slack s.
Proof. exact burn_keeps_backing_repaired. Qed.
Print Assumptions C11_burn_keeps_backing_repaired.
Example C11_repaired_admits_burns_and_edits : forall new, fee_ok new -> weights_all_pos (b_tokens new) ->
  op_okF repaired (OBurn 0 1 0 5) /\ op_okF repaired (OEdit new) /\ op_okF repaired (OWithdraw [2; 2] 1 []) /\ op_okF repaired OGenesis.
Proof. intros new H1 H2. split; [reflexivity|]. split; [split; assumption|]. split; exact I. Qed.

(* chk_sound: the spec checker's [books] and [backed] clauses never fire on a run of the model, for ALL
   operation lists, at every step, whatever observations represent the states before and after it *)
Theorem C11_chk_sound_books_backed : forall v l o s pre p,
  Forall (op_okE v) (l ++ [o]) -> Forall (op_okF v) (l ++ [o]) -> burns_guarded v s (l ++ [o]) ->
  InvE s -> InvF s ->
  represents (run v s l) pre -> represents (run v s (l ++ [o])) p -> well_listed p ->
  books_step pre p = true /\ deficit p <= deficit pre + allowance o pre p.
Proof. exact chk_sound_books_backed. Qed.
Print Assumptions C11_chk_sound_books_backed.

(* per operation: minting never widens the gap, an accepted edit closes it *)
Theorem C11_mint_keeps_backing : forall s now a dep s', mint s now a dep = Ok s' -> gap s' <= gap s.
Proof. exact mint_keeps_backing. Qed.
Print Assumptions C11_mint_keeps_backing.
Theorem C11_edit_restores_backing : forall v s new s', edit v s new = Ok s' -> 0 < s_supply s' -> Backed s'.
Proof. exact edit_restores_backing. Qed.
Print Assumptions C11_edit_restores_backing.
(* burns are excluded above because on the code as it is they REFUTE backing outright: a fully backed
   state with consistent books, one accepted burn of x, and the supply left exceeds the reserves'
   value by the whole x (not by rounding) *)
Theorem C11_backed_refuted : exists s a x s', Books s /\ Backed s /\ burn current s 0 a 0 x = Ok s' /\ gap s' = x * PREC.
Proof. exact backed_refuted. Qed.
Print Assumptions C11_backed_refuted.

(* any swap message on a basket that has tokens but no reserves panics (division by the zero average) *)
Theorem C11_swap_without_reserves_panics : forall s now a ps t r,
  b_sd (s_bk s) = false -> b_tokens (s_bk s) = t :: r -> (forall u, In u (t :: r) -> t_amount u = 0) ->
  swap s now a ps = Panic "division by zero".
Proof. exact swap_without_reserves_panics. Qed.
Print Assumptions C11_swap_without_reserves_panics.

(* checker soundness (books clause): an observation the spec checker accepts is a state satisfying
   the invariant, so every model step of a holder from it keeps the books *)
Theorem C11_books_clause_reflects : forall p, books p = true ->
  (forall d, ~ In d (denoms_of p) -> bal_at p MODULE d = 0) -> Books (state_of_post p).
Proof. exact books_reflects. Qed.
Print Assumptions C11_books_clause_reflects.
Theorem C11_books_clause_sound_step : forall v p o s', books p = true ->
  (forall d, ~ In d (denoms_of p) -> bal_at p MODULE d = 0) -> fee_ok (p_bk p) -> op_ok o ->
  step v (state_of_post p) o = Ok s' -> Books s'.
Proof. exact books_clause_sound_step. Qed.
Print Assumptions C11_books_clause_sound_step.

(* non-vacuity of the invariant: a state with two holders satisfies it *)
Example C11_books_nonvacuous : Books wit_state.
Proof. exact wit_books. Qed.

(* non-vacuity: the refutation witness is an accepted burn of a reachable-looking state *)
Example C11_nonvacuous : exists s', burn current wit_state 0 1 0 1000 = Ok s' /\ s_bal s' 1 1 = 2000 /\ s_bal s' MODULE 1 = 0
                                    /\ s_supply s' = 1000 /\ rsum (b_tokens (s_bk s')) 1 = 0.
Proof. exact wit_burn_current. Qed.
