(* C16 -- Identity registry: unique keys stay unique, only owners edit, tips escrowed once.
   Only statements, each closed by [exact] of a lemma from Proofs/Identity.v, and its assumptions.
   The model (Model/Identity.v) is tied to /repo by the differential run of checks/c16.py. *)
From Sekai Require Import Base.Prelude Model.NetPropsLib Model.Identity Model.C16Check Proofs.Identity Proofs.IdentityOwner.

(* ---------------------------------------------------------------- unique keys stay unique *)
(* The two flags of the model are PROBED on the tree under test by the harness:
     del_fix   -- DeleteIdentityRecordById removes the address+key index entry (true since 9fe909f)
     msg_guard -- MsgSetNetworkProperties applies the EnsureUniqueKeys guards (fixes/C16-msg-set-...patch)
   The *_refuted theorems are statements about the OLD variants (flag = false, state [s0]). *)

(* With the guarded message path: after ANY history no two addresses hold the same value under a
   unique key (full strength, no side condition on the operations). *)
Theorem C16_unique_keys_unique :
  forall ops s, KU s -> msg_guard s = true -> KU (run s ops).
Proof. exact unique_keys_unique. Qed.
Print Assumptions C16_unique_keys_unique.

(* Without it (msg_guard = false, the tree as it is until that patch is committed) the full
   statement is REFUTED by the model and by the real code (finding unique@setkeysmsg): *)
Theorem C16_unique_keys_unique_refuted :
  exists s ops, KU s /\ ~ UI (run s ops).
Proof. exists s0, w_unique. exact unique_refuted. Qed.
Print Assumptions C16_unique_keys_unique_refuted.

(* What holds: over all histories (register / edit / delete / request / approve / reject / cancel /
   councilor and validator claims / guarded key-list changes / rotations, all key spellings) in
   which every WHOLE-RECORD write of the network properties satisfies the same guard as the
   single-property path ([guarded]), unique keys stay unique and stored keys stay case-folded. *)
Theorem C16_unique_keys_unique_old_variant_guarded :
  forall ops s, KU s -> guarded s ops -> KU (run s ops).
Proof. exact run_KU. Qed.
Print Assumptions C16_unique_keys_unique_old_variant_guarded.

(* the single-step form, for any operation: the uniqueness check on every write preserves it *)
Theorem C16_unique_step :
  forall s o s', op_guard s o -> step s o = Ok s' -> KU s -> KU s'.
Proof. exact step_KU. Qed.
Print Assumptions C16_unique_step.

(* ---------------------------------------------------------------- verifiers only by approval *)
Theorem C16_verifier_only_by_approval :
  forall ops s r' w, In r' (recs (run s ops)) -> In w (r_ver r') ->
  has_ver s (r_id r') w \/
  exists pre qid post q, ops = pre ++ OHandle w qid true :: post /\
    is_ok (step (run s pre) (OHandle w qid true)) = true /\
    get_req (run s pre) qid = Some q /\ q_ver q = w /\ In (r_id r') (q_rids q).
Proof. exact verifier_history. Qed.
Print Assumptions C16_verifier_only_by_approval.

(* ---------------------------------------------------------------- tips: escrowed once, paid once *)
(* module escrow = what it held before + sum of pending tips, per denomination; request ids unique *)
Theorem C16_tip_escrow_invariant :
  forall base ops s, QE base s -> QE base (run s ops).
Proof. exact run_QE. Qed.
Print Assumptions C16_tip_escrow_invariant.

Theorem C16_tip_escrowed_on_request :
  forall a v rids d n s s', request_msg a v rids d n s = Ok s' ->
  exists dt, reqs s' = reqs s ++ [mkReq (last_qid s + 1) a v rids d n dt] /\ last_qid s' = last_qid s + 1 /\ 0 <= n /\
  forall z e, bal s' z e = bal s z e - (if acct_eqb z (User a) && String.eqb e d then n else 0)
                                   + (if acct_eqb z Gov && String.eqb e d then n else 0).
Proof. exact request_escrows. Qed.
Print Assumptions C16_tip_escrowed_on_request.

(* handled (approved OR rejected): the tip goes to the verifier, the request is gone *)
Theorem C16_tip_paid_to_verifier_on_handle :
  forall v qid yes s s', handle_msg v qid yes s = Ok s' ->
  exists q, get_req s qid = Some q /\ q_ver q = v /\ get_req s' qid = None /\
  forall z d, bal s' z d = bal s z d + (if acct_eqb z (User v) then tip_in q d else 0) - (if acct_eqb z Gov then tip_in q d else 0).
Proof. exact handle_pays_verifier. Qed.
Print Assumptions C16_tip_paid_to_verifier_on_handle.

Theorem C16_tip_refunded_on_cancel :
  forall a qid s s', cancel_msg a qid s = Ok s' ->
  exists q, get_req s qid = Some q /\ q_addr q = a /\ get_req s' qid = None /\
  forall z d, bal s' z d = bal s z d + (if acct_eqb z (User a) then tip_in q d else 0) - (if acct_eqb z Gov then tip_in q d else 0).
Proof. exact cancel_refunds_requester. Qed.
Print Assumptions C16_tip_refunded_on_cancel.

(* the escrow always covers every pending tip: handling or cancelling a pending request can never
   fail for lack of funds in the module account, after any history *)
Theorem C16_escrow_always_sufficient :
  forall base ops s, QE base s -> TN s -> (forall d, 0 <= base d) ->
  forall q to, In q (reqs (run s ops)) -> is_ok (payout (run s ops) q to) = true.
Proof. exact escrow_always_sufficient. Qed.
Print Assumptions C16_escrow_always_sufficient.

(* exactly once: a request id that has left the pending set never comes back, whatever follows *)
Theorem C16_tip_paid_once :
  forall qid ops s, gone qid s -> gone qid (run s ops).
Proof. exact run_gone. Qed.
Print Assumptions C16_tip_paid_once.

(* monikers, however written (register / ClaimValidator / ClaimCouncilor, any key spelling) *)
Theorem C16_moniker_unique :
  forall ops s, KU s -> MK s -> guarded s ops ->
  forall r1 r2, In r1 (recs (run s ops)) -> In r2 (recs (run s ops)) ->
  r_key r1 = "moniker"%string -> r_key r2 = "moniker"%string -> r_val r1 = r_val r2 -> r_owner r1 = r_owner r2.
Proof. exact moniker_unique. Qed.
Print Assumptions C16_moniker_unique.

(* ---------------------------------------------------------------- only owners edit *)
(* FULL STRENGTH for the tree as it is (del_fix = true), over all histories whose rotations go to
   addresses holding no identity records yet ([rot_guarded]; such a target has no account -- checked
   by the code -- and so never signed anything), for BOTH rotation entry points (secret and RR-token
   holder) and with genesis round trips in between: every operation leaves the records of all
   addresses other than its signer untouched, a rotation moves the records unchanged. *)
Theorem C16_only_owner_edits :
  forall ops s o s', W s -> del_fix s = true -> rot_guarded s (ops ++ [o]) ->
  step (run s ops) o = Ok s' -> owner_frame (run s ops) o s'.
Proof. exact only_owner_edits. Qed.
Print Assumptions C16_only_owner_edits.

(* the invariant behind it: index and record store describe the same (owner, key, id) triples and
   every pending request covers only records indexed under its requester *)
Theorem C16_wellformed_histories :
  forall ops s, W s -> del_fix s = true -> rot_guarded s ops -> W (run s ops) /\ del_fix (run s ops) = true.
Proof. exact run_W. Qed.
Print Assumptions C16_wellformed_histories.

(* With the rotation check (rot_check = true, fixes/C16-rotation-target-has-records.patch: both
   rotations refuse a target that already holds identity records) the side condition disappears:
   the two statements hold over ARBITRARY operation lists - registers, edits, deletes, requests,
   approvals, rejections, cancels, claims, unique-key-list changes by proposal and by message, both
   rotations, genesis round trips. *)
Theorem C16_only_owner_edits_always :
  forall ops s o s', W s -> del_fix s = true -> rot_check s = true ->
  step (run s ops) o = Ok s' -> owner_frame (run s ops) o s'.
Proof. exact only_owner_edits_always. Qed.
Print Assumptions C16_only_owner_edits_always.
Theorem C16_edit_drops_always :
  forall ops s o s', W s -> del_fix s = true -> rot_check s = true ->
  step (run s ops) o = Ok s' -> edit_drops_full (run s ops) s'.
Proof. exact edit_drops_always. Qed.
Print Assumptions C16_edit_drops_always.

(* without that check (the tree as it is) the side condition [rot_guarded] cannot be dropped: a rotation into an address that already holds a
   record under the same key leaves that record un-indexed (the invariant fails) *)
Theorem C16_rotation_guard_needed :
  exists s ops, W s /\ del_fix s = true /\ ~ rot_guarded s ops /\ ~ W (run s ops).
Proof. exists sg, w_guard. exact rot_guard_needed. Qed.
Print Assumptions C16_rotation_guard_needed.

(* ---------------------------------------------------------------- an edit drops verifications and cancels requests *)
(* FULL STRENGTH, same histories: whenever an operation changes the value of a record or deletes it,
   no pending request covers it afterwards (they were cancelled and refunded, see
   C16_tip_escrow_invariant) and the record, if it still exists, has no verifications. *)
Theorem C16_edit_drops_verifications_and_cancels :
  forall ops s o s', W s -> del_fix s = true -> rot_guarded s (ops ++ [o]) ->
  step (run s ops) o = Ok s' -> edit_drops_full (run s ops) s'.
Proof. exact edit_drops_verifications_and_cancels. Qed.
Print Assumptions C16_edit_drops_verifications_and_cancels.

(* ---------------------------------------------------------------- the old variant (before 9fe909f) *)
(* OLD variant (del_fix = false): the full statement was REFUTED (finding owner:stale-index, fixed by
   9fe909f): after a rotation the old address edits the record that was moved to the new address. *)
Theorem C16_only_owner_edits_refuted :
  exists s ops o s', KU s /\ step (run s ops) o = Ok s' /\ ~ owner_frame (run s ops) o s'.
Proof. destruct owner_refuted as (s' & H1 & H2). exists s0, w_rot, w_rot_op, s'. split; [exact KU_s0|auto]. Qed.
Print Assumptions C16_only_owner_edits_refuted.

(* same defect: the new owner's edit does not cancel a request made through the stale index *)
Theorem C16_edit_drops_verifications_and_cancels_refuted :
  exists s ops a o s', signer o = a /\ step (run s ops) o = Ok s' /\ ~ edit_drops (run s ops) a s'.
Proof. destruct editdrop_refuted as (s' & H1 & H2). exists s0, w_rot2, 4, w_rot2_op, s'. auto. Qed.
Print Assumptions C16_edit_drops_verifications_and_cancels_refuted.

(* What holds of "changing a record drops its verifications", for every operation except an approving
   handle and a rotation: every record of the new state is literally a record of the old state or
   was written in this transaction with an EMPTY verifier list. *)
Theorem C16_written_records_have_no_verifications :
  forall s o s', approving o = false -> step s o = Ok s' ->
  forall r', In r' (recs s') -> In r' (recs s) \/ r_ver r' = [].
Proof. exact written_records_unverified. Qed.
Print Assumptions C16_written_records_have_no_verifications.

(* What holds of "only owners edit", locally: a record write whose id is unused or used only by the
   writer's own records creates, changes and deletes nothing of any other address.  (The stale
   index left by a rotation is exactly what breaks the premise.) *)
Theorem C16_record_write_frame :
  forall s r s', set_record s r = Ok s' ->
  (forall x, In x (recs s) -> r_id x = r_id r -> r_owner x = r_owner r) ->
  others_untouched (r_owner r) s s'.
Proof. exact set_record_owner_frame. Qed.
Print Assumptions C16_record_write_frame.

(* ---------------------------------------------------------------- the spec checker accepts the model *)
Theorem C16_chk_sound_escrow :
  forall base watch ops s, QE base s -> (forall d, In d denoms -> In (Gov, d) watch) ->
  escrow_ok (snap_of watch s) (snap_of watch (run s ops)) = true.
Proof. exact chk_sound_escrow. Qed.
Print Assumptions C16_chk_sound_escrow.
Theorem C16_chk_sound_unique :
  forall watch ops s pre, KU s -> LU s -> guarded s ops -> unique_ok pre (snap_of watch (run s ops)) = true.
Proof. exact chk_sound_unique. Qed.
Print Assumptions C16_chk_sound_unique.

(* ---------------------------------------------------------------- non-vacuity *)
Definition s1 : state := init_state "moniker,username" 0 [0] [1] [6] [0; 1; 2; 3] [0; 1; 2; 3] bal0 true true [] true true.
Example C16_nonvacuous_wellformed : W s1 /\ del_fix s1 = true /\ rot_check s1 = true /\ msg_guard s1 = true /\ KU s1 /\ MK s1 /\ LU s1.
Proof.
  split; [apply W_init|split; [reflexivity|split; [reflexivity|split; [reflexivity|split; [split; intros r; simpl; tauto|split; vm_compute; reflexivity]]]]].
Qed.
(* a guarded history with a rotation, after which the NEW owner edits and the old one cannot *)
Example C16_nonvacuous_rotation :
  let ops := [ORegister 100 0 [("twitter", "t0")]; ORequest 0 2 [1] "ukex" 0; ORotate 0 4 true]%string in
  rot_guarded s1 (ops ++ [ORegister 101 4 [("twitter", "t1")]%string]) /\
  recs (run s1 ops) = [mkRec 1 4 "twitter" "t0" 100 []]%string /\
  is_ok (step (run s1 ops) (ORegister 101 4 [("twitter", "t1")]%string)) = true /\
  recs (run s1 (ops ++ [ORegister 101 0 [("twitter", "stolen")]%string])) = [mkRec 1 4 "twitter" "t0" 100 []; mkRec 2 0 "twitter" "stolen" 101 []]%string.
Proof. split; [cbn [rot_guarded rot_guard app]; repeat split; vm_compute; reflexivity|]. vm_compute. repeat split. Qed.

Example C16_nonvacuous_start : KU s0 /\ QE (fun _ => 0) s0.
Proof. split; [exact KU_s0|exact QE_s0]. Qed.
(* a history that registers, requests with a tip, approves: the verifier is on the record, was paid,
   the escrow is empty again *)
Example C16_nonvacuous_history :
  let s := run s0 [ORegister 100 0 [("Moniker", "alice")]; ORequest 0 2 [1] "ukex" 300; OHandle 2 1 true]%string in
  recs s = [mkRec 1 0 "moniker" "alice" 100 [2]]%string /\ reqs s = [] /\
  bal s (User 2) "ukex" = 5300 /\ bal s (User 0) "ukex" = 4700 /\ bal s Gov "ukex" = 0.
Proof. vm_compute. repeat split. Qed.
