(* C18 -- Spending pools, UBI and collectives pay only the entitled and only what is owed.
   Only statements, each closed by [exact] of a lemma from Proofs/Payouts.v, and its assumptions.
   Models: Model/Spending.v, Model/Ubi.v, Model/Collectives.v (tied to /repo by the differential
   run of harness/cmd/c18, evaluated with Model/C18Check.v). *)
From Sekai Require Import Base.Prelude Base.Dec Model.Spending Model.Ubi Model.Collectives Model.C18Check Proofs.Payouts.

(* ---------------------------------------------------------------- spending pools *)
(* A claim pays, per token, at most rate x seconds x weight, rounded to the nearest unit (one extra
   10^-18 from the second sdk.Dec multiplication), where the seconds are the time elapsed since the
   last claim inside the claim window, clipped to the expiry -- for every pool, account, time. *)
Theorem C18_claim_le_entitlement : forall actors P a last now rw,
  claim_pay actors P a last now = Ok rw ->
  let T := p_terms P in let w := weight_of actors T a in
  Forall (fun e => 0 <= snd e * w) (t_rates T) ->
  forall d, 0 <= rw d /\
            2 * rw d * PREC * PREC <= ent_bound (t_rates T) (entitled_seconds T last now) w d.
Proof. exact claim_le_entitlement. Qed.
Print Assumptions C18_claim_le_entitlement.

(* the same bound with the duration the code computed, without any sign condition *)
Theorem C18_claim_le_rate_times_duration : forall actors P a last now rw,
  claim_pay actors P a last now = Ok rw ->
  exists dur, claim_duration P last now = Some dur /\
    forall d, 2 * rw d * PREC * PREC <= ent_bound (t_rates (p_terms P)) dur (weight_of actors (p_terms P) a) d.
Proof. exact claim_le_rate_times_duration. Qed.
Print Assumptions C18_claim_le_rate_times_duration.

(* never more of a token than the pool's recorded balance; the record is reduced by what was paid *)
Theorem C18_claim_le_pool_book : forall actors now p a s s', sp_claim actors now p a s = Ok s' ->
  exists P P' rw,
    zget p (s_pools s) = Some P /\ zget p (s_pools s') = Some P' /\
    (forall d, p_bal P' d = p_bal P d - rw d) /\
    (forall d, s_bank s' a d - s_bank s a d = (if a =? MODULE then 0 else rw d)) /\
    (forall d, 0 <= rw d) /\
    (forall d, 0 <= p_bal P d -> rw d <= p_bal P d).
Proof. exact claim_le_pool_book. Qed.
Print Assumptions C18_claim_le_pool_book.

(* only registered beneficiaries are paid by a claim *)
Theorem C18_only_registered_beneficiaries : forall actors now p a s s', sp_claim actors now p a s = Ok s' ->
  exists P last, zget p (s_pools s) = Some P /\ pget (p, a) (s_claims s) = Some last /\
                 is_allowed_ben actors (p_terms P) a = true /\ weight_of actors (p_terms P) a <> 0.
Proof. exact only_registered_beneficiaries. Qed.
Print Assumptions C18_only_registered_beneficiaries.

(* over every history of messages, passed proposals, end blocks and plain transfers: whenever the
   module account ends up with less of a token than it started with, the history contains an accepted
   claim or passed distribution / withdraw proposal *)
Theorem C18_pool_funds_leave_only_by_claim_or_passed_proposal : forall dynguard payout_safe quorum_checked actors U h s d,
  Forall (fun e => op_wf (snd e)) h ->
  s_bank (sp_run dynguard payout_safe quorum_checked actors U s h) MODULE d < s_bank s MODULE d ->
  exists e, In e h /\ is_payout (snd e) = true /\ exists s0, is_ok (sp_apply dynguard payout_safe quorum_checked actors U (fst e) (snd e) s0) = true.
Proof. exact pool_funds_leave_only_by_claim_or_passed_proposal. Qed.
Print Assumptions C18_pool_funds_leave_only_by_claim_or_passed_proposal.

Theorem C18_one_step_outflow_needs_payout_op : forall dynguard payout_safe quorum_checked actors U now o s s' d, sp_apply dynguard payout_safe quorum_checked actors U now o s = Ok s' -> op_wf o ->
  s_bank s' MODULE d < s_bank s MODULE d -> is_payout o = true.
Proof. exact module_outflow_needs_payout_op. Qed.
Print Assumptions C18_one_step_outflow_needs_payout_op.

(* over every history the pools' recorded balances never exceed what the module account holds *)
Theorem C18_books_le_module_balance : forall dynguard payout_safe quorum_checked actors U h s,
  Forall (fun e => op_wf (snd e)) h -> books_inv s -> books_inv (sp_run dynguard payout_safe quorum_checked actors U s h).
Proof. exact books_le_module. Qed.
Print Assumptions C18_books_le_module_balance.

(* ---------------------------------------------------------------- ubi *)
(* every distribution passed the period gate, pays the record's amount and stamps the record *)
Theorem C18_ubi_paid_only_when_due : forall gate big now s s' paid id x,
  NoDup (map fst (us_recs s)) -> ubi_endblock gate big now s = Ok (s', paid) -> In (id, x) paid ->
  exists r, In (id, r) (us_recs s) /\ ubi_due gate now r = true /\ 0 <= x /\ (u_dyn r = false -> x = ubi_amount big r)
            /\ uget id (us_recs s') = Some (touch now r) /\ NoDup (map fst (us_recs s')).
Proof. exact ubi_paid_only_when_due. Qed.
Print Assumptions C18_ubi_paid_only_when_due.

(* at most once per period -- on the earlier gate `now > last+period` (gate_exact = false; kept because
   the model carries both shapes) the FULL statement is
   refuted by uint64 wrap-around (Period = 2^64-1) ... *)
Theorem C18_ubi_once_per_period_refuted :
  exists t1 t2 s s1 s2 p1 p2 id x1 x2 r,
    NoDup (map fst (us_recs s)) /\
    ubi_endblock false false t1 s = Ok (s1, p1) /\ In (id, x1) p1 /\
    ubi_endblock false false t2 s1 = Ok (s2, p2) /\ In (id, x2) p2 /\
    In (id, r) (us_recs s) /\ 0 <= t1 /\ 0 <= u_period r /\ ~ (t1 + u_period r < t2).
Proof. exact ubi_once_per_period_refuted. Qed.
Print Assumptions C18_ubi_once_per_period_refuted.

(* ... and true whenever last+period stays below 2^64 *)
Theorem C18_ubi_once_per_period_guarded : forall big t1 t2 s s1 s2 p1 p2 id x1 x2,
  NoDup (map fst (us_recs s)) ->
  ubi_endblock false big t1 s = Ok (s1, p1) -> In (id, x1) p1 ->
  ubi_endblock false big t2 s1 = Ok (s2, p2) -> In (id, x2) p2 ->
  exists r, In (id, r) (us_recs s) /\
            (0 <= t1 -> 0 <= u_period r -> t1 + u_period r < two64 -> t1 + u_period r < t2).
Proof. exact ubi_once_per_period_guarded. Qed.
Print Assumptions C18_ubi_once_per_period_guarded.

(* HEADLINE for the tree as it is (probe gate_exact = true, commit 05a7d1b): at full strength on the
   gate `now > last && now-last > period` -- no wrap-around guard *)
Theorem C18_ubi_once_per_period_repaired : forall big t1 t2 s s1 s2 p1 p2 id x1 x2,
  NoDup (map fst (us_recs s)) ->
  ubi_endblock true big t1 s = Ok (s1, p1) -> In (id, x1) p1 ->
  ubi_endblock true big t2 s1 = Ok (s2, p2) -> In (id, x2) p2 ->
  exists r, In (id, r) (us_recs s) /\ (0 <= u_period r -> t1 + u_period r < t2).
Proof. exact ubi_once_per_period_repaired. Qed.
Print Assumptions C18_ubi_once_per_period_repaired.

(* ---------------------------------------------------------------- collectives *)
(* an accepted withdrawal happens after the lock, returns round((1-d)b)+round(d*b) of every bonded
   token -- within one unit of the bonds b -- to the contributor *)
Theorem C18_withdraw_returns_bonds_after_lock : forall U now a c s s', 0 <= a -> 0 <= c -> NoDup U ->
  co_withdraw U now a c s = Ok s' ->
  exists C cc cb db,
    zget c (cs_colls s) = Some C /\ zget a (co_contribs C) = Some cc /\
    cc_lock cc <= now /\
    withdraw_parts U cc = Ok (cb, db) /\
    (forall d, cs_bank s' a d - cs_bank s a d = sent U cb d + sent U db d) /\
    (forall d, In d U -> cb d + db d - 1 <= cc_bonds cc d + 1 /\ cc_bonds cc d - 1 <= cb d + db d) /\
    (forall d, In d U -> sent U cb d = cb d /\ sent U db d = db d).
Proof. exact withdraw_returns_bonds_after_lock. Qed.
Print Assumptions C18_withdraw_returns_bonds_after_lock.

Theorem C18_locked_withdraw_rejected : forall U now a c s C cc,
  zget c (cs_colls s) = Some C -> zget a (co_contribs C) = Some cc -> now < cc_lock cc ->
  is_ok (co_withdraw U now a c s) = false.
Proof. exact locked_withdraw_rejected. Qed.
Print Assumptions C18_locked_withdraw_rejected.

(* "exactly" read literally is refuted (one unit of rounding: 3 bonded at donation 0.5 return 4) *)
Theorem C18_withdraw_exact_refuted :
  exists s s' a C cc, co_withdraw [0] 100 a 0 s = Ok s' /\ zget 0 (cs_colls s) = Some C /\
    zget a (co_contribs C) = Some cc /\ cs_bank s' a 0 - cs_bank s a 0 = cc_bonds cc 0 + 1.
Proof. exact withdraw_exact_refuted. Qed.
Print Assumptions C18_withdraw_exact_refuted.

(* "can withdraw once the lock has expired" is refuted: rounding drift between the two addresses *)
Theorem C18_withdraw_after_lock_refuted :
  exists s a C cc, zget 0 (cs_colls s) = Some C /\ zget a (co_contribs C) = Some cc /\ cc_lock cc <= 100 /\
    is_ok (co_withdraw [0] 100 a 0 s) = false.
Proof. exact withdraw_after_lock_refuted. Qed.
Print Assumptions C18_withdraw_after_lock_refuted.

(* on the unrepaired Apply (probe: remove_atomic = false) a passed remove proposal may pay part of a
   contributor's bonds and keep the record (the error of ExecuteCollectiveRemove is discarded) *)
Theorem C18_removal_partial_payout_refuted :
  exists s s' a C', co_remove false [0] 0 s = Ok s' /\ zget 0 (cs_colls s') = Some C' /\ zhas a (co_contribs C') = true /\
    0 < cs_bank s' a 0 - cs_bank s a 0.
Proof. exact removal_partial_payout_refuted. Qed.
Print Assumptions C18_removal_partial_payout_refuted.

(* donations: messages never touch the module account holding them; a passed send-donation
   proposal pays at most the recorded donation balance and reduces the record by the same amount *)
Theorem C18_donations_leave_only_by_proposal : forall ratomic actors U now o s s',
  co_apply ratomic actors U now o s = Ok s' -> co_user_op o -> cs_bank s' CMODULE = cs_bank s CMODULE.
Proof. exact donations_untouched_by_messages. Qed.
Print Assumptions C18_donations_leave_only_by_proposal.

Theorem C18_send_donation_le_book : forall c to amt s s', co_send_donation c to amt s = Ok s' ->
  exists C C', zget c (cs_colls s) = Some C /\ zget c (cs_colls s') = Some C' /\
    (forall d, In d (cdenoms amt) -> cof amt d <= co_donations C d) /\
    (forall d, co_donations C' d = co_donations C d - cof amt d) /\
    (forall d, 0 <= cof amt d) /\
    cs_bank s' = bank_send (cs_bank s) CMODULE to (cof amt).
Proof. exact send_donation_le_book. Qed.
Print Assumptions C18_send_donation_le_book.

(* ---------------------------------------------------------------- round 2 *)
(* over every history a (pool, account) claim record exists only if that account registered, or an
   address rotation (x/recovery) moved a record to that account *)
Theorem C18_claim_records_only_by_register : forall dynguard payout_safe quorum_checked actors U h s k,
  pget k (s_claims (sp_run dynguard payout_safe quorum_checked actors U s h)) <> None ->
  pget k (s_claims s) <> None \/ (exists now a p, In (now, ORegister a p) h /\ k = (p, a))
  \/ (exists now a b, In (now, ORotate a (snd k) b) h).
Proof. exact claim_records_only_by_register. Qed.
Print Assumptions C18_claim_records_only_by_register.

(* chk_sound for claims: what the model pays on a claim passes the spec checker's payment clauses
   (over_entitlement, paid_unregistered, paid_non_beneficiary, over_book, negative_payment) whenever
   the checker's ghost record agrees with the model state *)
Theorem C18_model_claim_passes_checker : forall actors U S now p a s s' P,
  sp_claim actors now p a s = Ok s' -> zget p (s_pools s) = Some P ->
  zget p (ss_terms S) = Some (p_terms P) ->
  (forall d, In d U -> fget p (ss_book S) d = p_bal P d) ->
  pget (p, a) (ss_last S) = pget (p, a) (s_claims s) -> ss_actors S = actors ->
  NoDup (map fst (t_rates (p_terms P))) -> (forall e, In e (t_rates (p_terms P)) -> 0 <= snd e) ->
  (forall w, In w (granted_weights actors (p_terms P) a) -> 0 <= w) ->
  (forall d, 0 <= p_bal P d) -> a <> MODULE ->
  check_payment U S now p a (csub (s_bank s' a) (s_bank s a)) = [].
Proof. exact model_claim_passes_checker. Qed.
Print Assumptions C18_model_claim_passes_checker.

(* over every history of messages, proposals (send donation, remove in either variant) and seeded
   donations: each contributor's bond record equals the ghost sum -- set by create, increased by
   contribute, cleared by withdraw and for every record a removal deleted, renamed by an address rotation *)
Theorem C18_bonds_are_sum_of_contributions : forall ratomic actors U h sg,
  bonds_inv sg -> bonds_inv (gs_run ratomic actors U sg h).
Proof. exact bonds_are_sum_of_contributions. Qed.
Print Assumptions C18_bonds_are_sum_of_contributions.

(* HEADLINE for the tree as it is (probe remove_atomic = true, commit ef42471): with the error returned
   by Apply a removal is all or nothing *)
Theorem C18_removal_all_or_nothing : forall U c s s', co_remove true U c s = Ok s' -> cs_colls s' = zdel c (cs_colls s).
Proof. exact removal_all_or_nothing. Qed.
Print Assumptions C18_removal_all_or_nothing.

(* ---------------------------------------------------------------- round 5: address rotation *)
(* the two history theorems with the gov actors (roles) following every accepted address rotation *)
Theorem C18_books_le_module_with_rotations : forall dynguard payout_safe quorum_checked order U h w,
  Forall (fun e => op_wf (snd e)) h -> books_inv (snd w) ->
  books_inv (snd (spw_run dynguard payout_safe quorum_checked order U w h)).
Proof. exact books_le_module_with_rotations. Qed.
Print Assumptions C18_books_le_module_with_rotations.

Theorem C18_funds_leave_only_by_payout_with_rotations : forall dynguard payout_safe quorum_checked order U h w d,
  Forall (fun e => op_wf (snd e)) h ->
  s_bank (snd (spw_run dynguard payout_safe quorum_checked order U w h)) MODULE d < s_bank (snd w) MODULE d ->
  exists e, In e h /\ is_payout (snd e) = true.
Proof. exact funds_leave_only_by_payout_with_rotations. Qed.
Print Assumptions C18_funds_leave_only_by_payout_with_rotations.

(* ---------------------------------------------------------------- non-vacuity *)
Definition ex_terms : terms := mkTerms 100 0 1000 [(1, 2500000000000000000)] [] [(7, 500000000000000000)] false 0.
Definition ex_state : sstate :=
  mkS [(0, mkPool ex_terms (cof [(1, 1000)]) 0)] [((0, 7), 110)] (fun a => if a =? MODULE then cof [(1, 1000)] else czero).
(* 2.5/s x 40 s x weight 0.5 = 50 units are paid, the book goes from 1000 to 950 *)
Example C18_nonvacuous_claim :
  on_ok (sp_claim [] 150 0 7 ex_state) (fun s' =>
    (s_bank s' 7 1 =? 50) && on_some (zget 0 (s_pools s')) (fun P => p_bal P 1 =? 950)) = true.
Proof. vm_compute. reflexivity. Qed.
Example C18_nonvacuous_ubi :
  on_ok (ubi_endblock true true 1000 (mkUS [(1, mkU 0 0 900 2 60 1 false)] [(1, 5)] 0)) (fun r => us_minted (fst r) =? 2000000) = true.
Proof. vm_compute. reflexivity. Qed.
Example C18_nonvacuous_withdraw :
  on_ok (co_withdraw [0] 100 1 0 s_exact) (fun s' => cs_bank s' 1 0 - cs_bank s_exact 1 0 =? 4) = true.
Proof. vm_compute. reflexivity. Qed.
