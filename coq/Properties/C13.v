(* C13 -- Monetary policy bounds: inflation, UBI and supply caps are never exceeded.
   Only statements, each closed by [exact] of a lemma from Proofs/Monetary.v, and its assumptions.
   The model (Model/Monetary.v) is tied to /repo by the differential run of checks/c13.py.  Two things
   are regenerated from the source tree on every run (Gen/MintBurn.v): the table of MintCoins/BurnCoins
   call sites, and [tree_config]: the shapes of five guards (cap guard of the tokens msg server, UBI
   hard-cap arithmetic, UBI payout amount, UBI due test, MintIssueTx bond-denom refusal).  A statement
   that depends on a guard is a Prop over the configuration; it is proved for the repaired shape,
   refuted for the shape first found, and stated for [tree_config] itself. *)
From Sekai Require Import Base.Prelude Base.Dec Model.Monetary Model.C13Check Gen.MintBurn Proofs.Monetary Proofs.MonetarySound.

(* ================================================================== block inflation *)
(* Inflation never lifts supply above the period snapshot grown pro rata at the configured rate:
   after the allocation of a block, supply <= max(supply before, snapshot + ceil(snapshot * rate * dt / period)),
   for every state, time step, parameter setting (rate >= 0, period > 0 as validated by x/gov) and guard shape. *)
Theorem C13_inflation_le_target : forall cf s dt s1 s2 s3 a,
  block_parts cf s dt = Ok (s1, s2, s3) ->
  sn_amt (s_psnap s) = Some a -> 0 <= a -> 0 <= p_rate (s_params s) ->
  sn_time (s_psnap s) <= s_now s + dt -> 0 < as_int64 (p_period (s_params s)) ->
  nat_supply s1 <= Z.max (nat_supply s)
     (a + cdiv (a * p_rate (s_params s) * (s_now s + dt - sn_time (s_psnap s))) (PREC * as_int64 (p_period (s_params s)))).
Proof. exact block_inflation_le_target. Qed.
Print Assumptions C13_inflation_le_target.

(* sharp form: the computed target exceeds the exact pro-rata growth by at most half of 10^-18 base units *)
Theorem C13_inflation_target_sharp : forall ps rate period now a tgt,
  sn_amt ps = Some a -> 0 <= a -> 0 <= rate -> sn_time ps <= now -> 0 < as_int64 period ->
  target_supply ps rate period now = Ok tgt ->
  a <= tgt /\ 2 * (tgt - a) * PREC * as_int64 period <= 2 * (a * rate * (now - sn_time ps)) + as_int64 period.
Proof. exact target_sharp. Qed.
Print Assumptions C13_inflation_target_sharp.

(* with floor instead of ceiling the bound is false (by one base unit, for a contrived rate 10^-18) *)
Definition inflation_le_floor_target_statement : Prop := forall ps rate period now a tgt,
  sn_amt ps = Some a -> 0 <= a -> 0 <= rate -> sn_time ps <= now -> 0 < as_int64 period ->
  target_supply ps rate period now = Ok tgt ->
  tgt <= a + (a * rate * (now - sn_time ps)) / (PREC * as_int64 period).
Theorem C13_inflation_le_floor_target_refuted : ~ inflation_le_floor_target_statement.
Proof.
  intros H. destruct target_floor_refuted as (ps & rate & period & now & a & tgt & H1 & H2 & H3 & H4 & H5 & H6 & H7).
  specialize (H ps rate period now a tgt H1 H2 H3 H4 H5 H6). lia.
Qed.
Print Assumptions C13_inflation_le_floor_target_refuted.

(* all new native tokens of a block are inflation (first) and UBI (second) *)
Theorem C13_block_supply_decomposition : forall cf s dt s1 s2 s3, block_parts cf s dt = Ok (s1, s2, s3) ->
  nat_supply s <= nat_supply s1 /\ nat_supply s1 <= nat_supply s2 /\ nat_supply s3 = nat_supply s2.
Proof. exact block_supply_decomposition. Qed.
Print Assumptions C13_block_supply_decomposition.

(* ================================================================== annual gate *)
(* No inflationary minting (block inflation or UBI) happens in a block that starts once supply has
   grown over the year-start snapshot by the annual maximum pro-rated by the month index
   (spec_gate_closed: growth >= maxann * months / 12 + 2e-18, the slack of the decimal arithmetic). *)
Theorem C13_no_mint_after_annual_max : forall cf s dt s1 s2 s3,
  0 <= p_maxann (s_params s) ->
  spec_gate_closed (s_ysnap s) (p_maxann (s_params s)) (nat_supply s) (s_now s + dt) = true ->
  block_parts cf s dt = Ok (s1, s2, s3) ->
  nat_supply s1 = nat_supply s /\ nat_supply s2 = nat_supply s /\ nat_supply s3 = nat_supply s.
Proof. exact no_mint_after_annual_max_lemma. Qed.
Print Assumptions C13_no_mint_after_annual_max.

(* ... and record by record INSIDE a block: every UBI mint happens with the gate still open at the
   supply reached just before it -- the inflation of the same block and the payouts of the records
   processed earlier in it included; the mints listed add up to the UBI part of the block's growth.
   (Several records falling due together are not each checked against the allowance left at block
   start: the gate is re-read after every payout.) *)
Theorem C13_annual_gate_holds_between_ubi_records_of_one_block : forall cf s dt s1 s2 s3, 0 <= p_maxann (s_params s) ->
  block_parts cf s dt = Ok (s1, s2, s3) ->
  chk_ubi_gate (s_ysnap s) (s_params s) (s_now s + dt) (nat_supply s1) (ubi_mints cf (s_ubis s1) s1) = true /\
  zsum (ubi_mints cf (s_ubis s1) s1) = nat_supply s2 - nat_supply s1.
Proof. exact block_ubi_gate_lemma. Qed.
Print Assumptions C13_annual_gate_holds_between_ubi_records_of_one_block.

(* a genesis export / wipe / import leaves supply, registry, UBI records, pools, parameters and the
   annual gate where they were (the harness replays real round trips inside the histories; the checker's
   own record of the year start carries across, so an allowance re-opened by a round trip is a violation) *)
Theorem C13_genesis_round_trip_is_identity : forall s,
  nat_supply (genesis_roundtrip s) = nat_supply s /\ s_reg (genesis_roundtrip s) = s_reg s /\ s_bank (genesis_roundtrip s) = s_bank s
  /\ s_ubis (genesis_roundtrip s) = s_ubis s /\ s_pools (genesis_roundtrip s) = s_pools s /\ s_params (genesis_roundtrip s) = s_params s
  /\ sn_time (s_ysnap (genesis_roundtrip s)) = sn_time (s_ysnap s) /\ sn_time (s_psnap (genesis_roundtrip s)) = sn_time (s_psnap s)
  /\ (forall m sup now, inflation_possible (s_ysnap (genesis_roundtrip s)) m sup now = inflation_possible (s_ysnap s) m sup now).
Proof. exact genesis_roundtrip_identity. Qed.
Print Assumptions C13_genesis_round_trip_is_identity.

(* ================================================================== UBI *)
(* A UBI record is accepted only if the yearly total of all records stays within the hard cap. *)
Theorem C13_ubi_within_hardcap_on_this_tree :
  if cf_ubi_exact tree_config then ubi_hardcap_statement tree_config else ~ ubi_hardcap_statement tree_config.
Proof. exact (ubi_hardcap_decided tree_config). Qed.
Print Assumptions C13_ubi_within_hardcap_on_this_tree.

(* repaired handler (sdk.Int arithmetic, zero period refused; fixes/C13-ubi-hardcap-exact.patch): full strength *)
Theorem C13_ubi_within_hardcap_exact : forall cf s name amount period start end_ pool s',
  cf_ubi_exact cf = true -> Forall ubi_dom (s_ubis s) ->
  ubi_upsert cf s name amount period start end_ pool = Ok s' ->
  spec_ubi_yearly (s_ubis s') <= p_hardcap (s_params s') /\ p_hardcap (s_params s') = p_hardcap (s_params s) /\ period <> 0.
Proof. exact ubi_within_hardcap_exact_lemma. Qed.
Print Assumptions C13_ubi_within_hardcap_exact.

(* uint64 handler: holds as long as the uint64 arithmetic does not wrap ... *)
Theorem C13_ubi_within_hardcap_u64 : forall cf s name amount period start end_ pool s',
  cf_ubi_exact cf = false -> no_u64_overflow (s_ubis s) amount period ->
  ubi_upsert cf s name amount period start end_ pool = Ok s' ->
  spec_ubi_yearly (s_ubis s') <= p_hardcap (s_params s') /\ p_hardcap (s_params s') = p_hardcap (s_params s).
Proof. exact ubi_within_hardcap_lemma. Qed.
Print Assumptions C13_ubi_within_hardcap_u64.

(* ... and is false otherwise: amount * 31556952 wraps (witness replayed on the real handler by the harness) *)
Theorem C13_ubi_overflow_refuted : forall cf, cf_ubi_exact cf = false -> ~ ubi_hardcap_statement cf.
Proof. intros cf E. pose proof (ubi_hardcap_decided cf) as H. rewrite E in H. exact H. Qed.
Print Assumptions C13_ubi_overflow_refuted.

(* the end blocker pays a record only when its period has elapsed since the last payout *)
Theorem C13_ubi_due_only_after_period_on_this_tree :
  if cf_ubi_due_exact tree_config then ubi_due_statement tree_config else ~ ubi_due_statement tree_config.
Proof. exact (ubi_due_decided tree_config). Qed.
Print Assumptions C13_ubi_due_only_after_period_on_this_tree.

Theorem C13_ubi_period_wrap_refuted : forall cf, cf_ubi_due_exact cf = false -> ~ ubi_due_statement cf.
Proof. intros cf E. pose proof (ubi_due_decided cf) as H. rewrite E in H. exact H. Qed.
Print Assumptions C13_ubi_period_wrap_refuted.

Theorem C13_ubi_due_exact : forall cf, cf_ubi_due_exact cf = true -> ubi_due_statement cf.
Proof. intros cf E. pose proof (ubi_due_decided cf) as H. rewrite E in H. exact H. Qed.
Print Assumptions C13_ubi_due_exact.

(* UBI mints in one block at most the amount of every record whose period has elapsed (records
   within the uint64 domain; amount and due test exact by repair, or because the records are small) *)
Theorem C13_ubi_payout_bound : forall cf s dt s1 s2 s3, block_parts cf s dt = Ok (s1, s2, s3) ->
  pools_nonneg s -> Forall (ubi_pay_ok cf) (s_ubis s) ->
  0 <= nat_supply s2 - nat_supply s1 <= spec_ubi_due_total (s_now s + dt) (s_ubis s) /\ pools_nonneg s3.
Proof. exact block_ubi_payout_lemma. Qed.
Print Assumptions C13_ubi_payout_bound.

(* a state already over the hard cap (the genesis state: 6,087,375 per year against the default cap
   6,000,000) is not an acceptance; there the exact handler accepts nothing more *)
Theorem C13_ubi_over_cap_rejects : forall cf s name amount period start end_ pool s',
  cf_ubi_exact cf = true -> Forall ubi_dom (s_ubis s) -> 0 <= amount -> 0 <= period ->
  p_hardcap (s_params s) < spec_ubi_yearly (s_ubis s) ->
  ubi_upsert cf s name amount period start end_ pool <> Ok s'.
Proof. exact ubi_over_cap_rejects_lemma. Qed.
Print Assumptions C13_ubi_over_cap_rejects.

(* ================================================================== token registry *)
(* A token's recorded supply grows by exactly what is minted through the registry (and shrinks by
   exactly what is burnt through it): over every history, recorded supply minus bank supply of a
   registered token never changes. *)
Theorem C13_registry_supply_tracks_mints : forall cf ops s d, aget d (s_reg s) <> None ->
  offset (run cf s ops) d = offset s d /\ aget d (s_reg (run cf s ops)) <> None.
Proof. exact run_offset. Qed.
Print Assumptions C13_registry_supply_tracks_mints.

(* ... it never exceeds the supply cap, over every history of operations *)
Theorem C13_supply_le_cap : forall cf ops s, cap_ok (s_reg s) -> cap_ok (s_reg (run cf s ops)).
Proof. exact run_cap_ok. Qed.
Print Assumptions C13_supply_le_cap.

(* ... and an owner can never raise or remove that cap: HEADLINE, at full strength, for the guard this
   tree has (the proof script needs cf_cap_strict tree_config = true; on a tree with the old guard it
   fails, and the harness replays the negative-cap witness on the real msg server). *)
Theorem C13_owner_cannot_raise_or_remove_cap : owner_cap_statement tree_config.
Proof. exact (owner_cap_strict_lemma tree_config eq_refl). Qed.
Print Assumptions C13_owner_cannot_raise_or_remove_cap.

(* over every history of ALL operations on this tree a positive cap only goes down and stays positive,
   so the recorded supply stays within the cap the token started with *)
Theorem C13_cap_only_decreases_over_all_histories : forall ops s d t,
  aget d (s_reg s) = Some t -> 0 < t_cap t ->
  exists t', aget d (s_reg (run tree_config s ops)) = Some t' /\ 0 < t_cap t' <= t_cap t.
Proof. exact (run_cap_monotone_strict tree_config eq_refl). Qed.
Print Assumptions C13_cap_only_decreases_over_all_histories.

(* any guard shape: only the owner edits, the cap never goes up and never becomes zero *)
Theorem C13_owner_cap_partial : forall cf s actor perm d supply cap owner noedit fee sc s' t,
  upsert_msg cf s actor perm d supply cap owner noedit fee sc = Ok s' -> aget d (s_reg s) = Some t -> 0 < t_cap t ->
  actor = t_owner t /\ exists t', aget d (s_reg s') = Some t' /\ t_cap t' = cap /\ cap <= t_cap t /\ cap <> 0
                                 /\ t_supply t' = t_supply t.
Proof. exact owner_cap_partial_lemma. Qed.
Print Assumptions C13_owner_cap_partial.

(* kept for the guard as first found (msg.SupplyCap.IsZero()): the statement is false, a negative cap
   passes both guards and the old cap is then exceeded (repaired in /repo by 1760056) *)
Theorem C13_owner_cannot_raise_or_remove_cap_refuted_for_old_guard : forall cf, cf_cap_strict cf = false -> ~ owner_cap_statement cf.
Proof. exact owner_cap_statement_refuted. Qed.
Print Assumptions C13_owner_cannot_raise_or_remove_cap_refuted_for_old_guard.

Theorem C13_negative_cap_disables_cap_for_old_guard : forall cf, cf_cap_strict cf = false ->
  exists s actor d cap s1 s2 t,
  aget d (s_reg s) = Some t /\ 0 < t_cap t /\ t_owner t = actor /\
  upsert_msg cf s actor false d 0 cap actor false PREC 0 = Ok s1 /\
  (exists t1, aget d (s_reg s1) = Some t1 /\ t_cap t1 < 0) /\
  mint_issue cf s1 actor d 5000 = Ok s2 /\
  (exists t2, aget d (s_reg s2) = Some t2 /\ t_cap t < t_supply t2).
Proof. exact owner_cap_refuted_lemma. Qed.
Print Assumptions C13_negative_cap_disables_cap_for_old_guard.

Theorem C13_cap_only_decreases_over_histories_without_negative_caps : forall cf ops s d t, Forall nonneg_cap_op ops ->
  aget d (s_reg s) = Some t -> 0 < t_cap t ->
  exists t', aget d (s_reg (run cf s ops)) = Some t' /\ 0 < t_cap t' <= t_cap t.
Proof. exact run_cap_monotone. Qed.
Print Assumptions C13_cap_only_decreases_over_histories_without_negative_caps.

Theorem C13_supply_le_initial_cap_over_histories : forall cf ops s d t, Forall nonneg_cap_op ops -> cap_ok (s_reg s) ->
  aget d (s_reg s) = Some t -> 0 < t_cap t -> reg_supply (run cf s ops) d <= t_cap t.
Proof. exact run_supply_le_initial_cap. Qed.
Print Assumptions C13_supply_le_initial_cap_over_histories.

(* ================================================================== origin of native tokens *)
(* New native tokens are created only by block inflation and UBI payouts. *)
Theorem C13_native_minted_only_by_inflation_or_ubi_on_this_tree :
  if cf_mint_native_refused tree_config then native_origin_statement tree_config else ~ native_origin_statement tree_config.
Proof. exact (native_origin_decided tree_config). Qed.
Print Assumptions C13_native_minted_only_by_inflation_or_ubi_on_this_tree.

(* refuted while layer2 MintIssueTx accepts the bond denom ... *)
Theorem C13_native_minted_only_by_inflation_or_ubi_refuted : forall cf, cf_mint_native_refused cf = false -> ~ native_origin_statement cf.
Proof. intros cf E. pose proof (native_origin_decided cf) as H. rewrite E in H. exact H. Qed.
Print Assumptions C13_native_minted_only_by_inflation_or_ubi_refuted.

(* ... full strength once it refuses it (fixes/C13-mintissue-bond-denom.patch) *)
Theorem C13_native_minted_only_by_inflation_or_ubi_with_refusal : forall cf, cf_mint_native_refused cf = true -> native_origin_statement cf.
Proof. exact native_only_blocks_lemma. Qed.
Print Assumptions C13_native_minted_only_by_inflation_or_ubi_with_refusal.

(* any guard shape: a block, or the layer2 mint message naming the native denomination -- nothing else *)
Theorem C13_native_minted_only_by_inflation_ubi_or_mintissue : forall cf s o s',
  step cf s o = Ok s' -> nat_supply s < nat_supply s' ->
  (exists dt, o = OBlock dt) \/ (exists actor amt, o = OMintIssue actor native amt) \/ (exists actor a1 a2, o = OMintIssue2 actor native a1 a2).
Proof. exact step_native_sources. Qed.
Print Assumptions C13_native_minted_only_by_inflation_ubi_or_mintissue.

(* the same at the level of the source tree: every MintCoins/BurnCoins call site is in the reviewed
   table, every mint goes through the registry, the sites that can reach the native token are exactly
   AllocateTokens, ProcessUBIRecord and layer2 MintIssueTx, and the burns that bypass the registry
   are exactly the two multistaking share-token burns *)
Theorem C13_mint_sites_sanctioned :
  mint_burn_gen_errors = [] /\ sites_classified = true /\ mints_through_registry = true /\
  native_mint_sites = [("x/distributor/keeper", "Keeper.AllocateTokens"); ("x/layer2/keeper", "msgServer.MintIssueTx");
                       ("x/ubi/keeper", "Keeper.ProcessUBIRecord")]%string /\
  burns_bypassing_registry = [("x/multistaking/keeper", "Keeper.SlashStakingPool"); ("x/multistaking/keeper", "Keeper.Undelegate")]%string.
Proof. exact mint_sites_sanctioned_lemma. Qed.
Print Assumptions C13_mint_sites_sanctioned.

(* ================================================================== the spec checker and the model *)
(* chk_sound, ALL clauses: the decidable checker that is run on the REAL observations
   (Model/C13Check.v check_step: infl_target, annual_gate, ubi_gate, ubi_mints, ubi_payout, snapshot, reg_tracks, origin,
   ubi_cap, ubi_record, reject, gate, owner_only, owner_cap, cap, cap_hist, genesis_fails, genesis_supply,
   genesis_snapshots, genesis_ubi, genesis_registry) accepts every step of the
   model with the five guards in the repaired shape, from every well-formed state ([inv]: what x/gov
   validation, the bank and the block clock guarantee) and checker state agreeing with it ([rel]);
   and the next checker state agrees with the next model state.  So on a repaired tree no clause can
   fire on a trace that the correspondence run shows equal to the model's; on today's tree the three
   clauses that do fire are exactly the three refuted statements. *)
Theorem C13_chk_sound_step : forall cf, all_repaired cf -> forall k s o,
  rel k s -> inv s -> good_op o -> step_sound cf k s o.
Proof. exact step_sound_all. Qed.
Print Assumptions C13_chk_sound_step.

(* over histories: no clause fires anywhere on the model's own trace, as long as the well-formedness
   invariant holds at the states the run visits ([inv_along]; its cap_ok, native-token-registered and
   pools-non-negative parts are themselves preserved: C13_supply_le_cap, C13_registry_supply_tracks_mints,
   C13_ubi_payout_bound) *)
Theorem C13_chk_sound : forall cf, all_repaired cf -> forall ops s k i,
  rel k s -> inv_along cf s ops -> check_steps i k (model_trace cf s ops) = [].
Proof. exact chk_sound_lemma. Qed.
Print Assumptions C13_chk_sound.

(* the checker starts in agreement with the model's initial state of a case *)
Theorem C13_chk_init_agrees : forall t0 reg0 ubis0 pools0 i, NoDup (map fst reg0) ->
  rel (init_cst t0 reg0 ubis0 i) (init_state t0 reg0 ubis0 pools0 i).
Proof. exact init_rel. Qed.
Print Assumptions C13_chk_init_agrees.

(* for ANY guard shapes (today's tree included): the inflation clauses and the origin clause *)
Theorem C13_chk_sound_block : forall cf s dt s1 s2 s3, valid_monetary s dt ->
  block_parts cf s dt = Ok (s1, s2, s3) ->
  chk_infl_target (nat_supply s) (s_psnap s) (s_params s) (s_now s + dt) (nat_supply s1) = true /\
  chk_annual_gate (nat_supply s) (s_ysnap s) (s_params s) (s_now s + dt) (nat_supply s2) = true.
Proof. exact c13_chk_sound_block_lemma. Qed.
Print Assumptions C13_chk_sound_block.

Theorem C13_chk_sound_origin : forall cf s o,
  is_block o = false -> mints_native_by_message o = false ->
  chk_origin (nat_supply s) (nat_supply (step_total cf s o)) = true.
Proof. exact c13_chk_sound_origin_lemma. Qed.
Print Assumptions C13_chk_sound_origin.

(* ================================================================== non-vacuity *)
Example C13_nonvacuous_inflation : forall cf, exists s dt s1 s2 s3 a,
  block_parts cf s dt = Ok (s1, s2, s3) /\ sn_amt (s_psnap s) = Some a /\ 0 <= a /\ 0 <= p_rate (s_params s)
  /\ sn_time (s_psnap s) <= s_now s + dt /\ 0 < as_int64 (p_period (s_params s)) /\ nat_supply s < nat_supply s1.
Proof. exact nonvacuous_inflation. Qed.
Example C13_nonvacuous_gate : forall cf, exists s dt s1 s2 s3,
  0 <= p_maxann (s_params s) /\ spec_gate_closed (s_ysnap s) (p_maxann (s_params s)) (nat_supply s) (s_now s + dt) = true
  /\ block_parts cf s dt = Ok (s1, s2, s3) /\ s_ubis s <> [].
Proof. exact nonvacuous_gate. Qed.
Example C13_nonvacuous_ubi : forall cf, exists s name amount period start end_ pool s',
  no_u64_overflow (s_ubis s) amount period /\ ubi_upsert cf s name amount period start end_ pool = Ok s' /\ s_ubis s <> [] /\ 0 < amount.
Proof. exact nonvacuous_ubi. Qed.
Example C13_nonvacuous_registry : forall cf, exists s ops d t,
  Forall nonneg_cap_op ops /\ cap_ok (s_reg s) /\ aget d (s_reg s) = Some t /\ 0 < t_cap t
  /\ reg_supply s d < reg_supply (run cf s ops) d /\ 500 < reg_supply (run cf s ops) d.
Proof. exact nonvacuous_registry. Qed.
Example C13_nonvacuous_chk_sound : forall cf, exists s ops, inv_along cf s ops /\ ops <> [] /\
  rel (init_cst (s_now s) (s_reg s) (s_ubis s) (mkInit (nat_supply s) [] (s_params s) (s_psnap s) (s_ysnap s)))
      (init_state (s_now s) (s_reg s) (s_ubis s) (s_pools s) (mkInit (nat_supply s) [] (s_params s) (s_psnap s) (s_ysnap s))).
Proof. exact chk_sound_nonvacuous. Qed.
