(* C13 -- Monetary policy bounds: inflation, UBI and supply caps are never exceeded.
   Only statements, each closed by [exact] of a lemma from Proofs/Monetary.v, and its assumptions.
   The model (Model/Monetary.v) is tied to /repo by the differential run of checks/c13.py; the
   mint/burn call-site table (Gen/MintBurn.v) is regenerated from the source tree on every run. *)
From Sekai Require Import Base.Prelude Base.Dec Model.Monetary Model.C13Check Gen.MintBurn Proofs.Monetary.

(* ------------------------------------------------------------------ block inflation *)
(* Inflation never lifts supply above the period snapshot grown pro rata at the configured rate:
   after the allocation of a block, supply <= max(supply before, snapshot + ceil(snapshot * rate * dt / period)),
   for every state, time step and parameter setting (rate >= 0, period > 0 as validated by x/gov). *)
Theorem C13_inflation_le_target : forall s dt s1 s2 s3 a,
  block_parts s dt = Ok (s1, s2, s3) ->
  sn_amt (s_psnap s) = Some a -> 0 <= a -> 0 <= p_rate (s_params s) ->
  sn_time (s_psnap s) <= s_now s + dt -> 0 < as_int64 (p_period (s_params s)) ->
  nat_supply s1 <= Z.max (nat_supply s)
     (a + cdiv (a * p_rate (s_params s) * (s_now s + dt - sn_time (s_psnap s))) (PREC * as_int64 (p_period (s_params s)))).
Proof. exact block_inflation_le_target. Qed.
Print Assumptions C13_inflation_le_target.

(* sharp form: the computed target exceeds the exact pro-rata growth by at most half of 10^-18 base units *)
Theorem C13_inflation_target_sharp : forall ps rate period now a tgt,
  sn_amt ps = Some a -> 0 <= a -> 0 <= rate -> sn_time ps <= now -> 0 < as_int64 period ->
  target_supply ps rate period now = Ok tgt ->
  a <= tgt /\ 2 * (tgt - a) * PREC * as_int64 period <= 2 * (a * rate * (now - sn_time ps)) + as_int64 period.
Proof. exact target_sharp. Qed.
Print Assumptions C13_inflation_target_sharp.

(* with floor instead of ceiling the bound is false (by one base unit, for a contrived rate 10^-18) *)
Definition inflation_le_floor_target_statement : Prop := forall ps rate period now a tgt,
  sn_amt ps = Some a -> 0 <= a -> 0 <= rate -> sn_time ps <= now -> 0 < as_int64 period ->
  target_supply ps rate period now = Ok tgt ->
  tgt <= a + (a * rate * (now - sn_time ps)) / (PREC * as_int64 period).
Theorem C13_inflation_le_floor_target_refuted : ~ inflation_le_floor_target_statement.
Proof.
  intros H. destruct target_floor_refuted as (ps & rate & period & now & a & tgt & H1 & H2 & H3 & H4 & H5 & H6 & H7).
  specialize (H ps rate period now a tgt H1 H2 H3 H4 H5 H6). lia.
Qed.
Print Assumptions C13_inflation_le_floor_target_refuted.

(* all new native tokens of a block are inflation (first) and UBI (second) *)
Theorem C13_block_supply_decomposition : forall s dt s1 s2 s3, block_parts s dt = Ok (s1, s2, s3) ->
  nat_supply s <= nat_supply s1 /\ nat_supply s1 <= nat_supply s2 /\ nat_supply s3 = nat_supply s2.
Proof. exact block_supply_decomposition. Qed.
Print Assumptions C13_block_supply_decomposition.

(* ------------------------------------------------------------------ annual gate *)
(* No inflationary minting (block inflation or UBI) happens in a block that starts once supply has
   grown over the year-start snapshot by the annual maximum pro-rated by the month index
   (spec_gate_closed: growth >= maxann * months / 12 + 2e-18, the slack of the decimal arithmetic). *)
Theorem C13_no_mint_after_annual_max : forall s dt s1 s2 s3,
  0 <= p_maxann (s_params s) ->
  spec_gate_closed (s_ysnap s) (p_maxann (s_params s)) (nat_supply s) (s_now s + dt) = true ->
  block_parts s dt = Ok (s1, s2, s3) ->
  nat_supply s1 = nat_supply s /\ nat_supply s2 = nat_supply s /\ nat_supply s3 = nat_supply s.
Proof. exact no_mint_after_annual_max_lemma. Qed.
Print Assumptions C13_no_mint_after_annual_max.

(* ------------------------------------------------------------------ UBI hard cap *)
(* A UBI record is accepted only if the yearly total of all records stays within the hard cap --
   provided the uint64 arithmetic of the check does not wrap. *)
Theorem C13_ubi_within_hardcap : forall s name amount period start end_ pool s',
  no_u64_overflow (s_ubis s) amount period ->
  ubi_upsert s name amount period start end_ pool = Ok s' ->
  spec_ubi_yearly (s_ubis s') <= p_hardcap (s_params s') /\ p_hardcap (s_params s') = p_hardcap (s_params s).
Proof. exact ubi_within_hardcap_lemma. Qed.
Print Assumptions C13_ubi_within_hardcap.

(* the unguarded statement is false: amount * 31556952 wraps in uint64 (witness replayed by the harness) *)
Definition ubi_within_hardcap_statement : Prop := forall s name amount period start end_ pool s',
  0 <= amount < two64 -> 0 < period < two64 ->
  ubi_upsert s name amount period start end_ pool = Ok s' ->
  spec_ubi_yearly (s_ubis s') <= p_hardcap (s_params s').
Theorem C13_ubi_overflow_refuted : ~ ubi_within_hardcap_statement.
Proof.
  intros H. destruct ubi_overflow_refuted_lemma as (s & name & amount & period & start & end_ & pool & s' & H1 & H2 & H3 & H4).
  specialize (H s name amount period start end_ pool s' H1 H2 H3). lia.
Qed.
Print Assumptions C13_ubi_overflow_refuted.

(* and the due test DistributionLast + Period wraps as well: a record whose period has not elapsed is due *)
Theorem C13_ubi_period_wrap_refuted : exists u now, 0 <= u_last u < two64 /\ 0 <= u_period u < two64 /\
  u_last u <= now < u_last u + u_period u /\ ubi_due now u = true.
Proof. exact ubi_period_wrap_due. Qed.
Print Assumptions C13_ubi_period_wrap_refuted.

(* ------------------------------------------------------------------ token registry *)
(* A token's recorded supply grows by exactly what is minted through the registry: over every
   history, recorded supply minus bank supply of a registered token never changes. *)
Theorem C13_registry_supply_tracks_mints : forall strict ops s d, aget d (s_reg s) <> None ->
  offset (run strict s ops) d = offset s d /\ aget d (s_reg (run strict s ops)) <> None.
Proof. exact run_offset. Qed.
Print Assumptions C13_registry_supply_tracks_mints.

(* ... it never exceeds the supply cap, over every history of operations *)
Theorem C13_supply_le_cap : forall strict ops s, cap_ok (s_reg s) -> cap_ok (s_reg (run strict s ops)).
Proof. exact run_cap_ok. Qed.
Print Assumptions C13_supply_le_cap.

(* ... and an owner can never raise or remove the cap.  [strict] is the shape of the msg server's cap
   guard, read from the source tree on every run (Gen/MintBurn.v cap_guard_strict).
   FALSE as stated for the guard found in the tree (strict = false): *)
Definition owner_cannot_raise_or_remove_cap_statement (strict : bool) : Prop :=
  forall s actor perm d supply cap owner noedit fee sc s' t,
  upsert_msg strict s actor perm d supply cap owner noedit fee sc = Ok s' -> aget d (s_reg s) = Some t -> 0 < t_cap t ->
  exists t', aget d (s_reg s') = Some t' /\ 0 < t_cap t' <= t_cap t.
Theorem C13_owner_cannot_raise_or_remove_cap_refuted : ~ owner_cannot_raise_or_remove_cap_statement false.
Proof. exact owner_cap_statement_refuted. Qed.
Print Assumptions C13_owner_cannot_raise_or_remove_cap_refuted.

(* the witness in full: the owner sets cap -1, then mints past the old cap *)
Theorem C13_negative_cap_disables_cap : exists s actor d cap s1 s2 t,
  aget d (s_reg s) = Some t /\ 0 < t_cap t /\ t_owner t = actor /\
  upsert_msg false s actor false d 0 cap actor false PREC 0 = Ok s1 /\
  (exists t1, aget d (s_reg s1) = Some t1 /\ t_cap t1 < 0) /\
  mint_issue s1 actor d 5000 = Ok s2 /\
  (exists t2, aget d (s_reg s2) = Some t2 /\ t_cap t < t_supply t2).
Proof. exact owner_cap_refuted_lemma. Qed.
Print Assumptions C13_negative_cap_disables_cap.

(* what does hold: only the owner edits, the cap never goes up and never becomes zero *)
Theorem C13_owner_cap_partial : forall strict s actor perm d supply cap owner noedit fee sc s' t,
  upsert_msg strict s actor perm d supply cap owner noedit fee sc = Ok s' -> aget d (s_reg s) = Some t -> 0 < t_cap t ->
  actor = t_owner t /\ exists t', aget d (s_reg s') = Some t' /\ t_cap t' = cap /\ cap <= t_cap t /\ cap <> 0
                                 /\ t_supply t' = t_supply t.
Proof. exact owner_cap_partial_lemma. Qed.
Print Assumptions C13_owner_cap_partial.

(* guarded by "no negative cap in a message" the statement holds over whole histories of ALL operations,
   and the recorded supply stays within the cap the token started with *)
Theorem C13_cap_only_decreases_over_histories : forall strict ops s d t, Forall nonneg_cap_op ops ->
  aget d (s_reg s) = Some t -> 0 < t_cap t ->
  exists t', aget d (s_reg (run strict s ops)) = Some t' /\ 0 < t_cap t' <= t_cap t.
Proof. exact run_cap_monotone. Qed.
Print Assumptions C13_cap_only_decreases_over_histories.

Theorem C13_supply_le_initial_cap_over_histories : forall strict ops s d t, Forall nonneg_cap_op ops -> cap_ok (s_reg s) ->
  aget d (s_reg s) = Some t -> 0 < t_cap t -> reg_supply (run strict s ops) d <= t_cap t.
Proof. exact run_supply_le_initial_cap. Qed.
Print Assumptions C13_supply_le_initial_cap_over_histories.

(* once the guard refuses every non-positive cap (strict = true: the candidate fix
   fixes/C13-negative-supply-cap.patch) the statement holds at full strength, for every message and
   over every history of all operations *)
Theorem C13_owner_cannot_raise_or_remove_cap_with_strict_guard : owner_cannot_raise_or_remove_cap_statement true.
Proof. exact owner_cap_strict_lemma. Qed.
Print Assumptions C13_owner_cannot_raise_or_remove_cap_with_strict_guard.

Theorem C13_cap_only_decreases_over_all_histories_with_strict_guard : forall ops s d t,
  aget d (s_reg s) = Some t -> 0 < t_cap t ->
  exists t', aget d (s_reg (run true s ops)) = Some t' /\ 0 < t_cap t' <= t_cap t.
Proof. exact run_cap_monotone_strict. Qed.
Print Assumptions C13_cap_only_decreases_over_all_histories_with_strict_guard.

(* the tree being checked: refuted while the guard is the one found today, proved once it is strict *)
Theorem C13_owner_cap_on_this_tree :
  if cap_guard_strict then owner_cannot_raise_or_remove_cap_statement true
  else ~ owner_cannot_raise_or_remove_cap_statement false.
Proof. exact owner_cap_on_this_tree_lemma. Qed.
Print Assumptions C13_owner_cap_on_this_tree.

(* ------------------------------------------------------------------ origin of native tokens *)
(* New native tokens are created only by block inflation and UBI payouts.  FALSE as stated: *)
Definition native_minted_only_by_inflation_or_ubi_statement (strict : bool) : Prop :=
  forall s o s', step strict s o = Ok s' -> nat_supply s < nat_supply s' -> exists dt, o = OBlock dt.
Theorem C13_native_minted_only_by_inflation_or_ubi_refuted : forall strict, ~ native_minted_only_by_inflation_or_ubi_statement strict.
Proof.
  intros strict H. destruct (native_mint_refuted_lemma strict) as (s & actor & amt & s' & H1 & H2 & H3).
  destruct (H _ _ _ H1 ltac:(lia)) as (dt & E). discriminate E.
Qed.
Print Assumptions C13_native_minted_only_by_inflation_or_ubi_refuted.

(* what does hold: a block, or the layer2 mint message naming the native denomination -- nothing else *)
Theorem C13_native_minted_only_by_inflation_ubi_or_mintissue : forall strict s o s',
  step strict s o = Ok s' -> nat_supply s < nat_supply s' ->
  (exists dt, o = OBlock dt) \/ (exists actor amt, o = OMintIssue actor native amt).
Proof. exact step_native_sources. Qed.
Print Assumptions C13_native_minted_only_by_inflation_ubi_or_mintissue.

(* the same at the level of the source tree: every MintCoins/BurnCoins call site is in the reviewed
   table, every mint goes through the registry, and the sites that can reach the native token are
   exactly AllocateTokens, ProcessUBIRecord and (the finding) layer2 MintIssueTx *)
Theorem C13_mint_sites_sanctioned :
  mint_burn_gen_errors = [] /\ sites_classified = true /\ mints_through_registry = true /\
  native_mint_sites = [("x/distributor/keeper", "Keeper.AllocateTokens"); ("x/layer2/keeper", "msgServer.MintIssueTx");
                       ("x/ubi/keeper", "Keeper.ProcessUBIRecord")]%string.
Proof. exact mint_sites_sanctioned_lemma. Qed.
Print Assumptions C13_mint_sites_sanctioned.

(* ------------------------------------------------------------------ non-vacuity *)
(* a block that mints inflation up to the target, from a state satisfying the hypotheses of
   C13_inflation_le_target; the gate of C13_no_mint_after_annual_max closed on a concrete state;
   a UBI record accepted under no_u64_overflow; a capped token minted up to its cap over a history *)
Example C13_nonvacuous_inflation : exists s dt s1 s2 s3 a,
  block_parts s dt = Ok (s1, s2, s3) /\ sn_amt (s_psnap s) = Some a /\ 0 <= a /\ 0 <= p_rate (s_params s)
  /\ sn_time (s_psnap s) <= s_now s + dt /\ 0 < as_int64 (p_period (s_params s)) /\ nat_supply s < nat_supply s1.
Proof. exact nonvacuous_inflation. Qed.
Example C13_nonvacuous_gate : exists s dt s1 s2 s3,
  0 <= p_maxann (s_params s) /\ spec_gate_closed (s_ysnap s) (p_maxann (s_params s)) (nat_supply s) (s_now s + dt) = true
  /\ block_parts s dt = Ok (s1, s2, s3) /\ s_ubis s <> [].
Proof. exact nonvacuous_gate. Qed.
Example C13_nonvacuous_ubi : exists s name amount period start end_ pool s',
  no_u64_overflow (s_ubis s) amount period /\ ubi_upsert s name amount period start end_ pool = Ok s' /\ s_ubis s <> [] /\ 0 < amount.
Proof. exact nonvacuous_ubi. Qed.
Example C13_nonvacuous_registry : forall strict, exists s ops d t,
  Forall nonneg_cap_op ops /\ cap_ok (s_reg s) /\ aget d (s_reg s) = Some t /\ 0 < t_cap t
  /\ reg_supply s d < reg_supply (run strict s ops) d /\ 500 < reg_supply (run strict s ops) d.
Proof. exact nonvacuous_registry. Qed.

(* ------------------------------------------------------------------ the spec checker and the model *)
(* The inflation clauses of the decidable checker that is run on the REAL observations
   (Model/C13Check.v chk_infl_target, chk_annual_gate, chk_origin) accept every block / operation
   of the model: passing the checker is what the theorems above predict. *)
Theorem C13_chk_sound_block : forall s dt s1 s2 s3, valid_monetary s dt ->
  block_parts s dt = Ok (s1, s2, s3) ->
  chk_infl_target (nat_supply s) (s_psnap s) (s_params s) (s_now s + dt) (nat_supply s1) = true /\
  chk_annual_gate (nat_supply s) (s_ysnap s) (s_params s) (s_now s + dt) (nat_supply s2) = true.
Proof. exact c13_chk_sound_block_lemma. Qed.
Print Assumptions C13_chk_sound_block.

Theorem C13_chk_sound_origin : forall strict s o,
  is_block o = false -> mints_native_by_message o = false ->
  chk_origin (nat_supply s) (nat_supply (step_total strict s o)) = true.
Proof. exact c13_chk_sound_origin_lemma. Qed.
Print Assumptions C13_chk_sound_origin.
