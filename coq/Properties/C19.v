(* C19 -- Network properties are always valid and change exactly as requested.
   Only statements, each closed by [exact] of a lemma from Proofs/NetProps.v, and its assumptions.
   [set]/[get]/[validate] are REGENERATED from x/gov/keeper/keeper.go on every run (Gen/NetProps.v). *)
From Sekai Require Import Base.Prelude Base.Dec Model.NetPropsLib Gen.NetProps Model.NetProps
  Model.C19Check Proofs.NetProps.

(* Setting one property to a value makes exactly that property read back as that value ... *)
Theorem C19_set_then_get_reads_requested_value :
  forall recs ps p v ps', set recs ps p v = Some ps' -> settable p = true ->
  exists f, requested p v = Some f /\ get ps' p = Some (render f).
Proof. exact set_get_rendered. Qed.
Print Assumptions C19_set_then_get_reads_requested_value.

(* ... and leaves every other property unchanged: every stored field outside the written one *)
Theorem C19_set_leaves_other_fields :
  forall recs ps p v ps', set recs ps p v = Some ps' ->
  forall j, ~ In j (written_ix p) -> nth_error (fields ps') j = nth_error (fields ps) j.
Proof. exact set_frame_fields. Qed.
Print Assumptions C19_set_leaves_other_fields.

Theorem C19_set_leaves_other_reads :
  forall recs ps p v ps' q, set recs ps p v = Some ps' -> q <> p -> get ps' q = get ps q.
Proof. exact set_frame_get. Qed.
Print Assumptions C19_set_leaves_other_reads.

(* a settable identifier writes exactly the one field it reads; the others are rejected *)
Theorem C19_settable_writes_what_it_reads :
  forall p, settable p = true -> exists i, read_ix p = Some i /\ written_ix p = [i].
Proof. exact settable_read_written. Qed.
Print Assumptions C19_settable_writes_what_it_reads.

Theorem C19_unsettable_rejected :
  forall recs ps p v, settable p = false -> set_raw recs ps p v = None.
Proof. exact unsettable_rejected. Qed.
Print Assumptions C19_unsettable_rejected.

(* The stored properties always satisfy their validity rules, whichever path wrote them:
   every write path ends in the validating setter, and the generated validator implies the
   hand-written rules [valid_specb] of the property text. *)
Theorem C19_single_write_keeps_valid :
  forall recs ps p v ps', set recs ps p v = Some ps' -> validate ps' = true.
Proof. exact set_preserves_valid. Qed.
Print Assumptions C19_single_write_keeps_valid.

Theorem C19_whole_record_write_keeps_valid :
  forall ps new ps', set_all ps new = Some ps' -> ps' = new /\ validate ps' = true.
Proof. exact set_all_valid. Qed.
Print Assumptions C19_whole_record_write_keeps_valid.

Theorem C19_validator_implies_validity_rules : forall ps, validate ps = true -> valid_specb ps = true.
Proof. exact validate_sound. Qed.
Print Assumptions C19_validator_implies_validity_rules.

(* an invalid update is rejected (and a rejected update returns no new record: [None]) *)
Theorem C19_invalid_rejected : forall ps new, validate new = false -> set_all ps new = None.
Proof. exact invalid_rejected. Qed.
Print Assumptions C19_invalid_rejected.

(* only holders of the change permission or passed proposals alter them *)
Theorem C19_message_needs_permission : forall recs ps new, msg_set_all false recs ps new = None.
Proof. exact msg_needs_permission. Qed.
Print Assumptions C19_message_needs_permission.

Theorem C19_message_write_keeps_valid :
  forall recs ps new ps', msg_set_all true recs ps new = Some ps' -> ps' = new /\ validate ps' = true.
Proof. exact msg_write_valid. Qed.
Print Assumptions C19_message_write_keeps_valid.

Theorem C19_proposal_goes_through_validating_setter :
  forall recs ps code v ps', apply_proposal recs ps code v = Some ps' -> set_code recs ps code v = Some ps'.
Proof. exact proposal_is_set. Qed.
Print Assumptions C19_proposal_goes_through_validating_setter.

(* translator side conditions: everything was inside the fragment, the only store writer
   validates first, the hand-modelled helpers are the pinned ones *)
Theorem C19_translation_side_conditions :
  gen_errors = [] /\ writer_validates_first = true /\ helper_fingerprints = pinned_fingerprints.
Proof. exact tables_ok. Qed.
Print Assumptions C19_translation_side_conditions.

(* the decidable spec checker used on the REAL observations accepts every run of the model:
   hence "model = real code on a request" (correspondence) + "checker flags the real result"
   cannot both hold, and a flagged real result is a counterexample to the statements above *)
Theorem C19_checker_accepts_model_runs : forall recs ps code v,
  let r := set_code recs ps code v in
  set_clauses ps code v (match r with Some _ => true | None => false end)
              (match r with Some a => a | None => ps end) [] = [].
Proof. exact chk_sound_set. Qed.
Print Assumptions C19_checker_accepts_model_runs.

(* whichever path wrote them / only permission holders or passed proposals: the regenerated
   list of every function touching the store key or calling a setter equals the pinned one, and
   the message handler checks the change permission before writing *)
Theorem C19_write_paths :
  store_key_users = pinned_store_key_users /\ setter_callers = pinned_setter_callers /\
  msg_gate_ok = true /\ msg_gate_perm = pinned_gate_perm /\
  genesis_error_handling = pinned_genesis_error_handling.
Proof. exact write_paths_ok. Qed.
Print Assumptions C19_write_paths.

(* ---- histories: genesis followed by ANY sequence of writes by ANY path (keeper setter, passed
   proposal, message with or without the permission; the identity registry in any state at each
   step).  The stored record is valid at every moment, ... *)
Theorem C19_always_valid_over_histories :
  forall g ops s, np_run g ops = Some s -> validate s = true /\ valid_specb s = true.
Proof. exact np_always_valid. Qed.
Print Assumptions C19_always_valid_over_histories.

Theorem C19_valid_at_every_moment :
  forall g ops1 ops2 s, np_run g (ops1 ++ ops2) = Some s ->
  exists s1, np_run g ops1 = Some s1 /\ validate s1 = true /\ valid_specb s1 = true.
Proof. exact np_prefix_valid. Qed.
Print Assumptions C19_valid_at_every_moment.

(* ... an invalid genesis record starts no chain, ... *)
Theorem C19_invalid_genesis_starts_no_chain : forall g ops, validate g = false -> np_run g ops = None.
Proof. exact np_genesis_invalid_no_chain. Qed.
Print Assumptions C19_invalid_genesis_starts_no_chain.

(* ... a rejected update leaves all values as they were, a sender without the permission changes
   nothing, and whatever changes the record is a permitted message storing exactly the requested
   record or a request that went through the validating single-property setter *)
Theorem C19_rejected_update_changes_nothing : forall ps o, np_apply ps o = None -> np_step ps o = ps.
Proof. exact np_rejected_unchanged. Qed.
Print Assumptions C19_rejected_update_changes_nothing.

Theorem C19_no_permission_changes_nothing : forall ps recs new, np_step ps (OpMsg false recs new) = ps.
Proof. exact np_unpermitted_unchanged. Qed.
Print Assumptions C19_no_permission_changes_nothing.

Theorem C19_every_change_was_requested : forall ps o, np_step ps o <> ps ->
  match o with
  | OpMsg allowed recs new => allowed = true /\ np_step ps o = new
  | OpSet recs code v | OpProposal recs code v => set_code recs ps code v = Some (np_step ps o)
  end.
Proof. exact np_change_is_requested. Qed.
Print Assumptions C19_every_change_was_requested.

(* the history clauses of the spec checker (run on the REAL chain's histories) accept every
   history of the model *)
Theorem C19_checker_accepts_model_histories :
  forall ops cur, rhist_clauses cur (model_rsteps cur ops) = [].
Proof. exact chk_sound_hist. Qed.
Print Assumptions C19_checker_accepts_model_histories.

Example C19_history_nonvacuous : exists ops s, np_run example_props ops = Some s /\ s <> example_props.
Proof. exact np_example_history. Qed.

(* non-vacuity: a concrete valid record, a settable identifier, an accepted write *)
Example C19_nonvacuous :
  exists ps ps', validate ps = true /\ set [] ps P_MaxTxFee (2000000, ""%string) = Some ps'
                 /\ get ps' P_MaxTxFee = Some (2000000, ""%string).
Proof. exact nonvacuous. Qed.
