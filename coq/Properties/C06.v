(* C06 -- No reachable state or block can halt the chain.   (PARTIAL: see the note at the end.)
   Only statements, each closed by [exact] of a lemma from Proofs/Halt.v, their assumptions, the pinned
   audit of the panic-capable sites found by harness/cmd/gen_panics (Gen/PanicSites.v is REGENERATED from
   /repo on every run), and non-vacuity examples. *)
From Sekai Require Import Base.Prelude Base.Dec Model.Halt Model.C06Check Proofs.Halt Gen.PanicSites.
Local Open Scope string_scope.
Local Open Scope Z_scope.

(* ================= the full statement on the modelled modules, and why it is refuted ================= *)

(* one block of the modelled begin/end-block steps (gov quorum of every due proposal / poll, staking
   validator-set updates, spending dynamic rates) completes and re-establishes the invariant ... *)
Theorem C06_blocks_never_panic : forall g now w, world_inv w -> exists w', end_block g now w = Ok w' /\ world_inv w'.
Proof. exact blocks_never_panic. Qed.
Print Assumptions C06_blocks_never_panic.

(* ... but the invariant is NOT preserved by what users can do: the statement without it is false *)
Theorem C06_blocks_never_panic_refuted : exists now w, v_inv (w_val w) = true /\ end_block false now w = Panic "div-by-zero".
Proof. exact blocks_never_panic_refuted. Qed.
Print Assumptions C06_blocks_never_panic_refuted.

(* ---------------- gov: processProposal / processPoll *)
Theorem C06_quorum_panics_exactly_when : forall q votes voters, 0 <= q -> 0 <= voters < 2 ^ 64 ->
  is_panic (process_quorum q votes voters) = true <-> (voters < votes \/ PREC < q).
Proof. exact process_quorum_panics_iff. Qed.
Print Assumptions C06_quorum_panics_exactly_when.

(* over ALL histories of grants and votes (no revocation): tallying never panics *)
Theorem C06_gov_never_panics_without_revocation : forall ops s q,
  g_inv s -> (forall o, In o ops -> is_revoke o = false) -> 0 <= q <= PREC ->
  Z.of_nat (List.length (g_holders (grun ops s))) < 2 ^ 64 ->
  is_panic (gprocess q (grun ops s)) = false.
Proof. exact gov_never_panics_without_revocation. Qed.
Print Assumptions C06_gov_never_panics_without_revocation.

Theorem C06_gov_votes_gt_voters_refuted : exists ops s q, g_inv s /\ 0 <= q <= PREC /\
  gprocess q (grun ops s) = Panic "votes-gt-voters".
Proof. exact gov_votes_gt_voters_refuted. Qed.
Print Assumptions C06_gov_votes_gt_voters_refuted.

Theorem C06_gov_dynamic_quorum_refuted : exists q, process_quorum q 0 1 = Panic "quorum-gt-1".
Proof. exact gov_dynamic_quorum_refuted. Qed.
Print Assumptions C06_gov_dynamic_quorum_refuted.

(* ---------------- spending end-blocker *)
(* every history of GUARDED operations runs every end-blocker to completion (the guard is what the
   proposed fix enforces; 2^40 operations: only the 315-bit Dec overflow is excluded by the bound) *)
Theorem C06_spend_history_never_panics_partial : forall g ops,
  forallb sop_ok ops = true -> Z.of_nat (List.length ops) <= 2 ^ 40 -> exists ps, srun g ops = Ok ps.
Proof. exact spend_history_never_panics. Qed.
Print Assumptions C06_spend_history_never_panics_partial.

Theorem C06_spend_period_zero_refuted : exists ops, srun false ops = Panic "div-by-zero".
Proof. exact spend_period_zero_refuted. Qed.
Print Assumptions C06_spend_period_zero_refuted.
Theorem C06_spend_period_wraps_refuted : exists ops, srun false ops = Panic "neg-deccoin".
Proof. exact spend_period_wraps_refuted. Qed.
Print Assumptions C06_spend_period_wraps_refuted.
Theorem C06_spend_negative_weight_refuted : exists ops, srun false ops = Panic "neg-deccoin".
Proof. exact spend_negative_weight_refuted. Qed.
Print Assumptions C06_spend_negative_weight_refuted.

(* with the guard of fixes/C06-spending-endblock-denominator.patch (flag regenerated from the tree:
   Gen.PanicSites.spend_endblock_guarded) the end-blocker completes on EVERY stored pool list *)
Theorem C06_spend_endblock_guarded_never_panics : forall now ps, forallb pool_bounded ps = true ->
  is_panic (spend_endblock true now ps) = false.
Proof. exact spend_endblock_guarded_never_panics. Qed.
Print Assumptions C06_spend_endblock_guarded_never_panics.
Theorem C06_spend_refuted_histories_fixed_by_guard :
  is_ok (srun true [SCreate true 0 100; SRegister 0 PREC; SDeposit 0 1000; SEnd 105]) = true /\
  is_ok (srun true [SCreate true (two64 - 1) 100; SRegister 0 PREC; SDeposit 0 1000; SEnd 105]) = true /\
  is_ok (srun true [SCreate true 1 100; SRegister 0 (- PREC); SDeposit 0 1000; SEnd 105]) = true.
Proof. exact spend_refuted_histories_fixed_by_guard. Qed.
Print Assumptions C06_spend_refuted_histories_fixed_by_guard.

(* ================= the steps AS THE TREE HAS THEM NOW (flags regenerated from /repo by gen_panics) ================= *)
(* HEADLINE for the spending step on this tree (guard of fix 2d6ac44 present): the end-blocker completes on
   EVERY stored pool list.  If the guard disappears the flag becomes false and this proof no longer checks. *)
Theorem C06_spend_endblock_never_panics : forall now ps, forallb pool_bounded ps = true ->
  is_panic (spend_endblock spend_endblock_guarded now ps) = false.
Proof. exact spend_endblock_guarded_never_panics. Qed.
Print Assumptions C06_spend_endblock_never_panics.
(* ... and one whole EndBlock of gov + staking + spending, with no condition on the pools beyond magnitudes *)
Theorem C06_blocks_never_panic_this_tree : forall now w,
  Forall (fun qg => 0 <= fst qg <= PREC /\ g_inv (snd qg) /\ Z.of_nat (List.length (g_holders (snd qg))) < 2 ^ 64) (w_due w) ->
  v_inv (w_val w) = true -> forallb pool_bounded (w_pools w) = true ->
  is_panic (end_block spend_endblock_guarded now w) = false.
Proof. exact blocks_never_panic_guarded. Qed.
Print Assumptions C06_blocks_never_panic_this_tree.
(* for the sites whose repair is still pending the statement follows the tree: refuted while the flag says
   "unguarded", full strength once the fix patch is in (fixes/C06-*.patch) *)
Theorem C06_proposal_quorum_on_this_tree :
  if gov_proposal_quorum_error_panics
  then (exists q votes voters, 0 <= q <= PREC /\ 0 <= voters < 2 ^ 64 /\ is_panic (process_quorum_on gov_proposal_quorum_error_panics q votes voters) = true)
  else (forall q votes voters, 0 <= q -> 0 <= voters < 2 ^ 64 -> is_panic (process_quorum_on gov_proposal_quorum_error_panics q votes voters) = false).
Proof. exact (quorum_by_flag gov_proposal_quorum_error_panics). Qed.
Print Assumptions C06_proposal_quorum_on_this_tree.
Theorem C06_poll_quorum_on_this_tree :
  if gov_poll_quorum_error_panics
  then (exists q votes voters, 0 <= q <= PREC /\ 0 <= voters < 2 ^ 64 /\ is_panic (process_quorum_on gov_poll_quorum_error_panics q votes voters) = true)
  else (forall q votes voters, 0 <= q -> 0 <= voters < 2 ^ 64 -> is_panic (process_quorum_on gov_poll_quorum_error_panics q votes voters) = false).
Proof. exact (quorum_by_flag gov_poll_quorum_error_panics). Qed.
Print Assumptions C06_poll_quorum_on_this_tree.
Theorem C06_withdraw_on_this_tree :
  if withdraw_sub_unchecked
  then (exists n amt s1 s2, lifecycle (withdraw_handler_on withdraw_sub_unchecked n amt) s1 s2 = Some (Panic "neg-coin"))
  else (forall n amt s, is_panic (apply_proposal (withdraw_handler_on withdraw_sub_unchecked n amt) s) = false).
Proof. exact (withdraw_by_flag withdraw_sub_unchecked). Qed.
Print Assumptions C06_withdraw_on_this_tree.
Theorem C06_claim_on_this_tree :
  if claim_sub_unchecked
  then (exists poolbal rate w cstart last now cend expiry, claim_on claim_sub_unchecked poolbal rate w cstart last now cend expiry = Panic "neg-coin")
  else (forall poolbal rate w cstart last now cend expiry, claim_on claim_sub_unchecked poolbal rate w cstart last now cend expiry <> Panic "neg-coin").
Proof. exact (claim_by_flag claim_sub_unchecked). Qed.
Print Assumptions C06_claim_on_this_tree.
Theorem C06_claim_dyn_on_this_tree :
  if claim_sub_unchecked
  then (exists poolbal rate w cstart last now cend expiry dyn lastcalc, claim_dyn claim_sub_unchecked poolbal rate w cstart last now cend expiry dyn lastcalc = Panic "neg-coin")
  else (forall poolbal rate w cstart last now cend expiry dyn lastcalc, claim_dyn claim_sub_unchecked poolbal rate w cstart last now cend expiry dyn lastcalc <> Panic "neg-coin").
Proof. exact (claim_dyn_by_flag claim_sub_unchecked). Qed.
Print Assumptions C06_claim_dyn_on_this_tree.
(* the time dimension of the same site: negative claim duration after a late rate recalculation *)
Theorem C06_claim_negative_duration_refuted : exists poolbal rate w cstart last now1 now2 cend expiry lastcalc1 lastcalc2,
  now1 <= cend /\ cend < lastcalc2 <= now2 /\
  is_ok (claim_dyn true poolbal rate w cstart last now1 cend expiry true lastcalc1) = true /\
  claim_dyn true poolbal rate w cstart last now2 cend expiry true lastcalc2 = Panic "neg-coin".
Proof. exact claim_negative_duration_refuted. Qed.
Print Assumptions C06_claim_negative_duration_refuted.
Theorem C06_ubi_mint_on_this_tree :
  if ubi_amount_cast_int64
  then (exists amount, 0 <= amount < two64 /\ ubi_mint_on ubi_amount_cast_int64 amount = Panic "neg-coin")
  else (forall amount, is_panic (ubi_mint_on ubi_amount_cast_int64 amount) = false).
Proof. exact (ubi_by_flag ubi_amount_cast_int64). Qed.
Print Assumptions C06_ubi_mint_on_this_tree.

Theorem C06_ubi_apply_on_this_tree :
  if ubi_apply_uint64_arith then (exists s a h, ubi_apply_on ubi_apply_uint64_arith s a 0 h = Panic "div-by-zero")
  else (forall s a p h, is_panic (ubi_apply_on ubi_apply_uint64_arith s a p h) = false).
Proof. exact (ubi_apply_by_flag ubi_apply_uint64_arith). Qed.
Print Assumptions C06_ubi_apply_on_this_tree.

(* ---------------- proposal enactment *)
Theorem C06_input_only_panics_filtered : forall {S} (h : S -> outcome S),
  (forall s, is_panic (h s) = true) -> forall s1 s2, lifecycle h s1 s2 = None.
Proof. exact @input_only_panics_filtered. Qed.
Print Assumptions C06_input_only_panics_filtered.

Theorem C06_state_independent_panics_filtered : forall {S} (h : S -> outcome S),
  (forall s s', is_panic (h s) = is_panic (h s')) ->
  forall s1 s2 o, lifecycle h s1 s2 = Some o -> is_panic o = false.
Proof. exact @state_independent_panics_filtered. Qed.
Print Assumptions C06_state_independent_panics_filtered.

Theorem C06_withdraw_safe_partial : forall n amt modbal poolbal, 0 <= amt -> Z.of_nat n * amt <= poolbal ->
  is_panic (withdraw_loop n modbal poolbal amt) = false.
Proof. exact withdraw_safe. Qed.
Print Assumptions C06_withdraw_safe_partial.

Theorem C06_withdraw_drained_refuted : exists n amt s1 s2,
  lifecycle (withdraw_handler n amt) s1 s2 = Some (Panic "neg-coin").
Proof. exact withdraw_drained_refuted. Qed.
Print Assumptions C06_withdraw_drained_refuted.

Theorem C06_distribution_outgrows_pool_refuted : exists poolbal rate w cstart last now1 now2 cend expiry,
  now1 <= now2 /\
  lifecycle (fun pb => claim pb rate w cstart last now1 cend expiry) poolbal poolbal = Some (Ok (poolbal - 3000)) /\
  lifecycle (fun pb => claim pb rate w cstart last now1 cend expiry) poolbal poolbal <> None /\
  apply_proposal (fun pb => claim pb rate w cstart last now2 cend expiry) poolbal = Panic "neg-coin".
Proof. exact distribution_outgrows_pool_refuted. Qed.
Print Assumptions C06_distribution_outgrows_pool_refuted.

(* ---------------- UBI *)
Theorem C06_ubi_mint_safe_partial : forall amount, 0 <= amount < two63 -> is_panic (ubi_mint amount) = false.
Proof. exact ubi_mint_safe. Qed.
Print Assumptions C06_ubi_mint_safe_partial.
Theorem C06_ubi_amount_wraps_refuted : exists ubi_sum amount period hardcap, 0 <= amount < two64 /\
  is_ok (ubi_apply ubi_sum amount period hardcap) = true /\ ubi_mint amount = Panic "neg-coin".
Proof. exact ubi_amount_wraps_refuted. Qed.
Print Assumptions C06_ubi_amount_wraps_refuted.
Theorem C06_ubi_period_zero_filtered : forall ubi_sum amount hardcap s1 s2,
  lifecycle (fun _ : unit => do _ <- ubi_apply ubi_sum amount 0 hardcap; Ok tt) s1 s2 = None.
Proof. exact ubi_period_zero_filtered. Qed.
Print Assumptions C06_ubi_period_zero_filtered.

(* ---------------- staking, fee collector, upgrade *)
Theorem C06_staking_updates_never_panic : forall ops s, v_inv s = true -> exists s', vrun ops s = Ok s' /\ v_inv s' = true.
Proof. exact staking_updates_never_panic. Qed.
Print Assumptions C06_staking_updates_never_panic.

Theorem C06_allocate_never_panics : forall collector treasury power snap share,
  0 <= treasury -> 0 <= collector < 2 ^ 200 -> 0 < snap -> 0 <= power <= snap -> 0 <= share ->
  is_panic (allocate collector treasury power snap share) = false.
Proof. exact allocate_never_panics. Qed.
Print Assumptions C06_allocate_never_panics.

(* reward path: one staked denom is safe; caps summing to 1 over two denoms over-credit and the payout panics *)
Theorem C06_credit_one_le_partial : forall reward cap, 0 <= reward < 2 ^ 200 -> 0 <= cap <= PREC ->
  exists c, credit_one reward cap = Ok c /\ 0 <= c <= reward.
Proof. exact credit_one_le. Qed.
Print Assumptions C06_credit_one_le_partial.
Theorem C06_overcredit_shortfall_refuted : exists reward cap1 cap2, cap1 + cap2 = PREC /\
  credit_two reward cap1 cap2 = Ok (reward + 1) /\ pay_from_collector reward (reward + 1) = Panic "insufficient-funds".
Proof. exact overcredit_shortfall_refuted. Qed.
Print Assumptions C06_overcredit_shortfall_refuted.

(* recovery-token holders: truncated shares of duplicate-free holders never overdraw the reward ... *)
Theorem C06_rr_allocate_safe_partial : forall amount supply bal listed, 0 <= amount -> 0 < supply -> (forall h, 0 <= bal h) ->
  zsum (map bal listed) <= supply -> is_panic (rr_allocate amount supply bal listed) = false.
Proof. exact rr_allocate_safe. Qed.
Print Assumptions C06_rr_allocate_safe_partial.
(* ... but the holder list is a PREFIX iteration: on this tree (flag regenerated) either the listing is exact, or a holder of
   rr/node1 and rr/node10 is listed twice for rr/node1 and, holding more than half, overdraws the reward: panic in BeginBlock *)
Theorem C06_rr_holders_on_this_tree :
  if rr_holders_exact_denom then (forall d, rr_listed rr_holders_exact_denom d [("rr/node1", 4); ("rr/node10", 4)] = (if String.eqb d "rr/node1" then [4] else if String.eqb d "rr/node10" then [4] else []))
  else (exists index bal, rr_listed rr_holders_exact_denom "rr/node1" index = [4; 4] /\ (forall h, 0 <= bal h) /\ bal 4 <= 10 /\
        rr_allocate 51 10 bal (rr_listed rr_holders_exact_denom "rr/node1" index) = Panic "neg-coin").
Proof. exact (rr_by_flag rr_holders_exact_denom). Qed.
Print Assumptions C06_rr_holders_on_this_tree.

(* address rotation ONTO an existing actor and away again: on this tree (flag regenerated) either both rotation messages
   refuse such a target and the enumeration of every permission completes, or the orphaned index entry halts the chain *)
Theorem C06_rotation_onto_actor_on_this_tree :
  if rotation_refuses_actor_target
  then (a_enumerate 5 (a_actors (rot_hist rotation_refuses_actor_target)) (a_index (rot_hist rotation_refuses_actor_target)) = Ok [20] /\
        a_enumerate 7 (a_actors (rot_hist rotation_refuses_actor_target)) (a_index (rot_hist rotation_refuses_actor_target)) = Ok [1])
  else a_enumerate 5 (a_actors (rot_hist rotation_refuses_actor_target)) (a_index (rot_hist rotation_refuses_actor_target)) = Panic "actor-missing".
Proof. exact (rotation_by_flag rotation_refuses_actor_target). Qed.
Print Assumptions C06_rotation_onto_actor_on_this_tree.

Theorem C06_upgrade_halt_only_when_due : forall due processed instate h skip,
  is_panic (upgrade_begin due processed instate h skip) = true -> due = true /\ processed = true.
Proof. exact upgrade_halt_only_when_due. Qed.
Print Assumptions C06_upgrade_halt_only_when_due.

(* ---------------- the spec checker used on the REAL observations *)
Theorem C06_chk_sound : forall {A} due site (o : outcome A),
  blk_clauses (mkBlk due PhOk [] (obs_of site o) PhOk) = [] <-> is_panic o = false.
Proof. exact @c06_chk_sound. Qed.
Print Assumptions C06_chk_sound.
Theorem C06_chk_accepts_upgrade_halt : forall due processed instate h skip,
  blk_clauses (mkBlk due (obs_of "x.upgrade.keeper.Keeper.ApplyUpgradePlan" (upgrade_begin due processed instate h skip)) [] PhOk PhOk) = [].
Proof. exact c06_chk_accepts_upgrade_halt. Qed.
Print Assumptions C06_chk_accepts_upgrade_halt.

(* ================= the panic-capable sites of the begin/end-block code of the working tree ================= *)
(* (function, kind, number of such sites in that function on the pinned tree, reason).  A NEW site
   (another function, another kind, or one more site of a kind in a listed function) is not accounted
   for and breaks C06_panic_sites_accounted. *)
Definition covered_table : list (string * string * nat * string * list string) := [
  ("x/distributor/keeper.Keeper.AllocateTokens", "quo", 3%nat, "Halt.allocate: snap period and InflationPeriod divisors; InflationPeriod >= 2629800 by the validated network properties (C19), SnapPeriod comes from genesis only (default 1000) -- zero only with a broken genesis", ["c0e9761d3225cd13"]);
  ("x/distributor/keeper.Keeper.AllocateTokensToValidator", "panic", 3%nat, "Halt.allocate / pay_from_collector: the payout itself is covered (allocate_never_panics) but REACHABLE once IncreasePoolRewards has paid an over-credit out of the collector first: finding AllocateTokensToValidator:insufficient-funds (C06_overcredit_shortfall_refuted)", ["d166782fbccf4749"]);
  ("x/feeprocessing/keeper.Keeper.ProcessExecutionFeeReturn", "panic", 1%nat, "Halt.pay_from_collector: reachable only if the fee collector cannot cover the refund (collector_shortfall_panics; depends on C04/C10 over-crediting) -- not reproduced", ["7b1d547a1ad857eb"]);
  ("x/gov.processPoll", "panic", 1%nat, "the IsQuorum error no longer panics (fix 121883e, C06_poll_quorum_on_this_tree full strength); GetPoll error unreachable (polls are never deleted)", ["6a3c84943a00324c"]);
  ("x/gov.processProposal", "panic", 1%nat, "the IsQuorum error no longer panics (fix 121883e, flag gov_proposal_quorum_error_panics = false, C06_proposal_quorum_on_this_tree full strength); remaining panic 'proposal was expected to exist': queue entries are written together with the proposal, proposals are never deleted", ["13a1aac0655ccee0"]);
  ("x/gov/types.ProposalRouter.ApplyProposal", "panic", 1%nat, "Halt.apply_proposal: 'invalid proposal type' unreachable: SubmitProposal dry-runs ApplyProposal with the same content type first (input_only_panics_filtered), routes are fixed at start-up", ["9bc6600aa6c1ec7c"]);
  ("x/spending.ApplySpendingPoolWithdrawProposalHandler.Apply", "sub", 1%nat, "SafeSub + error since fix c12fc9f (flag withdraw_sub_unchecked = false, C06_withdraw_on_this_tree full strength)", ["542d2367ae4f108b"]);
  ("x/spending/keeper.Keeper.ClaimSpendingPool", "newcoin", 1%nat, "guarded since fix c12fc9f: amount.IsNegative() returns an error before NewCoin", ["51097e16338de442"]);
  ("x/spending/keeper.Keeper.ClaimSpendingPool", "sub", 1%nat, "SafeSub + error since fix c12fc9f (flag claim_sub_unchecked = false, C06_claim_on_this_tree full strength)", ["51097e16338de442"]);
  ("x/spending/keeper.Keeper.EndBlocker", "quo", 1%nat, "Halt.spend_pool_step: guarded since fix 2d6ac44 (denominator positive), C06_spend_endblock_never_panics; flag spend_endblock_guarded regenerated from the tree", ["715d8a8b0d13e281"]);
  ("x/spending/keeper.Keeper.EndBlocker", "newcoin", 1%nat, "Halt.new_dec_coin: rate = non-negative deposit / positive denominator since fix 2d6ac44", ["715d8a8b0d13e281"]);
  ("x/staking/keeper.Keeper.BlockValidatorUpdates", "panic", 1%nat, "Halt.vend: unreachable under v_inv (staking_updates_never_panic): queues only receive keys of existing validators and validators are never deleted", ["6e5c2962c463eb67"]);
  ("x/ubi.ApplyUpsertUBIProposalHandler.Apply", "quo", 2%nat, "Halt.ubi_apply_exact (C06_ubi_apply_on_this_tree): sdk.Int.Quo by p.Period after the explicit p.Period == 0 refusal, and by record.Period of stored records, which are only written by this handler after that refusal (genesis default record: 2592000; a genesis record with period 0 would make every UpsertUBI enactment panic -- genesis validation is C12's)", ["916d25d69dfc9018"]);
  ("x/ubi/keeper.Keeper.ProcessUBIRecord", "newcoin", 1%nat, "NewIntFromUint64 since fix b963c04: the amount is never negative (flag ubi_amount_cast_int64 = false, C06_ubi_mint_on_this_tree full strength)", ["6afc9f007454305b"]);
  ("x/upgrade/keeper.Keeper.ApplyUpgradePlan", "panic", 3%nat, "Halt.upgrade_begin: the sanctioned halt (upgrade_halt_only_when_due); PauseProposalNotApprovedValidators errs only for a missing proposal (never deleted)", ["9972c898b1ebca59"])
].
Definition audit_table : list (string * string * nat * string * list string) := [
  ("x/basket.ApplyBasketWithdrawSurplusProposalHandler.Apply", "assert", 1%nat, "proposal content assertion inside its own handler: the router dispatches on ProposalType() of the same content, so the dynamic type matches", ["022866dbdf6bbc25"]);
  ("x/basket.ApplyCreateBasketProposalHandler.Apply", "assert", 1%nat, "proposal content assertion inside its own handler: the router dispatches on ProposalType() of the same content, so the dynamic type matches", ["1a579e954e025b65"]);
  ("x/basket.ApplyEditBasketProposalHandler.Apply", "assert", 1%nat, "proposal content assertion inside its own handler: the router dispatches on ProposalType() of the same content, so the dynamic type matches", ["70191482707df230"]);
  ("x/basket/keeper.Keeper.AfterSlashStakingPool", "sub", 1%nat, "sdk.Int / time subtraction or Coins.Sub guarded by an error-returning balance check before it", ["8376b1e3fbd41765"]);
  ("x/basket/keeper.Keeper.CreateBasket", "index", 2%nat, "map lookup or index bounded by the enclosing loop / length check", ["41809b3693e08f12"]);
  ("x/basket/keeper.Keeper.EditBasket", "index", 6%nat, "map lookup or index bounded by the enclosing loop / length check", ["847a92afc23028ca"]);
  ("x/basket/keeper.Keeper.GetAllBaskets", "must", 1%nat, "decodes bytes (or re-parses an address) that this module stored itself with the matching Marshal -- audited by kind", ["f5c392dbc365b3cb"]);
  ("x/basket/keeper.Keeper.GetBasketById", "must", 1%nat, "decodes bytes (or re-parses an address) that this module stored itself with the matching Marshal -- audited by kind", ["a54a82276f615667"]);
  ("x/basket/keeper.Keeper.SetBasket", "must", 1%nat, "decodes bytes (or re-parses an address) that this module stored itself with the matching Marshal -- audited by kind", ["bfc00549800cf567"]);
  ("x/basket/types.Basket.RatesAndIndexes", "index", 2%nat, "map lookup or index bounded by the enclosing loop / length check", ["a6df3f44802b9f4d"]);
  ("x/collectives.ApplyCollectiveRemoveProposalHandler.AllowedAddresses", "assert", 1%nat, "proposal content assertion inside its own handler: the router dispatches on ProposalType() of the same content, so the dynamic type matches", ["b70eaf99d9962923"]);
  ("x/collectives.ApplyCollectiveRemoveProposalHandler.Apply", "assert", 1%nat, "proposal content assertion inside its own handler: the router dispatches on ProposalType() of the same content, so the dynamic type matches", ["0af9d78ca9e35f48"]);
  ("x/collectives.ApplyCollectiveRemoveProposalHandler.IsAllowedAddress", "assert", 1%nat, "proposal content assertion inside its own handler: the router dispatches on ProposalType() of the same content, so the dynamic type matches", ["ea8e9166b6cad473"]);
  ("x/collectives.ApplyCollectiveRemoveProposalHandler.Quorum", "assert", 1%nat, "proposal content assertion inside its own handler: the router dispatches on ProposalType() of the same content, so the dynamic type matches", ["19683e04ad84ba21"]);
  ("x/collectives.ApplyCollectiveRemoveProposalHandler.VoteEnactment", "assert", 1%nat, "proposal content assertion inside its own handler: the router dispatches on ProposalType() of the same content, so the dynamic type matches", ["74ca6f425bf29c67"]);
  ("x/collectives.ApplyCollectiveRemoveProposalHandler.VotePeriod", "assert", 1%nat, "proposal content assertion inside its own handler: the router dispatches on ProposalType() of the same content, so the dynamic type matches", ["db8cdb81db24d612"]);
  ("x/collectives.ApplyCollectiveSendDonationProposalHandler.AllowedAddresses", "assert", 1%nat, "proposal content assertion inside its own handler: the router dispatches on ProposalType() of the same content, so the dynamic type matches", ["09ac3c4366dfeeba"]);
  ("x/collectives.ApplyCollectiveSendDonationProposalHandler.Apply", "assert", 1%nat, "proposal content assertion inside its own handler: the router dispatches on ProposalType() of the same content, so the dynamic type matches", ["b691c632a5c17744"]);
  ("x/collectives.ApplyCollectiveSendDonationProposalHandler.IsAllowedAddress", "assert", 1%nat, "proposal content assertion inside its own handler: the router dispatches on ProposalType() of the same content, so the dynamic type matches", ["cace4f1c8a1688ec"]);
  ("x/collectives.ApplyCollectiveSendDonationProposalHandler.Quorum", "assert", 1%nat, "proposal content assertion inside its own handler: the router dispatches on ProposalType() of the same content, so the dynamic type matches", ["c79bd528ded84957"]);
  ("x/collectives.ApplyCollectiveSendDonationProposalHandler.VoteEnactment", "assert", 1%nat, "proposal content assertion inside its own handler: the router dispatches on ProposalType() of the same content, so the dynamic type matches", ["af2e8e86d590caf6"]);
  ("x/collectives.ApplyCollectiveSendDonationProposalHandler.VotePeriod", "assert", 1%nat, "proposal content assertion inside its own handler: the router dispatches on ProposalType() of the same content, so the dynamic type matches", ["140d138a25fcd5b7"]);
  ("x/collectives.ApplyCollectiveUpdateProposalHandler.AllowedAddresses", "assert", 1%nat, "proposal content assertion inside its own handler: the router dispatches on ProposalType() of the same content, so the dynamic type matches", ["855abeb5c6fe8807"]);
  ("x/collectives.ApplyCollectiveUpdateProposalHandler.Apply", "assert", 1%nat, "proposal content assertion inside its own handler: the router dispatches on ProposalType() of the same content, so the dynamic type matches", ["0f6d8067d3db9d3c"]);
  ("x/collectives.ApplyCollectiveUpdateProposalHandler.IsAllowedAddress", "assert", 1%nat, "proposal content assertion inside its own handler: the router dispatches on ProposalType() of the same content, so the dynamic type matches", ["d8206d0d191017a0"]);
  ("x/collectives.ApplyCollectiveUpdateProposalHandler.Quorum", "assert", 1%nat, "proposal content assertion inside its own handler: the router dispatches on ProposalType() of the same content, so the dynamic type matches", ["ddae49cafce119ed"]);
  ("x/collectives.ApplyCollectiveUpdateProposalHandler.VoteEnactment", "assert", 1%nat, "proposal content assertion inside its own handler: the router dispatches on ProposalType() of the same content, so the dynamic type matches", ["0637db3e7f786579"]);
  ("x/collectives.ApplyCollectiveUpdateProposalHandler.VotePeriod", "assert", 1%nat, "proposal content assertion inside its own handler: the router dispatches on ProposalType() of the same content, so the dynamic type matches", ["b6a8398f181116db"]);
  ("x/collectives/keeper.Keeper.AllowedAddresses", "index", 4%nat, "map lookup or index bounded by the enclosing loop / length check", ["0b9ec4d125f4c03f"]);
  ("x/collectives/keeper.Keeper.GetAllCollectives", "must", 1%nat, "decodes bytes (or re-parses an address) that this module stored itself with the matching Marshal -- audited by kind", ["085a53e184bcdc35"]);
  ("x/collectives/keeper.Keeper.GetCollective", "must", 1%nat, "decodes bytes (or re-parses an address) that this module stored itself with the matching Marshal -- audited by kind", ["00cbe11fd65175e3"]);
  ("x/collectives/keeper.Keeper.GetCollectiveContributer", "must", 1%nat, "decodes bytes (or re-parses an address) that this module stored itself with the matching Marshal -- audited by kind", ["8c83e9fa930ff6d3"]);
  ("x/collectives/keeper.Keeper.GetCollectiveContributers", "must", 1%nat, "decodes bytes (or re-parses an address) that this module stored itself with the matching Marshal -- audited by kind", ["dd7faf61ce33af48"]);
  ("x/collectives/keeper.Keeper.IsAllowedAddress", "index", 2%nat, "map lookup or index bounded by the enclosing loop / length check", ["e9b62f7e6811bcd1"]);
  ("x/collectives/keeper.Keeper.SendDonation", "sub", 1%nat, "sdk.Int / time subtraction or Coins.Sub guarded by an error-returning balance check before it", ["9c668a1e14930919"]);
  ("x/collectives/keeper.Keeper.SetCollective", "must", 1%nat, "decodes bytes (or re-parses an address) that this module stored itself with the matching Marshal -- audited by kind", ["d010ef1d56832109"]);
  ("x/collectives/keeper.Keeper.WithdrawCollective", "must", 1%nat, "decodes bytes (or re-parses an address) that this module stored itself with the matching Marshal -- audited by kind", ["b96fa395ac90967b"]);
  ("x/collectives/keeper.Keeper.WithdrawCollective", "sub", 3%nat, "sdk.Int / time subtraction or Coins.Sub guarded by an error-returning balance check before it", ["b96fa395ac90967b"]);
  ("x/collectives/keeper.calcPortion", "newcoin", 1%nat, "amount is a product/fraction of non-negative stored amounts; denom validated at creation", ["ad8967f7d6583c04"]);
  ("x/distributor/keeper.Keeper.AllocateTokens", "sub", 4%nat, "guarded by IsAllGTE / sdk.Int.Sub does not panic", ["c0e9761d3225cd13"]);
  ("x/distributor/keeper.Keeper.AllocateTokens", "newcoin", 5%nat, "amounts are products of non-negative values and a commission in [1%,50%] (MsgUpsertStakingPool.ValidateBasic); dead code on the pinned tree (votes are wiped in EndBlocker, C10 finding, so power = 0)", ["c0e9761d3225cd13"]);
  ("x/distributor/keeper.Keeper.AllocateTokens", "panic", 2%nat, "unreachable: minting to the mint module / transfer of the amount just minted", ["c0e9761d3225cd13"]);
  ("x/distributor/keeper.Keeper.BeginBlocker", "panic", 1%nat, "unreachable: ConsAddr strings written by SetValidatorVote itself", ["d20f5b2159893cae"]);
  ("x/distributor/keeper.Keeper.GetFeesTreasury", "panic", 1%nat, "unreachable: parses the string written by SetFeesTreasury", ["0172156421030cf3"]);
  ("x/distributor/keeper.Keeper.GetPeriodicSnapshot", "must", 1%nat, "decodes bytes (or re-parses an address) that this module stored itself with the matching Marshal -- audited by kind", ["c90d544c3fbaf2fe"]);
  ("x/distributor/keeper.Keeper.GetPreviousProposerConsAddr", "panic", 1%nat, "unreachable after height 1 (set in every BeginBlock); an import at initial height > 1 without the key: C12", ["ed1655397e46c3fe"]);
  ("x/distributor/keeper.Keeper.GetYearStartSnapshot", "must", 1%nat, "decodes bytes (or re-parses an address) that this module stored itself with the matching Marshal -- audited by kind", ["b2eb560eed60e941"]);
  ("x/distributor/keeper.Keeper.InflationPossible", "div", 1%nat, "literal divisor arithmetic on constants", ["a3541ac22d30b54c"]);
  ("x/distributor/keeper.Keeper.InflationPossible", "sub", 1%nat, "sdk.Int/Dec Sub: no panic", ["a3541ac22d30b54c"]);
  ("x/distributor/keeper.Keeper.InflationPossible", "quo", 1%nat, "guarded by the zero-supply check above it", ["a3541ac22d30b54c"]);
  ("x/distributor/keeper.Keeper.SetPeriodicSnapshot", "must", 1%nat, "decodes bytes (or re-parses an address) that this module stored itself with the matching Marshal -- audited by kind", ["7a5ee28a2050ce70"]);
  ("x/distributor/keeper.Keeper.SetYearStartSnapshot", "must", 1%nat, "decodes bytes (or re-parses an address) that this module stored itself with the matching Marshal -- audited by kind", ["6e4a3ddfa3e0246e"]);
  ("x/evidence.BeginBlocker", "assert", 1%nat, "proposal content assertion inside its own handler: the router dispatches on ProposalType() of the same content, so the dynamic type matches", ["f0bd1092e019a9b7"]);
  ("x/evidence/keeper.Keeper.GetEvidence", "must", 1%nat, "decodes bytes (or re-parses an address) that this module stored itself with the matching Marshal -- audited by kind", ["6e86a0e171e8578a"]);
  ("x/evidence/keeper.Keeper.HandleEquivocationEvidence", "sub", 1%nat, "time.Sub: no panic", ["c34d6b2e85a9d21f"]);
  ("x/evidence/keeper.Keeper.HandleEquivocationEvidence", "panic", 1%nat, "unreachable: signing info is created when the validator joins (AfterValidatorJoined hook)", ["c34d6b2e85a9d21f"]);
  ("x/evidence/keeper.Keeper.MustMarshalEvidence", "panic", 1%nat, "unreachable: guards a store / codec invariant (record written together with its index)", ["291d07486925668f"]);
  ("x/evidence/keeper.Keeper.MustUnmarshalEvidence", "panic", 1%nat, "unreachable: guards a store / codec invariant (record written together with its index)", ["b4bccbc8a335ed6a"]);
  ("x/evidence/keeper.Keeper.SetEvidence", "must", 1%nat, "decodes bytes (or re-parses an address) that this module stored itself with the matching Marshal -- audited by kind", ["3ab6eeb4f34d2130"]);
  ("x/evidence/types.Equivocation.Hash", "panic", 1%nat, "unreachable: guards a store / codec invariant (record written together with its index)", ["73121bb46c56a335"]);
  ("x/evidence/types.FromABCIEvidence", "panic", 1%nat, "unreachable: guards a store / codec invariant (record written together with its index)", ["0df4eb387dff7d3c"]);
  ("x/feeprocessing/keeper.Keeper.ProcessExecutionFeeReturn", "newcoin", 1%nat, "amount is a product/fraction of non-negative stored amounts; denom validated at creation", ["7b1d547a1ad857eb"]);
  ("x/feeprocessing/keeper.Keeper.SendCoinsFromModuleToAccount", "sub", 2%nat, "sdk.Int / time subtraction or Coins.Sub guarded by an error-returning balance check before it", ["5a3352bf0bc8d2b5"]);
  ("x/feeprocessing/keeper.Keeper.SendCoinsFromModuleToAccount", "newcoin", 1%nat, "amount is a product/fraction of non-negative stored amounts; denom validated at creation", ["5a3352bf0bc8d2b5"]);
  ("x/gov.ApplyAssignRoleToAccountProposalHandler.Apply", "assert", 1%nat, "proposal content assertion inside its own handler: the router dispatches on ProposalType() of the same content, so the dynamic type matches", ["b64f0161a7a7c11c"]);
  ("x/gov.ApplyBlacklistAccountPermissionProposalHandler.Apply", "assert", 1%nat, "proposal content assertion inside its own handler: the router dispatches on ProposalType() of the same content, so the dynamic type matches", ["0d66e9e85976dc59"]);
  ("x/gov.ApplyBlacklistRolePermissionProposalHandler.Apply", "assert", 1%nat, "proposal content assertion inside its own handler: the router dispatches on ProposalType() of the same content, so the dynamic type matches", ["fd3e4818d5e61b12"]);
  ("x/gov.ApplyJailCouncilorProposalHandler.Apply", "assert", 1%nat, "proposal content assertion inside its own handler: the router dispatches on ProposalType() of the same content, so the dynamic type matches", ["e91a8e54f4f2d7b0"]);
  ("x/gov.ApplyRemoveBlacklistedAccountPermissionProposalHandler.Apply", "assert", 1%nat, "proposal content assertion inside its own handler: the router dispatches on ProposalType() of the same content, so the dynamic type matches", ["1408e35e53220acf"]);
  ("x/gov.ApplyRemoveBlacklistedRolePermissionProposalHandler.Apply", "assert", 1%nat, "proposal content assertion inside its own handler: the router dispatches on ProposalType() of the same content, so the dynamic type matches", ["7d28d758bfa46e2a"]);
  ("x/gov.ApplyRemoveRoleProposalHandler.Apply", "assert", 1%nat, "proposal content assertion inside its own handler: the router dispatches on ProposalType() of the same content, so the dynamic type matches", ["24b45cbb84f9b0f3"]);
  ("x/gov.ApplyRemoveWhitelistedAccountPermissionProposalHandler.Apply", "assert", 1%nat, "proposal content assertion inside its own handler: the router dispatches on ProposalType() of the same content, so the dynamic type matches", ["8755bd5fb3687374"]);
  ("x/gov.ApplyRemoveWhitelistedRolePermissionProposalHandler.Apply", "assert", 1%nat, "proposal content assertion inside its own handler: the router dispatches on ProposalType() of the same content, so the dynamic type matches", ["d3a5904574a2e5ff"]);
  ("x/gov.ApplyResetWholeCouncilorRankProposalHandler.Apply", "assert", 1%nat, "proposal content assertion inside its own handler: the router dispatches on ProposalType() of the same content, so the dynamic type matches", ["8e90546965178427"]);
  ("x/gov.ApplySetExecutionFeesHandler.Apply", "assert", 1%nat, "proposal content assertion inside its own handler: the router dispatches on ProposalType() of the same content, so the dynamic type matches", ["bf6da9761a23504a"]);
  ("x/gov.ApplySetNetworkPropertyProposalHandler.Apply", "assert", 1%nat, "proposal content assertion inside its own handler: the router dispatches on ProposalType() of the same content, so the dynamic type matches", ["5d16299f89b8b5d7"]);
  ("x/gov.ApplySetPoorNetworkMessagesProposalHandler.Apply", "assert", 1%nat, "proposal content assertion inside its own handler: the router dispatches on ProposalType() of the same content, so the dynamic type matches", ["ab3bce3852dd5801"]);
  ("x/gov.ApplyUnassignRoleFromAccountProposalHandler.Apply", "assert", 1%nat, "proposal content assertion inside its own handler: the router dispatches on ProposalType() of the same content, so the dynamic type matches", ["83c22d570f74e443"]);
  ("x/gov.ApplyUpsertDataRegistryProposalHandler.Apply", "assert", 1%nat, "proposal content assertion inside its own handler: the router dispatches on ProposalType() of the same content, so the dynamic type matches", ["90a70e035d2b5cc0"]);
  ("x/gov.ApplyWhitelistAccountPermissionProposalHandler.Apply", "assert", 1%nat, "proposal content assertion inside its own handler: the router dispatches on ProposalType() of the same content, so the dynamic type matches", ["133fbd02a82514b9"]);
  ("x/gov.ApplyWhitelistRolePermissionProposalHandler.Apply", "assert", 1%nat, "proposal content assertion inside its own handler: the router dispatches on ProposalType() of the same content, so the dynamic type matches", ["b7d23396737413d9"]);
  ("x/gov.CreateRoleProposalHandler.Apply", "assert", 1%nat, "proposal content assertion inside its own handler: the router dispatches on ProposalType() of the same content, so the dynamic type matches", ["a8cb1ef56af97609"]);
  ("x/gov.SetProposalDurationsProposalHandler.Apply", "assert", 1%nat, "proposal content assertion inside its own handler: the router dispatches on ProposalType() of the same content, so the dynamic type matches", ["0e6b459a73be2ba8"]);
  ("x/gov.SetProposalDurationsProposalHandler.Apply", "index", 1%nat, "map lookup or index bounded by the enclosing loop / length check", ["0e6b459a73be2ba8"]);
  ("x/gov.processEnactmentProposal", "panic", 1%nat, "unreachable: enactment queue entries are written with the proposal; proposals are never deleted", ["33eaf5d42df66f8d"]);
  ("x/gov.processPoll", "index", 1%nat, "map lookup or index bounded by the enclosing loop / length check", ["6a3c84943a00324c"]);
  ("x/gov.processProposal", "index", 2%nat, "map lookup or index bounded by the enclosing loop / length check", ["13a1aac0655ccee0"]);
  ("x/gov/keeper.CheckIfAllowedPermission", "index", 4%nat, "map lookup or index bounded by the enclosing loop / length check", ["452c333de081d1b3"]);
  ("x/gov/keeper.Keeper.BlacklistRolePermission", "must", 1%nat, "decodes bytes (or re-parses an address) that this module stored itself with the matching Marshal -- audited by kind", ["563ce97cb08bc0d6"]);
  ("x/gov/keeper.Keeper.EnsureOldUniqueKeysNotRemoved", "index", 2%nat, "map lookup or index bounded by the enclosing loop / length check", ["651239798ba4401d"]);
  ("x/gov/keeper.Keeper.EnsureUniqueKeys", "index", 6%nat, "map lookup or index bounded by the enclosing loop / length check", ["dc3961420029da15"]);
  ("x/gov/keeper.Keeper.GetAllCouncilors", "must", 1%nat, "decodes bytes (or re-parses an address) that this module stored itself with the matching Marshal -- audited by kind", ["c6b57c1c2b348776"]);
  ("x/gov/keeper.Keeper.GetAllIdentityRecords", "must", 1%nat, "decodes bytes (or re-parses an address) that this module stored itself with the matching Marshal -- audited by kind", ["57fc203f30e5952c"]);
  ("x/gov/keeper.Keeper.GetAverageVotesSlash", "quo", 1%nat, "guarded: returns zero when there is no Yes vote (totalCount == 0) before dividing by the Yes-vote count; exercised by the gov-vote-patterns histories (every vote pattern, run past the enactment end)", ["b15566c2f50370ff"]);
  ("x/gov/keeper.Keeper.GetExecutionFee", "must", 1%nat, "decodes bytes (or re-parses an address) that this module stored itself with the matching Marshal -- audited by kind", ["fb0366212ba58bd0"]);
  ("x/gov/keeper.Keeper.GetNetworkActorByAddress", "must", 1%nat, "decodes bytes (or re-parses an address) that this module stored itself with the matching Marshal -- audited by kind", ["a6034344f4445b9f"]);
  ("x/gov/keeper.Keeper.GetNetworkActorOrFail", "panic", 1%nat, "REACHABLE on trees where a rotation may target an existing actor (finding GetNetworkActorOrFail:actor-missing, pending fix C06-rotation-onto-actor, flag rotation_refuses_actor_target, C06_rotation_onto_actor_on_this_tree); otherwise unreachable while every WRITER keeps the permission / role index entries and the actor record together: x/gov keeper (AddWhitelistPermission, RemoveWhitelistedPermission, AssignRoleToActor, UnassignRoleFromActor, SaveNetworkActor, DeleteNetworkActor) and, outside x/gov, the address-rotation blocks of x/recovery msgServer.RotateRecoveryAddress / RotateValidatorByHalfRRTokenHolder, which move actor, roles and individual permission index entries -- those callers are pinned in foreign_writer_pins (C06_foreign_writers_unchanged); exercised by the actor-perturbation histories", ["3368f8be08283503"]);
  ("x/gov/keeper.Keeper.GetNetworkActorsByAbsoluteWhitelistPermission", "index", 2%nat, "map lookup or index bounded by the enclosing loop / length check", ["b939a5d0ed92fdf9"]);
  ("x/gov/keeper.Keeper.GetNetworkProperties", "must", 1%nat, "decodes bytes (or re-parses an address) that this module stored itself with the matching Marshal -- audited by kind", ["0f5cfad58d8cfa37"]);
  ("x/gov/keeper.Keeper.GetPermissionsForRole", "must", 1%nat, "decodes bytes (or re-parses an address) that this module stored itself with the matching Marshal -- audited by kind", ["37832a867beaeb33"]);
  ("x/gov/keeper.Keeper.GetPoll", "must", 1%nat, "decodes bytes (or re-parses an address) that this module stored itself with the matching Marshal -- audited by kind", ["10c6ee09d00df8fc"]);
  ("x/gov/keeper.Keeper.GetPollVotes", "must", 1%nat, "decodes bytes (or re-parses an address) that this module stored itself with the matching Marshal -- audited by kind", ["d571d0eb5df8cb2e"]);
  ("x/gov/keeper.Keeper.GetProposal", "must", 1%nat, "decodes bytes (or re-parses an address) that this module stored itself with the matching Marshal -- audited by kind", ["7b8dca264e85010e"]);
  ("x/gov/keeper.Keeper.GetProposalVotes", "must", 1%nat, "decodes bytes (or re-parses an address) that this module stored itself with the matching Marshal -- audited by kind", ["84f8d04248b5f8c3"]);
  ("x/gov/keeper.Keeper.GetProposals", "must", 1%nat, "decodes bytes (or re-parses an address) that this module stored itself with the matching Marshal -- audited by kind", ["8dcb56a687b33184"]);
  ("x/gov/keeper.Keeper.GetVotes", "must", 1%nat, "decodes bytes (or re-parses an address) that this module stored itself with the matching Marshal -- audited by kind", ["720be611bdd68fed"]);
  ("x/gov/keeper.Keeper.RemoveBlacklistRolePermission", "must", 1%nat, "decodes bytes (or re-parses an address) that this module stored itself with the matching Marshal -- audited by kind", ["b8b7dc0867bf1d46"]);
  ("x/gov/keeper.Keeper.RemoveWhitelistRolePermission", "must", 1%nat, "decodes bytes (or re-parses an address) that this module stored itself with the matching Marshal -- audited by kind", ["2e56ec231a997c96"]);
  ("x/gov/keeper.Keeper.SaveCouncilor", "must", 1%nat, "decodes bytes (or re-parses an address) that this module stored itself with the matching Marshal -- audited by kind", ["bc3e2c659c192c00"]);
  ("x/gov/keeper.Keeper.SaveNetworkActor", "must", 1%nat, "decodes bytes (or re-parses an address) that this module stored itself with the matching Marshal -- audited by kind", ["2ca5e28127aa7093"]);
  ("x/gov/keeper.Keeper.SavePoll", "must", 1%nat, "decodes bytes (or re-parses an address) that this module stored itself with the matching Marshal -- audited by kind", ["51ac79388eafc64c"]);
  ("x/gov/keeper.Keeper.SavePoorNetworkMessages", "must", 1%nat, "decodes bytes (or re-parses an address) that this module stored itself with the matching Marshal -- audited by kind", ["033fa78baff32c1f"]);
  ("x/gov/keeper.Keeper.SaveProposal", "must", 1%nat, "decodes bytes (or re-parses an address) that this module stored itself with the matching Marshal -- audited by kind", ["b9599013578647cb"]);
  ("x/gov/keeper.Keeper.SetExecutionFee", "must", 1%nat, "decodes bytes (or re-parses an address) that this module stored itself with the matching Marshal -- audited by kind", ["de4b23140bff2b43"]);
  ("x/gov/keeper.Keeper.SetNetworkProperties", "must", 1%nat, "decodes bytes (or re-parses an address) that this module stored itself with the matching Marshal -- audited by kind", ["221d70107781858f"]);
  ("x/gov/keeper.Keeper.SetRole", "panic", 1%nat, "unreachable: guards a store / codec invariant (record written together with its index)", ["a13280216693adf8"]);
  ("x/gov/keeper.Keeper.UpsertDataRegistryEntry", "must", 1%nat, "decodes bytes (or re-parses an address) that this module stored itself with the matching Marshal -- audited by kind", ["d6af8d050b801a65"]);
  ("x/gov/keeper.Keeper.WhitelistRolePermission", "must", 1%nat, "decodes bytes (or re-parses an address) that this module stored itself with the matching Marshal -- audited by kind", ["b1c2c1d88da7ff38"]);
  ("x/gov/keeper.Keeper.getCouncilorByKey", "must", 1%nat, "decodes bytes (or re-parses an address) that this module stored itself with the matching Marshal -- audited by kind", ["84670240aa8df90a"]);
  ("x/gov/keeper.Keeper.savePermissionsForRole", "must", 1%nat, "decodes bytes (or re-parses an address) that this module stored itself with the matching Marshal -- audited by kind", ["de5be9cd39d417b9"]);
  ("x/gov/keeper.ValidateIdentityRecordKey", "must", 1%nat, "decodes bytes (or re-parses an address) that this module stored itself with the matching Marshal -- audited by kind", ["2e5e7b054d08fe9b"]);
  ("x/gov/keeper.ValidateRoleSidKey", "must", 1%nat, "decodes bytes (or re-parses an address) that this module stored itself with the matching Marshal -- audited by kind", ["c90a6e8e7356d966"]);
  ("x/gov/keeper.getRolePermissions", "index", 1%nat, "map lookup or index bounded by the enclosing loop / length check", ["68bafff8905381e3"]);
  ("x/gov/types.CalculatePollVotes", "index", 1%nat, "map lookup or index bounded by the enclosing loop / length check", ["f6d35cce8291d236"]);
  ("x/gov/types.CalculateVotes", "index", 1%nat, "map lookup or index bounded by the enclosing loop / length check", ["b6810ce0ce180988"]);
  ("x/gov/types.CalculatedPollVotes.ProcessResult", "quo", 1%nat, "guarded: the division by actorsWithVeto is inside if actorsWithVeto != 0; exercised by the gov-poll-patterns histories (incl. a poll for a member-less role)", ["d051ab6c78bd3b61"]);
  ("x/gov/types.CalculatedPollVotes.ProcessResult", "index", 3%nat, "map lookup or index bounded by the enclosing loop / length check", ["d051ab6c78bd3b61"]);
  ("x/gov/types.CalculatedPollVotes.ProcessResult", "div", 2%nat, "float32 division: no panic", ["d051ab6c78bd3b61"]);
  ("x/gov/types.CalculatedVotes.ProcessResult", "div", 3%nat, "float32 division: no panic (C08 covers the result)", ["5bfc893f14a8e264"]);
  ("x/gov/types.CalculatedVotes.ProcessResult", "index", 5%nat, "map lookup or index bounded by the enclosing loop / length check", ["5bfc893f14a8e264"]);
  ("x/gov/types.ProposalRouter.AllowedAddressesDynamicProposal", "panic", 1%nat, "unreachable: same content type already routed at submission (state-independent, input_only_panics_filtered)", ["d24018d62fbb62f2"]);
  ("x/gov/types.ProposalRouter.EnactmentPeriodDynamicProposal", "panic", 1%nat, "DeliverTx path (submission); see VotePeriodDynamicProposal", ["0caa5a29dda5e3d6"]);
  ("x/gov/types.ProposalRouter.QuorumDynamicProposal", "panic", 1%nat, "unreachable: same content type already routed at submission (state-independent)", ["f3e82318fb4875cd"]);
  ("x/gov/types.ProposalRouter.VotePeriodDynamicProposal", "panic", 1%nat, "DeliverTx path (CreateAndSaveProposalWithContent at submission); Jail raises only SlashValidator proposals, whose type is routed", ["031ed520d9275c3e"]);
  ("x/layer2.ApplyJoinDappProposalHandler.AllowedAddresses", "assert", 1%nat, "proposal content assertion inside its own handler: the router dispatches on ProposalType() of the same content, so the dynamic type matches", ["721ec2495c217b4d"]);
  ("x/layer2.ApplyJoinDappProposalHandler.Apply", "assert", 1%nat, "proposal content assertion inside its own handler: the router dispatches on ProposalType() of the same content, so the dynamic type matches", ["3f9e334a4b937a48"]);
  ("x/layer2.ApplyJoinDappProposalHandler.IsAllowedAddress", "assert", 1%nat, "proposal content assertion inside its own handler: the router dispatches on ProposalType() of the same content, so the dynamic type matches", ["0709268d9174b42e"]);
  ("x/layer2.ApplyJoinDappProposalHandler.Quorum", "assert", 1%nat, "proposal content assertion inside its own handler: the router dispatches on ProposalType() of the same content, so the dynamic type matches", ["f2127c949688bd6f"]);
  ("x/layer2.ApplyJoinDappProposalHandler.VoteEnactment", "assert", 1%nat, "proposal content assertion inside its own handler: the router dispatches on ProposalType() of the same content, so the dynamic type matches", ["1aeda5aee290a23d"]);
  ("x/layer2.ApplyJoinDappProposalHandler.VotePeriod", "assert", 1%nat, "proposal content assertion inside its own handler: the router dispatches on ProposalType() of the same content, so the dynamic type matches", ["d5253d9fda1d8336"]);
  ("x/layer2.ApplyUpsertDappProposalHandler.AllowedAddresses", "assert", 1%nat, "proposal content assertion inside its own handler: the router dispatches on ProposalType() of the same content, so the dynamic type matches", ["ce345ff6f52e7bab"]);
  ("x/layer2.ApplyUpsertDappProposalHandler.Apply", "assert", 1%nat, "proposal content assertion inside its own handler: the router dispatches on ProposalType() of the same content, so the dynamic type matches", ["2ec483084d777618"]);
  ("x/layer2.ApplyUpsertDappProposalHandler.IsAllowedAddress", "assert", 1%nat, "proposal content assertion inside its own handler: the router dispatches on ProposalType() of the same content, so the dynamic type matches", ["32ec81c3bb975573"]);
  ("x/layer2.ApplyUpsertDappProposalHandler.Quorum", "assert", 1%nat, "proposal content assertion inside its own handler: the router dispatches on ProposalType() of the same content, so the dynamic type matches", ["651433d0487d5597"]);
  ("x/layer2.ApplyUpsertDappProposalHandler.VoteEnactment", "assert", 1%nat, "proposal content assertion inside its own handler: the router dispatches on ProposalType() of the same content, so the dynamic type matches", ["5c4d8dcb58394bd1"]);
  ("x/layer2.ApplyUpsertDappProposalHandler.VotePeriod", "assert", 1%nat, "proposal content assertion inside its own handler: the router dispatches on ProposalType() of the same content, so the dynamic type matches", ["7dcabd634f002cc6"]);
  ("x/layer2/keeper.AddBridgeBalance", "index", 3%nat, "DeliverTx paths only (bridge transfers): recovered by baseapp", ["be46d78433b812ac"]);
  ("x/layer2/keeper.Keeper.AllowedAddresses", "index", 4%nat, "map lookup or index bounded by the enclosing loop / length check", ["eea763ee20a867a0"]);
  ("x/layer2/keeper.Keeper.EndBlocker", "must", 1%nat, "TeamReserve of an ACTIVE dApp: a dApp only becomes active after FinishDappBootstrap parsed the same string when premint is positive; with premint 0 and postmint positive: suspected, not reproduced (bootstrap leaves the dApp Halted)", ["b8af367205165836"]);
  ("x/layer2/keeper.Keeper.EndBlocker", "newcoin", 1%nat, "amount is a product/fraction of non-negative stored amounts; denom validated at creation", ["b8af367205165836"]);
  ("x/layer2/keeper.Keeper.EndBlocker", "panic", 1%nat, "premint payout of LP tokens minted at bootstrap for exactly this purpose", ["b8af367205165836"]);
  ("x/layer2/keeper.Keeper.ExecuteDappRemove", "must", 1%nat, "decodes bytes (or re-parses an address) that this module stored itself with the matching Marshal -- audited by kind", ["174c93808c343e7b"]);
  ("x/layer2/keeper.Keeper.FinishDappBootstrap", "quo", 1%nat, "guarded against zero (drip == 0 => 1) but not against int64(drip) < 0: finding FinishDappBootstrap:neg-deccoin", ["cf64fcd11a9d0b24"]);
  ("x/layer2/keeper.Keeper.FinishDappBootstrap", "newcoin", 4%nat, "REACHABLE: negative pool ratio / issuance: finding FinishDappBootstrap:neg-coin", ["cf64fcd11a9d0b24"]);
  ("x/layer2/keeper.Keeper.FinishDappBootstrap", "panic", 2%nat, "REACHABLE: MsgCreateDappProposal validates nothing: findings FinishDappBootstrap:invalid-coins / invalid-bech32 (dapp-bootstrap histories)", ["cf64fcd11a9d0b24"]);
  ("x/layer2/keeper.Keeper.FinishDappBootstrap", "must", 1%nat, "REACHABLE: TeamReserve is not validated at creation: finding FinishDappBootstrap:invalid-bech32", ["cf64fcd11a9d0b24"]);
  ("x/layer2/keeper.Keeper.GetAllDapps", "must", 1%nat, "decodes bytes (or re-parses an address) that this module stored itself with the matching Marshal -- audited by kind", ["ebd57dad9b60798a"]);
  ("x/layer2/keeper.Keeper.GetBridgeAccount", "must", 1%nat, "decodes bytes (or re-parses an address) that this module stored itself with the matching Marshal -- audited by kind", ["d6b416cc53b2f78f"]);
  ("x/layer2/keeper.Keeper.GetBridgeRegistrarHelper", "must", 1%nat, "decodes bytes (or re-parses an address) that this module stored itself with the matching Marshal -- audited by kind", ["8dd19739c62a8e34"]);
  ("x/layer2/keeper.Keeper.GetBridgeToken", "must", 1%nat, "decodes bytes (or re-parses an address) that this module stored itself with the matching Marshal -- audited by kind", ["2f65dcc44edd75c7"]);
  ("x/layer2/keeper.Keeper.GetCoinsFromBridgeBalance", "newcoin", 1%nat, "amount is a product/fraction of non-negative stored amounts; denom validated at creation", ["6ed112cf10266493"]);
  ("x/layer2/keeper.Keeper.GetDapp", "must", 1%nat, "decodes bytes (or re-parses an address) that this module stored itself with the matching Marshal -- audited by kind", ["4f93505f0905c4cf"]);
  ("x/layer2/keeper.Keeper.GetDappOperator", "must", 1%nat, "decodes bytes (or re-parses an address) that this module stored itself with the matching Marshal -- audited by kind", ["3acbb80637239776"]);
  ("x/layer2/keeper.Keeper.GetDappOperators", "must", 1%nat, "decodes bytes (or re-parses an address) that this module stored itself with the matching Marshal -- audited by kind", ["f5db2720db224461"]);
  ("x/layer2/keeper.Keeper.GetDappSession", "must", 1%nat, "decodes bytes (or re-parses an address) that this module stored itself with the matching Marshal -- audited by kind", ["e7cd502f941f40c9"]);
  ("x/layer2/keeper.Keeper.GetUserDappBonds", "must", 1%nat, "decodes bytes (or re-parses an address) that this module stored itself with the matching Marshal -- audited by kind", ["99cab39c15d359d0"]);
  ("x/layer2/keeper.Keeper.GetXAM", "must", 1%nat, "decodes bytes (or re-parses an address) that this module stored itself with the matching Marshal -- audited by kind", ["9976f4b00e7b9cfe"]);
  ("x/layer2/keeper.Keeper.GetXAMs", "must", 1%nat, "decodes bytes (or re-parses an address) that this module stored itself with the matching Marshal -- audited by kind", ["2ae02a7b0f220b69"]);
  ("x/layer2/keeper.Keeper.IsAllowedAddress", "index", 2%nat, "map lookup or index bounded by the enclosing loop / length check", ["8c863e8c50394ba0"]);
  ("x/layer2/keeper.Keeper.ResetNewSession", "newcoin", 1%nat, "amount is a product/fraction of non-negative stored amounts; denom validated at creation", ["9a120065aae3fc2a"]);
  ("x/layer2/keeper.Keeper.ResetNewSession", "must", 1%nat, "decodes bytes (or re-parses an address) that this module stored itself with the matching Marshal -- audited by kind", ["9a120065aae3fc2a"]);
  ("x/layer2/keeper.Keeper.ResetNewSession", "panic", 1%nat, "unreachable: guards a store / codec invariant (record written together with its index)", ["9a120065aae3fc2a"]);
  ("x/layer2/keeper.Keeper.ResetNewSession", "index", 1%nat, "map lookup or index bounded by the enclosing loop / length check", ["9a120065aae3fc2a"]);
  ("x/layer2/keeper.Keeper.ResetNewSession", "div", 1%nat, "modulo by the number of verified operators: guarded by the emptiness check before it", ["9a120065aae3fc2a"]);
  ("x/layer2/keeper.Keeper.SetBridgeAccount", "must", 1%nat, "decodes bytes (or re-parses an address) that this module stored itself with the matching Marshal -- audited by kind", ["0e696196bd05b0d6"]);
  ("x/layer2/keeper.Keeper.SetBridgeRegistrarHelper", "must", 1%nat, "decodes bytes (or re-parses an address) that this module stored itself with the matching Marshal -- audited by kind", ["9c5e7dbfb73e2e48"]);
  ("x/layer2/keeper.Keeper.SetDapp", "must", 1%nat, "decodes bytes (or re-parses an address) that this module stored itself with the matching Marshal -- audited by kind", ["c1454d57cfcf32bc"]);
  ("x/layer2/keeper.Keeper.SetDappOperator", "must", 1%nat, "decodes bytes (or re-parses an address) that this module stored itself with the matching Marshal -- audited by kind", ["56df2899afd7d67d"]);
  ("x/layer2/keeper.Keeper.SetDappSession", "must", 1%nat, "decodes bytes (or re-parses an address) that this module stored itself with the matching Marshal -- audited by kind", ["6c87cf7a7a8f642c"]);
  ("x/layer2/keeper.Keeper.SetXAM", "must", 1%nat, "decodes bytes (or re-parses an address) that this module stored itself with the matching Marshal -- audited by kind", ["90c2cb7a2d72c13f"]);
  ("x/layer2/keeper.SubBridgeBalance", "index", 4%nat, "DeliverTx paths only (bridge transfers): recovered by baseapp", ["2aa9984b2ddaa724"]);
  ("x/layer2/keeper.SubBridgeBalance", "sub", 1%nat, "DeliverTx paths only (bridge transfers): recovered by baseapp", ["2aa9984b2ddaa724"]);
  ("x/layer2/keeper.msgServer.MintBurnTx", "must", 1%nat, "decodes bytes (or re-parses an address) that this module stored itself with the matching Marshal -- audited by kind", ["cabb5ebda97b8924"]);
  ("x/layer2/keeper.msgServer.MintBurnTx", "newcoin", 1%nat, "amount is a product/fraction of non-negative stored amounts; denom validated at creation", ["cabb5ebda97b8924"]);
  ("x/layer2/keeper.msgServer.MintCreateFtTx", "newcoin", 1%nat, "amount is a product/fraction of non-negative stored amounts; denom validated at creation", ["9aadda9fdbc648ef"]);
  ("x/layer2/keeper.msgServer.MintCreateFtTx", "must", 1%nat, "decodes bytes (or re-parses an address) that this module stored itself with the matching Marshal -- audited by kind", ["9aadda9fdbc648ef"]);
  ("x/layer2/keeper.msgServer.MintCreateNftTx", "newcoin", 1%nat, "amount is a product/fraction of non-negative stored amounts; denom validated at creation", ["ba376a5f0f7d37d0"]);
  ("x/layer2/keeper.msgServer.MintCreateNftTx", "must", 1%nat, "decodes bytes (or re-parses an address) that this module stored itself with the matching Marshal -- audited by kind", ["ba376a5f0f7d37d0"]);
  ("x/layer2/keeper.msgServer.MintIssueTx", "must", 2%nat, "decodes bytes (or re-parses an address) that this module stored itself with the matching Marshal -- audited by kind", ["0ff40733e1ea8466"]);
  ("x/layer2/keeper.msgServer.MintIssueTx", "newcoin", 2%nat, "amount is a product/fraction of non-negative stored amounts; denom validated at creation", ["0ff40733e1ea8466"]);
  ("x/layer2/keeper.msgServer.TransferDappTx", "must", 1%nat, "decodes bytes (or re-parses an address) that this module stored itself with the matching Marshal -- audited by kind", ["4536d3ab87d35349"]);
  ("x/multistaking/keeper.Keeper.ClaimRewards", "panic", 1%nat, "unreachable: guards a store / codec invariant (record written together with its index)", ["0cb64d180c28bba9"]);
  ("x/multistaking/keeper.Keeper.ClaimRewardsFromModule", "panic", 1%nat, "unreachable: guards a store / codec invariant (record written together with its index)", ["4cde2db996dac55d"]);
  ("x/multistaking/keeper.Keeper.GetAllStakingPools", "must", 1%nat, "decodes bytes (or re-parses an address) that this module stored itself with the matching Marshal -- audited by kind", ["5f060253f8e1c82a"]);
  ("x/multistaking/keeper.Keeper.GetCompoundInfoByAddress", "must", 1%nat, "decodes bytes (or re-parses an address) that this module stored itself with the matching Marshal -- audited by kind", ["78c281e2ea9a0b9c"]);
  ("x/multistaking/keeper.Keeper.GetDelegatorRewards", "panic", 1%nat, "unreachable: guards a store / codec invariant (record written together with its index)", ["759deeebf729e036"]);
  ("x/multistaking/keeper.Keeper.GetStakingPoolByValidator", "must", 1%nat, "decodes bytes (or re-parses an address) that this module stored itself with the matching Marshal -- audited by kind", ["1a43f0719ed68279"]);
  ("x/multistaking/keeper.Keeper.IncreasePoolRewards", "newcoin", 2%nat, "non-negative products", ["a11b046450bd2b1c"]);
  ("x/multistaking/keeper.Keeper.IncreasePoolRewards", "quo", 1%nat, "guarded: shareToken.Amount.IsZero() => continue", ["a11b046450bd2b1c"]);
  ("x/multistaking/keeper.Keeper.SetCompoundInfo", "must", 1%nat, "decodes bytes (or re-parses an address) that this module stored itself with the matching Marshal -- audited by kind", ["c6fceb728a4aee3b"]);
  ("x/multistaking/keeper.Keeper.SetStakingPool", "must", 1%nat, "decodes bytes (or re-parses an address) that this module stored itself with the matching Marshal -- audited by kind", ["0980cc29fad49e87"]);
  ("x/multistaking/keeper.Keeper.SlashStakingPool", "newcoin", 2%nat, "non-negative fractions", ["3659416c5742f268"]);
  ("x/multistaking/keeper.Keeper.SlashStakingPool", "sub", 3%nat, "fractions of the pool totals (slash in [0,1])", ["3659416c5742f268"]);
  ("x/multistaking/keeper.Keeper.SlashStakingPool", "panic", 3%nat, "reached from SlashValidator.Apply in the gov end-blocker (no dry run); since fix 27b0386 the keeper is shared and an empty burn is skipped: burn / transfer of fractions (slash in [0,1]) of module-held stake; slash-proposal histories (slash, unjail, activate, undelegate, rewards) complete", ["3659416c5742f268"]);
  ("x/multistaking/keeper.Keeper.autocompoundRewards", "sub", 1%nat, "autoCompoundRewards is a sub-multiset of rewards by construction; runs on a cache context whose errors are discarded", ["194b1c772b6f588e"]);
  ("x/multistaking/types.GetPoolCoins", "newcoin", 1%nat, "DeliverTx paths only: recovered by baseapp", ["d4eebeaeab5c03b0"]);
  ("x/multistaking/types.GetPoolCoins", "sub", 1%nat, "DeliverTx paths only (Undelegate / redeem): recovered by baseapp", ["d4eebeaeab5c03b0"]);
  ("x/recovery/keeper.Keeper.ClaimRewards", "panic", 1%nat, "unreachable: guards a store / codec invariant (record written together with its index)", ["481ac89eced8ac7f"]);
  ("x/recovery/keeper.Keeper.GetRRTokenHolderRewards", "panic", 1%nat, "unreachable: guards a store / codec invariant (record written together with its index)", ["8279fa45ce06c49d"]);
  ("x/recovery/keeper.Keeper.GetRecoveryToken", "must", 1%nat, "decodes bytes (or re-parses an address) that this module stored itself with the matching Marshal -- audited by kind", ["68cd1241d1ebbd98"]);
  ("x/recovery/keeper.Keeper.IncreaseRecoveryTokenUnderlying", "sub", 1%nat, "Halt.rr_allocate: safe for DUPLICATE-FREE holders (truncated shares, balances sum to at most the supply: C06_rr_allocate_safe_partial); REACHABLE while GetRRTokenHolders lists by key prefix: a holder of rr/node1 and rr/node10 is listed twice for rr/node1 (finding IncreaseRecoveryTokenUnderlying:neg-coin, pending fix C06-rr-holder-prefix; flag rr_holders_exact_denom, C06_rr_holders_on_this_tree); recovery-rewards and recovery-rewards-prefix histories", ["5f101af1a595a034"]);
  ("x/recovery/keeper.Keeper.SetRecoveryToken", "must", 1%nat, "decodes bytes (or re-parses an address) that this module stored itself with the matching Marshal -- audited by kind", ["963cbc98673abaf4"]);
  ("x/recovery/keeper.calcPortion", "newcoin", 1%nat, "non-negative: product of non-negative amounts divided by a positive supply, truncated", ["54997deb1d3f4cda"]);
  ("x/recovery/keeper.calcPortion", "quo", 1%nat, "divides by the RR supply: calcPortion is only called for registered holders, UnregisterNotEnoughAmountHolder has just removed every holder below 1000000 units, so a remaining holder implies supply >= 1000000", ["54997deb1d3f4cda"]);
  ("x/slashing.ApplyResetWholeValidatorRankProposalHandler.Apply", "assert", 1%nat, "proposal content assertion inside its own handler: the router dispatches on ProposalType() of the same content, so the dynamic type matches", ["7a0cbc4ff2440567"]);
  ("x/slashing.ApplySlashValidatorProposalHandler.Apply", "assert", 1%nat, "proposal content assertion inside its own handler: the router dispatches on ProposalType() of the same content, so the dynamic type matches", ["b0a4d5bbaced26e2"]);
  ("x/slashing/keeper.Keeper.GetValidatorSigningInfo", "must", 1%nat, "decodes bytes (or re-parses an address) that this module stored itself with the matching Marshal -- audited by kind", ["0d9b0edc8d11c27b"]);
  ("x/slashing/keeper.Keeper.HandleValidatorSignature", "panic", 3%nat, "unreachable for votes of validators CometBFT knows through this app's updates (pubkey relation + signing info written on join); exercised by every block of the harness", ["8135aa2c67190238"]);
  ("x/slashing/keeper.Keeper.IterateValidatorSigningInfos", "must", 1%nat, "decodes bytes (or re-parses an address) that this module stored itself with the matching Marshal -- audited by kind", ["451aff9c9e07213f"]);
  ("x/slashing/keeper.Keeper.IterateValidatorSigningInfos", "panic", 1%nat, "unreachable: guards a store / codec invariant (record written together with its index)", ["451aff9c9e07213f"]);
  ("x/slashing/keeper.Keeper.Jail", "assert", 1%nat, "since fix fb18192 rotation stores the updated ProposalSlashValidator, so the content of a proposal of type SlashValidator has that dynamic type (recovery-rotation histories complete)", ["10fd186967ed4ba1"]);
  ("x/slashing/keeper.Keeper.JailUntil", "panic", 1%nat, "unreachable: guards a store / codec invariant (record written together with its index)", ["a6981c2b2eadd02f"]);
  ("x/slashing/keeper.Keeper.SetValidatorSigningInfo", "must", 1%nat, "decodes bytes (or re-parses an address) that this module stored itself with the matching Marshal -- audited by kind", ["0043bd971ad87643"]);
  ("x/spending.ApplySpendingPoolDistributionProposalHandler.AllowedAddresses", "assert", 1%nat, "proposal content assertion inside its own handler: the router dispatches on ProposalType() of the same content, so the dynamic type matches", ["e1bcc58666658858"]);
  ("x/spending.ApplySpendingPoolDistributionProposalHandler.Apply", "assert", 1%nat, "proposal content assertion inside its own handler: the router dispatches on ProposalType() of the same content, so the dynamic type matches", ["9893d34d54a1b63c"]);
  ("x/spending.ApplySpendingPoolDistributionProposalHandler.Apply", "index", 2%nat, "map lookups; the nil pool dereference on a missing pool is state-independent in practice (pools are never deleted) and fails the dry run", ["9893d34d54a1b63c"]);
  ("x/spending.ApplySpendingPoolDistributionProposalHandler.IsAllowedAddress", "assert", 1%nat, "proposal content assertion inside its own handler: the router dispatches on ProposalType() of the same content, so the dynamic type matches", ["6dccec95d06ebf78"]);
  ("x/spending.ApplySpendingPoolDistributionProposalHandler.Quorum", "assert", 1%nat, "proposal content assertion inside its own handler: the router dispatches on ProposalType() of the same content, so the dynamic type matches", ["d03834529df95eba"]);
  ("x/spending.ApplySpendingPoolDistributionProposalHandler.VoteEnactment", "assert", 1%nat, "proposal content assertion inside its own handler: the router dispatches on ProposalType() of the same content, so the dynamic type matches", ["5fe22ca28ddf19d1"]);
  ("x/spending.ApplySpendingPoolDistributionProposalHandler.VotePeriod", "assert", 1%nat, "proposal content assertion inside its own handler: the router dispatches on ProposalType() of the same content, so the dynamic type matches", ["24bb44375e0c415f"]);
  ("x/spending.ApplySpendingPoolWithdrawProposalHandler.AllowedAddresses", "assert", 1%nat, "proposal content assertion inside its own handler: the router dispatches on ProposalType() of the same content, so the dynamic type matches", ["5ded0587860603c8"]);
  ("x/spending.ApplySpendingPoolWithdrawProposalHandler.Apply", "assert", 1%nat, "proposal content assertion inside its own handler: the router dispatches on ProposalType() of the same content, so the dynamic type matches", ["542d2367ae4f108b"]);
  ("x/spending.ApplySpendingPoolWithdrawProposalHandler.IsAllowedAddress", "assert", 1%nat, "proposal content assertion inside its own handler: the router dispatches on ProposalType() of the same content, so the dynamic type matches", ["788c2fe76a3278fa"]);
  ("x/spending.ApplySpendingPoolWithdrawProposalHandler.Quorum", "assert", 1%nat, "proposal content assertion inside its own handler: the router dispatches on ProposalType() of the same content, so the dynamic type matches", ["dae4531c74329cbf"]);
  ("x/spending.ApplySpendingPoolWithdrawProposalHandler.VoteEnactment", "assert", 1%nat, "proposal content assertion inside its own handler: the router dispatches on ProposalType() of the same content, so the dynamic type matches", ["195c016360c54dff"]);
  ("x/spending.ApplySpendingPoolWithdrawProposalHandler.VotePeriod", "assert", 1%nat, "proposal content assertion inside its own handler: the router dispatches on ProposalType() of the same content, so the dynamic type matches", ["d180f83a55a09f65"]);
  ("x/spending.ApplyUpdateSpendingPoolProposalHandler.AllowedAddresses", "assert", 1%nat, "proposal content assertion inside its own handler: the router dispatches on ProposalType() of the same content, so the dynamic type matches", ["04e762e5c7d6acac"]);
  ("x/spending.ApplyUpdateSpendingPoolProposalHandler.Apply", "assert", 1%nat, "proposal content assertion inside its own handler: the router dispatches on ProposalType() of the same content, so the dynamic type matches", ["2ad38aa0861ca04f"]);
  ("x/spending.ApplyUpdateSpendingPoolProposalHandler.IsAllowedAddress", "assert", 1%nat, "proposal content assertion inside its own handler: the router dispatches on ProposalType() of the same content, so the dynamic type matches", ["a4ba89e8a6fc5f92"]);
  ("x/spending.ApplyUpdateSpendingPoolProposalHandler.Quorum", "assert", 1%nat, "proposal content assertion inside its own handler: the router dispatches on ProposalType() of the same content, so the dynamic type matches", ["6583cf1a66896ef5"]);
  ("x/spending.ApplyUpdateSpendingPoolProposalHandler.VoteEnactment", "assert", 1%nat, "proposal content assertion inside its own handler: the router dispatches on ProposalType() of the same content, so the dynamic type matches", ["5a9f921d1bd45ad4"]);
  ("x/spending.ApplyUpdateSpendingPoolProposalHandler.VotePeriod", "assert", 1%nat, "proposal content assertion inside its own handler: the router dispatches on ProposalType() of the same content, so the dynamic type matches", ["ff2a7e4b6f53a291"]);
  ("x/spending/keeper.Keeper.AllowedAddresses", "index", 4%nat, "map lookup or index bounded by the enclosing loop / length check", ["6264758094c83280"]);
  ("x/spending/keeper.Keeper.EndBlocker", "must", 1%nat, "decodes bytes (or re-parses an address) that this module stored itself with the matching Marshal -- audited by kind", ["715d8a8b0d13e281"]);
  ("x/spending/keeper.Keeper.GetAllSpendingPools", "must", 1%nat, "decodes bytes (or re-parses an address) that this module stored itself with the matching Marshal -- audited by kind", ["fcbb6ac3a7828bc4"]);
  ("x/spending/keeper.Keeper.GetBeneficiaryWeight", "index", 2%nat, "map lookup or index bounded by the enclosing loop / length check", ["6a5e9d7ee8132d01"]);
  ("x/spending/keeper.Keeper.GetClaimInfo", "must", 1%nat, "decodes bytes (or re-parses an address) that this module stored itself with the matching Marshal -- audited by kind", ["233d712c13289c9f"]);
  ("x/spending/keeper.Keeper.GetPoolClaimInfos", "must", 1%nat, "decodes bytes (or re-parses an address) that this module stored itself with the matching Marshal -- audited by kind", ["45bb5e79c4a1c6f9"]);
  ("x/spending/keeper.Keeper.GetSpendingPool", "must", 1%nat, "decodes bytes (or re-parses an address) that this module stored itself with the matching Marshal -- audited by kind", ["896f46830e7c8974"]);
  ("x/spending/keeper.Keeper.IsAllowedAddress", "index", 2%nat, "map lookup or index bounded by the enclosing loop / length check", ["3e2ff6da40835b6c"]);
  ("x/spending/keeper.Keeper.IsAllowedBeneficiary", "index", 2%nat, "map lookup or index bounded by the enclosing loop / length check", ["2107107913c16f7d"]);
  ("x/spending/keeper.Keeper.SetClaimInfo", "must", 1%nat, "decodes bytes (or re-parses an address) that this module stored itself with the matching Marshal -- audited by kind", ["a31572ae398be9c5"]);
  ("x/spending/keeper.Keeper.SetSpendingPool", "must", 1%nat, "decodes bytes (or re-parses an address) that this module stored itself with the matching Marshal -- audited by kind", ["1283b4cd6cc7eacd"]);
  ("x/spending/types.ValidateSpendingPoolName", "must", 1%nat, "decodes bytes (or re-parses an address) that this module stored itself with the matching Marshal -- audited by kind", ["1069e3348eb9250b"]);
  ("x/staking.ApplyUnjailValidatorProposalHandler.Apply", "assert", 1%nat, "proposal content assertion inside its own handler: the router dispatches on ProposalType() of the same content, so the dynamic type matches", ["14162fad8a55931b"]);
  ("x/staking/keeper.Keeper.AddValidator", "must", 1%nat, "decodes bytes (or re-parses an address) that this module stored itself with the matching Marshal -- audited by kind", ["bd1a208e43ada858"]);
  ("x/staking/keeper.Keeper.GetPendingValidatorSet", "must", 1%nat, "decodes bytes (or re-parses an address) that this module stored itself with the matching Marshal -- audited by kind", ["459962b75bd7cdeb"]);
  ("x/staking/keeper.Keeper.GetValidatorJailInfo", "must", 1%nat, "decodes bytes (or re-parses an address) that this module stored itself with the matching Marshal -- audited by kind", ["5c6122114f5c2349"]);
  ("x/staking/keeper.Keeper.GetValidatorSet", "must", 1%nat, "decodes bytes (or re-parses an address) that this module stored itself with the matching Marshal -- audited by kind", ["e7123651d91fbc0d"]);
  ("x/staking/keeper.Keeper.Inactivate", "sub", 1%nat, "sdk.Int / time subtraction or Coins.Sub guarded by an error-returning balance check before it", ["9ac003aa6a758626"]);
  ("x/staking/keeper.Keeper.PauseProposalNotApprovedValidators", "index", 3%nat, "map lookup or index bounded by the enclosing loop / length check", ["66185722e22265cb"]);
  ("x/staking/keeper.Keeper.getValidatorByKey", "must", 1%nat, "decodes bytes (or re-parses an address) that this module stored itself with the matching Marshal -- audited by kind", ["86eb4e7950b0a5f0"]);
  ("x/staking/keeper.Keeper.setJailValidatorInfo", "must", 1%nat, "decodes bytes (or re-parses an address) that this module stored itself with the matching Marshal -- audited by kind", ["6b4d1bd110129330"]);
  ("x/staking/types.Validator.GetConsPubKey", "panic", 1%nat, "unpacks the validator's own stored public key Any (cached value set by UnpackInterfaces when the record is read)", ["7496996e2d7d0d9b"]);
  ("x/tokens.ApplyUpsertTokenInfosProposalHandler.Apply", "assert", 1%nat, "proposal content assertion inside its own handler: the router dispatches on ProposalType() of the same content, so the dynamic type matches", ["b06dca7bb4f15363"]);
  ("x/tokens.ApplyWhiteBlackChangeProposalHandler.Apply", "assert", 1%nat, "proposal content assertion inside its own handler: the router dispatches on ProposalType() of the same content, so the dynamic type matches", ["176eb6b88132c613"]);
  ("x/tokens/keeper.Keeper.BurnCoins", "sub", 1%nat, "sdk.Int / time subtraction or Coins.Sub guarded by an error-returning balance check before it", ["2ed9f7be1df98e38"]);
  ("x/tokens/keeper.Keeper.GetAllTokenInfos", "must", 1%nat, "decodes bytes (or re-parses an address) that this module stored itself with the matching Marshal -- audited by kind", ["45d04a9bc583b464"]);
  ("x/tokens/keeper.Keeper.GetTokenBlackWhites", "must", 1%nat, "decodes bytes (or re-parses an address) that this module stored itself with the matching Marshal -- audited by kind", ["400e430e1d5daffe"]);
  ("x/tokens/keeper.Keeper.GetTokenInfo", "must", 1%nat, "decodes bytes (or re-parses an address) that this module stored itself with the matching Marshal -- audited by kind", ["2481e0688df2094b"]);
  ("x/tokens/keeper.Keeper.SetTokenBlackWhites", "must", 1%nat, "decodes bytes (or re-parses an address) that this module stored itself with the matching Marshal -- audited by kind", ["24fec8a3d0725d57"]);
  ("x/tokens/keeper.Keeper.UpsertTokenInfo", "must", 1%nat, "decodes bytes (or re-parses an address) that this module stored itself with the matching Marshal -- audited by kind", ["fb27e0d2ec7d6af3"]);
  ("x/tokens/keeper.removeTokens", "index", 2%nat, "map lookup or index bounded by the enclosing loop / length check", ["1f05d5b4a9af8ad0"]);
  ("x/ubi.ApplyRemoveUBIProposalHandler.Apply", "assert", 1%nat, "proposal content assertion inside its own handler: the router dispatches on ProposalType() of the same content, so the dynamic type matches", ["fcf626f8521a2345"]);
  ("x/ubi.ApplyUpsertUBIProposalHandler.Apply", "assert", 1%nat, "proposal content assertion inside its own handler: the router dispatches on ProposalType() of the same content, so the dynamic type matches", ["916d25d69dfc9018"]);
  ("x/ubi/keeper.Keeper.GetUBIRecordByName", "must", 1%nat, "decodes bytes (or re-parses an address) that this module stored itself with the matching Marshal -- audited by kind", ["e4d31df7cd1b7e04"]);
  ("x/ubi/keeper.Keeper.ProcessUBIRecord", "sub", 1%nat, "sdk.Int arithmetic: no panic", ["6afc9f007454305b"]);
  ("x/ubi/keeper.Keeper.SetUBIRecord", "must", 1%nat, "decodes bytes (or re-parses an address) that this module stored itself with the matching Marshal -- audited by kind", ["6ce15c162e4a47de"]);
  ("x/upgrade.ApplySoftwareUpgradeProposalHandler.Apply", "assert", 1%nat, "proposal content assertion inside its own handler: the router dispatches on ProposalType() of the same content, so the dynamic type matches", ["e7cef7e89d6a7895"]);
  ("x/upgrade/keeper.Keeper.ApplyUpgradePlan", "index", 1%nat, "map lookup or index bounded by the enclosing loop / length check", ["9972c898b1ebca59"]);
  ("x/upgrade/keeper.Keeper.SaveCurrentPlan", "panic", 1%nat, "unreachable: guards a store / codec invariant (record written together with its index)", ["2375fe2d93f5e3c7"]);
  ("x/upgrade/keeper.Keeper.setNextPlan", "panic", 1%nat, "unreachable: guards a store / codec invariant (record written together with its index)", ["d4933c66b4ada575"])
].
Definition foreign_writer_pins : list (string * list string) := [
  ("x/distributor/keeper.Keeper.AllocateTokens", ["c0e9761d3225cd13"]);
  ("x/distributor/keeper.Keeper.AllocateTokensToValidator", ["d166782fbccf4749"]);
  ("x/layer2/keeper.msgServer.MintCreateFtTx", ["9aadda9fdbc648ef"]);
  ("x/layer2/keeper.msgServer.MintCreateNftTx", ["ba376a5f0f7d37d0"]);
  ("x/multistaking/keeper.Keeper.SlashStakingPool", ["3659416c5742f268"]);
  ("x/recovery/keeper.msgServer.RotateRecoveryAddress", ["253b1af893e5cf45"; "c7f95f49c98b0e1c"]);
  ("x/recovery/keeper.msgServer.RotateValidatorByHalfRRTokenHolder", ["994ac9f5b9dca6d0"; "c960f621189dc98a"]);
  ("x/slashing/keeper.msgServer.RefuteSlashingProposal", ["4942680cc029f6b1"]);
  ("x/staking/teststaking.Helper.CreateValidator", ["dd9c4f2dc40f0aa9"])
].

Definition entry_matches (s : string * string * string * string * nat) (e : string * string * nat * string * list string) : bool :=
  let '(_, fn, _, kind, ord) := s in let '(efn, ekind, n, _, _) := e in
  String.eqb fn efn && String.eqb kind ekind && Nat.ltb ord n.
Definition covered (s : string * string * string * string * nat) : bool := existsb (entry_matches s) covered_table.
Definition audited (s : string * string * string * string * nat) : bool := existsb (entry_matches s) audit_table.

Lemma panic_sites_accounted : gen_errors = [] /\ forallb (fun s => covered s || audited s) sites = true.
Proof. split; vm_compute; reflexivity. Qed.
(* A verdict -- audited OR covered by a model -- is given for the CODE of the function as it was read, not for
   its name: EVERY function that contains a site of the generated table is pinned by the fingerprint of its
   comment- and whitespace-normalised declaration (several accepted fingerprints = trees with pending fix
   patches applied).  A changed function breaks this obligation and triggers the widened search. *)
Fixpoint fp_lookup (fn : string) (l : list (string * string)) : option string :=
  match l with [] => None | (f, h) :: r => if String.eqb f fn then Some h else fp_lookup fn r end.
Definition fp_ok (e : string * string * nat * string * list string) : bool :=
  let '(fn, _, _, _, fps) := e in
  match fps with [] => true | _ => match fp_lookup fn fn_fingerprints with Some h => str_in h fps | None => true (* the function has no site on this tree *) end end.
Definition changed_audited_functions : list string :=
  map (fun e => let '(fn, _, _, _, _) := e in fn) (filter (fun e => negb (fp_ok e)) (covered_table ++ audit_table)).
Lemma audited_functions_unchanged : changed_audited_functions = [].
Proof. vm_compute. reflexivity. Qed.
Theorem C06_audited_functions_unchanged : changed_audited_functions = [].
Proof. exact audited_functions_unchanged. Qed.
Print Assumptions C06_audited_functions_unchanged.

(* Verdicts such as "the index is consistent by construction" also rest on the code of OTHER modules that write
   that state (e.g. the address-rotation blocks of x/recovery rewriting gov actors and permission indexes).
   gen_panics lists every function calling a writer method of another module; each is pinned by fingerprint,
   and a new such caller is not pinned at all. *)
Fixpoint pin_lookup (fn : string) (l : list (string * list string)) : option (list string) :=
  match l with [] => None | (f, hs) :: r => if String.eqb f fn then Some hs else pin_lookup fn r end.
Definition foreign_ok (w : string * string * string) : bool :=
  let '(fn, _, fp) := w in match pin_lookup fn foreign_writer_pins with Some hs => str_in fp hs | None => false end.
Definition changed_foreign_writers : list string :=
  map (fun w => let '(fn, _, _) := w in fn) (filter (fun w => negb (foreign_ok w)) foreign_writers).
Lemma foreign_writers_unchanged : changed_foreign_writers = [].
Proof. vm_compute. reflexivity. Qed.
Theorem C06_foreign_writers_unchanged : changed_foreign_writers = [].
Proof. exact foreign_writers_unchanged. Qed.
Print Assumptions C06_foreign_writers_unchanged.

Theorem C06_panic_sites_accounted : gen_errors = [] /\ forallb (fun s => covered s || audited s) sites = true.
Proof. exact panic_sites_accounted. Qed.
Print Assumptions C06_panic_sites_accounted.

(* ================= non-vacuity ================= *)
Example C06_world_inv_nonvacuous : exists w, world_inv w /\ w_pools w <> [] /\ w_due w <> [].
Proof.
  exists (mkW [(330000000000000000, mkG [1; 2] [2])] (mkV [7; 8] [8] []) [mkSpool true 60 100 (3 * PREC) [100000]]).
  split; [|split; discriminate].
  split; [|split].
  - constructor; [|constructor]. cbn [fst snd g_holders g_votes]. split; [split; vm_compute; discriminate|]. split.
    + split; [|split].
      * constructor; [intros [H|[]]; discriminate|]. constructor; [intros []|constructor].
      * constructor; [intros []|constructor].
      * intros x [<-|[]]. right. left. reflexivity.
    + vm_compute. reflexivity.
  - reflexivity.
  - constructor; [|constructor]. unfold psafe; cbn [sp_dyn sp_period sp_weight sp_bals].
    split; [intros _; split; vm_compute; reflexivity|]. split; [split; vm_compute; discriminate|].
    constructor; [|constructor]. split; [vm_compute; discriminate|vm_compute; reflexivity].
Qed.
Example C06_guarded_history_nonvacuous :
  forallb sop_ok [SCreate true 60 100; SRegister 0 PREC; SDeposit 0 100000; SEnd 200] = true /\
  srun false [SCreate true 60 100; SRegister 0 PREC; SDeposit 0 100000; SEnd 200] = Ok [mkSpool true 60 200 PREC [100000]].
Proof. split; reflexivity. Qed.
Example C06_gov_inv_nonvacuous : exists ops s, g_inv s /\ (forall o, In o ops -> is_revoke o = false) /\
  List.length (g_votes (grun ops s)) = 2%nat.
Proof.
  exists [GGrant 1; GGrant 2; GVote 1; GVote 2; GVote 3], (mkG [] []).
  split; [repeat split; try constructor; intros x []|]. split; [|reflexivity].
  intros o H. simpl in H. repeat (destruct H as [<-|H]; [reflexivity|]). destruct H.
Qed.
Example C06_staking_inv_nonvacuous : vrun [VJoin 1; VJoin 2; VPause 1; VJail 3; VActivate 1; VEnd] (mkV [] [] []) = Ok (mkV [2; 1] [] []).
Proof. reflexivity. Qed.

(* PARTIAL: the theorems are about the models of Model/Halt.v (tied to /repo by the differential run at
   ABCI level) and about the syntactic site list of Gen/PanicSites.v; panics inside cosmos-sdk, CometBFT,
   IAVL, the Go runtime (out of memory) are outside the model, and the [audited] reasons are reviewed
   claims, not theorems. *)
