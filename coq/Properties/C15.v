(* C15 -- Validator status follows allowed transitions; offences and downtime are punished.
   Only statements, each closed by [exact] of a lemma from Proofs/Validators.v, and its assumptions.
   Same model as C05 (Model/Validators.v), tied to /repo by the differential run of checks/c15.py. *)
From Sekai Require Import Base.Prelude Base.Dec Model.Validators Model.C05Check Model.C15Check Proofs.Validators.

(* A status changes only along the allowed edge of the operation that caused it ([edge_ok]: owner
   pause ACTIVE->PAUSED, owner unpause PAUSED->ACTIVE, owner activate INACTIVE->ACTIVE, missed vote
   ACTIVE->INACTIVE, evidence ->JAILED, unjail proposal JAILED->INACTIVE, rank reset ->ACTIVE, upgrade
   pause ACTIVE->PAUSED; claim / new block / end block change nobody) ... *)
Theorem C15_only_allowed_edges_refuted : ~ C15_only_allowed_edges_statement.
Proof. exact only_allowed_edges_refuted. Qed.
Print Assumptions C15_only_allowed_edges_refuted.
(* ... except for exactly one edge of the code: the upgrade pause moves a JAILED validator to PAUSED *)
Theorem C15_only_allowed_edges_partial :
  forall cfg s o v a b, Inv s -> 0 <= c_maxm cfg ->
  status_at s v = Some a -> status_at (fst (step cfg s o)) v = Some b -> a <> b ->
  edge_ok o v a b \/ (exists vs, o = OUpPause vs /\ In v vs /\ a = SJailed /\ b = SPaused).
Proof. exact only_allowed_edges_partial. Qed.
Print Assumptions C15_only_allowed_edges_partial.
(* and that edge is a way out of jail without any proposal *)
Theorem C15_jail_escape_refuted :
  exists s ops, Inv s /\ status_at s 1 = Some SJailed /\
    (forall o, In o ops -> o <> OReset /\ forall v, o <> OUnjail v) /\
    status_at (run cfg0 s ops) 1 = Some SActive /\ In 1 (st_cset (run cfg0 s ops)) /\ st_halt (run cfg0 s ops) = false.
Proof. exact jail_escape_refuted. Qed.
Print Assumptions C15_jail_escape_refuted.

Theorem C15_evidence_jails :
  forall cfg s k ih it s' v r, evid1 cfg s (k, ih, it) = Some s' ->
  smem k (st_pk s) = true -> evid_too_old cfg s ih it = false -> by_cons s k = Some (v, r) ->
  status_at s' v = Some SJailed.
Proof. exact evidence_jails. Qed.
Print Assumptions C15_evidence_jails.

(* an active validator with fresh counters survives MischanceConfidence + MaxMischance consecutive
   misses and is inactive after exactly one more *)
Theorem C15_downtime_inactivates_exactly :
  forall cfg s k v r i, 0 <= c_mc cfg -> 0 <= c_maxm cfg ->
  smem k (st_pk s) = true -> by_cons s k = Some (v, r) -> v_status r = SActive ->
  lookup k (st_si s) = Some i -> lookup (v_cons r) (st_cidx s) = Some v -> v_cons r = k ->
  si_conf i = 0 -> si_misch i = 0 ->
  (forall n, Z.of_nat n <= c_mc cfg + c_maxm cfg ->
     exists s' r', misses cfg s k n = Some s' /\ lookup v (st_vals s') = Some r' /\ v_status r' = SActive) /\
  (exists s' r', misses cfg s k (Z.to_nat (c_mc cfg + c_maxm cfg + 1)) = Some s' /\ lookup v (st_vals s') = Some r' /\ v_status r' = SInactive).
Proof. exact downtime_inactivates_exactly. Qed.
Print Assumptions C15_downtime_inactivates_exactly.
(* downtime is the only thing a vote list does, and only to a validator with a missed vote *)
Theorem C15_votes_only_inactivate_missers :
  forall cfg vs s s' v' a b, 0 <= c_maxm cfg -> votes cfg s vs = Some s' ->
  status_at s v' = Some a -> status_at s' v' = Some b -> a <> b ->
  a = SActive /\ b = SInactive /\ exists k, In (k, false) vs.
Proof. exact votes_edge. Qed.
Print Assumptions C15_votes_only_inactivate_missers.

Theorem C15_full_signer_never_punished :
  forall cfg s k s' v r, 0 <= c_maxm cfg ->
  vote1 cfg s (k, true) = Some s' -> by_cons s k = Some (v, r) -> v_status r = SActive ->
  exists r', lookup v (st_vals s') = Some r' /\ v_status r' = SActive /\ v_streak r' = v_streak r + 1 /\ v_rank r <= v_rank r' /\
             exists i', lookup k (st_si s') = Some i' /\ si_misch i' = 0 /\ si_conf i' = 0.
Proof. exact full_signer_never_punished. Qed.
Print Assumptions C15_full_signer_never_punished.

Theorem C15_rank_streak_nonneg :
  forall ops cfg s, cfgs_ok cfg ops -> nonneg s -> nonneg (run cfg s ops).
Proof. exact rank_streak_nonneg. Qed.
Print Assumptions C15_rank_streak_nonneg.

Theorem C15_activate_only_owner_after_period :
  forall cfg s v v' a b, status_at s v' = Some a -> status_at (fst (step cfg s (OActivate v))) v' = Some b -> a <> b ->
  v' = v /\ a = SInactive /\ b = SActive /\
  (forall r i, lookup v (st_vals s) = Some r -> lookup (v_cons r) (st_si s) = Some i -> si_until i <= st_time s).
Proof. exact activate_edge. Qed.
Print Assumptions C15_activate_only_owner_after_period.
Theorem C15_activate_accepted_only_after_period :
  forall cfg s v r i, snd (step cfg s (OActivate v)) = ROk -> lookup v (st_vals s) = Some r -> lookup (v_cons r) (st_si s) = Some i ->
  v_status r = SInactive /\ si_until i <= st_time s.
Proof. exact activate_accepted_only_after_period. Qed.
Print Assumptions C15_activate_accepted_only_after_period.

Theorem C15_unjail_only_in_window :
  forall cfg s v, snd (step cfg s (OUnjail v)) = ROk ->
  exists r jt, lookup v (st_vals s) = Some r /\ v_status r = SJailed /\ lookup v (st_jail s) = Some jt /\ st_time s <= jt + c_unjail_max cfg * NS.
Proof. exact unjail_accepted_only_in_window. Qed.
Print Assumptions C15_unjail_only_in_window.

Theorem C15_owner_pause_unpause_edges :
  forall cfg s v v' a b, status_at s v' = Some a ->
  (status_at (fst (step cfg s (OPause v))) v' = Some b -> a <> b -> v' = v /\ a = SActive /\ b = SPaused /\ snd (step cfg s (OPause v)) = ROk) /\
  (status_at (fst (step cfg s (OUnpause v))) v' = Some b -> a <> b -> v' = v /\ a = SPaused /\ b = SActive).
Proof. intros cfg s v v' a b Ha. split; [exact (pause_edge cfg s v v' a b Ha)|exact (unpause_edge cfg s v v' a b Ha)]. Qed.
Print Assumptions C15_owner_pause_unpause_edges.

(* Address rotation and genesis export + import keep every status (they are covered by
   C15_only_allowed_edges_partial), but both LOSE the jail record: it is neither moved nor exported, so a
   validator jailed inside the unjail window can no longer be released by an unjail proposal. *)
Theorem C15_unjail_lost_by_genesis_import_and_rotation :
  snd (step cfg0 s_jailed1 (OUnjail 1)) = ROk /\
  snd (step cfg0 (fst (step cfg0 s_jailed1 (OGenesis []))) (OUnjail 1)) = RRej /\
  snd (step cfg0 (fst (step cfg0 s_jailed1 (ORotate 1 5))) (OUnjail 5)) = RRej /\
  status_at (fst (step cfg0 s_jailed1 (ORotate 1 5))) 5 = Some SJailed.
Proof. exact unjail_lost_by_genesis_and_rotation. Qed.
Print Assumptions C15_unjail_lost_by_genesis_import_and_rotation.

(* Non-vacuity: hypotheses are met by the reachable states of Proofs/Validators.v *)
Example C15_nonvacuous_state : Inv s_jailed1 /\ status_at s_jailed1 1 = Some SJailed /\ nonneg s_gen /\ cfg_ok cfg0.
Proof. split; [exact s_jailed1_Inv|]. split; [vm_compute; reflexivity|exact s_gen_nonneg]. Qed.
Example C15_nonvacuous_downtime :
  exists s', misses cfg0 s_three 1 2 = Some s' /\ status_at s' 1 = Some SInactive /\
  exists s1, misses cfg0 s_three 1 1 = Some s1 /\ status_at s1 1 = Some SActive.
Proof. eexists. split; [vm_compute; reflexivity|]. split; [vm_compute; reflexivity|]. eexists. split; vm_compute; reflexivity. Qed.

(* settings may change between blocks (SetNetworkProperty proposals): every theorem above holds for the
   settings in force at the step, and the run functions thread them ([next_cfg]); example: *)
Example C15_lowered_max_mischance_applies_at_next_miss :
  let miss := [ONewBlock (5 * NS); OVotes [(0, true); (1, false); (2, true)]; OEndBlock] in
  let s3 := run cfg_loose s_three (miss ++ miss ++ miss) in
  status_at s3 1 = Some SActive /\
  status_at (run cfg_loose s3 (OSetProp 1 1 true :: miss)) 1 = Some SInactive /\
  status_at (run cfg_loose s3 (OSetProp 1 1 false :: miss)) 1 = Some SActive.
Proof. exact lowered_max_mischance_applies_at_next_miss. Qed.
