(* C12 -- Genesis export and re-import reproduce the chain state.
   Only statements, each closed by [exact] of a lemma of Proofs/Genesis.v, and its assumptions.
   [classes] / [init_order] are REGENERATED from x/*/{module.go,genesis.go,keeper,types} and
   app/app.go on every run (Gen/GenesisCoverage.v); the audited list [audited] (derived indexes,
   known lost classes, transient queues) lives in Model/Genesis.v. *)
From Coq Require Import Permutation.
From Sekai Require Import Base.Prelude Gen.GenesisCoverage Model.Genesis Model.C12Check Proofs.Genesis.
Open Scope Z_scope.

(* ---- every store class of every module is read by ExportGenesis and written by InitGenesis, or is
   in the audited list with a reason matching what the translator saw; no stale audit entry; the
   translator stayed inside its fragment; genesis initialisation order respects the dependencies.
   A new un-exported store class, or a removed export / import line, breaks this theorem. *)
Theorem C12_coverage_complete : uncovered_unaudited = [] /\ stale_audits = [] /\ gen_errors = [] /\ order_ok = true.
Proof. exact coverage_complete. Qed.
Print Assumptions C12_coverage_complete.

(* ---- the property at class level, full strength: REFUTED for any content type with a non-empty value *)
Theorem C12_class_roundtrip_refuted : forall (content : Type) (empty : content) derive (x : content),
  x <> empty -> ~ class_roundtrip content empty derive.
Proof. exact class_roundtrip_refuted. Qed.
Print Assumptions C12_class_roundtrip_refuted.

(* the strongest statement that holds: every class outside the audited list survives, whatever it holds *)
Theorem C12_class_roundtrip_partial : forall (content : Type) (empty : content) derive (s : mstate content) c,
  In c classes -> audit_of (c_module c) (c_name c) audited = None -> reimport_m content empty derive s c = s c.
Proof. exact class_roundtrip_partial. Qed.
Print Assumptions C12_class_roundtrip_partial.

(* exact characterisation: with consistent derived indexes, a class of the generated table survives the
   re-import for EVERY state if and only if InitGenesis writes it -- the lost classes are exactly the classes
   of the regenerated table with [c_imported = false] *)
Theorem C12_class_roundtrip_exact : forall (content : Type) (empty : content) derive (x : content), x <> empty ->
  forall c, (forall s : mstate content, c_exported c = false -> s c = derive c (export_m content empty s)) ->
  ((forall s : mstate content, reimport_m content empty derive s c = s c) <-> c_imported c = true).
Proof. exact class_roundtrip_exact. Qed.
Print Assumptions C12_class_roundtrip_exact.

(* a derived index survives exactly when it agrees with what InitGenesis rebuilds from the export *)
Theorem C12_derived_class_preserved : forall (content : Type) (empty : content) derive (s : mstate content) c,
  c_imported c = true -> c_exported c = false ->
  (reimport_m content empty derive s c = s c <-> s c = derive c (export_m content empty s)).
Proof. exact derived_class_preserved. Qed.
Print Assumptions C12_derived_class_preserved.

(* every class with status "lost" is emptied by the re-import *)
Theorem C12_lost_class_emptied : forall (content : Type) (empty : content) derive (s : mstate content) c,
  In c classes -> status_of (c_store c) (c_name c) = SLost -> reimport_m content empty derive s c = empty.
Proof. exact lost_class_emptied. Qed.
Print Assumptions C12_lost_class_emptied.

(* ---- gov roles.  [reimport_roles blk]: blk = "InitGenesis runs the role-blacklist loop"; which of the
   two the code does is read from the tree by the translator ([gov_restores_blacklists]) and used by
   the correspondence.  For EVERY history of role operations, export + re-import restores everything,
   except that WITHOUT the loop every role blacklist is empty afterwards. *)
Theorem C12_roles_reimport_after_any_history : forall blk ops,
  let s := roles_run ops in
  registry (reimport_roles blk s) = (if blk then registry s else drop_blacklists (registry s)) /\
  infos (reimport_roles blk s) = infos s /\ next_role (reimport_roles blk s) = next_role s /\
  (forall e, In e (windex (reimport_roles blk s)) <-> In e (windex s)).
Proof. exact reimport_after_history. Qed.
Print Assumptions C12_roles_reimport_after_any_history.

(* with the loop: the full round trip for every reachable role state *)
Theorem C12_roles_roundtrip_with_blacklist_loop : forall s, roles_wf s ->
  registry (reimport_roles true s) = registry s /\ infos (reimport_roles true s) = infos s /\
  next_role (reimport_roles true s) = next_role s /\ (forall e, In e (windex (reimport_roles true s)) <-> In e (windex s)).
Proof. exact roundtrip_roles_with_blacklists. Qed.
Print Assumptions C12_roles_roundtrip_with_blacklist_loop.

Theorem C12_roles_roundtrip_partial : forall s, roles_wf s -> no_blacklists s ->
  registry (reimport_roles false s) = registry s /\ infos (reimport_roles false s) = infos s /\
  next_role (reimport_roles false s) = next_role s /\ (forall e, In e (windex (reimport_roles false s)) <-> In e (windex s)).
Proof. exact roundtrip_roles_partial. Qed.
Print Assumptions C12_roles_roundtrip_partial.

(* without the loop the full statement is refuted; the witness also shows the consequence: a permission
   denied before the re-import (blacklisted through one role, whitelisted through another) is allowed after it *)
Theorem C12_roles_roundtrip_refuted :
  exists s, roles_wf s /\ registry (reimport_roles false s) <> registry s /\
            role_allows s [3; 4] 11 = false /\ role_allows (reimport_roles false s) [3; 4] 11 = true.
Proof. exact roundtrip_roles_refuted. Qed.
Print Assumptions C12_roles_roundtrip_refuted.

Theorem C12_roles_roundtrip_refuted_by_history :
  exists ops, registry (reimport_roles false (roles_run ops)) <> registry (roles_run ops).
Proof. exact roundtrip_after_history_refuted. Qed.
Print Assumptions C12_roles_roundtrip_refuted_by_history.

(* ---- gov proposals.  [reimport_props rebuild now]: rebuild = "InitGenesis puts imported proposals back
   into the active / enactment queues" ([gov_rebuilds_queues]).  Without it the round trip holds exactly
   when both queues are empty ... *)
Theorem C12_proposals_roundtrip_iff : forall now s, reimport_props false now s = s <-> active_q s = [] /\ enact_q s = [].
Proof. exact roundtrip_props_iff. Qed.
Print Assumptions C12_proposals_roundtrip_iff.

Theorem C12_proposals_roundtrip_refuted : exists now s, reimport_props false now s <> s.
Proof. exact roundtrip_props_refuted. Qed.
Print Assumptions C12_proposals_roundtrip_refuted.

(* ... and no sequence of blocks ever finalises or enacts anything: a proposal exported while in voting
   or in enactment is frozen for ever, whatever the tally would decide *)
Theorem C12_reimport_freezes_proposals : forall decide now ts s,
  run_blocks decide (reimport_props false now s) ts = reimport_props false now s.
Proof. exact reimport_freezes_proposals. Qed.
Print Assumptions C12_reimport_freezes_proposals.

(* with the rebuild: proposals, id counter and both queues (as sets) survive *)
Theorem C12_proposals_roundtrip_with_rebuild : forall now s, queues_sound now s ->
  proposals (reimport_props true now s) = proposals s /\ next_prop (reimport_props true now s) = next_prop s /\
  (forall id, In id (active_q (reimport_props true now s)) <-> In id (active_q s)) /\
  (forall id, In id (enact_q (reimport_props true now s)) <-> In id (enact_q s)).
Proof. exact roundtrip_props_with_rebuild. Qed.
Print Assumptions C12_proposals_roundtrip_with_rebuild.

(* restart schedules: whatever the genesis time of the restart, a proposal in voting / waiting for enactment
   is back in its queue; a rebuild that looks at the genesis time strands it (witness: restart after the
   enactment end - the seeded change C12-b), which the harness observes by re-importing later *)
Theorem C12_reimport_requeues_at_any_genesis_time : forall now s p, In p (proposals s) ->
  (p_result p = Enactment -> In (p_id p) (enact_q (reimport_props true now s))) /\
  (p_result p = Pending -> In (p_id p) (active_q (reimport_props true now s))).
Proof. exact reimport_requeues_at_any_genesis_time. Qed.
Print Assumptions C12_reimport_requeues_at_any_genesis_time.

Theorem C12_timegated_rebuild_strands_enactment :
  exists s now ts, map p_result (proposals (run_blocks (fun _ => Passed) s ts)) = [Passed] /\
    (forall ts', map p_result (proposals (run_blocks (fun _ => Passed) (import_props_timegated now (export_props s)) ts')) = [Enactment]) /\
    map p_result (proposals (run_blocks (fun _ => Passed) (reimport_props true now s) ts)) = [Passed].
Proof. exact timegated_rebuild_strands_enactment. Qed.
Print Assumptions C12_timegated_rebuild_strands_enactment.

(* ---- multistaking.  [reimport_ms ctr]: ctr = "InitGenesis continues the id counters after the highest
   imported id" ([ms_restores_counters]). *)
Theorem C12_multistaking_roundtrip_iff : forall s,
  reimport_ms false s = s <-> last_pool s = 0 /\ last_undel s = 0 /\ delegators s = [] /\ compound s = [].
Proof. exact roundtrip_ms_iff. Qed.
Print Assumptions C12_multistaking_roundtrip_iff.

Theorem C12_multistaking_roundtrip_refuted : exists s, ms_wf s /\ reimport_ms false s <> s.
Proof. exact roundtrip_ms_refuted. Qed.
Print Assumptions C12_multistaking_roundtrip_refuted.

(* without the counters the first undelegation after the re-import takes id 1 and overwrites the restored record ... *)
Theorem C12_reimport_undelegation_overwrites : forall s o o',
  zlookup 1 (undels s) = Some o ->
  let s' := undelegate (reimport_ms false s) o' in
  last_undel s' = 1 /\ zlookup 1 (undels s') = Some o' /\ List.length (undels s') = List.length (undels s).
Proof. exact reimport_undelegation_overwrites. Qed.
Print Assumptions C12_reimport_undelegation_overwrites.

(* ... whereas the original chain adds a record *)
Theorem C12_original_undelegation_adds : forall s o', ms_wf s -> List.length (undels (undelegate s o')) = S (List.length (undels s)).
Proof. exact original_undelegation_adds. Qed.
Print Assumptions C12_original_undelegation_adds.

Theorem C12_reimport_pool_id_collision : forall s v v',
  In (1, v) (pools s) -> let s' := new_pool (reimport_ms false s) v' in In (1, v) (pools s') /\ In (1, v') (pools s').
Proof. exact reimport_pool_id_collision. Qed.
Print Assumptions C12_reimport_pool_id_collision.

(* with the counters, for EVERY state: every restored undelegation survives the next undelegation, which
   adds a fresh record; the next pool gets an id no restored pool has *)
Theorem C12_reimport_with_counters_preserves_undelegations : forall s o',
  let s' := undelegate (reimport_ms true s) o' in
  (forall id o, zlookup id (undels s) = Some o -> zlookup id (undels s') = Some o) /\
  List.length (undels s') = S (List.length (undels s)).
Proof. exact reimport_with_counters_preserves_undelegations. Qed.
Print Assumptions C12_reimport_with_counters_preserves_undelegations.

Theorem C12_reimport_with_counters_fresh_pool_id : forall s v,
  let s' := new_pool (reimport_ms true s) v in ~ In (last_pool s') (map fst (pools s)).
Proof. exact reimport_with_counters_fresh_pool_id. Qed.
Print Assumptions C12_reimport_with_counters_fresh_pool_id.

(* ---- metamorphic obligation on import: the state InitGenesis builds does not depend on the order of the
   entries of the genesis lists.  Multistaking, for ANY permutation: same counters (max id), same records *)
Theorem C12_import_multistaking_order_independent : forall ctr ps ps' us us', Permutation ps ps' -> Permutation us us' ->
  last_pool (import_ms ctr (ps', us')) = last_pool (import_ms ctr (ps, us)) /\
  last_undel (import_ms ctr (ps', us')) = last_undel (import_ms ctr (ps, us)) /\
  Permutation (pools (import_ms ctr (ps, us))) (pools (import_ms ctr (ps', us'))) /\
  Permutation (undels (import_ms ctr (ps, us))) (undels (import_ms ctr (ps', us'))).
Proof. exact import_ms_order_independent. Qed.
Print Assumptions C12_import_multistaking_order_independent.

(* a counter taken from the last list entry (seeded change C03-c) depends on the order; on the unsorted
   list the next undelegation of account 30 overwrites the imported undelegation 2 of account 10, which the
   max-id import keeps *)
Theorem C12_import_lastentry_counter_order_dependent :
  exists ps us us', Permutation us us' /\
    last_undel (import_ms_lastentry (ps, us)) <> last_undel (import_ms_lastentry (ps, us')) /\
    zlookup 2 (undels (import_ms_lastentry (ps, us'))) = Some 10 /\
    zlookup 2 (undels (undelegate (import_ms_lastentry (ps, us')) 30)) = Some 30 /\
    zlookup 2 (undels (undelegate (import_ms true (ps, us')) 30)) = Some 10.
Proof. exact import_ms_lastentry_order_dependent. Qed.
Print Assumptions C12_import_lastentry_counter_order_dependent.

Theorem C12_import_proposals_order_independent : forall rebuild now ps ps' n id, Permutation ps ps' ->
  (In id (active_q (import_props rebuild now (ps', n))) <-> In id (active_q (import_props rebuild now (ps, n)))) /\
  (In id (enact_q (import_props rebuild now (ps', n))) <-> In id (enact_q (import_props rebuild now (ps, n)))) /\
  Permutation (proposals (import_props rebuild now (ps, n))) (proposals (import_props rebuild now (ps', n))).
Proof. exact import_props_order_independent. Qed.
Print Assumptions C12_import_proposals_order_independent.

Theorem C12_import_roles_order_independent : forall blk rs rs' pm pm' n, NoDup (map fst pm) ->
  Permutation rs rs' -> Permutation pm pm' ->
  Permutation (registry (import_roles blk (mkRolesGen rs pm n))) (registry (import_roles blk (mkRolesGen rs' pm' n))) /\
  (forall id, lookup_perms id pm' = lookup_perms id pm).
Proof. exact import_roles_order_independent. Qed.
Print Assumptions C12_import_roles_order_independent.

(* ---- gov identity registrar: records, counter and the by-address index (as a set) round-trip for every
   well-formed state; the well-formedness is needed (a dangling index entry is not rebuilt) *)
Theorem C12_identity_roundtrip : forall s, id_wf s ->
  id_records (reimport_id s) = id_records s /\ id_last (reimport_id s) = id_last s /\
  (forall e, In e (id_index (reimport_id s)) <-> In e (id_index s)).
Proof. exact roundtrip_id. Qed.
Print Assumptions C12_identity_roundtrip.

Theorem C12_identity_roundtrip_needs_wf : exists s, ~ (forall e, In e (id_index (reimport_id s)) <-> In e (id_index s)).
Proof. exact roundtrip_id_needs_wf. Qed.
Print Assumptions C12_identity_roundtrip_needs_wf.

(* ---- distributor: once a block has run the state round-trips exactly (treasury, snap period, validator
   votes, previous proposer, snapshots); before the first block the export itself panics *)
Theorem C12_distributor_roundtrip : forall s p, d_proposer s = Some p -> NoDup (d_votes s) -> reimport_distr s = Ok s.
Proof. exact roundtrip_distr. Qed.
Print Assumptions C12_distributor_roundtrip.

Theorem C12_distributor_export_before_first_block : forall s, d_proposer s = None -> reimport_distr s = Panic "previous proposer not set".
Proof. exact distr_export_before_first_block. Qed.
Print Assumptions C12_distributor_export_before_first_block.

(* ---- full round-trip statements over ALL histories (induction over the operation list) for the classes the
   tree round-trips.  Identity registrar: any sequence of registrations and deletions *)
Theorem C12_identity_roundtrip_after_any_history : forall ops, let s := id_run ops in
  id_records (reimport_id s) = id_records s /\ id_last (reimport_id s) = id_last s /\
  (forall e, In e (id_index (reimport_id s)) <-> In e (id_index s)).
Proof. exact roundtrip_id_after_history. Qed.
Print Assumptions C12_identity_roundtrip_after_any_history.

(* distributor: any non-empty sequence of blocks (any proposers, signer lists with repetitions, fees, any snap
   period): exact round trip *)
Theorem C12_distributor_roundtrip_after_any_history : forall snap bs, bs <> [] ->
  reimport_distr (snd (d_run snap bs)) = Ok (snd (d_run snap bs)).
Proof. exact roundtrip_distr_after_history. Qed.
Print Assumptions C12_distributor_roundtrip_after_any_history.

(* multistaking with re-derived counters: any sequence of pool creations, undelegations and claims: pools and
   pending undelegations restored exactly; counters never above the original ones (equal unless the highest
   id was claimed); freshness of the next ids is C12_reimport_with_counters_* (every state) *)
Theorem C12_multistaking_reimport_after_any_history : forall ops, let s := ms_run ops in
  pools (reimport_ms true s) = pools s /\ undels (reimport_ms true s) = undels s /\
  last_pool (reimport_ms true s) <= last_pool s /\ last_undel (reimport_ms true s) <= last_undel s.
Proof. exact reimport_ms_after_history. Qed.
Print Assumptions C12_multistaking_reimport_after_any_history.

(* ---- staking *)
Theorem C12_staking_roundtrip_iff : forall s, reimport_st s = s <-> jail_info s = [].
Proof. exact roundtrip_st_iff. Qed.
Print Assumptions C12_staking_roundtrip_iff.

Theorem C12_reimport_never_unjails : forall max_unjail s v t, is_ok (unjail max_unjail (reimport_st s) v t) = false.
Proof. exact reimport_never_unjails. Qed.
Print Assumptions C12_reimport_never_unjails.

Theorem C12_staking_roundtrip_refuted :
  exists s, reimport_st s <> s /\ is_ok (unjail 600 s 1 100) = true /\ is_ok (unjail 600 (reimport_st s) 1 100) = false.
Proof. exact roundtrip_st_refuted. Qed.
Print Assumptions C12_staking_roundtrip_refuted.

(* ---- x/upgrade: the module accepts its own export exactly when ExportGenesis writes the SekaiVersion
   constant or a literal equal to it (what it writes now is read from the code by the translator:
   [upgrade_exported_version]; the real re-import is observed by the harness) *)
Theorem C12_upgrade_reimport_iff : forall sekai lit,
  is_ok (upgrade_import_of sekai (exported_version_of sekai lit)) = true <-> (lit = None \/ lit = Some sekai).
Proof. exact upgrade_reimport_iff. Qed.
Print Assumptions C12_upgrade_reimport_iff.

(* x/upgrade next plan: kept for every genesis time iff InitGenesis does not apply SaveNextPlan's time check
   (which of the two the tree does: [upgrade_import_checks_time], regenerated) *)
Theorem C12_upgrade_next_plan_roundtrip : forall now plan, import_next_plan false now plan = plan.
Proof. exact import_next_plan_roundtrip. Qed.
Print Assumptions C12_upgrade_next_plan_roundtrip.

Theorem C12_upgrade_next_plan_dropped_when_due : forall now t, t <= now -> import_next_plan true now (Some t) = None.
Proof. exact import_next_plan_drops_due. Qed.
Print Assumptions C12_upgrade_next_plan_dropped_when_due.

(* ---- the decidable spec checker used on the REAL observations accepts every run of the class-level
   model in which no lost class is populated, and flags every populated lost class *)
Theorem C12_checker_accepts_model_runs : forall pop,
  (forall pc, In pc pop -> match status_of (fst pc) (snd pc) with SLost => False | _ => True end) ->
  case_clauses (model_case pop) = [].
Proof. exact chk_sound. Qed.
Print Assumptions C12_checker_accepts_model_runs.

Theorem C12_checker_flags_lost_classes : forall pop store name, In (store, name) pop -> status_of store name = SLost ->
  In (diff_clause ("lost"%string, store, name)) (case_clauses (model_case pop)).
Proof. exact chk_flags_lost. Qed.
Print Assumptions C12_checker_flags_lost_classes.

(* ---- non-vacuity *)
Example C12_nonvacuous_roles : (* a reachable state with two roles, a whitelist and no blacklist round-trips *)
  let s := roles_run [OCreateRole; OCreateRole; OWhitelistRole 1 10; OWhitelistRole 2 11; OWhitelistRole 2 12] in
  roles_wf s /\ no_blacklists s /\ registry s = [(1, mkPerms [10] []); (2, mkPerms [11; 12] [])] /\ registry (reimport_roles false s) = registry s.
Proof.
  cbv zeta. split; [apply roles_run_inv|]. split; [|split; vm_compute; reflexivity].
  intros id p H. vm_compute in H. destruct H as [E|[E|[]]]; inversion E; reflexivity.
Qed.

Example C12_nonvacuous_proposals : (* on the original chain the pending proposal IS finalised and enacted *)
  let s := mkProps [mkProp 1 Pending 600 900] [1] [] 2 in
  map p_result (proposals (run_blocks (fun _ => Passed) s [700; 1000])) = [Passed] /\
  map p_result (proposals (run_blocks (fun _ => Passed) (reimport_props false 0 s) [700; 1000])) = [Pending] /\
  map p_result (proposals (run_blocks (fun _ => Passed) (reimport_props true 0 s) [700; 1000])) = [Passed].
Proof. vm_compute. repeat split; reflexivity. Qed.

Example C12_nonvacuous_identity_distributor :
  id_wf (mkId [(1, 101); (2, 102); (3, 201)] [(201, 3); (101, 1); (102, 2)] 3) /\
  reimport_distr (mkDistr 1711 1000 [(0, 5); (1, 5); (0, 6)] (Some 1) (7, 8) (9, 10)) = Ok (mkDistr 1711 1000 [(0, 5); (1, 5); (0, 6)] (Some 1) (7, 8) (9, 10)).
Proof.
  split; [|vm_compute; reflexivity]. unfold id_wf; cbn. repeat split; try (repeat constructor; cbn; intuition discriminate); intuition.
Qed.

Example C12_nonvacuous_histories :
  id_records (id_run [IRegister 101; IRegister 102; IRegister 201; IDelete 2; IRegister 102]) = [(1, 101); (3, 201); (4, 102)] /\
  d_votes (snd (d_run 2 [mkDBlock 0 [0; 1; 1] 5; mkDBlock 1 [0] 7; mkDBlock 0 [0; 1] 1])) = [(0, 2); (0, 3); (1, 3)] /\
  undels (ms_run [MPool 7; MUndelegate 1; MUndelegate 2; MClaim 2; MUndelegate 3]) = [(1, 1); (3, 3)].
Proof. vm_compute. repeat split; reflexivity. Qed.

Example C12_nonvacuous_covered_class : (* the table contains covered, derived and lost classes *)
  status_of "customgov" "ProposalsPrefix" = SCovered /\ status_of "customgov" "WhitelistRolePrefix" = SDerived /\
  status_of "custody" "PrefixKeyCustodyRecord" = SLost /\ status_of "customstaking" "PendingValidatorQueue" = STransient.
Proof. vm_compute. repeat split; reflexivity. Qed.
