(* C07 -- Permissions: blacklist beats whitelist and every gated action is enforced.
   Only statements (closed by lemmas of Proofs/Perm.v) and their assumptions.
   The model has four variation points ([cfg]: effective permission of layer2's bond waiver, whether
   ClaimCouncilor writes the permission index, whether InitGenesis re-imports role blacklists, whether
   the recovery rotation is repaired).  The translator gen_gates reads them off the working tree
   ([tree_cfg] below, from Gen/Gates.v), so the model follows the tree before and after a repair is
   committed.  For each variation point the full-strength statement is proved under the repaired
   variant and refuted (with a witness replayed on the real code) under the unrepaired one. *)
From Sekai Require Import Base.Prelude Model.Perm Model.C07Check Proofs.Perm Gen.Gates.

Definition tree_cfg : cfg := mkCfg Gates.tree_dapp_perm Gates.tree_claim_indexed Gates.tree_import_role_bl Gates.tree_rotate_fixed.

(* An actor holds a permission exactly when it is whitelisted directly or through an assigned role
   and blacklisted neither directly nor through an assigned role -- all configurations. *)
Theorem C07_check_allowed_iff : forall s a p,
  check_allowed s a p = true <->
  (wl_direct s a p \/ exists r, has_role s a r /\ wl_role s r p) /\
  ~ (bl_direct s a p \/ exists r, has_role s a r /\ bl_role s r p).
Proof. exact check_allowed_iff. Qed.
Print Assumptions C07_check_allowed_iff.

Theorem C07_blacklist_beats_whitelist : forall s a p,
  (bl_direct s a p \/ exists r, has_role s a r /\ bl_role s r p) -> check_allowed s a p = false.
Proof. exact blacklist_beats_whitelist. Qed.
Print Assumptions C07_blacklist_beats_whitelist.

(* Every history of edits (by message, by proposal, by genesis export/import, by rotation) keeps the
   three lookup indexes equal to the sets recomputed from the actor and role records.
   For every variant: along histories that avoid the operations refuted for that variant. *)
Theorem C07_indexes_refine_guarded : forall c ops s, inv s -> safe_run c s ops -> inv (run c s ops).
Proof. exact indexes_refine_guarded. Qed.
Print Assumptions C07_indexes_refine_guarded.
(* Repaired claim and rotation: all histories; the one remaining condition is that a rotation does
   not target an address that already has an actor record (refuted otherwise, next theorem). *)
Theorem C07_indexes_refine_repaired : forall c, claim_indexed c = true -> rotate_fixed c = true ->
  forall ops s, inv s -> fresh_targets c s ops -> inv (run c s ops).
Proof. exact indexes_refine_repaired. Qed.
Print Assumptions C07_indexes_refine_repaired.
Theorem C07_rotation_overwrite_refuted : forall c, exists ops, ~ inv (run c empty_state ops).
Proof. exact rotation_overwrite_refuted. Qed.
Print Assumptions C07_rotation_overwrite_refuted.
(* Unrepaired claim: refuted; the guard excludes exactly the claims that break the index. *)
Theorem C07_indexes_refine_refuted : forall c, claim_indexed c = false -> exists ops, ~ inv (run c empty_state ops).
Proof. exact indexes_refine_refuted. Qed.
Print Assumptions C07_indexes_refine_refuted.
Theorem C07_claim_councilor_breaks_index : forall c s a, claim_indexed c = false -> inv s -> claim_whitelists s a = true ->
  exists s', step c s (OClaimCouncilor a) = Ok s' /\ ~ inv s'.
Proof. exact claim_breaks_index. Qed.
Print Assumptions C07_claim_councilor_breaks_index.
Theorem C07_invariant_is_index_equality : forall s, inv s ->
  (forall p a, pmem (p, a) (idx_pa s) = true <-> wl_direct s a p) /\
  (forall r a, pmem (r, a) (idx_ra s) = true <-> has_role s a r) /\
  (forall p r, pmem (p, r) (idx_pr s) = true <-> wl_role s r p).
Proof. exact inv_sets. Qed.
Print Assumptions C07_invariant_is_index_equality.

(* Genesis: InitGenesis applied to an export rebuilds records and consistent indexes (both variants;
   the import's index writes are modelled and proved, no longer a run-time hypothesis) ... *)
Theorem C07_import_rebuilds_indexes : forall b s, inv s -> inv (export_import b s).
Proof. exact import_inv. Qed.
Print Assumptions C07_import_rebuilds_indexes.
(* ... and, when role blacklists are re-imported, reproduces who holds what -- full strength *)
Theorem C07_import_preserves_holdings : forall s a p, inv s -> check_allowed (export_import true s) a p = check_allowed s a p.
Proof. exact import_preserves_holdings. Qed.
Print Assumptions C07_import_preserves_holdings.
Theorem C07_import_preserves_holdings_refuted : exists s a p,
  inv s /\ check_allowed s a p = false /\ check_allowed (export_import false s) a p = true.
Proof. exact import_preserves_holdings_refuted. Qed.
Print Assumptions C07_import_preserves_holdings_refuted.

(* The eligible voters of a permission are exactly the actors whose own or role whitelist carries it
   (each once) -- whenever the indexes are right; refuted for the reachable states where they are not. *)
Theorem C07_voters_exact : forall s p, inv s ->
  exists l, voters s p = Ok l /\ NoDup l /\ forall a, In a l <-> (wl_direct s a p \/ exists r, has_role s a r /\ wl_role s r p).
Proof. exact voters_exact. Qed.
Print Assumptions C07_voters_exact.
Theorem C07_voters_exact_refuted : forall c, claim_indexed c = false -> exists ops a p,
  (wl_direct (run c empty_state ops) a p \/ exists r, has_role (run c empty_state ops) a r /\ wl_role (run c empty_state ops) r p)
  /\ voters (run c empty_state ops) p = Ok [].
Proof. exact voters_exact_refuted. Qed.
Print Assumptions C07_voters_exact_refuted.

(* Every permission-gated message succeeds only for an actor that holds the permission its handler
   checks, at that moment (all message kinds of the model; all states; all variants). *)
Theorem C07_gated_only_with_permission : forall c s o s', step c s o = Ok s' -> msg_gate_holds c s o.
Proof. exact gated_only_with_permission. Qed.
Print Assumptions C07_gated_only_with_permission.
(* ... and in the working tree the checked permission is the intended one for every gated message of
   the model, layer2's bond waiver included (full strength; the proof reads the effective permission
   off the regenerated table, so a wrapper that checks something else breaks this obligation) *)
Theorem C07_gate_intended : forall s k x s', step tree_cfg s (OGate k x) = Ok s' -> holds s x (gate_perm_intended k).
Proof. exact (gate_intended tree_cfg eq_refl). Qed.
Print Assumptions C07_gate_intended.
Theorem C07_gate_intended_refuted_for_basket_wrapper : forall c, dapp_perm c = PermHandleBasketEmergency -> exists ops x s',
  step c (run c empty_state ops) (OGate GDapp x) = Ok s' /\ ~ holds (run c empty_state ops) x (gate_perm_intended GDapp).
Proof. exact gate_intended_refuted. Qed.
Print Assumptions C07_gate_intended_refuted_for_basket_wrapper.

(* Address rotation: the repaired rotation leaves nothing with the old address and moves the holdings *)
Theorem C07_rotation_repaired_old_address : forall s a b p, a <> b -> lookup a (actors s) <> None ->
  check_allowed (rotate_repaired s a b) a p = false.
Proof. exact rotation_repaired_old_address. Qed.
Print Assumptions C07_rotation_repaired_old_address.
Theorem C07_rotation_repaired_new_address : forall s a b p,
  check_allowed (rotate_repaired s a b) b p =
  match lookup a (actors s) with Some _ => check_allowed s a p | None => check_allowed s b p end.
Proof. exact rotation_repaired_new_address. Qed.
Print Assumptions C07_rotation_repaired_new_address.
(* the unrepaired one: refuted; holds for actors without roles *)
Theorem C07_rotation_clears_old_address_refuted : forall c, rotate_fixed c = false -> exists ops a b p,
  last ops OExportImport = ORotate a b /\ a <> b /\ check_allowed (run c empty_state ops) a p = true /\ ~ inv (run c empty_state ops).
Proof. exact rotation_clears_old_address_refuted. Qed.
Print Assumptions C07_rotation_clears_old_address_refuted.
Theorem C07_rotation_clears_old_address_partial : forall s a b act p,
  lookup a (actors s) = Some act -> a_roles act = [] -> a <> b -> check_allowed (rotate_buggy s a b) a p = false.
Proof. exact rotation_clears_old_address_partial. Qed.
Print Assumptions C07_rotation_clears_old_address_partial.

(* The spec checker accepts the model: every state clause ("allow-*", "index-*", "voters-*") is empty
   on the observation of any state satisfying the invariant -- hence on every state of a guarded model
   run (C07_indexes_refine_guarded) -- and the "gate" clause accepts every step the model accepts. *)
Theorem C07_chk_sound_allow : forall ua up s, allow_disc up (obs_of ua up s) = [].
Proof. exact chk_sound_allow. Qed.
Print Assumptions C07_chk_sound_allow.
Theorem C07_chk_sound_state : forall ua up s who, inv s -> state_clauses up who None (obs_of ua up s) = [].
Proof. exact chk_sound_state. Qed.
Print Assumptions C07_chk_sound_state.
(* in particular: the voter list of the model names each eligible actor exactly once (no "voters-missing",
   "voters-extra", "voters-duplicate"), and the records carry no repeated role / permission *)
Theorem C07_chk_sound_voters_each_once : forall ua up s, inv s -> voters_disc (obs_of ua up s) = [].
Proof. exact chk_sound_voters. Qed.
Print Assumptions C07_chk_sound_voters_each_once.
Theorem C07_chk_sound_records : forall ua up s, inv s -> record_disc (obs_of ua up s) = [].
Proof. exact chk_sound_records. Qed.
Print Assumptions C07_chk_sound_records.
Theorem C07_chk_sound_gate : forall c ua up s o s', step c s o = Ok s' ->
  (dapp_perm c = PermCreateDappProposalWithoutBond \/ forall x, o <> OGate GDapp x) ->
  gate_spec (obs_of ua up s) o = true.
Proof. exact chk_sound_gate. Qed.
Print Assumptions C07_chk_sound_gate.

(* ---- the gate table of the pinned tree (the spec baseline): every CheckIfAllowedPermission call at
   the top of a msg-server method, and the create / vote permission of every Content type.  The
   table regenerated from the working tree (Gen/Gates.v) must still contain each of them. *)
Definition expected_msg_gates : list string := [
  "basket.DisableBasketDeposits:sender:PermHandleBasketEmergency:guarded";
  "basket.DisableBasketWithdraws:sender:PermHandleBasketEmergency:guarded";
  "basket.DisableBasketSwaps:sender:PermHandleBasketEmergency:guarded";
  "gov.SubmitProposal:msg.Proposer:dynamic:ProposalPermission:guarded";
  "gov.VoteProposal:msg.Voter:dynamic:VotePermission:guarded";
  "gov.PollCreate:msg.Creator:PermCreatePollProposal:guarded";
  "gov.UnassignRole:msg.Proposer:PermUpsertRole:guarded";
  "gov.AssignRole:msg.Proposer:PermUpsertRole:guarded";
  "gov.CreateRole:msg.Proposer:PermUpsertRole:guarded";
  "gov.RemoveBlacklistRolePermission:msg.Proposer:PermUpsertRole:guarded";
  "gov.RemoveWhitelistRolePermission:msg.Proposer:PermUpsertRole:guarded";
  "gov.BlacklistRolePermission:msg.Proposer:PermUpsertRole:guarded";
  "gov.WhitelistRolePermission:msg.Proposer:PermUpsertRole:guarded";
  "gov.WhitelistPermissions:msg.Proposer:PermSetClaimValidatorPermission:guarded";
  "gov.WhitelistPermissions:msg.Proposer:PermSetPermissions:guarded";
  "gov.RemoveWhitelistedPermissions:msg.Proposer:PermSetClaimValidatorPermission:guarded";
  "gov.RemoveWhitelistedPermissions:msg.Proposer:PermSetPermissions:guarded";
  "gov.BlacklistPermissions:msg.Proposer:PermSetClaimValidatorPermission:guarded";
  "gov.BlacklistPermissions:msg.Proposer:PermSetPermissions:guarded";
  "gov.RemoveBlacklistedPermissions:msg.Proposer:PermSetClaimValidatorPermission:guarded";
  "gov.RemoveBlacklistedPermissions:msg.Proposer:PermSetPermissions:guarded";
  "gov.SetNetworkProperties:msg.Proposer:PermChangeTxFee:guarded";
  "gov.SetExecutionFee:msg.Proposer:PermChangeTxFee:guarded";
  "gov.ClaimCouncilor:msg.Address:PermClaimCouncilor:guarded";
  "layer2.CreateDappProposal:addr:PermCreateDappProposalWithoutBond:guarded";
  "staking.ClaimValidator:sdk.AccAddress(msg.ValKey):PermClaimValidator:guarded";
  "tokens.UpsertTokenInfo:msg.Proposer:PermUpsertTokenInfo:guarded"
]%string.
Definition expected_proposal_perms : list string := [
  "basket.ProposalBasketWithdrawSurplus:PermCreateBasketProposal:PermVoteBasketProposal";
  "basket.ProposalCreateBasket:PermCreateBasketProposal:PermVoteBasketProposal";
  "basket.ProposalEditBasket:PermCreateBasketProposal:PermVoteBasketProposal";
  "collectives.ProposalCollectiveRemove:PermZero:PermZero";
  "collectives.ProposalCollectiveSendDonation:PermZero:PermZero";
  "collectives.ProposalCollectiveUpdate:PermZero:PermZero";
  "gov.AssignRoleToAccountProposal:PermAssignRoleToAccountProposal:PermVoteAssignRoleToAccountProposal";
  "gov.BlacklistAccountPermissionProposal:PermBlacklistAccountPermissionProposal:PermVoteBlacklistAccountPermissionProposal";
  "gov.BlacklistRolePermissionProposal:PermBlacklistRolePermissionProposal:PermVoteBlacklistRolePermissionProposal";
  "gov.CreateRoleProposal:PermCreateRoleProposal:PermVoteCreateRoleProposal";
  "gov.ProposalJailCouncilor:PermCreateJailCouncilorProposal:PermVoteJailCouncilorProposal";
  "gov.ProposalResetWholeCouncilorRank:PermCreateResetWholeCouncilorRankProposal:PermVoteResetWholeCouncilorRankProposal";
  "gov.ProposalSetExecutionFees:PermCreateSetExecutionFeesProposal:PermVoteSetExecutionFeesProposal";
  "gov.RemoveBlacklistedAccountPermissionProposal:PermRemoveBlacklistedAccountPermissionProposal:PermVoteRemoveBlacklistedAccountPermissionProposal";
  "gov.RemoveBlacklistedRolePermissionProposal:PermRemoveBlacklistedRolePermissionProposal:PermVoteRemoveBlacklistedRolePermissionProposal";
  "gov.RemoveRoleProposal:PermRemoveRoleProposal:PermVoteRemoveRoleProposal";
  "gov.RemoveWhitelistedAccountPermissionProposal:PermRemoveWhitelistedAccountPermissionProposal:PermVoteRemoveWhitelistedAccountPermissionProposal";
  "gov.RemoveWhitelistedRolePermissionProposal:PermRemoveWhitelistedRolePermissionProposal:PermVoteRemoveWhitelistedRolePermissionProposal";
  "gov.SetNetworkPropertyProposal:PermCreateSetNetworkPropertyProposal:PermVoteSetNetworkPropertyProposal";
  "gov.SetPoorNetworkMessagesProposal:PermCreateSetPoorNetworkMessagesProposal:PermVoteSetPoorNetworkMessagesProposal";
  "gov.SetProposalDurationsProposal:PermCreateSetProposalDurationProposal:PermVoteSetProposalDurationProposal";
  "gov.UnassignRoleFromAccountProposal:PermUnassignRoleFromAccountProposal:PermVoteUnassignRoleFromAccountProposal";
  "gov.UpsertDataRegistryProposal:PermCreateUpsertDataRegistryProposal:PermVoteUpsertDataRegistryProposal";
  "gov.WhitelistAccountPermissionProposal:PermWhitelistAccountPermissionProposal:PermVoteWhitelistAccountPermissionProposal";
  "gov.WhitelistRolePermissionProposal:PermWhitelistRolePermissionProposal:PermVoteWhitelistRolePermissionProposal";
  "layer2.ProposalJoinDapp:PermZero:PermZero";
  "layer2.ProposalUpsertDapp:PermZero:PermZero";
  "slashing.ProposalResetWholeValidatorRank:PermCreateResetWholeValidatorRankProposal:PermVoteResetWholeValidatorRankProposal";
  "slashing.ProposalSlashValidator:PermCreateSlashValidatorProposal:PermVoteSlashValidatorProposal";
  "spending.SpendingPoolDistributionProposal:PermZero:PermZero";
  "spending.SpendingPoolWithdrawProposal:PermZero:PermZero";
  "spending.UpdateSpendingPoolProposal:PermZero:PermZero";
  "staking.ProposalUnjailValidator:PermCreateUnjailValidatorProposal:PermVoteUnjailValidatorProposal";
  "tokens.ProposalTokensWhiteBlackChange:PermCreateTokensWhiteBlackChangeProposal:PermVoteTokensWhiteBlackChangeProposal";
  "tokens.ProposalUpsertTokenInfo:PermCreateUpsertTokenInfoProposal:PermVoteUpsertTokenInfoProposal";
  "ubi.RemoveUBIProposal:PermCreateRemoveUBIProposal:PermVoteRemoveUBIProposal";
  "ubi.UpsertUBIProposal:PermCreateUpsertUBIProposal:PermVoteUpsertUBIProposal";
  "upgrade.ProposalCancelSoftwareUpgrade:PermCreateSoftwareUpgradeProposal:PermVoteSoftwareUpgradeProposal";
  "upgrade.ProposalSoftwareUpgrade:PermCreateSoftwareUpgradeProposal:PermVoteSoftwareUpgradeProposal"
]%string.
Theorem C07_gates_complete :
  incl expected_msg_gates Gates.msg_gates /\ incl expected_proposal_perms Gates.proposal_perms /\ Gates.gen_errors = [].
Proof. split; [|split]; [apply incl_strb_sound; vm_compute; reflexivity ..|reflexivity]. Qed.
Print Assumptions C07_gates_complete.

(* non-vacuity: a reachable state with roles, whitelists and blacklists satisfying the invariant,
   on which blacklist beats whitelist both ways and the voter set is the expected one; the repaired
   variant keeps the invariant through an export / import *)
Example C07_nonvacuous :
  let s := run cfg_pinned empty_state (removelast example_ops) in
  inv s /\ check_allowed s 1 1 = true /\ check_allowed s 1 17 = false /\ check_allowed s 2 17 = true /\ check_allowed s 2 66 = false
  /\ voters s 17 = Ok [2; 1] /\ inv (run cfg_repaired empty_state example_ops).
Proof. exact example_state_inv. Qed.
