(* C07 -- Permissions: blacklist beats whitelist and every gated action is enforced.
   Only statements (closed by lemmas of Proofs/Perm.v) and their assumptions.
   The model has four variation points ([cfg]: effective permission of layer2's bond waiver, whether
   ClaimCouncilor writes the permission index, whether InitGenesis re-imports role blacklists, whether
   the recovery rotation is repaired).  The translator gen_gates reads them off the working tree
   ([tree_cfg] below, from Gen/Gates.v), so the model follows the tree before and after a repair is
   committed.  For each variation point the full-strength statement is proved under the repaired
   variant and refuted (with a witness replayed on the real code) under the unrepaired one. *)
From Sekai Require Import Base.Prelude Model.Perm Model.C07Check Proofs.Perm Gen.Gates.

Definition tree_cfg : cfg := mkCfg Gates.tree_dapp_perm Gates.tree_claim_indexed Gates.tree_import_role_bl Gates.tree_rotate_fixed.

(* An actor holds a permission exactly when it is whitelisted directly or through an assigned role
   and blacklisted neither directly nor through an assigned role -- all configurations. *)
Theorem C07_check_allowed_iff : forall s a p,
  check_allowed s a p = true <->
  (wl_direct s a p \/ exists r, has_role s a r /\ wl_role s r p) /\
  ~ (bl_direct s a p \/ exists r, has_role s a r /\ bl_role s r p).
Proof. exact check_allowed_iff. Qed.
Print Assumptions C07_check_allowed_iff.

Theorem C07_blacklist_beats_whitelist : forall s a p,
  (bl_direct s a p \/ exists r, has_role s a r /\ bl_role s r p) -> check_allowed s a p = false.
Proof. exact blacklist_beats_whitelist. Qed.
Print Assumptions C07_blacklist_beats_whitelist.

(* ... at every state of every history, for arbitrary role sets ... *)
Theorem C07_blacklist_beats_whitelist_along_histories : forall c ops s a p,
  (bl_direct (run c s ops) a p \/ exists r, has_role (run c s ops) a r /\ bl_role (run c s ops) r p) -> check_allowed (run c s ops) a p = false.
Proof. exact blacklist_beats_whitelist_history. Qed.
Print Assumptions C07_blacklist_beats_whitelist_along_histories.
(* ... and a personal blacklist entry outlives every history of role / permission edits that does not
   remove that very entry (induction over the op list): whatever is whitelisted meanwhile, directly or
   through any roles, the actor is denied *)
Theorem C07_own_blacklist_denies_after_any_edits : forall c ops s a p,
  forallb (keeps_own_bl a p) ops = true -> bl_direct s a p ->
  bl_direct (run c s ops) a p /\ check_allowed (run c s ops) a p = false.
Proof. exact own_blacklist_denies_after_any_edits. Qed.
Print Assumptions C07_own_blacklist_denies_after_any_edits.

(* Every history of edits (by message, by proposal, by genesis export/import, by rotation) keeps the
   three lookup indexes equal to the sets recomputed from the actor and role records.
   For every variant: along histories that avoid the operations refuted for that variant. *)
Theorem C07_indexes_refine_guarded : forall c ops s, inv s -> safe_run c s ops -> inv (run c s ops).
Proof. exact indexes_refine_guarded. Qed.
Print Assumptions C07_indexes_refine_guarded.
(* Repaired claim and rotation: all histories; the one remaining condition is that a rotation does
   not target an address that already has an actor record (refuted otherwise, next theorem). *)
Theorem C07_indexes_refine_repaired : forall c, claim_indexed c = true -> rotate_fixed c = true ->
  forall ops s, inv s -> fresh_targets c s ops -> inv (run c s ops).
Proof. exact indexes_refine_repaired. Qed.
Print Assumptions C07_indexes_refine_repaired.
(* THE WORKING TREE (variant read off the code by the translator): full strength -- every history, the
   index equalities and the exact voter sets; no councilor guard, no rotation guard other than the target
   not owning a record, genesis import included *)
Theorem C07_indexes_refine_tree : forall ops s, inv s -> fresh_targets tree_cfg s ops -> inv (run tree_cfg s ops).
Proof. exact (indexes_refine_repaired tree_cfg eq_refl eq_refl). Qed.
Print Assumptions C07_indexes_refine_tree.
Theorem C07_voters_exact_tree : forall ops s p, inv s -> fresh_targets tree_cfg s ops ->
  exists l, voters (run tree_cfg s ops) p = Ok l /\ NoDup l /\
            forall a, In a l <-> (wl_direct (run tree_cfg s ops) a p \/ exists r, has_role (run tree_cfg s ops) a r /\ wl_role (run tree_cfg s ops) r p).
Proof. exact (voters_exact_history tree_cfg eq_refl eq_refl). Qed.
Print Assumptions C07_voters_exact_tree.
Theorem C07_import_preserves_holdings_tree : forall s s', inv s -> step tree_cfg s OExportImport = Ok s' ->
  inv s' /\ forall a p, check_allowed s' a p = check_allowed s a p.
Proof. exact (fun s s' => import_step_preserves_holdings tree_cfg s s' eq_refl). Qed.
Print Assumptions C07_import_preserves_holdings_tree.
Theorem C07_rotation_overwrite_refuted : forall c, exists ops, ~ inv (run c empty_state ops).
Proof. exact rotation_overwrite_refuted. Qed.
Print Assumptions C07_rotation_overwrite_refuted.
(* Unrepaired claim: refuted; the guard excludes exactly the claims that break the index. *)
Theorem C07_indexes_refine_refuted : forall c, claim_indexed c = false -> exists ops, ~ inv (run c empty_state ops).
Proof. exact indexes_refine_refuted. Qed.
Print Assumptions C07_indexes_refine_refuted.
Theorem C07_claim_councilor_breaks_index : forall c s a, claim_indexed c = false -> inv s -> claim_whitelists s a = true ->
  exists s', step c s (OClaimCouncilor a) = Ok s' /\ ~ inv s'.
Proof. exact claim_breaks_index. Qed.
Print Assumptions C07_claim_councilor_breaks_index.
Theorem C07_invariant_is_index_equality : forall s, inv s ->
  (forall p a, pmem (p, a) (idx_pa s) = true <-> wl_direct s a p) /\
  (forall r a, pmem (r, a) (idx_ra s) = true <-> has_role s a r) /\
  (forall p r, pmem (p, r) (idx_pr s) = true <-> wl_role s r p).
Proof. exact inv_sets. Qed.
Print Assumptions C07_invariant_is_index_equality.

(* Genesis: InitGenesis applied to an export rebuilds records and consistent indexes (both variants;
   the import's index writes are modelled and proved, no longer a run-time hypothesis) ... *)
Theorem C07_import_rebuilds_indexes : forall b s, inv s -> inv (export_import b s).
Proof. exact import_inv. Qed.
Print Assumptions C07_import_rebuilds_indexes.
(* ... and, when role blacklists are re-imported, reproduces who holds what -- full strength *)
Theorem C07_import_preserves_holdings : forall s a p, inv s -> check_allowed (export_import true s) a p = check_allowed s a p.
Proof. exact import_preserves_holdings. Qed.
Print Assumptions C07_import_preserves_holdings.
Theorem C07_import_preserves_holdings_refuted : exists s a p,
  inv s /\ check_allowed s a p = false /\ check_allowed (export_import false s) a p = true.
Proof. exact import_preserves_holdings_refuted. Qed.
Print Assumptions C07_import_preserves_holdings_refuted.

(* The eligible voters of a permission are exactly the actors whose own or role whitelist carries it
   (each once) -- whenever the indexes are right; refuted for the reachable states where they are not. *)
Theorem C07_voters_exact : forall s p, inv s ->
  exists l, voters s p = Ok l /\ NoDup l /\ forall a, In a l <-> (wl_direct s a p \/ exists r, has_role s a r /\ wl_role s r p).
Proof. exact voters_exact. Qed.
Print Assumptions C07_voters_exact.
Theorem C07_voters_exact_refuted : forall c, claim_indexed c = false -> exists ops a p,
  (wl_direct (run c empty_state ops) a p \/ exists r, has_role (run c empty_state ops) a r /\ wl_role (run c empty_state ops) r p)
  /\ voters (run c empty_state ops) p = Ok [].
Proof. exact voters_exact_refuted. Qed.
Print Assumptions C07_voters_exact_refuted.

(* Every permission-gated message succeeds only for an actor that holds the permission its handler
   checks, at that moment (all message kinds of the model; all states; all variants). *)
Theorem C07_gated_only_with_permission : forall c s o s', step c s o = Ok s' -> msg_gate_holds c s o.
Proof. exact gated_only_with_permission. Qed.
Print Assumptions C07_gated_only_with_permission.
(* ... and in the working tree the checked permission is the intended one for every gated message of
   the model, layer2's bond waiver included (full strength; the proof reads the effective permission
   off the regenerated table, so a wrapper that checks something else breaks this obligation) *)
Theorem C07_gate_intended : forall s k x s', step tree_cfg s (OGate k x) = Ok s' -> holds s x (gate_perm_intended k).
Proof. exact (gate_intended tree_cfg eq_refl). Qed.
Print Assumptions C07_gate_intended.
Theorem C07_gate_intended_refuted_for_basket_wrapper : forall c, dapp_perm c = PermHandleBasketEmergency -> exists ops x s',
  step c (run c empty_state ops) (OGate GDapp x) = Ok s' /\ ~ holds (run c empty_state ops) x (gate_perm_intended GDapp).
Proof. exact gate_intended_refuted. Qed.
Print Assumptions C07_gate_intended_refuted_for_basket_wrapper.

(* Address rotation: the repaired rotation leaves nothing with the old address and moves the holdings *)
Theorem C07_rotation_repaired_old_address : forall s a b p, a <> b -> lookup a (actors s) <> None ->
  check_allowed (rotate_repaired s a b) a p = false.
Proof. exact rotation_repaired_old_address. Qed.
Print Assumptions C07_rotation_repaired_old_address.
Theorem C07_rotation_repaired_new_address : forall s a b p,
  check_allowed (rotate_repaired s a b) b p =
  match lookup a (actors s) with Some _ => check_allowed s a p | None => check_allowed s b p end.
Proof. exact rotation_repaired_new_address. Qed.
Print Assumptions C07_rotation_repaired_new_address.
(* the unrepaired one: refuted; holds for actors without roles *)
Theorem C07_rotation_clears_old_address_refuted : forall c, rotate_fixed c = false -> exists ops a b p,
  last ops OExportImport = ORotate a b /\ a <> b /\ check_allowed (run c empty_state ops) a p = true /\ ~ inv (run c empty_state ops).
Proof. exact rotation_clears_old_address_refuted. Qed.
Print Assumptions C07_rotation_clears_old_address_refuted.
Theorem C07_rotation_clears_old_address_partial : forall s a b act p,
  lookup a (actors s) = Some act -> a_roles act = [] -> a <> b -> check_allowed (rotate_buggy s a b) a p = false.
Proof. exact rotation_clears_old_address_partial. Qed.
Print Assumptions C07_rotation_clears_old_address_partial.

(* The spec checker accepts the model: every state clause ("allow-*", "index-*", "voters-*") is empty
   on the observation of any state satisfying the invariant -- hence on every state of a guarded model
   run (C07_indexes_refine_guarded) -- and the "gate" clause accepts every step the model accepts. *)
Theorem C07_chk_sound_allow : forall ua up s, allow_disc up (obs_of ua up s) = [].
Proof. exact chk_sound_allow. Qed.
Print Assumptions C07_chk_sound_allow.
Theorem C07_chk_sound_state : forall ua up s who, inv s -> state_clauses up who None (obs_of ua up s) = [].
Proof. exact chk_sound_state. Qed.
Print Assumptions C07_chk_sound_state.
(* in particular: the voter list of the model names each eligible actor exactly once (no "voters-missing",
   "voters-extra", "voters-duplicate"), and the records carry no repeated role / permission *)
Theorem C07_chk_sound_voters_each_once : forall ua up s, inv s -> voters_disc (obs_of ua up s) = [].
Proof. exact chk_sound_voters. Qed.
Print Assumptions C07_chk_sound_voters_each_once.
Theorem C07_chk_sound_records : forall ua up s, inv s -> record_disc (obs_of ua up s) = [].
Proof. exact chk_sound_records. Qed.
Print Assumptions C07_chk_sound_records.
Theorem C07_chk_sound_gate : forall c ua up s o s', step c s o = Ok s' ->
  (dapp_perm c = PermCreateDappProposalWithoutBond \/ forall x, o <> OGate GDapp x) ->
  gate_spec (obs_of ua up s) o = true.
Proof. exact chk_sound_gate. Qed.
Print Assumptions C07_chk_sound_gate.

(* ---- the gate table of the pinned tree (the spec baseline): every CheckIfAllowedPermission call at
   the top of a msg-server method, and the create / vote permission of every Content type.  The
   table regenerated from the working tree (Gen/Gates.v) must still contain each of them. *)
Definition expected_msg_gates : list string := [
  "basket.DisableBasketDeposits:sender:PermHandleBasketEmergency:guarded";
  "basket.DisableBasketWithdraws:sender:PermHandleBasketEmergency:guarded";
  "basket.DisableBasketSwaps:sender:PermHandleBasketEmergency:guarded";
  "gov.SubmitProposal:msg.Proposer:dynamic:ProposalPermission:guarded";
  "gov.VoteProposal:msg.Voter:dynamic:VotePermission:guarded";
  "gov.PollCreate:msg.Creator:PermCreatePollProposal:guarded";
  "gov.UnassignRole:msg.Proposer:PermUpsertRole:guarded";
  "gov.AssignRole:msg.Proposer:PermUpsertRole:guarded";
  "gov.CreateRole:msg.Proposer:PermUpsertRole:guarded";
  "gov.RemoveBlacklistRolePermission:msg.Proposer:PermUpsertRole:guarded";
  "gov.RemoveWhitelistRolePermission:msg.Proposer:PermUpsertRole:guarded";
  "gov.BlacklistRolePermission:msg.Proposer:PermUpsertRole:guarded";
  "gov.WhitelistRolePermission:msg.Proposer:PermUpsertRole:guarded";
  "gov.WhitelistPermissions:msg.Proposer:PermSetClaimValidatorPermission:guarded";
  "gov.WhitelistPermissions:msg.Proposer:PermSetPermissions:guarded";
  "gov.RemoveWhitelistedPermissions:msg.Proposer:PermSetClaimValidatorPermission:guarded";
  "gov.RemoveWhitelistedPermissions:msg.Proposer:PermSetPermissions:guarded";
  "gov.BlacklistPermissions:msg.Proposer:PermSetClaimValidatorPermission:guarded";
  "gov.BlacklistPermissions:msg.Proposer:PermSetPermissions:guarded";
  "gov.RemoveBlacklistedPermissions:msg.Proposer:PermSetClaimValidatorPermission:guarded";
  "gov.RemoveBlacklistedPermissions:msg.Proposer:PermSetPermissions:guarded";
  "gov.SetNetworkProperties:msg.Proposer:PermChangeTxFee:guarded";
  "gov.SetExecutionFee:msg.Proposer:PermChangeTxFee:guarded";
  "gov.ClaimCouncilor:msg.Address:PermClaimCouncilor:guarded";
  "layer2.CreateDappProposal:addr:PermCreateDappProposalWithoutBond:guarded";
  "staking.ClaimValidator:sdk.AccAddress(msg.ValKey):PermClaimValidator:guarded";
  "tokens.UpsertTokenInfo:msg.Proposer:PermUpsertTokenInfo:guarded"
]%string.
Definition expected_proposal_perms : list string := [
  "basket.ProposalBasketWithdrawSurplus:PermCreateBasketProposal:PermVoteBasketProposal";
  "basket.ProposalCreateBasket:PermCreateBasketProposal:PermVoteBasketProposal";
  "basket.ProposalEditBasket:PermCreateBasketProposal:PermVoteBasketProposal";
  "collectives.ProposalCollectiveRemove:PermZero:PermZero";
  "collectives.ProposalCollectiveSendDonation:PermZero:PermZero";
  "collectives.ProposalCollectiveUpdate:PermZero:PermZero";
  "gov.AssignRoleToAccountProposal:PermAssignRoleToAccountProposal:PermVoteAssignRoleToAccountProposal";
  "gov.BlacklistAccountPermissionProposal:PermBlacklistAccountPermissionProposal:PermVoteBlacklistAccountPermissionProposal";
  "gov.BlacklistRolePermissionProposal:PermBlacklistRolePermissionProposal:PermVoteBlacklistRolePermissionProposal";
  "gov.CreateRoleProposal:PermCreateRoleProposal:PermVoteCreateRoleProposal";
  "gov.ProposalJailCouncilor:PermCreateJailCouncilorProposal:PermVoteJailCouncilorProposal";
  "gov.ProposalResetWholeCouncilorRank:PermCreateResetWholeCouncilorRankProposal:PermVoteResetWholeCouncilorRankProposal";
  "gov.ProposalSetExecutionFees:PermCreateSetExecutionFeesProposal:PermVoteSetExecutionFeesProposal";
  "gov.RemoveBlacklistedAccountPermissionProposal:PermRemoveBlacklistedAccountPermissionProposal:PermVoteRemoveBlacklistedAccountPermissionProposal";
  "gov.RemoveBlacklistedRolePermissionProposal:PermRemoveBlacklistedRolePermissionProposal:PermVoteRemoveBlacklistedRolePermissionProposal";
  "gov.RemoveRoleProposal:PermRemoveRoleProposal:PermVoteRemoveRoleProposal";
  "gov.RemoveWhitelistedAccountPermissionProposal:PermRemoveWhitelistedAccountPermissionProposal:PermVoteRemoveWhitelistedAccountPermissionProposal";
  "gov.RemoveWhitelistedRolePermissionProposal:PermRemoveWhitelistedRolePermissionProposal:PermVoteRemoveWhitelistedRolePermissionProposal";
  "gov.SetNetworkPropertyProposal:PermCreateSetNetworkPropertyProposal:PermVoteSetNetworkPropertyProposal";
  "gov.SetPoorNetworkMessagesProposal:PermCreateSetPoorNetworkMessagesProposal:PermVoteSetPoorNetworkMessagesProposal";
  "gov.SetProposalDurationsProposal:PermCreateSetProposalDurationProposal:PermVoteSetProposalDurationProposal";
  "gov.UnassignRoleFromAccountProposal:PermUnassignRoleFromAccountProposal:PermVoteUnassignRoleFromAccountProposal";
  "gov.UpsertDataRegistryProposal:PermCreateUpsertDataRegistryProposal:PermVoteUpsertDataRegistryProposal";
  "gov.WhitelistAccountPermissionProposal:PermWhitelistAccountPermissionProposal:PermVoteWhitelistAccountPermissionProposal";
  "gov.WhitelistRolePermissionProposal:PermWhitelistRolePermissionProposal:PermVoteWhitelistRolePermissionProposal";
  "layer2.ProposalJoinDapp:PermZero:PermZero";
  "layer2.ProposalUpsertDapp:PermZero:PermZero";
  "slashing.ProposalResetWholeValidatorRank:PermCreateResetWholeValidatorRankProposal:PermVoteResetWholeValidatorRankProposal";
  "slashing.ProposalSlashValidator:PermCreateSlashValidatorProposal:PermVoteSlashValidatorProposal";
  "spending.SpendingPoolDistributionProposal:PermZero:PermZero";
  "spending.SpendingPoolWithdrawProposal:PermZero:PermZero";
  "spending.UpdateSpendingPoolProposal:PermZero:PermZero";
  "staking.ProposalUnjailValidator:PermCreateUnjailValidatorProposal:PermVoteUnjailValidatorProposal";
  "tokens.ProposalTokensWhiteBlackChange:PermCreateTokensWhiteBlackChangeProposal:PermVoteTokensWhiteBlackChangeProposal";
  "tokens.ProposalUpsertTokenInfo:PermCreateUpsertTokenInfoProposal:PermVoteUpsertTokenInfoProposal";
  "ubi.RemoveUBIProposal:PermCreateRemoveUBIProposal:PermVoteRemoveUBIProposal";
  "ubi.UpsertUBIProposal:PermCreateUpsertUBIProposal:PermVoteUpsertUBIProposal";
  "upgrade.ProposalCancelSoftwareUpgrade:PermCreateSoftwareUpgradeProposal:PermVoteSoftwareUpgradeProposal";
  "upgrade.ProposalSoftwareUpgrade:PermCreateSoftwareUpgradeProposal:PermVoteSoftwareUpgradeProposal"
]%string.
Theorem C07_gates_complete :
  incl expected_msg_gates Gates.msg_gates /\ incl expected_proposal_perms Gates.proposal_perms /\ Gates.gen_errors = [].
Proof. exact (gates_complete_sound Gates.msg_gates expected_msg_gates Gates.proposal_perms expected_proposal_perms Gates.gen_errors eq_refl). Qed.
Print Assumptions C07_gates_complete.

(* ---- every sdk.Msg type of the kira modules registered in the application, classified by whether its
   handler carries a permission gate.  Equality both ways: a NEW message type (gated or not) is not in the
   pinned list and breaks this obligation until it is classified; so does a gate removed from a handler. *)
Definition expected_msg_classes : list string := [
  "kira.basket.MsgBasketClaimRewards:ungated";
  "kira.basket.MsgBasketTokenBurn:ungated";
  "kira.basket.MsgBasketTokenMint:ungated";
  "kira.basket.MsgBasketTokenSwap:ungated";
  "kira.basket.MsgDisableBasketDeposits:gated";
  "kira.basket.MsgDisableBasketSwaps:gated";
  "kira.basket.MsgDisableBasketWithdraws:gated";
  "kira.collectives.MsgBondCollective:ungated";
  "kira.collectives.MsgCreateCollective:ungated";
  "kira.collectives.MsgDonateCollective:ungated";
  "kira.collectives.MsgWithdrawCollective:ungated";
  "kira.custody.MsgAddToCustodyCustodians:ungated";
  "kira.custody.MsgAddToCustodyLimits:ungated";
  "kira.custody.MsgAddToCustodyWhiteList:ungated";
  "kira.custody.MsgApproveCustodyTransaction:ungated";
  "kira.custody.MsgCreateCustodyRecord:ungated";
  "kira.custody.MsgDeclineCustodyTransaction:ungated";
  "kira.custody.MsgDisableCustodyRecord:ungated";
  "kira.custody.MsgDropCustodyCustodians:ungated";
  "kira.custody.MsgDropCustodyLimits:ungated";
  "kira.custody.MsgDropCustodyRecord:ungated";
  "kira.custody.MsgDropCustodyWhiteList:ungated";
  "kira.custody.MsgPasswordConfirmTransaction:ungated";
  "kira.custody.MsgRemoveFromCustodyCustodians:ungated";
  "kira.custody.MsgRemoveFromCustodyLimits:ungated";
  "kira.custody.MsgRemoveFromCustodyWhiteList:ungated";
  "kira.custody.MsgSend:ungated";
  "kira.ethereum.MsgRelay:ungated";
  "kira.evidence.MsgSubmitEvidence:ungated";
  "kira.gov.MsgAssignRole:gated";
  "kira.gov.MsgBlacklistPermissions:gated";
  "kira.gov.MsgBlacklistRolePermission:gated";
  "kira.gov.MsgCancelIdentityRecordsVerifyRequest:ungated";
  "kira.gov.MsgClaimCouncilor:gated";
  "kira.gov.MsgCouncilorActivate:ungated";
  "kira.gov.MsgCouncilorPause:ungated";
  "kira.gov.MsgCouncilorUnpause:ungated";
  "kira.gov.MsgCreateRole:gated";
  "kira.gov.MsgDeleteIdentityRecords:ungated";
  "kira.gov.MsgHandleIdentityRecordsVerifyRequest:ungated";
  "kira.gov.MsgPollCreate:gated";
  "kira.gov.MsgPollVote:ungated";
  "kira.gov.MsgRegisterIdentityRecords:ungated";
  "kira.gov.MsgRemoveBlacklistRolePermission:gated";
  "kira.gov.MsgRemoveBlacklistedPermissions:gated";
  "kira.gov.MsgRemoveWhitelistRolePermission:gated";
  "kira.gov.MsgRemoveWhitelistedPermissions:gated";
  "kira.gov.MsgRequestIdentityRecordsVerify:ungated";
  "kira.gov.MsgSetExecutionFee:gated";
  "kira.gov.MsgSetNetworkProperties:gated";
  "kira.gov.MsgSubmitProposal:gated";
  "kira.gov.MsgUnassignRole:gated";
  "kira.gov.MsgVoteProposal:gated";
  "kira.gov.MsgWhitelistPermissions:gated";
  "kira.gov.MsgWhitelistRolePermission:gated";
  "kira.layer2.MsgAckTransferDappTx:ungated";
  "kira.layer2.MsgApproveDappTransitionTx:ungated";
  "kira.layer2.MsgBondDappProposal:ungated";
  "kira.layer2.MsgConvertDappPoolTx:ungated";
  "kira.layer2.MsgCreateDappProposal:gated";
  "kira.layer2.MsgDenounceLeaderTx:ungated";
  "kira.layer2.MsgExecuteDappTx:ungated";
  "kira.layer2.MsgExitDapp:ungated";
  "kira.layer2.MsgJoinDappVerifierWithBond:ungated";
  "kira.layer2.MsgMintBurnTx:ungated";
  "kira.layer2.MsgMintCreateFtTx:ungated";
  "kira.layer2.MsgMintCreateNftTx:ungated";
  "kira.layer2.MsgMintIssueTx:ungated";
  "kira.layer2.MsgPauseDappTx:ungated";
  "kira.layer2.MsgReactivateDappTx:ungated";
  "kira.layer2.MsgReclaimDappBondProposal:ungated";
  "kira.layer2.MsgRedeemDappPoolTx:ungated";
  "kira.layer2.MsgRejectDappTransitionTx:ungated";
  "kira.layer2.MsgSwapDappPoolTx:ungated";
  "kira.layer2.MsgTransferDappTx:ungated";
  "kira.layer2.MsgTransitionDappTx:ungated";
  "kira.layer2.MsgUnPauseDappTx:ungated";
  "kira.multistaking.MsgClaimMaturedUndelegations:ungated";
  "kira.multistaking.MsgClaimRewards:ungated";
  "kira.multistaking.MsgClaimUndelegation:ungated";
  "kira.multistaking.MsgDelegate:ungated";
  "kira.multistaking.MsgRegisterDelegator:ungated";
  "kira.multistaking.MsgSetCompoundInfo:ungated";
  "kira.multistaking.MsgUndelegate:ungated";
  "kira.multistaking.MsgUpsertStakingPool:ungated";
  "kira.recovery.MsgBurnRecoveryTokens:ungated";
  "kira.recovery.MsgClaimRRHolderRewards:ungated";
  "kira.recovery.MsgIssueRecoveryTokens:ungated";
  "kira.recovery.MsgRegisterRRTokenHolder:ungated";
  "kira.recovery.MsgRegisterRecoverySecret:ungated";
  "kira.recovery.MsgRotateRecoveryAddress:ungated";
  "kira.recovery.MsgRotateValidatorByHalfRRTokenHolder:ungated";
  "kira.slashing.MsgActivate:ungated";
  "kira.slashing.MsgPause:ungated";
  "kira.slashing.MsgRefuteSlashingProposal:ungated";
  "kira.slashing.MsgUnpause:ungated";
  "kira.spending.MsgClaimSpendingPool:ungated";
  "kira.spending.MsgCreateSpendingPool:ungated";
  "kira.spending.MsgDepositSpendingPool:ungated";
  "kira.spending.MsgRegisterSpendingPoolBeneficiary:ungated";
  "kira.staking.MsgClaimValidator:gated";
  "kira.tokens.MsgEthereumTx:ungated";
  "kira.tokens.MsgUpsertTokenInfo:gated"
]%string.
Theorem C07_every_message_classified :
  incl Gates.msg_classes expected_msg_classes /\ incl expected_msg_classes Gates.msg_classes.
Proof. exact (incl_both_sound Gates.msg_classes expected_msg_classes eq_refl). Qed.
Print Assumptions C07_every_message_classified.

(* ---- every call site that writes the permission stores from outside gov's two keeper files (message
   server, proposal handlers, genesis, x/recovery rotation): the ones the model covers.  A new writer
   breaks this obligation. *)
Definition expected_external_writers : list string := [
  "x/gov/genesis.go:InitGenesis:AssignRoleToActor x1";
  "x/gov/genesis.go:InitGenesis:BlacklistRolePermission x1";
  "x/gov/genesis.go:InitGenesis:SaveNetworkActor x1";
  "x/gov/genesis.go:InitGenesis:SetNextRoleId x1";
  "x/gov/genesis.go:InitGenesis:SetRole x1";
  "x/gov/genesis.go:InitGenesis:SetWhitelistAddressPermKey x1";
  "x/gov/genesis.go:InitGenesis:WhitelistRolePermission x1";
  "x/gov/handler.go:NewHandler:BlacklistRolePermission x1";
  "x/gov/handler.go:NewHandler:CreateRole x1";
  "x/gov/handler.go:NewHandler:RemoveBlacklistRolePermission x1";
  "x/gov/handler.go:NewHandler:RemoveWhitelistRolePermission x1";
  "x/gov/handler.go:NewHandler:WhitelistRolePermission x1";
  "x/gov/keeper/msg_server.go:msgServer.AssignRole:AssignRoleToAccount x1";
  "x/gov/keeper/msg_server.go:msgServer.BlacklistPermissions:SaveNetworkActor x1";
  "x/gov/keeper/msg_server.go:msgServer.BlacklistRolePermission:BlacklistRolePermission x1";
  "x/gov/keeper/msg_server.go:msgServer.ClaimCouncilor:AddWhitelistPermission x1";
  "x/gov/keeper/msg_server.go:msgServer.CreateRole:CreateRole x1";
  "x/gov/keeper/msg_server.go:msgServer.RemoveBlacklistRolePermission:RemoveBlacklistRolePermission x1";
  "x/gov/keeper/msg_server.go:msgServer.RemoveBlacklistedPermissions:SaveNetworkActor x1";
  "x/gov/keeper/msg_server.go:msgServer.RemoveWhitelistRolePermission:RemoveWhitelistRolePermission x1";
  "x/gov/keeper/msg_server.go:msgServer.RemoveWhitelistedPermissions:RemoveWhitelistedPermission x1";
  "x/gov/keeper/msg_server.go:msgServer.UnassignRole:UnassignRoleFromAccount x1";
  "x/gov/keeper/msg_server.go:msgServer.WhitelistPermissions:AddWhitelistPermission x1";
  "x/gov/keeper/msg_server.go:msgServer.WhitelistRolePermission:WhitelistRolePermission x1";
  "x/gov/proposal_handler.go:ApplyAssignRoleToAccountProposalHandler.Apply:AssignRoleToAccount x1";
  "x/gov/proposal_handler.go:ApplyBlacklistAccountPermissionProposalHandler.Apply:AddBlacklistPermission x1";
  "x/gov/proposal_handler.go:ApplyBlacklistRolePermissionProposalHandler.Apply:BlacklistRolePermission x1";
  "x/gov/proposal_handler.go:ApplyRemoveBlacklistedAccountPermissionProposalHandler.Apply:RemoveBlacklistedPermission x1";
  "x/gov/proposal_handler.go:ApplyRemoveBlacklistedRolePermissionProposalHandler.Apply:RemoveBlacklistRolePermission x1";
  "x/gov/proposal_handler.go:ApplyRemoveRoleProposalHandler.Apply:DeleteRole x1";
  "x/gov/proposal_handler.go:ApplyRemoveWhitelistedAccountPermissionProposalHandler.Apply:RemoveWhitelistedPermission x1";
  "x/gov/proposal_handler.go:ApplyRemoveWhitelistedRolePermissionProposalHandler.Apply:RemoveWhitelistRolePermission x1";
  "x/gov/proposal_handler.go:ApplyUnassignRoleFromAccountProposalHandler.Apply:UnassignRoleFromAccount x1";
  "x/gov/proposal_handler.go:ApplyWhitelistAccountPermissionProposalHandler.Apply:AddWhitelistPermission x1";
  "x/gov/proposal_handler.go:ApplyWhitelistRolePermissionProposalHandler.Apply:WhitelistRolePermission x1";
  "x/gov/proposal_handler.go:CreateRoleProposalHandler.Apply:BlacklistRolePermission x1";
  "x/gov/proposal_handler.go:CreateRoleProposalHandler.Apply:CreateRole x1";
  "x/gov/proposal_handler.go:CreateRoleProposalHandler.Apply:WhitelistRolePermission x1";
  "x/recovery/keeper/msg_server.go:msgServer.RotateRecoveryAddress:AssignRoleToActor x1";
  "x/recovery/keeper/msg_server.go:msgServer.RotateRecoveryAddress:DeleteNetworkActor x1";
  "x/recovery/keeper/msg_server.go:msgServer.RotateRecoveryAddress:DeleteWhitelistAddressPermKey x1";
  "x/recovery/keeper/msg_server.go:msgServer.RotateRecoveryAddress:SaveNetworkActor x1";
  "x/recovery/keeper/msg_server.go:msgServer.RotateRecoveryAddress:SetWhitelistAddressPermKey x1";
  "x/recovery/keeper/msg_server.go:msgServer.RotateRecoveryAddress:UnassignRoleFromActor x1";
  "x/recovery/keeper/msg_server.go:msgServer.RotateValidatorByHalfRRTokenHolder:AssignRoleToActor x1";
  "x/recovery/keeper/msg_server.go:msgServer.RotateValidatorByHalfRRTokenHolder:DeleteNetworkActor x1";
  "x/recovery/keeper/msg_server.go:msgServer.RotateValidatorByHalfRRTokenHolder:DeleteWhitelistAddressPermKey x1";
  "x/recovery/keeper/msg_server.go:msgServer.RotateValidatorByHalfRRTokenHolder:SaveNetworkActor x1";
  "x/recovery/keeper/msg_server.go:msgServer.RotateValidatorByHalfRRTokenHolder:SetWhitelistAddressPermKey x1";
  "x/recovery/keeper/msg_server.go:msgServer.RotateValidatorByHalfRRTokenHolder:UnassignRoleFromActor x1"
]%string.
Theorem C07_permission_store_writers_pinned :
  incl Gates.external_writers expected_external_writers /\ incl expected_external_writers Gates.external_writers.
Proof. exact (incl_both_sound Gates.external_writers expected_external_writers eq_refl). Qed.
Print Assumptions C07_permission_store_writers_pinned.

(* ---- fingerprints of the function bodies the hand-written model was made from (at /repo HEAD): an
   edit to any of them breaks this obligation and makes the check widen its search *)
Definition expected_fingerprints : list string := [
  "x/basket/keeper/keeper.go:Keeper.CheckIfAllowedPermission:c4dc32848919";
  "x/collectives/keeper/keeper.go:Keeper.CheckIfAllowedPermission:c4dc32848919";
  "x/gov/genesis.go:ExportGenesis:40f720b6e1f0";
  "x/gov/genesis.go:InitGenesis:327ac8651436";
  "x/gov/keeper/msg_server.go:msgServer.AssignRole:00297d8bb4ed";
  "x/gov/keeper/msg_server.go:msgServer.BlacklistPermissions:4dfe3d523f45";
  "x/gov/keeper/msg_server.go:msgServer.BlacklistRolePermission:4bf1b48e0e18";
  "x/gov/keeper/msg_server.go:msgServer.ClaimCouncilor:fbe56f9cc082";
  "x/gov/keeper/msg_server.go:msgServer.CreateRole:bd330cb75230";
  "x/gov/keeper/msg_server.go:msgServer.PollCreate:955c456fc3ca";
  "x/gov/keeper/msg_server.go:msgServer.RemoveBlacklistRolePermission:f15e6f43335b";
  "x/gov/keeper/msg_server.go:msgServer.RemoveBlacklistedPermissions:964353eaa64d";
  "x/gov/keeper/msg_server.go:msgServer.RemoveWhitelistRolePermission:28d2d594f9b9";
  "x/gov/keeper/msg_server.go:msgServer.RemoveWhitelistedPermissions:9ea79f83b2da";
  "x/gov/keeper/msg_server.go:msgServer.SubmitProposal:09122568905a";
  "x/gov/keeper/msg_server.go:msgServer.UnassignRole:85ccd706623a";
  "x/gov/keeper/msg_server.go:msgServer.VoteProposal:271f610410d3";
  "x/gov/keeper/msg_server.go:msgServer.WhitelistPermissions:6bc8d6e79e99";
  "x/gov/keeper/msg_server.go:msgServer.WhitelistRolePermission:d8fb352c462a";
  "x/gov/keeper/network_actor.go:Keeper.AddBlacklistPermission:a3b84d3af3e9";
  "x/gov/keeper/network_actor.go:Keeper.AddWhitelistPermission:e8b1a0f8d374";
  "x/gov/keeper/network_actor.go:Keeper.AssignRoleToAccount:1ea97ff0b141";
  "x/gov/keeper/network_actor.go:Keeper.AssignRoleToActor:8bc27c2f76e9";
  "x/gov/keeper/network_actor.go:Keeper.DeleteNetworkActor:0227a97ce6dd";
  "x/gov/keeper/network_actor.go:Keeper.DeleteWhitelistAddressPermKey:7599121b3fe2";
  "x/gov/keeper/network_actor.go:Keeper.GetNetworkActorByAddress:64c331ff6278";
  "x/gov/keeper/network_actor.go:Keeper.GetNetworkActorFromIterator:5beb3dd3472a";
  "x/gov/keeper/network_actor.go:Keeper.GetNetworkActorOrFail:c3da031e8aac";
  "x/gov/keeper/network_actor.go:Keeper.GetNetworkActorsByAbsoluteWhitelistPermission:b0282d95f9de";
  "x/gov/keeper/network_actor.go:Keeper.GetNetworkActorsByRole:c80d8fd832f6";
  "x/gov/keeper/network_actor.go:Keeper.GetNetworkActorsByWhitelistedPermission:15979d1f89b5";
  "x/gov/keeper/network_actor.go:Keeper.GetNetworkActorsIterator:6e84b9818f02";
  "x/gov/keeper/network_actor.go:Keeper.RemoveBlacklistedPermission:cbff61461b94";
  "x/gov/keeper/network_actor.go:Keeper.RemoveWhitelistedPermission:3f73545bde1e";
  "x/gov/keeper/network_actor.go:Keeper.SaveNetworkActor:0941e93e23c2";
  "x/gov/keeper/network_actor.go:Keeper.SetWhitelistAddressPermKey:a7e62635f17e";
  "x/gov/keeper/network_actor.go:Keeper.UnassignRoleFromAccount:f3a4f3bedd37";
  "x/gov/keeper/network_actor.go:Keeper.UnassignRoleFromActor:020a3aaaf28d";
  "x/gov/keeper/network_actor.go:WhitelistAddressPermKey:5befa5c0990a";
  "x/gov/keeper/network_actor.go:WhitelistPermKey:f650ba552072";
  "x/gov/keeper/network_actor.go:bytesToRole:c6f24eb795a4";
  "x/gov/keeper/network_actor.go:permToBytes:808e4926c178";
  "x/gov/keeper/network_actor.go:roleAddressKey:0a0e75080ce2";
  "x/gov/keeper/network_actor.go:roleKey:7795f661deec";
  "x/gov/keeper/network_actor.go:roleToBytes:89fbaa0a7a94";
  "x/gov/keeper/permission_registry.go:Keeper.BlacklistRolePermission:0e0d8f7233a7";
  "x/gov/keeper/permission_registry.go:Keeper.CheckIfAllowedPermission:d5077165b11b";
  "x/gov/keeper/permission_registry.go:Keeper.CreateRole:f63a4295b8ae";
  "x/gov/keeper/permission_registry.go:Keeper.DeleteRole:dc3c163359f6";
  "x/gov/keeper/permission_registry.go:Keeper.GetAllRoles:2b8a347776d4";
  "x/gov/keeper/permission_registry.go:Keeper.GetNextRoleId:e9c9c2edf8e4";
  "x/gov/keeper/permission_registry.go:Keeper.GetPermissionsForRole:5a2e36893296";
  "x/gov/keeper/permission_registry.go:Keeper.GetPermissionsFromIterator:97d8cbe583ff";
  "x/gov/keeper/permission_registry.go:Keeper.GetRole:ee48957f418b";
  "x/gov/keeper/permission_registry.go:Keeper.GetRoleBySid:f85a8a64b4ca";
  "x/gov/keeper/permission_registry.go:Keeper.GetRoleIdFromIdentifierString:5385db727f26";
  "x/gov/keeper/permission_registry.go:Keeper.GetRolesByWhitelistedPerm:c25800d384de";
  "x/gov/keeper/permission_registry.go:Keeper.IterateRoles:dc3fd0d42055";
  "x/gov/keeper/permission_registry.go:Keeper.RemoveBlacklistRolePermission:e975b0add7f5";
  "x/gov/keeper/permission_registry.go:Keeper.RemoveWhitelistRolePermission:9088ea1f8145";
  "x/gov/keeper/permission_registry.go:Keeper.SetNextRoleId:d277f8d0c366";
  "x/gov/keeper/permission_registry.go:Keeper.SetRole:01a5fc26c6ab";
  "x/gov/keeper/permission_registry.go:Keeper.SetWhiltelistPermRoleKey:d133850ae55f";
  "x/gov/keeper/permission_registry.go:Keeper.WhitelistRolePermission:2f8ad26de107";
  "x/gov/keeper/permission_registry.go:Keeper.deletePermissionsForRole:a4c5d1167f91";
  "x/gov/keeper/permission_registry.go:Keeper.savePermissionsForRole:92898baa6de0";
  "x/gov/keeper/permission_registry.go:prefixWhitelist:2562c511921c";
  "x/gov/keeper/permission_registry.go:prefixWhitelistRole:4c5168abc21c";
  "x/gov/keeper/util.go:CheckIfAllowedPermission:6a364acd28cf";
  "x/gov/keeper/util.go:getRolePermissions:afc48c070b3c";
  "x/gov/proposal_handler.go:ApplyAssignRoleToAccountProposalHandler.Apply:4354b3209d7e";
  "x/gov/proposal_handler.go:ApplyBlacklistAccountPermissionProposalHandler.Apply:fef3ffe059b0";
  "x/gov/proposal_handler.go:ApplyBlacklistRolePermissionProposalHandler.Apply:d01ef95ae53e";
  "x/gov/proposal_handler.go:ApplyRemoveBlacklistedAccountPermissionProposalHandler.Apply:5a9934d38a65";
  "x/gov/proposal_handler.go:ApplyRemoveBlacklistedRolePermissionProposalHandler.Apply:49f43ed15d95";
  "x/gov/proposal_handler.go:ApplyRemoveRoleProposalHandler.Apply:6b7632582a74";
  "x/gov/proposal_handler.go:ApplyRemoveWhitelistedAccountPermissionProposalHandler.Apply:60c55acb3a29";
  "x/gov/proposal_handler.go:ApplyRemoveWhitelistedRolePermissionProposalHandler.Apply:ed8c28bafbb3";
  "x/gov/proposal_handler.go:ApplyUnassignRoleFromAccountProposalHandler.Apply:032b84b0b915";
  "x/gov/proposal_handler.go:ApplyWhitelistAccountPermissionProposalHandler.Apply:f89a6ad01acc";
  "x/gov/proposal_handler.go:ApplyWhitelistRolePermissionProposalHandler.Apply:50422ec5a3df";
  "x/gov/proposal_handler.go:CreateRoleProposalHandler.Apply:2bd5b499d946";
  "x/gov/types/actor.go:GetActorsWithVoteWithVeto:8f31a76aa7e3";
  "x/gov/types/actor.go:NetworkActor.CanVote:7bb469a4da66";
  "x/gov/types/actor.go:NetworkActor.Deactivate:acfd43f7c8e2";
  "x/gov/types/actor.go:NetworkActor.HasRole:b73eed7a2cf6";
  "x/gov/types/actor.go:NetworkActor.IsActive:7bea1241a891";
  "x/gov/types/actor.go:NetworkActor.IsInactive:974ebce58724";
  "x/gov/types/actor.go:NetworkActor.RemoveRole:68cb6283903a";
  "x/gov/types/actor.go:NetworkActor.SetRole:5ec0a3566909";
  "x/gov/types/actor.go:NewDefaultActor:ebfbb6485241";
  "x/gov/types/actor.go:NewNetworkActor:114d6891db64";
  "x/gov/types/router.go:NewProposalRouter:4bf97b47e730";
  "x/gov/types/router.go:ProposalRouter.AllowedAddressesDynamicProposal:a548b84ebff0";
  "x/gov/types/router.go:ProposalRouter.ApplyProposal:3175720e4bbe";
  "x/gov/types/router.go:ProposalRouter.EnactmentPeriodDynamicProposal:9e6282a92738";
  "x/gov/types/router.go:ProposalRouter.IsAllowedAddressDynamicProposal:348e19f6409b";
  "x/gov/types/router.go:ProposalRouter.QuorumDynamicProposal:efbceda9b41e";
  "x/gov/types/router.go:ProposalRouter.VotePeriodDynamicProposal:f1400a5efb9a";
  "x/gov/types/types.go:NewPermissions:097a96db072d";
  "x/gov/types/types.go:Permissions.AddToBlacklist:27dd3d194b31";
  "x/gov/types/types.go:Permissions.AddToWhitelist:c305c0d1a21d";
  "x/gov/types/types.go:Permissions.IsBlacklisted:67074784cb81";
  "x/gov/types/types.go:Permissions.IsWhitelisted:f2ffb81463a6";
  "x/gov/types/types.go:Permissions.RemoveFromBlacklist:61bde20a94e9";
  "x/gov/types/types.go:Permissions.RemoveFromWhitelist:9e0269236a2b";
  "x/layer2/keeper/keeper.go:Keeper.CheckIfAllowedPermission:f7640580cec1";
  "x/recovery/keeper/msg_server.go:RotateRecoveryAddress/network_actor:2d76f4e3d8ff";
  "x/recovery/keeper/msg_server.go:RotateValidatorByHalfRRTokenHolder/network_actor:2d76f4e3d8ff"
]%string.
Theorem C07_modelled_code_unchanged :
  incl Gates.fingerprints expected_fingerprints /\ incl expected_fingerprints Gates.fingerprints.
Proof. exact (incl_both_sound Gates.fingerprints expected_fingerprints eq_refl). Qed.
Print Assumptions C07_modelled_code_unchanged.

(* non-vacuity: a reachable state with roles, whitelists and blacklists satisfying the invariant,
   on which blacklist beats whitelist both ways and the voter set is the expected one; the repaired
   variant keeps the invariant through an export / import *)
Example C07_nonvacuous :
  let s := run cfg_pinned empty_state (removelast example_ops) in
  inv s /\ check_allowed s 1 1 = true /\ check_allowed s 1 17 = false /\ check_allowed s 2 17 = true /\ check_allowed s 2 66 = false
  /\ voters s 17 = Ok [2; 1] /\ inv (run cfg_repaired empty_state example_ops).
Proof. exact example_state_inv. Qed.
