(* C03 -- No account is debited without its own authorisation.
   Statements only; each is closed by [exact] of a lemma of Proofs/Debit.v / Proofs/DebitCheck.v.
   Gen/DebitSites.v is REGENERATED from /repo on every run by harness/cmd/gen_signers. *)
From Sekai Require Import Base.Prelude Model.Debit Model.C03Check Proofs.Debit Proofs.DebitCheck Gen.DebitSites.
Open Scope string_scope.

(* ---- the generic theorem over the effect IR: a handler whose debited operands all originate
   from the signer (or a module, or a stored record whose owner a Guard compared with the signer)
   never lowers the coins nor the coins+claims of an account that did not sign *)
Theorem C03_wf_handler_no_foreign_debit :
  forall is_module h m s s',
  wf_auth h = true -> mods_ok is_module h = true -> claims_nonneg (claims s) = true ->
  exec h m s = Ok s' ->
  forall a, ~ In a (m_signers m) -> is_module a = false ->
  (forall c p, In c (claims s) -> c_owner c = a -> c_payee c = Some p -> ~ In p (m_signers m)) ->
  forall d, bal s' a d >= bal s a d /\ wealth s' a d >= wealth s a d.
Proof. exact wf_handler_no_foreign_debit. Qed.
Print Assumptions C03_wf_handler_no_foreign_debit.

Theorem C03_wf_handler_no_foreign_coin_debit :
  forall is_module h m s s',
  wf_auth h = true -> mods_ok is_module h = true -> claims_nonneg (claims s) = true ->
  exec h m s = Ok s' ->
  forall a, ~ In a (m_signers m) -> is_module a = false -> forall d, bal s' a d >= bal s a d.
Proof. exact wf_handler_no_foreign_coin_debit. Qed.
Print Assumptions C03_wf_handler_no_foreign_coin_debit.

(* ---- begin- and end-of-block processing never debits a user account *)
Theorem C03_blocks_never_debit_users :
  forall h, In h block_handlers ->
  forall addrs ids cs fl s s', claims_nonneg (claims s) = true ->
  exec h (block_msg addrs ids cs fl) s = Ok s' ->
  forall a d, std_is_module a = false -> bal s' a d >= bal s a d /\ wealth s' a d >= wealth s a d.
Proof. exact blocks_never_debit_users. Qed.
Print Assumptions C03_blocks_never_debit_users.

(* ---- pay-outs keyed by the recorded owner: undelegations (single / all matured), rewards, tips
   (request, cancel, handle), dApp bonds, collective bonds, bank send *)
Theorem C03_claim_pays_recorded_owner :
  forall h, In h code_handlers_ok -> no_foreign_debit h.
Proof. exact claim_pays_recorded_owner. Qed.
Print Assumptions C03_claim_pays_recorded_owner.

(* ---- ClaimUndelegation as the tree has it (owner compared with the sender): full strength *)
Theorem C03_claim_undelegation_no_foreign_debit : no_foreign_debit h_claim_undelegation.
Proof. exact claim_undelegation_safe. Qed.
Print Assumptions C03_claim_undelegation_no_foreign_debit.
(* the owner comparison is necessary: the variant without it is refuted (statement about that
   variant only -- it is not the code) *)
Theorem C03_claim_undelegation_unguarded_refuted : ~ no_foreign_debit h_claim_undelegation_unguarded.
Proof. exact claim_undelegation_unguarded_refuted. Qed.
Print Assumptions C03_claim_undelegation_unguarded_refuted.

(* ---- the full statement fails for JoinDappVerifierWithBond as the tree has it (known finding,
   replayed on the real code by harness/cmd/c03) and for the bare shape of the custody reward
   transfer, which is why that site is audited and carried by the custody theorems instead *)
Theorem C03_join_verifier_refuted : ~ no_foreign_debit h_l2_join_verifier.
Proof. exact join_verifier_refuted. Qed.
Print Assumptions C03_join_verifier_refuted.
Theorem C03_custody_reward_refuted : ~ no_foreign_debit h_custody_reward.
Proof. exact custody_reward_refuted. Qed.
Print Assumptions C03_custody_reward_refuted.
(* ... and holds once the signer is the debited side *)
Theorem C03_join_verifier_partial : no_foreign_debit h_l2_join_verifier_fixed.
Proof. exact join_verifier_fixed_safe. Qed.
Print Assumptions C03_join_verifier_partial.

(* ---- custody: the owner is debited only by a listed custodian's approval, and the transfer is
   released only when the votes on record (one per fresh listed custodian) reach the share *)
Theorem C03_custody_release_only_after_threshold : forall cfg e caller, custody_spec cfg e caller.
Proof. exact custody_release_only_after_threshold. Qed.
Print Assumptions C03_custody_release_only_after_threshold.
(* the custodian check is necessary: the body without it (the code before 30f99e5) is refuted *)
Theorem C03_custody_unchecked_refuted : ~ (forall cfg e caller, custody_spec_of custody_approve_any cfg e caller).
Proof. exact custody_unchecked_refuted. Qed.
Print Assumptions C03_custody_unchecked_refuted.
Theorem C03_custody_release_partial :
  forall cfg e caller b b' left, custody_approve_any cfg e caller b = Ok (b', left) ->
  (forall x d, x <> ce_owner e -> b' x d >= b x d) /\
  (forall d, b (ce_owner e) d - b' (ce_owner e) d
             <= (match left with None => amount_of (ce_coins e) d | Some _ => 0 end)
                + amount_of (reward_share e (Z.of_nat (List.length (cc_custodians cfg)))) d) /\
  (left = None -> cc_enabled cfg = true -> forall legit, legit = ce_votes e ->
     legit_threshold cfg (legit + 1) = true).
Proof. exact custody_release_partial. Qed.
Print Assumptions C03_custody_release_partial.
Example C03_custody_nonvacuous :
  exists b' , custody_approve w_cfg w_entry 6 w_bal5 = Ok (b', None) /\ b' 3 "ukex" = 400 /\ b' 6 "ukex" = 50.
Proof. exact custody_nonvacuous. Qed.

(* ---- rotation needs the recovery secret, or half of the recovery tokens *)
Theorem C03_rotation_requires_secret_or_half_rr :
  (forall (hash : string -> string) challenge proof rr before,
     rotate_by_secret hash challenge proof rr before = Ok tt -> hash proof = challenge /\ rr = false) /\
  (forall exists_ amount supply before,
     rotate_by_rr exists_ amount supply before = Ok tt -> exists_ = true /\ supply <= amount * 2).
Proof. exact rotation_requires_secret_or_half_rr. Qed.
Print Assumptions C03_rotation_requires_secret_or_half_rr.

(* ---- the table regenerated from the msg servers: every bank call debits the signer or a module
   and every pay-out goes to the signer's own record, the recorded owner or a module -- except
   the audited sites below.  A handler edited to debit another message field changes
   Gen/DebitSites.v and this theorem no longer checks. *)
Definition audited_sites : list string := [
  (* findings (known-findings.txt) *)
  "layer2.JoinDappVerifierWithBond/JoinDappVerifierWithBond/field:Interx->module:layer2";    (* bond taken from msg.Interx *)
  (* the reward share the owner offered, paid to a LISTED custodian of the target (membership is
     checked first since 30f99e5; custody theorems; repeats are caught by the monitor's ghost record) *)
  "custody.ApproveTransaction/sendReward/field:TargetAddress->signer:FromAddress";
  "custody.DeclineTransaction/sendReward/field:TargetAddress->signer:FromAddress";
  (* the sanctioned release: recorded owner pays the recorded beneficiary (threshold: custody theorems) *)
  "custody.ApproveTransaction/ApproveTransaction/stored:tx.FromAddress->stored:tx.ToAddress";
  "custody.PasswordConfirm/PasswordConfirm/stored:tx.FromAddress->stored:tx.ToAddress";
  (* bank MsgSend decoded from relayed data, authenticated by the ethereum ante path (property C02) *)
  "ethereum.Relay/Relay/unknown:from->unknown:to";
  (* the module pays the SIGNER an amount computed from pool state against his own deposit *)
  "basket.BasketTokenMint/MintBasketToken/module:basket->signer:Sender";
  "layer2.RedeemDappPoolTx/RedeemDappPoolTx/module:layer2->signer:Sender";
  "layer2.SwapDappPoolTx/SwapDappPoolTx/module:layer2->signer:Sender";
  (* transfers between the two escrow addresses of the collective itself *)
  "collectives.ContributeCollective/ContributeCollective/stored:collective.GetCollectiveAddress()->stored:collective.GetCollectiveDonationAddress()";
  "collectives.DonateCollective/DonateCollective/stored:collective.GetCollectiveDonationAddress()->stored:collective.GetCollectiveAddress()";
  "collectives.DonateCollective/DonateCollective/stored:collective.GetCollectiveAddress()->stored:collective.GetCollectiveDonationAddress()"
].
Definition audited_block_sites : list string := [
  (* the collective's own escrow addresses fund its spending pools / pay its recorded contributors *)
  "collectives.EndBlocker/spending.DepositSpendingPoolFromAccount/stored:collective.GetCollectiveAddress()->module:spending";
  "collectives.EndBlocker/DistributeCollectiveRewards/stored:collective.GetCollectiveAddress()->module:collectives";
  "collectives.EndBlocker/WithdrawCollective/stored:collective.GetCollectiveAddress()->stored:cc.Address";
  "collectives.EndBlocker/WithdrawCollective/stored:collective.GetCollectiveDonationAddress()->stored:cc.Address"
].

Theorem C03_debit_sites_wf :
  forall h ss s, In (h, ss) handlers -> In s ss ->
  In (site_key h s) audited_sites \/ no_foreign_debit (instrs_of_site s).
Proof. exact (sites_checked audited_sites handlers (@eq_refl bool true <: check_sites audited_sites handlers = true)). Qed.
Print Assumptions C03_debit_sites_wf.

Theorem C03_block_sites_wf :
  forall h ss s, In (h, ss) block_sites -> In s ss ->
  In (site_key h s) audited_block_sites \/ no_foreign_debit (instrs_of_site s).
Proof. exact (sites_checked audited_block_sites block_sites (@eq_refl bool true <: check_sites audited_block_sites block_sites = true)). Qed.
Print Assumptions C03_block_sites_wf.

(* every message type has a signer field, and every handler's message type is in the table *)
Theorem C03_every_msg_has_signers :
  forallb (fun e => negb (match snd e with [] => true | _ => false end)) signers_table = true /\
  forallb (fun e => existsb (fun t => String.eqb (fst t) (snd e)) signers_table) handler_msgs = true.
Proof.
  exact (conj (@eq_refl bool true <: forallb (fun e => negb (match snd e with [] => true | _ => false end)) signers_table = true)
              (@eq_refl bool true <: forallb (fun e => existsb (fun t => String.eqb (fst t) (snd e)) signers_table) handler_msgs = true)).
Qed.
Print Assumptions C03_every_msg_has_signers.

(* ---- the spec checker accepts every run of a handler that passes the static check *)
Theorem C03_chk_sound_coins :
  forall h m s s', wf_auth h = true -> mods_ok std_is_module h = true -> claims_nonneg (claims s) = true ->
  exec h m s = Ok s' ->
  forall pts crows facts,
  let c := mkCase 0 (m_signers m) (rows_of_run s s' pts) crows facts None in
  flat_map (fun e => let '(a, d, b, f) := e in coin_clause c a d b f) (k_bal c) = [].
Proof. exact c03_chk_sound_coins. Qed.
Print Assumptions C03_chk_sound_coins.

(* ---- non-vacuity: an accepted claim by the owner, the same claim by a stranger rejected *)
Example C03_nonvacuous_claim :
  exists s', exec h_claim_undelegation (mkMsg [1] [] [7] [] [true]) w_state_undel = Ok s'
             /\ bal s' 1 "ukex" = 1500 /\ claims s' = [].
Proof. exact nonvacuous_claim. Qed.
Example C03_nonvacuous_rejected :
  exec h_claim_undelegation w_msg_undel w_state_undel = Err "not owner".
Proof. exact nonvacuous_rejected. Qed.
