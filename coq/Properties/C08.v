(* C08 -- A proposal takes effect only if it passed, exactly once, and atomically.
   Only statements, each closed by [exact] of a lemma from Proofs/, and its assumptions.

   [run P ops (init a)] is the state after an arbitrary history [ops] of submit / vote / end-block
   (with arbitrary block time and height) / other state edits, started from an arbitrary
   application state [a]; [P] bundles the parameters of the lifecycle (permission oracles, network
   properties, content handlers, tally decision) and is universally quantified.  The ghost [log]
   (newest first) records every submission, accepted vote, finalisation and handler application;
   [l1 ++ e :: l2] splits it into what happened after [e] and before [e]. *)
From Sekai Require Import Base.Prelude Base.Dec Gen.GovHandlers Model.Gov Model.GovWorld Model.C08Check
  Proofs.Gov Proofs.C08Check Model.F32Tally Proofs.F32Tally.
Arguments submit_of {A content}. Arguments final_of {A content}. Arguments n_applied {A content}.
Arguments n_final {A content}. Arguments votes_of {A content}. Arguments same_static {content}.
Arguments run {A content ext}. Arguments vote {A content ext}. Arguments process_enact {A content ext}.
Arguments step {A content ext}. Arguments step_total {A content ext}.

(* ---- applied only if it passed: voting window closed (time AND height), quorum, decision Passed *)
Theorem C08_applied_only_if_passed :
  forall A content ext (P : params A content ext) ops a id ok c a1 a2 l1 l2,
  (forall t, decide P t <> Enactment) ->
  log (run P ops (init a)) = l1 ++ EvApply id ok c a1 a2 :: l2 ->
  exists p tl cf af l3 l4,
    l2 = l3 ++ EvFinal id Enactment tl (nvoters P af (p_content p)) (quorum_of P af (p_content p))
                       (height cf + min_enact_blocks P af) cf af :: l4
    /\ submit_of id l4 = Some p
    /\ p_vend p <= now cf /\ p_minv p <= height cf
    /\ tl = tally_of (votes_of id l4) (nveto P af (p_content p))
    /\ is_quorum (quorum_of P af (p_content p)) (t_total tl) (nvoters P af (p_content p)) = Ok true
    /\ decide P tl = Passed.
Proof. exact applied_only_if_passed. Qed.
Print Assumptions C08_applied_only_if_passed.

(* an inconsistent tally (types.IsQuorum reports an error: more votes than eligible voters because a
   voter lost the permission after voting, or a quorum above 1) with the repaired end blocker
   ([quorum_error_panics P = false], read from x/gov/abci.go): the proposal is finalised as
   quorum-not-reached and is never applied.  (With the earlier shape the end blocker panicked:
   nothing was finalised or applied either, the block was lost -- property C06.) *)
Theorem C08_inconsistent_tally_not_applied :
  forall A content ext (P : params A content ext) ops a id res tl nv q mine c af e,
  quorum_error_panics P = false ->
  final_of id (log (run P ops (init a))) = Some (res, tl, nv, q, mine, c, af) ->
  is_quorum q (t_total tl) nv = Err e ->
  res = QuorumNotReached /\ n_applied id (log (run P ops (init a))) = O.
Proof. exact inconsistent_tally_not_applied. Qed.
Print Assumptions C08_inconsistent_tally_not_applied.

(* the quorum test is exact: votes >= quorum * eligible voters, and never more votes than voters *)
Theorem C08_quorum_exact : forall q v n b, is_quorum q v n = Ok b ->
  v <= n /\ q <= PREC /\ b = (n * q <=? v * PREC).
Proof. exact is_quorum_exact. Qed.
Print Assumptions C08_quorum_exact.

(* the decision rule (rational form): yes > half of the votes cast, veto < half of the veto-capable voters *)
Theorem C08_tally_rule : forall t, 0 <= t_yes t <= t_total t ->
  decide_q t = Passed <->
  (2 * t_yes t > t_total t /\ (t_vcap t = 0 \/ 2 * t_veto t < t_vcap t)).
Proof. exact decide_q_passed_iff. Qed.
Print Assumptions C08_tally_rule.

Theorem C08_tally_of_wellformed : forall vs vcap, 0 <= t_yes (tally_of vs vcap) <= t_total (tally_of vs vcap).
Proof. exact tally_of_wf. Qed.
Print Assumptions C08_tally_of_wellformed.

(* ---- exactly once: at most one application and one finalisation per proposal, in every history *)
Theorem C08_applied_at_most_once :
  forall A content ext (P : params A content ext) ops a id, (n_applied id (log (run P ops (init a))) <= 1)%nat.
Proof. exact applied_at_most_once. Qed.
Print Assumptions C08_applied_at_most_once.

Theorem C08_finalised_at_most_once :
  forall A content ext (P : params A content ext) ops a id, (n_final id (log (run P ops (init a))) <= 1)%nat.
Proof. exact finalised_at_most_once. Qed.
Print Assumptions C08_finalised_at_most_once.

(* ---- after the enactment delay: enactment end time reached AND MinProposalEnactmentBlocks after the tally *)
Theorem C08_applied_not_before_enactment :
  forall A content ext (P : params A content ext) ops a id ok c a1 a2 l1 l2,
  log (run P ops (init a)) = l1 ++ EvApply id ok c a1 a2 :: l2 ->
  exists p res tl nv q cf af,
    submit_of id l2 = Some p
    /\ final_of id l2 = Some (res, tl, nv, q, height cf + min_enact_blocks P af, cf, af)
    /\ p_eend p <= now c
    /\ height cf + min_enact_blocks P af <= height c.
Proof. exact applied_not_before_enactment. Qed.
Print Assumptions C08_applied_not_before_enactment.

(* ---- atomically: the state after an application is the handler's complete result, or unchanged *)
Theorem C08_apply_atomic :
  forall A content ext (P : params A content ext) ops a id ok c a1 a2 l1 l2,
  log (run P ops (init a)) = l1 ++ EvApply id ok c a1 a2 :: l2 ->
  exists p, submit_of id l2 = Some p
    /\ (if ok then handler P (p_content p) a1 = Ok a2
        else a2 = a1 /\ exists m, handler P (p_content p) a1 = Err m).
Proof. exact apply_atomic. Qed.
Print Assumptions C08_apply_atomic.

Theorem C08_enact_step_atomic :
  forall A content ext (P : params A content ext) c id s s', process_enact P c id s = Ok s' ->
  app s' = app s \/ exists p, props s id = Some p /\ p_result p = Enactment /\ handler P (p_content p) (app s) = Ok (app s').
Proof. exact enact_step_atomic. Qed.
Print Assumptions C08_enact_step_atomic.

(* "completely": each modelled handler, when it reports success, has produced the whole effect of its
   content.  The error branch of the durations handler is read from the source on every run
   (Gen/GovHandlers.v, [durations_error_returned]); for the tree as it is the statement holds at
   full strength.  [_refuted] documents the earlier `return nil` shape (flag false), for which the
   statement fails; [_partial] is what holds whatever the flag. *)
Theorem C08_handler_success_is_full_effect : forall ct w w',
  c_handler durations_error_returned ct w = Ok w' -> w' = spec_effect ct w.
Proof. exact handler_success_is_full_effect_now. Qed.
Print Assumptions C08_handler_success_is_full_effect.

Theorem C08_handler_success_is_full_effect_refuted :
  exists l w w', c_handler false (CDurations l) w = Ok w' /\ w' <> spec_effect (CDurations l) w.
Proof. exact durations_all_or_nothing_refuted. Qed.
Print Assumptions C08_handler_success_is_full_effect_refuted.

Theorem C08_handler_success_is_full_effect_partial : forall flag ct w w',
  (flag = true \/ match ct with CDurations l => forallb (fun e => n_endtime (w_np w) <=? snd e) l = true | _ => True end) ->
  c_handler flag ct w = Ok w' -> w' = spec_effect ct w.
Proof. exact handler_success_is_full_effect. Qed.
Print Assumptions C08_handler_success_is_full_effect_partial.

(* ---- votes *)
Theorem C08_late_vote_rejected :
  forall A content ext (P : params A content ext) c who id opt s p,
  props s id = Some p -> p_vend p < now c -> exists e, vote P c who id opt s = Err e.
Proof. exact late_vote_rejected. Qed.
Print Assumptions C08_late_vote_rejected.

Theorem C08_vote_needs_permission_now :
  forall A content ext (P : params A content ext) c who id opt s,
  (is_active P (app s) who = false \/ exists p, props s id = Some p /\ has_vote_perm P (app s) who (p_content p) = false) ->
  exists e, vote P c who id opt s = Err e.
Proof. exact vote_needs_permission_now. Qed.
Print Assumptions C08_vote_needs_permission_now.

Theorem C08_rejected_changes_nothing :
  forall A content ext (P : params A content ext) s c o, (forall s', step P c o s <> Ok s') -> step_total P s (c, o) = s.
Proof. exact rejected_changes_nothing. Qed.
Print Assumptions C08_rejected_changes_nothing.

(* every vote that is ever counted was cast before the end, by an active holder of the permission *)
Theorem C08_counted_votes_were_admissible :
  forall A content ext (P : params A content ext) ops a id who opt c a1 l1 l2,
  log (run P ops (init a)) = l1 ++ EvVote id who opt c a1 :: l2 ->
  exists p, submit_of id l2 = Some p /\ now c <= p_vend p
            /\ is_active P a1 who = true /\ has_vote_perm P a1 who (p_content p) = true.
Proof. exact counted_votes_were_admissible. Qed.
Print Assumptions C08_counted_votes_were_admissible.

Theorem C08_revote_replaces :
  forall A content ext (P : params A content ext) c who id opt s s', vote P c who id opt s = Ok s' ->
  get_vote who (votes s' id) = Some opt
  /\ filter (fun v => fst v =? who) (votes s' id) = [(who, opt)]
  /\ (forall w, w <> who -> get_vote w (votes s' id) = get_vote w (votes s id))
  /\ (forall j, j <> id -> votes s' j = votes s j)
  /\ props s' = props s /\ app s' = app s.
Proof. exact revote_replaces. Qed.
Print Assumptions C08_revote_replaces.

Theorem C08_tally_uses_votes_in_force :
  forall A content ext (P : params A content ext) ops a id,
  votes (run P ops (init a)) id = votes_of id (log (run P ops (init a))).
Proof. exact state_votes_are_log_votes. Qed.
Print Assumptions C08_tally_uses_votes_in_force.

(* ---- a finalised result never changes (except Enactment -> Passed when it is applied) *)
Theorem C08_result_final :
  forall A content ext (P : params A content ext) ops1 ops2 a id p,
  props (run P ops1 (init a)) id = Some p -> p_result p <> Pending ->
  exists p', props (run P (ops1 ++ ops2) (init a)) id = Some p' /\ same_static p' p
             /\ (p_result p' = p_result p \/ (p_result p = Enactment /\ p_result p' = Passed)).
Proof. exact result_final. Qed.
Print Assumptions C08_result_final.

(* the hypothesis of C08_applied_only_if_passed holds for the rational decision function *)
Theorem C08_decision_in_range : forall t, decide_q t <> Enactment /\ decide_q t <> Pending.
Proof. exact decide_q_range. Qed.
Print Assumptions C08_decision_in_range.

(* ---- non-vacuity: in the instantiated model a proposal is submitted, voted (a re-vote replaces
   the earlier vote), finalised at its end time, and applied exactly once after the delay *)
Example C08_nonvacuous :
  n_applied 1 (log demo_final) = 1%nat
  /\ get_ix 1 (w_reg (app demo_final)) = 7
  /\ option_map (fun p => vresult_code (p_result p)) (props demo_final 1) = Some 1
  /\ votes demo_final 1 = [(0, 1)].
Proof. exact demo_applied_once. Qed.

(* ---- the vote store is rewritten by other modules: address rotation (x/recovery).  In the model the
   votes in force follow the PERSON ([votes_of] renames at [EvRotate]); every tally, quorum and
   "applied only if passed" statement above is about those votes.  A rotation moves exactly one vote: *)
Theorem C08_rotation_moves_the_vote : forall old new vs o, old <> new -> get_vote old vs = Some o ->
  get_vote new (rename_vote old new vs) = Some o /\ get_vote old (rename_vote old new vs) = None.
Proof. exact rename_vote_moves. Qed.
Print Assumptions C08_rotation_moves_the_vote.

Theorem C08_one_vote_per_person :
  forall A content id (l : list (event A content)), NoDup (map fst (votes_of id l)).
Proof. exact votes_of_nodup. Qed.
Print Assumptions C08_one_vote_per_person.

(* every writer of proposals / votes / queues in the tree is a known one (table regenerated on every run) *)
Theorem C08_lifecycle_writers_pinned : lifecycle_writers = pinned_writers.
Proof. exact lifecycle_writers_pinned. Qed.
Print Assumptions C08_lifecycle_writers_pinned.

(* no registered proposal handler (of any module) swallows an error of one of its steps: table regenerated from
   app.go + the handlers' sources on every run; a new `if err != nil { log; continue }` breaks this *)
Theorem C08_handler_error_shapes_pinned : handler_error_shapes = pinned_handler_shapes.
Proof. exact handler_error_shapes_pinned. Qed.
Print Assumptions C08_handler_error_shapes_pinned.

(* every dynamic-voter handler takes quorum / voting period / enactment delay from the like-named field of its object *)
Theorem C08_dynamic_param_sources_pinned : dynamic_param_sources = pinned_dynamic_param_sources.
Proof. exact dynamic_param_sources_pinned. Qed.
Print Assumptions C08_dynamic_param_sources_pinned.

(* ---- chk_sound: the spec checker (Model/C08Check.v) applied to REAL observations decides with
   functions that agree with the model's oracles, and the clauses it evaluates at a finalisation,
   an application and an accepted vote hold in EVERY run of the instantiated model ([cP] = the
   parameters read from the tree).  The checker's ELIGIBLE electorate is the holders (individually or via a
   role) that are not blacklisted -- never more than what the code enumerates; the finalisation theorem assumes that no
   veto-capable holder is blacklisted (otherwise the code counts more veto-capable voters than the checker).  Not covered: the checker's bookkeeping across a whole trace
   (ck_run) and the veto clause for dynamic-voter contents, where the model follows the code and the
   checker the property text (known finding passed_despite_veto:dynamic_voter_proposal). *)
Theorem C08_chk_sound_oracles : forall w who ct,
  fst (spec_window w ct) = w_end_secs w ct /\ snd (spec_window w ct) = w_enact_secs w ct
  /\ spec_quorum w ct = w_quorum w ct
  /\ may_vote w who ct = w_is_active w who && w_can w who (vote_perm ct) ct
  /\ ((vote_perm ct =? 0) = false -> holders_count w ct = w_nvoters w ct /\ (forall f, holders_veto w ct = w_nveto f w ct))
  /\ ((vote_perm ct =? 0) = false -> eligible w ct <= holders_count w ct).
Proof.
  exact (fun w who ct => conj (proj1 (chk_window_matches w ct)) (conj (proj2 (chk_window_matches w ct))
           (conj (chk_quorum_matches w ct) (conj (chk_may_vote_matches w who ct) (conj (chk_electorate_matches w ct) (chk_eligible_le_holders w ct)))))).
Qed.
Print Assumptions C08_chk_sound_oracles.

Theorem C08_chk_sound_finalisation : forall w0 ops id tl nv q mine cf af l1 l2 p,
  log (run cP ops (init w0)) = l1 ++ EvFinal id Enactment tl nv q mine cf af :: l2 ->
  submit_of id l2 = Some p -> (vote_perm (p_content p) =? 0) = false ->
  0 <= n_quorum (w_np af) -> veto_capable af (p_content p) = holders_veto af (p_content p) ->
  (p_vend p <=? now cf) && (p_minv p <=? height cf) = true
  /\ pass_clauses af (mkR id (p_content p) (p_vend p) (p_eend p) (p_minv p) 4 None 0 (sort_votes (votes_of id l2))) = [].
Proof. exact chk_sound_finalisation. Qed.
Print Assumptions C08_chk_sound_finalisation.

Theorem C08_chk_sound_application : forall w0 ops id ok c a1 a2 l1 l2,
  log (run cP ops (init w0)) = l1 ++ EvApply id ok c a1 a2 :: l2 ->
  exists p res tl nv q cf af,
    submit_of id l2 = Some p
    /\ final_of id l2 = Some (res, tl, nv, q, height cf + n_enactblocks (w_np af), cf, af)
    /\ (p_eend p <=? now c) = true
    /\ (height cf + n_enactblocks (w_np af) <=? height c) = true
    /\ n_applied id l2 = O
    /\ (ok = true -> a2 = spec_effect (p_content p) a1)
    /\ (ok = false -> a2 = a1).
Proof. exact chk_sound_application. Qed.
Print Assumptions C08_chk_sound_application.

Theorem C08_chk_sound_vote : forall w0 ops id who opt c a1 l1 l2,
  log (run cP ops (init w0)) = l1 ++ EvVote id who opt c a1 :: l2 ->
  exists p, submit_of id l2 = Some p /\ (now c <=? p_vend p) = true /\ may_vote a1 who (p_content p) = true.
Proof. exact chk_sound_vote. Qed.
Print Assumptions C08_chk_sound_vote.

(* ---- the float32 tally of the code (Flocq binary32).  These four theorems alone depend on the four
   standard-library axioms of the Reals. *)
(* "the float32 decision equals the exact rule" fails from 2^24 voters on: 16777216 yes of 33554431
   is more than half, but not in float32 (the error is on the safe side: a proposal fails to pass) *)
Theorem C08_tally_float_exact_refuted :
  exists t, 0 <= t_yes t <= t_total t /\ decide_q t = Passed /\ decide_f32 t <> Passed.
Proof. exact decide_f32_refuted. Qed.
Print Assumptions C08_tally_float_exact_refuted.

(* it holds for every tally of fewer than 256 voters (verified sweep over all numerators) *)
Theorem C08_tally_float_exact_partial : forall t,
  0 <= t_yes t -> 0 <= t_no t -> 0 <= t_abstain t -> 0 <= t_veto t -> 0 <= t_vcap t < 256 ->
  t_yes t + t_no t + t_abstain t + t_veto t <= t_total t < 256 -> decide_f32 t = decide_q t.
Proof. exact decide_f32_exact_partial. Qed.
Print Assumptions C08_tally_float_exact_partial.

(* the two numerators around one half are decided exactly for the 2000 largest totals below 2^24 *)
Theorem C08_tally_float_boundary_below_2p24 : boundary_ok = true.
Proof. exact boundary_ok_true. Qed.
Print Assumptions C08_tally_float_boundary_below_2p24.

(* the float32 decision is never Enactment / Pending (hypothesis of C08_applied_only_if_passed) *)
Theorem C08_float_decision_in_range : forall t, decide_f32 t <> Enactment /\ decide_f32 t <> Pending.
Proof. exact decide_f32_range. Qed.
Print Assumptions C08_float_decision_in_range.
