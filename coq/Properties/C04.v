(* C04 -- Supply is conserved and every module can pay what it owes.
   Only statements, each closed by [exact] of a lemma of Proofs/LedgerInv.v, and its assumptions.
   The mint/burn call sites and the module-account permissions are REGENERATED from the source
   tree on every run (Gen/MintBurnSites.v). *)
From Sekai Require Import Base.Prelude Base.Dec Gen.MintBurnSites Model.LedgerInv Model.C04Check Proofs.LedgerInv.

(* After every history of transactions (fee kept, messages atomic, failed ones rolled back) and
   block-level actions, from any funded genesis: the total supply of each denomination equals the
   sum of all balances, and no balance is negative.  No side condition on the operations. *)
Theorem C04_supply_is_sum : forall g h, good_genesis g ->
  let s := run h (genesis g) in supply_ok s /\ nonneg s.
Proof. exact supply_is_sum_run. Qed.
Print Assumptions C04_supply_is_sum.

(* [total] is the sum of the balances of all accounts (any duplicate-free list covering them) *)
Theorem C04_total_is_sum_over_accounts : forall s U d, NoDup U -> (forall a, In a (accounts_of s) -> In a U) ->
  sum_bal s U d = total s d.
Proof. exact sum_over_accounts. Qed.
Print Assumptions C04_total_is_sum_over_accounts.

(* every primitive (send, mint, burn, record update) preserves supply = sum of balances *)
Theorem C04_every_primitive_conserves : forall es s s', apply_effs es s = Some s' -> supply_ok s -> supply_ok s'.
Proof. exact apply_effs_supply_ok. Qed.
Print Assumptions C04_every_primitive_conserves.

(* coins appear / disappear only through mint and burn: the supply moves exactly by the mint and
   burn effects of the operation, and those need the Minter / Burner permission *)
Theorem C04_supply_moves_only_by_mint_burn : forall es s s', apply_effs es s = Some s' ->
  (forall a d, bal s' a d = effs_bal es a d + bal s a d) /\
  (forall d, supply s' d = effs_sup es d + supply s d) /\
  (forall d, total s' d = effs_sup es d + total s d) /\
  (forall m d, liab s' m d = effs_liab es m d + liab s m d).
Proof. exact apply_effs_deltas. Qed.
Print Assumptions C04_supply_moves_only_by_mint_burn.

(* FULL STATEMENT: every module / escrow account holds at least the liabilities recorded against it,
   after every history.  REFUTED by the faithful model: the reward credit of IncreasePoolRewards
   rounds per staked denomination and can credit more than was allocated. *)
Theorem C04_every_module_solvent_refuted :
  exists g h, good_genesis g /\ ~ all_solvent (run h (genesis g)).
Proof.
  exists g0, h_round. destruct solvent_refuted_witness as (G & L & B). split; [exact G|].
  intro A. specialize (A FC eq_refl 0). unfold solvent in A. rewrite L, B in A. lia.
Qed.
Print Assumptions C04_every_module_solvent_refuted.

(* ... and it holds for every history in which no reward credit exceeds its allocation
   ([item_safe] excludes exactly those credits): multistaking (staked + pending undelegations),
   basket (reserves + surplus), spending pools, identity tips, fee collector (unclaimed rewards),
   and the generic escrow books (dApp bonds, collective bonds and donations, recovery backing). *)
Theorem C04_every_module_solvent_guarded : forall g h, good_genesis g -> forallb item_safe h = true ->
  all_solvent (run h (genesis g)).
Proof. exact solvent_run. Qed.
Print Assumptions C04_every_module_solvent_guarded.

(* one operation: preserved by the module's own operations and framed by all the others *)
Theorem C04_operation_preserves_solvency : forall o s s' m, exec o s = Some s' -> op_safe o = true ->
  is_escrow m = true -> solvent m s -> solvent m s'.
Proof. exact exec_solvent. Qed.
Print Assumptions C04_operation_preserves_solvency.

Theorem C04_frame : forall es s s' m, apply_effs es s = Some s' ->
  (forall d, effs_bal es m d = 0 /\ effs_liab es m d = 0) ->
  forall d, bal s' m d = bal s m d /\ liab s' m d = liab s m d.
Proof. exact frame_untouched. Qed.
Print Assumptions C04_frame.

(* failed messages and failed proposals roll back books and coins together *)
Theorem C04_failed_action_changes_nothing : forall ops s, exec_all ops s = None -> step s (IAct ops) = s.
Proof. exact failed_action_unchanged. Qed.
Print Assumptions C04_failed_action_changes_nothing.
Theorem C04_failed_tx_keeps_only_fee : forall u fd fx msgs s s1,
  exec (PayFee u fd fx) s = Some s1 -> exec_all msgs s1 = None -> step s (ITx u fd fx msgs) = s1.
Proof. exact failed_tx_keeps_only_fee. Qed.
Print Assumptions C04_failed_tx_keeps_only_fee.

(* the reward credit: bounded by the allocation plus half a unit per staked denomination ... *)
Theorem C04_reward_credit_bound : forall caps r, 0 <= r -> Forall (fun c => 0 <= c) caps ->
  2 * PREC * credited r caps <= 2 * r * zsum caps + PREC * Z.of_nat (List.length caps).
Proof. exact credited_bound. Qed.
Print Assumptions C04_reward_credit_bound.
(* ... and "never more than allocated" is refuted (stake caps summing to 1) *)
Theorem C04_reward_credit_within_allocation_refuted :
  exists r caps, zsum caps = dec_one /\ credited r caps > r.
Proof. exists 3, [HALF; HALF]. split; vm_compute; reflexivity. Qed.
Print Assumptions C04_reward_credit_within_allocation_refuted.

(* share tokens, REPAIRED redemption (GetRedeemPoolCoins, ceil(amount*shares/stake); the translator reads
   from the source which rule the tree uses).  FULL STRENGTH, any state, slashed or not: however the share
   supply is split into holdings and whatever each holder redeems within his holding, the redemptions
   together never exceed the stake; and a redemption never raises the shares-per-stake ratio. *)
Theorem C04_shares_redeemable : forall s, shares_redeemable_pro_rata s.
Proof. exact shares_redeemable_pro_rata_all. Qed.
Print Assumptions C04_shares_redeemable.
Theorem C04_redemption_never_dilutes : forall S K x, 0 < K -> (S - redeem_burn S K x) * K <= S * (K - x).
Proof. exact redeem_no_dilution. Qed.
Print Assumptions C04_redemption_never_dilutes.
(* the state that refutes the old rule below (100 shares, 50 staked after the slash): under the repaired rule
   100 shares redeem exactly the 50 that are staked *)
Example C04_shares_redeemable_after_slash :
  let s := run h_slash (genesis g0) in
  redeem_burn (supply s (share 1 0)) (book s MS K_STAKED 1 0) 50 = 100 /\
  redeem_burn (supply s (share 1 0)) (book s MS K_STAKED 1 0) 51 = 102.
Proof. vm_compute. split; reflexivity. Qed.

(* OLD redemption rule (GetPoolCoins, amount*(1-slashed)).  FULL STATEMENT: everything the outstanding share
   tokens can redeem under that rule is staked.  REFUTED after a slash (100 shares redeem 200, 50 are staked) ... *)
Theorem C04_shares_redeemable_refuted :
  exists g h, good_genesis g /\ all_solvent (run h (genesis g)) /\ ~ shares_redeemable (run h (genesis g)).
Proof.
  exists g0, h_slash. destruct solvent_refuted_witness as (G & _). split; [exact G|].
  split; [apply solvent_run; [exact G | vm_compute; reflexivity]|].
  destruct slash_witness as (S & B & P & _). intro R.
  specialize (R 1 0 200 ltac:(lia) ltac:(lia) ltac:(lia)). rewrite P, S, B in R. specialize (R ltac:(lia)). lia.
Qed.
Print Assumptions C04_shares_redeemable_refuted.
(* ... and it holds (share supply = staked tokens, every share redeemable) while no pool is slashed *)
Theorem C04_shares_match_unslashed : forall g h, native_genesis g -> forallb item_no_slash h = true ->
  let s := run h (genesis g) in unslashed s /\ shares_match s.
Proof. exact shares_match_run. Qed.
Print Assumptions C04_shares_match_unslashed.
Theorem C04_unslashed_shares_redeemable : forall s, unslashed s -> shares_match s -> shares_redeemable s.
Proof. exact pool_coin_mono_unslashed. Qed.
Print Assumptions C04_unslashed_shares_redeemable.

(* every MintCoins/BurnCoins call site of the tree is one of the sanctioned operations, goes to a
   module account that carries the Minter/Burner permission in app/app.go, and the model's
   permission table is the generated one *)
Theorem C04_mint_burn_sanctioned :
  mb_gen_errors = [] /\ perms_agree = true /\
  forall s, In s mb_sites -> In s sanctioned_sites /\ site_has_perm s = true.
Proof. exact mint_burn_sites_ok. Qed.
Print Assumptions C04_mint_burn_sanctioned.

(* the spec checker run on the real observations tests the model's own quantities *)
Theorem C04_checker_reads_model : forall o a m d,
  obal o a d = bal (to_state o) a d /\ osup o d = supply (to_state o) d /\
  osum o d = total (to_state o) d /\ oliab o m d = liab (to_state o) m d.
Proof. exact checker_reads_model. Qed.
Print Assumptions C04_checker_reads_model.

(* proposal pay-outs with several payees and denominations (SpendingPoolWithdraw, SpendingPoolDistribution,
   claims at the pool's rates): what leaves the account is exactly what leaves the records, per payee *)
Theorem C04_multi_payee_payout_matches_books : forall m0 k i pays m d, is_escrow m = true -> pays_ok pays = true ->
  effs_liab (pay_effs m0 k i pays) m d = effs_bal (pay_effs m0 k i pays) m d.
Proof. exact pay_balanced. Qed.
Print Assumptions C04_multi_payee_payout_matches_books.

(* basket mint / burn with the code's own arithmetic (amount minted, portion of the reserves paid out) *)
Theorem C04_basket_burn_balanced : forall u b t outs m d, is_user u = true -> is_escrow m = true ->
  forallb (fun o => 0 <=? snd o) outs = true ->
  effs_liab (bkburn_effs u b t outs) m d <= effs_bal (bkburn_effs u b t outs) m d.
Proof. exact bkburn_balanced. Qed.
Print Assumptions C04_basket_burn_balanced.

(* non-vacuity: a history exercising delegation, undelegation, a basket, a spending pool and a tip
   that ends in a solvent state with non-trivial books *)
Example C04_nonvacuous :
  let h := [ITx 100 0 10 [MsDelegate 100 1 0 500; SpDeposit 100 7 0 40];
            ITx 100 0 10 [MsUndelegate 100 1 0 200 1; TipRequest 100 3 0 25; BkMint 100 2 1 300 300];
            IAct [Inflate 0 90; MsAllocate 100 0 50 [HALF]];
            ITx 100 0 10 [MsClaimUndel 100 1 0; SpClaim 100 7 0 15; BkSwap 100 2 0 100 1 1 50 2]] in
  let s := run h (genesis g0) in
  forallb item_safe h = true /\ liab s MS 0 = 300 /\ bal s MS 0 = 300 /\ liab s FC 0 = 25 /\ bal s FC 0 = 120 /\
  liab s BASKET 1 = 252 /\ liab s BASKET 0 = 100 /\ liab s SPEND 0 = 25 /\ liab s GOV 0 = 25 /\ supply s 0 = 1090.
Proof. vm_compute. repeat split; reflexivity. Qed.

(* non-vacuity of the round-2 operations: a withdraw proposal paying two beneficiaries two denominations,
   rate-based claims of two beneficiaries, a two-token basket mint and a burn at the code's portion *)
Example C04_nonvacuous_proposals :
  let h := [ITx 100 0 10 [SpDeposit 100 7 0 5000; SpDeposit 100 7 1 700; BkMintC 100 2 [(1, 300, 2 * PREC); (0, 100, PREC)]];
            IAct [SpWithdrawProp 7 [101; 102] [(0, 1000); (1, 100)]];
            IAct [SpClaims 7 [(0, HALF); (1, PREC / 10)] [(101, 100, PREC); (102, 60, 2 * PREC)]];
            ITx 100 0 10 [BkBurnC 100 2 200 [0; 1]]] in
  let s := run h (genesis [(100, 0, 100000); (100, 1, 100000)]) in
  forallb item_safe h = true /\ liab s SPEND 0 = 2890 /\ bal s SPEND 0 = 2890 /\ liab s SPEND 1 = 478 /\ bal s SPEND 1 = 478 /\
  bal s 101 0 = 1050 /\ bal s 102 1 = 112 /\ supply s (basket_denom 2) = 500 /\ liab s BASKET 1 = 180 /\ bal s BASKET 1 = 180.
Proof. vm_compute. repeat split; reflexivity. Qed.
