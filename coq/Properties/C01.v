(* C01 -- Replicated execution is deterministic.
   PARTIAL by nature: the theorems below are about (a) the table of nondeterminism sources that the
   translator gen_nondet extracts from /repo's Go source on every run (Gen/NondetSites.v), and
   (b) the executable model of Model/Determinism.v, whose environment-consulting sites are switched
   on exactly where the translator finds them.  Scheduling / host independence of the Go runtime,
   IAVL, baseapp and CometBFT is OBSERVED by the replica harness (k independently started
   applications compared after every block), not proved. *)
From Sekai Require Import Base.Prelude Gen.NondetSites Model.Determinism Model.C01Check Proofs.Determinism.

(* ---------------------------------------------------------------- the audited site table (pinned) *)
Definition sz : string := "sum of the entry sizes: commutative, only sizes the buffer".
Definition tele : string := "defer telemetry.ModuleMeasureSince(module, time.Now(), ...): metrics only, never reaches state, events or responses".
Definition simu : string := "AppModule.RandomizedParams: simulation interface, never called by the ABCI application".
Definition qry : string := "gRPC query response type: encoded for the client, never stored or hashed".
Definition gjs : string := "gov GenesisState is encoded as JSON only (export-genesis, keys sorted by jsonpb); the binary form is never stored".

Definition wire : string := "wiring-time setter: called from app.NewInitApp only (or not at all), before the first block; never from a handler".

Definition stdt : string := "the value is only compared or stored through protobuf stdtime (seconds + nanoseconds since the epoch): its zone never reaches a store byte".
Definition logm : string := "rendered into a log line / the halt panic message of this node only; never stored, hashed or returned in a response".

Definition audited_sites : list audit := [
  mkAudit "x/evidence/keeper/keeper.go" "Keeper.SetRouter" KProcState "keeper.Keeper.router" 1 "378ab6d753963e50" (Harmless wire);
  mkAudit "x/evidence/types/router.go" "router.AddRoute" KProcState "types.router.routes" 1 "9eb96501a363d414" (Harmless wire);
  mkAudit "x/evidence/types/router.go" "router.Seal" KProcState "types.router.sealed" 1 "94a56912066252fc" (Harmless wire);
  mkAudit "x/gov/keeper/keeper.go" "Keeper.SetProposalRouter" KProcState "keeper.Keeper.proposalRouter" 1 "9676b88d7cdb7f14" (Harmless wire);
  mkAudit "x/multistaking/keeper/keeper.go" "Keeper.SetDistrKeeper" KProcState "keeper.Keeper.distrKeeper" 1 "906842565e6cf3c7" (Harmless wire);
  mkAudit "x/multistaking/keeper/keeper.go" "Keeper.SetHooks" KProcState "keeper.Keeper.hooks" 1 "230f5ddc26d1b4d8" (Harmless wire);
  mkAudit "x/slashing/keeper/keeper.go" "Keeper.SetHooks" KProcState "keeper.Keeper.hooks" 1 "300fe436c6e37b5f" (Harmless wire);
  mkAudit "x/staking/keeper/keeper.go" "Keeper.SetHooks" KProcState "keeper.Keeper.hooks" 1 "1d8a50ca33095404" (Harmless wire);
  mkAudit "x/upgrade/keeper/keeper.go" "Keeper.SetUpgradeHandler" KProcState "keeper.Keeper.upgradeHandlers" 1 "f9fb1bdfcc72eecc" (Harmless wire);
  mkAudit "x/basket/module.go" "AppModule.InitGenesis" KLocalTime "time.Unix" 3 "3e77d475e160b49f" (Harmless "the local-zone value only reaches keeper.Set{Mint,Burn,Swap}Amount, whose store keys are built with sdk.FormatTimeBytes (= t.UTC().Round(0).Format): the zone is dropped; replica with another host zone imports such a genesis (history genesis-time-keyed)");
  mkAudit "x/evidence/types/params.go" "<pkg>" KLocalTime "time.Unix" 1 "7a8bcc1e725e8e77" (Harmless stdt);
  mkAudit "x/slashing/keeper/hooks.go" "Keeper.AfterValidatorJoined" KLocalTime "time.Unix" 1 "fa636b2d101b28fb" (Harmless stdt);
  mkAudit "x/slashing/keeper/rank.go" "Keeper.ResetWholeValidatorRank" KLocalTime "time.Unix" 1 "2ac869a2feb5a9bf" (Harmless stdt);
  mkAudit "x/upgrade/abci.go" "BeginBlocker" KLocalTime "Time.String" 1 "615f43305dc7cfbc" (Harmless logm);
  mkAudit "x/upgrade/abci.go" "BeginBlocker" KLocalTime "time.Unix" 1 "615f43305dc7cfbc" (Harmless logm);
  mkAudit "x/upgrade/keeper/plan.go" "Keeper.ApplyUpgradePlan" KLocalTime "Time.String" 1 "b0920dd7294ac8fd" (Harmless logm);
  mkAudit "x/upgrade/keeper/plan.go" "Keeper.ApplyUpgradePlan" KLocalTime "time.Unix" 1 "b0920dd7294ac8fd" (Harmless logm);
  mkAudit "x/recovery/keeper/msg_server.go" "msgServer.RotateRecoveryAddress" KMapRange "txPool.Record" 1 "d8a0ee622a51f525" (Harmless "each pooled record is rewritten in place (FromAddress old -> new) independently of the others: no store write, event, early exit or accumulation inside the loop (commit 6727d50); Keeper.RotateCustodyVotes called next iterates a KV-store prefix (ordered), collects the keys, then rewrites them");
  mkAudit "app/app.go" "BlockedAddresses" KMapRange "GetMaccPerms()" 1 "c24df54ec78ba238" (Harmless "fills a membership map");
  mkAudit "app/app.go" "GetMaccPerms" KMapRange "maccPerms" 1 "65321bf763126ecf" (Harmless "copies a map into a map");
  mkAudit "app/app.go" "SekaiApp.ModuleAccountAddrs" KMapRange "maccPerms" 1 "ae662819fb7c73d2" (Harmless "fills a membership map");
  mkAudit "x/custody/types/custody.pb.go" "CustodyCustodianList.MarshalToSizedBuffer" KPbMap "m.Addresses" 1 "4c90db94ad289401" (Finding "custody-map-encoding");
  mkAudit "x/custody/types/custody.pb.go" "CustodyCustodianList.Size" KMapRange "m.Addresses" 1 "cb118c4722434560" (Harmless sz);
  mkAudit "x/custody/types/custody.pb.go" "CustodyLimits.MarshalToSizedBuffer" KPbMap "m.Limits" 1 "431e558994d29c00" (Finding "custody-map-encoding");
  mkAudit "x/custody/types/custody.pb.go" "CustodyLimits.Size" KMapRange "m.Limits" 1 "4c76728952e86f8e" (Harmless sz);
  mkAudit "x/custody/types/custody.pb.go" "CustodyStatuses.MarshalToSizedBuffer" KPbMap "m.Statuses" 1 "e765423000a7b13b" (Finding "custody-map-encoding");
  mkAudit "x/custody/types/custody.pb.go" "CustodyStatuses.Size" KMapRange "m.Statuses" 1 "71b0ea2078b85aea" (Harmless sz);
  mkAudit "x/custody/types/custody.pb.go" "CustodyWhiteList.MarshalToSizedBuffer" KPbMap "m.Addresses" 1 "ec1b661e6cf5563f" (Finding "custody-map-encoding");
  mkAudit "x/custody/types/custody.pb.go" "CustodyWhiteList.Size" KMapRange "m.Addresses" 1 "10abca0148c9a33b" (Harmless sz);
  mkAudit "x/custody/types/tx.pb.go" "TransactionPool.MarshalToSizedBuffer" KPbMap "m.Record" 1 "ade808ea2b85288b" (Finding "custody-map-encoding");
  mkAudit "x/custody/types/tx.pb.go" "TransactionPool.Size" KMapRange "m.Record" 1 "e2a7fca8eac149da" (Harmless sz);
  mkAudit "x/distributor/keeper/abci.go" "Keeper.BeginBlocker" KTimeNow "time.Now" 1 "8663285506f1529b" (Harmless tele);
  mkAudit "x/evidence/abci.go" "BeginBlocker" KTimeNow "time.Now" 1 "4f59860c9cab9067" (Harmless tele);
  mkAudit "x/evidence/module.go" "AppModule.RandomizedParams" KRand "math/rand.Rand" 1 "af3ca6c58f9814fc" (Harmless simu);
  mkAudit "x/gov/genesis.go" "InitGenesis" KMapRange "genesisState.DataRegistry" 1 "8332f87e3240c31b" (Harmless "one store write per distinct key: the writes commute");
  mkAudit "x/gov/genesis.go" "InitGenesis" KMapRange "genesisState.ProposalDurations" 1 "8332f87e3240c31b" (Harmless "collects the keys only; they are sorted before use (commit f1cf68b)");
  mkAudit "x/gov/genesis.go" "InitGenesis" KMapRange "genesisState.RolePermissions" 1 "8332f87e3240c31b" (Harmless "each role's keys (permission record, whitelist and - since 53081b1 - blacklist index entries) are written from that role's slices only; roles commute");
  mkAudit "x/gov/keeper/grpc_query.go" "Keeper.AllExecutionFees" KMapRange "kiratypes.MsgFuncIDMapping" 1 "9f3c35b32eb757e5" (Harmless "gRPC query only");
  mkAudit "x/gov/keeper/util.go" "CheckIfAllowedPermission" KMapRange "roles" 2 "92949239a62ef17c" (Harmless "idempotent writes into a permission map: a whitelist pass, then a blacklist pass");
  mkAudit "x/gov/types/genesis.pb.go" "GenesisState.MarshalToSizedBuffer" KPbMap "m.DataRegistry" 1 "ac1bf6c78cf7413a" (Harmless gjs);
  mkAudit "x/gov/types/genesis.pb.go" "GenesisState.MarshalToSizedBuffer" KPbMap "m.ProposalDurations" 1 "ac1bf6c78cf7413a" (Harmless gjs);
  mkAudit "x/gov/types/genesis.pb.go" "GenesisState.MarshalToSizedBuffer" KPbMap "m.RolePermissions" 1 "ac1bf6c78cf7413a" (Harmless gjs);
  mkAudit "x/gov/types/genesis.pb.go" "GenesisState.Size" KMapRange "m.DataRegistry" 1 "f34ae3fcc476afa1" (Harmless sz);
  mkAudit "x/gov/types/genesis.pb.go" "GenesisState.Size" KMapRange "m.ProposalDurations" 1 "f34ae3fcc476afa1" (Harmless sz);
  mkAudit "x/gov/types/genesis.pb.go" "GenesisState.Size" KMapRange "m.RolePermissions" 1 "f34ae3fcc476afa1" (Harmless sz);
  mkAudit "x/gov/types/identity_registrar.go" "WrapInfos" KMapRange "infos" 1 "ed1fe314e8f0a81e" (Harmless "only caller is x/gov/client/cli (builds a message on the client)");
  mkAudit "x/gov/types/poll_vote.go" "CalculatedPollVotes.ProcessResult" KMapRange "c.votes" 2 "67c8b6858f9ba1da" (Harmless "order-independent: theorem C01_poll_tally_order_independent");
  mkAudit "x/gov/types/query.pb.go" "QueryAllProposalDurationsResponse.MarshalToSizedBuffer" KPbMap "m.ProposalDurations" 1 "c51df105c3f0010f" (Harmless qry);
  mkAudit "x/gov/types/query.pb.go" "QueryAllProposalDurationsResponse.Size" KMapRange "m.ProposalDurations" 1 "ff3ab330ee148b0d" (Harmless qry);
  mkAudit "x/recovery/module.go" "AppModule.RandomizedParams" KRand "math/rand.Rand" 1 "f3a129412892fe14" (Harmless simu);
  mkAudit "x/slashing/abci.go" "BeginBlocker" KTimeNow "time.Now" 1 "1a4493029a039a66" (Harmless tele);
  mkAudit "x/slashing/module.go" "AppModule.RandomizedParams" KRand "math/rand.Rand" 1 "f3a129412892fe14" (Harmless simu);
  mkAudit "x/slashing/types/query.pb.go" "IdentityRecord.Equal" KMapRange "this.Infos" 1 "1e99e072915a3867" (Harmless qry);
  mkAudit "x/slashing/types/query.pb.go" "IdentityRecord.MarshalToSizedBuffer" KPbMap "m.Infos" 1 "28a77175f9456a13" (Harmless qry);
  mkAudit "x/slashing/types/query.pb.go" "IdentityRecord.Size" KMapRange "m.Infos" 1 "cd1e8fdb232b9eae" (Harmless qry);
  mkAudit "x/tokens/types/query.pb.go" "TokenInfosByDenomResponse.MarshalToSizedBuffer" KPbMap "m.Data" 1 "17f608dd4247ccad" (Harmless qry);
  mkAudit "x/tokens/types/query.pb.go" "TokenInfosByDenomResponse.Size" KMapRange "m.Data" 1 "f283424dbed3d61e" (Harmless qry)
]%string.

(* Every source of replica nondeterminism the translator finds in the tree (time.Now/Since/Until,
   math/rand + crypto/rand, range over a Go map, protobuf Marshal ranging a map<> field, maps.Keys,
   go statements, os environment / host time zone, package runtime, local-zone times (time.Unix / Parse / Date / In with a non-UTC location,
   zone-dependent renderings of a time.Time not forced by .UTC()), writes to process-local state
   (package-level variables, fields of application structs reached from a receiver or parameter) outside
   constructors / init / Register*; all non-test, non-client code
   under x/, app/ and types/) is an audited entry: harmless for a stated reason, or a recorded
   finding.  The table is exact in both directions and pinned to the code:
   - a NEW time.Now() / map range in keeper code is not covered          (first conjunct),
   - an entry whose site has gone, or whose number of sites changed, is stale   (second conjunct),
   - an entry whose owning function (or a same-package function it calls) was edited since the
     verdict was given has a different fingerprint                          (third conjunct);
   each of them makes this theorem fail to check. *)
Theorem C01_sites_covered :
  forallb (audited audited_sites) sites = true /\
  forallb (audit_exact sites) audited_sites = true /\
  forallb (audit_fp_ok func_fingerprints) audited_sites = true /\
  gen_errors = [].
Proof. repeat split; vm_compute; reflexivity. Qed.
Print Assumptions C01_sites_covered.

(* begin-blocker, end-blocker and init-genesis orders are fixed lists naming the same modules once *)
Theorem C01_module_orders_fixed : orders_ok = true.
Proof. vm_compute. reflexivity. Qed.
Print Assumptions C01_module_orders_fixed.

(* Noninterference, full strength: with no environment-consulting site live, every history from
   every genesis yields the same per-block observations (transaction results and committed state)
   in any two environments (wall clocks, map iteration orders). *)
Theorem C01_run_deterministic : forall c, clean c = true ->
  forall e1 e2 g bs, run c e1 g bs = run c e2 g bs.
Proof. exact run_deterministic. Qed.
Print Assumptions C01_run_deterministic.

(* ... and that condition is necessary: the model is deterministic over all histories exactly when
   no such site is live *)
Theorem C01_deterministic_iff_no_env_site : forall c,
  (forall e1 e2 g bs, run c e1 g bs = run c e2 g bs) <-> clean c = true.
Proof. exact deterministic_iff_clean. Qed.
Print Assumptions C01_deterministic_iff_no_env_site.

(* ---- the tree as it is now (site configuration extracted by the translator on this run) ----
   No wall-clock site is live any more ... *)
Theorem C01_current_tree_no_wall_clock_site : wall_free site_cfg = true.
Proof. vm_compute. reflexivity. Qed.
Print Assumptions C01_current_tree_no_wall_clock_site.

(* ... so for ALL histories (custody map writes included) and all genesis states the per-block
   observations are independent of the wall clock: two environments that agree on the map iteration
   orders give the same run *)
Theorem C01_current_tree_wall_clock_independent : forall e1 e2 g bs,
  (forall k l, map_order e1 k l = map_order e2 k l) -> run site_cfg e1 g bs = run site_cfg e2 g bs.
Proof. exact (run_wall_clock_independent site_cfg C01_current_tree_no_wall_clock_site). Qed.
Print Assumptions C01_current_tree_wall_clock_independent.

(* ... and every history without a custody map<> write is fully deterministic, from any genesis
   (the guard [quiescent] of the partial theorem is now always true) *)
Theorem C01_current_tree_deterministic_without_custody_maps : forall e1 e2 g bs,
  history_envfree site_cfg bs = true -> run site_cfg e1 g bs = run site_cfg e2 g bs.
Proof.
  intros e1 e2 g bs H. apply run_deterministic_partial; [exact H|].
  unfold quiescent. replace (poll_end_wall site_cfg) with false by (vm_compute; reflexivity). reflexivity.
Qed.
Print Assumptions C01_current_tree_deterministic_without_custody_maps.

(* the one environment dependence left: custody records are marshalled in Go map order *)
Theorem C01_custody_map_encoding_after_fix_refuted :
  exists e1 e2 g bs, wall_clock e1 = wall_clock e2 /\ run marshal_cfg e1 g bs <> run marshal_cfg e2 g bs.
Proof. exact custody_map_encoding_after_fix_refuted. Qed.
Print Assumptions C01_custody_map_encoding_after_fix_refuted.

(* The tree before commit c7688a1 (all five sites live): the full statement is refuted, one witness
   per mechanism (kept: they are what the model predicts should a wall-clock read come back) *)
Theorem C01_polls_depend_on_wall_clock_refuted :
  exists e1 e2 g bs, run wall_cfg e1 g bs <> run wall_cfg e2 g bs.
Proof. exact polls_depend_on_wall_clock_refuted. Qed.
Print Assumptions C01_polls_depend_on_wall_clock_refuted.

Theorem C01_poll_vote_wall_clock_refuted :
  exists e1 e2 g bs, map fst (run (mkCfg false true false false false) e1 g bs)
                     <> map fst (run (mkCfg false true false false false) e2 g bs).
Proof. exact poll_vote_wall_clock_refuted. Qed.
Print Assumptions C01_poll_vote_wall_clock_refuted.

Theorem C01_poll_end_blocker_wall_clock_refuted :
  exists e1 e2 g bs, run (mkCfg false false true false false) e1 g bs <> run (mkCfg false false true false false) e2 g bs.
Proof. exact poll_end_blocker_wall_clock_refuted. Qed.
Print Assumptions C01_poll_end_blocker_wall_clock_refuted.

Theorem C01_custody_limits_wall_clock_refuted :
  exists e1 e2 g bs, run wall_cfg e1 g bs <> run wall_cfg e2 g bs.
Proof. exact custody_limits_wall_clock_refuted. Qed.
Print Assumptions C01_custody_limits_wall_clock_refuted.

Theorem C01_custody_map_encoding_refuted :
  exists e1 e2 g bs, wall_clock e1 = wall_clock e2 /\ run wall_cfg e1 g bs <> run wall_cfg e2 g bs.
Proof. exact custody_map_encoding_refuted. Qed.
Print Assumptions C01_custody_map_encoding_refuted.

(* The strongest statement that holds for EVERY configuration, the current code included: histories
   that contain no environment-consulting transaction, started where no poll is open, are
   deterministic (the guard excludes exactly the refuted cases) *)
Theorem C01_run_deterministic_partial : forall c e1 e2 g bs,
  history_envfree c bs = true -> quiescent c g = true -> run c e1 g bs = run c e2 g bs.
Proof. exact run_deterministic_partial. Qed.
Print Assumptions C01_run_deterministic_partial.

(* CalculatedPollVotes.ProcessResult ranges a Go map twice; its result does not depend on the order *)
Theorem C01_poll_tally_order_independent : forall P rest l l',
  Permutation.Permutation l l' -> (forall x, In x l -> 0 < snd x) -> tally_result P rest l = tally_result P rest l'.
Proof. exact tally_result_order_independent. Qed.
Print Assumptions C01_poll_tally_order_independent.

(* The spec checker run on the real replicas accepts every k-replica run of a clean model: "real
   trace passes the checker" is what the noninterference theorem predicts for repaired code *)
Theorem C01_chk_sound : forall (deqb : mdig -> mdig -> bool), (forall x, deqb x x = true) ->
  forall c envs g bs dflt, clean c = true -> (2 <= List.length envs)%nat ->
  history_clauses mdig deqb (model_obs dflt (List.length bs) (map (fun e => run c e g bs) envs)) = [].
Proof. exact c01_chk_sound. Qed.
Print Assumptions C01_chk_sound.

(* non-vacuity *)
Example C01_clean_run_nontrivial :
  exists o1 o2, run fixed_cfg env_a g0 (wit_blocks ++ [mkBlock (bt0 + 200) [TSend 1 2 10]]) = [o1; o2]
     /\ run fixed_cfg env_b g0 (wit_blocks ++ [mkBlock (bt0 + 200) [TSend 1 2 10]]) = [o1; o2]
     /\ fst o1 = [ROk 1; ROk 0; ROk 0; ROk 0] /\ fst o2 = [ROk 0]
     /\ map p_result (polls (snd o1)) = [0] /\ map p_result (polls (snd o2)) = [2].
Proof. exact clean_run_nontrivial. Qed.

Example C01_partial_hypotheses_satisfiable :
  history_envfree wall_cfg [mkBlock bt0 [TSend 1 2 10; TSend 2 1 3]] = true /\ quiescent wall_cfg g0 = true
  /\ map fst (run wall_cfg env_a g0 [mkBlock bt0 [TSend 1 2 10; TSend 2 1 3]]) = [[ROk 0; ROk 0]].
Proof. exact partial_hypotheses_satisfiable. Qed.

(* the site table is not empty and the checker flags an unaudited site *)
(* a stale entry and an edited function are both flagged *)
Example C01_stale_and_edited_entries_flagged :
  audit_exact sites (mkAudit "x/gov/keeper/poll.go" "Keeper.PollCreate" KTimeNow "time.Now" 1 "" (Finding "gone")) = false /\
  audit_fp_ok func_fingerprints (mkAudit "x/gov/keeper/util.go" "CheckIfAllowedPermission" KMapRange "roles" 2 "0000000000000000" (Harmless "x")) = false.
Proof. split; vm_compute; reflexivity. Qed.

Example C01_site_table_nontrivial :
  Nat.leb 20 (List.length sites) = true /\
  audited audited_sites (mkSite "x/bank/keeper/send.go" "Keeper.SendCoins" KTimeNow "time.Now" 0) = false.
Proof. split; vm_compute; reflexivity. Qed.
