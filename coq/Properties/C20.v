(* C20 -- Layer-2 dApp bonds are escrowed one-to-one; the LP pool gives no free money.
   Only statements, each closed by [exact] of a lemma from Proofs/Layer2.v / Proofs/Layer2Lp.v.
   The model (Model/Layer2.v) is compared with the real msg server / EndBlocker / keeper on every run.
   [v] is the variant of the tree ([as_is] = unchanged tree, [repaired] = with the patches of /verif/fixes);
   [separated v N Us] holds for every history of a repaired tree and, on the unchanged tree, for the
   histories in which no dApp name is a prefix of another name ++ user address and none is empty;
   [op_in] bounds the creation bond by the maximum on a tree that does not check it. *)
From Sekai Require Import Base.Prelude Base.Dec Model.Layer2 Model.C20Check Proofs.Layer2 Proofs.Layer2Lp Proofs.Layer2All Proofs.Layer2Chk.
From Coq Require Import QArith.
Open Scope Z_scope.

(* ================================================================ the tree as it is (repaired) -- full strength.
   [fixed v]: none of the three repaired defects (what the harness probes on every run; [current_fixed]).
   [wf_op]: senders are not the module account and spell their address in the canonical lower case (account = record key), the LP denomination is not ukex, and the creation bond of a
   holder of the bond-free creation permission is neither negative nor in a foreign denomination (the two
   inputs outside the modelled domain).  No restriction on names, amounts, order, users or block times. *)
Theorem C20_current_tree_is_fixed : fixed (mkVariant false false false false false true true) /\ fixed repaired.
Proof. exact (conj current_fixed repaired_fixed). Qed.
Print Assumptions C20_current_tree_is_fixed.

(* each user's recorded bond equals what he deposited minus what he reclaimed, and that is the money that moved *)
Theorem C20_user_bond_is_deposits_minus_reclaims :
  forall v c, fixed v -> forall pre ops l, 0 <= bal MOD UKEX l -> Forall wf_op (pre ++ ops) -> forallb is_user_op ops = true ->
  let st := run v c pre (empty_state l) in
  (forall n u, bond_amt n u (bonds (run v c ops st)) = bond_amt n u (bonds st) + net_flow v c ops st n u)
  /\ (forall u, u <> MOD -> bal u UKEX (led (run v c ops st)) = bal u UKEX (led st) - net_out v c ops st u).
Proof. exact deposits_fixed. Qed.
Print Assumptions C20_user_bond_is_deposits_minus_reclaims.

Theorem C20_total_is_sum_of_user_bonds :
  forall v c, fixed v -> forall ops l, 0 <= bal MOD UKEX l -> Forall wf_op ops ->
  forall n d, find_dapp n (dapps (run v c ops (empty_state l))) = Some d -> d_status d = 0 ->
  d_total d = sum_bonds n (bonds (run v c ops (empty_state l))).
Proof. exact total_is_sum_fixed. Qed.
Print Assumptions C20_total_is_sum_of_user_bonds.

Theorem C20_total_le_max :
  forall v c, fixed v -> forall ops l, 0 <= bal MOD UKEX l -> Forall wf_op ops ->
  forall n d, find_dapp n (dapps (run v c ops (empty_state l))) = Some d -> d_status d = 0 -> d_total d <= max_thr c.
Proof. exact total_max_fixed. Qed.
Print Assumptions C20_total_le_max.

Theorem C20_failed_bootstrap_refunds_all :
  forall v c, fixed v -> forall ops l d, 0 <= bal MOD UKEX l -> Forall wf_op ops ->
  let st := run v c ops (empty_state l) in
  find_dapp (d_name d) (dapps st) = Some d -> d_status d = 0 -> d_total d < min_thr c ->
  exists st', finish v c d st = Ok st'
    /\ find_dapp (d_name d) (dapps st') = None
    /\ (forall e, In e (bonds st') -> fst (fst e) <> d_name d)
    /\ (forall u, u <> MOD -> bal u UKEX (led st') = bal u UKEX (led st) + bond_amt (d_name d) u (bonds st)).
Proof. exact refund_fixed. Qed.
Print Assumptions C20_failed_bootstrap_refunds_all.

Theorem C20_pool_bond_held_by_module :
  forall v c, fixed v -> forall ops l, 0 <= bal MOD UKEX l -> Forall wf_op ops ->
  sum_totals (dapps (run v c ops (empty_state l))) + bal MOD UKEX l = bal MOD UKEX (led (run v c ops (empty_state l))).
Proof. exact bond_held_fixed. Qed.
Print Assumptions C20_pool_bond_held_by_module.

(* the spec checker accepts the model's runs: the observed-state clauses (total-sum, max, held) after any
   history, the user-message clauses (escrow, frame, reject) on every create / bond / reclaim step *)
Theorem C20_chk_sound_state :
  forall v c users dens ok ops l, fixed v -> 0 <= bal MOD UKEX l -> Forall wf_op ops ->
  state_clauses (max_thr c) (snap users dens ok (run v c ops (empty_state l))) = [].
Proof. exact state_clauses_sound_fixed. Qed.
Print Assumptions C20_chk_sound_state.
Theorem C20_chk_sound_user_step :
  forall v c N Us k users dens, separated v N Us -> users_ok Us -> canonical Us -> NoDup users -> users_ok users ->
  forall st o u n g, Inv c N Us k st -> op_in v c N Us o -> op_actor o = Some (u, n) -> In u users ->
  g_prev g = snap users dens true st ->
  user_clauses users g (snap users dens (is_ok (step v c st o)) (apply v c st o)) u n = [].
Proof. exact user_clauses_sound. Qed.
Print Assumptions C20_chk_sound_user_step.

(* BOND CONSERVATION over ARBITRARY operation lists -- all messages, blocks, configuration changes, the other layer2
   messages that move coins through the module account, passed upsert proposals, keeper-level swap / redeem /
   convert and forced status changes, in any order: the module's ukex is exactly the recorded bonds of all dApps
   (plus what it held before), and every bootstrapping dApp's total is the sum of its user bonds, at most the maximum.
   [valid] asks of each operation, in the state it is applied to: [op_in] for messages; for the keeper-level LP calls a
   launched dApp, a pool fee between 0 and 1 and a non-negative LP supply (a fact of the bank); the repaired upsert
   handler and conversion. *)
Theorem C20_bond_conservation :
  forall v c N Us ops l, separated v N Us -> users_ok Us -> canonical Us -> valid v c N Us (empty_state l) ops ->
  bal MOD UKEX (led (run v c ops (empty_state l))) = sum_totals (dapps (run v c ops (empty_state l))) + bal MOD UKEX l
  /\ (forall n d, find_dapp n (dapps (run v c ops (empty_state l))) = Some d -> d_status d = 0 ->
      d_total d = sum_bonds n (bonds (run v c ops (empty_state l))) /\ d_total d <= max_thr c).
Proof. exact bond_conservation. Qed.
Print Assumptions C20_bond_conservation.
Example C20_bond_conservation_nonvacuous :
  valid repaired acfg ["x"%string] [aU0; aU1] (empty_state al0) a_ops
  /\ (let st := run repaired acfg a_ops (empty_state al0) in bal MOD UKEX (led st) = sum_totals (dapps st) /\ map d_status (dapps st) = [1]).
Proof. exact (conj a_valid a_result). Qed.

(* the fee taken by the keeper functions lies between 0 and the amount (pool fee between 0 and 1): a redemption never
   pays out more than the pool bond falls *)
Theorem C20_fee_within_amount :
  forall x fee f, fee_of x fee = Ok f -> 0 <= fee <= PREC -> (0 <= x -> 0 <= f <= x) /\ (x <= 0 -> x <= f <= 0).
Proof. exact fee_of_range. Qed.
Print Assumptions C20_fee_within_amount.

(* the checker's pool-native clause holds around every operation of the model inside its guard *)
Theorem C20_chk_sound_pool_native :
  forall v c N Us k users dens ok ok' st o, separated v N Us -> users_ok Us -> canonical Us -> Inv c N Us k st -> op_ok v c N Us st o ->
  cl "pool-native" (zsum (map snd (o_dapps (snap users dens ok' (apply v c st o)))) - zsum (map snd (o_dapps (snap users dens ok st)))
                    =? o_mod (snap users dens ok' (apply v c st o)) - o_mod (snap users dens ok st)) = [].
Proof. exact pool_native_sound. Qed.
Print Assumptions C20_chk_sound_pool_native.

(* ================================================================ any variant of the tree (guards exclude exactly the
   inputs on which the unrepaired defects bite); the [_refuted] theorems are about the unrepaired variant bits *)
(* While a dApp is bootstrapping, each user's recorded bond equals what that user deposited minus what
   it reclaimed -- over any sequence of create / bond / reclaim messages of any users, accepted or not,
   and the money that left (entered) the user's account is exactly that amount *)
Theorem C20_user_bond_is_deposits_minus_reclaims_any_variant :
  forall v c N Us, separated v N Us -> users_ok Us -> canonical Us ->
  forall k ops st, Inv c N Us k st -> Forall (op_in v c N Us) ops -> forallb is_user_op ops = true ->
  (forall n u, bond_amt n u (bonds (run v c ops st)) = bond_amt n u (bonds st) + net_flow v c ops st n u)
  /\ (forall u, u <> MOD -> bal u UKEX (led (run v c ops st)) = bal u UKEX (led st) - net_out v c ops st u).
Proof. exact deposits_minus_reclaims. Qed.
Print Assumptions C20_user_bond_is_deposits_minus_reclaims_any_variant.

(* the dApp's total bond is the sum of the user bonds -- after any history of messages and blocks *)
Theorem C20_total_is_sum_of_user_bonds_any_variant :
  forall v c N Us, separated v N Us -> users_ok Us -> canonical Us ->
  forall ops l, 0 <= bal MOD UKEX l -> Forall (op_in v c N Us) ops ->
  forall n d, find_dapp n (dapps (run v c ops (empty_state l))) = Some d -> d_status d = 0 ->
  d_total d = sum_bonds n (bonds (run v c ops (empty_state l))).
Proof. exact total_is_sum. Qed.
Print Assumptions C20_total_is_sum_of_user_bonds_any_variant.

(* ... and never exceeds the maximum dApp bond ([op_in] asks creation bonds <= max on a tree that does not check) *)
Theorem C20_total_le_max_any_variant :
  forall v c N Us, separated v N Us -> users_ok Us -> canonical Us ->
  forall ops l, 0 <= bal MOD UKEX l -> Forall (op_in v c N Us) ops ->
  forall n d, find_dapp n (dapps (run v c ops (empty_state l))) = Some d -> d_status d = 0 -> d_total d <= max_thr c.
Proof. exact total_max. Qed.
Print Assumptions C20_total_le_max_any_variant.
(* unchanged tree: the creation bond is not checked *)
Theorem C20_total_le_max_refuted :
  exists d, find_dapp "big" (dapps (run as_is rcfg w_max rst0)) = Some d /\ d_status d = 0 /\ max_thr rcfg < d_total d.
Proof. exact w_max_ok. Qed.
Print Assumptions C20_total_le_max_refuted.

(* a dApp that misses its minimum bond refunds every bonder in full: in every state reached by a history,
   when the EndBlocker finishes such a dApp it is removed, its records are removed and every user
   receives exactly the recorded bond (unchanged tree: provided no zero-amount record is left) *)
Theorem C20_failed_bootstrap_refunds_all_any_variant :
  forall v c N Us, separated v N Us -> users_ok Us -> canonical Us ->
  forall ops l d, 0 <= bal MOD UKEX l -> Forall (op_in v c N Us) ops ->
  let st := run v c ops (empty_state l) in
  find_dapp (d_name d) (dapps st) = Some d -> d_status d = 0 -> d_total d < min_thr c ->
  (v_zero_blocks v = false \/ forall u a, In (d_name d, u, a) (bonds st) -> 0 < a) ->
  exists st', finish v c d st = Ok st'
    /\ find_dapp (d_name d) (dapps st') = None
    /\ (forall e, In e (bonds st') -> fst (fst e) <> d_name d)
    /\ (forall u, u <> MOD -> bal u UKEX (led st') = bal u UKEX (led st) + bond_amt (d_name d) u (bonds st)).
Proof. exact refund_after_history. Qed.
Print Assumptions C20_failed_bootstrap_refunds_all_any_variant.
(* unchanged tree, a bonder reclaimed everything: after the deadline nobody is refunded, the dApp stays *)
Theorem C20_failed_bootstrap_refunds_all_refuted :
  let st := run as_is rcfg w_zero rst0 in
  exists d, find_dapp "aa" (dapps st) = Some d /\ d_status d = 0 /\ d_total d < min_thr rcfg
            /\ bal rU0 UKEX (led st) = 2000000000 - 20000 /\ now st = 2000.
Proof. exact w_zero_ok. Qed.
Print Assumptions C20_failed_bootstrap_refunds_all_refuted.

(* the recorded bond of all dApps is held by the module account -- after any history *)
Theorem C20_pool_bond_held_by_module_any_variant :
  forall v c N Us, separated v N Us -> users_ok Us -> canonical Us ->
  forall ops l, 0 <= bal MOD UKEX l -> Forall (op_in v c N Us) ops ->
  sum_totals (dapps (run v c ops (empty_state l))) + bal MOD UKEX l = bal MOD UKEX (led (run v c ops (empty_state l))).
Proof. exact bond_held. Qed.
Print Assumptions C20_pool_bond_held_by_module_any_variant.
(* unchanged tree, dApp "ab" fails while "abc" is bootstrapping: the bonders of "abc" are paid out of the
   module but keep their records; 30700 recorded, 0 held *)
Theorem C20_pool_bond_held_by_module_refuted :
  let st := run as_is rcfg w_prefix rst0 in
  sum_totals (dapps st) = 30700 /\ bal MOD UKEX (led st) = 0 /\ bond_amt "abc" rU2 (bonds st) = 700
  /\ bal rU2 UKEX (led st) = 2000000000.
Proof. exact w_prefix_ok. Qed.
Print Assumptions C20_pool_bond_held_by_module_refuted.
(* keeper level (latent, the message is rejected): conversion into the same dApp *)
Theorem C20_pool_bond_held_keeper_convert_refuted :
  let st := run as_is rcfg w_convert rst0 in bal MOD UKEX (led st) < sum_totals (dapps st).
Proof. exact w_convert_ok. Qed.
Print Assumptions C20_pool_bond_held_keeper_convert_refuted.

(* when do the guards hold *)
Theorem C20_repaired_tree_is_separated : forall v N Us, v_prefix v = false -> separated v N Us.
Proof. exact repaired_separated. Qed.
Print Assumptions C20_repaired_tree_is_separated.
Theorem C20_prefix_free_names_are_separated : forall v N Us, sepb N Us = true -> separated v N Us.
Proof. exact sepb_separated. Qed.
Print Assumptions C20_prefix_free_names_are_separated.

(* the three LP messages never change the state (inverted existence check) *)
Theorem C20_lp_messages_rejected : forall v c st k u n n2 den amt, apply v c st (OLpMsg k u n n2 den amt) = st.
Proof. exact lp_message_rejected. Qed.
Print Assumptions C20_lp_messages_rejected.

(* exact constant-product rule with pool fees f1, f2: paying b into a pool (T, S) and redeeming all the LP
   tokens received returns at most b.  [out] and [sb] are the exact swap and redemption amounts. *)
Theorem C20_no_free_money_exact :
  forall T S b f1 f2 out sb : Q,
  (0 < T -> 0 < S -> 0 < b -> 0 <= f1 -> f1 <= 1 -> 0 <= f2 -> f2 <= 1 ->
   out * (T + b) == S * b ->
   sb * ((S - f1 * out) + out * (1 - f1)) == (T + b) * (out * (1 - f1)) ->
   sb * (1 - f2) <= b)%Q.
Proof. exact round_trip_exact. Qed.
Print Assumptions C20_no_free_money_exact.

(* the keeper functions: full statement refuted by integer rounding (1 ukex in, 19608 ukex out) *)
Theorem C20_no_free_money_integer_refuted : ~ no_free_money_integer as_is wcfg.
Proof. exact no_free_money_integer_refuted_lemma. Qed.
Print Assumptions C20_no_free_money_integer_refuted.
(* what does hold: each payout is the exact amount rounded up, i.e. exceeds it by less than one unit *)
Theorem C20_no_free_money_integer_partial_redeem :
  forall T S x, 0 <= T -> 0 <= S -> 0 < x ->
  let sb := T - Z.quot (T * S) (S + x) in T * x <= sb * (S + x) < T * x + (S + x).
Proof. exact redeem_rounds_up. Qed.
Print Assumptions C20_no_free_money_integer_partial_redeem.
Theorem C20_no_free_money_integer_partial_swap :
  forall T S b, 0 <= T -> 0 <= S -> 0 < b ->
  let out := S - Z.quot (T * S) (T + b) in S * b <= out * (T + b) < S * b + (T + b).
Proof. exact swap_rounds_up. Qed.
Print Assumptions C20_no_free_money_integer_partial_swap.

(* non-vacuity: a history of the unchanged tree inside all guards, with a refund and a launch *)
Example C20_nonvacuous_guards :
  sepb ex_names ex_users = true /\ users_ok ex_users /\ canonical ex_users /\ Forall (op_in as_is rcfg ex_names ex_users) ex_ops.
Proof. exact ex_guards. Qed.
Example C20_nonvacuous_result :
  let st := run as_is rcfg ex_ops (empty_state (led rst0)) in
  find_dapp "alpha" (dapps st) = None /\ bal rU1 UKEX (led st) = 2000000000 - 2000000 /\ bal rU0 UKEX (led st) = 2000000000
  /\ map d_status (dapps st) = [3].
Proof. exact ex_result. Qed.
Example C20_exact_nonvacuous : (0 < 1000 /\ 10 * (1000 + 1) == 10010 * 1)%Q.
Proof. split; reflexivity. Qed.
