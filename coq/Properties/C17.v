(* C17 -- Custody: guarded funds leave only with the required approvals.
   Only statements, each closed by [exact] of a lemma of Proofs/Custody.v, with its assumptions.
   The model (Model/Custody.v) is the ante decorator's custody part followed by the sixteen custody
   handlers, the two bank send paths and the address rotation of x/recovery; it is parameterised by a
   [variant] (six repaired places, one bit each; patches under /verif/fixes/C17-*.patch) and tied to /repo on every run by the differential
   run of harness/cmd/c17 (model of the probed variant = real code, step by step).
   [H] is sha256+hex (nothing assumed), [minrew] the network property MinCustodyReward. *)
From Sekai Require Import Base.Prelude Model.Custody Model.C17Check Proofs.Custody Proofs.CustodyVariants Proofs.CustodyRelease.

(* ================================================================ clauses that hold on EVERY variant *)

(* plain bank send is blocked while custodians exist -- in every state, hence after every history *)
Theorem C17_bank_send_blocked_with_custodians :
  forall v H minrew s0 ops sg to amt now st c,
  let s := run v H minrew s0 ops in
  a_set (getA s sg) = Some st -> s_en st = true -> a_cust (getA s sg) = Some c -> c <> [] ->
  (exists e, step v H minrew s (OBank sg to amt now) = Err e) /\ exec v H minrew s (OBank sg to amt now) = s.
Proof.
  intros v H minrew s0 ops sg to amt now st c s Hs He Hc Hn. split.
  - exact (bank_send_blocked v H minrew s sg to amt now st c Hs He Hc Hn).
  - exact (bank_send_blocked_history v H minrew s0 ops sg to amt now st c Hs He Hc Hn).
Qed.
Print Assumptions C17_bank_send_blocked_with_custodians.

(* the whitelist restricts every plain bank send *)
Theorem C17_whitelist_restricts_bank_send :
  forall v H minrew s0 ops sg to amt now st w,
  let s := run v H minrew s0 ops in
  a_set (getA s sg) = Some st -> s_wl st = true -> a_wl (getA s sg) = Some w -> bool_at to w = false ->
  exec v H minrew s (OBank sg to amt now) = s.
Proof. exact whitelist_restricts_history. Qed.
Print Assumptions C17_whitelist_restricts_bank_send.

(* what an ACCEPTED plain bank send implies: no custodians, destination whitelisted, and with limits in
   use the repaired limit path accepted every coin (on the unrepaired variant: never accepted) *)
Theorem C17_bank_send_accepted_only_if :
  forall v H minrew s sg to amt now s', step v H minrew s (OBank sg to amt now) = Ok s' ->
  match a_set (getA s sg) with
  | None => True
  | Some st => (s_en st = true -> a_cust (getA s sg) = Some [])
               /\ (s_wl st = true -> forall w, a_wl (getA s sg) = Some w -> bool_at to w = true)
               /\ (s_lim st = true -> v_limits v = true /\ exists st',
                      limits_fold (match a_lim (getA s sg) with Some l => l | None => [] end) now amt
                                  (match a_stat (getA s sg) with Some x => x | None => [] end) = Ok st')
  end.
Proof. exact bank_send_accepted. Qed.
Print Assumptions C17_bank_send_accepted_only_if.

(* the limits restrict every plain bank send: what the limit path accepts has no coin above its limit *)
Theorem C17_limits_restrict_bank_send :
  forall lims now cs st st',
  limits_fold lims now cs st = Ok st' ->
  (forall d a tm, alist_get d st = Some (a, tm) -> 0 <= a) -> (forall c, In c cs -> 0 <= snd c) ->
  existsb (over_limit lims) cs = false /\ (forall d a tm, alist_get d st' = Some (a, tm) -> 0 <= a).
Proof. exact limits_fold_ok. Qed.
Print Assumptions C17_limits_restrict_bank_send.

(* the spec checker accepts every plain bank send the model accepts (clauses blocked / whitelist / limits) *)
Theorem C17_chk_bank_sound :
  forall v H minrew s sg to amt now s',
  stat_inv s -> step v H minrew s (OBank sg to amt now) = Ok s' -> path_clauses (getA s sg) to amt "bank_send" = [].
Proof. exact chk_bank_sound. Qed.
Print Assumptions C17_chk_bank_sound.

(* each (voter, target, vote key) counts once, over every history: after an approval took effect, no later
   approval or decline with the same key changes anything, whatever happened in between.  The key is the
   hash as written, or (variant with C17-vote-key-lowercase) the lower-cased hash: every spelling *)
Theorem C17_vote_counts_once_per_address :
  forall v, v_rot v = false -> forall H minrew s f t h h' ops,
  let s1 := exec v H minrew s (OApprove f t h) in
  s1 <> s -> mark_key v h' = mark_key v h ->
  let s2 := run v H minrew s1 ops in
  exec v H minrew s2 (OApprove f t h') = s2 /\ exec v H minrew s2 (ODecline f t h') = s2.
Proof. exact vote_counts_once. Qed.
Print Assumptions C17_vote_counts_once_per_address.

(* the vote store only grows: a mark is never removed or rewritten by any transaction (the repaired address
   rotation re-keys the marks of the rotated account: there the checker-level theorems below apply) *)
Theorem C17_vote_marks_persist :
  forall v, v_rot v = false -> forall H minrew ops s f t h x,
  mark_get f t h (marks s) = Some x -> mark_get f t h (marks (run v H minrew s ops)) = Some x.
Proof. exact marks_mono_run. Qed.
Print Assumptions C17_vote_marks_persist.

(* coins never leave an account in a transaction in which it is not a payer (the target of a vote, the
   requester of the pending transfer that is paid out, the signer of a send, the two ends of an address
   rotation): the checker's outflow clause never fires *)
Theorem C17_no_outflow_from_bystanders :
  forall v H minrew s o s' x, step v H minrew s o = Ok s' -> ~ In x (payers s o) ->
  forall d, bal_get d (a_bal (getA s x)) <= bal_get d (a_bal (getA s' x)).
Proof. exact step_nondec. Qed.
Print Assumptions C17_no_outflow_from_bystanders.

Theorem C17_chk_outflow_sound :
  forall v H minrew n s o s', step v H minrew s o = Ok s' -> out_clauses n s s' o = [].
Proof. intros v H minrew n s o s' E. exact (out_sound v H minrew n s o s' E). Qed.
Print Assumptions C17_chk_outflow_sound.

(* a pay-out at an approval needs the counter (including this vote) to reach the configured share of the
   custodian map, and the Confirmed flag when a password is in use *)
Theorem C17_release_needs_counter :
  forall v H minrew s f t h s' st c p tx,
  step v H minrew s (OApprove f t h) = Ok s' ->
  mark_get f t (mark_key v h) (marks s) = None ->
  a_set (getA s t) = Some st -> s_en st = true -> a_cust (getA s t) = Some c ->
  a_pool (getA s t) = Some p -> pool_get (to_lower h) p = Some tx ->
  (match a_pool (getA s' t) with Some p' => pool_get (to_lower h) p' | None => None end) = None ->
  s_mode st <= Z.quot ((t_votes tx + 1) * 100) (map_len c) /\ (s_pwd st = true -> t_conf tx = true).
Proof. exact approve_release_needs_counter. Qed.
Print Assumptions C17_release_needs_counter.

(* a custody send pays out directly only without custodians and without password *)
Theorem C17_direct_payout_only_unguarded :
  forall v H minrew s sg to amt pw rew h s' st,
  step v H minrew s (OSend sg to amt pw rew h) = Ok s' -> a_set (getA s sg) = Some st ->
  a_pool (getA s' sg) = a_pool (getA s sg) -> a_pool (getA s sg) = None ->
  s_pwd st = false /\ (s_en st = true -> a_cust (getA s sg) = Some []).
Proof. exact send_direct_only_unguarded. Qed.
Print Assumptions C17_direct_payout_only_unguarded.

(* ================================================================ settings change only with the key: a design-level hole on every variant *)
Theorem C17_settings_change_requires_key_refuted : forall v, ~ settings_change_requires_key_stmt v.
Proof. exact settings_change_requires_key_refuted. Qed.
Print Assumptions C17_settings_change_requires_key_refuted.

Theorem C17_settings_change_by_stranger_via_target : forall v, exists ops o x st,
  let s := w_run v ops in
  signer o <> x /\ a_set (getA s (signer o)) = None /\
  a_set (getA s x) = Some st /\ s_en st = true /\ config_eqb (getA s x) (getA (exec v Hid 200 s o) x) = false
  /\ forall k, op_kp o = Some k -> Hid (k_old k) <> s_key st.
Proof. exact key_refuted_target_norecord. Qed.
Print Assumptions C17_settings_change_by_stranger_via_target.

Theorem C17_settings_change_via_own_next_controller : forall v, exists ops o x st,
  let s := w_run v ops in
  signer o <> x /\ a_set (getA s x) = Some st /\ s_en st = true
  /\ config_eqb (getA s x) (getA (exec v Hid 200 s o) x) = false
  /\ forall k, op_kp o = Some k -> Hid (k_old k) <> s_key st.
Proof. exact key_refuted_target_next. Qed.
Print Assumptions C17_settings_change_via_own_next_controller.

(* what does hold: the seven message types with an arm, sent by a guarded signer, are accepted only
   with the preimage of the SIGNER's key, and name no target or the signer's NextController *)
Theorem C17_settings_change_requires_key_partial :
  forall v H minrew s o k st s',
  keyed_op o = Some k -> a_set (getA s (signer o)) = Some st -> s_en st = true ->
  step v H minrew s o = Ok s' ->
  H (k_old k) = s_key st /\ (k_tgt k = -1 \/ k_tgt k = s_next st).
Proof. exact keyed_requires_own_key. Qed.
Print Assumptions C17_settings_change_requires_key_partial.

Theorem C17_limits_messages_rejected_for_guarded_signer :
  forall v H minrew s o st,
  (match o with OAddLim _ _ _ _ _ | ORemLim _ _ _ | ODropLim _ _ => True | _ => False end) ->
  a_set (getA s (signer o)) = Some st -> s_en st = true -> is_ok (step v H minrew s o) = false.
Proof. exact limits_ops_rejected_when_enabled. Qed.
Print Assumptions C17_limits_messages_rejected_for_guarded_signer.

(* ================================================================ only custodians count: exactly the variants with C17-custodian-only-votes *)
Theorem C17_only_custodians_count : forall v, v_cust_only v = true -> only_custodians_count_stmt v.
Proof. exact only_custodians_count_holds. Qed.
Print Assumptions C17_only_custodians_count.
Theorem C17_only_custodians_count_refuted : forall v, v_cust_only v = false -> ~ only_custodians_count_stmt v.
Proof. exact only_custodians_count_refuted. Qed.
Print Assumptions C17_only_custodians_count_refuted.

(* ================================================================ password confirmed when required: exactly the variants with C17-password-compared *)
Theorem C17_password_confirmed_when_required : forall v, v_pwd v = true -> password_confirmed_when_required_stmt v.
Proof. exact password_confirmed_when_required_holds. Qed.
Print Assumptions C17_password_confirmed_when_required.
Theorem C17_password_confirmed_when_required_refuted : forall v, v_pwd v = false -> ~ password_confirmed_when_required_stmt v.
Proof. exact password_confirmed_when_required_refuted. Qed.
Print Assumptions C17_password_confirmed_when_required_refuted.

(* ================================================================ release only after the threshold; one vote per custodian and transfer *)
Theorem C17_release_only_after_threshold :
  forall v, v_cust_only v = true -> v_lower v = true -> v_pwd v = true -> release_only_after_threshold_stmt v.
Proof. exact release_only_after_threshold_holds. Qed.
Print Assumptions C17_release_only_after_threshold.
Theorem C17_release_only_after_threshold_refuted :
  forall v, v_cust_only v = false \/ v_lower v = false -> ~ release_only_after_threshold_stmt v.
Proof. exact release_only_after_threshold_refuted. Qed.
Print Assumptions C17_release_only_after_threshold_refuted.

Theorem C17_vote_counts_once_per_transfer :
  forall v, v_cust_only v = true -> v_lower v = true -> v_pwd v = true -> vote_counts_once_per_transfer_stmt v.
Proof. exact vote_counts_once_per_transfer_holds. Qed.
Print Assumptions C17_vote_counts_once_per_transfer.
Theorem C17_vote_counts_once_per_transfer_refuted : forall v, v_lower v = false -> ~ vote_counts_once_per_transfer_stmt v.
Proof. exact vote_counts_once_per_transfer_refuted. Qed.
Print Assumptions C17_vote_counts_once_per_transfer_refuted.

(* ================================================================ soundness of the WHOLE spec checker on the repaired variants:
   over every history from the initial state (settings edits, sends of every kind, address rotations),
   whatever the checker reports is one of the design-level clauses (key:..., multi-send / custody send not
   covered by block, whitelist and limits) or a vote clause of an account touched by a rotation *)
Theorem C17_chk_sound_repaired :
  forall v, v_cust_only v = true -> v_lower v = true -> v_pwd v = true ->
  forall H minrew bals ops c, In c (model_clauses v H minrew bals ops) -> residual c = true.
Proof. exact repaired_all_clauses. Qed.
Print Assumptions C17_chk_sound_repaired.

(* the checker accepts every history: refuted on every variant (the design-level holes) *)
Theorem C17_full_refuted : forall v, ~ C17_full_stmt v.
Proof. exact C17_full_refuted. Qed.
Print Assumptions C17_full_refuted.

(* ================================================================ non-vacuity *)
Example C17_nonvacuous_guarded_state : forall v,
  let s := w_run v (w_setup 100 false) in
  exists st c, a_set (getA s 0) = Some st /\ s_en st = true /\ a_cust (getA s 0) = Some c /\ c <> [].
Proof. exact nonvacuous_guarded. Qed.

Example C17_nonvacuous_effective_approval : forall v,
  let s := w_run v (app (w_setup 100 false) [w_send]) in exec v Hid 200 s (OApprove 2 0 "ab12cd34") <> s.
Proof. exact nonvacuous_approval. Qed.

(* the honest history (right password, both custodians, each once, a plain bank send afterwards) is paid
   out and accepted by the checker on every variant *)
Example C17_nonvacuous_honest_run : forall v, model_clauses v Hid 200 w_bals w_honest = [] /\ bal0 (w_run v w_honest) 5 = 1000.
Proof. exact honest_run_clean. Qed.

(* the second request replaces the pending one: a lost request, not an early pay-out *)
Example C17_second_send_overwrites_pool : forall v,
  let s := w_run v (app (w_setup 100 false) [w_send; OApprove 2 0 "ab12cd34"; OSend 0 4 [(0, 2000)] "P2" [(0, 400)] "cd34ab12"])%string in
  option_map (map fst) (a_pool (getA s 0)) = Some ["cd34ab12"%string]
  /\ is_panic (step v Hid 200 s (OApprove 3 0 "ab12cd34")) = true.
Proof. exact second_send_overwrites_pool. Qed.

(* the repaired limit path enforces a window; the unrepaired one panics *)
Example C17_limits_window :
  bal0 (w_run v_fixed w_limits) 5 = 2000
  /\ is_ok (step v_fixed Hid 200 (w_run v_fixed (firstn 4 w_limits)) (OBank 0 5 [(0, 1)] 1700000020)) = false
  /\ is_panic (step v_tree0 Hid 200 (w_run v_tree0 (firstn 2 w_limits)) (OBank 0 5 [(0, 600)] 1700000000)) = true.
Proof. exact limits_window_example. Qed.

(* ================================================================ the release theorem at full strength (repaired variants), over every history:
   settings edits, custodian list edits, sends of every kind and address rotations included.
   [run_steps] are the accepted steps of the model's history with the checker's own log before each;
   [approve_log] is the log after an accepted approval. *)

(* ([rotated lg t = false]: the account was not touched by an address rotation and no person voted for its
   transfer under two addresses -- the checker names the clauses of such accounts ..._rotated / ..._alias)
   a pooled transfer leaves the pool at an approval only when the configured share of the account's custodians
   is on record for it, the password (when in use) was confirmed with the password of the request, and the
   record holds every (custodian, account, transfer) at most once *)
Theorem C17_release_at_approval :
  forall v, v_cust_only v = true -> v_lower v = true -> v_pwd v = true ->
  forall H minrew bals ops lg a s1 s2 f t hraw tx,
  In (lg, a, s1, s2, OApprove f t hraw) (run_steps v H minrew bals ops) ->
  released s1 s2 t (to_lower hraw) = Some tx -> rotated (approve_log lg s1 s2 f t hraw) t = false ->
  let lg1 := approve_log lg s1 s2 f t hraw in
  let T := getA s1 t in
  (guarded T = true -> 0 < n_cust T -> forall st, a_set T = Some st ->
     s_mode st * n_cust T <= count_appr t (to_lower hraw) (l_appr lg1) * 100)
  /\ (flag s_pwd T = true -> in2 t (to_lower hraw) (l_conf lg1) = true)
  /\ log_distinct lg1.
Proof. exact release_at_approval. Qed.
Print Assumptions C17_release_at_approval.

(* ... and at a password confirmation only with the password of the request and the same share on record *)
Theorem C17_release_at_confirmation :
  forall v, v_cust_only v = true -> v_lower v = true -> v_pwd v = true ->
  forall H minrew bals ops lg a s1 s2 f t hraw p ph tx,
  In (lg, a, s1, s2, OConfirm f t hraw p ph) (run_steps v H minrew bals ops) ->
  released s1 s2 t (to_lower hraw) = Some tx -> rotated lg t = false ->
  let T := getA s1 t in
  (p = t_pw tx \/ ph = t_pw tx)
  /\ (guarded T = true -> 0 < n_cust T -> forall st, a_set T = Some st ->
        s_mode st * n_cust T <= count_appr t (to_lower hraw) (l_appr lg) * 100).
Proof. exact release_at_confirmation. Qed.
Print Assumptions C17_release_at_confirmation.

(* exactly once: a vote or a confirmation takes no more than the voter's reward out of the requesting account
   unless the transfer leaves the pool in that very step; a decline never takes a transfer out of the pool *)
Theorem C17_payout_takes_transfer_out_of_pool :
  forall v, v_cust_only v = true -> v_lower v = true -> v_pwd v = true ->
  forall H minrew bals ops lg a s1 s2 o t hraw,
  In (lg, a, s1, s2, o) (run_steps v H minrew bals ops) ->
  (exists f, o = OApprove f t hraw) \/ (exists f, o = ODecline f t hraw) \/ (exists f p ph, o = OConfirm f t hraw p ph) ->
  paid_without_release s1 s2 t (to_lower hraw) = false
  /\ ((exists f, o = ODecline f t hraw) -> released s1 s2 t (to_lower hraw) = None).
Proof. exact payout_takes_transfer_out_of_pool. Qed.
Print Assumptions C17_payout_takes_transfer_out_of_pool.

(* the checker judges every accepted step of every history of the model: nothing but residual clauses *)
Theorem C17_chk_accepts_every_model_step :
  forall v, v_cust_only v = true -> v_lower v = true -> v_pwd v = true ->
  forall H minrew bals ops lg a s1 s2 o c,
  In (lg, a, s1, s2, o) (run_steps v H minrew bals ops) ->
  In c (fst (step_clauses (List.length bals) lg a s1 s2 o)) -> residual c = true.
Proof. exact run_step_clauses_residual. Qed.
Print Assumptions C17_chk_accepts_every_model_step.

(* the checker's record is well formed on EVERY trace, real or model: distinct entries ... *)
Theorem C17_log_distinct :
  forall tr n lg id0 a0 s, log_distinct lg ->
  (forall lg' a s1 s2 o, In (lg', a, s1, s2, o) (acc_steps n lg id0 a0 s tr) -> log_distinct lg' /\ log_distinct (snd (step_clauses n lg' a s1 s2 o)))
  /\ log_distinct (final_log n lg id0 a0 s tr).
Proof. exact log_distinct_steps. Qed.
Print Assumptions C17_log_distinct.

(* ... each of which is an accepted approval of a custodian listed at that moment whose vote the store recorded *)
Theorem C17_log_entries_witnessed :
  forall tr n lg id0 a0 s e,
  In e (l_appr (final_log n lg id0 a0 s tr)) -> rotated (final_log n lg id0 a0 s tr) (snd (fst e)) = false ->
  In e (l_appr lg) \/ witnessed (acc_steps n lg id0 a0 s tr) e.
Proof. exact log_entries_witnessed. Qed.
Print Assumptions C17_log_entries_witnessed.
