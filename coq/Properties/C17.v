(* C17 -- Custody: guarded funds leave only with the required approvals.
   Only statements, each closed by [exact] of a lemma of Proofs/Custody.v, with its assumptions.
   The model (Model/Custody.v) is the ante decorator's custody part followed by the sixteen custody
   handlers and the two bank send paths, AS THE CODE IS; it is tied to /repo on every run by the
   differential run of harness/cmd/c17 (model = real code step by step).  [H] is sha256+hex (nothing
   assumed), [minrew] the network property MinCustodyReward. *)
From Sekai Require Import Base.Prelude Model.Custody Model.C17Check Proofs.Custody.

(* ---------------------------------------------------------------- clauses that hold *)

(* plain bank send is blocked while custodians exist -- in every state, hence after every history *)
Theorem C17_bank_send_blocked_with_custodians :
  forall H minrew s0 ops sg to amt st c,
  let s := run H minrew s0 ops in
  a_set (getA s sg) = Some st -> s_en st = true -> a_cust (getA s sg) = Some c -> c <> [] ->
  (exists e, step H minrew s (OBank sg to amt) = Err e) /\ exec H minrew s (OBank sg to amt) = s.
Proof.
  intros H minrew s0 ops sg to amt st c s Hs He Hc Hn. split.
  - exact (bank_send_blocked H minrew s sg to amt st c Hs He Hc Hn).
  - exact (bank_send_blocked_history H minrew s0 ops sg to amt st c Hs He Hc Hn).
Qed.
Print Assumptions C17_bank_send_blocked_with_custodians.

(* the whitelist restricts every plain bank send *)
Theorem C17_whitelist_restricts_bank_send :
  forall H minrew s0 ops sg to amt st w,
  let s := run H minrew s0 ops in
  a_set (getA s sg) = Some st -> s_wl st = true -> a_wl (getA s sg) = Some w -> bool_at to w = false ->
  exec H minrew s (OBank sg to amt) = s.
Proof. exact whitelist_restricts_history. Qed.
Print Assumptions C17_whitelist_restricts_bank_send.

(* what an ACCEPTED plain bank send implies: no custodians, destination whitelisted, limits not in use *)
Theorem C17_bank_send_accepted_only_if :
  forall H minrew s sg to amt s', step H minrew s (OBank sg to amt) = Ok s' ->
  match a_set (getA s sg) with
  | None => True
  | Some st => (s_en st = true -> a_cust (getA s sg) = Some [])
               /\ (s_wl st = true -> forall w, a_wl (getA s sg) = Some w -> bool_at to w = true)
               /\ s_lim st = false
  end.
Proof. exact bank_send_accepted. Qed.
Print Assumptions C17_bank_send_accepted_only_if.

(* each (voter, target, hash string) counts once, over every history: after an approval took effect,
   no later approval or decline with the same three changes anything, whatever happened in between *)
Theorem C17_vote_counts_once_per_address :
  forall H minrew s f t h ops,
  let s1 := exec H minrew s (OApprove f t h) in
  s1 <> s ->
  let s2 := run H minrew s1 ops in
  exec H minrew s2 (OApprove f t h) = s2 /\ exec H minrew s2 (ODecline f t h) = s2.
Proof. exact vote_counts_once. Qed.
Print Assumptions C17_vote_counts_once_per_address.

(* the vote store only grows: a mark is never removed or rewritten by any transaction *)
Theorem C17_vote_marks_persist :
  forall H minrew ops s f t h v,
  mark_get f t h (marks s) = Some v -> mark_get f t h (marks (run H minrew s ops)) = Some v.
Proof. exact marks_mono_run. Qed.
Print Assumptions C17_vote_marks_persist.

(* the spec checker accepts every plain bank send the model accepts (clauses blocked / whitelist / limits) *)
Theorem C17_chk_bank_sound :
  forall H minrew s sg to amt s',
  step H minrew s (OBank sg to amt) = Ok s' -> path_clauses (getA s sg) to amt "bank_send" = [].
Proof. exact chk_bank_sound. Qed.
Print Assumptions C17_chk_bank_sound.

(* over EVERY history of the model the checker never reports a plain bank send *)
Theorem C17_chk_bank_sound_history :
  forall H minrew bals ops c, In c (model_clauses H minrew bals ops) ->
  c <> "blocked:bank_send"%string /\ c <> "whitelist:bank_send"%string /\ c <> "limits:bank_send"%string.
Proof. exact chk_bank_sound_history. Qed.
Print Assumptions C17_chk_bank_sound_history.

(* ---------------------------------------------------------------- settings change only with the key *)
(* full strength: REFUTED on the unchanged tree (three independent witnesses: a message type without
   an arm; a signer without record naming the victim as target; a guarded signer naming its own
   NextController) *)
Theorem C17_settings_change_requires_key_refuted : ~ settings_change_requires_key_stmt.
Proof. exact settings_change_requires_key_refuted. Qed.
Print Assumptions C17_settings_change_requires_key_refuted.

Theorem C17_settings_change_by_stranger_via_target : exists ops o x st,
  let s := w_run ops in
  signer o <> x /\ a_set (getA s (signer o)) = None /\
  a_set (getA s x) = Some st /\ s_en st = true /\ config_eqb (getA s x) (getA (exec Hid 200 s o) x) = false
  /\ forall k, op_kp o = Some k -> Hid (k_old k) <> s_key st.
Proof. exact key_refuted_target_norecord. Qed.
Print Assumptions C17_settings_change_by_stranger_via_target.

Theorem C17_settings_change_via_own_next_controller : exists ops o x st,
  let s := w_run ops in
  signer o <> x /\ a_set (getA s x) = Some st /\ s_en st = true
  /\ config_eqb (getA s x) (getA (exec Hid 200 s o) x) = false
  /\ forall k, op_kp o = Some k -> Hid (k_old k) <> s_key st.
Proof. exact key_refuted_target_next. Qed.
Print Assumptions C17_settings_change_via_own_next_controller.

(* what does hold: the seven message types with an arm, sent by a guarded signer, are accepted only
   with the preimage of the SIGNER's key, and name no target or the signer's NextController *)
Theorem C17_settings_change_requires_key_partial :
  forall H minrew s o k st s',
  keyed_op o = Some k -> a_set (getA s (signer o)) = Some st -> s_en st = true ->
  step H minrew s o = Ok s' ->
  H (k_old k) = s_key st /\ (k_tgt k = -1 \/ k_tgt k = s_next st).
Proof. exact keyed_requires_own_key. Qed.
Print Assumptions C17_settings_change_requires_key_partial.

Theorem C17_limits_messages_rejected_for_guarded_signer :
  forall H minrew s o st,
  (match o with OAddLim _ _ _ _ _ | ORemLim _ _ _ | ODropLim _ _ => True | _ => False end) ->
  a_set (getA s (signer o)) = Some st -> s_en st = true -> is_ok (step H minrew s o) = false.
Proof. exact limits_ops_rejected_when_enabled. Qed.
Print Assumptions C17_limits_messages_rejected_for_guarded_signer.

(* ---------------------------------------------------------------- only custodians count *)
Theorem C17_only_custodians_count_refuted : ~ only_custodians_count_stmt.
Proof. exact only_custodians_count_refuted. Qed.
Print Assumptions C17_only_custodians_count_refuted.

(* ---------------------------------------------------------------- password confirmed when required *)
Theorem C17_password_confirmed_when_required_refuted : ~ password_confirmed_when_required_stmt.
Proof. exact password_confirmed_when_required_refuted. Qed.
Print Assumptions C17_password_confirmed_when_required_refuted.

(* ---------------------------------------------------------------- release only after the threshold *)
Theorem C17_release_only_after_threshold_refuted : ~ release_only_after_threshold_stmt.
Proof. exact release_only_after_threshold_refuted. Qed.
Print Assumptions C17_release_only_after_threshold_refuted.

(* one custodian counts twice for one transfer by spelling its hash differently *)
Theorem C17_vote_counts_once_per_transfer_refuted : ~ vote_counts_once_per_transfer_stmt.
Proof. exact vote_counts_once_per_transfer_refuted. Qed.
Print Assumptions C17_vote_counts_once_per_transfer_refuted.

(* what does hold, over every history from the initial state: the vote counter of a pooled transfer never
   exceeds the number of approval marks recorded for it, and a pay-out at an approval needs the
   counter (including this vote) to reach the configured share of the custodian map *)
Theorem C17_votes_bounded_by_marks :
  forall H minrew bals ops t p h tx,
  let s := run H minrew (init_state bals) ops in
  a_pool (getA s t) = Some p -> pool_get h p = Some tx -> t_votes tx <= count_marks t h (marks s).
Proof. exact votes_bounded_by_marks. Qed.
Print Assumptions C17_votes_bounded_by_marks.

Theorem C17_release_needs_counter_partial :
  forall H minrew s f t h s' st c p tx,
  step H minrew s (OApprove f t h) = Ok s' ->
  mark_get f t h (marks s) = None ->
  a_set (getA s t) = Some st -> s_en st = true -> a_cust (getA s t) = Some c ->
  a_pool (getA s t) = Some p -> pool_get (to_lower h) p = Some tx ->
  (match a_pool (getA s' t) with Some p' => pool_get (to_lower h) p' | None => None end) = None ->
  s_mode st <= Z.quot ((t_votes tx + 1) * 100) (map_len c) /\ (s_pwd st = true -> t_conf tx = true).
Proof. exact approve_release_needs_counter. Qed.
Print Assumptions C17_release_needs_counter_partial.

(* a custody send pays out directly only without custodians and without password *)
Theorem C17_direct_payout_only_unguarded :
  forall H minrew s sg to amt pw rew h s' st,
  step H minrew s (OSend sg to amt pw rew h) = Ok s' -> a_set (getA s sg) = Some st ->
  a_pool (getA s' sg) = a_pool (getA s sg) -> a_pool (getA s sg) = None ->
  s_pwd st = false /\ (s_en st = true -> a_cust (getA s sg) = Some []).
Proof. exact send_direct_only_unguarded. Qed.
Print Assumptions C17_direct_payout_only_unguarded.

(* the whole property (the checker accepts every history of the model): refuted *)
Theorem C17_full_refuted : ~ C17_full_stmt.
Proof. exact C17_full_refuted. Qed.
Print Assumptions C17_full_refuted.

(* ---------------------------------------------------------------- non-vacuity *)
(* a reachable guarded state with custodians and a whitelist satisfying the hypotheses of the first theorems *)
Example C17_nonvacuous_guarded_state :
  let s := w_run (w_setup 100 false) in
  exists st c, a_set (getA s 0) = Some st /\ s_en st = true /\ a_cust (getA s 0) = Some c /\ c <> [].
Proof. exact nonvacuous_guarded. Qed.

(* an approval that takes effect (hypothesis of the vote theorem) *)
Example C17_nonvacuous_effective_approval :
  let s := w_run (app (w_setup 100 false) [w_send]) in exec Hid 200 s (OApprove 2 0 "ab12cd34") <> s.
Proof. exact nonvacuous_approval. Qed.

(* the honest history (right password, both custodians, each once) is paid out and accepted by the checker *)
Example C17_nonvacuous_honest_run :
  model_clauses Hid 200 w_bals (app (w_setup 100 true) [w_send; OConfirm 0 0 "ab12cd34" "p1" "P1"; OApprove 2 0 "ab12cd34";
                                                         OApprove 2 0 "ab12cd34"; OApprove 3 0 "ab12cd34"; OBank 0 5 10])%string = []
  /\ a_bal (getA (w_run (app (w_setup 100 true) [w_send; OConfirm 0 0 "ab12cd34" "p1" "P1"; OApprove 2 0 "ab12cd34";
                                                  OApprove 2 0 "ab12cd34"; OApprove 3 0 "ab12cd34"; OBank 0 5 10])%string) 5) = 1000.
Proof. exact honest_run_clean. Qed.

(* the second request replaces the pending one: a lost request, not an early pay-out *)
Example C17_second_send_overwrites_pool :
  let s := w_run (app (w_setup 100 false) [w_send; OApprove 2 0 "ab12cd34"; OSend 0 4 2000 "P2" [400] "cd34ab12"])%string in
  option_map (map fst) (a_pool (getA s 0)) = Some ["cd34ab12"%string]
  /\ is_panic (step Hid 200 s (OApprove 3 0 "ab12cd34")) = true.
Proof. exact second_send_overwrites_pool. Qed.
