(* C09 -- Fees: charged exactly as declared, within bounds; failed work leaves no trace.
   Only statements, each closed by [exact] of a lemma of Proofs/Fees.v, and its assumptions.
   The model (Model/Fees.v, Model/Filters.v) is tied to /repo by Gen/AnteChain.v (regenerated from
   app/ante/ante.go and app/app.go) and by the ABCI-level differential run (Model/C09Check.v). *)
From Sekai Require Import Base.Prelude Base.Dec Model.Filters Model.Fees Model.C09Check Gen.AnteChain
  Proofs.Filters Proofs.Fees.

(* A fee is accepted iff every coin is a registered, fee-enabled, non-frozen token (a foreign one
   only while foreign fee payments are enabled), its value at the registered rates lies within
   [MinTxFee, MaxTxFee] and covers the sum over the messages of max(execution fee, failure fee) --
   outside the integer wrap-around cases excluded by [no_overflow]. *)
Theorem C09_fee_accept_spec : forall c fee ms,
  no_overflow c fee ms = true ->
  (validate_fee c fee ms = Ok tt <->
   forallb (spec_coin_ok c) fee = true
   /\ c_min_fee c * PREC <= spec_value c fee <= c_max_fee c * PREC
   /\ spec_cover c ms * PREC <= spec_value c fee).
Proof. exact fee_accept_spec. Qed.
Print Assumptions C09_fee_accept_spec.

(* the denomination part needs no guard *)
Theorem C09_fee_coins_acceptable : forall c fee ms,
  validate_fee c fee ms = Ok tt -> forallb (spec_coin_ok c) fee = true.
Proof. exact fee_coins_ok. Qed.
Print Assumptions C09_fee_coins_acceptable.

(* REFUTED without the guard: sdk.NewDec(int64(executionMaxFee)) -- an execution fee of 2^63 turns
   negative and a fee of 100 is accepted although it does not cover it ... *)
Theorem C09_fee_overflow_refuted :
  exists c fee ms, validate_fee c fee ms = Ok tt /\ ~ (spec_cover c ms * PREC <= spec_value c fee).
Proof. exact fee_overflow_refuted. Qed.
Print Assumptions C09_fee_overflow_refuted.

(* ... and `executionMaxFee += maxFee` wraps: two fees that sum to 2^64 + 5 *)
Theorem C09_fee_wrap_refuted :
  exists c fee ms, validate_fee c fee ms = Ok tt /\ ~ (spec_cover c ms * PREC <= spec_value c fee).
Proof. exact fee_wrap_refuted. Qed.
Print Assumptions C09_fee_wrap_refuted.

(* The fee payer is charged exactly the declared fee and the fee collector receives exactly it;
   nobody else's balance changes during admission. *)
Theorem C09_charged_exactly : forall sh wired c s t s',
  ante sh wired c s t = Ok s' -> payer_of t <> collector ->
  forall d, bal s' (payer_of t) d = bal s (payer_of t) d - amt_of (t_fee t) d
            /\ bal s' collector d = bal s collector d + amt_of (t_fee t) d
            /\ (forall a, a <> payer_of t -> a <> collector -> bal s' a d = bal s a d).
Proof. exact charged_exactly. Qed.
Print Assumptions C09_charged_exactly.

(* A transaction whose messages fail -- by an error or by a panic -- leaves exactly the admission
   bookkeeping: the state is the one the ante handler produced -- fee moved from payer to
   collector, signer accounts (sequence, first-use public key), execution-status list extended,
   payment history of the payer (only if wired); keys written by messages ([s_marks]), every other
   balance, every other account are those of the state before. *)
Theorem C09_failed_msgs_no_trace : forall sh wired post c s t s' r,
  run_tx sh wired post c s t = (s', r) -> msgs_failed r -> admission sh wired c s t s'.
Proof. exact failed_msgs_no_trace. Qed.
Print Assumptions C09_failed_msgs_no_trace.

(* A transaction refused at admission (error or panic) leaves nothing at all. *)
Theorem C09_rejected_leaves_nothing : forall sh wired post c s t s' r,
  run_tx sh wired post c s t = (s', r) -> r = TxAnteRejected \/ r = TxAntePanic -> s' = s.
Proof. exact run_tx_rejected. Qed.
Print Assumptions C09_rejected_leaves_nothing.

(* Execution-fee refunds never exceed what the payer paid: the pay-back of the feeprocessing
   keeper takes, denomination by denomination, at most what the payment history holds.
   (On the current tree the history is never filled -- the SDK fee decorator is handed the plain
   bank keeper, [gen_wired = false] -- so every refund is empty; the Example below uses a
   non-empty history.) *)
Theorem C09_refund_le_paid : forall ts hist amt pb,
  rates_nonneg ts -> coins_pos hist -> coins_pos amt ->
  payback ts hist amt = Ok pb -> forall d, 0 <= amt_of pb d <= amt_of hist d.
Proof. exact refund_le_paid. Qed.
Print Assumptions C09_refund_le_paid.

(* ... and over every history of fee payments and refunds of one payer (induction over the
   operation list), the total refunded never exceeds the total paid, in any denomination *)
Theorem C09_refunds_le_payments_over_histories : forall ts ops h paid refd,
  rates_nonneg ts -> Forall hop_pos ops ->
  hist_run ts ops [] [] [] = Ok (h, paid, refd) -> forall d, amt_of refd d <= amt_of paid d.
Proof. exact refunds_le_payments. Qed.
Print Assumptions C09_refunds_le_payments_over_histories.

(* admission bookkeeping of the signers: every signer's sequence goes up by exactly one and its
   public key is recorded *)
Theorem C09_signers_bookkeeping : forall sh wired c s t s',
  ante sh wired c s t = Ok s' ->
  forall a, In a (tx_signers t) ->
  exists ac, get_acct s a = Some ac /\ get_acct s' a = Some (mkAcct (a_seq ac + 1) true).
Proof. exact ante_signers. Qed.
Print Assumptions C09_signers_bookkeeping.

(* the spec checker of Model/C09Check.v accepts the model: the three fee clauses ... *)
Theorem C09_checker_accepts_model_fee : forall sh wired c s t s',
  ante sh wired c s t = Ok s' -> no_overflow c (t_fee t) (t_msgs t) = true ->
  flag (forallb (spec_coin_ok c) (t_fee t)) "fee_denom"
  ++ flag ((c_min_fee c * PREC <=? spec_value c (t_fee t)) && (spec_value c (t_fee t) <=? c_max_fee c * PREC)) "fee_range"
  ++ flag (spec_cover c (t_msgs t) * PREC <=? spec_value c (t_fee t))
          (if two63 <=? spec_cover c (t_msgs t) then "fee_cover:execution-fee-sum>=2^63" else "fee_cover") = [].
Proof. exact chk_fee_sound. Qed.
Print Assumptions C09_checker_accepts_model_fee.

(* ... the balance clause of a transaction whose messages failed ("charge:failed") ... *)
Theorem C09_checker_accepts_model_charge : forall sh wired post c s t s' r,
  run_tx sh wired post c s t = (s', r) -> msgs_failed r -> payer_of t <> collector ->
  forall a d, bal s' a d - bal s a d = expected_delta c t false a d.
Proof. exact chk_charge_failed_sound. Qed.
Print Assumptions C09_checker_accepts_model_charge.

(* ... and of a delivered one ("charge:delivered"): exactly the fee plus the transfers its
   messages ask for (a custody send of an account with custodians is parked, not executed);
   the "sequence" clause is C09_signers_bookkeeping *)
Theorem C09_checker_accepts_model_charge_delivered : forall sh wired post c s t s',
  run_tx sh wired post c s t = (s', TxOk) -> payer_of t <> collector ->
  forall a d, bal s' a d - bal s a d = expected_delta c t true a d.
Proof. exact chk_charge_delivered_sound. Qed.
Print Assumptions C09_checker_accepts_model_charge_delivered.

(* THE REFUND PATH IS DEAD WHILE UNWIRED.  The wiring is regenerated from app/app.go
   ([gen_wired]: is the feeprocessing keeper the one handed to the SDK fee deduction;
   [gen_post_handler_installed]).  With [wired = false] no payment history is ever recorded, over
   any chain of blocks, whatever the post handler does ... *)
Theorem C09_refund_path_dead_when_unwired : forall sh post c bs s s',
  no_history s -> run_blocks sh false post c s bs = Ok s' -> no_history s'.
Proof. exact refund_path_dead. Qed.
Print Assumptions C09_refund_path_dead_when_unwired.

(* ... and then the end of every block returns nothing to anybody: [refund_le_paid] holds with
   every refund empty.  (When the tree wires the keeper, [gen_wired] becomes true, the model and
   the differential run follow it, and C09_refunds_le_payments_over_histories is the live bound.) *)
Theorem C09_end_block_returns_nothing_when_unwired : forall c s s',
  no_history s -> end_block c s = Ok s' -> no_history s' /\ forall x d, bal s' x d = bal s x d.
Proof. exact end_block_neutral. Qed.
Print Assumptions C09_end_block_returns_nothing_when_unwired.

(* the tree is inside the translator's fragment and its decorator chain is the modelled one *)
Theorem C09_translation_side_conditions :
  gen_errors = [] /\ ante_chain = expected_chain.
Proof. exact gen_chain_ok. Qed.
Print Assumptions C09_translation_side_conditions.

(* ---------------- non-vacuity *)
Definition ex_cfg : fcfg :=
  mkCfg (mkFilt "ukex" (mkBW ["frozen"%string] ["ukex"%string]) true false 1 1 [] 1000)
        [mkToken "ukex" PREC true; mkToken "ubtc" (10 * PREC) true] true 100 1000000
        [("send"%string, (300, 50))] [] 0.
Definition ex_state : st :=
  mkSt [(("a"%string, "ukex"%string), 5000); (("a"%string, "ubtc"%string), 70)] [("a"%string, mkAcct 3 false)] [] [] [].
(* a fee paid in two tokens (value 200 + 30*10 = 500 >= 300), a message that fails: only the
   admission bookkeeping remains *)
Definition ex_tx : tx := mkTx [("ubtc"%string, 30); ("ukex"%string, 200)] [MSend "a" "b" [("ukex"%string, 999999)]] [3] true "" 200000 false.
Example C09_nonvacuous_failed_tx :
  no_overflow ex_cfg (t_fee ex_tx) (t_msgs ex_tx) = true /\
  exists s', run_tx gen_shape gen_wired gen_post_handler_installed ex_cfg ex_state ex_tx = (s', TxMsgFailed)
             /\ bal s' "a" "ukex" = 4800 /\ bal s' "a" "ubtc" = 40 /\ bal s' collector "ubtc" = 30
             /\ get_acct s' "a" = Some (mkAcct 4 true) /\ s_exec s' = [("send"%string, "a"%string, false)].
Proof. split; [vm_compute; reflexivity|]. eexists. vm_compute. repeat split. Qed.

(* a wired tree with a post handler: a delivered send marked successful is returned
   FailureFee - ExecutionFee = 0 here (300 > 50), a failed one 250, paid back from the history *)
Definition ex_tx_ok : tx := mkTx [("ubtc"%string, 30); ("ukex"%string, 200)] [MSend "a" "b" [("ukex"%string, 9)]] [3] true "" 200000 false.
Example C09_nonvacuous_wired_refund :
  (let '(s1, r1) := run_tx shape_repaired true true ex_cfg ex_state ex_tx in
   match end_block ex_cfg s1 with Ok s2 => (r1, bal s2 "a" "ubtc" - bal s1 "a" "ubtc", hist_of s2 "a") | _ => (r1, -1, []) end)
  = (TxMsgFailed, 25, [("ubtc"%string, 5); ("ukex"%string, 200)])
  /\ (let '(s1, r1) := run_tx shape_repaired true true ex_cfg ex_state ex_tx_ok in
      match end_block ex_cfg s1 with Ok s2 => (r1, s_exec s1, bal s2 "a" "ubtc" - bal s1 "a" "ubtc") | _ => (r1, [], -1) end)
     = (TxOk, [("send"%string, "a"%string, true)], 0).
Proof. vm_compute. split; reflexivity. Qed.

Example C09_nonvacuous_history :
  hist_run (c_tokens ex_cfg) [HPay [("ubtc"%string, 30); ("ukex"%string, 200)]; HRefund [("ukex"%string, 250)]; HPay [("ukex"%string, 10)]; HRefund [("ukex"%string, 1000)]] [] [] []
  = Ok ([], [("ukex"%string, 10); ("ubtc"%string, 30); ("ukex"%string, 200)], [("ubtc"%string, 5); ("ukex"%string, 210); ("ubtc"%string, 25)]).
Proof. vm_compute. reflexivity. Qed.

Example C09_nonvacuous_refund :
  payback (c_tokens ex_cfg) [("ubtc"%string, 30); ("ukex"%string, 200)] [("ukex"%string, 250)] = Ok [("ubtc"%string, 25)].
Proof. vm_compute. reflexivity. Qed.
