(* C02 -- Transactions are authenticated by every signer and cannot be replayed.
   Only statements, each closed by [exact] of a lemma from Proofs/Auth.v, and its assumptions.
   The four crypto functions are universally quantified: nothing is assumed about them. *)
From Sekai Require Import Base.Prelude Model.Auth Model.C02Check Model.C02Chain Gen.C02AnteChain Proofs.Auth.

(* HEADLINE (full strength, no guard on the transaction).  The tree as it is = the [repaired]
   variant (the check script establishes this on every run with two probe transactions and the whole
   differential run).  An accepted transaction was authorised by EVERY account it names as signer,
   for that account's current sequence number: whatever message types, keys attached, sign modes
   and signature encodings. *)
Theorem C02_accept_authorised :
  forall verify recover addr_of_pk eth_sender c s t s',
  ante verify recover addr_of_pk eth_sender repaired c s t = Ok s' ->
  Forall2 (Authorised verify recover addr_of_pk eth_sender c s t) (signers t) (t_slots t).
Proof. exact accept_authorised_repaired. Qed.
Print Assumptions C02_accept_authorised.

(* the same for ANY setting of the two flags, under the guard [sound_for] (both repairs present, or
   no raw Ethereum message in the transaction) *)
Theorem C02_accept_authorised_guarded :
  forall verify recover addr_of_pk eth_sender v c s t s',
  sound_for v t = true ->
  ante verify recover addr_of_pk eth_sender v c s t = Ok s' ->
  Forall2 (Authorised verify recover addr_of_pk eth_sender c s t) (signers t) (t_slots t).
Proof. exact accept_authorised. Qed.
Print Assumptions C02_accept_authorised_guarded.

(* About the OLD flags (the tree before commit 313a134, and each half-repair): the full statement is
   REFUTED whenever one of the two repairs is missing -- the raw Ethereum branch never tied the
   recovered sender to the signer, and a signer accepted on the Ethereum path ended the loop *)
Theorem C02_accept_authorised_refuted_sender :
  forall v, v_check_sender v = false ->
  exists verify recover addr_of_pk eth_sender c s t s',
    ante verify recover addr_of_pk eth_sender v c s t = Ok s' /\
    ~ Forall2 (Authorised verify recover addr_of_pk eth_sender c s t) (signers t) (t_slots t).
Proof. exact accept_authorised_refuted_sender. Qed.
Print Assumptions C02_accept_authorised_refuted_sender.

Theorem C02_accept_authorised_refuted_cosigner :
  forall v, v_continue v = false ->
  exists verify recover addr_of_pk eth_sender c s t s',
    ante verify recover addr_of_pk eth_sender v c s t = Ok s' /\
    ~ Forall2 (Authorised verify recover addr_of_pk eth_sender c s t) (signers t) (t_slots t).
Proof. exact accept_authorised_refuted_cosigner. Qed.
Print Assumptions C02_accept_authorised_refuted_cosigner.

(* ---- the theorems are about the WHOLE chain.  Gen/C02AnteChain.v is REGENERATED from app/ante/*.go on
   every run: the decorators of NewAnteHandler in order, and the shape of every `return` of every custom
   AnteHandle.  On the tree as it is: the translator met nothing outside its fragment; no custom decorator
   has a successful return that does not call next(ctx', tx, simulate) -- every return is next(...) or a
   non-nil error, and each decorator has a next(...) -- (no exceptions to pin); the SDK decorators are the
   ten of cosmos-sdk v0.47.6 known to continue; ValidateBasic, SetPubKey, SigGasConsume, SigVerification and
   IncrementSequence are all present, in this order. *)
Theorem C02_whole_chain_continues : chain_ok c02_chain c02_returns c02_gen_errors = true.
Proof. exact whole_chain_continues. Qed.
Print Assumptions C02_whole_chain_continues.
(* the functions the model was written from are the ones audited (fingerprints), and nothing in /repo
   besides SetPubKeyDecorator writes account keys / sequences / records *)
Theorem C02_audited_code_pinned : audited_code_pinned c02_fingerprints c02_account_writers = true.
Proof. exact audited_code_is_pinned. Qed.
Print Assumptions C02_audited_code_pinned.
(* what that buys: in a chain none of whose decorators accepts without calling next, an accepted
   transaction went through EVERY decorator (in particular the four authentication steps) *)
Theorem C02_chain_accept_runs_every_decorator :
  forall (S : Type) (pre : list (S -> dstep S)) d post s s',
  Forall (never_stops S) (pre ++ d :: post) ->
  run_chain S (pre ++ d :: post) s = Some s' ->
  exists s1 s2, run_chain S pre s = Some s1 /\ d s1 = DNext S s2 /\ run_chain S post s2 = Some s'.
Proof. exact chain_accept_runs_every_decorator. Qed.
Print Assumptions C02_chain_accept_runs_every_decorator.

(* The "exactly one message" rule of the Ethereum path is an obligation of EACH branch (the EIP-712
   digest / the raw Ethereum transaction cover the first message only): relaxing either refutes the
   full statement ... *)
Theorem C02_accept_authorised_refuted_msgs_eip712 :
  forall v, v_eip_single v = false ->
  exists verify recover addr_of_pk eth_sender c s t s',
    ante verify recover addr_of_pk eth_sender v c s t = Ok s' /\
    ~ Forall2 (Authorised verify recover addr_of_pk eth_sender c s t) (signers t) (t_slots t).
Proof. exact accept_authorised_refuted_msgs_eip712. Qed.
Print Assumptions C02_accept_authorised_refuted_msgs_eip712.
Theorem C02_accept_authorised_refuted_msgs_ethraw :
  forall v, v_raw_single v = false ->
  exists verify recover addr_of_pk eth_sender c s t s',
    ante verify recover addr_of_pk eth_sender v c s t = Ok s' /\
    ~ Forall2 (Authorised verify recover addr_of_pk eth_sender c s t) (signers t) (t_slots t).
Proof. exact accept_authorised_refuted_msgs_ethraw. Qed.
Print Assumptions C02_accept_authorised_refuted_msgs_ethraw.
(* ... and on the tree as it is a DIRECT slot accepted on the Ethereum path belongs to a transaction
   with exactly one message *)
Theorem C02_eth_path_single_message :
  forall verify recover addr_of_pk eth_sender v c s t s', sound_for v t = true ->
  ante verify recover addr_of_pk eth_sender v c s t = Ok s' ->
  forall i a x acc k, nth_error (signers t) i = Some a -> nth_error (t_slots t) i = Some x ->
  get_acc s a = Some acc -> (a_pub acc = Some k \/ (a_pub acc = None /\ s_att x = Some k)) ->
  addr_of_pk k <> a -> s_mode x = MDirect -> single_msg t = true.
Proof. exact eth_path_single_message. Qed.
Print Assumptions C02_eth_path_single_message.

(* A transaction that has been accepted once is rejected when submitted again -- whatever happened
   in between, and for EVERY variant of the code (also the code as it is): the first signer's
   slot is always compared with the account sequence, and sequences only grow.
   Bound (part of the statement): no uint64 wrap-around of a sequence number in between. *)
Theorem C02_replay_rejected :
  forall verify recover addr_of_pk eth_sender v c s t s' ops,
  seq_room s (1 + Z.of_nat (List.length ops)) ->
  ante verify recover addr_of_pk eth_sender v c s t = Ok s' ->
  is_ok (ante verify recover addr_of_pk eth_sender v c (run verify recover addr_of_pk eth_sender v c s' ops) t) = false.
Proof. exact replay_rejected. Qed.
Print Assumptions C02_replay_rejected.

(* what an accepted transaction changes: every signer's sequence grows by one (uint64), nobody
   else's (sequence, account number) changes, and a key on record is never replaced *)
Theorem C02_accept_effect :
  forall verify recover addr_of_pk eth_sender v c s t s',
  ante verify recover addr_of_pk eth_sender v c s t = Ok s' ->
  (forall a, sn s' a = if mem_addr a (signers t) then bump_sn (sn s a) else sn s a) /\
  (forall a acc k, get_acc s a = Some acc -> a_pub acc = Some k -> exists acc', get_acc s' a = Some acc' /\ a_pub acc' = Some k).
Proof. exact accept_effect. Qed.
Print Assumptions C02_accept_effect.

(* whatever public key is attached: for a first-time signer a key that does not control the address
   never makes the transaction acceptable, unless one of the Ethereum authorisations holds *)
Theorem C02_attached_key_useless :
  forall verify recover addr_of_pk eth_sender v c s t s',
  sound_for v t = true -> ante verify recover addr_of_pk eth_sender v c s t = Ok s' ->
  forall i a x acc k, nth_error (signers t) i = Some a -> nth_error (t_slots t) i = Some x ->
  get_acc s a = Some acc -> a_pub acc = None -> s_att x = Some k -> addr_of_pk k <> a ->
  EthAuthorised recover eth_sender c s t a x.
Proof. exact attached_key_useless. Qed.
Print Assumptions C02_attached_key_useless.

(* ... and when the key on record controls the address it decides alone (attached keys are ignored) *)
Theorem C02_key_on_record_decides :
  forall verify recover addr_of_pk eth_sender v c s t s',
  sound_for v t = true -> ante verify recover addr_of_pk eth_sender v c s t = Ok s' ->
  forall i a x acc k, nth_error (signers t) i = Some a -> nth_error (t_slots t) i = Some x ->
  get_acc s a = Some acc -> a_pub acc = Some k -> addr_of_pk k = a ->
  s_seq x = a_seq acc /\ verify k (doc_of c t x acc) (s_sig x) = true.
Proof. exact key_on_record_decides. Qed.
Print Assumptions C02_key_on_record_decides.

(* The spec checker that is run over the REAL observations accepts every step of the repaired model
   (instantiated with any oracle tables): the clauses auth / sequence / key / frame / panic are
   implied by the theorems above ... *)
Theorem C02_chk_step_sound :
  forall T g pre t bal, NoDup (map fst pre) -> step_clauses T g pre (model_step T g pre t bal) = [].
Proof. exact chk_step_sound. Qed.
Print Assumptions C02_chk_step_sound.

(* ... and every HISTORY of it, including the replay clause and the CheckTx clause *)
Theorem C02_chk_sound :
  forall T g init l, NoDup (map fst init) ->
  seq_room (state_of init) (Z.of_nat (List.length l)) -> id_consistent (map fst l) ->
  case_clauses (mkHist g T (match l with (t, _) :: _ =>
                              class_of (ante (t_verify T) (t_recover T) (t_addr_of_pk T) (t_eth_sender T) repaired (mkCtx 0 g) (state_of init) t)
                            | [] => -1 end) None init (model_trace T g init l)) = [].
Proof. exact chk_sound. Qed.
Print Assumptions C02_chk_sound.

(* the same statement under the name asked for: the spec checker accepts every run of the repaired model *)
Theorem C02_checker_accepts_model_runs :
  forall T g init l, NoDup (map fst init) ->
  seq_room (state_of init) (Z.of_nat (List.length l)) -> id_consistent (map fst l) ->
  case_clauses (mkHist g T (match l with (t, _) :: _ =>
                              class_of (ante (t_verify T) (t_recover T) (t_addr_of_pk T) (t_eth_sender T) repaired (mkCtx 0 g) (state_of init) t)
                            | [] => -1 end) None init (model_trace T g init l)) = [].
Proof. exact c02_checker_accepts_model_runs. Qed.
Print Assumptions C02_checker_accepts_model_runs.

(* ---- histories: ANY interleaving of accepted / rejected transactions of any number of accounts and of
   account creations, every variant of the code.  A transaction accepted at one position is not accepted at
   any later position ... *)
Theorem C02_never_accepted_twice :
  forall verify recover addr_of_pk eth_sender v c s pre t mid,
  acc_room s (Z.of_nat (List.length pre) + (1 + Z.of_nat (List.length mid))) ->
  Z.of_nat (List.length pre) + (1 + Z.of_nat (List.length mid)) < two64 ->
  is_ok (ante verify recover addr_of_pk eth_sender v c (run verify recover addr_of_pk eth_sender v c s pre) t) = true ->
  is_ok (ante verify recover addr_of_pk eth_sender v c (run verify recover addr_of_pk eth_sender v c s (pre ++ OpTx t :: mid)) t) = false.
Proof. exact never_accepted_twice. Qed.
Print Assumptions C02_never_accepted_twice.
(* ... and per account the sequence number is exactly the number of accepted transactions naming it as
   signer: strictly increasing on each of them, untouched by everything else (account number never changes) *)
Theorem C02_sequence_counts_accepted :
  forall verify recover addr_of_pk eth_sender v c ops s a acc,
  get_acc s a = Some acc -> acc_room s (Z.of_nat (List.length ops)) ->
  exists acc', get_acc (run verify recover addr_of_pk eth_sender v c s ops) a = Some acc' /\
    a_seq acc' = a_seq acc + accepted_for verify recover addr_of_pk eth_sender v c s ops a /\ a_num acc' = a_num acc.
Proof. exact sequence_counts_accepted. Qed.
Print Assumptions C02_sequence_counts_accepted.
Example C02_nonvacuous_history :
  acc_room w_state (Z.of_nat (List.length h_ops)) /\
  accepted_for e_verify e_recover w_addr_of_pk w_eth_sender repaired w_ctx w_state h_ops 200 = 1 /\
  accepted_for e_verify e_recover w_addr_of_pk w_eth_sender repaired w_ctx w_state h_ops 100 = 1 /\
  run e_verify e_recover w_addr_of_pk w_eth_sender repaired w_ctx w_state h_ops
    = [(100, mkAcc (Some (Secp 1)) 1 5); (200, mkAcc (Some (Secp 200)) 4 6); (300, mkAcc None 0 9)].
Proof. exact ex_history. Qed.

(* ---- "authorised EXACTLY that transaction": what each signing scheme covers.
   Key path (DIRECT / LEGACY_AMINO_JSON): the whole signed content.  Hypothesis stated: a signature
   verifies for one document only. *)
Theorem C02_exact_key_path :
  forall verify recover addr_of_pk eth_sender v c s t1 t2 s1 s2, sig_binds_doc verify ->
  sound_for v t1 = true -> sound_for v t2 = true ->
  ante verify recover addr_of_pk eth_sender v c s t1 = Ok s1 -> ante verify recover addr_of_pk eth_sender v c s t2 = Ok s2 ->
  forall i a x1 x2 acc k,
  nth_error (signers t1) i = Some a -> nth_error (t_slots t1) i = Some x1 ->
  nth_error (signers t2) i = Some a -> nth_error (t_slots t2) i = Some x2 ->
  get_acc s a = Some acc -> a_pub acc = Some k -> addr_of_pk k = a -> s_sig x1 = s_sig x2 ->
  t_id t1 = t_id t2 /\ s_mode x1 = s_mode x2.
Proof. exact exact_key_path. Qed.
Print Assumptions C02_exact_key_path.

(* EIP-712: the message (with the sequence and chain id 8789) -- hypothesis: a signature recovers to the
   same address for one digest only *)
Theorem C02_exact_eip712_covers_message :
  forall verify recover addr_of_pk eth_sender c s t1 t2 s1 s2, sig_binds_digest recover ->
  ante verify recover addr_of_pk eth_sender repaired c s t1 = Ok s1 -> ante verify recover addr_of_pk eth_sender repaired c s t2 = Ok s2 ->
  forall a x1 x2 acc k id1 l1 id2 l2,
  signers t1 = [a] -> t_slots t1 = [x1] -> signers t2 = [a] -> t_slots t2 = [x2] ->
  t_msgs t1 = [MPlain id1 l1] -> t_msgs t2 = [MPlain id2 l2] -> s_mode x1 = MDirect -> s_mode x2 = MDirect ->
  get_acc s a = Some acc -> a_pub acc = Some k -> addr_of_pk k <> a -> s_sig x1 = s_sig x2 ->
  id1 = id2.
Proof. exact exact_eip712_covers_message. Qed.
Print Assumptions C02_exact_eip712_covers_message.

(* ... but nothing else: REFUTED -- two transactions with different content (fee, memo, ...), the same
   messages and the same signature slots are both admitted from the same state, on the EIP-712 path and on
   the raw Ethereum path, with oracles satisfying both binding hypotheses (known findings
   exact.eip712.fee-memo-not-signed / exact.ethraw.fee-memo-not-signed, reproduced on the real code) *)
Theorem C02_exact_refuted_eip712 :
  exists verify recover addr_of_pk eth_sender c s t1 t2 s1 s2,
    sig_binds_doc verify /\ sig_binds_digest recover /\
    ante verify recover addr_of_pk eth_sender repaired c s t1 = Ok s1 /\
    ante verify recover addr_of_pk eth_sender repaired c s t2 = Ok s2 /\
    signers t1 = signers t2 /\ t_slots t1 = t_slots t2 /\ t_msgs t1 = t_msgs t2 /\ t_id t1 <> t_id t2.
Proof. exact exact_refuted_eip712. Qed.
Print Assumptions C02_exact_refuted_eip712.
Theorem C02_exact_refuted_ethraw :
  exists verify recover addr_of_pk eth_sender c s t1 t2 s1 s2,
    sig_binds_doc verify /\ sig_binds_digest recover /\
    ante verify recover addr_of_pk eth_sender repaired c s t1 = Ok s1 /\
    ante verify recover addr_of_pk eth_sender repaired c s t2 = Ok s2 /\
    signers t1 = signers t2 /\ t_slots t1 = t_slots t2 /\ t_msgs t1 = t_msgs t2 /\ t_id t1 <> t_id t2.
Proof. exact exact_refuted_ethraw. Qed.
Print Assumptions C02_exact_refuted_ethraw.

(* ---- the uint64 sequence.  While no sequence reaches 2^64 they only grow (so a wrap needs at least
   2^64 - seq accepted transactions of the account, or a genesis file that sets the sequence) ... *)
Theorem C02_sequence_monotone_until_wrap :
  forall verify recover addr_of_pk eth_sender v c ops s a acc, get_acc s a = Some acc ->
  0 <= a_seq acc -> a_seq acc + Z.of_nat (List.length ops) < two64 ->
  exists acc', get_acc (run verify recover addr_of_pk eth_sender v c s ops) a = Some acc' /\
               a_seq acc <= a_seq acc' <= a_seq acc + Z.of_nat (List.length ops).
Proof. exact run_seq_mono. Qed.
Print Assumptions C02_sequence_monotone_until_wrap.
(* ... without the bound both statements are REFUTED: 2^64-1 wraps to 0, and after 2^64 accepted
   transactions of the account the first one is accepted again *)
Theorem C02_sequence_wrap_refuted :
  forall v, exists s t s' acc acc', ante u_verify w_recover w_addr_of_pk w_eth_sender v w_ctx s t = Ok s' /\
    get_acc s 200 = Some acc /\ get_acc s' 200 = Some acc' /\ a_seq acc' < a_seq acc.
Proof. exact sequence_wrap_refuted. Qed.
Print Assumptions C02_sequence_wrap_refuted.
Theorem C02_replay_unbounded_refuted :
  forall v, exists s t s' ops, ante u_verify w_recover w_addr_of_pk w_eth_sender v w_ctx s t = Ok s' /\
    is_ok (ante u_verify w_recover w_addr_of_pk w_eth_sender v w_ctx (run u_verify w_recover w_addr_of_pk w_eth_sender v w_ctx s' ops) t) = true.
Proof. exact replay_unbounded_refuted. Qed.
Print Assumptions C02_replay_unbounded_refuted.

(* ---- non-vacuity: the hypotheses are satisfiable by non-trivial states and transactions *)
Example C02_nonvacuous_key : forall v,   (* ordinary DIRECT transaction by the key on record: accepted by every variant *)
  sound_for v e_honest = true /\
  ante e_verify e_recover w_addr_of_pk w_eth_sender v w_ctx w_state e_honest = Ok [(100, mkAcc None 0 5); (200, mkAcc (Some (Secp 200)) 4 6)].
Proof. exact ex_nonvacuous_key. Qed.
Example C02_nonvacuous_raw_eth :         (* honest raw Ethereum tx of an eth-style first-time signer, foreign key attached: repaired code accepts *)
  sound_for repaired e_raw_honest = true /\
  ante e_verify e_recover w_addr_of_pk w_eth_sender repaired w_ctx w_state e_raw_honest = Ok [(100, mkAcc (Some (Secp 1)) 1 5); (200, mkAcc (Some (Secp 200)) 3 6)].
Proof. exact ex_nonvacuous_raw_eth. Qed.
Example C02_nonvacuous_eip712 :
  ante e_verify e_recover w_addr_of_pk w_eth_sender repaired w_ctx w_state e_eip712 = Ok [(100, mkAcc (Some (Secp 1)) 1 5); (200, mkAcc (Some (Secp 200)) 3 6)].
Proof. exact ex_eip712_accepted. Qed.
Example C02_repaired_rejects_witnesses :
  is_ok (ante w_verify w_recover w_addr_of_pk w_eth_sender repaired w_ctx w_state w_forged) = false /\
  is_ok (ante w_verify w_recover w_addr_of_pk w_eth_sender repaired w_ctx w_state2 w_payer) = false.
Proof. exact ex_forged_rejected_when_repaired. Qed.
Example C02_nonvacuous_replay : seq_room w_state (1 + Z.of_nat (List.length [OpTx w_forged; OpNew 300 9; OpTx e_honest])).
Proof. exact ex_seq_room. Qed.
