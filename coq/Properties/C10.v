(* C10 -- Staking pools: shares match stake, pro-rata redemption, rewards reach stakers.
   Only statements, each closed by [exact] of a lemma from Proofs/Pools.v, and its assumptions. *)
From Sekai Require Import Base.Prelude Base.Dec Model.Pools Proofs.Pools.

(* For every history of delegate / undelegate / share transfer / claim / slash / reward allocation /
   auto-compound / begin- and end-block steps (failed steps leave the state unchanged), the bank supply
   of every share token equals the pool's recorded share total. *)
Theorem C10_share_supply_eq_book :
  forall v c ops s, (forall d, ssup s d = shares s d) -> forall d, ssup (run v c ops s) d = shares (run v c ops s) d.
Proof. exact share_supply_eq_book. Qed.
Print Assumptions C10_share_supply_eq_book.
