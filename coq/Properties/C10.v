(* C10 -- Staking pools: shares match stake, pro-rata redemption, rewards reach stakers.
   Only statements, each closed by [exact] of a lemma from Proofs/Pools.v, and its assumptions.
   The model (Model/Pools.v) is parametric in the two repair sites ([variant]); which variant the tree
   implements is read from the source on every run (Gen/C10Cfg.v) and used by the correspondence run.
   [run v c ops s] executes a history; a failing step leaves the state unchanged (cache discarded). *)
From Sekai Require Import Base.Prelude Base.Dec Model.Pools Proofs.Pools.

(* ---- shares match stake: for every history of delegate / undelegate / share transfer / claim / slash /
   reward allocation / auto-compound / begin- and end-block steps, the bank supply of every share token equals
   the pool's recorded share total *)
Theorem C10_share_supply_eq_book :
  forall v c ops s, (forall d, ssup s d = shares s d) -> forall d, ssup (run v c ops s) d = shares (run v c ops s) d.
Proof. exact share_supply_eq_book. Qed.
Print Assumptions C10_share_supply_eq_book.

(* ---- pro-rata redemption.  Full statement: in every reachable state a successful undelegation of stake x burns
   shares b with x <= stake*b/shares (+1/2).  REFUTED after a slash (GetPoolCoins multiplies by 1-slashed where it
   must divide): two equal delegators of 100, slash 1/2, the first redeems all 100 remaining stake for 50 shares. *)
Theorem C10_redeem_pro_rata_refuted :
  exists c who amts s s', (forall d, ssup s d = shares s d) /\ undelegate c who amts s = Ok s' /\ ~ pro_rata_at s amts /\
    stake s' 0 = 0 /\ sbal s' 0 0 = 50 /\ sbal s' 1 0 = 100.
Proof. exact redeem_pro_rata_refuted. Qed.
Print Assumptions C10_redeem_pro_rata_refuted.

(* what does hold: while the pool was never slashed, stake and shares are 1:1 in every reachable state ... *)
Theorem C10_unslashed_one_to_one :
  forall v c ops s, (slashed s = 0 -> forall d, stake s d = shares s d) ->
  slashed (run v c ops s) = 0 -> forall d, stake (run v c ops s) d = shares (run v c ops s) d.
Proof. exact unslashed_one_to_one. Qed.
Print Assumptions C10_unslashed_one_to_one.
(* ... and redemption from such a pool is exactly pro rata *)
Theorem C10_redeem_pro_rata_partial :
  forall c who amts s s', inv_unslashed s -> slashed s = 0 -> (forall d, 0 <= shares s d) ->
  undelegate c who amts s = Ok s' -> pro_rata_at s amts.
Proof. exact redeem_pro_rata_unslashed. Qed.
Print Assumptions C10_redeem_pro_rata_partial.

(* ---- claims: only after the unstaking period, exactly once, only by the account that undelegated.
   REFUTED for the variant without owner comparison: a stranger is paid, the owner's claim then fails. *)
Theorem C10_claim_owner_refuted :
  exists s s' u, find_undel 1 (undels s) = Some u /\ u_owner u = 0 /\
    claim (mkVariant false 0) 5 1 s = Ok s' /\ nbal s' 5 0 = nbal s 5 0 + 500 /\
    (exists e, claim (mkVariant false 0) 0 1 s' = Err e).
Proof. exact claim_owner_refuted. Qed.
Print Assumptions C10_claim_owner_refuted.

(* with the comparison: owner, expiry, exact amount out of the module account, record removed *)
Theorem C10_claim_only_by_owner_after_expiry :
  forall v who id s s', v_owner_check v = true -> claim v who id s = Ok s' ->
  exists u, find_undel id (undels s) = Some u /\ u_owner u = who /\ u_expiry u <= time s /\
    (forall a d, nbal s' a d = nbal s a d + (if a =? who then csum (u_amt u) d else 0)) /\
    (forall d, modb s' d = modb s d - csum (u_amt u) d) /\
    find_undel id (undels s') = None.
Proof. exact claim_only_by_owner_after_expiry. Qed.
Print Assumptions C10_claim_only_by_owner_after_expiry.

(* expiry holds in both variants *)
Theorem C10_claim_after_expiry :
  forall v who id s s', claim v who id s = Ok s' ->
  exists u, find_undel id (undels s) = Some u /\ u_expiry u <= time s /\
            (v_owner_check v = true -> u_owner u = who) /\ all_gte (modb s) (u_amt u) = true /\ s' = pay_undel s who u.
Proof. exact claim_spec. Qed.
Print Assumptions C10_claim_after_expiry.

(* exactly once (both variants): after a successful claim, whatever history follows, by whomever, a claim of the
   same id is refused *)
Theorem C10_claim_once :
  forall v c who id s s' ops who2, ids_bounded s -> claim v who id s = Ok s' ->
  exists e, claim v who2 id (run v c ops s') = Err e.
Proof. exact claim_once. Qed.
Print Assumptions C10_claim_once.
Theorem C10_undelegation_ids_bounded : forall v c ops s, ids_bounded s -> ids_bounded (run v c ops s).
Proof. exact ids_stay_bounded. Qed.
Print Assumptions C10_undelegation_ids_bounded.

(* ---- per-block allocation *)
(* the remainder goes to the treasury: after every allocation the treasury record is the fee collector balance *)
Theorem C10_remainder_to_treasury :
  forall c infl s s', allocate c infl s = Ok s' -> forall d, treas s' d = fee s' d.
Proof. exact remainder_to_treasury. Qed.
Print Assumptions C10_remainder_to_treasury.

(* signing proposer credited: REFUTED as the tree is (end rule 0).  After begin block, any transactions and end
   block the vote store is empty ... *)
Theorem C10_fresh_votes_wiped :
  forall v c dt commit p possible infl txs s s1 s3,
  v_end_rule v = 0 ->
  begin_block c dt commit p possible infl s = Ok s1 ->
  (forall o, In o txs -> is_tx o = true) ->
  end_block v c (run v c txs s1) = Ok s3 ->
  votes s3 = [].
Proof. exact fresh_votes_wiped. Qed.
Print Assumptions C10_fresh_votes_wiped.
(* ... and with an empty vote store an allocation credits nobody: fees and inflation all go to the treasury *)
Theorem C10_nobody_credited_without_votes :
  forall c infl s s', votes s = [] -> allocate c infl s = Ok s' ->
  nbal s' = nbal s /\ rew s' = rew s /\ stake s' = stake s /\
  (forall d, treas s' d = fee s d + (if d =? 0 then infl else 0)).
Proof. exact nobody_credited_without_votes. Qed.
Print Assumptions C10_nobody_credited_without_votes.
(* the concrete history: five blocks, validator 0 proposes and signs every one, 4000 fees per block *)
Theorem C10_signing_proposer_credited_refuted :
  let s := run (mkVariant false 0) demo_cfg five_blocks demo_init in
  nbal s 100 0 = 0 /\ rew s 0 0 = 0 /\ stake s 0 = 1000 /\ treas s 0 = 20000 /\ votes s = [].
Proof. exact signing_proposer_credited_refuted. Qed.
Print Assumptions C10_signing_proposer_credited_refuted.
(* with the repaired end rule the vote of every validator of the last commit survives the block (so its power is
   positive at the next allocation), and the same history credits proposer and delegator *)
Theorem C10_fresh_vote_survives_block :
  forall v c dt commit p possible infl txs s s1 s3 q,
  v_end_rule v = 1 -> 1 <= c_snap c ->
  begin_block c dt commit p possible infl s = Ok s1 -> In q commit ->
  (forall o, In o txs -> is_tx o = true) ->
  end_block v c (run v c txs s1) = Ok s3 ->
  1 <= count_votes q (votes s3).
Proof. exact fresh_vote_survives_block. Qed.
Print Assumptions C10_fresh_vote_survives_block.
Theorem C10_signing_proposer_credited_when_repaired :
  let s := run (mkVariant true 1) demo_cfg five_blocks demo_init in 0 < nbal s 100 0 /\ 0 < rew s 0 0.
Proof. exact signing_proposer_credited_when_repaired. Qed.
Print Assumptions C10_signing_proposer_credited_when_repaired.

(* credited total never exceeds the allocation: REFUTED by per-denom banker's rounding when the stake caps sum
   to 1: 6 units distributable, validator 3 + delegator 2 + 2 *)
Theorem C10_credited_le_allocation_refuted :
  let s0 := run (mkVariant false 0) demo_cfg
              [ODelegate 0 [(0, 1000); (1, 1000)]; OSetVotes [(0, 7); (0, 8); (0, 9); (0, 10)]; OFees [(1, 6)]] demo_init in
  let s := run (mkVariant false 0) demo_cfg [OAllocate true 0] s0 in
  fee s0 1 - treas s0 1 = 6 /\ nbal s 100 1 - nbal s0 100 1 = 3 /\ rew s 0 1 - rew s0 0 1 = 4.
Proof. exact credited_le_allocation_refuted. Qed.
Print Assumptions C10_credited_le_allocation_refuted.

(* non-vacuity: a reachable state with stake, transferred shares, a pending undelegation and rewards satisfies the
   hypotheses of the invariants above *)
Example C10_nonvacuous :
  let s := run (mkVariant true 1) demo_cfg (five_blocks ++ [OUndelegate 0 [(0, 300)]; OSendShares 0 1 [(0, 200)]]) demo_init in
  inv_supply s /\ inv_unslashed s /\ ids_bounded s /\ shares s 0 = 700 /\ sbal s 1 0 = 200 /\ List.length (undels s) = 1%nat.
Proof. exact busy_state_nonvacuous. Qed.
