(* C10 -- Staking pools: shares match stake, pro-rata redemption, rewards reach stakers.
   Only statements, each closed by [exact] of a lemma from Proofs/Pools.v / Proofs/PoolsTree.v, and its assumptions.
   The model (Model/Pools.v) is parametric in the repair sites ([variant]); [tree_variant] (Gen/C10Cfg.v) is
   what the tree implements NOW, read from the source on every run and used by the correspondence run.
   [run v c ops s] executes a history; a failing step leaves the state unchanged (cache discarded).
   tree_r0 = the tree before 86992ce/c0fbb8a, tree_r1 = with them, tree_r2 = + cd97a9e/33b3789/ca2cd55,
   tree_r3 = + 27b0386, tree_r4 = + a2421a4 (the tree now). *)
From Sekai Require Import Base.Prelude Base.Dec Model.Pools Gen.C10Cfg Model.C10Check Proofs.Pools Proofs.PoolsTree
  Proofs.PoolsRewards Proofs.PoolsChk.

(* ================= shares match stake: every history, every variant *)
Theorem C10_share_supply_eq_book :
  forall v c ops s, (forall d, ssup s d = shares s d) -> forall d, ssup (run v c ops s) d = shares (run v c ops s) d.
Proof. exact share_supply_eq_book. Qed.
Print Assumptions C10_share_supply_eq_book.
(* the token registry's supply record (TokenInfo.Supply) of the share tokens: follows only if Undelegate burns
   through the tokens keeper; REFUTED as the tree is (burn goes to the bank directly) *)
Theorem C10_registry_supply_eq_book :
  forall v c ops s, v_burn_registry v = true -> inv_registry s -> inv_registry (run v c ops s).
Proof. exact registry_supply_eq_book. Qed.
Print Assumptions C10_registry_supply_eq_book.
Theorem C10_registry_supply_refuted :
  let s := run tree_r2 demo_cfg partial_redeem demo_init in ssup s 0 = 1700 /\ shares s 0 = 1700 /\ tsup s 0 = 2000.
Proof. exact registry_supply_refuted. Qed.
Print Assumptions C10_registry_supply_refuted.

(* ================= pro-rata redemption.  FULL STRENGTH FOR THE TREE AS IT IS (ca2cd55, GetRedeemPoolCoins): in ANY state --
   after any number of slashes, by governance (27b0386: the slash-proposal path is the keeper's slash) or not -- a
   successful undelegation of stake x burns b shares with  x*shares <= stake*b < x*shares + stake *)
Theorem C10_redeem_pro_rata :
  forall c who amts s s', (forall d, 0 <= shares s d) -> undelegate tree_variant c who amts s = Ok s' ->
  exists pc, redeem_coins tree_variant s amts = Ok pc /\ fair s amts pc /\
             (forall d, sbal s' who d = sbal s who d - csum pc d) /\ (forall d, stake s' d = stake s d - csum amts d).
Proof. exact tree_redeem_pro_rata. Qed.
Print Assumptions C10_redeem_pro_rata.
Theorem C10_governance_slash_is_slash :
  forall c sl s, step tree_variant c (OSlashProposal sl) s = slash tree_variant c sl s.
Proof. exact tree_governance_slash. Qed.
Print Assumptions C10_governance_slash_is_slash.
(* REFUTED before ca2cd55 (GetPoolCoins multiplied by 1-slashed): two equal delegators of 100, slash 1/2, the first
   redeems all 100 remaining stake for 50 shares *)
Theorem C10_redeem_pro_rata_refuted_before_repair :
  exists c who amts s s', (forall d, ssup s d = shares s d) /\ undelegate tree_r1 c who amts s = Ok s' /\ ~ pro_rata_at s amts /\
    stake s' 0 = 0 /\ sbal s' 0 0 = 50 /\ sbal s' 1 0 = 100.
Proof. exact redeem_pro_rata_refuted. Qed.
Print Assumptions C10_redeem_pro_rata_refuted_before_repair.
(* old-variant statements: without the empty-burn guard a never-slashed pool is 1:1 in every reachable state, and
   redemption from it was fair; with the guard a later slash by exactly 0 resets Slashed on a diluted pool *)
Theorem C10_unslashed_one_to_one_before_guard :
  forall v c ops s, v_slash_guard v = false -> (slashed s = 0 -> forall d, stake s d = shares s d) ->
  slashed (run v c ops s) = 0 -> forall d, stake (run v c ops s) d = shares (run v c ops s) d.
Proof. exact unslashed_one_to_one. Qed.
Print Assumptions C10_unslashed_one_to_one_before_guard.
Theorem C10_unslashed_one_to_one_refuted_with_guard :
  let s := run tree_r3 demo_cfg [ODelegate 0 [(0, 100)]; ODelegate 1 [(0, 100)]; OSlash HALF; OSlash 0] demo_init in
  slashed s = 0 /\ stake s 0 = 100 /\ shares s 0 = 200.
Proof. exact unslashed_one_to_one_refuted_with_guard. Qed.
Print Assumptions C10_unslashed_one_to_one_refuted_with_guard.
Theorem C10_redeem_pro_rata_partial :
  forall amts s, inv_unslashed s -> slashed s = 0 -> (forall d, 0 <= shares s d) -> pro_rata_at s amts.
Proof. exact redeem_pro_rata_unslashed. Qed.
Print Assumptions C10_redeem_pro_rata_partial.

(* ================= claims: FULL STRENGTH FOR THE TREE AS IT IS -- only the account that undelegated, only after the
   unstaking period, exactly the recorded amount out of the module account, the record removed ... *)
Theorem C10_claim_only_by_owner_after_expiry :
  forall who id s s', claim tree_variant who id s = Ok s' ->
  exists u, find_undel id (undels s) = Some u /\ u_owner u = who /\ u_expiry u <= time s /\
    (forall a d, nbal s' a d = nbal s a d + (if a =? who then csum (u_amt u) d else 0)) /\
    (forall d, modb s' d = modb s d - csum (u_amt u) d) /\
    find_undel id (undels s') = None.
Proof. exact tree_claim_only_by_owner_after_expiry. Qed.
Print Assumptions C10_claim_only_by_owner_after_expiry.
(* ... exactly once: after a successful claim, whatever history follows, a claim of that id by anybody is refused *)
Theorem C10_claim_once :
  forall c who id s s' ops who2, (forall o, In o ops -> is_genesis o = false) ->
  ids_bounded s -> claim tree_variant who id s = Ok s' ->
  exists e, claim tree_variant who2 id (run tree_variant c ops s') = Err e.
Proof. exact tree_claim_once. Qed.
Print Assumptions C10_claim_once.
(* (a genesis export/import restores the id counter as the highest PENDING id, so after a round trip with no pending
   record ids start again at 1: the statement above is about histories on one chain; across a round trip ...) every
   pending record, the pool books, share supply and reward records survive and the counter stays at or above every
   pending id, so the next Undelegate cannot overwrite a pending record *)
Theorem C10_genesis_roundtrip_keeps_records :
  forall s s', genesis_roundtrip s = Ok s' ->
  undels s' = undels s /\ rew s' = rew s /\ stake s' = stake s /\ shares s' = shares s /\ ssup s' = ssup s /\ sbal s' = sbal s /\
  modb s' = modb s /\ (forall u, In u (undels s') -> u_id u < last s' + 1).
Proof. exact genesis_roundtrip_keeps_records. Qed.
Print Assumptions C10_genesis_roundtrip_keeps_records.
Theorem C10_undelegation_ids_bounded : forall v c ops s, ids_bounded s -> ids_bounded (run v c ops s).
Proof. exact ids_stay_bounded. Qed.
Print Assumptions C10_undelegation_ids_bounded.
(* the record an undelegation creates: owner = redeemer, expiry = now + unstaking period, nothing paid yet *)
Theorem C10_undelegate_records :
  forall v c who amts s s', undelegate v c who amts s = Ok s' ->
  undels s' = undels s ++ [mkUndel (last s + 1) who (time s + c_unstake c) amts] /\ last s' = last s + 1 /\
  nbal s' = nbal s /\ modb s' = modb s.
Proof. exact undelegate_records. Qed.
Print Assumptions C10_undelegate_records.
(* the old variant (before 86992ce): a stranger is paid, the owner's claim then fails *)
Theorem C10_claim_owner_refuted_before_repair :
  exists s s' u, find_undel 1 (undels s) = Some u /\ u_owner u = 0 /\
    claim tree_r0 5 1 s = Ok s' /\ nbal s' 5 0 = nbal s 5 0 + 500 /\ (exists e, claim tree_r0 0 1 s' = Err e).
Proof. exact claim_owner_refuted. Qed.
Print Assumptions C10_claim_owner_refuted_before_repair.

(* ================= per-block allocation *)
Theorem C10_remainder_to_treasury :
  forall v c infl s s', allocate v c infl s = Ok s' -> forall d, treas s' d = fee s' d.
Proof. exact remainder_to_treasury. Qed.
Print Assumptions C10_remainder_to_treasury.

(* signing proposer credited, FULL STRENGTH FOR THE TREE AS IT IS, in two steps: (1) a validator that signed and
   proposed a block has, after that block, a positive signing record and is the previous proposer ... *)
Theorem C10_signing_proposer_has_power :
  forall c dt commit p possible infl txs s s1 s3, 1 <= c_snap c ->
  begin_block tree_variant c dt commit p possible infl s = Ok s1 -> In (p, true) commit ->
  (forall o, In o txs -> is_tx o = true) ->
  end_block tree_variant c (run tree_variant c txs s1) = Ok s3 ->
  1 <= count_votes (prev s3) (votes s3).
Proof. exact tree_signing_proposer_has_power. Qed.
Print Assumptions C10_signing_proposer_has_power.
(* ... (2) and any allocation in which the previous proposer's fee cut (by its record) is worth one unit of
   validator share in some denom pays its account a positive amount of that denom *)
Theorem C10_signing_proposer_credited :
  forall v c infl s s' d, is_validator (prev s) = true -> In d (c_dens c) ->
  PREC <= fee_cut c s (count_votes (prev s) (votes s)) d * Z.min (c_vfs c) PREC ->
  allocate v c infl s = Ok s' ->
  nbal s (val_acct (prev s)) d < nbal s' (val_acct (prev s)) d.
Proof. exact signing_proposer_credited. Qed.
Print Assumptions C10_signing_proposer_credited.
(* the old variant (before c0fbb8a): the vote store is empty after every block, and then nobody is credited *)
Theorem C10_fresh_votes_wiped_before_repair :
  forall v c dt commit p possible infl txs s s1 s3, v_end_rule v = 0 ->
  begin_block v c dt commit p possible infl s = Ok s1 -> (forall o, In o txs -> is_tx o = true) ->
  end_block v c (run v c txs s1) = Ok s3 -> votes s3 = [].
Proof. exact fresh_votes_wiped. Qed.
Print Assumptions C10_fresh_votes_wiped_before_repair.
Theorem C10_nobody_credited_without_votes :
  forall v c infl s s', count_votes (prev s) (votes s) = 0 -> allocate v c infl s = Ok s' ->
  nbal s' = nbal s /\ rew s' = rew s /\ stake s' = stake s /\
  (forall d, treas s' d = fee s d + (if d =? 0 then infl else 0)).
Proof. exact nobody_credited_without_votes. Qed.
Print Assumptions C10_nobody_credited_without_votes.
Theorem C10_signing_proposer_credited_refuted_before_repair :
  let s := run tree_r0 demo_cfg (five_blocks true) demo_init in
  nbal s 100 0 = 0 /\ rew s 0 0 = 0 /\ stake s 0 = 1000 /\ treas s 0 = 20000 /\ votes s = [].
Proof. exact signing_proposer_credited_refuted. Qed.
Print Assumptions C10_signing_proposer_credited_refuted_before_repair.

(* "by its signing record": FULL STRENGTH FOR THE TREE AS IT IS (33b3789): a vote at the new height exists only for
   validators with SignedLastBlock ... *)
Theorem C10_votes_only_for_signers :
  forall c dt commit p possible infl s s1 q,
  begin_block tree_variant c dt commit p possible infl s = Ok s1 ->
  In (q, height s1) (votes s1) -> (forall w, In w (votes s) -> snd w <= height s) -> In (q, true) commit.
Proof. exact tree_votes_only_for_signers. Qed.
Print Assumptions C10_votes_only_for_signers.
(* ... REFUTED before the repair: validator 0 proposes five blocks without signing any, gets 4 votes and is paid *)
Theorem C10_signing_record_refuted_before_repair :
  let s := run tree_r1 demo_cfg (five_blocks false) demo_init in
  count_votes 0 (votes s) = 4 /\ 0 < nbal s 100 0 /\ 0 < rew s 0 0.
Proof. exact signing_record_refuted. Qed.
Print Assumptions C10_signing_record_refuted_before_repair.

(* rewards reach the pool's delegators: FULL STRENGTH FOR THE TREE AS IT IS (cd97a9e): redeeming part of one's stake
   keeps one a delegator; nobody else is ever dropped by an undelegation ... *)
Theorem C10_partial_undelegate_keeps_delegator :
  forall c who amts s s', undelegate tree_variant c who amts s = Ok s' ->
  In who (dels s) -> (exists d, In d (c_dens c) /\ 0 < sbal s' who d) -> In who (dels s').
Proof. exact tree_partial_undelegate_keeps_delegator. Qed.
Print Assumptions C10_partial_undelegate_keeps_delegator.
Theorem C10_others_stay_delegators :
  forall v c who amts s s' a, undelegate v c who amts s = Ok s' -> a <> who -> In a (dels s) -> In a (dels s').
Proof. exact others_stay_delegators. Qed.
Print Assumptions C10_others_stay_delegators.
(* ... REFUTED before the repair: after redeeming 300 of 1000 the holder of 700 shares is credited nothing *)
Theorem C10_delegator_dropped_refuted_before_repair :
  let s := run tree_r1 demo_cfg partial_redeem demo_init in
  sbal s 0 0 = 700 /\ dels s = [1] /\ rew s 0 0 = 0 /\ 0 < rew s 1 0.
Proof. exact delegator_dropped_refuted. Qed.
Print Assumptions C10_delegator_dropped_refuted_before_repair.

(* credited total never exceeds the allocation: REFUTED by per-denom banker's rounding when the stake caps sum
   to 1: 6 units distributable, validator 3 + delegator 2 + 2 *)
Theorem C10_credited_le_allocation_refuted :
  let s0 := run tree_r1 demo_cfg
              [ODelegate 0 [(0, 1000); (1, 1000)]; OSetVotes [(0, 7); (0, 8); (0, 9); (0, 10)]; OFees [(1, 6)]] demo_init in
  let s := run tree_r1 demo_cfg [OAllocate true 0] s0 in
  fee s0 1 - treas s0 1 = 6 /\ nbal s 100 1 - nbal s0 100 1 = 3 /\ rew s 0 1 - rew s0 0 1 = 4.
Proof. exact credited_le_allocation_refuted. Qed.
Print Assumptions C10_credited_le_allocation_refuted.

(* what does hold (the [_partial] bound): given the bank-ledger facts about the share tokens (holdings non-negative,
   the holdings of the duplicate-free delegator list add up to at most the pool's share record), for every reward
   denom the delegators together are credited at most the sum over the staked denoms of round(reward * StakeCap):
   the excess over the pool allocation is exactly that per-denom rounding, nothing systematic *)
Theorem C10_credited_le_allocation_partial :
  forall c s rw e, NoDup (dels s) -> NoDup (c_dens c) ->
  (forall a d, 0 <= sbal s a d) ->
  (forall d, zsum_map (fun a => sbal s a d) (dels s) <= shares s d) ->
  (forall r, 0 <= rw r) -> (forall d en mn cap, tok_of c d = Some (en, mn, cap) -> 0 <= cap) ->
  zsum_map (fun b => credit_all c s rw b e - rew s b e) (dels s)
  <= zsum_map (fun d => denom_allocation c s rw d e) (c_dens c).
Proof. exact delegators_credited_le_denom_allocations. Qed.
Print Assumptions C10_credited_le_allocation_partial.

(* ================= checker soundness (state clauses and the claim clauses): the spec checker that is run on the REAL
   observations accepts the observation of every state of every model history *)
Theorem C10_chk_sound_supply :
  forall v c ops s, inv_supply s -> ok_supply c (obs_of_st c (run v c ops s)) = true.
Proof. exact chk_sound_supply_run. Qed.
Print Assumptions C10_chk_sound_supply.
Theorem C10_chk_sound_registry :
  forall v c ops s, v_burn_registry v = true -> inv_registry s -> ok_registry c (obs_of_st c (run v c ops s)) = true.
Proof. exact chk_sound_registry_run. Qed.
Print Assumptions C10_chk_sound_registry.
Theorem C10_chk_sound_claim :
  forall v c who id s s', v_owner_check v = true -> claim v who id s = Ok s' ->
  exists ow ex am, find_rec id (o_undels (obs_of_st c s)) = Some (ow, ex, am) /\ ((ow =? who) = true) /\
                   ((ex <=? o_time (obs_of_st c s)) = true).
Proof. exact chk_sound_claim_owner_expiry. Qed.
Print Assumptions C10_chk_sound_claim.

(* rewards reach stakers also when their auto-compounding is refused (a2421a4): the allocation no longer panics, the
   compounding branch is discarded and the reward stays credited *)
Theorem C10_refused_compound_keeps_rewards :
  let s0 := run tree_r4 demo_cfg refused_compound_ops demo_init in
  let s := run tree_r4 demo_cfg [OAllocate true 0] s0 in
  is_ok (step tree_r4 demo_cfg (OAllocate true 0) s0) = true /\ rew s0 0 0 = 0 /\ 0 < rew s 0 0 /\ stake s 0 = stake s0 0 /\
  0 < nbal s 100 0.
Proof. exact refused_compound_keeps_rewards. Qed.
Print Assumptions C10_refused_compound_keeps_rewards.
Theorem C10_refused_compound_panicked_before_repair :
  is_panic (step tree_r3 demo_cfg (OAllocate true 0) (run tree_r3 demo_cfg refused_compound_ops demo_init)) = true.
Proof. exact refused_compound_panicked_before. Qed.
Print Assumptions C10_refused_compound_panicked_before_repair.

(* non-vacuity *)
Example C10_nonvacuous :
  let s := run tree_r2 demo_cfg (five_blocks true ++ [OUndelegate 0 [(0, 300)]; OSendShares 0 1 [(0, 200)]]) demo_init in
  inv_supply s /\ inv_unslashed s /\ ids_bounded s /\ shares s 0 = 700 /\ sbal s 1 0 = 200 /\ List.length (undels s) = 1%nat.
Proof. exact busy_state_nonvacuous. Qed.
Example C10_nonvacuous_two_slashes :
  let s := run tree_r2 demo_cfg [OSlash HALF] (slashed_pool tree_r2) in
  stake s 0 = 50 /\ shares s 0 = 200 /\
  redeem_coins tree_r2 s [(0, 25)] = Ok [(0, 100)] /\ is_ok (undelegate tree_r2 demo_cfg 0 [(0, 26)] s) = false.
Proof. exact redeem_pro_rata_after_two_slashes. Qed.
Example C10_nonvacuous_credited :
  (let s := run tree_r1 demo_cfg (five_blocks true) demo_init in 0 < nbal s 100 0 /\ 0 < rew s 0 0) /\
  (let s := run tree_r2 demo_cfg (five_blocks false) demo_init in
   count_votes 0 (votes s) = 0 /\ nbal s 100 0 = 0 /\ rew s 0 0 = 0 /\ count_votes 1 (votes s) = 4) /\
  (let s := run tree_r2 demo_cfg partial_redeem demo_init in
   sbal s 0 0 = 700 /\ dels s = [0; 1] /\ 0 < rew s 0 0 /\ rew s 0 0 < rew s 1 0).
Proof. exact (conj signing_proposer_credited_nonvacuous (conj signing_record_repaired delegator_kept_when_repaired)). Qed.
Example C10_nonvacuous_governance_slash :
  (let s := run tree_r2 demo_cfg [ODelegate 0 [(0, 100)]; ODelegate 1 [(0, 100)]; OSlashProposal HALF] demo_init in
   slashed s = 0 /\ stake s 0 = 200) /\
  (let s := run tree_r3 demo_cfg [ODelegate 0 [(0, 100)]; ODelegate 1 [(0, 100)]; OSlashProposal HALF] demo_init in
   slashed s = HALF /\ stake s 0 = 100 /\ shares s 0 = 200 /\ redeem_coins tree_r3 s [(0, 50)] = Ok [(0, 100)] /\
   is_ok (undelegate tree_r3 demo_cfg 0 [(0, 100)] s) = false /\ is_ok (undelegate tree_r3 demo_cfg 0 [(0, 50)] s) = true).
Proof. exact governance_slash_then_pro_rata. Qed.
